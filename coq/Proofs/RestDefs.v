(** Target statements about Mrest (Model/Rest.v), as [Prop]s, fixed in one place and type-checked
    before they are proved. Proofs: Proofs/RestSeq*.v (sequential layer: C15, C20_valid, C20_expire),
    Proofs/RestFine*.v (fine-grained layer: C20_once, C20_no_nil, C20_no_deadlock). No proofs here. *)
From Coq Require Import String.
From Ldlm Require Import Model.Base Model.Err Model.Seq Model.Track Model.Rest.
Local Open Scope Z_scope.

(** ** Sequential layer *)

(** the cookie of a request is valid: in the table, its idle deadline not reached *)
Definition valid_cookie (st : rstate) (c : option str) : Prop :=
  ∃ c' se, c = Some c' ∧ r_table st !! c' = Some se ∧ r_now st < rs_deadline se.

(** C20_valid, step form: a request is accepted iff its cookie is valid; then the idle deadline is re-armed to
    now + timeout and nothing else of the gateway changes; otherwise the answer is 401 and NOTHING changes:
    neither the lock server nor the table. ([QNoop 401] is excluded only because its own answer is 401.) *)
Definition T_C20_valid : Prop := ∀ cfg tmo st c q st' o,
  (st', o) ∈ rstep cfg tmo st (RRequest c q) → q ≠ QNoop 401 →
  (valid_cookie st c →
     401 ∉ statuses o ∧ r_now st' = r_now st ∧
     ∃ c' se, c = Some c' ∧ r_table st !! c' = Some se ∧
              r_table st' = <[c' := RSess (rs_sid se) (r_now st + tmo)]> (r_table st)) ∧
  (¬ valid_cookie st c → st' = st ∧ o = [ROStatus 401]).

(** C20_valid, history form (the gap rule): after ANY history the table is exactly the oracle's set of live
    sessions — created, not deleted, every gap between consecutive accepted requests (and creation) < timeout —
    each with deadline = instant of its last accepted request (or creation) + timeout, still in the future. *)
Definition gap_run (tmo : Z) (h : list revent) : gapst := fold_left (gap_step tmo) h gap_init.

Definition T_C20_gap_rule : Prop := ∀ cfg tmo h st os,
  0 < tmo → (st, os) ∈ rruns cfg tmo (rinit cfg) h →
  r_now st = gp_now (gap_run tmo h) ∧
  r_table st = (λ gs, RSess (gs_sid gs) (gs_last gs + tmo)) <$> gp_live (gap_run tmo h) ∧
  (∀ c se, r_table st !! c = Some se → r_now st < rs_deadline se).

(** hence acceptance of the next request is what the oracle says *)
Definition T_C20_gap_accept : Prop := ∀ cfg tmo h st os c q st' o,
  0 < tmo → (st, os) ∈ rruns cfg tmo (rinit cfg) h → q ≠ QNoop 401 →
  (st', o) ∈ rstep cfg tmo st (RRequest c q) →
  (gap_valid (gap_run tmo h) c = true → 401 ∉ statuses o) ∧
  (gap_valid (gap_run tmo h) c = false → st' = st ∧ o = [ROStatus 401]).

(** C20_expire: an advance that reaches a session's idle deadline removes the session and delivers its ConnEnd
    within that event; sessions whose deadline is not reached are untouched; ConnEnd is delivered for nobody else,
    and once each. *)
Definition expired_sids (target : Z) (st : rstate) : list str :=
  map (λ '(_, se), rs_sid se) (List.filter (λ '(_, se), rs_deadline se <=? target) (map_to_list (r_table st))).

Definition T_C20_expire : Prop := ∀ cfg tmo st dt st' o,
  (st', o) ∈ rstep cfg tmo st (RAdvance dt) →
  let target := r_now st + Z.max 0 dt in
  (∀ c se, r_table st !! c = Some se → rs_deadline se ≤ target →
           r_table st' !! c = None ∧ ROEnd (rs_sid se) ∈ o) ∧
  (∀ c se, r_table st !! c = Some se → target < rs_deadline se → r_table st' !! c = Some se) ∧
  (∀ c, r_table st !! c = None → r_table st' !! c = None) ∧
  ends o ≡ₚ expired_sids target st ∧
  r_now st' = Z.max (r_now st) target.

(** DELETE: a valid session ends with exactly one ConnEnd; anything else is refused and inert *)
Definition T_C20_delete : Prop := ∀ cfg tmo st c st' o,
  (st', o) ∈ rstep cfg tmo st (RDelete c) →
  match c with
  | Some c' =>
      match r_table st !! c' with
      | Some se => r_table st' = delete c' (r_table st) ∧ ends o = [rs_sid se] ∧ statuses o = [200]
      | None => st' = st ∧ o = [ROStatus 409]
      end
  | None => st' = st ∧ o = [ROStatus 500]
  end.

(** C15_equiv: the same abstract request list over REST and over gRPC. No REST session idles out ([gaps_ok]);
    cookies are fresh ([NoDup], uuid); drawn values supplied equal. Then run for run: the lock server's answers
    are equal, the final lock-server states are equal, and no REST request was refused. *)
Definition T_C15_equiv : Prop := ∀ cfg tmo items,
  0 < tmo → NoDup (cookies_of items) → gaps_ok tmo 0 ∅ items = true →
  (∀ i, AReq i (QNoop 401) ∉ items) →      (* a [QNoop]'s own answer is not 401 *)
  map (λ '((st, _), os), (r_seq st, map strip os)) (rest_runs cfg tmo (rinit cfg, ∅) items)
    = map (λ '((s, _), os), (s, os)) (grpc_runs cfg (init_state cfg, ∅) items) ∧
  (∀ r os, (r, os) ∈ rest_runs cfg tmo (rinit cfg, ∅) items → Forall (λ o, not_refused o = true) os).

(** C15_mixed: on ONE server, a request over a valid REST session is the same lock-server step as the request
    over a gRPC connection with that session id — whatever transport earlier grants came from. *)
Definition T_C15_transparent : Prop := ∀ cfg tmo st c se q ev,
  r_table st !! c = Some se → r_now st < rs_deadline se → req_event (rs_sid se) q = Some ev →
  map (λ '(st', o), (r_seq st', strip o)) (mstep cfg tmo st (MRest (RRequest (Some c) q)))
    = map (λ '(st', o), (r_seq st', strip o)) (mstep cfg tmo st (MGrpc ev)).

(** in particular a key granted over one transport is accepted over the other *)
Definition T_C15_mixed_rest_to_grpc : Prop := ∀ cfg tmo st c n sz lt k st1 o1 sid' st2 o2,
  (st1, o1) ∈ mstep cfg tmo st (MRest (RRequest (Some c) (QTry n sz lt k))) →
  ROSeq (OResp (RLock true k None)) ∈ o1 →
  (st2, o2) ∈ mstep cfg tmo st1 (MGrpc (EUnlock sid' n k)) →
  ROSeq (OResp (RUnlock true None)) ∈ o2.

Definition T_C15_mixed_grpc_to_rest : Prop := ∀ cfg tmo st sid n sz lt k st1 o1 c st2 o2,
  (st1, o1) ∈ mstep cfg tmo st (MGrpc (ETryLock (Some sid) n sz lt k)) →
  ROSeq (OResp (RLock true k None)) ∈ o1 →
  valid_cookie st1 (Some c) →
  (st2, o2) ∈ mstep cfg tmo st1 (MRest (RRequest (Some c) (QUnlock n k))) →
  ROSeq (OResp (RUnlock true None)) ∈ o2 ∧ 401 ∉ statuses o2.

(** the gateway's clock is the lock server's clock *)
Definition T_rest_clock : Prop := ∀ cfg tmo h st os,
  (st, os) ∈ rruns cfg tmo (rinit cfg) h → st_now (r_seq st) = r_now st.

(** ** Fine-grained layer: every schedule *)

Definition T_C20_once : Prop := ∀ pool sch c, pool_ok pool →
  let st := frun (finit pool) sch in
  (fs_connend (sess st c) ≤ 1)%nat ∧
  (fs_entry (sess st c) = true → fs_connend (sess st c) = 0%nat) ∧
  (fs_created (sess st c) = false → fs_connend (sess st c) = 0%nat) ∧
  (finished st → fs_created (sess st c) = true → fs_entry (sess st c) = false → fs_connend (sess st c) = 1%nat).

Definition T_C20_no_nil : Prop := ∀ pool sch t c p, pool_ok pool →
  let st := frun (finit pool) sch in
  f_pool st !! t = Some (c, p) →
  p ≠ Panic ∧ (p = Q1b → fs_entry (sess st c) = true).

Definition T_C20_no_deadlock : Prop := ∀ pool sch, pool_ok pool →
  let st := frun (finit pool) sch in
  (∃ t c p, f_pool st !! t = Some (c, p) ∧ final_pc p = false) →
  ∃ t, is_Some (fstep st (SRun t)).

(** no request is served on a session after its ConnEnd (the in-flight request finishes first) *)
Definition T_C20_serve_before_end : Prop := ∀ pool sch c, pool_ok pool →
  fs_late (sess (frun (finit pool) sch) c) = false.

(** the two mutexes exclude: owners are live threads at program points inside the critical section *)
Definition holds_s (p : pc) : bool :=
  match p with Q1 | Q1b | Q2 | Q3 | QF | D1 | D2 | D3 | D4 | DF | K1 | K2 | K3 | C1 | C2 | C3 | C4 | CA => true | _ => false end.
Definition holds_m (p : pc) : bool :=
  match p with Q3 | Q4 | Q5 | D6 | D7 | C4 | C5 | C6 => true | _ => false end.

Definition T_C20_mutex : Prop := ∀ pool sch t c p, pool_ok pool →
  let st := frun (finit pool) sch in
  f_pool st !! t = Some (c, p) →
  (holds_s p = true ↔ f_smtx st = Some t) ∧
  (∀ c', fs_mtx (sess st c') = Some t ↔ c' = c ∧ holds_m p = true).
