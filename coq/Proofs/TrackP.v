(** * The model satisfies the trace oracle (work package trackp)

    [Model/Track.v] is the executable trace predicate the checks run on every trace of the real server:
    [track_failures cfg h] lists the observations of the history [h] that contradict the property texts.
    This file proves that Mseq itself produces no such observation on any of its runs:
    [mseq_satisfies_oracle : track_failures cfg (zip h os) = []] for every well-formed history [h] and every
    run [(s, os)] of the model over it. (An earlier version of the oracle raised two false alarms, found by this
    proof attempt and corrected in Track.v: same-instant grants were checked in reverse order, and a grant handed
    off by an admin unlock by name was counted against the hold being released; the two histories are kept as
    positive examples in TrackPEx.v.) The statement covers the clause "C13:collected-before-min-idle": what the
    oracle remembers about lock objects ([t_mem]) is sound for the model state ([MI], TrackPMem.v). *)
From Coq Require Import Lia ZifyBool ZifyNat String.
From Ldlm Require Import Model.Base Model.Err Model.Seq Model.Track Proofs.SeqDefs Proofs.SeqLemmasKey Proofs.SeqInvBase
  Proofs.SeqInvOps Proofs.SeqInvTime Proofs.SeqInv Proofs.SeqTimeBase Proofs.SeqTime1
  Proofs.TrackPBase Proofs.TrackPOrder Proofs.TrackPRel Proofs.TrackPStep Proofs.TrackPTR Proofs.TrackPMem Proofs.TrackPProbe Proofs.TrackPAcq
  Proofs.TrackPUnl Proofs.TrackPRenew Proofs.TrackPSess Proofs.TrackPAdv Proofs.TrackPRst Proofs.TrackPIpc Proofs.TrackPMemEv.
From RecordUpdate Require Import RecordSet.
Import RecordSetNotations.
Local Open Scope Z_scope.

(** ** Well-formed histories *)

(** an admin Unlock by name that the oracle cannot attribute is resolved by the probe that follows it: the
    harness probes after every admin command *)
Definition next_ok (ev : event) (h' : list event) : Prop :=
  match ev with
  | EIpcUnlock _ None => match h' with [] => True | e :: _ => e = EProbe end
  | _ => True
  end.

(** every event is well-formed in the state in which it is executed, along every branch of the model *)
Fixpoint hist_ok (cfg : config) (s : sstate) (h : list event) : Prop :=
  match h with
  | [] => True
  | ev :: h' => ev_ok s ev ∧ hist_ok_ev s ev ∧ next_ok ev h' ∧ ∀ s' o, (s', o) ∈ sstep cfg s ev → hist_ok cfg s' h'
  end.

(** ** One step *)

Lemma TR_set_mem X cfg s t m : TR X cfg s t → TR X cfg s (t <| t_mem := m |>).
Proof. intros [H1 H2 H3 H4 H5 H6]. by split. Qed.
Lemma TRP_set_mem X cfg s t m : TRP X cfg s t → TRP X cfg s (t <| t_mem := m |>).
Proof. intros (n & hk & tm & H). exists n, hk, tm. exact H. Qed.

Section step.
  Context (X : nat → string → Prop) (cfg : config).

  (** the checks *)
  Lemma track_step0_ok s t ev s' o i :
    cfg_ok cfg → Inv cfg s → ev_ok s ev → hist_ok_ev s ev → TR X cfg s t → MI cfg s (t_mem t) → (s', o) ∈ sstep cfg s ev →
    TR X cfg s' (track_step0 cfg i ev o t) ∨ ((∃ n, ev = EIpcUnlock n None) ∧ TRP X cfg s' (track_step0 cfg i ev o t)).
  Proof.
    intros Hcfg HI Hok Hh HT HM Hin.
    destruct ev; simpl in Hin, Hok.
    - (* EConnect *) apply det_elem' in Hin. injection Hin as -> ->. left. destruct Hh as (_ & ? & ? & ?). by apply track_connect_ok.
    - (* EDisconnect *) apply det_elem' in Hin. left. eapply track_disconnect_ok; try done. by eapply hist_ok_ev_noshut.
    - (* ETryLock *) apply det_elem' in Hin. left. eapply track_trylock_ok; try done. by eapply hist_ok_ev_noshut.
    - (* ELock *) apply det_elem' in Hin. left. destruct Hok. eapply track_lock_ok; try done. by eapply hist_ok_ev_noshut.
    - (* EUnlock *) destruct (srv_unlock cfg name key s) as [[s1 [u e]] o1] eqn:Hu. apply det_elem' in Hin. injection Hin as -> ->.
      left. eapply track_unlock_ok; try done. by eapply hist_ok_ev_noshut.
    - (* ERenew *) apply det_elem' in Hin. left. eapply track_renew_ok; try done. by eapply hist_ok_ev_noshut.
    - (* ECancel *) apply det_elem' in Hin. left. eapply track_cancel_ok; try done. by eapply hist_ok_ev_noshut.
    - (* EAdvance *) left. eapply track_advance_ok; try done. by eapply hist_ok_ev_noshut.
    - (* ERestart *) left. by eapply track_restart_ok.
    - (* EShutdown *) apply det_elem' in Hin. left. eapply track_shutdown_ok; try done. by eapply hist_ok_ev_noshut.
    - (* EProbe *) apply det_elem' in Hin. injection Hin as -> ->. left. by apply track_probe_ok.
    - (* EIpcList *) apply det_elem' in Hin. injection Hin as -> ->. left. by apply track_ipclist_ok.
    - (* EIpcUnlock *)
      assert (st_shut s = false) as Hsh by (by eapply hist_ok_ev_noshut).
      destruct key as [k|].
      + left. unfold ipc_unlock in Hin. case_bool_decide; [by apply elem_of_nil in Hin|].
        apply elem_of_list_singleton in Hin. eapply track_ipc_key_ok; try done.
      + destruct (track_ipc_name_ok X cfg i name s s' o t) as [?|?]; try done; [by destruct Hh|by left|right; eauto].
  Qed.

  (** the memory (C13) *)
  Lemma mem_step_ok s t ev s' o (i : nat) :
    cfg_ok cfg → Inv cfg s → hist_ok_ev s ev → TR X cfg s t → MI cfg s (t_mem t) → (s', o) ∈ sstep cfg s ev →
    MI cfg s' (mem_step cfg ev o t).
  Proof.
    intros Hcfg HI Hh HT HM Hin.
    destruct ev; simpl in Hin.
    - apply det_elem' in Hin. injection Hin as -> ->. simpl. eapply MI_LEt; [done|]. apply LEt_same; by destruct (st_sessions s !! sid).
    - apply det_elem' in Hin. eapply mem_disconnect_ok; try done. by eapply hist_ok_ev_noshut.
    - apply det_elem' in Hin. by eapply mem_trylock_ok.
    - apply det_elem' in Hin. by eapply mem_lock_ok.
    - destruct (srv_unlock cfg name key s) as [[s1 [u e]] o1] eqn:Hu. apply det_elem' in Hin. injection Hin as -> ->. by eapply mem_unlock_ok.
    - apply det_elem' in Hin. simpl. eapply MI_LEt; [done|]. unfold srv_renew in Hin.
      destruct (lt <=? 0); [injection Hin as -> _; apply LEt_refl|]. destruct (st_timers s !! _); injection Hin as -> _; [by apply LEt_same|apply LEt_refl].
    - apply det_elem' in Hin. simpl. eapply MI_LEt; [done|].
      destruct (cancel_waiters_spec (λ w, bool_decide (w_id w = wid)) ECtxCanceled s) as (ws' & Ec & _). rewrite Ec in Hin.
      injection Hin as -> _. by apply LEt_same.
    - eapply (mem_advance_ok X cfg i); try done. by eapply hist_ok_ev_noshut.
    - simpl. apply MI_nil.
    - apply det_elem' in Hin. simpl. eapply MI_LEt; [done|]. unfold shutdown in Hin.
      destruct (cancel_waiters_spec (λ _, true) ECtxCanceled (s <| st_shut := true |>)) as (ws' & Ec & _). rewrite Ec in Hin.
      injection Hin as -> _. by apply LEt_same.
    - apply det_elem' in Hin. by injection Hin as -> ->.
    - apply det_elem' in Hin. by injection Hin as -> ->.
    - by eapply mem_ipc_ok.
  Qed.

  Lemma track_step_ok s t ev s' o i :
    cfg_ok cfg → Inv cfg s → ev_ok s ev → hist_ok_ev s ev → TR X cfg s t → MI cfg s (t_mem t) → (s', o) ∈ sstep cfg s ev →
    (TR X cfg s' (track_step cfg i ev o t) ∨ ((∃ n, ev = EIpcUnlock n None) ∧ TRP X cfg s' (track_step cfg i ev o t))) ∧
    MI cfg s' (t_mem (track_step cfg i ev o t)).
  Proof.
    intros Hcfg HI Hok Hh HT HM Hin. split; [|by eapply (mem_step_ok s t ev s' o i)].
    unfold track_step. destruct (track_step0_ok s t ev s' o i Hcfg HI Hok Hh HT HM Hin) as [?|[? ?]].
    - left. by apply TR_set_mem.
    - right. split; [done|]. by apply TRP_set_mem.
  Qed.

  Lemma track_step_pending_ok s t s' o i :
    Inv cfg s → TRP X cfg s t → MI cfg s (t_mem t) → (s', o) ∈ sstep cfg s EProbe →
    TR X cfg s' (track_step cfg i EProbe o t) ∧ MI cfg s' (t_mem (track_step cfg i EProbe o t)).
  Proof.
    intros HI HT HM Hin. simpl in Hin. apply det_elem' in Hin. injection Hin as -> ->. split; [|done].
    apply TR_set_mem. by apply track_probe_pending_ok.
  Qed.
End step.

(** ** Runs *)

Lemma elem_of_runs_cons cfg s ev h sf os : (sf, os) ∈ runs cfg s (ev :: h) ↔
  ∃ s1 o os', (s1, o) ∈ sstep cfg s ev ∧ (sf, os') ∈ runs cfg s1 h ∧ os = o :: os'.
Proof.
  simpl. rewrite elem_of_list_In, in_flat_map. split.
  - intros ([s1 o] & Hin & Hr). apply in_map_iff in Hr as ([s2 os'] & [= <- <-] & Hr). exists s1, o, os'.
    by rewrite !elem_of_list_In.
  - intros (s1 & o & os' & Hin & Hr & ->). exists (s1, o). split; [by apply elem_of_list_In|].
    apply in_map_iff. exists (sf, os'). split; [done|by apply elem_of_list_In].
Qed.

Section runs.
  Context (X : nat → string → Prop) (cfg : config) (Hcfg : cfg_ok cfg).

  Definition Rel (s : sstate) (t : tstate) (h : list event) : Prop :=
    (TR X cfg s t ∨ (TRP X cfg s t ∧ match h with [] => True | e :: _ => e = EProbe end)) ∧ MI cfg s (t_mem t).

  Lemma track_runs h : ∀ s t i sf os,
    Inv cfg s → hist_ok cfg s h → Rel s t h → (sf, os) ∈ runs cfg s h →
    fails_ok X (track cfg i (zip h os) t).
  Proof.
    induction h as [|ev h IH]; intros s t i sf os HI Hh [HR HM] Hin.
    - simpl. destruct HR as [HT|[(? & ? & ? & _ & _ & _ & _ & _ & _ & _ & _ & _ & ?) _]]; [apply (tr_fail _ _ _ _ HT)|done].
    - apply elem_of_runs_cons in Hin as (s1 & o & os' & Hst & Hr & ->). simpl.
      destruct Hh as (Hok & Hhe & Hnext & Hrest).
      pose proof (inv_step _ _ _ _ _ Hcfg HI Hok Hst) as HI1.
      apply (IH s1 _ (S i) sf os' HI1 (Hrest _ _ Hst)); [|done].
      destruct HR as [HT|[HT ->]].
      + destruct (track_step_ok X cfg s t ev s1 o i Hcfg HI Hok Hhe HT HM Hst) as [[?|[[n ->] ?]] HM1].
        * split; [by left|done].
        * split; [|done]. right. split; [done|]. simpl in Hnext. by destruct h.
      + destruct (track_step_pending_ok X cfg s t s1 o i HI HT HM Hst) as [? ?]. split; [by left|done].
  Qed.
End runs.

Lemma TR_init X cfg : TR X cfg (init_state cfg) t_init.
Proof.
  split.
  - done.
  - done.
  - simpl. split.
    + constructor.
    + by intros ? ?%elem_of_nil.
    + intros c (o & Ho & _). by rewrite lookup_empty in Ho.
    + by intros ? ?%elem_of_nil.
    + by intros _ ? ?%elem_of_nil.
    + by intros ? ? ?%elem_of_nil.
  - constructor.
  - split_and!; by intros ? ?%elem_of_nil.
  - by intros ? ? ?%elem_of_nil.
Qed.

(** ** The theorem *)

Theorem mseq_satisfies_oracle cfg h s os :
  cfg_ok cfg → hist_ok cfg (init_state cfg) h → (s, os) ∈ runs cfg (init_state cfg) h →
  track_failures cfg (zip h os) = [].
Proof.
  intros Hcfg Hh Hin. unfold track_failures.
  pose proof (track_runs (λ _ _, False) cfg Hcfg h (init_state cfg) t_init 0%nat s os (inv_init _ Hcfg) Hh) as H.
  destruct (t_fail (track cfg 0 (zip h os) t_init)) as [|[j tag] r] eqn:E; [done|]. exfalso.
  apply (H ltac:(split; [left; apply TR_init|apply MI_nil]) Hin j tag). rewrite E. left.
Qed.

Print Assumptions mseq_satisfies_oracle.
