(** * The model satisfies the trace oracle (work package trackp)

    [Model/Track.v] is the executable trace predicate the checks run on every trace of the real server:
    [track_failures cfg h] lists the observations of the history [h] that contradict the property texts.
    This file proves that Mseq itself produces no such observation on any of its runs — up to two clauses
    of the oracle that are too strict (they raise false alarms on traces the model, and hence a correct
    server, can produce):

    - "C03:not-fifo" when one event completes two parked calls with a grant at the same instant
      ([sort_completions] reverses the order of same-instant completions, so the second grant of a lock
      is checked before the first);
    - "C01:grant-over-capacity" for a grant handed off by an admin Unlock *by name* ([EIpcUnlock n None]):
      the oracle reads the completions before it has removed the released hold from its list.

    [mseq_oracle_excused] is the full-strength statement: every failure the oracle reports on a run of the
    model is one of these two, at an event where the excuse applies. [mseq_satisfies_oracle] and
    [mseq_satisfies_oracle_without] are its two corollaries in the shape of DESIGN 2. *)
From Coq Require Import Lia ZifyBool ZifyNat String.
From Ldlm Require Import Model.Base Model.Err Model.Seq Model.Track Proofs.SeqDefs Proofs.SeqLemmasKey Proofs.SeqInvBase
  Proofs.SeqInvOps Proofs.SeqInvTime Proofs.SeqInv Proofs.SeqTimeBase Proofs.SeqTime1
  Proofs.TrackPBase Proofs.TrackPOrder Proofs.TrackPRel Proofs.TrackPStep Proofs.TrackPTR Proofs.TrackPProbe Proofs.TrackPAcq
  Proofs.TrackPUnl Proofs.TrackPRenew Proofs.TrackPSess Proofs.TrackPAdv Proofs.TrackPRst Proofs.TrackPIpc.
From RecordUpdate Require Import RecordSet.
Import RecordSetNotations.
Local Open Scope Z_scope.

(** ** The two excuses *)

Definition has_grant (o : list out) : Prop := ∃ c, c ∈ comps o ∧ is_grant (c_resp c) = true.

Definition excused (ev : event) (o : list out) (tag : string) : Prop :=
  (tag = "C03:not-fifo"%string ∧ multi_grant (comps o)) ∨
  (tag = "C01:grant-over-capacity"%string ∧ (∃ n, ev = EIpcUnlock n None) ∧ has_grant o).

(** ** Well-formed histories *)

(** an admin Unlock by name that the oracle cannot attribute is resolved by the probe that follows it: the
    harness probes after every admin command *)
Definition next_ok (ev : event) (h' : list event) : Prop :=
  match ev with
  | EIpcUnlock _ None => match h' with [] => True | e :: _ => e = EProbe end
  | _ => True
  end.

(** every event is well-formed in the state in which it is executed, along every branch of the model *)
Fixpoint hist_ok (cfg : config) (s : sstate) (h : list event) : Prop :=
  match h with
  | [] => True
  | ev :: h' => ev_ok s ev ∧ hist_ok_ev s ev ∧ next_ok ev h' ∧ ∀ s' o, (s', o) ∈ sstep cfg s ev → hist_ok cfg s' h'
  end.

(** ** One step *)

Section step.
  Context (X : nat → string → Prop) (cfg : config).

  Lemma track_step_ok s t ev s' o i :
    cfg_ok cfg → Inv cfg s → ev_ok s ev → hist_ok_ev s ev → TR X cfg s t → (s', o) ∈ sstep cfg s ev →
    (∀ tag, excused ev o tag → X i tag) →
    TR X cfg s' (track_step cfg i ev o t) ∨ ((∃ n, ev = EIpcUnlock n None) ∧ TRP X cfg s' (track_step cfg i ev o t)).
  Proof.
    intros Hcfg HI Hok Hh HT Hin HX.
    assert (multi_grant (comps o) → X i "C03:not-fifo"%string) as HM by (intros; apply HX; by left).
    destruct ev; simpl in Hin, Hok.
    - (* EConnect *) apply det_elem' in Hin. injection Hin as -> ->. left. by apply track_connect_ok.
    - (* EDisconnect *) apply det_elem' in Hin. left. eapply track_disconnect_ok; try done. by eapply hist_ok_ev_noshut.
    - (* ETryLock *) apply det_elem' in Hin. left. eapply track_trylock_ok; try done. by eapply hist_ok_ev_noshut.
    - (* ELock *) apply det_elem' in Hin. left. destruct Hok. eapply track_lock_ok; try done. by eapply hist_ok_ev_noshut.
    - (* EUnlock *) destruct (srv_unlock cfg name key s) as [[s1 [u e]] o1] eqn:Hu. apply det_elem' in Hin. injection Hin as -> ->.
      left. eapply track_unlock_ok; try done. by eapply hist_ok_ev_noshut.
    - (* ERenew *) apply det_elem' in Hin. left. eapply track_renew_ok; try done. by eapply hist_ok_ev_noshut.
    - (* ECancel *) apply det_elem' in Hin. left. eapply track_cancel_ok; try done. by eapply hist_ok_ev_noshut.
    - (* EAdvance *) left. eapply track_advance_ok; try done. by eapply hist_ok_ev_noshut.
    - (* ERestart *) left. by eapply track_restart_ok.
    - (* EShutdown *) apply det_elem' in Hin. left. eapply track_shutdown_ok; try done. by eapply hist_ok_ev_noshut.
    - (* EProbe *) apply det_elem' in Hin. injection Hin as -> ->. left. by apply track_probe_ok.
    - (* EIpcList *) apply det_elem' in Hin. injection Hin as -> ->. left. by apply track_ipclist_ok.
    - (* EIpcUnlock *)
      assert (st_shut s = false) as Hsh by (by eapply hist_ok_ev_noshut).
      destruct key as [k|].
      + left. unfold ipc_unlock in Hin. case_bool_decide; [by apply elem_of_nil in Hin|].
        apply elem_of_list_singleton in Hin. eapply track_ipc_key_ok; try done.
      + destruct (track_ipc_name_ok X cfg i name s s' o t) as [?|?]; try done; [by destruct Hh| |by left|right; eauto].
        intros Hg. apply HX. right. split; [done|]. split; [eauto|done].
  Qed.

  Lemma track_step_pending_ok s t s' o i :
    Inv cfg s → TRP X cfg s t → (s', o) ∈ sstep cfg s EProbe → TR X cfg s' (track_step cfg i EProbe o t).
  Proof. intros HI HT Hin. simpl in Hin. apply det_elem' in Hin. injection Hin as -> ->. by apply track_probe_pending_ok. Qed.
End step.

(** ** Runs *)

Lemma elem_of_runs_cons cfg s ev h sf os : (sf, os) ∈ runs cfg s (ev :: h) ↔
  ∃ s1 o os', (s1, o) ∈ sstep cfg s ev ∧ (sf, os') ∈ runs cfg s1 h ∧ os = o :: os'.
Proof.
  simpl. rewrite elem_of_list_In, in_flat_map. split.
  - intros ([s1 o] & Hin & Hr). apply in_map_iff in Hr as ([s2 os'] & [= <- <-] & Hr). exists s1, o, os'.
    by rewrite !elem_of_list_In.
  - intros (s1 & o & os' & Hin & Hr & ->). exists (s1, o). split; [by apply elem_of_list_In|].
    apply in_map_iff. exists (sf, os'). split; [done|by apply elem_of_list_In].
Qed.

Section runs.
  Context (X : nat → string → Prop) (cfg : config) (Hcfg : cfg_ok cfg).

  Definition Rel (s : sstate) (t : tstate) (h : list event) : Prop :=
    TR X cfg s t ∨ (TRP X cfg s t ∧ match h with [] => True | e :: _ => e = EProbe end).

  Lemma track_runs h : ∀ s t i sf os,
    Inv cfg s → hist_ok cfg s h → Rel s t h → (sf, os) ∈ runs cfg s h →
    (∀ j ev o, zip h os !! j = Some (ev, o) → ∀ tag, excused ev o tag → X (i + j)%nat tag) →
    fails_ok X (track cfg i (zip h os) t).
  Proof.
    induction h as [|ev h IH]; intros s t i sf os HI Hh HR Hin HX.
    - simpl. destruct HR as [HT|[(? & ? & ? & _ & _ & _ & _ & _ & _ & _ & ?) _]]; [apply (tr_fail _ _ _ _ HT)|done].
    - apply elem_of_runs_cons in Hin as (s1 & o & os' & Hst & Hr & ->). simpl.
      destruct Hh as (Hok & Hhe & Hnext & Hrest).
      pose proof (inv_step _ _ _ _ _ Hcfg HI Hok Hst) as HI1.
      apply (IH s1 _ (S i) sf os' HI1 (Hrest _ _ Hst)); [|done|].
      + destruct HR as [HT|[HT ->]].
        * destruct (track_step_ok X cfg s t ev s1 o i Hcfg HI Hok Hhe HT Hst) as [?|[[n ->] ?]].
          -- intros tag Hex. replace i with (i + 0)%nat by lia. by eapply (HX 0%nat).
          -- by left.
          -- right. split; [done|]. simpl in Hnext. by destruct h.
        * left. exact (track_step_pending_ok X cfg s t s1 o i HI HT Hst).
      + intros j ev' o' Hj tag Hex. replace (S i + j)%nat with (i + S j)%nat by lia. by eapply (HX (S j)).
  Qed.
End runs.

Lemma TR_init X cfg : TR X cfg (init_state cfg) t_init.
Proof.
  split.
  - done.
  - done.
  - simpl. split.
    + constructor.
    + by intros ? ?%elem_of_nil.
    + intros c (o & Ho & _). by rewrite lookup_empty in Ho.
    + by intros ? ?%elem_of_nil.
    + by intros _ ? ?%elem_of_nil.
    + by intros ? ? ?%elem_of_nil.
  - constructor.
  - by intros ? ? ?%elem_of_nil.
Qed.

(** ** The theorems *)

(** every failure the oracle reports on a run of the model is one of the two excused false alarms *)
Theorem mseq_oracle_excused cfg h s os :
  cfg_ok cfg → hist_ok cfg (init_state cfg) h → (s, os) ∈ runs cfg (init_state cfg) h →
  ∀ j tag, (j, tag) ∈ track_failures cfg (zip h os) → ∃ ev o, zip h os !! j = Some (ev, o) ∧ excused ev o tag.
Proof.
  intros Hcfg Hh Hin j tag Hj. unfold track_failures in Hj. rewrite elem_of_list_In, <- in_rev, <- elem_of_list_In in Hj.
  set (X := λ (j : nat) (tag : string), ∃ ev o, zip h os !! j = Some (ev, o) ∧ excused ev o tag).
  eapply (track_runs X cfg Hcfg h (init_state cfg) t_init 0%nat s os); [by apply inv_init|done|left; apply TR_init|done| |exact Hj].
  intros j' ev o Hj' tag' Hex. exists ev, o. done.
Qed.

(** histories on which neither excuse can apply *)
Definition no_excuse (tr : list (event * list out)) : Prop :=
  ∀ ev o, (ev, o) ∈ tr → ¬ multi_grant (comps o) ∧ ((∃ n, ev = EIpcUnlock n None) → ¬ has_grant o).

Theorem mseq_satisfies_oracle cfg h s os :
  cfg_ok cfg → hist_ok cfg (init_state cfg) h → (s, os) ∈ runs cfg (init_state cfg) h →
  no_excuse (zip h os) → track_failures cfg (zip h os) = [].
Proof.
  intros Hcfg Hh Hin Hne. destruct (track_failures cfg (zip h os)) as [|[j tag] r] eqn:E; [done|]. exfalso.
  destruct (mseq_oracle_excused cfg h s os Hcfg Hh Hin j tag) as (ev & o & Hl & Hex); [rewrite E; left|].
  apply elem_of_list_lookup_2 in Hl. destruct (Hne _ _ Hl) as [H1 H2].
  destruct Hex as [[_ ?]|(_ & ? & ?)]; [done|by apply H2].
Qed.

(** the oracle restricted to the remaining tags *)
Definition track_failures_without (tags : list string) (cfg : config) (tr : list (event * list out)) : list (nat * string) :=
  List.filter (λ x, negb (existsb (String.eqb (snd x)) tags)) (track_failures cfg tr).

Definition excluded_tags : list string := ["C03:not-fifo"%string; "C01:grant-over-capacity"%string].

Theorem mseq_satisfies_oracle_without cfg h s os :
  cfg_ok cfg → hist_ok cfg (init_state cfg) h → (s, os) ∈ runs cfg (init_state cfg) h →
  track_failures_without excluded_tags cfg (zip h os) = [].
Proof.
  intros Hcfg Hh Hin. unfold track_failures_without. apply lfilter_none. intros [j tag] Hj.
  destruct (mseq_oracle_excused cfg h s os Hcfg Hh Hin j tag Hj) as (ev & o & _ & [[-> _]|(-> & _)]); done.
Qed.

Print Assumptions mseq_oracle_excused.
Print Assumptions mseq_satisfies_oracle.
Print Assumptions mseq_satisfies_oracle_without.
