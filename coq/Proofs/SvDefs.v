(** Definitions shared by the proofs about Msv (Model/Sv.v): which schedules are meaningful ([sitem_ok]),
    reachability, the invariant of every reachable state (ALL interleavings of the server's critical sections),
    and the target statements for C05, C06, C09, C11 as [Prop]s. No proofs here. *)
From Ldlm Require Import Model.Base Model.Err Model.Sv.
Local Open Scope Z_scope.

(** ** Vocabulary *)
Definition op_key' (o : sop) : option str :=
  match o with STry _ _ k _ _ | SLock _ _ k _ _ | SUnlock _ k | SRenew _ k _ => Some k | _ => None end.
Definition is_acq (o : sop) : bool := match o with STry _ _ _ _ _ | SLock _ _ _ _ _ => true | _ => false end.

Definition slive (s : svstate) (n k : str) : Prop := ∃ a, v_locks s !! n = Some a ∧ k ∈ al_live a.

(** thread [t] is the call that drew key [k] on lock [n] in session [sid] *)
Definition acquirer (t : sthread) (sid n k : str) (z : Z) : Prop :=
  ∃ lt, st_op t = STry sid n k z lt ∨ st_op t = SLock sid n k z lt.

(** the grant of key [k] reached its client: the call has answered locked=true and the client was still there
    (a response to a caller whose connection is gone is never seen by anybody; keys are unguessable) *)
Definition delivered (s : svstate) (k : str) : Prop :=
  ∃ tid t sid n z, v_thr s !! tid = Some t ∧ acquirer t sid n k z ∧ st_pc t = VFin (SResp true None) ∧ st_cancel t ≠ Some ECtxCanceled.

Definition ev_in (e : sev) (s : svstate) : Prop := e ∈ v_trace s.

(** the session ids for which a connection was opened, newest first *)
Definition connects (tr : list sev) : list str := omap (λ e, match e with SvConnect sid => Some sid | _ => None end) tr.

(** the network is up: the closer (if any) has not yet stopped it *)
Definition net_open (s : svstate) : Prop :=
  ∀ tid t, v_thr s !! tid = Some t → st_op t = SShutdown → st_pc t = VShFlag ∨ st_pc t = VShNet.

(** ** Meaningful schedule items *)
Definition sitem_ok (s : svstate) (it : sitem) : Prop :=
  match it with
  | VCall tid op =>
      match op with
      | STry sid _ k z lt | SLock sid _ k z lt =>
          (* uuid: a key never seen before in any call *)
          (∀ tid' t', v_thr s !! tid' = Some t' → op_key' (st_op t') ≠ Some k) ∧
          (* requests arrive on a live connection *)
          ev_in (SvConnect sid) s ∧ ¬ ev_in (SvConnEnd sid) s ∧
          (* validated parameters *)
          (∀ t, lt = Some t → 0 ≤ t) ∧
          (* the listeners are closed by the closer's network stop: no new request afterwards *)
          net_open s
      | SUnlock _ k =>
          (* nobody can present a key before its grant was delivered to a client *)
          (∀ tid' t', v_thr s !! tid' = Some t' → is_acq (st_op t') = true → op_key' (st_op t') = Some k → delivered s k) ∧ net_open s
      | SRenew _ k lt =>
          (∀ tid' t', v_thr s !! tid' = Some t' → is_acq (st_op t') = true → op_key' (st_op t') = Some k → delivered s k) ∧ 0 < lt ∧ net_open s
      | _ => True
      end
  | VConnect sid => ¬ ev_in (SvConnect sid) s            (* session ids are fresh *)
  | VConnEnd sid => ev_in (SvConnect sid) s ∧ ¬ ev_in (SvConnEnd sid) s     (* a connection ends once *)
  | VSignal => ¬ ev_in SvSignal s
  | VCancel tid cause =>
      (* the caller goes away at any time; the wait timeout (lockCtx of LockServer.Lock) is consulted only inside
         lockMgr.Lock — once that call has returned, the deadline has no effect in the code *)
      cause = ECtxCanceled ∨
      (cause = ESrvLockWaitTimeout ∧ ∃ t, v_thr s !! tid = Some t ∧ (st_pc t = VMgrLock ∨ st_pc t = VWait ∨ st_pc t = VWoken))
  | VTick _ | VRun _ => True
  end.

Inductive vreach (cfg : svcfg) : svstate → Prop :=
| vreach_init : vreach cfg sv_init
| vreach_step s it : vreach cfg s → sitem_ok s it → vreach cfg (vstep cfg s it).

(** ** The invariant *)
Definition entry_of (s : svstate) (sid : str) (c : clock) : Prop := ∃ l, v_sess s !! sid = Some l ∧ c ∈ l.
Definition armed_at (s : svstate) (tk : str) (id : nat) (tm : stimer) (d : Z) : Prop :=
  v_timers s !! tk = Some id ∧ v_theap s !! id = Some tm ∧ tm_st tm = TArmed d.

(** the expiry of hold (n,k) is in progress: its callback goroutine exists and its very next step releases the hold *)
Definition expiry_pending (s : svstate) (n k : str) : Prop :=
  ∃ tid t id tm, v_thr s !! tid = Some t ∧ st_op t = SExpire id ∧ st_pc t = VCbUnlock ∧ v_theap s !! id = Some tm ∧ tm_n tm = n ∧ tm_k tm = k.
(** the holds a DestroySession call still has to release *)
Definition ds_pending (pc : spc) (c : clock) : Prop :=
  match pc with VDsTmRemove todo => c ∈ todo | VDsUnlock c' todo => c = c' ∨ c ∈ todo | _ => False end.

Record SvInv (cfg : svcfg) (s : svstate) : Prop := {
  vi_not_crashed : v_crashed s = false;
  (* --- the counting lock --- *)
  vi_cap : ∀ n a, v_locks s !! n = Some a → 0 < al_size a ∧ Z.of_nat (length (al_live a)) ≤ al_size a ∧ NoDup (al_live a) ∧ NoDup (al_q a);
  vi_no_lost_wakeup : ∀ n a, v_locks s !! n = Some a → al_q a ≠ [] → Z.of_nat (length (al_live a)) = al_size a;
  vi_queue : ∀ n a tid, v_locks s !! n = Some a → (tid ∈ al_q a ↔ ∃ t sid k z lt, v_thr s !! tid = Some t ∧ st_op t = SLock sid n k z lt ∧ st_pc t = VWait);
  (* a parked call is parked on an existing lock object *)
  vi_wait_lock : ∀ tid t sid n k z lt, v_thr s !! tid = Some t → st_op t = SLock sid n k z lt → st_pc t = VWait → is_Some (v_locks s !! n);
  (* every live key is the key of exactly one acquisition call, which is past its grant *)
  vi_live_owner : ∀ n k, slive s n k → ∃ tid t sid z, v_thr s !! tid = Some t ∧ acquirer t sid n k z ∧
      (st_pc t = VWoken ∨ st_pc t = VSessAdd ∨ st_pc t = VTmAdd ∨ st_pc t = VFin (SResp true None));
  vi_keys_fresh : ∀ t1 t2 x1 x2 k, v_thr s !! t1 = Some x1 → v_thr s !! t2 = Some x2 → is_acq (st_op x1) = true → is_acq (st_op x2) = true →
      op_key' (st_op x1) = Some k → op_key' (st_op x2) = Some k → t1 = t2;
  (* a key presented by an Unlock/Renew call was delivered (if it was ever drawn) *)
  vi_presented : ∀ tid t k, v_thr s !! tid = Some t → is_acq (st_op t) = false → op_key' (st_op t) = Some k →
      ∀ tid' t', v_thr s !! tid' = Some t' → is_acq (st_op t') = true → op_key' (st_op t') = Some k → delivered s k;
  (* --- timers --- *)
  vi_tm_entry : ∀ tk id, v_timers s !! tk = Some id → ∃ tm, v_theap s !! id = Some tm ∧ tk = tkey (tm_n tm) (tm_k tm) ∧ tm_st tm ≠ TStopped ∧ (id < v_tnext s)%nat;
  vi_tm_heap : ∀ id tm, v_theap s !! id = Some tm → (id < v_tnext s)%nat ∧
      (* a timer belongs to the acquisition call that armed it, which has finished arming *)
      ∃ tid t sid z, v_thr s !! tid = Some t ∧ acquirer t sid (tm_n tm) (tm_k tm) z ∧ tm_s tm = sid ∧ (∃ r, st_pc t = VFin r);
  vi_tm_unique : ∀ id1 id2 tm1 tm2, v_theap s !! id1 = Some tm1 → v_theap s !! id2 = Some tm2 → tm_k tm1 = tm_k tm2 → id1 = id2;
  vi_tm_fired : ∀ id tm, v_theap s !! id = Some tm → (tm_st tm = TFired ↔ ∃ tid t, v_thr s !! tid = Some t ∧ st_op t = SExpire id);
  vi_expire_unique : ∀ t1 t2 x1 x2 id, v_thr s !! t1 = Some x1 → v_thr s !! t2 = Some x2 → st_op x1 = SExpire id → st_op x2 = SExpire id → t1 = t2;
  vi_tm_future : ∀ tk id tm d, armed_at s tk id tm d → v_now s < d;
  vi_tm_shut : v_tmshut s = true → v_timers s = ∅ ∧ ∀ id tm, v_theap s !! id = Some tm → ∀ d, tm_st tm ≠ TArmed d;
  (* C04/C05: the lease invariant — an armed timer in the map belongs to a live hold, unless the grant could never be delivered *)
  vi_lease : ∀ tk id tm d, armed_at s tk id tm d →
      slive s (tm_n tm) (tm_k tm) ∨ (∃ tid t sid z, v_thr s !! tid = Some t ∧ acquirer t sid (tm_n tm) (tm_k tm) z ∧ st_cancel t = Some ECtxCanceled);
  (* --- sessions and the state file --- *)
  vi_entry_owner : ∀ sid c, entry_of s sid c → ∃ tid t, v_thr s !! tid = Some t ∧ acquirer t sid (cl_name c) (cl_key c) (cl_size c) ∧
      (st_pc t = VTmAdd ∨ ∃ r, st_pc t = VFin r);
  vi_entry_nodup : ∀ sid l, v_sess s !! sid = Some l → NoDup l;
  (* a listed hold that occupies no capacity is being ended by a call still in flight (the window of finding F-OVER) *)
  vi_zombie : ∀ sid c, entry_of s sid c → ¬ slive s (cl_name c) (cl_key c) →
      ∃ tid t, v_thr s !! tid = Some t ∧
        ((st_op t = SUnlock (cl_name c) (cl_key c) ∧ st_pc t = VSessRemove) ∨
         (∃ id tm, st_op t = SExpire id ∧ v_theap s !! id = Some tm ∧ tm_n tm = cl_name c ∧ tm_k tm = cl_key c ∧ st_pc t = VCbSessRemove));
  (* the state file is the session table (rewritten at every change; empty sessions are written only with the next change) *)
  vi_file : sc_file cfg = true → ∀ sid c, (∃ m l, v_file s = Some m ∧ m !! sid = Some l ∧ c ∈ l) ↔ entry_of s sid c;
  vi_nofile : sc_file cfg = false → v_file s = None;
  (* --- auxiliary invariants (C05) --- *)
  (* a lease callback belongs to a timer that exists; a call arms a lease only for a positive lock timeout *)
  vi_expire_heap : ∀ tid t id, v_thr s !! tid = Some t → st_op t = SExpire id → is_Some (v_theap s !! id);
  vi_tmadd_pos : ∀ tid t sid n k z lt, v_thr s !! tid = Some t → st_op t = STry sid n k z lt ∨ st_op t = SLock sid n k z lt →
      st_pc t = VTmAdd → lt_pos lt = true;
  vi_renew_pos : ∀ tid t n k lt, v_thr s !! tid = Some t → st_op t = SRenew n k lt → 0 < lt;
  (* a wait timeout is only ever recorded for a Lock call that then fails *)
  vi_cancel_pc : ∀ tid t e, v_thr s !! tid = Some t → st_cancel t = Some e → e ≠ ECtxCanceled →
      st_pc t = VMgrLock ∨ st_pc t = VWait ∨ st_pc t = VWoken ∨ ∃ o, st_pc t = VFin (SResp false o);
  (* the calls of a session that were in flight when its connection ended have a cancelled context *)
  vi_ended_cancel : ∀ tid t sid, v_thr s !! tid = Some t → op_sid (st_op t) = Some sid → ev_in (SvConnEnd sid) s →
      is_fin (st_pc t) = false → st_cancel t ≠ None;
  (* a granted hold stays live until its bookkeeping is done; only a session end can release it before the lease is armed *)
  vi_granted_live : ∀ tid t sid n k z, v_thr s !! tid = Some t → acquirer t sid n k z → st_pc t = VWoken ∨ st_pc t = VSessAdd → slive s n k;
  vi_tmadd_live : ∀ tid t sid n k z, v_thr s !! tid = Some t → acquirer t sid n k z → st_pc t = VTmAdd →
      slive s n k ∨ st_cancel t = Some ECtxCanceled;
  (* DestroySession: it runs for an ended connection; the holds it still has to release were listed in its session (their
     entries are gone, their acquiring calls are past AddLock); between its timer removal and its unlock no lease of the
     hold is armed, unless by the cancelled acquiring call itself *)
  vi_ds_ended : ∀ tid t sid, v_thr s !! tid = Some t → st_op t = SConnEnd sid → ev_in (SvConnEnd sid) s;
  (* a connection ends once (by the client's disconnect or by the closer's network stop): one DestroySession per session *)
  vi_ds_unique : ∀ t1 t2 x1 x2 sid, v_thr s !! t1 = Some x1 → v_thr s !! t2 = Some x2 → st_op x1 = SConnEnd sid → st_op x2 = SConnEnd sid → t1 = t2;
  vi_connect_once : NoDup (connects (v_trace s));
  (* under no-clear-on-disconnect DestroySession is the flag check and the atomic DestroySessionIfEmpty, nothing else *)
  vi_ds_noclear : ∀ tid t sid, v_thr s !! tid = Some t → st_op t = SConnEnd sid →
      if sc_noclear cfg then st_pc t = VDsFlag ∨ st_pc t = VDsNoClear ∨ st_pc t = VEnd else st_pc t ≠ VDsNoClear;
  vi_ds_todo : ∀ tid t sid c, v_thr s !! tid = Some t → st_op t = SConnEnd sid →
      ds_pending (st_pc t) c →
      (∃ tid' t', v_thr s !! tid' = Some t' ∧ acquirer t' sid (cl_name c) (cl_key c) (cl_size c) ∧ (st_pc t' = VTmAdd ∨ ∃ r, st_pc t' = VFin r)) ∧
      (∀ sid' c', entry_of s sid' c' → cl_key c' ≠ cl_key c);
  vi_ds_unlock : ∀ tid t sid c rest id tm d, v_thr s !! tid = Some t → st_op t = SConnEnd sid → st_pc t = VDsUnlock c rest →
      armed_at s (tkey (cl_name c) (cl_key c)) id tm d →
      ∃ tid' t' sid' z, v_thr s !! tid' = Some t' ∧ acquirer t' sid' (cl_name c) (cl_key c) z ∧ st_cancel t' = Some ECtxCanceled;
  (* Unlock: between its timer removal and its manager call the hold has no lease timer in the map *)
  vi_unl_notimer : ∀ tid t n k, v_thr s !! tid = Some t → st_op t = SUnlock n k → st_pc t = VMgrUnlock → v_timers s !! tkey n k = None;
  (* C05: an Unlock about to answer (or having answered) unlocked=true: the hold is gone, or its expiry is in progress *)
  vi_unlocked : ∀ tid t n k, v_thr s !! tid = Some t → st_op t = SUnlock n k → st_pc t = VSessRemove ∨ st_pc t = VFin (SResp true None) →
      v_mgrshut s = false → ¬ slive s n k ∨ expiry_pending s n k;
  (* C05: a lease callback past its unlock step has freed the hold *)
  vi_expired : ∀ tid t id tm, v_thr s !! tid = Some t → st_op t = SExpire id → v_theap s !! id = Some tm →
      v_mgrshut s = false → st_pc t = VCbUnlock ∨ ¬ slive s (tm_n tm) (tm_k tm);
  (* the closer has set the shutdown flag before it stops the network *)
  vi_sh_flag : ∀ tid t, v_thr s !! tid = Some t → st_op t = SShutdown → st_pc t ≠ VShFlag → v_shut s = true;
  (* --- ids --- *)
  vi_sys : ∀ tid t, v_thr s !! tid = Some t → (tid < v_next s)%nat ∧ (client_op (st_op t) = true ↔ (tid < sys_base)%nat);
  vi_next : (sys_base ≤ v_next s)%nat
}.

Definition T_svinv_reach : Prop := ∀ cfg s, vreach cfg s → SvInv cfg s.

(** ** C05 — Unlock, Renew and expiry racing on one hold answer truthfully *)

(** unlocked=true: the capacity is free, or is freed at once by the expiry already in progress — its callback goroutine exists
    and its very next step releases the hold, needing no tick and nobody else *)
Definition T_C05_unlock_truth : Prop := ∀ cfg s tid t n k,
  vreach cfg s → v_mgrshut s = false → v_thr s !! tid = Some t → st_op t = SUnlock n k → st_pc t = VFin (SResp true None) →
  ¬ slive s n k ∨ expiry_pending s n k.
(** ... and a pending expiry really frees it with its next step *)
Definition T_C05_expiry_frees : Prop := ∀ cfg s tid t id tm,
  vreach cfg s → v_mgrshut s = false → v_thr s !! tid = Some t → st_op t = SExpire id → st_pc t = VCbUnlock → v_theap s !! id = Some tm →
  ¬ slive (vstep cfg s (VRun tid)) (tm_n tm) (tm_k tm).
(** Renew locked=true: at the instant of the reset the hold is live and its lease now runs for the new timeout *)
Definition T_C05_renew_truth : Prop := ∀ cfg s tid t n k lt,
  vreach cfg s → v_thr s !! tid = Some t → st_op t = SRenew n k lt → st_pc t = VTmReset →
  let s' := vstep cfg s (VRun tid) in
  ∀ t', v_thr s' !! tid = Some t' → st_pc t' = VFin (SResp true None) →
  slive s n k ∧ slive s' n k ∧ ∃ id tm, armed_at s' (tkey n k) id tm (v_now s + lt * second).
(** no run ends with a hold reported released still occupying the lock, or a hold reported renewed already gone:
    in a state where every goroutine has finished *)
Definition all_done (s : svstate) : Prop := ∀ tid t, v_thr s !! tid = Some t → is_fin (st_pc t) = true.
Definition T_C05_final : Prop := ∀ cfg s n k,
  vreach cfg s → all_done s → v_mgrshut s = false →
  ((∃ tid t, v_thr s !! tid = Some t ∧ st_op t = SUnlock n k ∧ st_pc t = VFin (SResp true None)) → ¬ slive s n k) ∧
  (∀ id tm d, armed_at s (tkey n k) id tm d → slive s n k ∨ ¬ delivered s k).

(** ** C06 — session end *)
(** the finding F-LEAK as a predicate on the ghost trace (newest first): a session entry is written for [sid] after the
    session was destroyed *)
Fixpoint add_after_destroy (sid : str) (tr : list sev) : bool :=
  match tr with
  | [] => false
  | SvSessAdd _ sid' _ :: tr' =>
      (bool_decide (sid' = sid) && existsb (λ e, match e with SvSessDestroy _ sid'' => bool_decide (sid'' = sid) | _ => false end) tr')
      || add_after_destroy sid tr'
  | _ :: tr' => add_after_destroy sid tr'
  end.
(** once DestroySession has run to its end (and did clear): every hold acquired in that session is released, is being
    released by its own expiry, or belongs to a call of that session that is still running *)
Definition T_C06_release_all : Prop := ∀ cfg s tid t sid,
  vreach cfg s → sc_noclear cfg = false → v_thr s !! tid = Some t → st_op t = SConnEnd sid → st_pc t = VEnd →
  (∃ tid', ev_in (SvSessDestroy tid' sid) s) → add_after_destroy sid (v_trace s) = false → v_mgrshut s = false →
  ∀ tid' t' n k z, v_thr s !! tid' = Some t' → acquirer t' sid n k z → st_pc t' = VFin (SResp true None) →
  ¬ slive s n k ∨ expiry_pending s n k.
(** released exactly once: a unit is released only while it is live, and never again afterwards *)
Fixpoint count_released (n k : str) (tr : list sev) : nat :=
  match tr with
  | [] => 0
  | SvReleased _ n' k' :: tr' => (if bool_decide (n' = n ∧ k' = k) then 1 else 0) + count_released n k tr'
  | _ :: tr' => count_released n k tr'
  end.
Definition T_C06_once : Prop := ∀ cfg s n k, vreach cfg s → (count_released n k (v_trace s) ≤ 1)%nat ∧ (count_released n k (v_trace s) = 1%nat → ¬ slive s n k).
(** holds of other sessions are untouched by a session end: an existing hold stays live; a key of another session becomes
    live by a step of DestroySession only when it is the key of a Lock call parked on that lock and the step is the
    manager Unlock that hands the freed unit over (a waiter is served: intended); the lease-timer entry and the session
    entries of (n,k) are untouched.
    (The first version of this statement had [slive s n k ↔ slive s' n k]; its direction "live after → live before" is
    false of the model and of the code — sessions A, B; lock n of size 1 held by A; B's Lock parked; A's connection
    ends and DestroySession's Unlock hands the unit to B — witness [C06_frame_iff_refuted] in SvSessFrame.v.) *)
Definition T_C06_frame : Prop := ∀ cfg s tid t sid n k,
  vreach cfg s → v_thr s !! tid = Some t → st_op t = SConnEnd sid →
  (∀ tid' t' sid' z, v_thr s !! tid' = Some t' → acquirer t' sid' n k z → sid' ≠ sid) →
  let s' := vstep cfg s (VRun tid) in
  (slive s n k → slive s' n k) ∧
  (slive s' n k → slive s n k ∨
     ∃ tid' t' sid' z lt, v_thr s !! tid' = Some t' ∧ st_op t' = SLock sid' n k z lt ∧ st_pc t' = VWait ∧ ∃ c rest, st_pc t = VDsUnlock c rest) ∧
  v_timers s' !! tkey n k = v_timers s !! tkey n k ∧
  (∀ sid' z, entry_of s sid' (Clock n k z) ↔ entry_of s' sid' (Clock n k z)).
(** no-clear-on-disconnect: a session end (every step of its DestroySession) touches no hold and no lease, and every
    session entry that lists a hold stays as it is — only an EMPTY session entry is deleted (DestroySessionIfEmpty is
    one critical section) *)
Definition T_C06_noclear : Prop := ∀ cfg s tid t sid,
  vreach cfg s → sc_noclear cfg = true → v_thr s !! tid = Some t → st_op t = SConnEnd sid →
  let s' := vstep cfg s (VRun tid) in
  v_locks s' = v_locks s ∧ v_timers s' = v_timers s ∧ v_theap s' = v_theap s ∧ (∀ sid' c, entry_of s sid' c → entry_of s' sid' c) ∧
  (∀ sid' l, v_sess s !! sid' = Some l → l ≠ [] → v_sess s' !! sid' = Some l).
(** ... and a hold whose bookkeeping is done (AddLock has run) stays listed under its session until its own Unlock or its own
    expiry ends it, whatever session ends happen in between (no entry is lost between DestroySession's check and its delete) *)
Definition T_C06_noclear_listed : Prop := ∀ cfg s tid t sid n k z,
  vreach cfg s → sc_noclear cfg = true →
  v_thr s !! tid = Some t → acquirer t sid n k z → st_pc t = VTmAdd ∨ st_pc t = VFin (SResp true None) →
  (∀ tid' t', v_thr s !! tid' = Some t' → st_op t' ≠ SUnlock n k) →
  (∀ tid' t' id tm, v_thr s !! tid' = Some t' → st_op t' = SExpire id → v_theap s !! id = Some tm → tm_k tm ≠ k) →
  entry_of s sid (Clock n k z).
(** the finding F-LEAK (known, not repaired): with clearing, a grant whose AddLock lands after DestroySession has deleted the
    session stays live and listed for ever — the case [add_after_destroy] excludes from [T_C06_release_all] *)
Definition T_C06_leak_refuted : Prop := ∃ cfg s tid t sid tid' t' n k z,
  vreach cfg s ∧ sc_noclear cfg = false ∧ v_mgrshut s = false ∧ v_thr s !! tid = Some t ∧ st_op t = SConnEnd sid ∧ st_pc t = VEnd ∧
  v_thr s !! tid' = Some t' ∧ acquirer t' sid n k z ∧ st_pc t' = VFin (SResp true None) ∧ slive s n k ∧ ¬ expiry_pending s n k ∧
  add_after_destroy sid (v_trace s) = true.
(** in-flight requests cannot crash the server: no reachable state is crashed *)
Definition T_C06_no_crash : Prop := ∀ cfg s, vreach cfg s → v_crashed s = false.

(** ** C09 — a kill at any instant: the image left is [v_file s] of a reachable state *)
Definition session_ended (s : svstate) (sid : str) : Prop := ev_in (SvConnEnd sid) s.
(** every hold whose grant was delivered and that has not ended (no Unlock of it was even invoked, its lease has not fired,
    its session has not ended) is in the image, under its session *)
Definition T_C09_acked_live : Prop := ∀ cfg s tid t sid n k z,
  vreach cfg s → sc_file cfg = true →
  v_thr s !! tid = Some t → acquirer t sid n k z → st_pc t = VFin (SResp true None) →
  (∀ tid' t', v_thr s !! tid' = Some t' → st_op t' ≠ SUnlock n k) →
  (∀ tid' t' id tm, v_thr s !! tid' = Some t' → st_op t' = SExpire id → v_theap s !! id = Some tm → tm_k tm ≠ k) →
  ¬ session_ended s sid →
  ∃ m l, v_file s = Some m ∧ m !! sid = Some l ∧ Clock n k z ∈ l.
(** every hold whose release was acknowledged is absent from the image *)
Definition T_C09_acked_ended : Prop := ∀ cfg s tid t n k,
  vreach cfg s → v_thr s !! tid = Some t → st_op t = SUnlock n k → st_pc t = VFin (SResp true None) →
  ∀ m sid l z, v_file s = Some m → m !! sid = Some l → Clock n k z ∉ l.
(** the image never lists more LIVE holds of a lock than its size; what it lists beyond that are holds being ended by a call
    in flight (F-OVER: their number is not bounded by the size) *)
Definition file_entries (s : svstate) (n : str) : list clock :=
  match v_file s with Some m => filter (λ c, cl_name c = n) (concat (map snd (map_to_list m))) | None => [] end.
Definition T_C09_live_bound : Prop := ∀ cfg s n a,
  vreach cfg s → v_locks s !! n = Some a →
  Z.of_nat (length (filter (λ c, cl_key c ∈ al_live a) (file_entries s n))) ≤ al_size a.
Definition T_C09_over_refuted : Prop := ∃ cfg s n a,
  vreach cfg s ∧ v_locks s !! n = Some a ∧ al_size a < Z.of_nat (length (file_entries s n)).

(** ** C11 — graceful shutdown *)
(** holds that are live and listed when the signal arrives stay in the state file, whatever is in flight, unless their own
    Unlock / expiry ends them: session ends delivered by the network stop do not clear them *)
Definition T_C11_flag_first : Prop := ∀ cfg s tid t sid,
  vreach cfg s → v_shut s = true → v_thr s !! tid = Some t → st_op t = SConnEnd sid → st_pc t = VDsFlag →
  let s' := vstep cfg s (VRun tid) in v_locks s' = v_locks s ∧ v_sess s' = v_sess s ∧ v_file s' = v_file s ∧ v_timers s' = v_timers s.
Definition T_C11_net_after_flag : Prop := ∀ cfg s tid t,
  vreach cfg s → v_thr s !! tid = Some t → st_op t = SShutdown → st_pc t ≠ VShFlag → v_shut s = true.
(** blocked Lock calls return an error instead of a hold: after the network stop every parked call is cancelled, hence enabled,
    and its own next step answers with an error *)
Definition T_C11_waiters_fail : Prop := ∀ cfg s tid t,
  vreach cfg s → v_thr s !! tid = Some t → st_pc t = VWait →
  (∃ tid' t', v_thr s !! tid' = Some t' ∧ st_op t' = SShutdown ∧ (st_pc t' = VShTimers ∨ st_pc t' = VShMgr ∨ st_pc t' = VEnd)) →
  ∃ e, st_cancel t = Some e ∧ ∃ t'', v_thr (vstep cfg s (VRun tid)) !! tid = Some t'' ∧ st_pc t'' = VFin (SResp false (Some e)).
(** the closer cannot hang: whenever it waits (for parked calls), some parked or woken call is enabled *)
Definition T_C11_no_hang : Prop := ∀ cfg s tid t,
  vreach cfg s → v_thr s !! tid = Some t → st_op t = SShutdown → st_pc t = VShMgr → sv_blocked s tid = true →
  ∃ tid' t', v_thr s !! tid' = Some t' ∧ (st_pc t' = VWait ∨ st_pc t' = VWoken) ∧ sv_blocked s tid' = false.
