(** Concrete schedules of Msv checked by computation: a reflective checker for [sitem_ok] and the two witnesses
    of the session-end findings (F-LEAK; the no-clear race). Work package svsess. *)
From Coq Require Import Lia ZifyBool ZifyNat.
From Ldlm Require Import Model.Base Model.Err Model.Sv Proofs.SvDefs Proofs.SvSessBase.
From RecordUpdate Require Import RecordSet.
Import RecordSetNotations.
Local Open Scope Z_scope.

#[local] Instance sop_eq_dec : EqDecision sop.
Proof. solve_decision. Defined.
#[local] Instance sev_eq_dec : EqDecision sev.
Proof. solve_decision. Defined.

(** ** a boolean version of [sitem_ok] (Unlock/Renew calls: checked through [deliveredb]) *)
Definition thr_all (s : svstate) (P : nat → sthread → bool) : bool := forallb (λ '(i, t), P i t) (map_to_list (v_thr s)).
Lemma thr_all_sound s P : thr_all s P = true → ∀ i t, v_thr s !! i = Some t → P i t = true.
Proof.
  unfold thr_all. rewrite forallb_forall. intros H i t Hit.
  apply (H (i, t)). apply elem_of_list_In, elem_of_map_to_list, Hit.
Qed.
Definition thr_any (s : svstate) (P : nat → sthread → bool) : bool := existsb (λ '(i, t), P i t) (map_to_list (v_thr s)).
Lemma thr_any_sound s P : thr_any s P = true → ∃ i t, v_thr s !! i = Some t ∧ P i t = true.
Proof.
  unfold thr_any. rewrite existsb_exists. intros ([i t] & Hin & HP).
  exists i, t. split; [|done]. by apply elem_of_map_to_list, elem_of_list_In.
Qed.

Definition deliveredb (s : svstate) (k : str) : bool :=
  thr_any s (λ _ t, match st_op t with
                    | STry _ _ k' _ _ | SLock _ _ k' _ _ =>
                        bool_decide (k' = k) && bool_decide (st_pc t = VFin (SResp true None)) && negb (bool_decide (st_cancel t = Some ECtxCanceled))
                    | _ => false
                    end).
Lemma deliveredb_sound s k : deliveredb s k = true → delivered s k.
Proof.
  intros H. apply thr_any_sound in H as (i & t & Hit & HP).
  destruct (st_op t) eqn:Hop; try done.
  all: repeat (apply andb_prop in HP as [HP ?]); repeat case_bool_decide; try done; subst.
  all: eexists i, t, _, _, _; split_and!; [done|eexists; eauto|done|done].
Qed.

Definition presentedb (s : svstate) (k : str) : bool :=
  thr_all s (λ _ t, negb (is_acq (st_op t) && bool_decide (op_key' (st_op t) = Some k))) || deliveredb s k.
Lemma presentedb_sound s k : presentedb s k = true →
  ∀ tid' t', v_thr s !! tid' = Some t' → is_acq (st_op t') = true → op_key' (st_op t') = Some k → delivered s k.
Proof.
  unfold presentedb. intros H tid' t' Ht Hacq Hk. apply orb_prop in H as [H|H]; [|by apply deliveredb_sound].
  pose proof (thr_all_sound _ _ H _ _ Ht) as H1. simpl in H1. rewrite Hacq, bool_decide_true in H1; done.
Qed.

Definition evb (e : sev) (s : svstate) : bool := bool_decide (e ∈ v_trace s).

Definition net_openb (s : svstate) : bool :=
  thr_all s (λ _ t, match st_op t with SShutdown => bool_decide (st_pc t = VShFlag) || bool_decide (st_pc t = VShNet) | _ => true end).
Lemma net_openb_sound s : net_openb s = true → net_open s.
Proof.
  intros H tid t Ht Hop. apply (thr_all_sound _ _ H) in Ht. rewrite Hop in Ht.
  apply orb_prop in Ht as [Ht|Ht]; apply bool_decide_eq_true in Ht; auto.
Qed.

Definition sitem_okb (s : svstate) (it : sitem) : bool :=
  match it with
  | VCall tid op =>
      match op with
      | STry sid _ k z lt | SLock sid _ k z lt =>
          thr_all s (λ _ t', negb (bool_decide (op_key' (st_op t') = Some k))) && evb (SvConnect sid) s && negb (evb (SvConnEnd sid) s)
          && match lt with Some t => 0 <=? t | None => true end && net_openb s
      | SUnlock _ k => presentedb s k && net_openb s
      | SRenew _ k lt => presentedb s k && (0 <? lt) && net_openb s
      | _ => true
      end
  | VConnect sid => negb (evb (SvConnect sid) s)
  | VConnEnd sid => evb (SvConnect sid) s && negb (evb (SvConnEnd sid) s)
  | VSignal => negb (evb SvSignal s)
  | VCancel tid cause =>
      bool_decide (cause = ECtxCanceled) ||
      (bool_decide (cause = ESrvLockWaitTimeout) &&
       match v_thr s !! tid with
       | Some t => bool_decide (st_pc t = VMgrLock) || bool_decide (st_pc t = VWait) || bool_decide (st_pc t = VWoken)
       | None => false
       end)
  | VTick _ | VRun _ => true
  end.

Lemma evb_true e s : evb e s = true → ev_in e s.
Proof. unfold evb, ev_in. by case_bool_decide. Qed.
Lemma evb_false e s : negb (evb e s) = true → ¬ ev_in e s.
Proof. unfold evb, ev_in. by case_bool_decide. Qed.

Lemma sitem_okb_sound s it : sitem_okb s it = true → sitem_ok s it.
Proof.
  destruct it as [tid op| | | | | |]; simpl; try done.
  - destruct op; simpl; try done.
    + intros H. repeat (apply andb_prop in H as [H ?]). split_and!; [|by apply evb_true|by apply evb_false| |by apply net_openb_sound].
      * intros tid' t' Ht. pose proof (thr_all_sound _ _ H _ _ Ht) as Hx. simpl in Hx. by case_bool_decide.
      * intros t ->. lia.
    + intros H. repeat (apply andb_prop in H as [H ?]). split_and!; [|by apply evb_true|by apply evb_false| |by apply net_openb_sound].
      * intros tid' t' Ht. pose proof (thr_all_sound _ _ H _ _ Ht) as Hx. simpl in Hx. by case_bool_decide.
      * intros t ->. lia.
    + intros H. apply andb_prop in H as [H ?]. split; [by apply presentedb_sound|by apply net_openb_sound].
    + intros H. repeat (apply andb_prop in H as [H ?]). split_and!; [by apply presentedb_sound|lia|by apply net_openb_sound].
  - (* VCancel: the wait timeout only while the Lock call is inside lockMgr.Lock (sitem_ok, corrected by svinv) *)
    intros H. apply orb_prop in H as [H|H]; [left; by apply bool_decide_eq_true in H|right].
    apply andb_prop in H as [H1 H2]. apply bool_decide_eq_true in H1. split; [done|].
    destruct (v_thr s !! _) as [t|]; [|done]. exists t. split; [done|].
    apply orb_prop in H2 as [H2|H2]; [apply orb_prop in H2 as [H2|H2]|]; apply bool_decide_eq_true in H2; auto.
  - apply evb_false.
  - intros H. apply andb_prop in H as [H ?]. split; [by apply evb_true|by apply evb_false].
  - apply evb_false.
Qed.

Fixpoint sched_okb (cfg : svcfg) (s : svstate) (sch : list sitem) : bool :=
  match sch with [] => true | it :: r => sitem_okb s it && sched_okb cfg (vstep cfg s it) r end.
Lemma sched_okb_sound cfg sch s : vreach cfg s → sched_okb cfg s sch = true → vreach cfg (fold_left (vstep cfg) sch s).
Proof.
  revert s. induction sch as [|it r IH]; simpl; intros s Hr H; [done|].
  apply andb_prop in H as [H1 H2]. apply IH; [|done]. apply vreach_step; [done|by apply sitem_okb_sound].
Qed.
Lemma vrun_reach cfg sch : sched_okb cfg sv_init sch = true → vreach cfg (vrun cfg sch).
Proof. apply sched_okb_sound, vreach_init. Qed.

(** ** F-LEAK: the grant's AddLock lands after DestroySession *)
Definition w_sid : str := [x41].
Definition w_n : str := [x6e].
Definition w_k : str := [x6b].
Definition leak_sched : list sitem :=
  [VConnect w_sid; VCall 1 (STry w_sid w_n w_k 1 None); VRun 1;      (* granted, before AddLock *)
   VConnEnd w_sid; VRun 1000; VRun 1000;                             (* DestroySession: flag, destroy (nothing listed: it returns) *)
   VRun 1].                                                          (* AddLock re-creates the session entry; locked=true *)

Theorem C06_leak_refuted : T_C06_leak_refuted.
Proof.
  exists (SvCfg false true), (vrun (SvCfg false true) leak_sched), 1000%nat, (SThread (SConnEnd w_sid) VEnd None), w_sid,
    1%nat, (SThread (STry w_sid w_n w_k 1 None) (VFin (SResp true None)) (Some ECtxCanceled)), w_n, w_k, 1.
  split_and!.
  - apply vrun_reach. vm_compute. reflexivity.
  - reflexivity.
  - vm_compute. reflexivity.
  - vm_compute. reflexivity.
  - reflexivity.
  - reflexivity.
  - vm_compute. reflexivity.
  - exists None. by left.
  - reflexivity.
  - exists (ALock 1 [w_k] []). split; [vm_compute; reflexivity|]. simpl. apply elem_of_list_here.
  - intros (tid & t & id & tm & Ht & Hop & _).
    assert (Hall : thr_all (vrun (SvCfg false true) leak_sched) (λ _ t, match st_op t with SExpire _ => false | _ => true end) = true)
      by (vm_compute; reflexivity).
    pose proof (thr_all_sound _ _ Hall _ _ Ht) as H. simpl in H. by rewrite Hop in H.
  - vm_compute. reflexivity.
Qed.

(** ** the former no-clear race (F-NOCLEAR-RACE, repaired in the code by DestroySessionIfEmpty): the "session holds nothing"
    check and the deletion are ONE critical section now. The schedule that used to delete an entry written between the
    two (AddLock between check and delete) now ends with the entry listed: the check-and-delete at VDsNoClear removes
    the still empty session and returns; the later AddLock re-creates the session entry. *)
Definition ncrace_sched : list sitem :=
  [VConnect w_sid; VCall 1 (STry w_sid w_n w_k 1 None); VRun 1;      (* granted, before AddLock *)
   VConnEnd w_sid; VRun 1000; VRun 1000;                             (* flag; DestroySessionIfEmpty: empty -> deleted, returns *)
   VRun 1;                                                           (* AddLock; locked=true *)
   VRun 1000].                                                       (* nothing left to run: the goroutine has returned *)
Example C06_noclear_race_closed :
  let cfg := SvCfg true true in let s := vrun cfg ncrace_sched in
  vreach cfg s ∧ (st_pc <$> v_thr s !! 1000%nat) = Some VEnd ∧
  entry_of s w_sid (Clock w_n w_k 1) ∧ slive s w_n w_k ∧ sv_file s = Some [(w_sid, [Clock w_n w_k 1])].
Proof.
  cbv zeta. split_and!.
  - apply vrun_reach. vm_compute. reflexivity.
  - vm_compute. reflexivity.
  - exists [Clock w_n w_k 1]. split; [vm_compute; reflexivity|apply elem_of_list_here].
  - exists (ALock 1 [w_k] []). split; [vm_compute; reflexivity|]. simpl. apply elem_of_list_here.
  - vm_compute. reflexivity.
Qed.
