(** Work package svinv, part 3: the counting-lock fields of the invariant are preserved by every step. *)
From Coq Require Import Lia ZifyBool ZifyNat.
From Ldlm Require Import Model.Base Model.Err Model.Sv Proofs.SeqLemmasKey.
From Ldlm Require Import Proofs.SvDefs Proofs.SvInvBase Proofs.SvInvFrame.
From RecordUpdate Require Import RecordSet.
Import RecordSetNotations.
Local Open Scope Z_scope.

Definition waits (m : gmap nat sthread) (x : nat) (n : str) : Prop :=
  ∃ t sid k z lt, m !! x = Some t ∧ st_op t = SLock sid n k z lt ∧ st_pc t = VWait.

Lemma waits_upd m tid t pc' x n : m !! tid = Some t →
  waits (<[tid := with_pc t pc']> m) x n ↔ (x ≠ tid ∧ waits m x n) ∨ (x = tid ∧ pc' = VWait ∧ ∃ sid k z lt, st_op t = SLock sid n k z lt).
Proof.
  intros Ht. unfold waits. split.
  - intros (t' & sid & k & z & lt & Hl & Ho & Hp). apply lookup_insert_Some in Hl as [[<- <-]|[? Hl]]; [right|left]; naive_solver.
  - intros [[Hne (t' & sid & k & z & lt & Hl & Ho & Hp)]|(-> & -> & sid & k & z & lt & Ho)].
    + exists t', sid, k, z, lt. by rewrite lookup_insert_ne.
    + exists (with_pc t VWait), sid, k, z, lt. by rewrite lookup_insert.
Qed.
Lemma waits_upd_same m tid t pc' x n : m !! tid = Some t → st_pc t ≠ VWait → pc' ≠ VWait →
  waits (<[tid := with_pc t pc']> m) x n ↔ waits m x n.
Proof.
  intros Ht H1 H2. rewrite waits_upd by done. split; [intros [[_ ?]|(_ & ? & _)]; done|].
  intros Hw. left. split; [|done]. intros ->. destruct Hw as (? & ? & ? & ? & ? & ? & ? & ?). naive_solver.
Qed.
Lemma waits_new m tid t0 x n : m !! tid = None → st_pc t0 ≠ VWait → waits (<[tid := t0]> m) x n ↔ waits m x n.
Proof.
  intros Hn Hp. unfold waits. split.
  - intros (t' & sid & k & z & lt & Hl & Ho & Hp'). apply lookup_insert_Some in Hl as [[<- <-]|[? Hl]]; naive_solver.
  - intros (t' & sid & k & z & lt & Hl & Ho & Hp'). exists t', sid, k, z, lt. rewrite lookup_insert_ne by congruence. done.
Qed.
Lemma waits_fmap m (f : sthread → sthread) x n : (∀ t, st_op (f t) = st_op t ∧ st_pc (f t) = st_pc t) → waits (f <$> m) x n ↔ waits m x n.
Proof.
  intros Hf. unfold waits. split.
  - intros (t' & sid & k & z & lt & Hl & Ho & Hp'). rewrite lookup_fmap in Hl. apply fmap_Some in Hl as (t & Hl & ->).
    destruct (Hf t) as [Ho' Hp'']. exists t, sid, k, z, lt. by rewrite <- Ho', <- Hp''.
  - intros (t & sid & k & z & lt & Hl & Ho & Hp'). destruct (Hf t) as [Ho' Hp'']. exists (f t), sid, k, z, lt.
    rewrite lookup_fmap, Hl. simpl. by rewrite Ho', Hp''.
Qed.
Lemma waits_cancel m tid t c x n : m !! tid = Some t → waits (<[tid := t <| st_cancel := c |>]> m) x n ↔ waits m x n.
Proof.
  intros Ht. unfold waits. split.
  - intros (t' & sid & k & z & lt & Hl & Ho & Hp'). apply lookup_insert_Some in Hl as [[<- <-]|[? Hl]]; naive_solver.
  - intros (t' & sid & k & z & lt & Hl & Ho & Hp'). destruct (decide (x = tid)) as [->|].
    + simplify_eq. eexists _, sid, k, z, lt. rewrite lookup_insert. done.
    + exists t', sid, k, z, lt. by rewrite lookup_insert_ne.
Qed.

Definition gpc (pc : spc) : Prop := pc = VWoken ∨ pc = VSessAdd ∨ pc = VTmAdd ∨ pc = VFin (SResp true None).
Definition owner (m : gmap nat sthread) (n k : str) : Prop :=
  ∃ tid t sid z, m !! tid = Some t ∧ acquirer t sid n k z ∧ gpc (st_pc t).

Lemma acquirer_with_pc t pc sid n k z : acquirer (with_pc t pc) sid n k z ↔ acquirer t sid n k z.
Proof. done. Qed.

Lemma owner_new m tid t0 n k : m !! tid = None → owner m n k → owner (<[tid := t0]> m) n k.
Proof. intros Hn (x & t & sid & z & Hx & Ha & Hp). exists x, t, sid, z. rewrite lookup_insert_ne by congruence. done. Qed.
Lemma owner_fmap m (f : sthread → sthread) n k : (∀ t, st_op (f t) = st_op t ∧ st_pc (f t) = st_pc t) → owner m n k → owner (f <$> m) n k.
Proof.
  intros Hf (x & t & sid & z & Hx & [lt Ha] & Hp). destruct (Hf t) as [Ho Hpc]. exists x, (f t), sid, z.
  rewrite lookup_fmap, Hx. split; [done|]. split; [exists lt; by rewrite Ho|by rewrite Hpc].
Qed.
Lemma owner_cancel m tid t c n k : m !! tid = Some t → owner m n k → owner (<[tid := t <| st_cancel := c |>]> m) n k.
Proof.
  intros Ht (x & t' & sid & z & Hx & Ha & Hp). destruct (decide (x = tid)) as [->|].
  - simplify_eq. eexists tid, _, sid, z. rewrite lookup_insert. done.
  - exists x, t', sid, z. by rewrite lookup_insert_ne.
Qed.
Lemma owner_upd m tid t pc' n k : m !! tid = Some t → (gpc (st_pc t) → is_acq (st_op t) = true → gpc pc') →
  owner m n k → owner (<[tid := with_pc t pc']> m) n k.
Proof.
  intros Ht Hg (x & t' & sid & z & Hx & Ha & Hp). destruct (decide (x = tid)) as [->|].
  - simplify_eq. eexists tid, _, sid, z. rewrite lookup_insert. split; [done|]. split; [done|]. simpl.
    apply Hg; [done|]. by destruct (acquirer_is_acq _ _ _ _ _ Ha).
  - exists x, t', sid, z. by rewrite lookup_insert_ne.
Qed.
Lemma owner_upd_self m tid t pc' sid n k z : acquirer t sid n k z → gpc pc' → owner (<[tid := with_pc t pc']> m) n k.
Proof. intros Ha Hg. exists tid, (with_pc t pc'), sid, z. by rewrite lookup_insert. Qed.

Section fields.
Context (cfg : svcfg) (s : svstate) (it : sitem) (s' : svstate).
Context (I : SvInv cfg s) (Hok : sitem_ok s it) (Hv : vsr cfg s it s').

Definition cap_ok (a : alock) : Prop :=
  0 < al_size a ∧ Z.of_nat (length (al_live a)) ≤ al_size a ∧ NoDup (al_live a) ∧ NoDup (al_q a).

Lemma cap_default n z : 0 < z → cap_ok (default (ALock z [] []) (v_locks s !! n)).
Proof.
  intros Hz. destruct (v_locks s !! n) as [a|] eqn:Ha; simpl; [by apply (vi_cap _ _ I n a)|].
  repeat split; simpl; try lia; constructor.
Qed.

Lemma queue_default n z tid : tid ∈ al_q (default (ALock z [] []) (v_locks s !! n)) →
  ∃ t sid k z lt, v_thr s !! tid = Some t ∧ st_op t = SLock sid n k z lt ∧ st_pc t = VWait.
Proof.
  destruct (v_locks s !! n) as [a|] eqn:Ha; simpl; [by apply (vi_queue _ _ I n a tid)|by intros ?%elem_of_nil].
Qed.

Lemma step_vi_cap : ∀ n a, v_locks s' !! n = Some a → cap_ok a.
Proof.
  assert (Hc : ∀ n a, v_locks s !! n = Some a → cap_ok a) by apply (vi_cap _ _ I).
  destruct Hv; unfold st_go; simpl; intros n0 a0 Ql; try (by eapply Hc).
  all: apply lookup_insert_Some in Ql as [[<- <-]|[? Ql]]; [|by eapply Hc].
  - by apply cap_default.
  - (* grant *)
    destruct (cap_default n z Hz) as (? & ? & Hnd & ?). rewrite <- Ha in *.
    unfold al_free in Hfree. apply andb_true_iff in Hfree as [Hlt _].
    repeat split; simpl; auto.
    + rewrite app_length; simpl. lia.
    + apply NoDup_app. split; [done|]. split; [|apply NoDup_singleton].
      intros x Hx ->%elem_of_list_singleton. subst a. apply slive_default in Hx.
      destruct (live_owner_pc _ _ _ _ _ _ _ _ _ I Hx Ht (acq_op_acquirer _ _ _ _ _ _ Hop)) as [_ Hp].
      destruct Hpc as [Hpc|Hpc]; rewrite Hpc in Hp; naive_solver.
  - (* enqueue *)
    destruct (cap_default n z Hz) as (? & ? & ? & Hnd). rewrite <- Ha in *.
    repeat split; simpl; auto. apply NoDup_app. split; [done|]. split; [|apply NoDup_singleton].
    intros x Hx ->%elem_of_list_singleton. subst a. apply queue_default in Hx as (t' & ? & ? & ? & ? & Ht' & _ & Hp').
    simplify_eq. congruence.
  - (* wait cancel *)
    destruct (Hc _ _ Ha) as (? & ? & ? & ?). repeat split; simpl; auto. by apply NoDup_filter.
  - (* release *)
    destruct (Hc _ _ Ha) as (? & ? & ? & ?). repeat split; simpl; auto.
    + rewrite remove_first_length by done. lia.
    + by apply remove_first_NoDup.
  - (* release with hand-over *)
    destruct (Hc _ _ Ha) as (? & ? & Hnd & Hq'). rewrite Hq in Hq'. apply NoDup_cons in Hq' as [_ Hq'].
    repeat split; simpl; auto.
    + rewrite app_length, remove_first_length by done. simpl. destruct (al_live a); [by apply elem_of_nil in Hk|]. simpl in *. lia.
    + apply NoDup_app. split; [by apply remove_first_NoDup|]. split; [|apply NoDup_singleton].
      intros x Hx%elem_of_remove_first ->%elem_of_list_singleton.
      assert (slive s n kw) as Hl by (by exists a).
      destruct (live_owner_pc _ _ _ _ _ _ _ _ _ I Hl Hw (ex_intro _ ltw (or_intror Hwop))) as [_ Hp].
      rewrite Hwpc in Hp. naive_solver.
Qed.

Lemma step_vi_no_lost_wakeup : ∀ n a, v_locks s' !! n = Some a → al_q a ≠ [] → Z.of_nat (length (al_live a)) = al_size a.
Proof.
  pose proof (vi_no_lost_wakeup _ _ I) as Hc.
  destruct Hv; unfold st_go; simpl; intros n0 a0 Ql; try (by eapply Hc).
  all: apply lookup_insert_Some in Ql as [[<- <-]|[? Ql]]; [|by eapply Hc].
  - destruct (v_locks s !! n) as [a|] eqn:Ha; simpl; [by apply (Hc n)|done].
  - (* grant: the lock was free, so nobody is queued *)
    unfold al_free in Hfree. apply andb_true_iff in Hfree as [_ Hq%bool_decide_eq_true]. simpl. congruence.
  - (* enqueue *)
    intros _. simpl. destruct (cap_default n z Hz) as (_ & Hle & _). rewrite <- Ha in *.
    unfold al_free in Hfree. apply andb_false_iff in Hfree as [Hf|Hf].
    + lia.
    + apply bool_decide_eq_false in Hf. subst a. destruct (v_locks s !! n) as [a|] eqn:Ha; simpl in *; [by apply (Hc n)|done].
  - simpl. intros Hq. apply (Hc _ _ Ha). intros Hq'. by rewrite Hq' in Hq.
  - simpl. by rewrite Hq.
  - simpl. intros _. rewrite app_length, remove_first_length by done. simpl.
    rewrite <- (Hc _ _ Ha) by (by rewrite Hq). destruct (al_live a); [by apply elem_of_nil in Hk|]. simpl. lia.
Qed.

Lemma step_vi_queue : ∀ n a tid, v_locks s' !! n = Some a → (tid ∈ al_q a ↔ waits (v_thr s') tid n).
Proof.
  assert (Hc : ∀ n a tid, v_locks s !! n = Some a → (tid ∈ al_q a ↔ waits (v_thr s) tid n)) by apply (vi_queue _ _ I).
  pose proof (next_fresh _ _ I) as Hnx.
  destruct Hv; unfold st_go; simpl; intros n0 a0 x Ql; try (by eapply Hc).
  all: try (rewrite waits_new by done; by eapply Hc).
  all: try (rewrite waits_upd_same by pcs; try (by eapply Hc)).
  all: try (rewrite waits_cancel by done; by eapply Hc).
  all: try (rewrite waits_fmap by (intros t0; first [by destruct (shnet_cancel_ok t0) as (? & ? & _)|by destruct (connend_cancel_ok sid t0) as (? & ? & _)]); by eapply Hc).
  - (* call *) rewrite waits_new by (try done; by destruct op). by eapply Hc.
  - (* connend *)
    rewrite waits_new by (try done; by rewrite lookup_fmap, Hnx).
    rewrite waits_fmap by (intros t0; by destruct (connend_cancel_ok sid t0) as (? & ? & _)). by eapply Hc.
  - (* touch *)
    apply lookup_insert_Some in Ql as [[<- <-]|[? Ql]]; [|by eapply Hc].
    destruct (v_locks s !! n) as [a|] eqn:Ha; simpl; [by eapply Hc|].
    split; [by intros ?%elem_of_nil|]. intros (t0 & sid0 & k0 & z0 & lt0 & Ht0 & Ho0 & Hp0).
    destruct (vi_wait_lock _ _ I _ _ _ _ _ _ _ Ht0 Ho0 Hp0) as [? ?]. congruence.
  - (* grant *)
    apply lookup_insert_Some in Ql as [[<- <-]|[? Ql]]; [|by eapply Hc]. simpl. subst a.
    destruct (v_locks s !! n) as [a|] eqn:Ha; simpl; [by eapply Hc|].
    split; [by intros ?%elem_of_nil|]. intros (t0 & sid0 & k0 & z0 & lt0 & Ht0 & Ho0 & Hp0).
    destruct (vi_wait_lock _ _ I _ _ _ _ _ _ _ Ht0 Ho0 Hp0) as [? ?]. congruence.
  - (* enqueue *)
    rewrite waits_upd by done.
    apply lookup_insert_Some in Ql as [[<- <-]|[Hne Ql]].
    + simpl. rewrite elem_of_app, elem_of_list_singleton. subst a.
      assert (x ∈ al_q (default (ALock z [] []) (v_locks s !! n)) ↔ waits (v_thr s) x n) as ->.
      { destruct (v_locks s !! n) as [a|] eqn:Ha; simpl; [by eapply Hc|].
        split; [by intros ?%elem_of_nil|]. intros (t0 & sid0 & k0 & z0 & lt0 & Ht0 & Ho0 & Hp0).
        destruct (vi_wait_lock _ _ I _ _ _ _ _ _ _ Ht0 Ho0 Hp0) as [? ?]. congruence. }
      split.
      * intros [Hw| ->]; [left; split; [|done]|right; eauto 10].
        intros ->. destruct Hw as (? & ? & ? & ? & ? & ? & ? & ?). simplify_eq. congruence.
      * intros [[_ ?]|[-> _]]; auto.
    + rewrite (Hc _ _ x Ql). split; [intros Hw; left; split; [|done]|].
      * intros ->. destruct Hw as (? & ? & ? & ? & ? & ? & Ho' & ?). simplify_eq. congruence.
      * intros [[_ ?]|(-> & _ & ? & ? & ? & ? & Ho')]; [done|]. rewrite Hop in Ho'. simplify_eq.
  - (* wait cancel *)
    rewrite waits_upd by done.
    apply lookup_insert_Some in Ql as [[<- <-]|[Hne Ql]].
    + simpl. rewrite elem_of_list_filter, (Hc _ _ x Ha). split; [intros [? ?]; left; done|].
      intros [[? ?]|(_ & ? & _)]; done.
    + rewrite (Hc _ _ x Ql). split; [intros Hw; left; split; [|done]|].
      * intros ->. destruct Hw as (? & ? & ? & ? & ? & ? & Ho' & ?). simplify_eq. congruence.
      * intros [[_ ?]|(_ & ? & _)]; done.
  - (* release *)
    apply lookup_insert_Some in Ql as [[<- <-]|[? Ql]]; [|by eapply Hc]. simpl. by eapply Hc.
  - (* release, hand-over *)
    rewrite waits_upd_same by (try (by rewrite lookup_insert_ne); pcs).
    rewrite waits_upd by done.
    apply lookup_insert_Some in Ql as [[<- <-]|[Hne' Ql]].
    + simpl. pose proof (Hc _ _ x Ha) as Hx. rewrite Hq in Hx.
      destruct (vi_cap _ _ I _ _ Ha) as (_ & _ & _ & Hnd). rewrite Hq in Hnd. apply NoDup_cons in Hnd as [Qwq _].
      split.
      * intros Hin. left. split; [intros ->; done|]. apply Hx. by right.
      * intros [[Qxw Qw]|(_ & ? & _)]; [|done]. apply Hx in Qw. apply elem_of_cons in Qw as [?|?]; done.
    + rewrite (Hc _ _ x Ql). split; [intros Qw; left; split; [|done]|].
      * intros ->. destruct Qw as (? & ? & ? & ? & ? & ? & Ho' & ?). simplify_eq. congruence.
      * intros [[_ ?]|(_ & ? & _)]; done.
  - (* destroy *)
    rewrite waits_upd_same; [by eapply Hc|done|destruct Hpc as [Hpc|[Hpc _]]; rewrite Hpc; done|by destruct l].
Qed.

Lemma step_vi_wait_lock : ∀ x n, waits (v_thr s') x n → is_Some (v_locks s' !! n).
Proof.
  assert (Hc : ∀ x n, waits (v_thr s) x n → is_Some (v_locks s !! n)).
  { intros x n (t0 & sid0 & k0 & z0 & lt0 & Ht0 & Ho0 & Hp0). eapply (vi_wait_lock _ _ I); eauto. }
  pose proof (next_fresh _ _ I) as Hnx.
  destruct Hv; unfold st_go; simpl; intros x n0 Qw; try (by eapply Hc).
  all: try (rewrite waits_new in Qw by done; by eapply Hc).
  all: try (rewrite waits_upd_same in Qw by (try (by rewrite lookup_insert_ne); pcs); try (by eapply Hc)).
  all: try (rewrite waits_cancel in Qw by done; by eapply Hc).
  all: try (rewrite waits_fmap in Qw by (intros t0; first [by destruct (shnet_cancel_ok t0) as (? & ? & _)|by destruct (connend_cancel_ok sid t0) as (? & ? & _)]); by eapply Hc).
  all: try (rewrite waits_upd in Qw by done).
  all: try (destruct (decide (n0 = n)) as [->|]; [by rewrite lookup_insert|rewrite lookup_insert_ne by done]; try (by eapply Hc)).
  - rewrite waits_new in Qw by (try done; by destruct op). by eapply Hc.
  - rewrite waits_new in Qw by (try done; by rewrite lookup_fmap, Hnx).
    rewrite waits_fmap in Qw by (intros t0; by destruct (connend_cancel_ok sid t0) as (? & ? & _)). by eapply Hc.
  - destruct Qw as [[_ Qw]|(_ & _ & ? & ? & ? & ? & Ho')]; [by eapply Hc|]. rewrite Hop in Ho'. simplify_eq.
  - destruct Qw as [[_ Qw]|(_ & ? & _)]; [by eapply Hc|done].
  - destruct Qw as [[_ Qw]|(_ & ? & _)]; [by eapply Hc|done].
  - destruct Qw as [[_ Qw]|(_ & ? & _)]; [by eapply Hc|by destruct l].
Qed.

Lemma step_vi_live_owner : ∀ n k, slive s' n k → owner (v_thr s') n k.
Proof.
  assert (Hc : ∀ n k, slive s n k → owner (v_thr s) n k) by apply (vi_live_owner _ _ I).
  pose proof (next_fresh _ _ I) as Hnx.
  destruct Hv; unfold st_go; simpl; intros n0 k0 Ql; try (by eapply Hc).
  all: try (apply owner_new; [done|]; by eapply Hc).
  all: try (apply owner_cancel; [done|]; by eapply Hc).
  all: try (apply owner_upd; [done| |by eapply Hc]; unfold gpc; intros Qg Qa; try site_inv;
            solve [ match goal with H : st_op _ = _ |- _ => rewrite H in Qa; done end
                  | match goal with H : st_pc _ = _ |- _ => rewrite H in Qg; naive_solver end
                  | subst; destruct (lt_pos _); naive_solver ]).
  - (* connend *)
    apply owner_new; [by rewrite lookup_fmap, Hnx|].
    apply owner_fmap; [intros t0; by destruct (connend_cancel_ok sid t0) as (? & ? & _)|]. by eapply Hc.
  - (* early error *)
    apply owner_upd; [done| |by eapply Hc]. unfold gpc. intros Qg _. destruct Hpc as [Hpc|Hpc]; rewrite Hpc in Qg; naive_solver.
  - (* touch *)
    apply owner_upd; [done|unfold gpc; intros Qg _; destruct Hpc as [Hpc|Hpc]; rewrite Hpc in Qg; naive_solver|].
    eapply slive_insert in Ql; [|simpl; reflexivity]. destruct Ql as [[-> Ql]|[_ Ql]]; [|by eapply Hc].
    apply Hc. by eapply slive_default.
  - (* grant *)
    eapply slive_insert in Ql; [|simpl; reflexivity]. destruct Ql as [[-> Ql]|[_ Ql]].
    + simpl in Ql. subst a. apply elem_of_app in Ql as [Ql|Ql%elem_of_list_singleton].
      * apply owner_upd; [done|unfold gpc; intros Qg _; destruct Hpc as [Hpc|Hpc]; rewrite Hpc in Qg; naive_solver|].
        apply Hc. by eapply slive_default.
      * subst k0. eapply owner_upd_self; [by eapply acq_op_acquirer|]. unfold gpc; auto.
    + apply owner_upd; [done|unfold gpc; intros Qg _; destruct Hpc as [Hpc|Hpc]; rewrite Hpc in Qg; naive_solver|]. by eapply Hc.
  - (* enqueue *)
    apply owner_upd; [done|unfold gpc; intros Qg _; rewrite Hpc in Qg; naive_solver|].
    eapply slive_insert in Ql; [|simpl; reflexivity]. destruct Ql as [[-> Ql]|[_ Ql]]; [|by eapply Hc].
    apply Hc. simpl in Ql. subst a. by eapply slive_default.
  - (* wait cancel *)
    apply owner_upd; [done|unfold gpc; intros Qg _; rewrite Hpc in Qg; naive_solver|].
    eapply slive_insert in Ql; [|simpl; reflexivity]. destruct Ql as [[-> Ql]|[_ Ql]]; [|by eapply Hc].
    apply Hc. simpl in Ql. by exists a.
  - (* release *)
    assert (slive s n0 k0 ∧ ¬ (n0 = n ∧ k0 = k)) as [Qs Qne].
    { eapply slive_insert in Ql; [|simpl; reflexivity]. destruct Ql as [[-> Ql]|[? Ql]]; [|split; [done|naive_solver]].
      simpl in Ql. split; [exists a; split; [done|]; by eapply elem_of_remove_first|].
      intros [_ ->]. destruct (vi_cap _ _ I _ _ Ha) as (_ & _ & Hnd & _). by apply (remove_first_NoDup k) in Hnd as [_ ?]. }
    destruct (Hc _ _ Qs) as (x & tx & sidx & zx & Hx & Hax & Hpx).
    destruct (decide (x = tid)) as [->|]; [|exists x, tx, sidx, zx; by rewrite lookup_insert_ne].
    simplify_eq. exfalso. destruct Hsite; try (destruct Hax as [? [Hax|Hax]]; congruence).
    destruct Hax as [? [Hax|Hax]]; [congruence|]. rewrite H in Hax. simplify_eq. naive_solver.
  - (* release with hand-over *)
    eapply slive_insert in Ql; [|simpl; reflexivity]. destruct Ql as [[-> Ql]|[? Ql]].
    + simpl in Ql. apply elem_of_app in Ql as [Ql|Ql%elem_of_list_singleton].
      * assert (slive s n k0) as Qs by (exists a; split; [done|]; by eapply elem_of_remove_first).
        assert (k0 ≠ k) as Qne.
        { intros ->. destruct (vi_cap _ _ I _ _ Ha) as (_ & _ & Hnd & _). by apply (remove_first_NoDup k) in Hnd as [_ ?]. }
        destruct (Hc _ _ Qs) as (x & tx & sidx & zx & Hx & Hax & Hpx).
        destruct (decide (x = tid)) as [->|].
        { simplify_eq. exfalso. destruct Hsite; try (destruct Hax as [? [Hax|Hax]]; congruence).
          all: try (destruct Hax as [? [Hax|Hax]]; [congruence|]; rewrite H in Hax; simplify_eq). }
        destruct (decide (x = w)) as [->|].
        { simplify_eq. unfold gpc in Hpx. rewrite Hwpc in Hpx. naive_solver. }
        exists x, tx, sidx, zx. by rewrite !lookup_insert_ne.
      * subst k0. exists w, (with_pc tw VWoken), sidw, zw. rewrite lookup_insert_ne, lookup_insert by done.
        split; [done|]. split; [exists ltw; by right|]. unfold gpc; auto.
    + destruct (Hc _ _ Ql) as (x & tx & sidx & zx & Hx & Hax & Hpx).
      destruct (decide (x = tid)) as [->|].
      { simplify_eq. exfalso. destruct Hsite; try (destruct Hax as [? [Hax|Hax]]; congruence).
        all: try (destruct Hax as [? [Hax|Hax]]; [congruence|]; rewrite H0 in Hax; simplify_eq). }
      destruct (decide (x = w)) as [->|].
      { simplify_eq. unfold gpc in Hpx. rewrite Hwpc in Hpx. naive_solver. }
      exists x, tx, sidx, zx. by rewrite !lookup_insert_ne.
  - apply owner_fmap; [intros t0; by destruct (shnet_cancel_ok t0) as (? & ? & _)|]. by eapply Hc.
Qed.
End fields.
