(** C06, frame: a session end touches nothing of a hold of another session ([T_C06_frame]). *)
From Coq Require Import Lia ZifyBool ZifyNat.
From Ldlm Require Import Model.Base Model.Err Model.Sv Proofs.SvDefs Proofs.SeqLemmasKey
  Proofs.SvSessBase Proofs.SvSessThr Proofs.SvSessLk Proofs.SvSessDs Proofs.SvSessWit.
From RecordUpdate Require Import RecordSet.
Import RecordSetNotations.
Local Open Scope Z_scope.

(** [T_C06_frame] (SvDefs.v) is the corrected statement; the first version ([slive s n k ↔ slive s' n k]) is refuted at the
    end of this file ([C06_frame_iff_refuted]). *)

Lemma tm_remove_timers tk s : v_timers (tm_remove tk s).1 = delete tk (v_timers s).
Proof.
  unfold tm_remove. destruct (v_timers s !! tk) eqn:E; [|simpl; by rewrite delete_notin].
  repeat case_match; reflexivity.
Qed.

(** the steps of DestroySession on the timer map and the session table *)
Lemma ds_self_effect cfg s tid sid pc cn :
  let s' := vrun_thread cfg tid (SThread (SConnEnd sid) pc cn) s in
  (v_timers s' = v_timers s ∨ ∃ c rest, pc = VDsTmRemove (c :: rest) ∧ v_timers s' = delete (tkey (cl_name c) (cl_key c)) (v_timers s)) ∧
  (v_sess s' = v_sess s ∨ ((pc = VDsDestroy ∨ (pc = VDsNoClear ∧ v_sess s !! sid = Some [])) ∧ v_sess s' = delete sid (v_sess s))).
Proof.
  unfold vrun_thread. cbn [st_pc st_op st_cancel].
  destruct pc; try (split; by left).
  all: repeat case_match; subst; pair_norm; autorewrite with svframe; try (split; by left).
  - (* check-and-delete of an empty session *) split; [by left|]. unfold sess_destroy. case_match; simpl; [|by left]. right. rewrite vsave_v_sess. auto.
  - (* destroy *) split; [by left|]. unfold sess_destroy. case_match; simpl; [|by left]. right. rewrite vsave_v_sess. auto.
  - split; [|by left]. right. eexists _, _. split; [done|]. apply tm_remove_timers.
  - split; [|by left]. right. eexists _, _. split; [done|]. apply tm_remove_timers.
Qed.

Theorem C06_frame_from_inv : T_svinv_reach → T_C06_frame.
Proof.
  intros Hinv cfg s tid t sid n k Hr Ht Hop Hother s'. subst s'.
  pose proof (Hinv _ _ Hr) as HI. pose proof (ds_inv_reach Hinv _ _ Hr) as HD.
  assert (Hnot : ∀ c, c ∈ pending_of (st_pc t) → cl_name c = n → cl_key c = k → False).
  { intros c Hc <- <-. destruct (HD tid t sid c Ht Hop Hc) as (tid0 & t0 & Ht0 & Hacq0 & _). by eapply Hother. }
  split_and!.
  - intros Hl. destruct (slive_dec (vstep cfg s (VRun tid)) n k) as [?|Hnl]; [done|]. exfalso.
    destruct (vstep_live_lost cfg s _ n k HI Hl Hnl) as (tr & ttr & [= <-] & Htr & Hrel). simplify_eq.
    destruct Hrel as [[Ho _]|[(? & ? & Ho & _)|[(sid' & c & rest & Ho & Hp & Hn & Hk)|(? & ? & ? & ? & Ho & _)]]]; try congruence.
    eapply (Hnot c); [rewrite Hp; left|done..].
  - intros Hl. apply (vstep_live_new' cfg s _ n k HI) in Hl as [?|(tid0 & t0 & sid0 & z0 & Ht0 & [lt0 Hacq0] & Hc)]; [by left|right].
    destruct Hc as [[[= <-] _]|(Hpc & [lt1 Ho] & tr & ttr & n' & k' & [= <-] & Htr & Hrel)].
    + simplify_eq. destruct Hacq0; congruence.
    + simplify_eq. exists tid0, t0, sid0, z0, lt1. split_and!; [done..|].
      destruct Hrel as [[Ho' _]|[(? & ? & Ho' & _)|[(sid' & c & rest & Ho' & Hp & _)|(? & ? & ? & ? & Ho' & _)]]]; try congruence. eauto.
  - rewrite (vstep_run_lookup cfg s tid t (vi_not_crashed _ _ HI) Ht). destruct t as [op pc cn]. simpl in Hop. subst op.
    destruct (ds_self_effect cfg s tid sid pc cn) as [[->|(c & rest & -> & ->)] _]; [done|].
    destruct (decide (tkey (cl_name c) (cl_key c) = tkey n k)) as [He|Hne]; [|by rewrite lookup_delete_ne].
    apply tkey_inj in He as [? ?]. exfalso. eapply (Hnot c); [left|done..].
  - intros sid' z. rewrite (vstep_run_lookup cfg s tid t (vi_not_crashed _ _ HI) Ht). destruct t as [op pc cn]. simpl in Hop. subst op.
    unfold entry_of. destruct (ds_self_effect cfg s tid sid pc cn) as [_ [->|[_ ->]]]; [done|].
    destruct (decide (sid' = sid)) as [->|Hne]; [|by rewrite lookup_delete_ne].
    rewrite lookup_delete. split; [|naive_solver]. intros He.
    destruct (vi_entry_owner _ _ HI sid (Clock n k z) He) as (tid0 & t0 & Ht0 & Hacq0 & _). simpl in Hacq0. exfalso. by eapply Hother.
Qed.

(** the counterexample to the first version of [T_C06_frame] (direction "live after -> live before") *)
Definition w_sidB : str := [x42].
Definition w_kB : str := [x6b; x42].
Definition frame_sched : list sitem :=
  [VConnect w_sid; VConnect w_sidB;
   VCall 1 (STry w_sid w_n w_k 1 None); VRun 1; VRun 1;          (* A holds n *)
   VCall 2 (SLock w_sidB w_n w_kB 1 None); VRun 2;               (* B's Lock is parked *)
   VConnEnd w_sid; VRun 1000; VRun 1000; VRun 1000].             (* DestroySession of A up to lockMgr.Unlock *)

Theorem C06_frame_iff_refuted : ∃ cfg s tid t sid n k,
  vreach cfg s ∧ v_thr s !! tid = Some t ∧ st_op t = SConnEnd sid ∧
  (∀ tid' t' sid' z, v_thr s !! tid' = Some t' → acquirer t' sid' n k z → sid' ≠ sid) ∧
  ¬ slive s n k ∧ slive (vstep cfg s (VRun tid)) n k.
Proof.
  exists (SvCfg false true), (vrun (SvCfg false true) frame_sched), 1000%nat,
    (SThread (SConnEnd w_sid) (VDsUnlock (Clock w_n w_k 1) []) None), w_sid, w_n, w_kB.
  split_and!.
  - apply vrun_reach. vm_compute. reflexivity.
  - vm_compute. reflexivity.
  - reflexivity.
  - intros tid' t' sid' z Ht' [lt Hacq].
    assert (Hall : thr_all (vrun (SvCfg false true) frame_sched)
              (λ _ t, match st_op t with
                      | STry sid' _ k' _ _ | SLock sid' _ k' _ _ => negb (bool_decide (k' = w_kB)) || negb (bool_decide (sid' = w_sid))
                      | _ => true end) = true) by (vm_compute; reflexivity).
    pose proof (thr_all_sound _ _ Hall _ _ Ht') as H. simpl in H.
    destruct Hacq as [Ho|Ho]; rewrite Ho in H; rewrite bool_decide_true in H by done; simpl in H; by case_bool_decide.
  - intros (a & Ha & Hk). vm_compute in Ha. injection Ha as <-. simpl in Hk.
    apply elem_of_list_singleton in Hk. discriminate.
  - exists (ALock 1 [w_kB] []). split; [vm_compute; reflexivity|]. simpl. apply elem_of_list_here.
Qed.
