(** Codec proofs, part 3: arbitrary bytes.
    - the validator itself never panics and never runs out of fuel;
    - whatever the validator accepts, benc's decoder turns into a map (no error, no
      panic, no unbacked allocation), asking [make] for at most [len/6] elements;
    - benc's decoder alone does panic / over-allocate (witnesses);
    - the model's loop fuel is never exhausted. *)
From Coq Require Import Lia ZifyBool ZifyNat ZifyN.
From Ldlm Require Import Model.Base Model.Codec Proofs.CodecP1 Proofs.CodecP2.

Local Open Scope N_scope.

(** * Results that are a value or an error *)

Definition safe_res {A} (P : A -> Prop) (r : res A) : Prop :=
  match r with
  | Ok a => P a
  | Err _ => True
  | Panic _ | Alloc _ => False
  end.

Lemma safe_res_bind {A B} (P : A -> Prop) (Q : B -> Prop) (m : res A) (f : A -> res B) :
  safe_res P m -> (forall a, P a -> safe_res Q (f a)) -> safe_res Q (rbind m f).
Proof. destruct m; cbn; auto. Qed.

Lemma safe_res_mono {A} (P Q : A -> Prop) (r : res A) :
  safe_res P r -> (forall a, P a -> Q a) -> safe_res Q r.
Proof. destruct r; cbn; auto. Qed.

(** * Primitives on arbitrary bytes *)

Lemma uvarint_loop_safe buf : forall i x s,
  safe_res (fun p => i < p.1 <= i + blen buf) (uvarint_loop buf i x s).
Proof.
  induction buf as [|c buf IH]; intros i x s; cbn [uvarint_loop]; [done|].
  destruct (i =? max_varint_len); [done|].
  destruct (Byte.to_N c <? 128).
  - destruct ((i =? max_varint_len - 1) && (1 <? Byte.to_N c)); [done|].
    cbn [safe_res fst]. rewrite blen_cons. lia.
  - eapply safe_res_mono; [apply IH|]. intros p Hp. cbn beta in *. rewrite blen_cons. lia.
Qed.

Lemma unmarshal_uint_safe b n :
  n <= blen b -> safe_res (fun p => n < p.1 <= blen b) (unmarshal_uint b n).
Proof.
  intros Hn. unfold unmarshal_uint. replace (blen b <? n) with false by lia.
  eapply safe_res_bind; [apply uvarint_loop_safe|].
  intros [i v] Hi. cbn in *. rewrite tail_at_blen in Hi by done. lia.
Qed.

Lemma unmarshal_uint_beyond b n : blen b < n -> unmarshal_uint b n = Panic WhySliceBounds.
Proof. intros. unfold unmarshal_uint. by replace (blen b <? n) with true by lia. Qed.

Lemma check_string_safe b n :
  n <= blen b -> safe_res (fun n' => n < n' <= blen b) (check_string b n).
Proof.
  intros Hn. unfold check_string.
  eapply safe_res_bind; [by apply unmarshal_uint_safe|].
  intros [n1 us] H1. cbn in *. destruct (blen b - n1 <? us) eqn:E; cbn; lia.
Qed.

Lemma check_count_safe b n ms :
  n <= blen b ->
  safe_res (fun p => n < p.1 <= blen b /\ p.2 <= (blen b - p.1) / ms) (check_count b n ms).
Proof.
  intros Hn. unfold check_count.
  eapply safe_res_bind; [by apply unmarshal_uint_safe|].
  intros [n1 c] H1. cbn in *. destruct ((blen b - n1) / ms <? c) eqn:E; cbn; lia.
Qed.

Lemma skip_int32_safe b n :
  n <= blen b -> safe_res (fun n' => n' = n + 4 /\ n' <= blen b) (skip_int32 b n).
Proof.
  intros Hn. unfold skip_int32, len_minus_lt.
  destruct (Z.of_N (blen b) - Z.of_N n <? 4)%Z eqn:E; cbn; lia.
Qed.

Lemma check_terminator_safe b n :
  n <= blen b -> safe_res (fun n' => n' = n + 4 /\ n' <= blen b) (check_terminator b n).
Proof.
  intros Hn. unfold check_terminator, len_minus_lt.
  destruct (Z.of_N (blen b) - Z.of_N n <? 4)%Z eqn:E; [done|].
  destruct (bool_decide _); cbn; lia.
Qed.

(** * The validator never panics and never runs out of fuel *)

Lemma check_locks_loop_safe b f : forall c n,
  n <= blen b -> blen b < n + N.of_nat f ->
  safe_res (fun n' => n <= n' <= blen b) (check_locks_loop f b c n).
Proof.
  induction f as [|f IH]; intros c n Hn Hf; cbn [check_locks_loop].
  - lia.
  - destruct (c =? 0); [cbn; lia|].
    eapply safe_res_bind; [by apply check_string_safe|]. intros n1 H1. cbn beta in *.
    eapply safe_res_bind; [apply check_string_safe; lia|]. intros n2 H2. cbn beta in *.
    eapply safe_res_bind; [apply skip_int32_safe; lia|]. intros n3 H3. cbn beta in *.
    eapply safe_res_mono; [apply IH; lia|]. intros n4 H4. cbn beta in *. lia.
Qed.

Lemma fuel_for_spec b n : blen b < n + N.of_nat (fuel_for b).
Proof. unfold fuel_for, blen. lia. Qed.

Lemma check_entries_loop_safe b f : forall c n,
  n <= blen b -> blen b < n + N.of_nat f ->
  safe_res (fun n' => n <= n' <= blen b) (check_entries_loop f b c n).
Proof.
  induction f as [|f IH]; intros c n Hn Hf; cbn [check_entries_loop].
  - lia.
  - destruct (c =? 0); [cbn; lia|].
    eapply safe_res_bind; [by apply check_string_safe|]. intros n1 H1. cbn beta in *.
    eapply safe_res_bind; [apply check_count_safe; lia|]. intros [n2 k] H2. cbn [fst snd] in *.
    eapply safe_res_bind; [apply check_locks_loop_safe; [lia|apply fuel_for_spec]|].
    intros n3 H3. cbn beta in *.
    eapply safe_res_bind; [apply check_terminator_safe; lia|]. intros n4 H4. cbn beta in *.
    eapply safe_res_mono; [apply IH; lia|]. intros n5 H5. cbn beta in *. lia.
Qed.

Theorem check_encoding_r_safe b : safe_res (fun _ => True) (check_encoding_r b).
Proof.
  unfold check_encoding_r.
  eapply safe_res_bind; [apply check_count_safe; lia|]. intros [n1 c] H1. cbn [fst snd] in *.
  eapply safe_res_bind; [apply check_entries_loop_safe; [lia|apply fuel_for_spec]|].
  intros n2 H2. cbn beta in *.
  eapply safe_res_bind; [apply check_terminator_safe; lia|]. intros n3 H3. cbn beta in *.
  unfold verify_marshal. by destruct (n3 =? blen b).
Qed.

Lemma check_encoding_r_cases b :
  check_encoding_r b = Ok tt \/ exists e, check_encoding_r b = Err e.
Proof.
  pose proof (check_encoding_r_safe b) as H.
  destruct (check_encoding_r b) as [[]| | |]; cbn in H; eauto; done.
Qed.

(** [decode] is what its defining equation in DESIGN.md says. *)
Lemma decode_eq b :
  decode b = match check_encoding b with Some e => DecErr e | None => benc_decode b end.
Proof.
  unfold decode, decode_i, check_encoding, benc_decode.
  destruct (check_encoding_r_cases b) as [-> | [e ->]]; done.
Qed.

(** * Whatever the validator accepts, benc decodes *)

Lemma go_bytes_63 b : go_bytes b -> blen b < 2 ^ 63.
Proof. unfold go_bytes. assert (max_file_len < 2 ^ 63) by (by vm_compute). lia. Qed.

Lemma check_string_lockstep b n n' :
  n <= blen b -> blen b < 2 ^ 63 -> check_string b n = Ok n' ->
  exists s, unmarshal_string b n = Ok (n', s) /\ n < n' <= blen b.
Proof.
  intros Hn HL. unfold check_string, unmarshal_string.
  pose proof (unmarshal_uint_safe b n Hn) as Hs.
  destruct (unmarshal_uint b n) as [[n1 us]| | |]; cbn [rbind safe_res fst] in *; try done.
  destruct (blen b - n1 <? us) eqn:E; [done|]. intros [= <-].
  rewrite to_int_small by lia. unfold len_minus_lt.
  replace (Z.of_N (blen b) - Z.of_N n1 <? Z.of_N us)%Z with false by lia.
  replace ((Z.of_N us <? 0)%Z) with false by lia.
  replace (blen b <? n1 + us) with false by lia.
  cbn [orb]. eexists. split; [done|lia].
Qed.

Lemma skip_int32_lockstep b n n' :
  n <= blen b -> skip_int32 b n = Ok n' ->
  exists z, unmarshal_int32 b n = Ok (n', z) /\ n' = n + 4 /\ n' <= blen b.
Proof.
  intros Hn. unfold skip_int32, unmarshal_int32, len_minus_lt.
  destruct (Z.of_N (blen b) - Z.of_N n <? 4)%Z eqn:E; [done|]. intros [= <-].
  pose proof (tail_at_blen b n Hn) as Hl.
  destruct (tail_at b n) as [|u0 [|u1 [|u2 [|u3 t]]]];
    rewrite ?blen_cons, ?blen_nil in Hl; try lia.
  eexists. split; [done|lia].
Qed.

Lemma check_locks_loop_lockstep b f : forall c n n',
  n <= blen b -> blen b < 2 ^ 63 -> check_locks_loop f b c n = Ok n' ->
  exists ls, unmarshal_locks_loop f b c n = Ok (n', ls)
             /\ N.of_nat (length ls) = c /\ n + 6 * c <= n' <= blen b.
Proof.
  induction f as [|f IH]; intros c n n' Hn HL; cbn [check_locks_loop unmarshal_locks_loop].
  - destruct (c =? 0) eqn:Ec; [|done]. intros [= <-]. exists []. split; [done|]. cbn [length]. lia.
  - destruct (c =? 0) eqn:Ec.
    { intros [= <-]. exists []. split; [done|]. cbn [length]. lia. }
    destruct (check_string b n) as [n1| | |] eqn:E1; cbn [rbind]; try done.
    destruct (check_string_lockstep _ _ _ Hn HL E1) as (name & Hname & H1).
    destruct (check_string b n1) as [n2| | |] eqn:E2; cbn [rbind]; try done.
    destruct (check_string_lockstep b n1 n2 ltac:(lia) HL E2) as (key & Hkey & H2).
    destruct (skip_int32 b n2) as [n3| | |] eqn:E3; cbn [rbind]; try done.
    destruct (skip_int32_lockstep b n2 n3 ltac:(lia) E3) as (size & Hsize & H3 & H3').
    intros Hrest.
    destruct (IH (c - 1) n3 n' ltac:(lia) HL Hrest) as (ls & Hls & Hlen & Hb).
    unfold unmarshal_lock. rewrite Hname. cbn [rbind]. rewrite Hkey. cbn [rbind].
    rewrite Hsize. cbn [rbind]. rewrite Hls. cbn [rbind].
    eexists. split; [done|]. cbn [length]. lia.
Qed.

Lemma check_count_inv b n ms n1 c :
  n <= blen b -> check_count b n ms = Ok (n1, c) ->
  unmarshal_uint b n = Ok (n1, c) /\ n < n1 <= blen b /\ c <= (blen b - n1) / ms.
Proof.
  intros Hn. unfold check_count.
  pose proof (unmarshal_uint_safe b n Hn) as Hs.
  destruct (unmarshal_uint b n) as [[n1' c']| | |]; cbn [rbind safe_res fst] in *; try done.
  destruct ((blen b - n1') / ms <? c') eqn:E; [done|]. intros [= <- <-].
  split; [done|]. lia.
Qed.

Lemma div6_le_max_slice_len b k : go_bytes b -> (blen b - k) / 6 <= max_slice_len.
Proof.
  unfold go_bytes, max_file_len. intros H.
  transitivity (blen b / 6); [apply N.div_le_mono; lia|].
  transitivity (6 * max_slice_len / 6); [apply N.div_le_mono; lia|].
  rewrite N.mul_comm, N.div_mul by lia. lia.
Qed.

Lemma check_terminator_inv b n n' :
  check_terminator b n = Ok n' -> n' = n + 4.
Proof.
  unfold check_terminator. destruct (len_minus_lt b n 4); [done|].
  destruct (bool_decide _); [|done]. by intros [= <-].
Qed.

Lemma slice_lockstep b n n1 c n2 n3 :
  n <= blen b -> go_bytes b ->
  check_count b n min_lock_size = Ok (n1, c) ->
  check_locks_loop (fuel_for b) b c n1 = Ok n2 ->
  check_terminator b n2 = Ok n3 ->
  exists ls, unmarshal_slice b n = (Ok (n3, ls), c) /\ n + 5 + 6 * c <= n3.
Proof.
  intros Hn Hgo Hc Hl Ht. pose proof (go_bytes_63 b Hgo) as HL.
  destruct (check_count_inv _ _ _ _ _ Hn Hc) as (Hu & H1 & Hcb). unfold min_lock_size in Hcb.
  pose proof (div6_le_max_slice_len b n1 Hgo) as Hmax.
  assert (Hm : max_slice_len < 2 ^ 63) by (by vm_compute).
  destruct (check_locks_loop_lockstep b (fuel_for b) c n1 n2 ltac:(lia) HL Hl) as (ls & Hls & Hlen & H2).
  apply check_terminator_inv in Ht. subst n3.
  unfold unmarshal_slice. rewrite Hu.
  replace (2 ^ 63 <=? c) with false by lia.
  replace (max_slice_len <? c) with false by lia. cbn [orb].
  assert (Hub : unbacked c (blen b - n1) = false).
  { unfold unbacked. apply andb_false_iff. right. lia. }
  rewrite Hub, Hls. exists ls. split; [done|lia].
Qed.

Lemma check_entries_loop_lockstep b f : forall c n n' m,
  n <= blen b -> go_bytes b -> check_entries_loop f b c n = Ok n' ->
  exists m' a, unmarshal_entries_loop f b c n m = (Ok (n', m'), a)
               /\ n + 6 * c + 6 * a <= n' /\ n' <= blen b.
Proof.
  induction f as [|f IH]; intros c n n' m Hn Hgo;
    cbn [check_entries_loop unmarshal_entries_loop].
  - destruct (c =? 0) eqn:Ec; [|done]. intros [= <-]. exists m, 0. split; [done|lia].
  - pose proof (go_bytes_63 b Hgo) as HL.
    destruct (c =? 0) eqn:Ec.
    { intros [= <-]. exists m, 0. split; [done|lia]. }
    destruct (check_string b n) as [n1| | |] eqn:E1; cbn [rbind]; try done.
    destruct (check_string_lockstep _ _ _ Hn HL E1) as (k & Hk & H1).
    destruct (check_count b n1 min_lock_size) as [[n2 lc]| | |] eqn:E2; cbn [rbind]; try done.
    destruct (check_locks_loop (fuel_for b) b lc n2) as [n3| | |] eqn:E3; cbn [rbind]; try done.
    destruct (check_terminator b n3) as [n4| | |] eqn:E4; cbn [rbind]; try done.
    destruct (slice_lockstep b n1 n2 lc n3 n4 ltac:(lia) Hgo E2 E3 E4) as (ls & Hsl & H4).
    pose proof (check_terminator_safe b n3) as Hts.
    destruct (check_count_inv b n1 min_lock_size n2 lc ltac:(lia) E2) as (_ & H2 & _).
    pose proof (check_locks_loop_safe b (fuel_for b) lc n2 ltac:(lia) (fuel_for_spec b n2)) as H3.
    rewrite E3 in H3. cbn in H3.
    specialize (Hts ltac:(lia)). rewrite E4 in Hts. cbn in Hts.
    intros Hrest.
    destruct (IH (c - 1) n4 n' (<[k := ls]> m) ltac:(lia) Hgo Hrest) as (m' & a & Hloop & Hb & Hb').
    rewrite Hk, Hsl, Hloop. exists m', (lc + a). split; [done|lia].
Qed.

Theorem validated_decodes b :
  go_bytes b -> check_encoding_r b = Ok tt ->
  exists m a, benc_decode_i b = (DecOk m, a) /\ a <= blen b / 6.
Proof.
  intros Hgo. pose proof (go_bytes_63 b Hgo) as HL. unfold check_encoding_r.
  destruct (check_count b 0 min_entry_size) as [[n1 c]| | |] eqn:E1; cbn [rbind]; try done.
  destruct (check_entries_loop (fuel_for b) b c n1) as [n2| | |] eqn:E2; cbn [rbind]; try done.
  destruct (check_terminator b n2) as [n3| | |] eqn:E3; cbn [rbind]; try done.
  unfold verify_marshal at 1. destruct (n3 =? blen b) eqn:E4; [|done]. intros _.
  destruct (check_count_inv b 0 min_entry_size n1 c ltac:(lia) E1) as (Hu & H1 & Hcb).
  unfold min_entry_size in Hcb.
  assert (Hc63 : c < 2 ^ 63).
  { pose proof (div6_le_max_slice_len b n1 Hgo).
    assert (max_slice_len < 2 ^ 63) by (by vm_compute). lia. }
  destruct (check_entries_loop_lockstep b (fuel_for b) c n1 n2 ∅ ltac:(lia) Hgo E2)
    as (m & a & Hloop & Hb & Hb').
  apply check_terminator_inv in E3. subst n3.
  unfold benc_decode_i, unmarshal_map. rewrite Hu.
  replace (2 ^ 63 <=? c) with false by lia.
  set (hint := if max_map_hint <? c then 0 else c).
  assert (Hhint : hint <= c) by (subst hint; destruct (_ <? _); lia).
  assert (Hub : unbacked hint (blen b - n1) = false).
  { unfold unbacked. apply andb_false_iff. right. lia. }
  rewrite Hub, Hloop. unfold verify_marshal. rewrite E4.
  exists m, (hint + a). split; [done|].
  apply N.div_le_lower_bound; lia.
Qed.

(** * The two safety theorems about [decode] *)

Theorem decode_i_safe b :
  go_bytes b ->
  exists a, a <= blen b / 6 /\
            ((exists m, decode_i b = (DecOk m, a)) \/ (exists e, decode_i b = (DecErr e, a))).
Proof.
  intros Hgo. unfold decode_i.
  destruct (check_encoding_r_cases b) as [Hok | [e He]].
  - rewrite Hok. destruct (validated_decodes b Hgo Hok) as (m & a & Hd & Ha).
    exists a. split; [done|]. left. by exists m.
  - rewrite He. exists 0. split; [lia|]. right. by exists e.
Qed.

Theorem decode_safe b :
  go_bytes b -> (exists m, decode b = DecOk m) \/ (exists e, decode b = DecErr e).
Proof.
  intros Hgo. unfold decode.
  destruct (decode_i_safe b Hgo) as (a & _ & [[m ->] | [e ->]]); eauto.
Qed.

Theorem decode_alloc b : go_bytes b -> (decode_i b).2 <= blen b / 6.
Proof.
  intros Hgo. destruct (decode_i_safe b Hgo) as (a & Ha & [[m ->] | [e ->]]); done.
Qed.

(** The validator is what makes benc's decoder safe. *)
Theorem validated_benc_safe b :
  go_bytes b -> check_encoding b = None -> exists m, benc_decode b = DecOk m.
Proof.
  intros Hgo. unfold check_encoding, benc_decode.
  destruct (check_encoding_r_cases b) as [Hok | [e He]].
  - intros _. destruct (validated_decodes b Hgo Hok) as (m & a & -> & _). by exists m.
  - by rewrite He.
Qed.

(** * Without the validator *)

Definition w_panic : list byte := [x02; x00; x00].
Definition w_alloc : list byte := [xff; xff; xff; xff; x0f].
Definition w_makeslice : list byte :=
  [x01; x00; xff; xff; xff; xff; xff; xff; xff; xff; xff; x01].
Definition w_strlen : list byte :=
  [x01; xff; xff; xff; xff; xff; xff; xff; xff; xff; x01].
(** accepted by benc although it is no encoding: a count of 2^64-1 read as -1 *)
Definition w_negcount : list byte :=
  [xff; xff; xff; xff; xff; xff; xff; xff; xff; x01; x01; x01; x01; x01].
(** accepted by benc although the terminators are garbage *)
Definition w_noterm : list byte :=
  [x01; x00; x00; x09; x09; x09; x09; x07; x07; x07; x07].

Lemma benc_decode_panics : benc_decode w_panic = DecPanic WhySliceBounds.
Proof. by vm_compute. Qed.
Lemma benc_decode_allocs : benc_decode w_alloc = DecAlloc (2 ^ 32 - 1).
Proof. by vm_compute. Qed.
Lemma benc_decode_makeslice : benc_decode w_makeslice = DecPanic WhyMakeSliceLen.
Proof. by vm_compute. Qed.
Lemma benc_decode_strlen : benc_decode w_strlen = DecPanic WhySliceBounds.
Proof. by vm_compute. Qed.
Lemma benc_decode_negcount : benc_decode w_negcount = DecOk ∅.
Proof. by vm_compute. Qed.
Lemma benc_decode_noterm : benc_decode w_noterm = DecOk {[ [] := [] ]}.
Proof. by vm_compute. Qed.
Lemma benc_alloc_unbounded : (benc_decode_i w_panic).2 = 2 /\ blen w_panic / 6 = 0.
Proof. by vm_compute. Qed.
Lemma decode_rejects_witnesses :
  Forall (fun w => exists e, decode w = DecErr e)
         [w_panic; w_alloc; w_makeslice; w_strlen; w_negcount; w_noterm].
Proof. repeat constructor; eexists; by vm_compute. Qed.
