(** Lemmas stated over the GENERATED files (Gen/ErrTables.v, Gen/Consts.v). The generated files are
    rewritten from the source tree under test on every run, so this file is re-checked whenever
    the tree's switches, enum, re-exports, constants or routes change: an edit of the source
    changes what Coq checks here.

    Sections: guards; C14 (error codes end to end). *)
From Coq Require Import ZArith List String Lia.
From Ldlm Require Import Model.Base Model.Err Model.ErrCond Proofs.ErrP.
From Ldlm Require Import Gen.ErrTables Gen.Consts.
Import ListNotations.

(** * Guards: the translator understood every shape it turned into a table *)

Lemma tables_ok : tables_recognised = true.
Proof. vm_compute. reflexivity. Qed.

Lemma consts_ok : consts_recognised = true.
Proof. vm_compute. reflexivity. Qed.

Lemma routes_ok : routes_recognised = true.
Proof. vm_compute. reflexivity. Qed.

(** * The enum *)

Lemma all_codes_complete : forall c : code, In c all_codes.
Proof. intros c. destruct c; vm_compute; tauto. Qed.

Definition code_eqb (a b : code) : bool := bool_decide (a = b).

Lemma code_num_inj : forall a b : code, code_num a = code_num b -> a = b.
Proof. intros a b. destruct a, b; vm_compute; congruence. Qed.

Lemma code_name_inj : forall a b : code, code_name a = code_name b -> a = b.
Proof. intros a b. destruct a, b; vm_compute; congruence. Qed.

(** protos/*.pb.go (constants and the ErrorCode_name map) and ldlm.proto list the same enum. *)
Definition pair_eqb (p q : string * Z) : bool := (String.eqb (fst p) (fst q) && Z.eqb (snd p) (snd q))%bool.
Definition subset_pairs (a b : list (string * Z)) : bool := forallb (fun p => existsb (pair_eqb p) b) a.
Definition pbgo_enum : list (string * Z) := map (fun c => (code_name c, code_num c)) all_codes.

Lemma enum_agrees :
  subset_pairs pbgo_enum proto_enum = true /\ subset_pairs proto_enum pbgo_enum = true /\
  subset_pairs pbgo_enum pbgo_name_map = true /\ subset_pairs pbgo_name_map pbgo_enum = true.
Proof. vm_compute. tauto. Qed.

(** * C14 *)

(** A condition's own code, as a value of the generated enum. *)
Definition cond_code (c : cond) : code :=
  match c with
  | CLockDoesNotExist => Code_LockDoesNotExist
  | CInvalidKey => Code_InvalidLockKey
  | CWaitTimeout => Code_LockWaitTimeout
  | CRenewDoesNotExistOrInvalidKey => Code_LockDoesNotExistOrInvalidKey
  | CSizeMismatch => Code_LockSizeMismatch
  | CInvalidSize => Code_InvalidLockSize
  end.

Lemma cond_code_name_ok : forall c, code_name (cond_code c) = cond_code_name c.
Proof. intros c; destruct c; vm_compute; reflexivity. Qed.

(** The heart of the property: the value the lock server returns in the condition is mapped to the
    condition's own code by the CURRENT server-side switch, and the CURRENT client-side switch maps
    that code to the client's exported variable of the same name, which holds the value of the
    server-side variable. *)
Lemma C14_codes : forall c,
  srv_code (cond_err c) = cond_code c /\ cli_err (cond_code c) = Some (cond_client_err c).
Proof. intros c; destruct c; vm_compute; split; reflexivity. Qed.

Definition export_of (v : string) : option (option err) :=
  option_map snd (find (fun p => String.eqb (fst p) v) client_exports).

Lemma C14_client_vars : forall c,
  cli_var (cond_code c) = Some (cond_client_var c) /\
  export_of (cond_client_var c) = Some (Some (cond_client_err c)).
Proof. intros c; destruct c; vm_compute; split; reflexivity. Qed.

(** The six codes are pairwise different, none is the code of an unmatched error, and they stay
    different on the wire. *)
Lemma cond_code_inj : forall c c', cond_code c = cond_code c' -> c = c'.
Proof. intros c c'; destruct c, c'; vm_compute; congruence. Qed.

Lemma cond_code_specific : forall c, cond_code c <> srv_default /\ cond_code c <> Code_Unknown.
Proof. intros c; destruct c; vm_compute; split; congruence. Qed.

Lemma cond_code_num_inj : forall c c', code_num (cond_code c) = code_num (cond_code c') -> c = c'.
Proof. intros c c' H. apply cond_code_inj, code_num_inj, H. Qed.

(** Every code but Unknown is turned into an exported value by the client; Unknown is anonymous. *)
Lemma every_code_exported : forall k : code, k <> Code_Unknown ->
  exists v e, cli_var k = Some v /\ cli_err k = Some e /\ e <> EOther /\ export_of v = Some (Some e).
Proof.
  intros k Hk; destruct k; try congruence; vm_compute;
    eexists; eexists; (split; [reflexivity|split; [reflexivity|split; [congruence|reflexivity]]]).
Qed.

Lemma unknown_is_anonymous : cli_err Code_Unknown = None /\ cli_var Code_Unknown = None.
Proof. vm_compute. tauto. Qed.

(** An error the mapper has no case for gets Unknown, not one of the six codes. *)
Lemma unmatched_is_unknown : srv_default = Code_Unknown /\ srv_code EOther = Code_Unknown.
Proof. vm_compute. tauto. Qed.

(** ** Responses *)

Definition gresp : srv_ret -> resp := grpc_resp srv_code.
Definition e2e : srv_ret -> bool * client_error := end_to_end srv_code cli_err.

(** [srv_result_ok] (Model/ErrCond.v) is the ASSUMPTION about server/server.go: it is a hypothesis here. *)
Lemma C14_wellformed : forall r : srv_ret,
  srv_ret_ok r ->
  (r_error (gresp r) = None <-> ret_err r = None) /\
  (r_error (gresp r) <> None -> r_flag (gresp r) = false).
Proof. intros r. apply wellformed_generic. Qed.

Lemma C14_end_to_end : forall (c : cond) (r : srv_ret),
  srv_ret_ok r -> ret_err r = Some (cond_err c) ->
  r_error (gresp r) = Some (cond_code c) /\
  r_flag (gresp r) = false /\
  e2e r = (false, CEValue (cond_client_err c)).
Proof.
  intros c r Hok He. destruct (C14_codes c) as [Hs Hc].
  split; [|split].
  - unfold gresp. rewrite (grpc_resp_error_some srv_code r _ He), Hs. reflexivity.
  - unfold gresp. rewrite grpc_resp_flag. apply Hok. congruence.
  - unfold e2e. apply (end_to_end_error srv_code cli_err r (cond_err c)); auto.
    rewrite Hs. exact Hc.
Qed.

Lemma C14_success : forall r : srv_ret,
  ret_err r = None ->
  r_error (gresp r) = None /\ e2e r = (ret_flag r, CENil).
Proof.
  intros r He. split.
  - apply grpc_resp_error_none_iff, He.
  - apply end_to_end_success, He.
Qed.

Lemma C14_client_nil_iff : forall r : srv_ret, snd (e2e r) = CENil <-> ret_err r = None.
Proof. intros r. apply end_to_end_nil_iff. Qed.

(** ** REST *)

(** The gateway is registered in process and forwards each route to the Service method named in the
    table, so a REST request is answered with the message [gresp] describes. The table the
    generated gateway registers, the one of .api_config.yaml and the expected one coincide:
    TryLock (not Lock) is what /v1/lock calls, Lock is not exposed. *)
Definition expected_rest_routes : list (string * string * string) :=
  [("POST", "/v1/lock", "TryLock"); ("POST", "/v1/renew", "Renew"); ("POST", "/v1/unlock", "Unlock")]%string.

Definition rest_exposes (r : rpc) : bool :=
  existsb (fun x => String.eqb (snd x) (rpc_name r)) rest_routes_gw.

Definition rest_reachable (c : cond) : bool := existsb rest_exposes (cond_rpcs c).

Lemma C14_rest :
  rest_registers_in_process = true /\
  rest_routes_gw = expected_rest_routes /\
  rest_routes_yaml = expected_rest_routes /\
  (forall r, rest_exposes r = negb (bool_decide (r = RLock))) /\
  (forall c, rest_reachable c = negb (bool_decide (c = CWaitTimeout))).
Proof.
  split; [vm_compute; reflexivity|].
  split; [vm_compute; reflexivity|].
  split; [vm_compute; reflexivity|].
  split; [intros r; destruct r; vm_compute; reflexivity|].
  intros c; destruct c; vm_compute; reflexivity.
Qed.

(** * Granularity: the atomic steps of Msv / Mseq above the lock manager are critical sections of the CURRENT source

    Gen/Atomic.v (harness/cmd/gen2coq/atomic.go) lists, for every method of the session manager (server/session) and of the
    timer map (timermap), its effects in source order — reads, writes, deletions and ranges of the guarded map, assignments of the
    map field, Stop/Reset of a time.Timer, time.AfterFunc, the rewrite of the state file (ESave: a call of a method of the same
    receiver that writes the store; EStoreWrite: the store's Write itself) — each with the guard it executes under (WLock / RLock /
    NoLock of the type's one mutex) and the number of its critical section, closed under calls of methods of the same receiver.
    The checkers below are evaluated on that data by the guard lemmas of Proofs/GenAtomic.v ([Sv_granularity_session],
    [Sv_granularity_timermap], [Sv_granularity_store], [atomic_ok]) — kept in a file of their own so that a change of the locking
    discipline breaks the properties that rest on it (C04 C05 C06 C08 C09 C10 C11 C18) and not C14, which is the only other
    importer of this file. What they justify:

    Model/Sv.v (header: "Everything ABOVE the lock manager is fine-grained: one [VRun tid] executes one internally synchronised
    operation"; "The state file is rewritten through a temporary file and an atomic rename, so a rewrite is one step"):
      - VSessAdd, VSessRemove / VCbSessRemove, VDsDestroy, VDsNoClear (DestroySessionIfEmpty), VConnect (CreateSession): ONE step
        that updates [v_sess] AND (for all but CreateSession) sets [v_file := Some v_sess] ([vsave]). [session_mutations_atomic]:
        every method of the session manager that changes the map has ALL its map effects and its ESave/EStoreWrite effects under
        WLock, in ONE critical section, the store written after the map was changed and no change after the last write; the four
        saving methods do save, CreateSession does not. So no other session-manager step can run between the change of the map
        and the rewrite of the file, and the file image is always the map of some model state.
      - the listing read by the probes / by ListLocks ([v_sess] as a whole): [session_reads_locked]: Locks() reads under a lock.
      - VTmAdd, VTmRemove / VCbTmRemove / VDsTmRemove, VTmReset, VShTimers: ONE step each on [v_timers] and [v_theap] (lookup,
        Stop / Reset of the timer, map update). [timermap_ops_atomic]: in Add, Remove, Reset and shutdown every map effect and
        every ETimerStop / ETimerReset / EAfterFunc is under WLock in ONE critical section.
      - SExpire's three steps VCbUnlock; VCbSessRemove; VCbTmRemove: the function time.AfterFunc runs calls the server's
        onTimeout with NO lock of the timer map held (so its Unlock and RemoveLock interleave freely with everything else) and
        only then TimerMap.Remove, itself one critical section: [callback_then_remove].
    Model/Seq.v (one event runs to quiescence; its AddLock / RemoveLock / DestroySession / timer Add / Remove / Reset sub-steps are the
    same methods): quiescence presupposes that none of these methods leaves work behind that runs after it returned — the same
    facts: the save and the timer operation are inside the method's critical section, not after it or on another goroutine.

    Exceptions by name ([session_startup_methods]) — they run before the server accepts requests, when no other goroutine has the
    manager: NewManager (the constructor's composite literal creates the map), Load (server.New reads the state file and
    assigns the map before the listeners start; the model's ERestart), SetStore (replaces the store; used by tests before the
    manager is shared — it is under the write lock anyway). Helper methods that never touch the mutex, are only called by other
    methods and are not referred to from another package ([session_helpers], e.g. Save) are judged where they are called. *)
From Ldlm Require Import Gen.Atomic.

Definition scat (l : list string) : string := List.fold_right String.append EmptyString l.

Definition guard_eqb (a b : lkguard) : bool :=
  match a, b with WLock, WLock | RLock, RLock | NoLock, NoLock => true | _, _ => false end.
Definition guard_name (g : lkguard) : string :=
  match g with WLock => "WLock" | RLock => "RLock" | NoLock => "NoLock" end%string.
Definition effect_name (e : effect) : string :=
  match e with
  | EMapRead => "EMapRead" | EMapWrite => "EMapWrite" | EMapDelete => "EMapDelete" | EMapRange => "EMapRange"
  | EFieldAssign => "EFieldAssign" | EStoreAssign => "EStoreAssign"
  | ETimerStop => "ETimerStop" | ETimerReset => "ETimerReset" | EAfterFunc => "EAfterFunc"
  | ESave => "ESave" | EStoreWrite => "EStoreWrite" | EUserCallback => "EUserCallback"
  | ECall c => String.append "ECall " c
  end%string.

Definition e_kind (x : eff) : effect := fst (fst x).
Definition e_guard (x : eff) : lkguard := snd (fst x).
Definition e_sec (x : eff) : nat := snd x.

Definition is_mut (e : effect) : bool := match e with EMapWrite | EMapDelete | EFieldAssign => true | _ => false end.
Definition is_map (e : effect) : bool := match e with EMapRead | EMapWrite | EMapDelete | EMapRange | EFieldAssign => true | _ => false end.
Definition is_save (e : effect) : bool := match e with ESave | EStoreWrite => true | _ => false end.
Definition is_timer (e : effect) : bool := match e with ETimerStop | ETimerReset | EAfterFunc => true | _ => false end.
Definition is_kind (n : string) (x : eff) : bool := String.eqb (effect_name (e_kind x)) n.
Definition has_kind (n : string) (effs : list eff) : bool := List.existsb (is_kind n) effs.

Definition rel_session (x : eff) : bool := is_map (e_kind x) || is_save (e_kind x).
Definition rel_timer (x : eff) : bool := is_map (e_kind x) || is_timer (e_kind x).
Definition mutates (effs : list eff) : bool := List.existsb (fun x => is_mut (e_kind x)) effs.
(** the rewrite of the state file itself: EStoreWrite (ESave marks the CALL of a method that contains one; the callee's effects,
    the EStoreWrite among them, follow it inlined — so the order of map change and rewrite is read off the EStoreWrite) *)
Definition is_write (e : effect) : bool := match e with EStoreWrite => true | _ => false end.
Definition saves (effs : list eff) : bool := List.existsb (fun x => is_write (e_kind x)) effs.

Definition str_in (s : string) (l : list string) : bool := List.existsb (String.eqb s) l.
Definition lookup_method (n : string) (ms : list (string * list eff)) : option (list eff) :=
  option_map snd (List.find (fun p => String.eqb (fst p) n) ms).
Definition nil_b {A} (l : list A) : bool := match l with [] => true | _ => false end.

(** the critical section a step must be: that of its first relevant effect *)
Definition first_sec (rel : eff -> bool) (effs : list eff) : nat :=
  match List.find rel effs with Some x => e_sec x | None => 0%nat end.

(** [one_section_violations m rel effs]: every effect selected by [rel] is under WLock and in the critical section of the first one *)
Definition one_section_at (m : string) (rel : eff -> bool) (s0 : nat) (x : eff) : list string :=
  if rel x then
    if guard_eqb (e_guard x) WLock then
      if Nat.eqb (e_sec x) s0 then [] else [scat [m; ": "; effect_name (e_kind x); " under WLock, but in another critical section than the first guarded effect"]%string]
    else [scat [m; ": "; effect_name (e_kind x); " under "; guard_name (e_guard x)]%string]
  else [].
Definition one_section_violations (m : string) (rel : eff -> bool) (effs : list eff) : list string :=
  List.flat_map (one_section_at m rel (first_sec rel effs)) effs.

(** suffix after the last element satisfying p (the whole list when there is none); prefix before the first *)
Fixpoint after_last {A} (p : A -> bool) (l : list A) : list A :=
  match l with
  | [] => []
  | x :: r => if List.existsb p r then after_last p r else if p x then r else x :: r
  end.
Fixpoint before_first {A} (p : A -> bool) (l : list A) : list A :=
  match l with
  | [] => []
  | x :: r => if p x then [] else x :: before_first p r
  end.
Fixpoint after_first {A} (p : A -> bool) (l : list A) : list A :=
  match l with
  | [] => []
  | x :: r => if p x then r else after_first p r
  end.

(** ** the session manager *)
Definition session_startup_methods : list string := ["NewManager"; "Load"; "SetStore"]%string.
Definition session_saving_methods : list string := ["AddLock"; "RemoveLock"; "DestroySession"; "DestroySessionIfEmpty"]%string.
Definition session_nonsaving_mutators : list string := ["CreateSession"]%string.

Definition session_method_violations (m : string) (effs : list eff) : list string :=
  if mutates effs then
    one_section_violations m rel_session effs ++
    (if saves effs then
       (if mutates (after_last (fun x => is_write (e_kind x)) effs) then [scat [m; ": the map is changed after the last write of the store"]%string] else []) ++
       (if mutates (before_first (fun x => is_write (e_kind x)) effs) then [] else [scat [m; ": the store is written before the map is changed"]%string])
     else [])
  else [].

Definition session_violations (ms : list (string * list eff)) (helpers : list string) : list string :=
  List.flat_map (fun p => if str_in (fst p) session_startup_methods || str_in (fst p) helpers then [] else session_method_violations (fst p) (snd p)) ms ++
  List.flat_map (fun m => match lookup_method m ms with
                          | None => [scat [m; ": method not found"]%string]
                          | Some effs => (if mutates effs then [] else [scat [m; ": no change of the map recognised"]%string]) ++
                                         (if saves effs then [] else [scat [m; ": does not write the store"]%string])
                          end) session_saving_methods ++
  List.flat_map (fun m => match lookup_method m ms with
                          | None => [scat [m; ": method not found"]%string]
                          | Some effs => (if mutates effs then [] else [scat [m; ": no change of the map recognised"]%string]) ++
                                         (if saves effs then [scat [m; ": writes the store (the model's step does not)"]%string] else [])
                          end) session_nonsaving_mutators ++
  List.flat_map (fun m => if str_in m helpers then [scat [m; ": is a helper without a lock of its own, yet the server calls it"]%string] else [])
                (session_saving_methods ++ session_nonsaving_mutators ++ ["Locks"]%string).

Definition session_mutations_atomic (ms : list (string * list eff)) (helpers : list string) : bool := nil_b (session_violations ms helpers).

Definition reads_violations (ms : list (string * list eff)) : list string :=
  match lookup_method "Locks"%string ms with
  | None => ["Locks: method not found"%string]
  | Some effs =>
      (if List.existsb (fun x => is_map (e_kind x)) effs then [] else ["Locks: no read of the map recognised"%string]) ++
      List.flat_map (fun x => if is_map (e_kind x) && guard_eqb (e_guard x) NoLock
                              then [scat ["Locks: "; effect_name (e_kind x); " under NoLock"]%string] else []) effs ++
      List.flat_map (fun x => if is_map (e_kind x) && negb (Nat.eqb (e_sec x) (first_sec (fun y => is_map (e_kind y)) effs))
                              then [scat ["Locks: "; effect_name (e_kind x); " is not in the critical section of the first read"]%string] else []) effs
  end.
Definition session_reads_locked (ms : list (string * list eff)) : bool := nil_b (reads_violations ms).

(** ** the timer map *)
Definition timermap_ops : list (string * list string) :=
  [("Add", ["EAfterFunc"; "EMapWrite"]); ("Remove", ["ETimerStop"; "EMapDelete"]); ("Reset", ["ETimerStop"; "ETimerReset"]); ("shutdown", ["ETimerStop"])]%string.

(** the function time.AfterFunc runs: calls of other helpers of the receiver aside, FIRST the user's callback with no lock
    held, THEN Remove (called with no lock held; its own effects, inlined, are one WLock critical section that deletes the entry) *)
Definition callback_violations (m : string) (effs : list eff) : list string :=
  let other_call (x : eff) := match e_kind x with ECall c => negb (String.eqb c "Remove") | _ => false end in
  match List.filter (fun x => negb (other_call x)) effs with
  | a :: b :: rest =>
      (if is_kind "EUserCallback" a && guard_eqb (e_guard a) NoLock then [] else [scat [m; ": does not start with the user callback under NoLock but with "; effect_name (e_kind a); " under "; guard_name (e_guard a)]%string]) ++
      (if is_kind "ECall Remove" b && guard_eqb (e_guard b) NoLock then [] else [scat [m; ": the user callback is not followed by Remove under NoLock but by "; effect_name (e_kind b); " under "; guard_name (e_guard b)]%string]) ++
      (if has_kind "EUserCallback" rest || has_kind "ECall Remove" rest then [scat [m; ": more than one user callback / Remove"]%string] else []) ++
      (if has_kind "EMapDelete" rest then [] else [scat [m; ": Remove does not delete the entry"]%string]) ++
      (if nil_b (one_section_violations m rel_timer rest) then [] else [scat [m; ": the Remove it ends with is not one WLock critical section"]%string])
  | _ => [scat [m; ": not (user callback; Remove)"]%string]
  end.
Definition callback_then_remove (cbs : list (string * list eff)) : bool :=
  negb (nil_b cbs) && nil_b (List.flat_map (fun p => callback_violations (fst p) (snd p)) cbs).

Definition timermap_violations (ms cbs : list (string * list eff)) : list string :=
  List.flat_map (fun op => match lookup_method (fst op) ms with
                           | None => [scat [fst op; ": method not found"]%string]
                           | Some effs =>
                               List.flat_map (fun k => if has_kind k effs then [] else [scat [fst op; ": no "; k; " recognised"]%string]) (snd op) ++
                               one_section_violations (fst op) rel_timer effs
                           end) timermap_ops ++
  (if nil_b cbs then ["no function run by time.AfterFunc found"%string] else []) ++
  List.flat_map (fun p => callback_violations (fst p) (snd p)) cbs.
Definition timermap_ops_atomic (ms cbs : list (string * list eff)) : bool := nil_b (timermap_violations ms cbs).

(** ** the store: a rewrite of the state file is one step because the new image is written to another file, flushed, and
    renamed over the state file; nothing is written after the rename *)
Definition store_violations (shape : list string) : list string :=
  let is s x := String.eqb x s in
  let before := before_first (is "os.Rename"%string) shape in
  (if str_in "os.Rename"%string shape then [] else ["store.Write: no os.Rename"%string]) ++
  (if str_in "File.Write"%string before || str_in "os.WriteFile"%string before then [] else ["store.Write: nothing is written before the rename"%string]) ++
  (if str_in "File.Sync"%string (after_first (is "File.Write"%string) before) || str_in "os.WriteFile"%string before then [] else ["store.Write: no Sync between the write and the rename"%string]) ++
  List.flat_map (fun x => if str_in x ["File.Write"; "File.WriteString"; "File.WriteAt"; "File.Truncate"; "File.Seek"; "os.WriteFile"; "os.Truncate"; "os.Remove"]%string
                          then [scat ["store.Write: "; x; " after the rename"]%string] else [])
                (after_first (is "os.Rename"%string) shape).
Definition store_write_by_rename (shape : list string) : bool := nil_b (store_violations shape).

(** ** diagnostics: a guard lemma is preceded by the statement that the list of its violations, headed by the name of the lemma
    they break, is empty — Coq's error message for it ("Unable to unify [] with [...]") then carries which method, which
    effect, under which guard (and the shapes the translator did not recognise) into the log and the replay file *)
Definition blame (lemma : string) (vs : list string) : list string :=
  match vs with [] => [] | _ => scat [lemma; " BROKEN:"]%string :: vs end.

Definition session_diag (ms : list (string * list eff)) (helpers reasons : list string) : list string :=
  blame "granularity_session (Proofs/GenAtomic.v: Sv_granularity_session)" (session_violations ms helpers ++ reads_violations ms ++ reasons).
Definition timermap_diag (ms cbs : list (string * list eff)) (reasons : list string) : list string :=
  blame "granularity_timermap (Proofs/GenAtomic.v: Sv_granularity_timermap)" (timermap_violations ms cbs ++ reasons).
Definition store_diag (shape reasons : list string) : list string :=
  blame "granularity_store (Proofs/GenAtomic.v: Sv_granularity_store)" (store_violations shape ++ reasons).

(** ** what the booleans mean (independent of the generated data) *)
Lemma flat_map_nil_inv {A B} (f : A -> list B) (l : list A) : List.flat_map f l = [] -> forall x, In x l -> f x = [].
Proof.
  induction l as [|a l IH]; simpl; intros H x Hx; [contradiction|].
  apply app_eq_nil in H as [Ha Hl]. destruct Hx as [<-|Hx]; auto.
Qed.

Lemma guard_eqb_eq a b : guard_eqb a b = true -> a = b.
Proof. destruct a, b; simpl; congruence. Qed.

Lemma one_section_sound m rel effs :
  one_section_violations m rel effs = [] ->
  forall x, In x effs -> rel x = true -> e_guard x = WLock /\ e_sec x = first_sec rel effs.
Proof.
  intros H x Hx Hr. pose proof (flat_map_nil_inv _ _ H x Hx) as Hf.
  unfold one_section_at in Hf. rewrite Hr in Hf.
  destruct (guard_eqb (e_guard x) WLock) eqn:E; [|discriminate].
  destruct (Nat.eqb (e_sec x) (first_sec rel effs)) eqn:E'; [|discriminate].
  split; [now apply guard_eqb_eq|now apply Nat.eqb_eq].
Qed.

(** Every method of the session manager that changes the map — start-up methods and lock-free helpers aside — performs all its
    effects on the map and all its writes of the store under the write lock, within one and the same critical section. *)
Lemma session_mutations_atomic_sound ms helpers :
  session_mutations_atomic ms helpers = true ->
  forall m effs, In (m, effs) ms -> str_in m session_startup_methods = false -> str_in m helpers = false -> mutates effs = true ->
  forall x y, In x effs -> In y effs -> rel_session x = true -> rel_session y = true ->
  e_guard x = WLock /\ e_guard y = WLock /\ e_sec x = e_sec y.
Proof.
  unfold session_mutations_atomic, session_violations. intros H m effs Hin Hs Hh Hm x y Hx Hy Rx Ry.
  destruct (List.flat_map _ ms ++ _) eqn:E in H; [|discriminate]. apply app_eq_nil in E as [E _].
  pose proof (flat_map_nil_inv _ _ E (m, effs) Hin) as Hf. cbv beta in Hf.
  change (fst (m, effs)) with m in Hf. change (snd (m, effs)) with effs in Hf. rewrite Hs, Hh in Hf. cbn [orb] in Hf.
  unfold session_method_violations in Hf. rewrite Hm in Hf. apply app_eq_nil in Hf as [Hf _].
  destruct (one_section_sound _ _ _ Hf x Hx Rx) as [Gx Sx]. destruct (one_section_sound _ _ _ Hf y Hy Ry) as [Gy Sy].
  repeat split; congruence.
Qed.

(** Add, Remove, Reset and shutdown of the timer map perform all their effects on the map and on the timers under the write
    lock, within one and the same critical section. *)
Lemma timermap_ops_atomic_sound ms cbs :
  timermap_ops_atomic ms cbs = true ->
  forall m effs, str_in m (List.map fst timermap_ops) = true -> lookup_method m ms = Some effs ->
  forall x y, In x effs -> In y effs -> rel_timer x = true -> rel_timer y = true ->
  e_guard x = WLock /\ e_guard y = WLock /\ e_sec x = e_sec y.
Proof.
  unfold timermap_ops_atomic, timermap_violations. intros H m effs Hm Hl x y Hx Hy Rx Ry.
  destruct (List.flat_map _ timermap_ops ++ _) eqn:E in H; [|discriminate]. apply app_eq_nil in E as [E _].
  assert (Hop : exists ks, In (m, ks) timermap_ops).
  { unfold str_in in Hm. apply List.existsb_exists in Hm as (n & Hn & He). apply String.eqb_eq in He. subst n.
    apply List.in_map_iff in Hn as ([m' ks] & <- & Hk). now exists ks. }
  destruct Hop as [ks Hop]. pose proof (flat_map_nil_inv _ _ E (m, ks) Hop) as Hf. cbv beta in Hf.
  change (fst (m, ks)) with m in Hf. change (snd (m, ks)) with ks in Hf. rewrite Hl in Hf.
  apply app_eq_nil in Hf as [_ Hf].
  destruct (one_section_sound _ _ _ Hf x Hx Rx) as [Gx Sx]. destruct (one_section_sound _ _ _ Hf y Hy Ry) as [Gy Sy].
  repeat split; congruence.
Qed.
