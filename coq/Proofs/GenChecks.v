(** Lemmas stated over the GENERATED files (Gen/ErrTables.v, Gen/Consts.v). The generated files are
    rewritten from the source tree under test on every run, so this file is re-checked whenever
    the tree's switches, enum, re-exports, constants or routes change: an edit of the source
    changes what Coq checks here.

    Sections: guards; C14 (error codes end to end). *)
From Coq Require Import ZArith List String Lia.
From Ldlm Require Import Model.Base Model.Err Model.ErrCond Proofs.ErrP.
From Ldlm Require Import Gen.ErrTables Gen.Consts.
Import ListNotations.

(** * Guards: the translator understood every shape it turned into a table *)

Lemma tables_ok : tables_recognised = true.
Proof. vm_compute. reflexivity. Qed.

Lemma consts_ok : consts_recognised = true.
Proof. vm_compute. reflexivity. Qed.

Lemma routes_ok : routes_recognised = true.
Proof. vm_compute. reflexivity. Qed.

(** * The enum *)

Lemma all_codes_complete : forall c : code, In c all_codes.
Proof. intros c. destruct c; vm_compute; tauto. Qed.

Definition code_eqb (a b : code) : bool := bool_decide (a = b).

Lemma code_num_inj : forall a b : code, code_num a = code_num b -> a = b.
Proof. intros a b. destruct a, b; vm_compute; congruence. Qed.

Lemma code_name_inj : forall a b : code, code_name a = code_name b -> a = b.
Proof. intros a b. destruct a, b; vm_compute; congruence. Qed.

(** protos/*.pb.go (constants and the ErrorCode_name map) and ldlm.proto list the same enum. *)
Definition pair_eqb (p q : string * Z) : bool := (String.eqb (fst p) (fst q) && Z.eqb (snd p) (snd q))%bool.
Definition subset_pairs (a b : list (string * Z)) : bool := forallb (fun p => existsb (pair_eqb p) b) a.
Definition pbgo_enum : list (string * Z) := map (fun c => (code_name c, code_num c)) all_codes.

Lemma enum_agrees :
  subset_pairs pbgo_enum proto_enum = true /\ subset_pairs proto_enum pbgo_enum = true /\
  subset_pairs pbgo_enum pbgo_name_map = true /\ subset_pairs pbgo_name_map pbgo_enum = true.
Proof. vm_compute. tauto. Qed.

(** * C14 *)

(** A condition's own code, as a value of the generated enum. *)
Definition cond_code (c : cond) : code :=
  match c with
  | CLockDoesNotExist => Code_LockDoesNotExist
  | CInvalidKey => Code_InvalidLockKey
  | CWaitTimeout => Code_LockWaitTimeout
  | CRenewDoesNotExistOrInvalidKey => Code_LockDoesNotExistOrInvalidKey
  | CSizeMismatch => Code_LockSizeMismatch
  | CInvalidSize => Code_InvalidLockSize
  end.

Lemma cond_code_name_ok : forall c, code_name (cond_code c) = cond_code_name c.
Proof. intros c; destruct c; vm_compute; reflexivity. Qed.

(** The heart of the property: the value the lock server returns in the condition is mapped to the
    condition's own code by the CURRENT server-side switch, and the CURRENT client-side switch maps
    that code to the client's exported variable of the same name, which holds the value of the
    server-side variable. *)
Lemma C14_codes : forall c,
  srv_code (cond_err c) = cond_code c /\ cli_err (cond_code c) = Some (cond_client_err c).
Proof. intros c; destruct c; vm_compute; split; reflexivity. Qed.

Definition export_of (v : string) : option (option err) :=
  option_map snd (find (fun p => String.eqb (fst p) v) client_exports).

Lemma C14_client_vars : forall c,
  cli_var (cond_code c) = Some (cond_client_var c) /\
  export_of (cond_client_var c) = Some (Some (cond_client_err c)).
Proof. intros c; destruct c; vm_compute; split; reflexivity. Qed.

(** The six codes are pairwise different, none is the code of an unmatched error, and they stay
    different on the wire. *)
Lemma cond_code_inj : forall c c', cond_code c = cond_code c' -> c = c'.
Proof. intros c c'; destruct c, c'; vm_compute; congruence. Qed.

Lemma cond_code_specific : forall c, cond_code c <> srv_default /\ cond_code c <> Code_Unknown.
Proof. intros c; destruct c; vm_compute; split; congruence. Qed.

Lemma cond_code_num_inj : forall c c', code_num (cond_code c) = code_num (cond_code c') -> c = c'.
Proof. intros c c' H. apply cond_code_inj, code_num_inj, H. Qed.

(** Every code but Unknown is turned into an exported value by the client; Unknown is anonymous. *)
Lemma every_code_exported : forall k : code, k <> Code_Unknown ->
  exists v e, cli_var k = Some v /\ cli_err k = Some e /\ e <> EOther /\ export_of v = Some (Some e).
Proof.
  intros k Hk; destruct k; try congruence; vm_compute;
    eexists; eexists; (split; [reflexivity|split; [reflexivity|split; [congruence|reflexivity]]]).
Qed.

Lemma unknown_is_anonymous : cli_err Code_Unknown = None /\ cli_var Code_Unknown = None.
Proof. vm_compute. tauto. Qed.

(** An error the mapper has no case for gets Unknown, not one of the six codes. *)
Lemma unmatched_is_unknown : srv_default = Code_Unknown /\ srv_code EOther = Code_Unknown.
Proof. vm_compute. tauto. Qed.

(** ** Responses *)

Definition gresp : srv_ret -> resp := grpc_resp srv_code.
Definition e2e : srv_ret -> bool * client_error := end_to_end srv_code cli_err.

(** [srv_result_ok] (Model/ErrCond.v) is the ASSUMPTION about server/server.go: it is a hypothesis here. *)
Lemma C14_wellformed : forall r : srv_ret,
  srv_ret_ok r ->
  (r_error (gresp r) = None <-> ret_err r = None) /\
  (r_error (gresp r) <> None -> r_flag (gresp r) = false).
Proof. intros r. apply wellformed_generic. Qed.

Lemma C14_end_to_end : forall (c : cond) (r : srv_ret),
  srv_ret_ok r -> ret_err r = Some (cond_err c) ->
  r_error (gresp r) = Some (cond_code c) /\
  r_flag (gresp r) = false /\
  e2e r = (false, CEValue (cond_client_err c)).
Proof.
  intros c r Hok He. destruct (C14_codes c) as [Hs Hc].
  split; [|split].
  - unfold gresp. rewrite (grpc_resp_error_some srv_code r _ He), Hs. reflexivity.
  - unfold gresp. rewrite grpc_resp_flag. apply Hok. congruence.
  - unfold e2e. apply (end_to_end_error srv_code cli_err r (cond_err c)); auto.
    rewrite Hs. exact Hc.
Qed.

Lemma C14_success : forall r : srv_ret,
  ret_err r = None ->
  r_error (gresp r) = None /\ e2e r = (ret_flag r, CENil).
Proof.
  intros r He. split.
  - apply grpc_resp_error_none_iff, He.
  - apply end_to_end_success, He.
Qed.

Lemma C14_client_nil_iff : forall r : srv_ret, snd (e2e r) = CENil <-> ret_err r = None.
Proof. intros r. apply end_to_end_nil_iff. Qed.

(** ** REST *)

(** The gateway is registered in process and forwards each route to the Service method named in the
    table, so a REST request is answered with the message [gresp] describes. The table the
    generated gateway registers, the one of .api_config.yaml and the expected one coincide:
    TryLock (not Lock) is what /v1/lock calls, Lock is not exposed. *)
Definition expected_rest_routes : list (string * string * string) :=
  [("POST", "/v1/lock", "TryLock"); ("POST", "/v1/renew", "Renew"); ("POST", "/v1/unlock", "Unlock")]%string.

Definition rest_exposes (r : rpc) : bool :=
  existsb (fun x => String.eqb (snd x) (rpc_name r)) rest_routes_gw.

Definition rest_reachable (c : cond) : bool := existsb rest_exposes (cond_rpcs c).

Lemma C14_rest :
  rest_registers_in_process = true /\
  rest_routes_gw = expected_rest_routes /\
  rest_routes_yaml = expected_rest_routes /\
  (forall r, rest_exposes r = negb (bool_decide (r = RLock))) /\
  (forall c, rest_reachable c = negb (bool_decide (c = CWaitTimeout))).
Proof.
  split; [vm_compute; reflexivity|].
  split; [vm_compute; reflexivity|].
  split; [vm_compute; reflexivity|].
  split; [intros r; destruct r; vm_compute; reflexivity|].
  intros c; destruct c; vm_compute; reflexivity.
Qed.
