(** Request-level one-step facts about Mseq: C12 (validation), C04 (leases, request part),
    C18 (admin IPC). Work package seqreq1. *)
From Coq Require Import Lia ZifyBool ZifyNat.
From Ldlm Require Import Model.Base Model.Err Model.Seq Proofs.SeqDefs Proofs.SeqLemmasKey Proofs.SeqTargets.
From RecordUpdate Require Import RecordSet.
Import RecordSetNotations.
Local Open Scope Z_scope.

Local Opaque second.

(** ** Small helpers *)

Lemma det_elem (r r' : sstate * list out) : r ∈ det r' → r = r'.
Proof. unfold det. apply elem_of_list_singleton. Qed.

Lemma obs_eq_refl s : obs_eq s s.
Proof. unfold obs_eq; auto 10. Qed.

Lemma obs_eq_used s u : obs_eq s (s <| st_used := u |>).
Proof. unfold obs_eq; simpl; auto 10. Qed.

(** ** C12 *)

Lemma C12_renew_refusal : T_C12_renew_refusal.
Proof.
  intros cfg s name key lt s' o Hlt H. simpl in H. apply det_elem in H.
  unfold srv_renew in H. destruct (Z.leb_spec lt 0); [|lia]. by simplify_eq.
Qed.

Lemma C12_trylock : T_C12_trylock.
Proof.
  intros cfg s sid name size lt key s' o H. simpl in H. apply det_elem in H.
  unfold srv_trylock in H. unfold refusal.
  destruct sid as [sid|]; [|simplify_eq; split; [eauto|apply obs_eq_refl]].
  destruct (opt_neg lt); [simplify_eq; split; [eauto|apply obs_eq_refl]|].
  cbn [andb]. unfold srv_acquire in H.
  case_bool_decide; [simplify_eq; split; [eauto|apply obs_eq_used]|].
  unfold get_lock_create in H. cbn [st_locks set] in H.
  destruct (default 1 size <=? 0); [simplify_eq; split; [eauto|apply obs_eq_used]|].
  cbn in H.
  destruct (st_locks s !! name) as [lo|] eqn:Hl.
  - rewrite (bool_decide_ext (lo_size lo = default 1 size) (default 1 size = lo_size lo)) by done.
    case_bool_decide; [|simplify_eq; split; [eauto|apply obs_eq_used]].
    repeat case_match; simplify_eq; eauto.
  - repeat case_match; simplify_eq; eauto.
Qed.

Lemma C12_lock : T_C12_lock.
Proof.
  intros cfg s wid sid name size lt wt key s' o H. simpl in H. apply det_elem in H.
  unfold srv_lock in H. unfold refusal.
  destruct sid as [sid|]; [|simplify_eq; split; [eauto|apply obs_eq_refl]].
  destruct (opt_neg lt); [simplify_eq; split; [eauto|apply obs_eq_refl]|].
  cbn [andb]. destruct (opt_neg wt); [simplify_eq; split; [eauto|apply obs_eq_refl]|].
  unfold srv_acquire in H.
  case_bool_decide; [simplify_eq; split; [eauto|apply obs_eq_used]|].
  unfold get_lock_create in H. cbn [st_locks set] in H.
  destruct (default 1 size <=? 0); [simplify_eq; split; [eauto|apply obs_eq_used]|].
  cbn in H.
  destruct (st_locks s !! name) as [lo|] eqn:Hl.
  - rewrite (bool_decide_ext (lo_size lo = default 1 size) (default 1 size = lo_size lo)) by done.
    case_bool_decide; [|simplify_eq; split; [eauto|apply obs_eq_used]].
    repeat case_match; simplify_eq; eauto.
  - repeat case_match; simplify_eq; eauto.
Qed.

Lemma norm_waiters_snoc s1 w1 w2 :
  norm_lt (w_lt w1) = norm_lt (w_lt w2) → w_id w1 = w_id w2 → w_sid w1 = w_sid w2 → w_name w1 = w_name w2 →
  w_key w1 = w_key w2 → w_size w1 = w_size w2 → w_deadline w1 = w_deadline w2 →
  norm_waiters (s1 <| st_waiters := st_waiters s1 ++ [w1] |>) = norm_waiters (s1 <| st_waiters := st_waiters s1 ++ [w2] |>).
Proof.
  intros. unfold norm_waiters. cbn. rewrite !map_app. cbn. congruence.
Qed.

Lemma C12_absent : T_C12_absent.
Proof.
  intros cfg s wid sid name size lt wt key. split; [|split; [|split; [|split]]].
  - reflexivity.
  - reflexivity.
  - cbn. f_equal. unfold srv_lock. destruct sid as [sid|]; [|reflexivity].
    cbn [opt_neg]. change (0 <? 0) with false. cbn match.
    destruct (opt_neg wt); [reflexivity|].
    unfold srv_acquire. case_bool_decide; [reflexivity|].
    destruct (get_lock_create _ _ _) as [e|[lo s1]]; [reflexivity|].
    destruct (can_acquire name lo s1); [reflexivity|].
    f_equal. by apply norm_waiters_snoc.
  - reflexivity.
  - reflexivity.
Qed.

(** ** C04: Renew *)

Lemma C04_renew : T_C04_renew.
Proof.
  intros cfg s n k lt s' o Hlt H. simpl in H. apply det_elem in H.
  unfold srv_renew in H. destruct (Z.leb_spec lt 0); [lia|].
  destruct (st_timers s !! tkey n k) as [t|]; simplify_eq; cbn; auto 10.
Qed.

(** ** C18 *)

Lemma C18_list : T_C18_list.
Proof. intros cfg s s' o H. simpl in H. apply det_elem in H. by simplify_eq. Qed.

Lemma C18_unlock_key : T_C18_unlock_key.
Proof.
  intros cfg s n k s' o Hk H. cbn in H. rewrite bool_decide_false in H by done.
  apply elem_of_list_singleton in H. unfold ipc_unlock_with in H. cbn.
  destruct (srv_unlock cfg n k s) as [[s1 [u e]] outs].
  exists outs, u, e. split.
  - destruct e; simplify_eq; apply elem_of_list_singleton; reflexivity.
  - destruct e; by simplify_eq.
Qed.

(** ** What the building blocks touch *)

Lemma save_locks cfg s : st_locks (save cfg s) = st_locks s.
Proof. unfold save; by destruct (c_file cfg). Qed.
Lemma save_timers cfg s : st_timers (save cfg s) = st_timers s.
Proof. unfold save; by destruct (c_file cfg). Qed.
Lemma save_waiters cfg s : st_waiters (save cfg s) = st_waiters s.
Proof. unfold save; by destruct (c_file cfg). Qed.
Lemma save_now cfg s : st_now (save cfg s) = st_now s.
Proof. unfold save; by destruct (c_file cfg). Qed.

Lemma record_grant_locks cfg sid n k sz lt s : st_locks (record_grant cfg sid n k sz lt s) = st_locks s.
Proof.
  unfold record_grant. destruct lt as [t|]; [destruct (0 <? t)|]; cbn; by rewrite save_locks.
Qed.
Lemma record_grant_waiters cfg sid n k sz lt s : st_waiters (record_grant cfg sid n k sz lt s) = st_waiters s.
Proof.
  unfold record_grant. destruct lt as [t|]; [destruct (0 <? t)|]; cbn; by rewrite save_waiters.
Qed.
Lemma record_grant_timers_ne cfg sid n k sz lt s tk : tk ≠ tkey n k →
  st_timers (record_grant cfg sid n k sz lt s) !! tk = st_timers s !! tk.
Proof.
  intros. unfold record_grant. destruct lt as [t|]; [destruct (0 <? t)|]; cbn;
    rewrite ?lookup_insert_ne by done; by rewrite save_timers.
Qed.
Lemma record_grant_timer_at cfg sid n k sz lt s :
  st_timers (record_grant cfg sid n k sz lt s) !! tkey n k =
    match lt with
    | Some t => if 0 <? t then Some (Timer (st_now s + t * second) n k sid) else st_timers s !! tkey n k
    | None => st_timers s !! tkey n k
    end.
Proof.
  unfold record_grant. destruct lt as [t|]; [destruct (0 <? t)|]; cbn;
    rewrite ?lookup_insert; by rewrite ?save_timers.
Qed.

Lemma remove_lock_entry_locks cfg n k s : st_locks (remove_lock_entry cfg n k s) = st_locks s.
Proof. unfold remove_lock_entry. case_match; by rewrite ?save_locks. Qed.
Lemma remove_lock_entry_timers cfg n k s : st_timers (remove_lock_entry cfg n k s) = st_timers s.
Proof. unfold remove_lock_entry. case_match; by rewrite ?save_timers. Qed.
Lemma remove_lock_entry_waiters cfg n k s : st_waiters (remove_lock_entry cfg n k s) = st_waiters s.
Proof. unfold remove_lock_entry. case_match; by rewrite ?save_waiters. Qed.

Lemma add_key_some n k s lo : st_locks s !! n = Some lo →
  add_key n k s = s <| st_locks := <[n := lo <| lo_keys := lo_keys lo ++ [k] |>]> (st_locks s) |>.
Proof. intros E. unfold add_key. by rewrite E. Qed.

Lemma get_lock_create_spec n sz s lo s1 : get_lock_create n sz s = inr (lo, s1) →
  0 < sz ∧ lo_size lo = sz ∧ s1 = s <| st_locks := <[n := lo]> (st_locks s) |> ∧
  match st_locks s !! n with
  | Some lo0 => lo = lo0 <| lo_last := st_now s |>
  | None => lo = LockObj sz [] (st_now s)
  end.
Proof.
  unfold get_lock_create. destruct (Z.leb_spec sz 0); [done|].
  destruct (st_locks s !! n) as [lo0|]; [case_bool_decide|]; intros; simplify_eq; cbn; auto.
Qed.

Lemma name_waiters_head n ws w ws' : name_waiters n ws = w :: ws' → w ∈ ws ∧ w_name w = n.
Proof.
  intros E. assert (Hw : w ∈ name_waiters n ws) by (rewrite E; left).
  unfold name_waiters in Hw. by apply elem_of_list_filter in Hw as [? ?].
Qed.

(** hand_off either does nothing or grants to a parked call of that name *)
Lemma hand_off_spec cfg n s s' o : hand_off cfg n s = (s', o) →
  (s' = s ∧ o = []) ∨
  (∃ w lo, w ∈ st_waiters s ∧ w_name w = n ∧ st_locks s !! n = Some lo ∧
     st_locks s' = <[n := lo <| lo_keys := lo_keys lo ++ [w_key w] |>]> (st_locks s) ∧
     (∀ tk, tk ≠ tkey n (w_key w) → st_timers s' !! tk = st_timers s !! tk)).
Proof.
  unfold hand_off. destruct (st_locks s !! n) as [lo|] eqn:El; [|intros; simplify_eq; auto].
  destruct (name_waiters n (st_waiters s)) as [|w ws] eqn:Ew; [intros; simplify_eq; auto|].
  case_bool_decide; [|intros; simplify_eq; auto].
  intros Hh. injection Hh as <- <-. right. exists w, lo.
  apply name_waiters_head in Ew as [? ?]. rewrite (add_key_some _ _ _ _ El).
  repeat split; auto.
  - by rewrite record_grant_locks.
  - intros tk Htk. by rewrite record_grant_timers_ne.
Qed.

(** ** C12: a lock's size is fixed. Outside GC and restart no lock object is ever unmapped. *)

Definition lext (m m' : gmap str lockobj) : Prop :=
  ∀ n o1, m !! n = Some o1 → ∃ o2, m' !! n = Some o2 ∧ lo_size o2 = lo_size o1.

Lemma lext_refl m : lext m m.
Proof. intros n o1 ?; eauto. Qed.
Lemma lext_trans m1 m2 m3 : lext m1 m2 → lext m2 m3 → lext m1 m3.
Proof.
  intros H1 H2 n o1 E. destruct (H1 _ _ E) as (o2 & E2 & ?). destruct (H2 _ _ E2) as (o3 & E3 & ?).
  exists o3; split; [done|congruence].
Qed.
Lemma lext_insert_same m n lo lo' : m !! n = Some lo → lo_size lo' = lo_size lo → lext m (<[n := lo']> m).
Proof.
  intros E Hs n' o1 E1. destruct (decide (n' = n)) as [->|].
  - rewrite lookup_insert. simplify_eq. eauto.
  - rewrite lookup_insert_ne by done. eauto.
Qed.
Lemma lext_insert_new m n lo' : m !! n = None → lext m (<[n := lo']> m).
Proof.
  intros E n' o1 E1. destruct (decide (n' = n)) as [->|]; [congruence|].
  rewrite lookup_insert_ne by done. eauto.
Qed.

Lemma get_lock_create_lext n sz s lo s1 : get_lock_create n sz s = inr (lo, s1) → lext (st_locks s) (st_locks s1).
Proof.
  intros H. apply get_lock_create_spec in H as (_ & _ & -> & H). cbn.
  destruct (st_locks s !! n) as [lo0|] eqn:E; subst lo.
  - by eapply lext_insert_same.
  - by apply lext_insert_new.
Qed.

Lemma add_key_lext n k s : lext (st_locks s) (st_locks (add_key n k s)).
Proof.
  unfold add_key. destruct (st_locks s !! n) as [lo|] eqn:E; [|apply lext_refl].
  cbn. by eapply lext_insert_same.
Qed.

Lemma hand_off_lext cfg n s s' o : hand_off cfg n s = (s', o) → lext (st_locks s) (st_locks s').
Proof.
  intros H. apply hand_off_spec in H as [[-> _]|(w & lo & _ & _ & E & -> & _)]; [apply lext_refl|].
  by eapply lext_insert_same.
Qed.

Lemma mgr_unlock_lext cfg n k s s' r o : mgr_unlock cfg n k s = (s', r, o) → lext (st_locks s) (st_locks s').
Proof.
  unfold mgr_unlock. destruct (st_locks s !! n) as [lo|] eqn:E; [|intros; simplify_eq; apply lext_refl].
  case_bool_decide.
  - destruct (hand_off _ _ _) as [s2 outs] eqn:Eh. intros; simplify_eq.
    apply hand_off_lext in Eh. cbn in Eh. eapply lext_trans; [|exact Eh]. by eapply lext_insert_same.
  - intros; simplify_eq. cbn. by eapply lext_insert_same.
Qed.

Lemma srv_acquire_lext cfg b wid sid n k sz lt wt s s' o :
  srv_acquire cfg b wid sid n k sz lt wt s = (s', o) → lext (st_locks s) (st_locks s').
Proof.
  unfold srv_acquire. case_bool_decide; [intros; simplify_eq; apply lext_refl|].
  destruct (get_lock_create n sz s) as [e|[lo s1]] eqn:Eg; [intros; simplify_eq; apply lext_refl|].
  apply get_lock_create_lext in Eg.
  destruct (can_acquire n lo s1); [|destruct b]; intros; simplify_eq; cbn; auto.
  rewrite record_grant_locks. eapply lext_trans; [exact Eg|apply add_key_lext].
Qed.

Lemma srv_unlock_lext cfg n k s s' r o : srv_unlock cfg n k s = (s', r, o) → lext (st_locks s) (st_locks s').
Proof.
  unfold srv_unlock. destruct (mgr_unlock _ _ _ _) as [[s1 [e|u]] outs] eqn:Em; intros; simplify_eq;
    apply mgr_unlock_lext in Em; cbn in Em; by rewrite ?remove_lock_entry_locks.
Qed.

Lemma ipc_unlock_with_lext cfg n k s s' o : ipc_unlock_with cfg n k s = (s', o) → lext (st_locks s) (st_locks s').
Proof.
  unfold ipc_unlock_with. destruct (srv_unlock cfg n k s) as [[s1 [u [e|]]] outs] eqn:Eu; intros; simplify_eq;
    by apply srv_unlock_lext in Eu.
Qed.

Lemma cancel_waiters_locks p e s : st_locks (cancel_waiters p e s).1 = st_locks s.
Proof.
  unfold cancel_waiters. generalize (filter (λ w, p w = true) (st_waiters s)). intros l.
  generalize (@nil out). revert s. induction l as [|w l IH]; intros s outs; [done|].
  cbn. rewrite IH. done.
Qed.

Lemma destroy_session_lext cfg sid s : lext (st_locks s) (st_locks (destroy_session cfg sid s).1).
Proof.
  unfold destroy_session. destruct (st_shut s); [apply lext_refl|].
  destruct (st_sessions s !! sid) as [locks|]; [|apply lext_refl].
  destruct (c_noclear cfg && _); [apply lext_refl|].
  destruct (c_noclear cfg); [cbn; rewrite save_locks; apply lext_refl|].
  set (s1 := save cfg _). assert (H1 : lext (st_locks s) (st_locks s1)) by (subst s1; rewrite save_locks; apply lext_refl).
  clearbody s1. generalize (@nil out). revert s1 H1.
  induction locks as [|c l IH]; intros s1 H1 outs; [done|].
  cbn [fold_left]. destruct (mgr_unlock cfg (cl_name c) (cl_key c) s1) as [[s2 [e|u]] o2] eqn:Em;
    apply mgr_unlock_lext in Em; apply IH; cbn; eapply lext_trans; eauto.
Qed.

Lemma C12_size_fixed : T_C12_size_fixed.
Proof.
  intros cfg s ev s' o n o1 o2 _ _ H E1 E2 Hadv Hrst.
  assert (Hx : lext (st_locks s) (st_locks s')); [|destruct (Hx _ _ E1) as (o2' & ? & ?); congruence].
  clear n o1 o2 E1 E2.
  destruct ev; cbn in H; try (by edestruct Hadv); try (by edestruct Hrst).
  - apply det_elem in H. simplify_eq. destruct (st_sessions s !! sid); apply lext_refl.
  - apply det_elem in H. unfold disconnect in H.
    pose proof (cancel_waiters_locks (λ w, bool_decide (w_sid w = sid)) ECtxCanceled s) as Hc.
    destruct (cancel_waiters _ _ s) as [s1 o1]. cbn in Hc. rewrite <- Hc.
    pose proof (destroy_session_lext cfg sid s1) as Hd.
    destruct (destroy_session cfg sid s1) as [s2 o2]. by simplify_eq.
  - apply det_elem in H. unfold srv_trylock in H. destruct sid; [|simplify_eq; apply lext_refl].
    destruct (opt_neg lt); [simplify_eq; apply lext_refl|].
    symmetry in H. by apply srv_acquire_lext in H.
  - apply det_elem in H. unfold srv_lock in H. destruct sid; [|simplify_eq; apply lext_refl].
    destruct (opt_neg lt); [simplify_eq; apply lext_refl|].
    destruct (opt_neg wt); [simplify_eq; apply lext_refl|].
    symmetry in H. by apply srv_acquire_lext in H.
  - destruct (srv_unlock cfg name key s) as [[s1 [u e]] outs] eqn:Eu. apply det_elem in H. simplify_eq.
    by apply srv_unlock_lext in Eu.
  - apply det_elem in H. unfold srv_renew in H. repeat case_match; simplify_eq; apply lext_refl.
  - apply det_elem in H. rewrite <- (cancel_waiters_locks (λ w, bool_decide (w_id w = wid)) ECtxCanceled s).
    rewrite <- H. apply lext_refl.
  - apply det_elem in H. unfold shutdown in H.
    pose proof (cancel_waiters_locks (λ _, true) ECtxCanceled (s <| st_shut := true |>)) as Hc.
    destruct (cancel_waiters _ _ _) as [s1 o1]. simplify_eq. cbn in *. rewrite Hc. apply lext_refl.
  - apply det_elem in H. simplify_eq. apply lext_refl.
  - apply det_elem in H. simplify_eq. apply lext_refl.
  - unfold ipc_unlock in H. destruct key as [k|].
    + case_bool_decide; [by apply elem_of_nil in H|]. apply elem_of_list_singleton in H.
      symmetry in H. by apply ipc_unlock_with_lext in H.
    + destruct (ipc_candidates name s) as [|k0 ks].
      * apply elem_of_list_singleton in H. simplify_eq. apply lext_refl.
      * apply elem_of_list_fmap in H as (k & H & _). case_bool_decide; [simplify_eq; apply lext_refl|].
        symmetry in H. by apply ipc_unlock_with_lext in H.
Qed.

(** ** C04: leases at grant, dead keys, Unlock of a live hold *)

Lemma timer_live cfg s n k t : Inv cfg s → st_timers s !! tkey n k = Some t → live s n k.
Proof.
  intros HI E. destruct (inv_timers _ _ HI _ _ E) as (Hk & _ & Hl).
  apply tkey_inj in Hk as [-> ->]. done.
Qed.

Lemma C04_grant_lease : T_C04_grant_lease.
Proof.
  intros cfg s sid name size lt key s' HI Hok H. cbn in Hok. simpl in H. apply det_elem in H.
  unfold srv_trylock in H. destruct (opt_neg lt) eqn:Hneg; [simplify_eq|].
  unfold srv_acquire in H. case_bool_decide; [simplify_eq|].
  destruct (get_lock_create _ _ _) as [e|[lo s1]] eqn:Eg; [simplify_eq|].
  destruct (can_acquire name lo s1); [|simplify_eq].
  injection H as ->. apply get_lock_create_spec in Eg as (_ & _ & -> & _).
  rewrite (add_key_some _ _ _ lo) by (cbn; apply lookup_insert). cbn.
  split.
  - exists (lo <| lo_keys := lo_keys lo ++ [key] |>). rewrite record_grant_locks. cbn.
    rewrite lookup_insert. split; [done|]. cbn. apply elem_of_app; right; left.
  - rewrite record_grant_timer_at. cbn.
    assert (Hn : st_timers s !! tkey name key = None).
    { destruct (st_timers s !! tkey name key) as [t|] eqn:Et; [|done].
      exfalso. apply Hok. eapply inv_used_live; [exact HI|]. eapply timer_live; eauto. }
    rewrite Hn. destruct lt as [t|]; [destruct (0 <? t)|]; done.
Qed.

Lemma C04_dead_key : T_C04_dead_key.
Proof.
  intros cfg s sid n k lt s' o HI Hdead. split.
  - intros H. cbn in H. unfold srv_unlock, mgr_unlock in H. cbn in H.
    destruct (st_locks s !! n) as [lo|] eqn:El.
    + rewrite bool_decide_false in H by (intros Hin; apply Hdead; by exists lo).
      apply det_elem in H. simplify_eq. eauto.
    + apply det_elem in H. simplify_eq. eauto.
  - intros Hlt H. simpl in H. apply det_elem in H. unfold srv_renew in H.
    destruct (Z.leb_spec lt 0); [lia|].
    destruct (st_timers s !! tkey n k) as [t|] eqn:Et; [|by simplify_eq].
    exfalso. apply Hdead. eapply timer_live; eauto.
Qed.

Lemma remove_first_NoDup k l : NoDup l → k ∉ remove_first k l.
Proof.
  induction 1 as [|x l Hx Hl IH]; cbn; [apply not_elem_of_nil|].
  case_bool_decide; [by subst|]. rewrite not_elem_of_cons. auto.
Qed.

Lemma unlock_live : T_unlock_live.
Proof.
  intros cfg s sid n k s' o HI Hlive H. cbn in H.
  destruct Hlive as (lo & El & Hin).
  unfold srv_unlock, mgr_unlock in H. cbn in H. rewrite El in H. rewrite bool_decide_true in H by done.
  set (s1 := s <| st_timers := _ |> <| st_locks := _ |>) in H.
  destruct (hand_off cfg n s1) as [s2 outs] eqn:Eh. apply det_elem in H. injection H as -> ->.
  split; [apply elem_of_app; right; left|].
  destruct (inv_cap _ _ HI _ _ El) as (_ & _ & Hnd).
  pose proof (remove_first_NoDup k _ Hnd) as Hrf.
  assert (E1 : st_locks s1 !! n = Some (lo <| lo_last := st_now s |> <| lo_keys := remove_first k (lo_keys lo) |>))
    by (subst s1; cbn; apply lookup_insert).
  assert (T1 : st_timers s1 !! tkey n k = None) by (subst s1; cbn; apply lookup_delete).
  rewrite remove_lock_entry_timers. unfold live. rewrite remove_lock_entry_locks.
  apply hand_off_spec in Eh as [[-> _]|(w & lo1 & Hw & Hwn & E1' & -> & Ht)].
  - split; [|done]. intros (lo' & E' & Hin'). rewrite E1 in E'. simplify_eq. cbn in Hin'. done.
  - rewrite E1 in E1'. injection E1' as <-.
    assert (Hne : w_key w ≠ k).
    { intros <-. destruct (inv_used_waiters _ _ HI w) as [_ Hnl]; [by subst s1|].
      apply Hnl. exists n, lo. done. }
    split.
    + intros (lo' & E' & Hin'). rewrite lookup_insert in E'. simplify_eq. cbn in Hin'.
      apply elem_of_app in Hin' as [?|Hin']; [done|]. apply elem_of_list_singleton in Hin'. done.
    + rewrite Ht; [done|]. intros Hk. apply tkey_inj in Hk as [_ ?]. done.
Qed.

(** ** C18: unlock by name *)

Lemma listing_elem s c : c ∈ listing s ↔ ∃ sid l, st_sessions s !! sid = Some l ∧ c ∈ l.
Proof.
  unfold listing. rewrite elem_of_list_In, in_concat. split.
  - intros (l & Hl & Hc). apply in_map_iff in Hl as ([sid l'] & <- & Hl).
    apply elem_of_list_In, elem_of_map_to_list in Hl. apply elem_of_list_In in Hc. eauto.
  - intros (sid & l & E & Hc). exists l. split; [|by apply elem_of_list_In].
    apply in_map_iff. exists (sid, l). split; [done|]. by apply elem_of_list_In, elem_of_map_to_list.
Qed.

Lemma C18_unlock_name : T_C18_unlock_name.
Proof.
  intros cfg s n s' o _ H. unfold sstep, ipc_unlock in H.
  destruct (ipc_candidates n s) as [|k0 ks] eqn:Ec.
  - apply elem_of_list_singleton in H. injection H as -> ->. right. split; [|done]. left.
    intros k sz Hin. apply listing_elem in Hin as (sid & l & E & Hc).
    assert (Hf : Clock n k sz ∈ filter (λ c, bool_decide (cl_name c = n)) l).
    { apply elem_of_list_filter. split; [|done]. cbn. by apply bool_decide_pack. }
    destruct (last (filter (λ c, bool_decide (cl_name c = n)) l)) as [c|] eqn:Elast.
    + assert (Hk : cl_key c ∈ ipc_candidates n s); [|rewrite Ec in Hk; by apply elem_of_nil in Hk].
      unfold ipc_candidates. apply elem_of_list_omap. exists (sid, l).
      split; [by apply elem_of_map_to_list|]. cbn. by rewrite Elast.
    + apply last_None in Elast. rewrite Elast in Hf. by apply elem_of_nil in Hf.
  - apply elem_of_list_fmap in H as (k & H & Hk). rewrite <- Ec in Hk. clear Ec k0 ks.
    unfold ipc_candidates in Hk. apply elem_of_list_omap in Hk as ([sid l] & Hl & Hk).
    apply elem_of_map_to_list in Hl. cbn in Hk.
    destruct (last _) as [c|] eqn:Elast; [|done]. cbn in Hk. injection Hk as <-.
    apply last_Some_elem_of, elem_of_list_filter in Elast as [Hn Hc]. apply bool_decide_unpack in Hn.
    assert (Hin : Clock n (cl_key c) (cl_size c) ∈ listing s).
    { apply listing_elem. exists sid, l. split; [done|]. destruct c; cbn in *; by subst. }
    case_bool_decide as Hke.
    + right. injection H as -> ->. split; [|done]. right. exists (cl_size c). by rewrite <- Hke.
    + left. exists (cl_key c), (cl_size c). split; [done|]. cbn. rewrite bool_decide_false by done.
      apply elem_of_list_singleton. done.
Qed.
