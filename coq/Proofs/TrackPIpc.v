(** EIpcUnlock by name alone against the oracle (work package trackp). The oracle reads the completions while the
    hold the admin command released is still in its list (it does not know which hold of that name went), then drops
    it if it is the only one of that name, or defers to the next probe ([t_pending]). *)
From Coq Require Import Lia ZifyBool ZifyNat String.
From Ldlm Require Import Model.Base Model.Err Model.Seq Model.Track Proofs.SeqDefs Proofs.SeqLemmasKey Proofs.SeqInvBase
  Proofs.SeqInvOps Proofs.SeqInvTime Proofs.SeqInv Proofs.SeqTimeBase Proofs.SeqTime1
  Proofs.TrackPBase Proofs.TrackPOrder Proofs.TrackPRel Proofs.TrackPStep Proofs.TrackPTR Proofs.TrackPProbe Proofs.TrackPAcq
  Proofs.TrackPUnl Proofs.TrackPAdv.
From RecordUpdate Require Import RecordSet.
Import RecordSetNotations.
Local Open Scope Z_scope.

(** ** The tracker with one extra hold *)

Section extra.
  Context (cfg : config) (i : nat) (cause : option err).

  (** [tp] is [tm] plus the hold [hk], whose name is pending in [tp]; no extra failures *)
  Definition Ext (hk : hold) (tm tp : tstate) : Prop :=
    t_now tp = t_now tm ∧ t_pending tp = h_name hk :: t_pending tm ∧ t_waiters tp = t_waiters tm ∧
    t_keys tp = t_keys tm ∧ t_sids tp = t_sids tm ∧
    t_holds tp ≡ₚ hk :: t_holds tm ∧ ∀ x, x ∈ t_fail tp → x ∈ t_fail tm.

  Lemma cap_ok_Ext hk w a hsm hsp pd : alive a hk = true → hsp ≡ₚ hk :: hsm →
    cap_ok w a hsp (h_name hk :: pd) = cap_ok w a hsm pd.
  Proof.
    intros Ha Hp. unfold cap_ok, pend_on, on_name, ef. rewrite (lfilter_perm _ _ _ (lfilter_perm _ _ _ Hp)). simpl. rewrite Ha. simpl.
    destruct (bool_decide (h_name hk = tw_name w)); simpl; f_equal; lia.
  Qed.

  Lemma done1_Ext hk tm tp c : alive (c_at c) hk = true →
    Ext hk tm tp → Ext hk (done1 cfg i cause tm c) (done1 cfg i cause tp c).
  Proof.
    intros Ha (En & Ep & Ew & Ek & Es & Hh & Hf). rewrite !done1_eq. rewrite Ew, Ep, Ek. split_and!; simpl; try done.
    - unfold dh. destruct (findw _ _) as [|w rest]; [done|]. unfold ef. rewrite (lfilter_perm _ _ _ Hh). simpl. by rewrite Ha.
    - intros x. rewrite !elem_of_app. intros [Hx|Hx]; [left|right; by apply Hf].
      unfold df in *. destruct (findw _ _) as [|w rest]; [done|]. destruct (is_grant (c_resp c)); [|done].
      unfold grant_flags in *. by rewrite (cap_ok_Ext hk w _ (t_holds tm) (t_holds tp)) in Hx.
  Qed.

  Lemma done_list_Ext hk cs : ∀ tm tp, (∀ c, c ∈ cs → alive (c_at c) hk = true) →
    Ext hk tm tp → Ext hk (done_list cfg i cause cs tm) (done_list cfg i cause cs tp).
  Proof.
    induction cs as [|c cs IH]; intros tm tp Hc HE; [done|]. simpl. apply IH; [intros; apply Hc; by right|].
    apply done1_Ext; [apply Hc; left|done].
  Qed.
End extra.

Lemma NoDup_key_split {A K} `{EqDecision K} (key : A → K) (l : list A) x : NoDup (key <$> l) → x ∈ l →
  l ≡ₚ x :: List.filter (λ y, negb (bool_decide (key y = key x))) l.
Proof.
  induction l as [|y l IH]; [by intros _ ?%elem_of_nil|]. rewrite fmap_cons. intros [Hy Hl]%NoDup_cons [->|Hx]%elem_of_cons; simpl.
  - rewrite bool_decide_eq_true_2 by done. simpl. f_equal. rewrite lfilter_all; [done|].
    intros z Hz. apply negb_true_iff, bool_decide_eq_false. intros E. apply Hy. rewrite <- E. apply elem_of_list_fmap. eauto.
  - rewrite bool_decide_eq_false_2; [simpl|intros E; apply Hy; rewrite E; apply elem_of_list_fmap; eauto].
    rewrite (IH Hl Hx) at 1. apply Permutation_swap.
Qed.

(** ** The relation after an unlock by name that the oracle could not attribute *)

Definition TRP (X : nat → string → Prop) (cfg : config) (s : sstate) (t : tstate) : Prop :=
  ∃ n hk tm, t_pending t = [n] ∧ h_name hk = n ∧ ¬ SeqDefs.live s n (h_key hk) ∧ TR X cfg s tm ∧
    t_holds t ≡ₚ hk :: t_holds tm ∧ t_waiters t = t_waiters tm ∧ t_now t = t_now tm ∧
    t_keys t = t_keys tm ∧ t_sids t = t_sids tm ∧ fails_ok X t.

Lemma ipc_candidate_live cfg s n k : Inv cfg s → k ∈ ipc_candidates n s → SeqDefs.live s n k.
Proof.
  intros HI Hk. unfold ipc_candidates in Hk. apply elem_of_list_omap in Hk as ([sid l] & Hin & Hl).
  apply elem_of_map_to_list in Hin. destruct (last (filter _ l)) as [c|] eqn:El; [|done]. injection Hl as <-.
  apply last_Some_elem_of, elem_of_list_filter in El as [En%bool_decide_unpack Hc].
  destruct (inv_views _ _ HI) as [Hv _].
  assert (in_table s c) as (o & Ho & Hk & _) by (apply Hv, elem_of_listing; by exists sid, l).
  exists o. by rewrite <- En.
Qed.

Lemma ipc_candidates_nil cfg s n : Inv cfg s → ipc_candidates n s = [] → ∀ k, ¬ SeqDefs.live s n k.
Proof.
  intros HI Hnil k (o & Ho & Hk).
  destruct (inv_views _ _ HI) as [Hv _].
  assert (Clock n k (lo_size o) ∈ listing s) as (sid & l & Hs & Hc)%elem_of_listing by (apply Hv; by exists o).
  assert (∃ c, last (filter (λ c, bool_decide (cl_name c = n)) l) = Some c) as [c Hlast].
  { destruct (filter (λ c, bool_decide (cl_name c = n)) l) as [|c0 r] eqn:Ef.
    - exfalso. assert (Clock n k (lo_size o) ∈ filter (λ c, bool_decide (cl_name c = n)) l) as Hin by (apply elem_of_list_filter; split; [by apply bool_decide_pack|done]).
      rewrite Ef in Hin. by apply elem_of_nil in Hin.
    - destruct (last (c0 :: r)) eqn:E; [eauto|]. by apply last_None in E. }
  assert (cl_key c ∈ ipc_candidates n s) as Hin.
  { unfold ipc_candidates. apply elem_of_list_omap. exists (sid, l). split; [by apply elem_of_map_to_list|]. by rewrite Hlast. }
  rewrite Hnil in Hin. by apply elem_of_nil in Hin.
Qed.

Section ipcname.
  Context (X : nat → string → Prop) (cfg : config) (i : nat).

  Lemma track_ipc_name_ok n s s' o t :
    Inv cfg s → st_shut s = false → [] ∉ ipc_candidates n s → TR X cfg s t →
    (s', o) ∈ ipc_unlock cfg n None s →
    TR X cfg s' (track_step0 cfg i (EIpcUnlock n None) o t) ∨ TRP X cfg s' (track_step0 cfg i (EIpcUnlock n None) o t).
  Proof.
    intros HI Hsh Hne HT Hin. unfold ipc_unlock in Hin.
    destruct (ipc_candidates n s) as [|k0 ks] eqn:Ecand.
    { (* no hold of that name *)
      apply elem_of_list_singleton in Hin. injection Hin as -> ->. left. simpl.
      assert (count_name n t = 0) as Hc0.
      { rewrite (TR_count _ _ _ _ HI HT). destruct (st_locks s !! n) as [ob|] eqn:Hob; [|done].
        destruct (lo_keys ob) as [|k r] eqn:Ek; [done|]. exfalso.
        eapply (ipc_candidates_nil cfg s n HI Ecand k). exists ob. rewrite Ek. split; [done|left]. }
      rewrite Hc0. simpl. done. }
    apply elem_of_list_In, in_map_iff in Hin as (k & Hk & Hkin%elem_of_list_In).
    rewrite <- Ecand in Hkin, Hne. clear k0 ks Ecand.
    rewrite bool_decide_eq_false_2 in Hk by (intros ->; done).
    pose proof (ipc_candidate_live _ _ _ _ HI Hkin) as Hlive.
    unfold ipc_unlock_with in Hk. destruct (srv_unlock cfg n k s) as [[s1 [u e]] o1] eqn:Hs.
    assert (comps o = comps o1) as Hco by (destruct e; injection Hk as <- <-; apply comps_ipc_tail).
    edestruct (srv_unlock_live_ok X cfg i None n k s s1 u e o1 o t) as (-> & -> & Ho & HTm); [done..|].
    injection Hk as <- <-.
    destruct (TR_live_some _ _ _ _ HT _ _ Hlive) as (hk & _ & Hhk & Hhn & Hhkk).
    simpl.
    assert (head (omap (λ o0, match o0 with OIpcUnlock r e => Some (r, e) | _ => None end) (o1 ++ [OIpcUnlock (Some true) None]))
            = Some (Some true, None)) as ->.
    { rewrite omap_app. simpl. clear -Ho. induction o1 as [|x o1 IH]; [done|]. simpl.
      destruct (Ho x) as (w & key & -> & _); [left|]. simpl. apply IH. intros; apply Ho; by right. }
    assert (count_name n t ≠ 0) as Hcnt.
    { rewrite (TR_count _ _ _ _ HI HT). destruct Hlive as (ob & -> & Hkk). destruct (lo_keys ob); [by apply elem_of_nil in Hkk|simpl; lia]. }
    rewrite bool_decide_eq_false_2 by done. rewrite flag_true by done.
    set (outs := o1 ++ [OIpcUnlock (Some true) None]) in *.
    set (tm := t_completions cfg i None outs (drop_hold n k t)) in *.
    destruct (List.filter (λ h, bool_decide (h_name h = n)) (t_holds t)) as [|h1 [|h2 r]] eqn:Efil.
    - exfalso. assert (hk ∈ List.filter (λ h, bool_decide (h_name h = n)) (t_holds t)) as Hin'.
      { apply elem_of_lfilter. split; [by apply bool_decide_eq_true|done]. }
      rewrite Efil in Hin'. by apply elem_of_nil in Hin'.
    - (* exactly one hold of that name: it is the one that goes *)
      left. assert (h1 = hk) as ->.
      { assert (hk ∈ [h1]) as Hin'; [|by apply elem_of_list_singleton in Hin'].
        rewrite <- Efil. apply elem_of_lfilter. split; [by apply bool_decide_eq_true|done]. }
      rewrite Hhkk. exact HTm.
    - (* several: the oracle defers to the next probe *)
      right. set (tp := t_completions cfg i None outs (t <| t_pending := n :: t_pending t |>)).
      assert (st_now s < match h_deadline hk with Some d => d | None => st_now s + 1 end) as Hal.
      { pose proof (hr_lease _ _ _ _ _ _ (tr_holds _ _ _ _ HT) Hsh hk Hhk) as Hl. rewrite Hl. unfold tdl.
        destruct (st_timers s !! tkey (h_name hk) (h_key hk)) as [tm'|] eqn:Et; simpl; [|lia].
        by destruct (inv_timers _ _ HI _ _ Et) as (_ & ? & _). }
      assert (Ext hk tm tp) as (En & Ep & Ew & Ek & Es & Hh & Hf).
      { unfold tm, tp. rewrite !t_completions_eq. apply done_list_Ext.
        - intros c Hc. rewrite sort_completions_eq, sortc_perm in Hc.
          rewrite Hco in Hc. destruct c as [[w a] r']. apply elem_of_comps in Hc. destruct (Ho _ Hc) as (w' & key & [= -> -> ->] & _).
          unfold alive, c_at. simpl. destruct (h_deadline hk); [lia|done].
        - split_and!; simpl; try done; [by rewrite Hhn|].
          rewrite (NoDup_key_split hkey (t_holds t) hk (hr_nodup _ _ _ _ _ _ (tr_holds _ _ _ _ HT)) Hhk) at 1. constructor.
          apply Permutation_refl', lfilter_ext. intros h _. unfold hkey. rewrite <- Hhn, <- Hhkk. f_equal.
          repeat case_bool_decide; simpl; try done; try congruence. }
      assert (¬ SeqDefs.live s1 n k) as Hdead.
      { intros Hl. destruct (TR_live_some _ _ _ _ HTm _ _ Hl) as (h & _ & Hh' & Hn' & Hk').
        assert (h ∈ t_holds tm) as Hh'' by done. clear Hh'.
        assert (∀ h, h ∈ t_holds tm → h_name h = n → h_key h ≠ k) as Hnok; [|by eapply Hnok].
        clear h Hh'' Hn' Hk'. unfold tm. rewrite t_completions_eq.
        assert (∀ c, c ∈ sort_completions outs → ∀ key e, c_resp c = RLock true key e → key ≠ k) as Hkeys.
        { intros c Hc key e Er. rewrite sort_completions_eq, sortc_perm, Hco in Hc. destruct c as [[w a] r']. apply elem_of_comps in Hc.
          destruct (Ho _ Hc) as (w' & key' & [= -> -> ->] & Hne'). unfold c_resp in Er. simpl in Er. by injection Er as <- _. }
        revert Hkeys. generalize (sort_completions outs). intros cs.
        assert (∀ h, h ∈ t_holds (drop_hold n k t) → h_name h = n → h_key h ≠ k) as H0.
        { intros h [Hf' _]%elem_of_lfilter Hn' Hk'. rewrite Hn', Hk', !bool_decide_eq_true_2 in Hf' by done. done. }
        revert H0. generalize (drop_hold n k t). induction cs as [|c cs IH]; intros t0 H0 Hkeys; [done|]. simpl.
        apply IH; [|intros; eapply Hkeys; [by right|done]].
        intros h. rewrite done1_eq. simpl. unfold dh. destruct (findw _ _) as [|w rest]; [by apply H0|].
        intros [[_ Hh']%elem_of_lfilter|Hh']%elem_of_app; [by apply H0|].
        destruct (c_resp c) as [[] key e| |] eqn:Er; try (by apply elem_of_nil in Hh'). apply elem_of_list_singleton in Hh' as ->. simpl.
        intros _. eapply Hkeys; [left|done]. }
      exists n, hk, tm. fold tp. rewrite Ep, (tr_pending _ _ _ _ HTm), Hhn. split_and!; try done.
      + by rewrite Hhkk.
      + intros j tag Hj. by apply (tr_fail _ _ _ _ HTm), Hf.
  Qed.

  (** the probe that follows resolves the deferred unlock *)
  Lemma track_probe_pending_ok s t : Inv cfg s → TRP X cfg s t →
    TR X cfg s (track_step0 cfg i EProbe [OListing (listing s); OFile (file_view s); OTable (table_view s)] t).
  Proof.
    intros HI (n & hk & tm & Ep & Hhn & Hdead & HTm & Hh & Ew & En & Ek & Es & HX).
    pose proof (track_probe_ok X cfg i s tm HI HTm) as HP. simpl in *. unfold t_probe in *. simpl in *.
    rewrite (resolve_pending_nil _ _ (tr_pending _ _ _ _ HTm)) in HP.
    set (th := table_holds (table_view s)) in *.
    assert (List.filter (λ h, bool_decide (h_name h = n) && negb (bool_decide (hold_clock h ∈ th))) (t_holds t) = [hk]) as Efil.
    { assert (List.filter (λ h, bool_decide (h_name h = n) && negb (bool_decide (hold_clock h ∈ th))) (t_holds t) ≡ₚ [hk]) as Hp.
      { rewrite (lfilter_perm _ _ _ Hh). simpl. rewrite bool_decide_eq_true_2 by done.
        rewrite (bool_decide_eq_false_2 (hold_clock hk ∈ th)).
        2:{ unfold th. rewrite elem_of_table_holds. intros (o & Ho & Hk & _). apply Hdead. exists o. by rewrite <- Hhn. }
        simpl. rewrite lfilter_none; [done|]. intros h Hh'. apply andb_false_iff. right. apply negb_false_iff, bool_decide_eq_true.
        unfold th. rewrite elem_of_table_holds. by apply (hr_tab _ _ _ _ _ _ (tr_holds _ _ _ _ HTm)). }
      by apply Permutation_singleton_r in Hp. }
    unfold resolve_pending. rewrite Ep. simpl. rewrite Efil.
    set (t' := drop_hold n (h_key hk) t <| t_pending := [] |>).
    set (tm' := tm <| t_pending := [] |>) in *.
    (* [t'] and [tm'] agree up to the order of the holds, so every check has the same outcome *)
    assert (t_holds t' ≡ₚ t_holds tm') as Hhp.
    { unfold t', tm'. simpl. rewrite (lfilter_perm _ _ _ Hh). simpl. rewrite Hhn, !bool_decide_eq_true_2 by done. simpl.
      rewrite lfilter_all; [done|]. intros h Hh'. apply negb_true_iff. destruct (bool_decide (h_name h = n)) eqn:E1; [|done]. simpl.
      apply bool_decide_eq_false. intros E2. apply bool_decide_eq_true in E1. apply Hdead.
      destruct (hr_tab _ _ _ _ _ _ (tr_holds _ _ _ _ HTm) h Hh') as [Hi _]. apply intab_livel in Hi. simpl in Hi. by rewrite E1, E2 in Hi. }
    assert (TR X cfg s t') as HT'.
    { destruct HTm as [H1 H2 H3 H4 H5 H6]. split; simpl; [congruence|done|eapply HR_perm; [symmetry; exact Hhp|exact H3]|congruence| |exact HX].
      unfold KI in *. simpl. by rewrite Ek, Es. }
    clear HP. pose proof (track_probe_ok X cfg i s t' HI HT') as HP. simpl in HP. unfold t_probe in HP. simpl in HP.
    rewrite (resolve_pending_nil _ t') in HP by done. exact HP.
  Qed.
End ipcname.
