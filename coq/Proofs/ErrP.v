(** C14 — lemmas about the response path of Model/ErrCond.v that hold for EVERY pair of mapper
    tables. Nothing here depends on the generated files; Proofs/GenChecks.v instantiates them
    with the tables of the current source tree. *)
From Ldlm Require Import Model.Base Model.Err Model.ErrCond.

Lemma srv_ret_okb_spec r : srv_ret_okb r = true <-> srv_ret_ok r.
Proof.
  unfold srv_ret_okb, srv_ret_ok, srv_result_ok.
  destruct (ret_err r) as [e|], (ret_flag r); cbn; split; try congruence; try tauto.
  intros H. discriminate H. congruence.
Qed.

Section Generic.
  Context {code : Type}.
  Variable srv : err -> code.
  Variable cli : code -> option err.

  (** The message carries an Error exactly when the server returned one. *)
  Lemma grpc_resp_error_none_iff r : r_error (grpc_resp srv r) = None <-> ret_err r = None.
  Proof. unfold grpc_resp; cbn. destruct (ret_err r); cbn; split; congruence. Qed.

  Lemma grpc_resp_error_some r e : ret_err r = Some e -> r_error (grpc_resp srv r) = Some (srv e).
  Proof. unfold grpc_resp; cbn. intros ->. reflexivity. Qed.

  Lemma grpc_resp_flag r : r_flag (grpc_resp srv r) = ret_flag r.
  Proof. reflexivity. Qed.

  Lemma wellformed_generic r :
    srv_ret_ok r ->
    (r_error (grpc_resp srv r) = None <-> ret_err r = None) /\
    (r_error (grpc_resp srv r) <> None -> r_flag (grpc_resp srv r) = false).
  Proof.
    intros Hok. split; [apply grpc_resp_error_none_iff|].
    intros Hne. rewrite grpc_resp_flag. apply Hok.
    intros Hn. apply Hne. apply grpc_resp_error_none_iff. exact Hn.
  Qed.

  (** Without the assumption the second half is false: the Service methods copy the flag. *)
  Lemma wellformed_needs_assumption :
    forall c0 : code, (forall e, srv e = c0) ->
    exists r, ~ srv_ret_ok r /\ r_error (grpc_resp srv r) <> None /\ r_flag (grpc_resp srv r) = true.
  Proof.
    intros c0 _. exists (RetUnlock true (Some EOther)). split; [|split]; cbn; try congruence.
    unfold srv_ret_ok, srv_result_ok; cbn. intros H. specialize (H ltac:(congruence)). discriminate.
  Qed.

  Lemma end_to_end_error r e e' :
    srv_ret_ok r -> ret_err r = Some e -> cli (srv e) = Some e' ->
    end_to_end srv cli r = (false, CEValue e').
  Proof.
    intros Hok He Hc. unfold end_to_end, client_ret.
    rewrite (grpc_resp_error_some r e He), Hc, grpc_resp_flag.
    f_equal. apply Hok. congruence.
  Qed.

  Lemma end_to_end_success r :
    ret_err r = None -> end_to_end srv cli r = (ret_flag r, CENil).
  Proof.
    intros He. unfold end_to_end, client_ret, grpc_resp; cbn. rewrite He. reflexivity.
  Qed.

  Lemma end_to_end_nil_iff r :
    snd (end_to_end srv cli r) = CENil <-> ret_err r = None.
  Proof.
    unfold end_to_end, client_ret, grpc_resp; cbn.
    destruct (ret_err r) as [e|]; cbn; [|tauto].
    destruct (cli (srv e)); split; congruence.
  Qed.
End Generic.
