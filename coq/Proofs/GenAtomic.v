(** Guard lemmas over Gen/Atomic.v — the atomicity facts regenerated from the tree under test on every run (DESIGN.md 4.3 T3;
    the checkers, what they mean and which steps of Model/Sv.v and Model/Seq.v they justify: Proofs/GenChecks.v, section
    "Granularity"). A change of the source that moves a write of the state file out of the session manager's critical section,
    a timer Stop out of the timer map's, or weakens a write lock to a read lock, changes Gen/Atomic.v and breaks a lemma here —
    and with it the granularity theorems of Properties/C04 C05 C06 C08 C09 C10 C11 C18, whether or not a failing schedule is found.

    Each lemma is preceded by its DIAGNOSTIC form: the list of violations, every entry prefixed with the name of the lemma it
    breaks, must be empty. When it is not, Coq's error message ("Unable to unify [] with [...]") carries the list: which method,
    which effect, under which guard. *)
From Coq Require Import List String.
From Ldlm Require Import Model.Base Proofs.GenChecks Gen.Atomic.
Import ListNotations.

(** the translator classified every statement of every method it turned into a list of effects *)
Lemma atomic_ok_diag : blame "atomic_ok (translator: shape not recognised)" atomic_reasons = [].
Proof. vm_compute. reflexivity. Qed.
Lemma atomic_ok : atomic_recognised = true.
Proof. vm_compute. reflexivity. Qed.

Lemma Sv_granularity_session_diag :
  session_diag session_methods session_helpers atomic_reasons = [].
Proof. vm_compute. reflexivity. Qed.
Lemma Sv_granularity_session :
  session_mutations_atomic session_methods session_helpers = true ∧ session_reads_locked session_methods = true ∧
  atomic_recognised = true.
Proof. vm_compute. auto. Qed.

Lemma Sv_granularity_timermap_diag :
  timermap_diag timermap_methods timermap_callbacks atomic_reasons = [].
Proof. vm_compute. reflexivity. Qed.
Lemma Sv_granularity_timermap :
  timermap_ops_atomic timermap_methods timermap_callbacks = true ∧ callback_then_remove timermap_callbacks = true ∧
  atomic_recognised = true.
Proof. vm_compute. auto. Qed.

Lemma Sv_granularity_store_diag : store_diag store_write_shape atomic_reasons = [].
Proof. vm_compute. reflexivity. Qed.
Lemma Sv_granularity_store : store_write_by_rename store_write_shape = true ∧ atomic_recognised = true.
Proof. vm_compute. auto. Qed.
