(** ETryLock, ELock and ERenew against the oracle (work package trackp). *)
From Coq Require Import Lia ZifyBool ZifyNat String.
From Ldlm Require Import Model.Base Model.Err Model.Seq Model.Track Proofs.SeqDefs Proofs.SeqLemmasKey Proofs.SeqInvBase
  Proofs.SeqInvOps Proofs.SeqInvTime Proofs.SeqInv Proofs.SeqTimeBase Proofs.SeqTime1
  Proofs.TrackPBase Proofs.TrackPOrder Proofs.TrackPRel Proofs.TrackPStep Proofs.TrackPTR Proofs.TrackPMem Proofs.TrackPProbe.
From RecordUpdate Require Import RecordSet.
Import RecordSetNotations.
Local Open Scope Z_scope.

Lemma intab_create L n sz x c : L !! n = None → intab (<[n := LockObj sz [] x]> L) c ↔ intab L c.
Proof.
  intros Hn. rewrite intab_insert. simpl. split.
  - intros [(_ & []%elem_of_nil & _)|[_ ?]]; done.
  - intros Hc. right. split; [|done]. intros E. destruct Hc as (o & Ho & _). congruence.
Qed.

Lemma TR_used X cfg s t k : TR X cfg s t → TR X cfg (s <| st_used := k :: st_used s |>) t.
Proof.
  intros [H1 H2 H3 H4 (K1 & K2 & K3) H6]. split; try done. split_and!; simpl; [|  |done].
  - intros k' ?. right. by apply K1.
  - intros k' ?. right. by apply K2.
Qed.

Ltac flagsolve := simpl; rewrite ?bool_decide_eq_true_2 by done; simpl; rewrite ?flag_true by done; done.

Section acquire.
  Context (X : nat → string → Prop) (cfg : config) (i : nat).

  (** the part of Lock/TryLock after the server's own validation *)
  Lemma track_acquire_ok blocking wid sid name key size lt wt s s' o t :
    Inv cfg s → st_shut s = false → (∀ n, ¬ livel (st_locks s) n key) →
    opt_neg lt = false → (blocking = true → opt_neg wt = false) →
    TR X cfg s t → MI cfg s (t_mem t) →
    key ∈ st_used s → key ∉ t_keys t → (∀ w, w ∈ st_waiters s → w_key w ≠ key) →
    srv_acquire cfg blocking wid sid name key (default 1 size) lt wt s = (s', o) →
    TR X cfg s' (t_acquire cfg i blocking wid (Some sid) name size lt wt o t).
  Proof.
    intros HI Hsh Hfresh Hlt Hwt HT HMI Hku Hkt Hkw Ha. destruct (tr_keys _ _ _ _ HT) as (K1 & K2 & K3). set (sz := default 1 size) in *.
    pose proof (tr_holds _ _ _ _ HT) as HH.
    assert (expected_refusal blocking (Some sid) name size lt wt t =
            if bool_decide (name = []) then Some ESrvEmptyName else
            if sz <=? 0 then Some ELockInvalidLockSize else
            match known_size name t with
            | Some k => if bool_decide (k = sz) then None else Some ELockSizeMismatch
            | None => None end) as Eexp.
    { unfold expected_refusal. simpl. rewrite Hlt. destruct blocking; simpl; [rewrite (Hwt eq_refl)|]; done. }
    unfold srv_acquire in Ha. unfold t_acquire.
    case_bool_decide as Hname.
    { (* empty name *)
      injection Ha as <- <-. simpl. rewrite ?flag_true by done. rewrite Eexp. rewrite bool_decide_eq_true_2 by done. flagsolve. }
    destruct (get_lock_create name sz s) as [e|[ob s1]] eqn:Hg.
    { (* the manager refuses: invalid size or size mismatch *)
      injection Ha as <- <-. simpl. rewrite ?flag_true by done. rewrite Eexp.
      unfold get_lock_create in Hg. destruct (sz <=? 0) eqn:Hsz.
      - injection Hg as <-. flagsolve.
      - destruct (st_locks s !! name) as [ob|] eqn:Ho; [|done]. case_bool_decide as Hsize; [done|]. injection Hg as <-.
        destruct (known_size name t) as [k|] eqn:Ek.
        + destruct (TR_known_size X cfg s t HI HT _ _ Ek) as (ob' & Ho' & Hk). simplify_eq.
          rewrite bool_decide_eq_false_2 by congruence. flagsolve.
        + flagsolve. }
    apply glc_shape in Hg as (Hsz & Hobsz & -> & Hob).
    assert (sz <=? 0 = false) as Hszb by lia.
    assert (expected_refusal blocking (Some sid) name size lt wt t = None) as Eexp'.
    { rewrite Eexp, Hszb. destruct (known_size name t) as [k|] eqn:Ek; [|done].
      destruct (TR_known_size X cfg s t HI HT _ _ Ek) as (ob' & Ho' & Hk). rewrite bool_decide_eq_true_2; [done|].
      destruct Hob as [(o0 & Ho0 & ->)|[Hn _]]; [|congruence]. simplify_eq. done. }
    assert (match mem_lookup name (t_mem t) with
            | Some (msz, last) => bool_decide (msz = sz) || (c_gc_minidle cfg <? t_now t - last)
            | None => true end = true) as Hmem_ok.
    { destruct (mem_lookup name (t_mem t)) as [[msz last]|] eqn:El; [|done]. destruct (HMI _ _ _ El) as [_ HQ].
      rewrite (tr_now _ _ _ _ HT). destruct Hob as [(o0 & Ho0 & ->)|[Hn _]].
      - rewrite Ho0 in HQ. destruct HQ as [<- _]. simpl in Hobsz. by rewrite bool_decide_eq_true_2.
      - rewrite Hn in HQ. apply orb_true_iff. right. lia. }
    set (L := st_locks s) in *. set (L1 := <[name := ob]> L).
    assert (∀ c, intab L1 c ↔ intab L c) as Hi1.
    { intros c. destruct Hob as [(o0 & Ho0 & ->)|[Hn ->]]; [by apply intab_touch|by apply intab_create]. }
    assert (∀ n k, livel L1 n k ↔ livel L n k) as Hl1.
    { intros n k. destruct Hob as [(o0 & Ho0 & ->)|[Hn ->]]; [by apply livel_touch|].
      unfold L1. rewrite livel_insert. simpl. split; [intros [[_ []%elem_of_nil]|[_ ?]]; done|].
      intros Hl. right. split; [|done]. intros ->. destruct Hl as (? & ? & _). congruence. }
    assert (count_name name t = Z.of_nat (length (lo_keys ob))) as Hcount.
    { rewrite (TR_count X cfg s t HI HT). fold L. destruct Hob as [(o0 & -> & ->)|[-> ->]]; done. }
    assert (bool_decide (waiters_on name t = []) = bool_decide (name_waiters name (st_waiters s) = [])) as Hwon.
    { pose proof (WR_name _ _ name (tr_waiters _ _ _ _ HT)) as HN. unfold waiters_on. fold (won name (t_waiters t)).
      destruct (name_waiters name (st_waiters s)), (won name (t_waiters t)); inversion HN; done. }
    assert (HR L1 (st_sessions s) (st_timers s) (st_shut s = false) [] (t_holds t)) as HH1.
    { eapply HR_change; [exact HH|..]; try done.
      - intros h Hh. split; [apply Hi1; by apply (hr_tab _ _ _ _ _ _ HH)|apply not_elem_of_nil].
      - intros c Hc%Hi1. right. split; [done|apply not_elem_of_nil].
      - eauto.
      - by intros n k ?%elem_of_nil. }
    unfold can_acquire in Ha. cbn [st_locks st_waiters set] in Ha.
    destruct (bool_decide (Z.of_nat (length (lo_keys ob)) < lo_size ob) && bool_decide (name_waiters name (st_waiters s) = [])) eqn:Hcan.
    - (* granted *)
      injection Ha as <- <-. simpl. rewrite ?flag_true by done. rewrite Eexp'. fold sz. rewrite Hmem_ok. cbn [flag].
      apply andb_true_iff in Hcan as [Hc1%bool_decide_eq_true Hc2].
      rewrite (flag_true _ "C01:grant-over-capacity") by (rewrite Hcount; lia).
      rewrite flag_true by (by rewrite bool_decide_eq_false_2). simpl.
      unfold add_key. cbn [st_locks set]. rewrite lookup_insert.
      split; simpl.
      + rewrite rg_now. apply (tr_now _ _ _ _ HT).
      + apply (tr_pending _ _ _ _ HT).
      + rewrite rg_locks, rg_sessions, rg_timers, rg_shut. simpl. rewrite insert_insert.
        eapply HR_grant; [exact HH1|..].
        * intros c. rewrite <- (insert_insert L name (ob <| lo_keys := lo_keys ob ++ [key] |>) ob). fold L1. rewrite <- Hobsz.
          apply (intab_add_key L1 name ob); [apply lookup_insert|done..].
        * rewrite Hl1. apply Hfresh.
        * by intros n k ?%elem_of_nil.
        * intros _. rewrite (tr_now _ _ _ _ HT).
          assert (st_timers s !! tkey name key = None) as Hnt.
          { destruct (st_timers s !! tkey name key) as [tm|] eqn:Et; [|done].
            destruct (inv_timers _ _ HI _ _ Et) as (E & _ & Hl). apply tkey_inj in E as [E1 E2]. rewrite <- E1, <- E2 in Hl.
            by apply Hfresh in Hl. }
          split.
          -- unfold tdl, lease. destruct lt as [v|]; [|by rewrite Hnt]. destruct (0 <? v); [by rewrite lookup_insert|by rewrite Hnt].
          -- intros h Hh. unfold tdl. destruct lt as [v|]; [|done]. destruct (0 <? v); [|done].
             rewrite lookup_insert_ne; [done|]. intros [En Ek]%tkey_inj. apply (Hfresh name).
             destruct (hr_tab _ _ _ _ _ _ HH h Hh) as [Hi _]. apply intab_livel in Hi. simpl in Hi. by rewrite En, Ek.
      + rewrite rg_waiters. simpl. apply (tr_waiters _ _ _ _ HT).
      + unfold KI. rewrite rg_used, rg_waiters. simpl. split_and!.
        * intros k' [->|Hk']%elem_of_cons; [done|by apply K1].
        * exact K2.
        * intros w Hw [E|Hk']%elem_of_cons; [by apply (Hkw w)|by apply (K3 w)].
      + intros j tag Hj. simpl in Hj. by apply (tr_fail _ _ _ _ HT).
    - assert ((count_name name t <? sz) && bool_decide (waiters_on name t = []) = false) as Hfree.
      { rewrite Hcount, Hwon, <- Hobsz. rewrite <- Hcan. f_equal. destruct (Z.ltb_spec (Z.of_nat (length (lo_keys ob))) (lo_size ob));
          [rewrite bool_decide_eq_true_2 by done|rewrite bool_decide_eq_false_2 by lia]; done. }
      destruct blocking.
      + (* parked *)
        injection Ha as <- <-. simpl. rewrite ?flag_true by done. rewrite Eexp'. fold sz. rewrite Hmem_ok. cbn [flag]. rewrite Hfree. simpl.
        split; simpl; [apply (tr_now _ _ _ _ HT)|apply (tr_pending _ _ _ _ HT)|exact HH1| | |apply (tr_fail _ _ _ _ HT)].
        * apply Forall2_app; [apply (tr_waiters _ _ _ _ HT)|]. constructor; [|constructor].
          unfold WR, wait_dl. simpl. rewrite (tr_now _ _ _ _ HT). done.
        * split_and!; simpl; [exact K1|exact K2|].
          intros w [Hw| ->%elem_of_list_singleton]%elem_of_app; [by apply K3|done].
      + (* refused: busy *)
        injection Ha as <- <-. simpl. rewrite ?flag_true by done. rewrite Eexp'. fold sz. rewrite Hmem_ok. cbn [flag]. rewrite Hfree. simpl.
        split; simpl; [apply (tr_now _ _ _ _ HT)|apply (tr_pending _ _ _ _ HT)|exact HH1|apply (tr_waiters _ _ _ _ HT)|done|apply (tr_fail _ _ _ _ HT)].
  Qed.

  Lemma Inv_used s key : Inv cfg s → Inv cfg (s <| st_used := key :: st_used s |>).
  Proof.
    intros [H1 H2 H3 H4 H5 H6 H7 H8 H9 H10 H11 H12 H13]. split; try done.
    - intros n k Hl. right. by eapply H9.
    - intros w Hw. destruct (H10 w Hw). split; [by right|done].
  Qed.

  Lemma fresh_not_live s key : Inv cfg s → key ∉ st_used s → ∀ n, ¬ livel (st_locks s) n key.
  Proof. intros HI Hk n Hl. apply Hk. by eapply (inv_used_live _ _ HI). Qed.

  Lemma track_trylock_ok sid name size lt key s s' o t :
    Inv cfg s → st_shut s = false → key ∉ st_used s → TR X cfg s t → MI cfg s (t_mem t) →
    srv_trylock cfg sid name size lt key s = (s', o) →
    TR X cfg s' (track_step0 cfg i (ETryLock sid name size lt key) o t).
  Proof.
    intros HI Hsh Hk HT HMI Hs. simpl. unfold srv_trylock in Hs. destruct sid as [sid|].
    2:{ injection Hs as <- <-. unfold t_acquire. flagsolve. }
    destruct (opt_neg lt) eqn:Hlt.
    { injection Hs as <- <-. unfold t_acquire, expected_refusal. simpl. rewrite Hlt. flagsolve. }
    eapply track_acquire_ok; [..|exact Hs]; try done.
    - by apply Inv_used.
    - exact (fresh_not_live s key HI Hk).
    - by apply TR_used.
    - simpl. left.
    - intros Hin. apply Hk. destruct (tr_keys _ _ _ _ HT) as (K1 & _). by apply K1.
    - intros w Hw E. apply Hk. rewrite <- E. by apply (inv_used_waiters _ _ HI w Hw).
  Qed.

  Lemma track_lock_ok wid sid name size lt wt key s s' o t :
    Inv cfg s → st_shut s = false → key ∉ st_used s → TR X cfg s t → MI cfg s (t_mem t) →
    srv_lock cfg wid sid name size lt wt key s = (s', o) →
    TR X cfg s' (track_step0 cfg i (ELock wid sid name size lt wt key) o t).
  Proof.
    intros HI Hsh Hk HT HMI Hs. simpl. unfold srv_lock in Hs. destruct sid as [sid|].
    2:{ injection Hs as <- <-. unfold t_acquire. flagsolve. }
    destruct (opt_neg lt) eqn:Hlt.
    { injection Hs as <- <-. unfold t_acquire, expected_refusal. simpl. rewrite Hlt. flagsolve. }
    destruct (opt_neg wt) eqn:Hwt.
    { injection Hs as <- <-. unfold t_acquire, expected_refusal. simpl. rewrite Hlt, Hwt. flagsolve. }
    eapply track_acquire_ok; [..|exact Hs]; try done.
    - by apply Inv_used.
    - exact (fresh_not_live s key HI Hk).
    - by apply TR_used.
    - simpl. left.
    - intros Hin. apply Hk. destruct (tr_keys _ _ _ _ HT) as (K1 & _). by apply K1.
    - intros w Hw E. apply Hk. rewrite <- E. by apply (inv_used_waiters _ _ HI w Hw).
  Qed.
End acquire.
