(** Session end releases every hold of the session, part 2: session-table bookkeeping invariants. Work package svsess. *)
From Coq Require Import Lia ZifyBool ZifyNat.
From Ldlm Require Import Model.Base Model.Err Model.Sv Proofs.SvDefs Proofs.SeqLemmasKey
  Proofs.SvSessBase Proofs.SvSessThr Proofs.SvSessLk Proofs.SvSessDs Proofs.SvSessSe Proofs.SvSessRel1.
From RecordUpdate Require Import RecordSet.
Import RecordSetNotations.
Local Open Scope Z_scope.

(** ** destroy events in the trace *)
Definition has_destroy (sid : str) (tr : list sev) : bool :=
  existsb (λ e, match e with SvSessDestroy _ sid'' => bool_decide (sid'' = sid) | _ => false end) tr.

Lemma has_destroy_true sid tr : has_destroy sid tr = true ↔ ∃ x, SvSessDestroy x sid ∈ tr.
Proof.
  unfold has_destroy. rewrite existsb_exists. split.
  - intros (e & Hin & He). destruct e; try done. case_bool_decide; [subst|done]. eexists. by apply elem_of_list_In.
  - intros (x & Hin). exists (SvSessDestroy x sid). split; [by apply elem_of_list_In|]. by rewrite bool_decide_true.
Qed.
Lemma has_destroy_app sid l1 l2 : has_destroy sid (l1 ++ l2) = has_destroy sid l1 || has_destroy sid l2.
Proof. apply existsb_app. Qed.
Lemma has_destroy_xs sid tr0 tr : tr_xs tr0 tr → has_destroy sid tr = has_destroy sid tr0.
Proof.
  intros (evs & -> & Hevs). rewrite has_destroy_app. replace (has_destroy sid evs) with false; [done|].
  symmetry. apply not_true_is_false. intros (x & Hin)%has_destroy_true.
  rewrite forallb_forall in Hevs. apply elem_of_list_In, Hevs in Hin. done.
Qed.
Lemma add_after_destroy_xs sid tr0 tr : tr_xs tr0 tr → add_after_destroy sid tr = add_after_destroy sid tr0.
Proof.
  intros (evs & -> & Hevs). induction evs as [|e evs IH]; simpl; [done|].
  simpl in Hevs. apply andb_prop in Hevs as [He Hevs]. destruct e; try done; by apply IH.
Qed.
Lemma add_after_destroy_cons_other sid e tr : (∀ t s c, e ≠ SvSessAdd t s c) → add_after_destroy sid (e :: tr) = add_after_destroy sid tr.
Proof. intros H. destruct e; try done. by destruct (H tid sid0 c). Qed.
Lemma add_after_destroy_add sid t sid0 c tr :
  add_after_destroy sid (SvSessAdd t sid0 c :: tr) = (bool_decide (sid0 = sid) && has_destroy sid tr) || add_after_destroy sid tr.
Proof. reflexivity. Qed.

(** ** the session table and the trace *)
Record SessInv (s : svstate) : Prop := {
  si_thr : ∀ tid t sid, v_thr s !! tid = Some t → op_sid (st_op t) = Some sid → SvConnect sid ∈ v_trace s;
  si_sess : ∀ sid, is_Some (v_sess s !! sid) → SvConnect sid ∈ v_trace s;
  si_destroy : ∀ x sid, SvSessDestroy x sid ∈ v_trace s → SvConnect sid ∈ v_trace s ∧ ∃ t, v_thr s !! x = Some t ∧ st_op t = SConnEnd sid;
  si_fresh : ∀ sid, is_Some (v_sess s !! sid) → has_destroy sid (v_trace s) = false ∨ add_after_destroy sid (v_trace s) = true
}.

Lemma acquirer_op_sid t sid n k z : acquirer t sid n k z → op_sid (st_op t) = Some sid.
Proof. intros [lt [-> | ->]]; done. Qed.

Lemma sess_inv_step cfg s it : SvInv cfg s → sitem_ok s it → SessInv s → SessInv (vstep cfg s it).
Proof.
  intros HI Hok [I1 I2 I3 I4]. pose proof (vi_not_crashed _ _ HI) as Hc.
  assert (Hmono : ∀ e, e ∈ v_trace s → e ∈ v_trace (vstep cfg s it)) by (intros e; by apply vstep_trace_mono).
  split.
  - intros tid t' sid Ht' Hsid. destruct (v_thr s !! tid) as [t|] eqn:Ht.
    + destruct (thr_ext_lookup cfg _ _ tid t (vstep_thr cfg s it HI) Ht) as (t'' & Ht'' & Hop & _). simplify_eq.
      rewrite Hop in Hsid. eauto.
    + destruct (vstep_thr_new cfg s it tid t' Ht Ht') as [_ [Hco| ->]]; [by destruct (st_op t')|].
      apply Hmono. simpl in Hok. destruct (st_op t'); try done; simpl in Hsid; simplify_eq; apply Hok.
  - intros sid Hs.
    destruct (vstep_sess_eff cfg s it Hc) as [[Hse Htr]|[(sid0 & -> & Htr & Hse)|[(tid & t & sid0 & n & k & z & -> & Ht & Hacq & Hpc & Hse & Htr)|
      [(tid & t & n & k & -> & Ht & _ & Hse & Htr)|(tid & t & sid0 & l & -> & Ht & Hop & Hpc & Hl & Hse & Htr)]]]].
    + rewrite Hse in Hs. eauto.
    + rewrite Htr. rewrite Hse in Hs. destruct (decide (sid = sid0)) as [->|Hne]; [left|right; apply I2].
      destruct (v_sess s !! sid0); [done|]. by rewrite lookup_insert_ne in Hs.
    + rewrite Hse in Hs. destruct (decide (sid = sid0)) as [->|Hne].
      * apply Hmono. eapply I1; [exact Ht|by eapply acquirer_op_sid].
      * rewrite lookup_insert_ne in Hs by done. eauto.
    + rewrite Hse, lookup_fmap in Hs. apply fmap_is_Some in Hs. eauto.
    + rewrite Hse in Hs. destruct (decide (sid = sid0)) as [->|Hne]; [rewrite lookup_delete in Hs; by destruct Hs|].
      rewrite lookup_delete_ne in Hs by done. eauto.
  - intros x sid Hin.
    assert (Hold : SvSessDestroy x sid ∈ v_trace s → SvConnect sid ∈ v_trace (vstep cfg s it) ∧ ∃ t, v_thr (vstep cfg s it) !! x = Some t ∧ st_op t = SConnEnd sid).
    { intros Hin0. destruct (I3 x sid Hin0) as (? & t & Ht & Hop). split; [eauto|].
      destruct (thr_ext_lookup cfg _ _ x t (vstep_thr cfg s it HI) Ht) as (t'' & Ht'' & Hop' & _). exists t''. split; [done|congruence]. }
    destruct (vstep_sess_eff cfg s it Hc) as [[Hse Htr]|[(sid0 & -> & Htr & Hse)|[(tid & t & sid0 & n & k & z & -> & Ht & Hacq & Hpc & Hse & Htr)|
      [(tid & t & n & k & -> & Ht & _ & Hse & Htr)|(tid & t & sid0 & l & -> & Ht & Hop & Hpc & Hl & Hse & Htr)]]]].
    + apply Hold. by eapply tr_xs_elem_back.
    + apply Hold. rewrite Htr in Hin. by apply elem_of_cons in Hin as [?|?].
    + apply Hold. eapply tr_xs_elem_back in Hin; [|exact Htr|done]. by apply elem_of_cons in Hin as [?|?].
    + apply Hold. by eapply tr_xs_elem_back.
    + rewrite Htr in Hin. apply elem_of_cons in Hin as [[= -> ->]|Hin]; [|by apply Hold].
      split; [apply Hmono, I2; by rewrite Hl|].
      destruct (thr_ext_lookup cfg _ _ tid t (vstep_thr cfg s (VRun tid) HI) Ht) as (t'' & Ht'' & Hop' & _). exists t''. split; [done|congruence].
  - intros sid Hs.
    destruct (vstep_sess_eff cfg s it Hc) as [[Hse Htr]|[(sid0 & -> & Htr & Hse)|[(tid & t & sid0 & n & k & z & -> & Ht & Hacq & Hpc & Hse & Htr)|
      [(tid & t & n & k & -> & Ht & _ & Hse & Htr)|(tid & t & sid0 & l & -> & Ht & Hop & Hpc & Hl & Hse & Htr)]]]].
    + rewrite (has_destroy_xs _ _ _ Htr), (add_after_destroy_xs _ _ _ Htr). rewrite Hse in Hs. eauto.
    + rewrite Htr. rewrite Hse in Hs.
      change (has_destroy sid (SvConnect sid0 :: v_trace s)) with (has_destroy sid (v_trace s)).
      change (add_after_destroy sid (SvConnect sid0 :: v_trace s)) with (add_after_destroy sid (v_trace s)).
      destruct (decide (sid = sid0)) as [->|Hne].
      * left. apply not_true_is_false. intros (x & Hx)%has_destroy_true. apply I3 in Hx as [Hx _]. simpl in Hok. done.
      * apply I4. destruct (v_sess s !! sid0); [done|]. by rewrite lookup_insert_ne in Hs.
    + rewrite (has_destroy_xs _ _ _ Htr), (add_after_destroy_xs _ _ _ Htr), add_after_destroy_add.
      change (has_destroy sid (SvSessAdd tid sid0 (Clock n k z) :: v_trace s)) with (has_destroy sid (v_trace s)).
      rewrite Hse in Hs. destruct (decide (sid = sid0)) as [->|Hne].
      * rewrite bool_decide_true by done. destruct (has_destroy sid0 (v_trace s)); [by right|by left].
      * rewrite lookup_insert_ne in Hs by done. rewrite bool_decide_false by done. simpl. eauto.
    + rewrite (has_destroy_xs _ _ _ Htr), (add_after_destroy_xs _ _ _ Htr). rewrite Hse, lookup_fmap in Hs. apply fmap_is_Some in Hs. eauto.
    + rewrite Htr. rewrite Hse in Hs. destruct (decide (sid = sid0)) as [->|Hne]; [rewrite lookup_delete in Hs; by destruct Hs|].
      rewrite lookup_delete_ne in Hs by done.
      change (has_destroy sid (SvSessDestroy tid sid0 :: v_trace s)) with (bool_decide (sid0 = sid) || has_destroy sid (v_trace s)).
      change (add_after_destroy sid (SvSessDestroy tid sid0 :: v_trace s)) with (add_after_destroy sid (v_trace s)).
      rewrite bool_decide_false by done. simpl. eauto.
Qed.
