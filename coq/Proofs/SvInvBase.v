(** Work package svinv, part 1: the steps of Msv in explicit form.
    [vsr cfg s it s'] lists, branch by branch, the state [vstep cfg s it] computes from a state that satisfies the
    invariant ([vsr_ok]); the branches that the invariant excludes (a queued thread id without a thread, a timer-map
    entry without a timer, ...) do not appear. Helper characterisations of the sub-operations come first. *)
From Coq Require Import Lia ZifyBool ZifyNat.
From Ldlm Require Import Model.Base Model.Err Model.Sv Proofs.SeqLemmasKey.
From Ldlm Require Import Proofs.SvDefs.
From RecordUpdate Require Import RecordSet.
Import RecordSetNotations.
Local Open Scope Z_scope.

Lemma second_pos' : 0 < second.
Proof. unfold second; lia. Qed.
#[global] Opaque second.

(** ** explicit forms of the helpers *)
Definition with_pc (t : sthread) (pc : spc) : sthread := SThread (st_op t) pc (st_cancel t).
Definition fin_evs (tid : nat) (pc : spc) : list sev := match pc with VFin r => [SvRes tid r] | _ => [] end.
(** thread [tid] (= [t]) moves to [pc]; a response event is emitted when [pc] is [VFin r] *)
Definition st_go (tid : nat) (t : sthread) (pc : spc) (X : svstate) : svstate :=
  X <| v_thr := <[tid := with_pc t pc]> (v_thr X) |> <| v_trace := fin_evs tid pc ++ v_trace X |>.

Definition quiet (e : sev) : Prop :=
  match e with SvConnect _ | SvConnEnd _ | SvSignal => False | _ => True end.

Lemma fin_evs_quiet tid pc : Forall quiet (fin_evs tid pc).
Proof. destruct pc; simpl; repeat constructor. Qed.

Definition acq_op (t : sthread) (sid n k : str) (z : Z) (lt : option Z) : Prop :=
  st_op t = STry sid n k z lt ∨ st_op t = SLock sid n k z lt.

Lemma acq_op_acquirer t sid n k z lt : acq_op t sid n k z lt → acquirer t sid n k z.
Proof. intros H; exists lt; exact H. Qed.

(** the session table after RemoveLock(name,key) *)
Definition sess_rm (n k : str) (m : gmap str (list clock)) : gmap str (list clock) :=
  (λ l, filter (λ c, is_hold n k c = false) l) <$> m.
Definition sess_has (n k : str) (m : gmap str (list clock)) : bool :=
  existsb (λ '(_, l), existsb (is_hold n k) l) (map_to_list m).

(** ** sites: which threads perform which sub-operation, and where they continue *)
(** a release that succeeds *)
Inductive rel_site (s : svstate) (t : sthread) (n k : str) : spc → Prop :=
| rs_unlock : st_op t = SUnlock n k → st_pc t = VMgrUnlock → v_mgrshut s = false → rel_site s t n k VSessRemove
| rs_expire id tm : st_op t = SExpire id → st_pc t = VCbUnlock → v_theap s !! id = Some tm → tm_n tm = n → tm_k tm = k →
    v_mgrshut s = false → rel_site s t n k VCbSessRemove
| rs_ds sid c rest : st_op t = SConnEnd sid → st_pc t = VDsUnlock c rest → cl_name c = n → cl_key c = k →
    v_mgrshut s = false → rel_site s t n k (ds_next rest)
| rs_woken sid z lt e : st_op t = SLock sid n k z lt → st_pc t = VWoken → st_cancel t = Some e →
    rel_site s t n k (VFin (SResp false (Some e))).
(** a manager Unlock that fails: nothing changes *)
Inductive relfail_site (s : svstate) (t : sthread) (n k : str) : spc → Prop :=
| rf_unlock e : st_op t = SUnlock n k → st_pc t = VMgrUnlock → relfail_site s t n k (VFin (SResp false (Some e)))
| rf_expire id tm : st_op t = SExpire id → st_pc t = VCbUnlock → v_theap s !! id = Some tm → tm_n tm = n → tm_k tm = k →
    relfail_site s t n k VCbSessRemove
| rf_ds sid c rest : st_op t = SConnEnd sid → st_pc t = VDsUnlock c rest → cl_name c = n → cl_key c = k →
    relfail_site s t n k (ds_next rest).
(** TimerMap.Remove(tk): continuation if stopped / if not stopped *)
Inductive tmrm_site (s : svstate) (t : sthread) : str → spc → spc → Prop :=
| tr_unlock n k : st_op t = SUnlock n k → st_pc t = VTmRemove → tmrm_site s t (tkey n k) VMgrUnlock VSessRemove
| tr_expire id tm : st_op t = SExpire id → st_pc t = VCbTmRemove → v_theap s !! id = Some tm →
    tmrm_site s t (tkey (tm_n tm) (tm_k tm)) VEnd VEnd
| tr_ds sid c rest : st_op t = SConnEnd sid → st_pc t = VDsTmRemove (c :: rest) →
    tmrm_site s t (tkey (cl_name c) (cl_key c)) (VDsUnlock c rest) (ds_next rest).
(** sessionManager.RemoveLock(n,k) *)
Inductive sessrm_site (s : svstate) (t : sthread) (n k : str) : spc → Prop :=
| sr_unlock : st_op t = SUnlock n k → st_pc t = VSessRemove → sessrm_site s t n k (VFin (SResp true None))
| sr_expire id tm : st_op t = SExpire id → st_pc t = VCbSessRemove → v_theap s !! id = Some tm → tm_n tm = n → tm_k tm = k →
    sessrm_site s t n k VCbTmRemove.
(** steps of DestroySession that only move its pc *)
Inductive ds_move (cfg : svcfg) (s : svstate) (t : sthread) (sid : str) : spc → Prop :=
| dm_flag_shut : st_pc t = VDsFlag → v_shut s = true → ds_move cfg s t sid VEnd
| dm_flag : st_pc t = VDsFlag → v_shut s = false → ds_move cfg s t sid (if sc_noclear cfg then VDsNoClear else VDsDestroy)
| dm_noclear_keep : st_pc t = VDsNoClear → v_sess s !! sid ≠ Some [] → ds_move cfg s t sid VEnd
| dm_destroy_none : st_pc t = VDsDestroy → v_sess s !! sid = None → ds_move cfg s t sid VEnd
| dm_done : st_pc t = VDsTmRemove [] → ds_move cfg s t sid VEnd.

Definition shnet_cancel (t : sthread) : sthread :=
  match st_op t, st_cancel t with
  | (STry _ _ _ _ _ | SLock _ _ _ _ _ | SUnlock _ _ | SRenew _ _ _), None =>
      if is_fin (st_pc t) then t else t <| st_cancel := Some ECtxCanceled |>
  | _, _ => t end.
Definition connend_cancel (sid : str) (t : sthread) : sthread :=
  if bool_decide (op_sid (st_op t) = Some sid) && bool_decide (st_cancel t = None) && negb (is_fin (st_pc t))
  then t <| st_cancel := Some ECtxCanceled |> else t.
(** the network stop delivers a ConnEnd for every connection in [l] *)
Definition spawn_one (s : svstate) (sid : str) : svstate := vemit (SvConnEnd sid) (spawn (SConnEnd sid) VDsFlag s).
Definition spawn_list (l : list str) (s : svstate) : svstate := fold_left spawn_one l s.
Definition spawn_sessions (s : svstate) : svstate := spawn_list (open_sids (v_trace s)) s.
(** every call still in flight has a context that has ended *)
Definition all_cancelled (s : svstate) : Prop :=
  ∀ tid t, v_thr s !! tid = Some t → client_op (st_op t) = true → is_fin (st_pc t) = false → st_cancel t ≠ None.

Lemma ds_next_not_fin l r : ds_next l ≠ VFin r.
Proof. by destruct l. Qed.
Lemma ds_pending_next l c : ds_pending (ds_next l) c ↔ c ∈ l.
Proof. destruct l; simpl; [|done]. split; [done|by intros ?%elem_of_nil]. Qed.
Definition no_parked (s : svstate) : Prop :=
  ∀ tid t, v_thr s !! tid = Some t → st_pc t ≠ VWait ∧ st_pc t ≠ VWoken.

(** ** the step relation *)
Inductive vsr (cfg : svcfg) (s : svstate) : sitem → svstate → Prop :=
| vsr_id it : vsr cfg s it s
| vsr_call tid op (Hc : client_op op = true) (Hlt : (tid < sys_base)%nat) (Hno : v_thr s !! tid = None) :
    vsr cfg s (VCall tid op) (s <| v_thr := <[tid := SThread op (first_pc op) None]> (v_thr s) |> <| v_trace := Sv.SvInv tid op :: v_trace s |>)
| vsr_cancel tid t cause (Ht : v_thr s !! tid = Some t) (Hc : client_op (st_op t) = true) (Hn : st_cancel t = None)
    (Hf : is_fin (st_pc t) = false) :
    vsr cfg s (VCancel tid cause) (s <| v_thr := <[tid := t <| st_cancel := Some cause |>]> (v_thr s) |>)
| vsr_connect_old sid l (Hs : v_sess s !! sid = Some l) :
    vsr cfg s (VConnect sid) (s <| v_trace := SvConnect sid :: v_trace s |>)
| vsr_connect_new sid (Hs : v_sess s !! sid = None) :
    vsr cfg s (VConnect sid) (s <| v_sess := <[sid := []]> (v_sess s) |> <| v_trace := SvConnect sid :: v_trace s |>)
| vsr_connend sid :
    vsr cfg s (VConnEnd sid)
      (s <| v_thr := <[v_next s := SThread (SConnEnd sid) VDsFlag None]> (connend_cancel sid <$> v_thr s) |>
         <| v_next := S (v_next s) |> <| v_trace := SvConnEnd sid :: v_trace s |>)
(* one lease timer fires (a micro-step of VTick; it may even fire early as far as the invariant is concerned) *)
| vsr_fire id tm d (Htm : v_theap s !! id = Some tm) (Hst : tm_st tm = TArmed d) :
    vsr cfg s (VTick 0)
      (s <| v_theap := <[id := tm <| tm_st := TFired |>]> (v_theap s) |>
         <| v_thr := <[v_next s := SThread (SExpire id) VCbUnlock None]> (v_thr s) |> <| v_next := S (v_next s) |>
         <| v_trace := SvFired id :: v_trace s |>)
| vsr_signal :
    vsr cfg s VSignal (s <| v_thr := <[v_next s := SThread SShutdown VShFlag None]> (v_thr s) |> <| v_next := S (v_next s) |>
                         <| v_trace := SvSignal :: v_trace s |>)
(* ---- acquisition ---- *)
| vsr_acq_err tid t sid n k z lt e (Ht : v_thr s !! tid = Some t) (Hop : acq_op t sid n k z lt)
    (Hpc : st_pc t = VMgrTry ∨ st_pc t = VMgrLock) :
    vsr cfg s (VRun tid) (st_go tid t (VFin (SResp false (Some e))) s)
| vsr_acq_touch tid t sid n k z lt o (Ht : v_thr s !! tid = Some t) (Hop : acq_op t sid n k z lt)
    (Hpc : st_pc t = VMgrTry ∨ st_pc t = VMgrLock) (Hz : 0 < z)
    (Hsz : al_size (default (ALock z [] []) (v_locks s !! n)) = z) :
    vsr cfg s (VRun tid)
      (st_go tid t (VFin (SResp false o)) (s <| v_locks := <[n := default (ALock z [] []) (v_locks s !! n)]> (v_locks s) |>))
| vsr_grant tid t sid n k z lt a (Ht : v_thr s !! tid = Some t) (Hop : acq_op t sid n k z lt)
    (Hpc : st_pc t = VMgrTry ∨ st_pc t = VMgrLock) (Hz : 0 < z)
    (Ha : a = default (ALock z [] []) (v_locks s !! n)) (Hsz : al_size a = z) (Hfree : al_free a = true)
    (Hms : v_mgrshut s = false) (Hcn : st_pc t = VMgrLock → st_cancel t = None) :
    vsr cfg s (VRun tid)
      (st_go tid t VSessAdd (s <| v_locks := <[n := a <| al_live := al_live a ++ [k] |>]> (v_locks s) |>
                               <| v_trace := SvAcquired tid n k :: v_trace s |>))
| vsr_enqueue tid t sid n k z lt a (Ht : v_thr s !! tid = Some t) (Hop : st_op t = SLock sid n k z lt)
    (Hpc : st_pc t = VMgrLock) (Hz : 0 < z) (Hcn : st_cancel t = None)
    (Ha : a = default (ALock z [] []) (v_locks s !! n)) (Hsz : al_size a = z) (Hfree : al_free a = false) :
    vsr cfg s (VRun tid)
      (st_go tid t VWait (s <| v_locks := <[n := a <| al_q := al_q a ++ [tid] |>]> (v_locks s) |>))
| vsr_wait_cancel tid t sid n k z lt e a (Ht : v_thr s !! tid = Some t) (Hop : st_op t = SLock sid n k z lt)
    (Hpc : st_pc t = VWait) (Hcn : st_cancel t = Some e) (Ha : v_locks s !! n = Some a) :
    vsr cfg s (VRun tid)
      (st_go tid t (VFin (SResp false (Some e)))
         (s <| v_locks := <[n := a <| al_q := filter (λ w, w ≠ tid) (al_q a) |>]> (v_locks s) |>))
| vsr_woken tid t sid n k z lt (Ht : v_thr s !! tid = Some t) (Hop : st_op t = SLock sid n k z lt)
    (Hpc : st_pc t = VWoken) (Hcn : st_cancel t = None) :
    vsr cfg s (VRun tid) (st_go tid t VSessAdd s)
(* ---- releases ---- *)
| vsr_release tid t n k a pc' (Ht : v_thr s !! tid = Some t) (Hsite : rel_site s t n k pc')
    (Ha : v_locks s !! n = Some a) (Hk : k ∈ al_live a) (Hq : al_q a = []) :
    vsr cfg s (VRun tid)
      (st_go tid t pc' (s <| v_locks := <[n := a <| al_live := remove_first k (al_live a) |>]> (v_locks s) |>
                          <| v_trace := SvReleased tid n k :: v_trace s |>))
| vsr_release_ho tid t n k a pc' w q' tw sidw kw zw ltw (Ht : v_thr s !! tid = Some t) (Hsite : rel_site s t n k pc')
    (Ha : v_locks s !! n = Some a) (Hk : k ∈ al_live a) (Hq : al_q a = w :: q')
    (Hw : v_thr s !! w = Some tw) (Hwop : st_op tw = SLock sidw n kw zw ltw) (Hwpc : st_pc tw = VWait) (Hne : w ≠ tid) :
    vsr cfg s (VRun tid)
      (st_go tid t pc' (s <| v_locks := <[n := ALock (al_size a) (remove_first k (al_live a) ++ [kw]) q']> (v_locks s) |>
                          <| v_thr := <[w := with_pc tw VWoken]> (v_thr s) |>
                          <| v_trace := SvAcquired w n kw :: SvReleased tid n k :: v_trace s |>))
| vsr_relfail tid t n k pc' (Ht : v_thr s !! tid = Some t) (Hsite : relfail_site s t n k pc')
    (Hwhy : v_mgrshut s = true ∨ ¬ slive s n k) :
    vsr cfg s (VRun tid) (st_go tid t pc' s)
(* ---- bookkeeping of a grant ---- *)
| vsr_sessadd tid t sid n k z lt pc' (Ht : v_thr s !! tid = Some t) (Hop : acq_op t sid n k z lt) (Hpc : st_pc t = VSessAdd)
    (Hpc' : pc' = if lt_pos lt then VTmAdd else VFin (SResp true None)) :
    vsr cfg s (VRun tid)
      (st_go tid t pc'
         (s <| v_sess := <[sid := default [] (v_sess s !! sid) ++ [Clock n k z]]> (v_sess s) |>
            <| v_file := if sc_file cfg then Some (<[sid := default [] (v_sess s !! sid) ++ [Clock n k z]]> (v_sess s)) else v_file s |>
            <| v_trace := SvSessAdd tid sid (Clock n k z) :: v_trace s |>))
| vsr_tmadd_shut tid t sid n k z lt (Ht : v_thr s !! tid = Some t) (Hop : acq_op t sid n k z lt) (Hpc : st_pc t = VTmAdd)
    (Hsh : v_tmshut s = true) :
    vsr cfg s (VRun tid) (st_go tid t (VFin (SResp true None)) s)
| vsr_tmadd tid t sid n k z lt (Ht : v_thr s !! tid = Some t) (Hop : acq_op t sid n k z lt) (Hpc : st_pc t = VTmAdd)
    (Hsh : v_tmshut s = false) :
    vsr cfg s (VRun tid)
      (st_go tid t (VFin (SResp true None))
         (s <| v_theap := <[v_tnext s := STimer (TArmed (v_now s + default 0 lt * second)) n k sid]> (v_theap s) |>
            <| v_timers := <[tkey n k := v_tnext s]> (v_timers s) |> <| v_tnext := S (v_tnext s) |>))
(* ---- TimerMap.Remove ---- *)
| vsr_tmrm_none tid t tk pc1 pc2 (Ht : v_thr s !! tid = Some t) (Hsite : tmrm_site s t tk pc1 pc2) (Hno : v_timers s !! tk = None) :
    vsr cfg s (VRun tid) (st_go tid t pc1 s)
| vsr_tmrm_armed tid t tk pc1 pc2 id tm d (Ht : v_thr s !! tid = Some t) (Hsite : tmrm_site s t tk pc1 pc2)
    (Hid : v_timers s !! tk = Some id) (Htm : v_theap s !! id = Some tm) (Hst : tm_st tm = TArmed d) :
    vsr cfg s (VRun tid)
      (st_go tid t pc1 (s <| v_timers := delete tk (v_timers s) |> <| v_theap := <[id := tm <| tm_st := TStopped |>]> (v_theap s) |>))
| vsr_tmrm_fired tid t tk pc1 pc2 id tm (Ht : v_thr s !! tid = Some t) (Hsite : tmrm_site s t tk pc1 pc2)
    (Hid : v_timers s !! tk = Some id) (Htm : v_theap s !! id = Some tm) (Hst : tm_st tm = TFired) :
    vsr cfg s (VRun tid) (st_go tid t pc2 (s <| v_timers := delete tk (v_timers s) |>))
(* ---- RemoveLock ---- *)
| vsr_sessrm tid t n k pc' (Ht : v_thr s !! tid = Some t) (Hsite : sessrm_site s t n k pc') :
    vsr cfg s (VRun tid)
      (st_go tid t pc'
         (s <| v_sess := sess_rm n k (v_sess s) |>
            <| v_file := if sess_has n k (v_sess s) && sc_file cfg then Some (sess_rm n k (v_sess s)) else v_file s |>
            <| v_trace := SvSessRemove tid n k :: v_trace s |>))
(* ---- Renew ---- *)
| vsr_renew_fail tid t n k lt o (Ht : v_thr s !! tid = Some t) (Hop : st_op t = SRenew n k lt) (Hpc : st_pc t = VTmReset) :
    vsr cfg s (VRun tid) (st_go tid t (VFin (SResp false o)) s)
| vsr_renew tid t n k lt id tm d (Ht : v_thr s !! tid = Some t) (Hop : st_op t = SRenew n k lt) (Hpc : st_pc t = VTmReset)
    (Hid : v_timers s !! tkey n k = Some id) (Htm : v_theap s !! id = Some tm) (Hst : tm_st tm = TArmed d) :
    vsr cfg s (VRun tid)
      (st_go tid t (VFin (SResp true None))
         (s <| v_theap := <[id := tm <| tm_st := TArmed (v_now s + lt * second) |>]> (v_theap s) |>))
(* ---- DestroySession ---- *)
| vsr_ds_move tid t sid pc' (Ht : v_thr s !! tid = Some t) (Hop : st_op t = SConnEnd sid) (Hmv : ds_move cfg s t sid pc') :
    vsr cfg s (VRun tid) (st_go tid t pc' s)
(* DestroySession's delete (pc VDsDestroy), or DestroySessionIfEmpty's check-and-delete of an empty session (pc VDsNoClear) *)
| vsr_ds_destroy tid t sid l (Ht : v_thr s !! tid = Some t) (Hop : st_op t = SConnEnd sid)
    (Hpc : st_pc t = VDsDestroy ∨ (st_pc t = VDsNoClear ∧ l = []))
    (Hl : v_sess s !! sid = Some l) :
    vsr cfg s (VRun tid)
      (st_go tid t (ds_next l)
         (s <| v_sess := delete sid (v_sess s) |>
            <| v_file := if sc_file cfg then Some (delete sid (v_sess s)) else v_file s |>
            <| v_trace := SvSessDestroy tid sid :: v_trace s |>))
(* ---- shutdown ---- *)
| vsr_sh_flag tid t (Ht : v_thr s !! tid = Some t) (Hop : st_op t = SShutdown) (Hpc : st_pc t = VShFlag) :
    vsr cfg s (VRun tid) (st_go tid t VShNet (s <| v_shut := true |>))
(* the network stop in three kinds of micro-steps: contexts end; a ConnEnd is delivered; the closer moves on *)
| vsr_sh_cancel : vsr cfg s (VTick 0) (s <| v_thr := shnet_cancel <$> v_thr s |>)
| vsr_sh_spawn sid (Hsh : v_shut s = true) (Hcn : all_cancelled s) :
    vsr cfg s (VConnEnd sid) (s <| v_thr := <[v_next s := SThread (SConnEnd sid) VDsFlag None]> (v_thr s) |> <| v_next := S (v_next s) |>
                                <| v_trace := SvConnEnd sid :: v_trace s |>)
| vsr_sh_net tid t (Ht : v_thr s !! tid = Some t) (Hop : st_op t = SShutdown) (Hpc : st_pc t = VShNet) :
    vsr cfg s (VRun tid) (st_go tid t VShTimers s)
| vsr_sh_timers tid t (Ht : v_thr s !! tid = Some t) (Hop : st_op t = SShutdown) (Hpc : st_pc t = VShTimers) :
    vsr cfg s (VRun tid)
      (st_go tid t VShMgr
         (s <| v_theap := (λ tm, match tm_st tm with TArmed _ => tm <| tm_st := TStopped |> | _ => tm end) <$> v_theap s |>
            <| v_timers := ∅ |> <| v_tmshut := true |>))
| vsr_sh_mgr tid t (Ht : v_thr s !! tid = Some t) (Hop : st_op t = SShutdown) (Hpc : st_pc t = VShMgr) (Hnp : no_parked s) :
    vsr cfg s (VRun tid) (st_go tid t VEnd (s <| v_mgrshut := true |>)).

(** what [vstep] does: one explicit step, or one of the two steps that iterate over a map *)
Inductive vsr_full (cfg : svcfg) (s : svstate) : sitem → svstate → Prop :=
| vf_one it s' : vsr cfg s it s' → vsr_full cfg s it s'
| vf_tick dt : vsr_full cfg s (VTick dt) (fire_due (s <| v_now := v_now s + Z.max 0 dt |>))
| vf_shnet tid t (Ht : v_thr s !! tid = Some t) (Hop : st_op t = SShutdown) (Hpc : st_pc t = VShNet) :
    vsr_full cfg s (VRun tid) (st_go tid t VShTimers (spawn_sessions (s <| v_thr := shnet_cancel <$> v_thr s |>))).

Lemma vsr_eq cfg s it s1 s2 : s1 = s2 → vsr cfg s it s1 → vsr cfg s it s2.
Proof. by intros ->. Qed.

Lemma vset_pc_go tid t pc X : v_thr X !! tid = Some t → (∀ r, pc ≠ VFin r) → vset_pc tid pc X = st_go tid t pc X.
Proof. intros H Hn. unfold vset_pc, st_go. rewrite H. destruct pc; try reflexivity. by destruct (Hn r). Qed.
Lemma vfinish_go tid t r X : v_thr X !! tid = Some t → vfinish tid r X = st_go tid t (VFin r) X.
Proof. intros H. unfold vfinish, vset_pc, st_go. rewrite H. reflexivity. Qed.


Lemma vsave_eq cfg s : vsave cfg s = s <| v_file := if sc_file cfg then Some (v_sess s) else v_file s |>.
Proof. unfold vsave. destruct (sc_file cfg); [reflexivity|]. by destruct s. Qed.

Lemma remove_first_length k l : k ∈ l → length (remove_first k l) = pred (length l).
Proof.
  induction l as [|x l IH]; simpl; [by intros ?%elem_of_nil|].
  case_bool_decide as Hx; [done|]. intros [?|Hin]%elem_of_cons; [congruence|]. simpl. rewrite IH by done.
  destruct l; [by apply elem_of_nil in Hin|done].
Qed.

Definition rel_state (s : svstate) (tid : nat) (n k : str) (a : alock) : svstate :=
  hand_over n (vemit (SvReleased tid n k) (s <| v_locks := <[n := a <| al_live := remove_first k (al_live a) |>]> (v_locks s) |>)).

Lemma rel_site_pc s t n k pc' : rel_site s t n k pc' → st_pc t ≠ VWait.
Proof. destruct 1; congruence. Qed.

Lemma release_ok cfg s tid t n k a pc' (I : SvInv cfg s) (Ht : v_thr s !! tid = Some t) (Hsite : rel_site s t n k pc')
    (Ha : v_locks s !! n = Some a) (Hk : k ∈ al_live a) :
  v_thr (rel_state s tid n k a) !! tid = Some t ∧ vsr cfg s (VRun tid) (st_go tid t pc' (rel_state s tid n k a)).
Proof.
  unfold rel_state, hand_over. simpl. rewrite lookup_insert. simpl.
  destruct (al_q a) as [|w q'] eqn:Hq.
  { split; [done|]. eapply vsr_eq; [|eapply vsr_release; eauto]. reflexivity. }
  destruct (vi_cap _ _ I n a Ha) as (Hsz & Hlen & Hnd & Hndq).
  assert (Hlt : Z.of_nat (length (remove_first k (al_live a))) <? al_size a = true).
  { rewrite remove_first_length by done. destruct (al_live a); [by apply elem_of_nil in Hk|]. simpl in *. lia. }
  rewrite Hlt.
  destruct (proj1 (vi_queue _ _ I n a w Ha)) as (tw & sidw & kw & zw & ltw & Hw & Hwop & Hwpc).
  { rewrite Hq. left. }
  assert (Hne : w ≠ tid). { intros ->. apply rel_site_pc in Hsite. congruence. }
  unfold key_of_thr, vset_pc. simpl. rewrite Hw, Hwop. simpl. rewrite lookup_insert_ne by done. split; [done|].
  eapply vsr_eq; [|eapply vsr_release_ho; eauto]. unfold st_go. simpl. rewrite insert_insert. reflexivity.
Qed.

Lemma mgr_unlock_cases s tid n k :
  (∃ e, mgr_unlock tid n k s = (s, SResp false (Some e)) ∧ (v_mgrshut s = true ∨ ¬ slive s n k)) ∨
  (∃ a, v_mgrshut s = false ∧ v_locks s !! n = Some a ∧ k ∈ al_live a ∧ mgr_unlock tid n k s = (rel_state s tid n k a, SResp true None)).
Proof.
  unfold mgr_unlock. destruct (v_mgrshut s) eqn:Hms; [left; eauto|].
  destruct (v_locks s !! n) as [a|] eqn:Ha.
  2:{ left. eexists; split; [done|]. right. intros (a & Ha' & _). congruence. }
  case_bool_decide as Hk.
  - right. exists a. done.
  - left. eexists; split; [done|]. right. intros (a' & Ha' & Hk'). congruence.
Qed.

Lemma tm_remove_cases cfg s tk (I : SvInv cfg s) :
  (v_timers s !! tk = None ∧ tm_remove tk s = (s, true)) ∨
  (∃ id tm d, v_timers s !! tk = Some id ∧ v_theap s !! id = Some tm ∧ tm_st tm = TArmed d ∧
     tm_remove tk s = (s <| v_timers := delete tk (v_timers s) |> <| v_theap := <[id := tm <| tm_st := TStopped |>]> (v_theap s) |>, true)) ∨
  (∃ id tm, v_timers s !! tk = Some id ∧ v_theap s !! id = Some tm ∧ tm_st tm = TFired ∧
     tm_remove tk s = (s <| v_timers := delete tk (v_timers s) |>, false)).
Proof.
  unfold tm_remove. destruct (v_timers s !! tk) as [id|] eqn:Hid; [|by left].
  destruct (vi_tm_entry _ _ I tk id Hid) as (tm & Htm & _ & Hns & _). rewrite Htm.
  destruct (tm_st tm) as [d| |] eqn:Hst; [|done|].
  - right; left. exists id, tm, d. done.
  - right; right. exists id, tm. done.
Qed.

Lemma tmrm_ok cfg s tid t tk pc1 pc2 (I : SvInv cfg s) (Ht : v_thr s !! tid = Some t) (Hsite : tmrm_site s t tk pc1 pc2)
    (H1 : ∀ r, pc1 ≠ VFin r) (H2 : ∀ r, pc2 ≠ VFin r) :
  vsr cfg s (VRun tid) (let '(s1, st) := tm_remove tk s in if st then vset_pc tid pc1 s1 else vset_pc tid pc2 s1).
Proof.
  destruct (tm_remove_cases cfg s tk I) as [[Hno ->]|[(id & tm & d & Hid & Htm & Hst & ->)|(id & tm & Hid & Htm & Hst & ->)]].
  - rewrite (vset_pc_go _ t) by done. eapply vsr_tmrm_none; eauto.
  - rewrite (vset_pc_go _ t) by done. eapply vsr_eq; [|eapply vsr_tmrm_armed; eauto]. reflexivity.
  - rewrite (vset_pc_go _ t) by done. eapply vsr_eq; [|eapply vsr_tmrm_fired; eauto]. reflexivity.
Qed.

Lemma sess_remove_eq cfg tid n k s :
  sess_remove cfg tid n k s =
    s <| v_sess := sess_rm n k (v_sess s) |>
      <| v_file := if sess_has n k (v_sess s) && sc_file cfg then Some (sess_rm n k (v_sess s)) else v_file s |>
      <| v_trace := SvSessRemove tid n k :: v_trace s |>.
Proof. unfold sess_remove, sess_has, vsave. destruct s; simpl. destruct (existsb _ _); destruct (sc_file cfg); reflexivity. Qed.

Lemma existsb_false {A} (f : A → bool) l : existsb f l = false → ∀ x, x ∈ l → f x = false.
Proof.
  induction l as [|y l IH]; simpl; [by intros _ x ?%elem_of_nil|].
  intros [Hy Hl]%orb_false_iff x [->|Hx]%elem_of_cons; auto.
Qed.
Lemma existsb_true {A} (f : A → bool) l : existsb f l = true → ∃ x, x ∈ l ∧ f x = true.
Proof.
  induction l as [|y l IH]; simpl; [done|].
  intros [Hy|Hl]%orb_true_iff; [exists y; split; [left|done]|].
  destruct (IH Hl) as (x & ? & ?). exists x; split; [by right|done].
Qed.

Lemma spawn_fold_thr (l : list str) s tid :
  (tid < v_next s)%nat → v_thr (spawn_list l s) !! tid = v_thr s !! tid.
Proof.
  unfold spawn_list. revert s; induction l as [|sid l IH]; intros s Hlt; simpl; [done|].
  rewrite IH by (simpl; lia). simpl. rewrite lookup_insert_ne by lia. done.
Qed.

Ltac vid := first [apply vsr_id | apply vf_one, vsr_id].
Lemma vsr_ok cfg s it : SvInv cfg s → vsr_full cfg s it (vstep cfg s it).
Proof.
  intros I. unfold vstep. rewrite (vi_not_crashed _ _ I).
  destruct it as [tid op|tid|tid cause|sid|sid|dt|].
  - destruct (client_op op) eqn:Hc; [|vid]. destruct (tid <? sys_base)%nat eqn:Hlt; [|vid].
    simpl. destruct (v_thr s !! tid) eqn:Ht; [vid|].
    apply vf_one. eapply vsr_eq; [|eapply vsr_call; eauto; lia]. reflexivity.
  - destruct (v_thr s !! tid) as [t|] eqn:Ht; [|vid].
    unfold vrun_thread.
    destruct (st_pc t) eqn:Hpc; destruct (st_op t) eqn:Hop; try apply (vf_one _ _ _ _ (vsr_id _ _ _)).
    + (* VMgrTry *)
      apply vf_one.
      assert (Hao : acq_op t sid name key size lt) by (by left).
      destruct (v_mgrshut s) eqn:Hms. { rewrite (vfinish_go _ t) by done. eapply vsr_acq_err; eauto. }
      destruct (Z.leb_spec size 0). { rewrite (vfinish_go _ t) by done. eapply vsr_acq_err; eauto. }
      cbv zeta. case_bool_decide as Hsz; simpl. 2:{ rewrite (vfinish_go _ t) by done. eapply vsr_acq_err; eauto. }
      destruct (al_free _) eqn:Hfree.
      { rewrite (vset_pc_go _ t) by done. eapply vsr_eq; [|eapply vsr_grant; eauto; congruence]. reflexivity. }
      rewrite (vfinish_go _ t) by done. eapply vsr_acq_touch; eauto.
    + (* VMgrLock *)
      apply vf_one.
      assert (Hao : acq_op t sid name key size lt) by (by right).
      destruct (v_mgrshut s) eqn:Hms. { rewrite (vfinish_go _ t) by done. eapply vsr_acq_err; eauto. }
      destruct (Z.leb_spec size 0). { rewrite (vfinish_go _ t) by done. eapply vsr_acq_err; eauto. }
      cbv zeta. case_bool_decide as Hsz; simpl. 2:{ rewrite (vfinish_go _ t) by done. eapply vsr_acq_err; eauto. }
      destruct (st_cancel t) as [e|] eqn:Hcn.
      { rewrite (vfinish_go _ t) by done. eapply vsr_acq_touch; eauto. }
      destruct (al_free _) eqn:Hfree.
      { rewrite (vset_pc_go _ t) by done. eapply vsr_eq; [|eapply vsr_grant; eauto; congruence]. reflexivity. }
      rewrite (vset_pc_go _ t) by done. eapply vsr_eq; [|eapply vsr_enqueue; eauto]. reflexivity.
    + (* VWait *)
      apply vf_one.
      destruct (st_cancel t) as [e|] eqn:Hcn; [|vid].
      destruct (v_locks s !! name) as [a|] eqn:Ha; [|vid].
      rewrite (vfinish_go _ t) by done. eapply vsr_wait_cancel; eauto.
    + (* VWoken *)
      apply vf_one.
      destruct (st_cancel t) as [e|] eqn:Hcn.
      2:{ assert (vset_pc tid VSessAdd s = st_go tid t VSessAdd s) as Hgo by (by apply vset_pc_go).
          destruct (v_locks s !! name); rewrite Hgo; eapply vsr_woken; eauto. }
      destruct (vi_granted_live _ _ I tid t sid name key size Ht) as (a & Ha & Hk); [by exists lt; right|by left|].
      rewrite Ha.
      destruct (release_ok cfg s tid t name key a (VFin (SResp false (Some e))) I Ht) as [Hthr Hv]; [by econstructor|done|done|].
      rewrite (vfinish_go _ t) by done. exact Hv.
    + (* VSessAdd, STry *)
      apply vf_one.
      unfold sess_add. rewrite vsave_eq.
      destruct (lt_pos lt) eqn:Hlt; [rewrite (vset_pc_go _ t) by done|rewrite (vfinish_go _ t) by done];
        (eapply vsr_eq; [|eapply vsr_sessadd with (lt := lt); eauto; by left]); rewrite Hlt; reflexivity.
    + (* VSessAdd, SLock *)
      apply vf_one.
      unfold sess_add. rewrite vsave_eq.
      destruct (lt_pos lt) eqn:Hlt; [rewrite (vset_pc_go _ t) by done|rewrite (vfinish_go _ t) by done];
        (eapply vsr_eq; [|eapply vsr_sessadd with (lt := lt); eauto; by right]); rewrite Hlt; reflexivity.
    + (* VTmAdd, STry *)
      apply vf_one.
      unfold tm_add. destruct (v_tmshut s) eqn:Hsh; rewrite (vfinish_go _ t) by done.
      * eapply vsr_tmadd_shut; eauto. by left.
      * eapply vsr_eq; [|eapply vsr_tmadd with (lt := lt); eauto; by left]. reflexivity.
    + (* VTmAdd, SLock *)
      apply vf_one.
      unfold tm_add. destruct (v_tmshut s) eqn:Hsh; rewrite (vfinish_go _ t) by done.
      * eapply vsr_tmadd_shut; eauto. by right.
      * eapply vsr_eq; [|eapply vsr_tmadd with (lt := lt); eauto; by right]. reflexivity.
    + (* VTmRemove *)
      apply vf_one.
      apply (tmrm_ok cfg s tid t _ VMgrUnlock VSessRemove I Ht); [by constructor|done|done].
    + (* VMgrUnlock *)
      apply vf_one.
      destruct (mgr_unlock_cases s tid name key) as [(e & -> & Hwhy)|(a & Hms & Ha & Hk & ->)]; simpl.
      * rewrite (vfinish_go _ t) by done. eapply vsr_relfail; eauto. by constructor.
      * destruct (release_ok cfg s tid t name key a VSessRemove I Ht) as [Hthr Hv]; [by constructor|done|done|].
        rewrite (vset_pc_go _ t) by done. exact Hv.
    + (* VSessRemove *)
      apply vf_one.
      rewrite sess_remove_eq, (vfinish_go _ t) by done. eapply vsr_sessrm; eauto. by constructor.
    + (* VTmReset *)
      apply vf_one.
      unfold tm_reset. destruct (v_timers s !! tkey name key) as [id|] eqn:Hid.
      2:{ rewrite (vfinish_go _ t) by done. eapply vsr_renew_fail; eauto. }
      destruct (v_theap s !! id) as [tm|] eqn:Htm.
      2:{ rewrite (vfinish_go _ t) by done. eapply vsr_renew_fail; eauto. }
      destruct (tm_st tm) eqn:Hst; rewrite (vfinish_go _ t) by done; try (eapply vsr_renew_fail; eauto).
      eapply vsr_eq; [|eapply vsr_renew; eauto]. reflexivity.
    + (* VCbUnlock *)
      apply vf_one.
      destruct (v_theap s !! tmid) as [tm|] eqn:Htm; [|vid].
      destruct (mgr_unlock_cases s tid (tm_n tm) (tm_k tm)) as [(e & -> & Hwhy)|(a & Hms & Ha & Hk & ->)]; simpl.
      * rewrite (vset_pc_go _ t) by done. eapply vsr_relfail; eauto. by econstructor.
      * destruct (release_ok cfg s tid t (tm_n tm) (tm_k tm) a VCbSessRemove I Ht) as [Hthr Hv]; [by econstructor|done|done|].
        rewrite (vset_pc_go _ t) by done. exact Hv.
    + (* VCbSessRemove *)
      apply vf_one.
      destruct (v_theap s !! tmid) as [tm|] eqn:Htm; [|vid].
      rewrite sess_remove_eq, (vset_pc_go _ t) by done. eapply vsr_sessrm; eauto. by econstructor.
    + (* VCbTmRemove *)
      apply vf_one.
      destruct (v_theap s !! tmid) as [tm|] eqn:Htm; [|vid].
      pose proof (tmrm_ok cfg s tid t _ VEnd VEnd I Ht (tr_expire s t tmid tm Hop Hpc Htm)) as Hv.
      destruct (tm_remove _ s) as [s1 []]; simpl; apply Hv; done.
    + (* VDsFlag *)
      apply vf_one.
      destruct (v_shut s) eqn:Hsh; rewrite (vset_pc_go _ t) by (try done; by destruct (sc_noclear cfg)).
      * eapply vsr_ds_move; eauto. by constructor.
      * eapply vsr_ds_move; eauto. by constructor.
    + (* VDsNoClear *)
      apply vf_one.
      destruct (v_sess s !! sid) as [[|c l]|] eqn:Hl.
      * unfold sess_destroy. rewrite Hl, vsave_eq. simpl. rewrite (vset_pc_go _ t) by done.
        eapply vsr_eq; [|eapply (vsr_ds_destroy _ _ tid t sid []); eauto]. reflexivity.
      * rewrite (vset_pc_go _ t) by done. eapply vsr_ds_move; eauto. apply dm_noclear_keep; [done|]. by rewrite Hl.
      * rewrite (vset_pc_go _ t) by done. eapply vsr_ds_move; eauto. apply dm_noclear_keep; [done|]. by rewrite Hl.
    + (* VDsDestroy *)
      apply vf_one.
      unfold sess_destroy. destruct (v_sess s !! sid) as [l|] eqn:Hl.
      * rewrite vsave_eq.
        rewrite (vset_pc_go _ t) by (try done; apply ds_next_not_fin).
        eapply vsr_eq; [|eapply vsr_ds_destroy; eauto]. reflexivity.
      * simpl. rewrite (vset_pc_go _ t) by done. eapply vsr_ds_move; eauto. by apply dm_destroy_none.
    + (* VDsTmRemove *)
      apply vf_one.
      destruct todo as [|c rest].
      * rewrite (vset_pc_go _ t) by done. eapply vsr_ds_move; eauto. by constructor.
      * apply (tmrm_ok cfg s tid t _ (VDsUnlock c rest) (ds_next rest) I Ht); [by econstructor|done|apply ds_next_not_fin].
    + (* VDsUnlock *)
      apply vf_one.
      destruct (mgr_unlock_cases s tid (cl_name c) (cl_key c)) as [(e & -> & Hwhy)|(a & Hms & Ha & Hk & ->)]; simpl.
      * rewrite (vset_pc_go _ t) by (try done; apply ds_next_not_fin). eapply vsr_relfail; eauto. by econstructor.
      * destruct (release_ok cfg s tid t (cl_name c) (cl_key c) a (ds_next todo) I Ht) as [Hthr Hv]; [by econstructor|done|done|].
        rewrite (vset_pc_go _ t) by (try done; apply ds_next_not_fin). exact Hv.
    + (* VShFlag *)
      apply vf_one.
      rewrite (vset_pc_go _ t) by done. eapply vsr_sh_flag; eauto.
    + (* VShNet *)
      rewrite (vset_pc_go _ t).
      * eapply vf_shnet; eauto.
      * change (v_thr (spawn_sessions (s <| v_thr := shnet_cancel <$> v_thr s |>)) !! tid = Some t).
        unfold spawn_sessions. rewrite spawn_fold_thr by (simpl; apply (vi_sys _ _ I tid t Ht)).
        simpl. rewrite lookup_fmap, Ht. simpl. unfold shnet_cancel. by rewrite Hop.
      * done.
    + (* VShTimers *)
      apply vf_one.
      rewrite (vset_pc_go _ t) by done. eapply vsr_eq; [|eapply vsr_sh_timers; eauto]. reflexivity.
    + (* VShMgr *)
      apply vf_one.
      destruct (existsb _ _) eqn:E; [vid|].
      rewrite (vset_pc_go _ t) by done. eapply vsr_sh_mgr; eauto.
      intros tid' t' Ht'. apply elem_of_map_to_list in Ht'. apply (existsb_false _ _ E) in Ht'.
      apply orb_false_iff in Ht' as [H1 H2]. split; by eapply bool_decide_eq_false.
  - destruct (v_thr s !! tid) as [t|] eqn:Ht; [|vid].
    destruct (client_op (st_op t)) eqn:Hc; [|vid].
    case_bool_decide as Hn; [|vid]. destruct (is_fin (st_pc t)) eqn:Hf; [vid|]. simpl.
    apply vf_one. eapply vsr_cancel; eauto.
  - destruct (v_sess s !! sid) as [l|] eqn:Hs.
    + apply vf_one. eapply vsr_connect_old; eauto.
    + apply vf_one. eapply vsr_eq; [|eapply vsr_connect_new; eauto]. reflexivity.
  - apply vf_one. eapply vsr_eq; [|eapply vsr_connend]. reflexivity.
  - apply vf_tick.
  - apply vf_one. eapply vsr_eq; [|eapply vsr_signal]. reflexivity.
Qed.
