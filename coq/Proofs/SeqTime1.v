(** Session-level one-step facts about Mseq: C11 (shutdown), C03 (cancel, FIFO hand-off), C10 (restart
    without state file), C06 (session end). Work package seqtime. *)
From Coq Require Import Lia ZifyBool ZifyNat.
From Ldlm Require Import Model.Base Model.Err Model.Seq Proofs.SeqDefs Proofs.SeqLemmasKey Proofs.SeqTargets.
From Ldlm Require Import Proofs.SeqTimeBase.
From RecordUpdate Require Import RecordSet.
Import RecordSetNotations.
Local Open Scope Z_scope.

(** ** cancel_waiters *)

Definition leave_out (now : Z) (e : err) (w : waiter) : out := OWaiter (w_id w) now (RLock false (w_key w) (Some e)).

Definition leave_step (e : err) : sstate * list out → waiter → sstate * list out :=
  λ '(s, outs) w, let '(s', o) := waiter_leave w e s in (s', outs ++ o).

Lemma cancel_fold e l : ∀ s outs, ∃ ws',
  fold_left (leave_step e) l (s, outs)
    = (s <| st_waiters := ws' |>, outs ++ map (leave_out (st_now s) e) l) ∧
  ∀ w', w' ∈ ws' ↔ w' ∈ st_waiters s ∧ w_id w' ∉ map w_id l.
Proof.
  induction l as [|w l IH]; intros s outs.
  - exists (st_waiters s). split; [destruct s; cbn; by rewrite app_nil_r|].
    intros w'. split; [intros; split; [done|apply not_elem_of_nil]|tauto].
  - cbn [fold_left].
    change (leave_step e (s, outs) w) with
      (s <| st_waiters := filter (λ w', bool_decide (w_id w' ≠ w_id w)) (st_waiters s) |>,
       outs ++ [OWaiter (w_id w) (st_now s) (RLock false (w_key w) (Some e))]).
    destruct (IH (s <| st_waiters := filter (λ w', bool_decide (w_id w' ≠ w_id w)) (st_waiters s) |>)
                 (outs ++ [OWaiter (w_id w) (st_now s) (RLock false (w_key w) (Some e))])) as (ws' & -> & Hws).
    exists ws'. split; [destruct s; cbn; by rewrite <- app_assoc|].
    intros w'. rewrite Hws. cbn. rewrite elem_of_list_filter, not_elem_of_cons.
    split; [intros [[Hne ?] ?]; apply bool_decide_unpack in Hne; done|].
    intros [? [? ?]]. split; [split; [by apply bool_decide_pack|done]|done].
Qed.

Lemma cancel_waiters_spec p e s : ∃ ws',
  cancel_waiters p e s = (s <| st_waiters := ws' |>, map (leave_out (st_now s) e) (filter (λ w, p w = true) (st_waiters s))) ∧
  ∀ w', w' ∈ ws' ↔ w' ∈ st_waiters s ∧ ∀ w, w ∈ st_waiters s → p w = true → w_id w' ≠ w_id w.
Proof.
  unfold cancel_waiters. change (λ '(s, outs) w, let '(s', o) := waiter_leave w e s in (s', outs ++ o)) with (leave_step e).
  destruct (cancel_fold e (filter (λ w, p w = true) (st_waiters s)) s []) as (ws' & -> & Hws).
  exists ws'. split; [done|]. intros w'. rewrite Hws. split; intros [? Hn]; (split; [done|]).
  - intros w Hw Hp E. apply Hn. rewrite E. apply elem_of_list_In, in_map, elem_of_list_In, elem_of_list_filter. done.
  - intros (w & E & [Hp Hw]%elem_of_list_In%elem_of_list_filter)%elem_of_list_In%in_map_iff. symmetry in E. by eapply Hn.
Qed.

(** ** C11 *)

Lemma C11_shutdown : T_C11_shutdown.
Proof.
  intros cfg s s' o H. simpl in H. apply det_elem' in H. unfold shutdown in H.
  destruct (cancel_waiters_spec (λ _, true) ECtxCanceled (s <| st_shut := true |>)) as (ws' & E & Hws).
  rewrite E in H. injection H as -> ->. cbn. split_and!; try done.
  - apply elem_of_nil_inv. intros w' [Hin Hn]%Hws. by eapply Hn.
  - intros w Hw. apply elem_of_list_In, in_map_iff. exists w. split; [done|].
    apply elem_of_list_In, elem_of_list_filter. done.
  - intros x (w & <- & _)%elem_of_list_In%in_map_iff. unfold leave_out. eauto.
Qed.

(** ** C03: cancel *)

Lemma filter_nil_not {A} (P : A → Prop) `{∀ x, Decision (P x)} l : (∀ x, x ∈ l → ¬ P x) → filter P l = [].
Proof.
  induction l as [|y l IH]; [done|]. intros Hn. rewrite filter_cons_False by (apply Hn; left).
  apply IH. intros x Hx. apply Hn. by right.
Qed.

Lemma filter_unique_id (ws : list waiter) w : NoDup (map w_id ws) → w ∈ ws →
  filter (λ w', bool_decide (w_id w' = w_id w) = true) ws = [w].
Proof.
  induction ws as [|y ws IH]; [by rewrite elem_of_nil|]. cbn [map]. rewrite NoDup_cons, elem_of_cons.
  intros [Hy Hnd] [->|Hin].
  - rewrite filter_cons_True by (by apply bool_decide_eq_true). f_equal. apply filter_nil_not.
    intros x Hx E%bool_decide_eq_true. apply Hy. rewrite <- E. by apply elem_of_list_In, in_map, elem_of_list_In.
  - rewrite filter_cons_False; [auto|]. intros E%bool_decide_eq_true. apply Hy. rewrite E.
    by apply elem_of_list_In, in_map, elem_of_list_In.
Qed.

Lemma C03_cancel : T_C03_cancel.
Proof.
  intros cfg s wid s' o w HI H Hw <-. simpl in H. apply det_elem' in H.
  destruct (cancel_waiters_spec (λ w', bool_decide (w_id w' = w_id w)) ECtxCanceled s) as (ws' & E & Hws).
  rewrite E in H. injection H as -> ->. rewrite filter_unique_id by (by destruct HI). cbn. split_and!; try done.
  intros w' [_ Hn]%Hws. apply (Hn w Hw). by apply bool_decide_eq_true.
Qed.

(** ** C03: FIFO hand-off.
    [T_C03_fifo] as stated carries no hypothesis on the state and is false when two parked calls share
    an id: with waiters [Waiter 0 _ "a" "k" ..; Waiter 0 _ "b" "k" ..] the hand-off on "a" emits
    [OWaiter 0 _ (RLock true "k" None)], which also matches the second call, parked on "b".
    Every quiescent state has distinct ids ([inv_waiter_ids]); with that the statement holds. *)

Definition T_C03_fifo' : Prop := ∀ cfg name s s' o w,
  NoDup (map w_id (st_waiters s)) →
  hand_off cfg name s = (s', o) → OWaiter (w_id w) (st_now s) (RLock true (w_key w) None) ∈ o → w ∈ st_waiters s →
  ∃ pre post, st_waiters s = pre ++ w :: post ∧ (∀ w', w' ∈ pre → w_name w' ≠ name) ∧ w_name w = name.

Lemma C03_fifo' : T_C03_fifo'.
Proof.
  intros cfg name s s' o w Hnd H Ho Hw.
  apply hand_off_spec in H as [[-> ->]|(ob & w0 & Hl & Hh & Hlt & -> & ->)]; [by apply elem_of_nil in Ho|].
  apply elem_of_list_singleton in Ho. injection Ho as Hid Hk.
  assert (w = w0) as ->.
  { eapply (NoDup_fmap_eq w_id); eauto. by apply head_Some_elem_of, elem_of_list_filter in Hh as [_ ?]. }
  unfold name_waiters in Hh. apply head_filter_split in Hh as (pre & post & E & Hpre & Hn). eauto.
Qed.

Lemma C03_fifo_inv : ∀ cfg name s s' o w, Inv cfg s →
  hand_off cfg name s = (s', o) → OWaiter (w_id w) (st_now s) (RLock true (w_key w) None) ∈ o → w ∈ st_waiters s →
  ∃ pre post, st_waiters s = pre ++ w :: post ∧ (∀ w', w' ∈ pre → w_name w' ≠ name) ∧ w_name w = name.
Proof. intros cfg name s s' o w HI. apply C03_fifo'. by destruct HI. Qed.

Lemma C03_fifo_refuted : ¬ T_C03_fifo.
Proof.
  intros H.
  pose (wa := Waiter 0 [] [x61] [x6b] 1 None None). pose (wb := Waiter 0 [] [x62] [x6b] 1 None None).
  pose (s := SState {[ [x61] := LockObj 1 [] 0 ]} ∅ ∅ [wa; wb] None 0 1 false []).
  destruct (H (Config false false 1 0 0) [x61] s _ _ wb eq_refl) as (pre & post & _ & _ & E).
  - vm_compute. left.
  - right; left.
  - discriminate E.
Qed.

(** ** finish_advance *)

Section fin.
  Context (cfg : config) (t : Z) (s : sstate).
  Lemma fin_sessions : st_sessions (finish_advance cfg t s) = st_sessions s.
  Proof. unfold finish_advance; cbn. apply gc_sessions. Qed.
  Lemma fin_timers : st_timers (finish_advance cfg t s) = st_timers s.
  Proof. unfold finish_advance; cbn. apply gc_timers. Qed.
  Lemma fin_waiters : st_waiters (finish_advance cfg t s) = st_waiters s.
  Proof. unfold finish_advance; cbn. apply gc_waiters. Qed.
  Lemma fin_file : st_file (finish_advance cfg t s) = st_file s.
  Proof. unfold finish_advance; cbn. apply gc_file. Qed.
  Lemma fin_now : st_now (finish_advance cfg t s) = Z.max (st_now s) t.
  Proof. done. Qed.
  Lemma fin_locks : st_locks (finish_advance cfg t s) = st_locks (run_gc_until cfg t s).
  Proof. done. Qed.
  Lemma fin_live n k : live (finish_advance cfg t s) n k ↔ live s n k.
  Proof. unfold live. rewrite fin_locks. split; [apply gc_live_inv|apply gc_live]. Qed.
End fin.

(** ** C10: restart without a state file *)

Lemma C10_nofile : T_C10_nofile.
Proof.
  intros cfg s order s' o _ Hf H. simpl in H. unfold restart in H. rewrite Hf in H.
  assert (reload_order order (∅ : gmap str (list clock)) = []) as Hro.
  { unfold reload_order. rewrite map_to_list_empty. cbn. case_bool_decide as Hp; [|done]. by apply Permutation_nil_r in Hp. }
  rewrite Hro in H. cbn [fold_left] in H.
  eapply (advance_loop_inv cfg _ (λ s _, st_locks s = ∅ ∧ st_sessions s = ∅ ∧ st_timers s = ∅ ∧ st_waiters s = []))
    in H as (sf & (Hl & Hs & Ht & Hw) & _ & ->).
  - rewrite fin_sessions, fin_timers, fin_waiters, fin_locks. split_and!; try done.
    apply map_empty. intros n. destruct (st_locks (run_gc_until _ _ _) !! n) eqn:E; [|done].
    apply gc_locks_sub in E. by rewrite Hl in E.
  - intros s1 outs d s2 o1 (Hl & Hs & Ht & Hw) (Hd & _)%next_due_elem _. exfalso.
    apply all_items_spec in Hd as [(tk & t & _ & E)|(w & _ & E & _)]; [by rewrite Ht in E|by rewrite Hw, elem_of_nil in E].
  - apply advance_fuel_measure.
  - done.
Qed.

(** ** C06 with NoClearOnDisconnect *)

Lemma save_locks cfg s : st_locks (save cfg s) = st_locks s.
Proof. unfold save; by destruct (c_file cfg). Qed.
Lemma save_timers cfg s : st_timers (save cfg s) = st_timers s.
Proof. unfold save; by destruct (c_file cfg). Qed.
Lemma save_sessions cfg s : st_sessions (save cfg s) = st_sessions s.
Proof. unfold save; by destruct (c_file cfg). Qed.
Lemma save_waiters cfg s : st_waiters (save cfg s) = st_waiters s.
Proof. unfold save; by destruct (c_file cfg). Qed.
Lemma save_now cfg s : st_now (save cfg s) = st_now s.
Proof. unfold save; by destruct (c_file cfg). Qed.

Lemma hold_same_of s s' n k :
  st_locks s' = st_locks s → st_timers s' = st_timers s →
  (∀ sid c, listed s sid c ↔ listed s' sid c) → hold_same s s' n k.
Proof. intros Hl Ht Hs. unfold hold_same, live. rewrite Hl, Ht. split_and!; [done|done|intros; apply Hs]. Qed.

Lemma C06_noclear : T_C06_noclear.
Proof.
  intros cfg s sid s' o HI Hnc H. simpl in H. apply det_elem' in H. unfold disconnect in H.
  destruct (cancel_waiters_spec (λ w, bool_decide (w_sid w = sid)) ECtxCanceled s) as (ws' & E & Hws).
  rewrite E in H. clear E.
  destruct (destroy_session _ _ _) as [s2 o2] eqn:Hd. injection H as -> _.
  unfold destroy_session in Hd. rewrite Hnc in Hd. cbn in Hd.
  assert ((s2 = s <| st_waiters := ws' |>) ∨
          (st_sessions s !! sid = Some [] ∧ s2 = save cfg (s <| st_waiters := ws' |> <| st_sessions := delete sid (st_sessions s) |>)))
    as [->| [Hsid ->]].
  { destruct (st_shut s); [injection Hd as <- _; by left|].
    destruct (st_sessions s !! sid) as [l|] eqn:Hl; [|injection Hd as <- _; by left].
    case_bool_decide; cbn in Hd; injection Hd as <- _; [subst; by right|by left]. }
  - cbn. split_and!; try done; intros; by apply hold_same_of.
  - assert (∀ sid' c, listed s sid' c ↔ listed (save cfg (s <| st_waiters := ws' |> <| st_sessions := delete sid (st_sessions s) |>)) sid' c) as Hls.
    { intros sid' c. unfold listed. rewrite save_sessions. cbn.
      destruct (decide (sid' = sid)) as [->|Hne]; [rewrite lookup_delete, Hsid|by rewrite lookup_delete_ne].
      split; [intros (l & [= <-] & ?%elem_of_nil); done|intros (l & ? & _); done]. }
    rewrite save_locks, save_timers. cbn. split_and!; try done.
    + intros c Hc. by apply Hls.
    + intros sid2 c Hc. apply hold_same_of; [by rewrite save_locks|by rewrite save_timers|apply Hls].
Qed.
