(** Work package svinv, part 6: the session / state-file fields of the invariant are preserved by every step. *)
From Coq Require Import Lia ZifyBool ZifyNat.
From Ldlm Require Import Model.Base Model.Err Model.Sv Proofs.SeqLemmasKey.
From Ldlm Require Import Proofs.SvDefs Proofs.SvInvBase Proofs.SvInvFrame Proofs.SvInvKeys.
From RecordUpdate Require Import RecordSet.
Import RecordSetNotations.
Local Open Scope Z_scope.

(** ** entries of the session table under its three updates *)
Definition entry_m (m : gmap str (list clock)) (sid : str) (c : clock) : Prop := ∃ l, m !! sid = Some l ∧ c ∈ l.

Lemma entry_m_add m sid c sid' c' :
  entry_m (<[sid := default [] (m !! sid) ++ [c]]> m) sid' c' ↔ entry_m m sid' c' ∨ (sid' = sid ∧ c' = c).
Proof.
  unfold entry_m. split.
  - intros (l & Hl & Hc). apply lookup_insert_Some in Hl as [[<- <-]|[Hne Hl]]; [|left; eauto].
    apply elem_of_app in Hc as [Hc|Hc%elem_of_list_singleton]; [|by right].
    left. destruct (m !! sid) as [l|] eqn:Hm; simpl in *; [eauto|by apply elem_of_nil in Hc].
  - intros [(l & Hl & Hc)|[-> ->]].
    + destruct (decide (sid' = sid)) as [->|]; [|exists l; by rewrite lookup_insert_ne].
      rewrite lookup_insert, Hl. simpl. eexists; split; [done|]. apply elem_of_app; by left.
    + rewrite lookup_insert. eexists; split; [done|]. apply elem_of_app; right. by apply elem_of_list_singleton.
Qed.
Lemma entry_m_rm m n k sid c : entry_m (sess_rm n k m) sid c ↔ entry_m m sid c ∧ is_hold n k c = false.
Proof.
  unfold entry_m, sess_rm. split.
  - intros (l & Hl & Hc). rewrite lookup_fmap in Hl. apply fmap_Some in Hl as (l0 & Hl & ->).
    apply elem_of_list_filter in Hc as [? ?]. eauto.
  - intros [(l & Hl & Hc) Hh]. rewrite lookup_fmap, Hl. simpl. eexists; split; [done|]. by apply elem_of_list_filter.
Qed.
Lemma entry_m_delete m sid0 sid c : entry_m (delete sid0 m) sid c ↔ entry_m m sid c ∧ sid ≠ sid0.
Proof.
  unfold entry_m. split.
  - intros (l & Hl & Hc). apply lookup_delete_Some in Hl as [? Hl]. eauto.
  - intros [(l & Hl & Hc) Hne]. exists l. by rewrite lookup_delete_ne.
Qed.
Lemma entry_m_empty m sid0 sid c : m !! sid0 = None → entry_m (<[sid0 := []]> m) sid c ↔ entry_m m sid c.
Proof.
  intros Hn. unfold entry_m. split.
  - intros (l & Hl & Hc). apply lookup_insert_Some in Hl as [[<- <-]|[? Hl]]; [by apply elem_of_nil in Hc|eauto].
  - intros (l & Hl & Hc). exists l. rewrite lookup_insert_ne by congruence. done.
Qed.
Lemma sess_has_false m n k : sess_has n k m = false → ∀ sid c, entry_m m sid c → is_hold n k c = false.
Proof.
  intros Hh sid c (l & Hl & Hc). unfold sess_has in Hh. apply elem_of_map_to_list in Hl.
  apply (existsb_false _ _ Hh) in Hl. simpl in Hl. by apply (existsb_false _ _ Hl).
Qed.

(** an entry of the new state was there before, or was just added by its acquiring call *)
Lemma vsr_entry_bwd cfg s it s' sid c : vsr cfg s it s' → entry_of s' sid c →
  entry_of s sid c ∨
  (∃ tid t n k z lt pc', it = VRun tid ∧ v_thr s !! tid = Some t ∧ acq_op t sid n k z lt ∧ st_pc t = VSessAdd ∧ c = Clock n k z ∧
      (pc' = VTmAdd ∨ pc' = VFin (SResp true None)) ∧ v_thr s' !! tid = Some (with_pc t pc') ∧ v_locks s' = v_locks s).
Proof.
  change (entry_of s' sid c) with (entry_m (v_sess s') sid c). change (entry_of s sid c) with (entry_m (v_sess s) sid c).
  destruct 1; unfold st_go; simpl; auto.
  - rewrite entry_m_empty by done. auto.
  - rewrite entry_m_add. intros [?|[-> ->]]; [by left|]. right. exists tid, t, n, k, z, lt, pc'. rewrite lookup_insert.
    repeat split; try done. subst pc'. destruct (lt_pos lt); auto.
  - rewrite entry_m_rm. tauto.
  - rewrite entry_m_delete. tauto.
Qed.

(** an entry disappears only by RemoveLock of its hold or by the destruction of its session *)
Lemma vsr_entry_fwd cfg s it s' sid c : vsr cfg s it s' → entry_of s sid c →
  entry_of s' sid c ∨
  (∃ tid t n k pc', it = VRun tid ∧ v_thr s !! tid = Some t ∧ sessrm_site s t n k pc' ∧ is_hold n k c = true) ∨
  (∃ tid t, it = VRun tid ∧ v_thr s !! tid = Some t ∧ st_op t = SConnEnd sid ∧ st_pc t = VDsDestroy).
Proof.
  change (entry_of s' sid c) with (entry_m (v_sess s') sid c). change (entry_of s sid c) with (entry_m (v_sess s) sid c).
  destruct 1; unfold st_go; simpl; auto.
  - rewrite entry_m_empty by done. auto.
  - rewrite entry_m_add. auto.
  - rewrite entry_m_rm. intros He. destruct (is_hold n k c) eqn:Hh; [right; left; eauto 10|auto].
  - rewrite entry_m_delete. intros He. destruct (decide (sid = sid0)) as [->|]; [|auto].
    destruct Hpc as [Hpc|[Hpc ->]]; [right; right; exists tid, t; done|].
    destruct He as (l' & Hl' & Hc'). rewrite Hl in Hl'. simplify_eq. by apply elem_of_nil in Hc'.
Qed.

Lemma step_vi_entry_owner cfg s it s' (I : SvInv cfg s) (Hok : sitem_ok s it) (Hv : vsr cfg s it s') :
  ∀ sid c, entry_of s' sid c → ∃ tid t, v_thr s' !! tid = Some t ∧ acquirer t sid (cl_name c) (cl_key c) (cl_size c) ∧
      (st_pc t = VTmAdd ∨ ∃ r, st_pc t = VFin r).
Proof.
  intros sid c He. pose proof (vsr_thr_fwd _ _ _ _ I Hv) as Hf.
  destruct (vsr_entry_bwd _ _ _ _ _ _ Hv He) as [He0|(tid & t & n & k & z & lt & pc' & _ & Ht & Hop & Hpc & -> & Hpc' & Ht' & _)].
  - destruct (vi_entry_owner _ _ I _ _ He0) as (x & tx & Hx & Hax & Hpx).
    destruct (past_add_fwd _ _ _ _ _ _ _ _ Hf Hx Hax Hpx) as (t' & ? & ? & ? & _). eauto.
  - exists tid, (with_pc t pc'). split; [done|]. split; [by eapply acq_op_acquirer|]. simpl. destruct Hpc' as [->| ->]; eauto.
Qed.

Lemma step_vi_entry_nodup cfg s it s' (I : SvInv cfg s) (Hok : sitem_ok s it) (Hv : vsr cfg s it s') :
  ∀ sid l, v_sess s' !! sid = Some l → NoDup l.
Proof.
  pose proof (vi_entry_nodup _ _ I) as Hc.
  destruct Hv; unfold st_go; simpl; intros sid0 l0 Ql; try (by eapply Hc).
  - apply lookup_insert_Some in Ql as [[<- <-]|[? Ql]]; [constructor|by eapply Hc].
  - apply lookup_insert_Some in Ql as [[<- <-]|[? Ql]]; [|by eapply Hc].
    apply NoDup_app. split; [destruct (v_sess s !! sid) eqn:Hs; simpl; [by eapply Hc|constructor]|]. split; [|apply NoDup_singleton].
    intros c Hc1 ->%elem_of_list_singleton.
    assert (entry_of s sid (Clock n k z)) as He.
    { destruct (v_sess s !! sid) as [l|] eqn:Hs; simpl in Hc1; [by exists l|by apply elem_of_nil in Hc1]. }
    destruct (vi_entry_owner _ _ I _ _ He) as (x & tx & Hx & Hax & Hpx). simpl in Hax.
    destruct (acq_unique _ _ _ _ _ _ _ _ _ _ _ _ _ I Hx Ht Hax (acq_op_acquirer _ _ _ _ _ _ Hop)) as (-> & -> & _).
    rewrite Hpc in Hpx. naive_solver.
  - unfold sess_rm in Ql. rewrite lookup_fmap in Ql. apply fmap_Some in Ql as (l & Ql & ->). apply NoDup_filter. by eapply Hc.
  - apply lookup_delete_Some in Ql as [_ Ql]. by eapply Hc.
Qed.

Lemma step_vi_nofile cfg s it s' (I : SvInv cfg s) (Hok : sitem_ok s it) (Hv : vsr cfg s it s') :
  sc_file cfg = false → v_file s' = None.
Proof.
  intros Hf. pose proof (vi_nofile _ _ I Hf) as Hc.
  destruct Hv; unfold st_go; simpl; rewrite ?Hf, ?andb_false_r; done.
Qed.

Lemma step_vi_file cfg s it s' (I : SvInv cfg s) (Hok : sitem_ok s it) (Hv : vsr cfg s it s') :
  sc_file cfg = true → ∀ sid c, (∃ m l, v_file s' = Some m ∧ m !! sid = Some l ∧ c ∈ l) ↔ entry_of s' sid c.
Proof.
  intros Hf sid0 c0. pose proof (vi_file _ _ I Hf sid0 c0) as Hc.
  change (entry_of s' sid0 c0) with (entry_m (v_sess s') sid0 c0). change (entry_of s sid0 c0) with (entry_m (v_sess s) sid0 c0) in Hc.
  assert (∀ m, (∃ m0 l, Some m = Some m0 ∧ m0 !! sid0 = Some l ∧ c0 ∈ l) ↔ entry_m m sid0 c0) as Hsome.
  { intros m. unfold entry_m. split; [intros (m0 & l & ? & ? & ?); simplify_eq; eauto|intros (l & ? & ?); eauto]. }
  destruct Hv; unfold st_go; simpl; rewrite ?Hf, ?andb_true_r; try done.
  - by rewrite entry_m_empty.
  - destruct (sess_has n k (v_sess s)) eqn:Hh; [done|]. rewrite entry_m_rm, Hc. split; [|tauto].
    intros He. split; [done|]. by eapply sess_has_false.
Qed.

Lemma slive_dec s n k : {slive s n k} + {¬ slive s n k}.
Proof.
  unfold slive. destruct (v_locks s !! n) as [a|] eqn:Ha.
  - destruct (decide (k ∈ al_live a)); [left; eauto|right; intros (a' & ? & ?); by simplify_eq].
  - right. intros (a' & ? & ?). simplify_eq.
Qed.

(** the witness of [vi_zombie]: a call that is about to remove the entries of hold (n,k) *)
Definition zw (s : svstate) (n k : str) : Prop := ∃ tid t pc', v_thr s !! tid = Some t ∧ sessrm_site s t n k pc'.

Lemma zw_iff s c :
  zw s (cl_name c) (cl_key c) ↔
  ∃ tid t, v_thr s !! tid = Some t ∧
    ((st_op t = SUnlock (cl_name c) (cl_key c) ∧ st_pc t = VSessRemove) ∨
     (∃ id tm, st_op t = SExpire id ∧ v_theap s !! id = Some tm ∧ tm_n tm = cl_name c ∧ tm_k tm = cl_key c ∧ st_pc t = VCbSessRemove)).
Proof.
  split.
  - intros (tid & t & pc' & Ht & Hs). exists tid, t. split; [done|]. destruct Hs; [left; done|right; eauto 10].
  - intros (tid & t & Ht & [[? ?]|(id & tm & ? & ? & ? & ? & ?)]); exists tid, t; eexists; (split; [done|]); [by apply sr_unlock|by eapply sr_expire].
Qed.

Lemma step_vi_zombie cfg s it s' (I : SvInv cfg s) (Hok : sitem_ok s it) (Hv : vsr cfg s it s') :
  ∀ sid c, entry_of s' sid c → ¬ slive s' (cl_name c) (cl_key c) → zw s' (cl_name c) (cl_key c).
Proof.
  intros sid c He Hnl.
  destruct (vsr_entry_bwd _ _ _ _ _ _ Hv He) as [He0|(tid & t & n & k & z & lt & pc' & _ & Ht & Hop & Hpc & -> & Hpc' & Ht' & Hl)].
  2:{ exfalso. apply Hnl. simpl. destruct (vi_granted_live _ _ I _ _ _ _ _ _ Ht (acq_op_acquirer _ _ _ _ _ _ Hop)) as (a & Ha & Hk); [auto|].
      exists a. by rewrite Hl. }
  destruct (slive_dec s (cl_name c) (cl_key c)) as [Hlv|Hnl0].
  - (* the hold is released by this step *)
    destruct (vsr_live_fwd _ _ _ _ _ _ Hv Hlv) as [?|(x & tx & pc' & -> & Hx & Hsite & Hx' & Hh & Hs & _)]; [done|].
    destruct (vi_entry_owner _ _ I _ _ He0) as (y & ty & Hy & Hay & Hpy).
    exists x, (with_pc tx pc'). destruct Hsite as [Hox Hpx _|id' tm'' Hox Hpx Hh' En' Ek' _|sidx c' rest Hox Hpx En' Ek' _|sidx zx ltx e Hox Hpx Hcx].
    + exists (VFin (SResp true None)). split; [done|]. by apply sr_unlock.
    + exists VCbTmRemove. split; [done|]. eapply sr_expire; eauto. by rewrite Hh.
    + exfalso. destruct (vi_ds_todo _ _ I _ _ _ c' Hx Hox) as [_ Hno]; [rewrite Hpx; simpl; by left|].
      apply (Hno _ _ He0). congruence.
    + exfalso. assert (acquirer tx sidx (cl_name c) (cl_key c) zx) as Hax by (exists ltx; by right).
      destruct (acq_unique _ _ _ _ _ _ _ _ _ _ _ _ _ I Hy Hx Hay Hax) as (-> & -> & _). rewrite Hpx in Hpy. naive_solver.
  - pose proof (vi_zombie _ _ I _ _ He0 Hnl0) as Hz. apply zw_iff in Hz as (x & tx & pc' & Hx & Hsite).
    destruct (vsr_thr_pc_fwd _ _ _ _ _ _ I Hv Hx) as (tx' & Hx' & Ho' & Hp').
    assert (st_pc tx' = st_pc tx → zw s' (cl_name c) (cl_key c)) as Hsame.
    { intros Hpp. exists x, tx'. destruct Hsite as [Hox Hpx|id tm Hox Hpx Hh En Ek].
      - exists (VFin (SResp true None)). split; [done|]. apply sr_unlock; congruence.
      - destruct (vsr_heap_fwd _ _ _ _ _ _ I Hv Hh) as (tm' & Hh' & (En' & Ek' & _) & _).
        exists VCbTmRemove. split; [done|]. eapply sr_expire; eauto; congruence. }
    destruct Hp' as [?|[->|[Hw _]]]; [auto| |destruct Hsite; congruence].
    inversion Hv; subst; simplify_eq; try (by apply Hsame); try (exfalso; destruct Hsite; try site_inv; congruence).
    1-3: exfalso; destruct Hsite; destruct Hpc; congruence.
    exfalso. assert (n = cl_name c ∧ k = cl_key c) as [-> ->].
    { destruct Hsite, Hsite0; split; congruence. }
    change (entry_m (sess_rm (cl_name c) (cl_key c) (v_sess s)) sid c) in He. apply entry_m_rm in He as [_ He].
    unfold is_hold in He. rewrite !bool_decide_eq_true_2 in He by done. done.
Qed.
