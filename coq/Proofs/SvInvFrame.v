(** Work package svinv, part 2: what every step preserves (threads persist with their operation, finished threads are
    frozen, flags are monotone, timers keep their identity, ...). *)
From Coq Require Import Lia ZifyBool ZifyNat.
From Ldlm Require Import Model.Base Model.Err Model.Sv Proofs.SeqLemmasKey.
From Ldlm Require Import Proofs.SvDefs Proofs.SvInvBase.
From RecordUpdate Require Import RecordSet.
Import RecordSetNotations.
Local Open Scope Z_scope.

(** ** threads, forward *)
Definition thr_fwd_m (m m' : gmap nat sthread) : Prop := ∀ tid t, m !! tid = Some t →
  ∃ t', m' !! tid = Some t' ∧ st_op t' = st_op t ∧ (∀ e, st_cancel t = Some e → st_cancel t' = Some e) ∧
        (is_fin (st_pc t) = true → t' = t) ∧ (st_pc t = VTmAdd → st_pc t' = VTmAdd ∨ ∃ r, st_pc t' = VFin r).
Definition thr_fwd (s s' : svstate) : Prop := thr_fwd_m (v_thr s) (v_thr s').

Lemma thr_fwd_m_refl m : thr_fwd_m m m.
Proof. intros tid t H. exists t. naive_solver. Qed.
Lemma thr_fwd_m_trans m1 m2 m3 : thr_fwd_m m1 m2 → thr_fwd_m m2 m3 → thr_fwd_m m1 m3.
Proof.
  intros H1 H2 tid t H. destruct (H1 _ _ H) as (t' & H' & Ho & Hc & Hf & Hp).
  destruct (H2 _ _ H') as (t'' & H'' & Ho' & Hc' & Hf' & Hp'). exists t''. split; [done|].
  split; [congruence|]. split; [naive_solver|]. split.
  - intros Hfin. specialize (Hf Hfin). subst t'. auto.
  - intros Hpc. destruct (Hp Hpc) as [Hq|[r Hq]]; [auto|]. right. exists r. rewrite Hf'; [done|]. by rewrite Hq.
Qed.

Definition runpc_ok (pc pc' : spc) : Prop := is_fin pc = false ∧ (pc = VTmAdd → ∃ r, pc' = VFin r).

Lemma thr_fwd_m_upd m tid t pc' : m !! tid = Some t → runpc_ok (st_pc t) pc' → thr_fwd_m m (<[tid := with_pc t pc']> m).
Proof.
  intros Ht [Hnf Hadd] tid0 t0 H0. destruct (decide (tid0 = tid)) as [->|Hne].
  - simplify_eq. rewrite lookup_insert. eexists; split; [done|]. simpl. split; [done|]. split; [done|].
    split; [congruence|]. intros Hp. right. destruct (Hadd Hp) as [r ->]. eauto.
  - rewrite lookup_insert_ne by done. exists t0. naive_solver.
Qed.
Lemma thr_fwd_m_new m tid t : m !! tid = None → thr_fwd_m m (<[tid := t]> m).
Proof. intros Hn tid0 t0 H0. rewrite lookup_insert_ne by congruence. exists t0. naive_solver. Qed.
Lemma thr_fwd_m_cancel m (f : sthread → sthread) :
  (∀ t, st_op (f t) = st_op t ∧ st_pc (f t) = st_pc t ∧ (∀ e, st_cancel t = Some e → st_cancel (f t) = Some e) ∧ (is_fin (st_pc t) = true → f t = t)) →
  thr_fwd_m m (f <$> m).
Proof.
  intros Hf tid t H. rewrite lookup_fmap, H. simpl. eexists; split; [done|]. destruct (Hf t) as (? & Hp & ? & ?).
  repeat split; auto. rewrite Hp. auto.
Qed.

Lemma shnet_cancel_ok t :
  st_op (shnet_cancel t) = st_op t ∧ st_pc (shnet_cancel t) = st_pc t ∧ (∀ e, st_cancel t = Some e → st_cancel (shnet_cancel t) = Some e) ∧
  (is_fin (st_pc t) = true → shnet_cancel t = t).
Proof.
  unfold shnet_cancel. destruct (st_op t) eqn:Ho; destruct (st_cancel t) eqn:Hc; destruct (is_fin (st_pc t)) eqn:Hf; simpl;
    repeat split; auto; try congruence; intros; try congruence.
Qed.
Lemma connend_cancel_ok sid t :
  st_op (connend_cancel sid t) = st_op t ∧ st_pc (connend_cancel sid t) = st_pc t ∧
  (∀ e, st_cancel t = Some e → st_cancel (connend_cancel sid t) = Some e) ∧ (is_fin (st_pc t) = true → connend_cancel sid t = t).
Proof.
  unfold connend_cancel. case_bool_decide; simpl; [|naive_solver]. case_bool_decide as Hc; simpl; [|naive_solver].
  destruct (is_fin (st_pc t)); simpl; [naive_solver|]. rewrite Hc. naive_solver.
Qed.

(** the running thread of every kind of step is not finished, and from VTmAdd it finishes *)
Lemma rel_site_run s t n k pc' : rel_site s t n k pc' → runpc_ok (st_pc t) pc'.
Proof. destruct 1; match goal with H : st_pc _ = _ |- _ => rewrite H end; repeat split; done. Qed.
Lemma relfail_site_run s t n k pc' : relfail_site s t n k pc' → runpc_ok (st_pc t) pc'.
Proof. destruct 1; match goal with H : st_pc _ = _ |- _ => rewrite H end; repeat split; done. Qed.
Lemma tmrm_site_run s t tk pc1 pc2 : tmrm_site s t tk pc1 pc2 → runpc_ok (st_pc t) pc1 ∧ runpc_ok (st_pc t) pc2.
Proof. destruct 1; match goal with H : st_pc _ = _ |- _ => rewrite H end; repeat split; done. Qed.
Lemma sessrm_site_run s t n k pc' : sessrm_site s t n k pc' → runpc_ok (st_pc t) pc'.
Proof. destruct 1; match goal with H : st_pc _ = _ |- _ => rewrite H end; repeat split; done. Qed.
Lemma ds_move_run cfg s t sid pc' : ds_move cfg s t sid pc' → runpc_ok (st_pc t) pc'.
Proof. destruct 1; match goal with H : st_pc _ = _ |- _ => rewrite H end; repeat split; done. Qed.

Lemma runpc_ok_first t pc' : st_pc t = VMgrTry ∨ st_pc t = VMgrLock → runpc_ok (st_pc t) pc'.
Proof. intros [->| ->]; split; done. Qed.

#[global] Hint Resolve thr_fwd_m_refl : thr.

Lemma next_fresh cfg s : SvInv cfg s → v_thr s !! v_next s = None.
Proof.
  intros I. destruct (v_thr s !! v_next s) as [t|] eqn:H; [|done]. apply (vi_sys _ _ I) in H as [H _]. lia.
Qed.

Lemma vsr_thr_fwd cfg s it s' : SvInv cfg s → vsr cfg s it s' → thr_fwd s s'.
Proof.
  intros I. pose proof (next_fresh _ _ I) as Hnx.
  destruct 1; unfold thr_fwd, st_go; simpl.
  all: try apply thr_fwd_m_refl.
  all: try (apply thr_fwd_m_new; done).
  all: try (apply thr_fwd_m_upd; [done|]).
  all: try (by apply runpc_ok_first).
  all: try (eapply rel_site_run; eassumption).
  all: try (eapply relfail_site_run; eassumption).
  all: try (eapply sessrm_site_run; eassumption).
  all: try (eapply ds_move_run; eassumption).
  all: try (eapply proj1, tmrm_site_run; eassumption).
  all: try (eapply proj2, tmrm_site_run; eassumption).
  all: try (rewrite Hpc; split; [done|]; (done || eauto)).
  all: try (destruct Hpc as [Hpc|[Hpc _]]; rewrite Hpc; split; done).
  - (* cancel *)
    intros tid0 t0 H0. destruct (decide (tid0 = tid)) as [->|Hne].
    + simplify_eq. rewrite lookup_insert. eexists; split; [done|]. simpl. rewrite Hn, Hf. naive_solver.
    + rewrite lookup_insert_ne by done. exists t0. naive_solver.
  - (* connend *)
    eapply thr_fwd_m_trans; [apply thr_fwd_m_cancel, connend_cancel_ok|].
    apply thr_fwd_m_new. by rewrite lookup_fmap, Hnx.
  - (* hand-over *)
    eapply thr_fwd_m_trans; [apply (thr_fwd_m_upd _ w tw VWoken); [done|rewrite Hwpc; split; done]|].
    apply thr_fwd_m_upd; [by rewrite lookup_insert_ne|]. eapply rel_site_run; eassumption.
  - apply thr_fwd_m_cancel, shnet_cancel_ok.
Qed.

(** ** tactics for lookups in updated thread maps *)
Ltac lk1 :=
  match goal with
  | H : <[?i := ?x]> ?m !! ?j = Some ?y |- _ =>
      apply lookup_insert_Some in H; destruct H as [[? ?]|[? H]]; [subst|]
  | H : (?f <$> ?m) !! ?j = Some ?y |- _ =>
      rewrite lookup_fmap in H; apply fmap_Some in H; destruct H as (? & H & ?); subst
  end.
Ltac lk := repeat lk1.

Ltac site_inv :=
  match goal with
  | H : rel_site _ _ _ _ _ |- _ => destruct H
  | H : relfail_site _ _ _ _ _ |- _ => destruct H
  | H : tmrm_site _ _ _ _ _ |- _ => destruct H
  | H : sessrm_site _ _ _ _ _ |- _ => destruct H
  | H : ds_move _ _ _ _ _ |- _ => destruct H
  end.
(** side conditions about the pc of the running thread *)
Ltac ds_next_cases :=
  repeat match goal with
         | |- context [ds_next ?l] => destruct l; simpl
         | H : context [ds_next ?l] |- _ => destruct l; simpl in H
         end.
Ltac pcs := try done; try site_inv; subst; try (destruct (sc_noclear _)); try (destruct (lt_pos _)); ds_next_cases; try congruence;
            try match goal with H : _ ∨ _ |- _ => destruct H; congruence end.

Section fields.
Context (cfg : svcfg) (s : svstate) (it : sitem) (s' : svstate).
Context (I : SvInv cfg s) (Hok : sitem_ok s it) (Hv : vsr cfg s it s').

Lemma step_vi_not_crashed : v_crashed s' = false.
Proof. destruct Hv; simpl; apply (vi_not_crashed _ _ I). Qed.

Lemma step_vi_next : (sys_base ≤ v_next s')%nat.
Proof. pose proof (vi_next _ _ I). destruct Hv; simpl; lia. Qed.

Lemma step_vi_sys : ∀ tid t, v_thr s' !! tid = Some t → (tid < v_next s')%nat ∧ (client_op (st_op t) = true ↔ (tid < sys_base)%nat).
Proof.
  pose proof (vi_next _ _ I) as Hn. pose proof (vi_sys _ _ I) as Hs.
  destruct Hv; simpl; intros ?? Ql; lk; simpl; try (by apply Hs).
  all: try (split; [lia|]; split; [done|lia]).
  all: try (destruct (Hs _ _ Ql); split; [lia|done]).
  all: try (destruct (Hs _ _ Ht); split; [lia|done]).
  - destruct (Hs _ _ Ql) as [? <-]. split; [lia|]. by destruct (connend_cancel_ok sid x) as [-> _].
  - destruct (Hs _ _ Ql) as [? <-]. split; [lia|]. by destruct (shnet_cancel_ok x) as [-> _].
Qed.
End fields.

(** ** lists *)
Lemma elem_of_remove_first k0 k l : k0 ∈ remove_first k l → k0 ∈ l.
Proof.
  induction l as [|x l IH]; simpl; [done|]. case_bool_decide; [by right|].
  intros [->|?]%elem_of_cons; [left|right; auto].
Qed.
Lemma elem_of_remove_first_ne k0 k l : k0 ≠ k → k0 ∈ l → k0 ∈ remove_first k l.
Proof.
  intros Hne. induction l as [|x l IH]; simpl; [done|]. case_bool_decide as Hx.
  - intros [->|?]%elem_of_cons; [congruence|done].
  - intros [->|?]%elem_of_cons; [left|right; auto].
Qed.
Lemma remove_first_NoDup k l : NoDup l → NoDup (remove_first k l) ∧ k ∉ remove_first k l.
Proof.
  induction 1 as [|x l Hx Hnd IH]; simpl; [split; [constructor|apply not_elem_of_nil]|].
  case_bool_decide as Hk; [subst; done|]. destruct IH as [IH1 IH2]. split.
  - constructor; [|done]. intros ?%elem_of_remove_first. done.
  - intros [?|?]%elem_of_cons; congruence.
Qed.

(** ** the trace *)
Lemma vsr_trace_fwd cfg s it s' e : vsr cfg s it s' → ev_in e s → ev_in e s'.
Proof.
  unfold ev_in. destruct 1; unfold st_go; simpl; intros H; auto; rewrite ?elem_of_app, ?elem_of_cons; auto 6.
Qed.

Definition loud_for (it : sitem) (e : sev) : Prop :=
  match e with SvConnect sid => it = VConnect sid | SvConnEnd sid => it = VConnEnd sid | SvSignal => it = VSignal | _ => False end.

Lemma elem_of_fin_evs e tid pc : e ∈ fin_evs tid pc → quiet e.
Proof. intros H. eapply (proj1 (Forall_forall _ _) (fin_evs_quiet tid pc)); eauto. Qed.

Lemma vsr_trace_bwd cfg s it s' e : vsr cfg s it s' → ev_in e s' → ev_in e s ∨ quiet e ∨ loud_for it e.
Proof.
  unfold ev_in. destruct 1; unfold st_go; simpl; auto.
  all: intros H; repeat first [ apply elem_of_app in H as [H|H] | apply elem_of_cons in H as [->|H] ]; simpl; eauto using elem_of_fin_evs.
Qed.

Lemma vsr_connend_bwd cfg s it s' sid : vsr cfg s it s' → ev_in (SvConnEnd sid) s' → ev_in (SvConnEnd sid) s ∨ it = VConnEnd sid.
Proof. intros Hv H. destruct (vsr_trace_bwd _ _ _ _ _ Hv H) as [?|[[]|?]]; auto. Qed.
Lemma vsr_connect_bwd cfg s it s' sid : vsr cfg s it s' → ev_in (SvConnect sid) s' → ev_in (SvConnect sid) s ∨ it = VConnect sid.
Proof. intros Hv H. destruct (vsr_trace_bwd _ _ _ _ _ Hv H) as [?|[[]|?]]; auto. Qed.
Lemma vsr_signal_bwd cfg s it s' : vsr cfg s it s' → ev_in SvSignal s' → ev_in SvSignal s ∨ it = VSignal.
Proof. intros Hv H. destruct (vsr_trace_bwd _ _ _ _ _ Hv H) as [?|[[]|?]]; auto. Qed.

(** ** flags *)
Lemma vsr_mgrshut_mono cfg s it s' : vsr cfg s it s' → v_mgrshut s' = false → v_mgrshut s = false.
Proof. destruct 1; simpl; auto; done. Qed.
Lemma vsr_shut_mono cfg s it s' : vsr cfg s it s' → v_shut s = true → v_shut s' = true.
Proof. destruct 1; simpl; auto. Qed.

(** ** timers keep their identity *)
Definition tm_same (tm tm' : stimer) : Prop := tm_n tm' = tm_n tm ∧ tm_k tm' = tm_k tm ∧ tm_s tm' = tm_s tm.
Lemma vsr_heap_fwd cfg s it s' id tm : SvInv cfg s → vsr cfg s it s' → v_theap s !! id = Some tm →
  ∃ tm', v_theap s' !! id = Some tm' ∧ tm_same tm tm' ∧ (tm_st tm = TFired → tm_st tm' = TFired).
Proof.
  intros I Hv H. assert (tm_same tm tm) as Hrefl by done.
  destruct Hv; simpl; eauto.
  all: try (destruct (decide (id = id0)) as [->|]; [rewrite lookup_insert; simplify_eq; eexists; split; [done|]; split; [done|]; simpl; congruence
                                                   |rewrite lookup_insert_ne by done; eauto]).
  - (* tm_add: the new id is fresh *)
    destruct (vi_tm_heap _ _ I _ _ H) as [Hlt _]. rewrite lookup_insert_ne by lia. eauto.
  - rewrite lookup_fmap, H. simpl. eexists; split; [done|]. destruct (tm_st tm) eqn:Hst; simpl; split; try done; congruence.
Qed.

Lemma vsr_heap_bwd cfg s it s' id tm' : vsr cfg s it s' → v_theap s' !! id = Some tm' →
  (∃ tm, v_theap s !! id = Some tm ∧ tm_same tm tm' ∧
         (tm_st tm' = tm_st tm ∨ (∃ d, tm_st tm = TArmed d) ∧ (tm_st tm' = TStopped ∨ tm_st tm' = TFired ∨ ∃ d', tm_st tm' = TArmed d'))) ∨
  (∃ tid t sid n k z lt, it = VRun tid ∧ v_thr s !! tid = Some t ∧ acq_op t sid n k z lt ∧ st_pc t = VTmAdd ∧ id = v_tnext s ∧
      tm' = STimer (TArmed (v_now s + default 0 lt * second)) n k sid ∧
      v_thr s' !! tid = Some (with_pc t (VFin (SResp true None))) ∧ v_tnext s' = S (v_tnext s) ∧ v_locks s' = v_locks s).
Proof.
  assert (∀ tm, tm_same tm tm) as Hrefl by done.
  destruct 1; unfold st_go; simpl; intros H; eauto 10.
  all: try (apply lookup_insert_Some in H as [[<- <-]|[? H]]; [|by eauto 10]).
  - left. eexists; split; [done|]. split; [done|]. simpl. eauto 10.
  - right. exists tid, t, sid, n, k, z, lt. rewrite lookup_insert. done.
  - left. eexists; split; [done|]. split; [done|]. simpl. eauto 10.
  - left. eexists; split; [done|]. split; [done|]. simpl. eauto 10.
  - rewrite lookup_fmap in H. apply fmap_Some in H as (tm & H & ->). left. exists tm. split; [done|].
    destruct (tm_st tm) eqn:Hst; simpl; rewrite ?Hst; eauto 10.
    split; [done|]. right. eauto.
Qed.

(** ** finished threads are frozen; delivered grants stay delivered *)
Lemma fin_frozen s s' tid t : thr_fwd s s' → v_thr s !! tid = Some t → is_fin (st_pc t) = true → v_thr s' !! tid = Some t.
Proof. intros Hf Ht Hfin. destruct (Hf _ _ Ht) as (t' & Ht' & _ & _ & Heq & _). by rewrite Ht', (Heq Hfin). Qed.

Lemma delivered_fwd s s' k : thr_fwd s s' → delivered s k → delivered s' k.
Proof.
  intros Hf (tid & t & sid & n & z & Ht & Ha & Hpc & Hc). exists tid, t, sid, n, z. split; [|done].
  eapply fin_frozen; eauto. by rewrite Hpc.
Qed.

(** a witness "the acquiring call is past AddLock" is stable *)
Lemma past_add_fwd s s' tid t sid n k z : thr_fwd s s' → v_thr s !! tid = Some t → acquirer t sid n k z →
  (st_pc t = VTmAdd ∨ ∃ r, st_pc t = VFin r) →
  ∃ t', v_thr s' !! tid = Some t' ∧ acquirer t' sid n k z ∧ (st_pc t' = VTmAdd ∨ ∃ r, st_pc t' = VFin r) ∧
        (∀ e, st_cancel t = Some e → st_cancel t' = Some e).
Proof.
  intros Hf Ht [lt Ha] Hpc. destruct (Hf _ _ Ht) as (t' & Ht' & Ho & Hc & Hfin & Hadd). exists t'. split; [done|].
  split; [exists lt; by rewrite Ho|]. split; [|done].
  destruct Hpc as [Hpc|[r Hpc]]; [auto|]. rewrite Hfin; [eauto|by rewrite Hpc].
Qed.

(** ** live keys *)
Lemma slive_insert s s' n a' n0 k0 :
  v_locks s' = <[n := a']> (v_locks s) → slive s' n0 k0 ↔ (n0 = n ∧ k0 ∈ al_live a') ∨ (n0 ≠ n ∧ slive s n0 k0).
Proof.
  intros Heq. unfold slive. rewrite Heq. split.
  - intros (a & Ha & Hk). apply lookup_insert_Some in Ha as [[<- <-]|[? Ha]]; [left; done|right; eauto].
  - intros [[-> Hk]|[Hne (a & Ha & Hk)]]; [exists a'; by rewrite lookup_insert|exists a; by rewrite lookup_insert_ne].
Qed.

Lemma slive_default s n z k : k ∈ al_live (default (ALock z [] []) (v_locks s !! n)) → slive s n k.
Proof. destruct (v_locks s !! n) as [a|] eqn:Ha; simpl; [by exists a|by intros ?%elem_of_nil]. Qed.
Lemma slive_default_rev s n z k : slive s n k → k ∈ al_live (default (ALock z [] []) (v_locks s !! n)).
Proof. intros (a & -> & Hk). done. Qed.

(** a key becomes live only by the step of its own acquiring call, or by a hand-off to it *)
Lemma vsr_live_bwd cfg s it s' n0 k0 : vsr cfg s it s' → slive s' n0 k0 →
  slive s n0 k0 ∨ ∃ tid t sid z, v_thr s !! tid = Some t ∧ acquirer t sid n0 k0 z ∧ (st_pc t = VMgrTry ∨ st_pc t = VMgrLock ∨ st_pc t = VWait).
Proof.
  destruct 1; unfold st_go; simpl; auto; intros H.
  all: try (eapply slive_insert in H; [|simpl; reflexivity]; destruct H as [[-> H]|[_ H]]; [|by left]; simpl in H).
  - left. by eapply slive_default.
  - subst a. apply elem_of_app in H as [H|H]; [left; by eapply slive_default|]. apply elem_of_list_singleton in H as ->.
    right. exists tid, t, sid, z. split; [done|]. split; [by eapply acq_op_acquirer|]. tauto.
  - subst a. left. by eapply slive_default.
  - left. by exists a.
  - left. exists a. split; [done|]. by eapply elem_of_remove_first.
  - apply elem_of_app in H as [H|H]; [left; exists a; split; [done|]; by eapply elem_of_remove_first|].
    apply elem_of_list_singleton in H as ->. right. exists w, tw, sidw, zw. split; [done|]. split; [exists ltw; by right|]. tauto.
Qed.

(** a key stops being live only by a release of exactly that hold *)
Lemma vsr_live_fwd cfg s it s' n0 k0 : vsr cfg s it s' → slive s n0 k0 →
  slive s' n0 k0 ∨ ∃ tid t pc', it = VRun tid ∧ v_thr s !! tid = Some t ∧ rel_site s t n0 k0 pc' ∧
     v_thr s' !! tid = Some (with_pc t pc') ∧ v_theap s' = v_theap s ∧ v_sess s' = v_sess s ∧ v_timers s' = v_timers s.
Proof.
  destruct 1; unfold st_go; simpl; auto; intros H.
  all: try (lazymatch goal with | _ : rel_site _ _ _ _ _ |- _ => fail | _ => idtac end;
            left; eapply slive_insert; [simpl; reflexivity|]; destruct (decide (n0 = n)) as [->|]; [left; split; [done|]; simpl|by right]).
  - by apply slive_default_rev.
  - subst a. apply elem_of_app. left. by apply slive_default_rev.
  - subst a. by apply slive_default_rev.
  - destruct H as (a' & Ha' & Hk'). by simplify_eq.
  - destruct (decide (n0 = n ∧ k0 = k)) as [[-> ->]|Qne]; [right; exists tid, t, pc'; rewrite lookup_insert; done|]. left.
    eapply slive_insert; [simpl; reflexivity|]. destruct (decide (n0 = n)) as [->|]; [left; split; [done|]; simpl|by right].
    destruct H as (a' & Ha' & Hk'). simplify_eq. apply elem_of_remove_first_ne; [naive_solver|done].
  - destruct (decide (n0 = n ∧ k0 = k)) as [[-> ->]|Qne]; [right; exists tid, t, pc'; rewrite lookup_insert; done|]. left.
    eapply slive_insert; [simpl; reflexivity|]. destruct (decide (n0 = n)) as [->|]; [left; split; [done|]; simpl|by right].
    destruct H as (a' & Ha' & Hk'). simplify_eq. apply elem_of_app. left. apply elem_of_remove_first_ne; [naive_solver|done].
Qed.

(** ** consequences of the invariant about keys *)
Lemma acquirer_is_acq t sid n k z : acquirer t sid n k z → is_acq (st_op t) = true ∧ op_key' (st_op t) = Some k ∧ op_sid (st_op t) = Some sid.
Proof. intros [lt [H|H]]; rewrite H; done. Qed.
Lemma acquirer_inj t sid n k z sid' n' k' z' : acquirer t sid n k z → acquirer t sid' n' k' z' → sid = sid' ∧ n = n' ∧ k = k' ∧ z = z'.
Proof. intros [lt [H|H]] [lt' [H'|H']]; rewrite H in H'; by simplify_eq. Qed.

Lemma acq_unique cfg s t1 t2 x1 x2 sid1 n1 k z1 sid2 n2 z2 : SvInv cfg s →
  v_thr s !! t1 = Some x1 → v_thr s !! t2 = Some x2 → acquirer x1 sid1 n1 k z1 → acquirer x2 sid2 n2 k z2 →
  t1 = t2 ∧ x1 = x2 ∧ sid1 = sid2 ∧ n1 = n2 ∧ z1 = z2.
Proof.
  intros I H1 H2 A1 A2. destruct (acquirer_is_acq _ _ _ _ _ A1) as (? & ? & _), (acquirer_is_acq _ _ _ _ _ A2) as (? & ? & _).
  assert (t1 = t2) as -> by (eapply (vi_keys_fresh _ _ I); eauto). simplify_eq.
  destruct (acquirer_inj _ _ _ _ _ _ _ _ _ A1 A2) as (? & ? & ? & ?). done.
Qed.

Lemma live_owner_pc cfg s n k tid t sid n' z : SvInv cfg s → slive s n k → v_thr s !! tid = Some t → acquirer t sid n' k z →
  n' = n ∧ (st_pc t = VWoken ∨ st_pc t = VSessAdd ∨ st_pc t = VTmAdd ∨ st_pc t = VFin (SResp true None)).
Proof.
  intros I Hl Ht Ha. destruct (vi_live_owner _ _ I n k Hl) as (tid' & t' & sid' & z' & Ht' & Ha' & Hpc).
  destruct (acq_unique _ _ _ _ _ _ _ _ _ _ _ _ _ I Ht Ht' Ha Ha') as (-> & -> & _ & -> & _). done.
Qed.

(** whoever releases hold (n,k): its acquiring call is past AddLock, or is the releasing call itself (woken, cancelled) *)
Lemma rel_site_owner cfg s tid t n k pc' tid' t' sid n' z : SvInv cfg s → v_thr s !! tid = Some t → rel_site s t n k pc' →
  v_thr s !! tid' = Some t' → acquirer t' sid n' k z →
  (st_pc t' = VTmAdd ∨ ∃ r, st_pc t' = VFin r) ∨ (tid' = tid ∧ st_pc t' = VWoken).
Proof.
  intros I Ht Hs Ht' Ha'. destruct (acquirer_is_acq _ _ _ _ _ Ha') as (Hia & Hk & _). destruct Hs.
  - left. right. destruct (vi_presented _ _ I tid t k Ht) with (tid' := tid') (t' := t') as (x & tx & ? & ? & ? & Hx & Hax & Hpx & _);
      [by rewrite H|by rewrite H|done|done|done|].
    destruct (acq_unique _ _ _ _ _ _ _ _ _ _ _ _ _ I Ht' Hx Ha' Hax) as (-> & -> & _). eauto.
  - left. right. destruct (vi_tm_heap _ _ I _ _ H1) as (_ & x & tx & ? & ? & Hx & Hax & _ & Hpx). subst.
    destruct (acq_unique _ _ _ _ _ _ _ _ _ _ _ _ _ I Ht' Hx Ha' Hax) as (-> & -> & _). done.
  - left. destruct (vi_ds_todo _ _ I tid t sid0 c Ht H) as [(x & tx & Hx & Hax & Hpx) _]; [rewrite H0; simpl; by left|]. subst.
    destruct (acq_unique _ _ _ _ _ _ _ _ _ _ _ _ _ I Ht' Hx Ha' Hax) as (-> & -> & _). done.
  - right. assert (acquirer t sid0 n k z0) as Ha by (exists lt; by right).
    destruct (acq_unique _ _ _ _ _ _ _ _ _ _ _ _ _ I Ht' Ht Ha' Ha) as (-> & -> & _). done.
Qed.

(** ** threads, backward: a thread of the new state is an old thread (same operation), or was created by this step *)
Definition new_thread (s : svstate) (it : sitem) (x : nat) (t' : sthread) : Prop :=
  (∃ op, it = VCall x op ∧ t' = SThread op (first_pc op) None ∧ client_op op = true) ∨
  (x = v_next s ∧ st_pc t' = first_pc (st_op t') ∧ st_cancel t' = None ∧
     ((∃ sid, st_op t' = SConnEnd sid) ∨ st_op t' = SShutdown ∨
      (∃ id tm d, st_op t' = SExpire id ∧ v_theap s !! id = Some tm ∧ tm_st tm = TArmed d))).

Lemma shnet_cancel_ok2 t : st_cancel (shnet_cancel t) = st_cancel t ∨ st_cancel t = None ∧ is_fin (st_pc t) = false.
Proof. unfold shnet_cancel. destruct (st_op t) eqn:Ho; destruct (st_cancel t) eqn:Hc; destruct (is_fin (st_pc t)) eqn:Hf; simpl; auto. Qed.
Lemma connend_cancel_ok2 sid t : st_cancel (connend_cancel sid t) = st_cancel t ∨ st_cancel t = None ∧ is_fin (st_pc t) = false.
Proof.
  unfold connend_cancel. case_bool_decide; simpl; [|auto]. case_bool_decide as Hc; simpl; [|auto].
  destruct (is_fin (st_pc t)); simpl; auto.
Qed.

Lemma vsr_thr_bwd cfg s it s' x t' : SvInv cfg s → vsr cfg s it s' → v_thr s' !! x = Some t' →
  (∃ t, v_thr s !! x = Some t ∧ st_op t' = st_op t ∧
        (st_cancel t' = st_cancel t ∨ st_cancel t = None ∧ is_fin (st_pc t) = false ∧ st_pc t' = st_pc t)) ∨
  (v_thr s !! x = None ∧ new_thread s it x t').
Proof.
  intros I. pose proof (next_fresh _ _ I) as Hnx.
  destruct 1; unfold st_go; simpl; intros Ql; eauto 10; lk; eauto 10.
  all: try (right; split; [done|]; right; simpl; by eauto 12).
  all: try (left; eexists; split; [done|]; simpl; by eauto).
  - right. split; [done|]. left. eauto.
  - left. eexists; split; [done|]. destruct (connend_cancel_ok sid x0) as (-> & -> & _). split; [done|].
    destruct (connend_cancel_ok2 sid x0) as [?|[? ?]]; auto.
  - left. eexists; split; [done|]. destruct (shnet_cancel_ok x0) as (-> & -> & _). split; [done|].
    destruct (shnet_cancel_ok2 x0) as [?|[? ?]]; auto.
Qed.

(** ** who moves: a thread keeps its pc unless the step is its own (or it is handed a unit) *)
Lemma vsr_thr_pc_fwd cfg s it s' x tx : SvInv cfg s → vsr cfg s it s' → v_thr s !! x = Some tx →
  ∃ tx', v_thr s' !! x = Some tx' ∧ st_op tx' = st_op tx ∧
         (st_pc tx' = st_pc tx ∨ it = VRun x ∨ (st_pc tx = VWait ∧ st_pc tx' = VWoken)).
Proof.
  intros I. pose proof (next_fresh _ _ I) as Hnx.
  destruct 1; unfold st_go; simpl; intros Hx; eauto.
  all: try (destruct (decide (x = tid)) as [->|]; [rewrite lookup_insert; simplify_eq; eexists; split; [done|]; simpl; by auto|]).
  all: try (rewrite lookup_insert_ne by congruence; eauto).
  all: try (rewrite lookup_insert_ne by done).
  - rewrite lookup_fmap, Hx. simpl. eexists; split; [done|]. destruct (connend_cancel_ok sid tx) as (-> & -> & _). auto.
  - destruct (decide (x = w)) as [->|]; [rewrite lookup_insert; simplify_eq; eexists; split; [done|]; simpl; by auto|].
    rewrite lookup_insert_ne by done. eauto.
  - rewrite lookup_fmap, Hx. simpl. eexists; split; [done|]. destruct (shnet_cancel_ok tx) as (-> & -> & _). auto.
Qed.
