(** Preservation of [LInv] by the steps of Mlk that do not move a thread: allocation of a lock object,
    garbage collection of one object, the clock, the shutdown flag. *)
From Coq Require Import Lia ZifyBool ZifyNat.
From Ldlm Require Import Model.Base Model.Err Model.Lk Proofs.LkDefs Proofs.LkInvBase Proofs.LkInvMove.
From RecordUpdate Require Import RecordSet.
Import RecordSetNotations.
Local Open Scope Z_scope.

(** nobody refers to an object that is not in the heap *)
Lemma linv_no_ref s oid : LInv s → l_heap s !! oid = None →
  count_thr (refs oid) s = 0 ∧ count_thr (in_transit oid) s = 0.
Proof.
  intros HI Hn.
  assert (∀ tid t, l_thr s !! tid = Some t → refs oid t = false) as Hr.
  { intros tid t Ht. apply refs_false. intros Hpc. destruct (li_pc s HI _ _ _ Ht Hpc) as (o & ? & _). congruence. }
  split; apply count_thr_zero; [done|]. intros tid t Ht. destruct (in_transit oid t) eqn:E; [|done].
  apply in_transit_refs in E. by rewrite (Hr tid t Ht) in E.
Qed.

Section alloc.
  Context (s s' : lstate) (name : str) (size : Z).
  Let oid := l_next s.
  Let onew := LObj name size [] 0 [] [] (l_now s) false 0.
  Context (HI : LInv s).
  Context (Hthr : l_thr s' = l_thr s) (Hheap : l_heap s' = <[oid := onew]> (l_heap s))
          (Hmap : l_map s' = <[name := oid]> (l_map s)) (Hnext : l_next s' = S oid)
          (Hshut : l_shut s' = l_shut s) (Hnow : l_now s' = l_now s) (Hcr : l_crashed s' = l_crashed s).
  Context (Hnone : l_map s !! name = None) (Hsize : 0 < size).

  Local Lemma oid_fresh : l_heap s !! oid = None.
  Proof.
    destruct (l_heap s !! oid) as [o|] eqn:E; [|done]. destruct (li_heap s HI _ _ E) as (? & _). unfold oid in *. lia.
  Qed.
  Local Lemma heap_inv3 x y : l_heap s' !! x = Some y → (x = oid ∧ y = onew) ∨ (x ≠ oid ∧ l_heap s !! x = Some y).
  Proof. rewrite Hheap, lookup_insert_Some. naive_solver. Qed.
  Local Lemma heap_old x y : l_heap s !! x = Some y → l_heap s' !! x = Some y ∧ x ≠ oid.
  Proof.
    intros H. assert (x ≠ oid) by (intros ->; pose proof oid_fresh; congruence). by rewrite Hheap, lookup_insert_ne.
  Qed.
  Local Lemma name_old x y : l_heap s !! x = Some y → o_deleted y = false → o_name y ≠ name.
  Proof. intros H Hd Hn. destruct (li_heap s HI _ _ H) as (_ & _ & Hm). specialize (Hm Hd). congruence. Qed.

  Lemma linv_alloc : LInv s'.
  Proof.
    pose proof oid_fresh as Hfr. destruct (linv_no_ref s oid HI Hfr) as [Hc1 Hc2].
    constructor; rewrite ?Hshut, ?Hnow, ?Hcr, ?Hthr, ?Hnext, ?(count_thr_same _ s s' Hthr).
    - apply HI.
    - intros n oid1. rewrite Hmap, lookup_insert_Some. intros [[-> <-]|[Hne H]].
      + exists onew. by rewrite Hheap, lookup_insert.
      + destruct (li_map s HI _ _ H) as (o1 & Ho1 & ? & ?). exists o1. by destruct (heap_old _ _ Ho1).
    - intros oid1 o1 H. destruct (heap_inv3 _ _ H) as [[-> ->]|[Hne H1]].
      + simpl. rewrite Hmap, lookup_insert. split_and!; [lia|done|done].
      + destruct (li_heap s HI _ _ H1) as (? & ? & Hm). split_and!; [unfold oid in *; lia|done|].
        intros Hd. rewrite Hmap, lookup_insert_ne; [by apply Hm|]. intros Hn. by apply (name_old _ _ H1 Hd).
    - intros tid t oid1 Ht Hpc.
      destruct (li_pc s HI _ _ _ Ht Hpc) as (o1 & Ho1 & ?). exists o1. by destruct (heap_old _ _ Ho1).
    - intros oid1 o1 H. rewrite ?(count_thr_same _ s s' Hthr). destruct (heap_inv3 _ _ H) as [[-> ->]|[Hne H1]]; [by rewrite Hc1|].
      by apply (li_users s HI).
    - intros oid1 o1 H. destruct (heap_inv3 _ _ H) as [[-> ->]|[Hne H1]]; [done|]. by apply (li_deleted s HI oid1).
    - intros oid1 o1 H. rewrite ?(count_thr_same _ s s' Hthr). destruct (heap_inv3 _ _ H) as [[-> ->]|[Hne H1]].
      + rewrite Hc2. simpl. lia.
      + by apply (li_units s HI).
    - intros oid1 o1 tid H. destruct (heap_inv3 _ _ H) as [[-> ->]|[Hne H1]]; [by intros ?%elem_of_nil|].
      by apply (li_queue s HI oid1).
    - intros oid1 o1 H. destruct (heap_inv3 _ _ H) as [[-> ->]|[Hne H1]]; [constructor|]. by apply (li_queue_nodup s HI oid1).
    - intros tid t oid1 Ht HW. destruct (li_waiting s HI _ _ _ Ht HW) as (o1 & Ho1 & ?). exists o1. by destruct (heap_old _ _ Ho1).
    - apply HI.
    - intros oid1 o1 H. destruct (heap_inv3 _ _ H) as [[-> ->]|[Hne H1]]; [done|]. by apply (li_no_lost_wakeup s HI oid1).
    - apply HI.
    - apply HI.
    - apply HI.
    - apply HI.
    - apply HI.
    - apply HI.
    - intros oid1 o1 H. destruct (heap_inv3 _ _ H) as [[-> ->]|[Hne H1]].
      + split; [constructor|]. by intros k ?%elem_of_nil.
      + by apply (li_keys s HI oid1).
    - intros tid t Ht Ha Hpc. destruct (li_granted s HI _ _ Ht Ha Hpc) as [(oid1 & o1 & Hm & Ho1 & Hk)|?]; [left|by right].
      exists oid1, o1. destruct (heap_old _ _ Ho1). rewrite Hmap, lookup_insert_ne; [done|]. intros Hn. congruence.
    - intros tid t oid1 Ht Ha Hpc. destruct (li_done s HI _ _ _ Ht Ha Hpc) as [(o1 & Ho1 & Hk)|?]; [left|by right].
      exists o1. by destruct (heap_old _ _ Ho1).
    - apply HI.
    - intros oid1 o1 H. destruct (heap_inv3 _ _ H) as [[-> ->]|[Hne H1]]; [simpl; lia|]. by apply (li_time s HI oid1).
  Qed.
End alloc.

(** ** the clock and the shutdown flag *)
Lemma linv_tick s s' dt :
  LInv s → l_heap s' = l_heap s → l_map s' = l_map s → l_next s' = l_next s → l_shut s' = l_shut s →
  l_now s' = l_now s + dt → 0 ≤ dt → l_thr s' = l_thr s → l_crashed s' = l_crashed s → LInv s'.
Proof.
  destruct s, s'. simpl. intros HI -> -> -> -> -> Hdt -> ->. destruct HI. constructor; try assumption.
  simpl in *. intros oid o H. specialize (li_time _ _ H). lia.
Qed.

Lemma linv_set_shut s s' :
  LInv s → l_heap s' = l_heap s → l_map s' = l_map s → l_next s' = l_next s →
  l_now s' = l_now s → l_thr s' = l_thr s → l_crashed s' = l_crashed s →
  (∀ tid t, l_thr s !! tid = Some t → in_flight (t_pc t) = false) → LInv s'.
Proof.
  destruct s, s'. simpl. intros HI -> -> -> -> -> -> Hf. destruct HI. constructor; try assumption.
  simpl in *. intros _. done.
Qed.

(** ** garbage collection of one object *)
Section gc.
  Context (s s' : lstate) (name : str) (oid : nat) (o : lobj).
  Let o' := o <| o_deleted := true |>.
  Context (HI : LInv s).
  Context (Hm : l_map s !! name = Some oid) (Ho : l_heap s !! oid = Some o).
  Context (Hkeys : o_keys o = []) (Husers : o_users o = 0).
  Context (Hthr : l_thr s' = l_thr s) (Hheap : l_heap s' = <[oid := o']> (l_heap s))
          (Hmap : l_map s' = delete name (l_map s)) (Hnext : l_next s' = l_next s)
          (Hshut : l_shut s' = l_shut s) (Hnow : l_now s' = l_now s) (Hcr : l_crashed s' = l_crashed s).

  Local Lemma gc_name : o_name o = name ∧ o_deleted o = false.
  Proof. destruct (li_map s HI _ _ Hm) as (o1 & ? & ? & ?). by simplify_eq. Qed.
  Local Lemma gc_noref tid t : l_thr s !! tid = Some t → pc_oid (t_pc t) ≠ Some oid.
  Proof.
    intros Ht. apply refs_false. eapply count_thr_zero_inv; [|done]. by rewrite <-(li_users s HI _ _ Ho).
  Qed.
  Lemma gc_idle : o_waitq o = [] ∧ o_ready o = [] ∧ o_cur o = 0 ∧ count_thr (refs oid) s = 0.
  Proof.
    assert (o_waitq o ++ o_ready o = []) as [Hq Hr]%app_eq_nil.
    { apply list_empty_no_elem. intros x Hx. destruct (li_queue s HI _ _ _ Ho Hx) as (t & Ht & HW).
      by apply W_pc_oid, (gc_noref _ _ Ht) in HW. }
    split_and!; [done|done| |by rewrite <-(li_users s HI _ _ Ho)].
    destruct (li_units s HI _ _ Ho) as [-> _]. rewrite Hkeys, Hr. simpl.
    rewrite count_thr_zero; [done|]. intros tid t Ht. destruct (in_transit oid t) eqn:E; [|done].
    by apply in_transit_refs, refs_pc_oid, (gc_noref _ _ Ht) in E.
  Qed.

  Local Lemma heap_inv4 x y : l_heap s' !! x = Some y → (x = oid ∧ y = o') ∨ (x ≠ oid ∧ l_heap s !! x = Some y).
  Proof. rewrite Hheap, lookup_insert_Some. naive_solver. Qed.
  Local Lemma heap_fwd4 x y : l_heap s !! x = Some y → x ≠ oid → l_heap s' !! x = Some y.
  Proof. intros. by rewrite Hheap, lookup_insert_ne. Qed.

  Lemma linv_gc : LInv s'.
  Proof.
    destruct gc_name as [Hn Hd]. destruct gc_idle as (Hq & Hr & Hcur & Hcnt).
    constructor; rewrite ?Hshut, ?Hnow, ?Hcr, ?Hthr, ?Hnext.
    - apply HI.
    - intros n oid1. rewrite Hmap, lookup_delete_Some. intros [Hne H].
      destruct (li_map s HI _ _ H) as (o1 & Ho1 & ? & ?). exists o1. split; [|done].
      apply heap_fwd4; [done|]. intros ->. simplify_eq.
    - intros oid1 o1 H. destruct (heap_inv4 _ _ H) as [[-> ->]|[Hne H1]].
      + destruct (li_heap s HI _ _ Ho) as (? & ? & _). done.
      + destruct (li_heap s HI _ _ H1) as (? & ? & Hmm). split_and!; [done|done|]. intros Hd1.
        specialize (Hmm Hd1). rewrite Hmap, lookup_delete_ne; [done|]. intros Hnn. rewrite <-Hnn in Hmm. congruence.
    - intros tid t oid1 Ht Hpc. destruct (li_pc s HI _ _ _ Ht Hpc) as (o1 & Ho1 & ?). exists o1. split; [|done].
      apply heap_fwd4; [done|]. intros ->. by apply (gc_noref _ _ Ht).
    - intros oid1 o1 H. rewrite ?(count_thr_same _ s s' Hthr). destruct (heap_inv4 _ _ H) as [[-> ->]|[Hne H1]].
      + simpl. by rewrite Hcnt.
      + by apply (li_users s HI).
    - intros oid1 o1 H. destruct (heap_inv4 _ _ H) as [[-> ->]|[Hne H1]]; [done|]. by apply (li_deleted s HI oid1).
    - intros oid1 o1 H. rewrite ?(count_thr_same _ s s' Hthr). destruct (heap_inv4 _ _ H) as [[-> ->]|[Hne H1]].
      + by apply (li_units s HI oid o).
      + by apply (li_units s HI).
    - intros oid1 o1 tid H. destruct (heap_inv4 _ _ H) as [[-> ->]|[Hne H1]].
      + simpl. rewrite Hq, Hr. by intros ?%elem_of_nil.
      + by apply (li_queue s HI oid1).
    - intros oid1 o1 H. destruct (heap_inv4 _ _ H) as [[-> ->]|[Hne H1]]; [by apply (li_queue_nodup s HI oid o)|].
      by apply (li_queue_nodup s HI oid1).
    - intros tid t oid1 Ht HW. destruct (li_waiting s HI _ _ _ Ht HW) as (o1 & Ho1 & ?). exists o1. split; [|done].
      apply heap_fwd4; [done|]. intros ->. by apply W_pc_oid, (gc_noref _ _ Ht) in HW.
    - apply HI.
    - intros oid1 o1 H. destruct (heap_inv4 _ _ H) as [[-> ->]|[Hne H1]]; [by apply (li_no_lost_wakeup s HI oid o)|].
      by apply (li_no_lost_wakeup s HI oid1).
    - apply HI.
    - apply HI.
    - apply HI.
    - apply HI.
    - apply HI.
    - apply HI.
    - intros oid1 o1 H. destruct (heap_inv4 _ _ H) as [[-> ->]|[Hne H1]].
      + simpl. rewrite Hkeys. split; [constructor|]. by intros k ?%elem_of_nil.
      + by apply (li_keys s HI oid1).
    - intros tid t Ht Ha Hpc. destruct (li_granted s HI _ _ Ht Ha Hpc) as [(oid1 & o1 & Hm1 & Ho1 & Hk)|?]; [left|by right].
      exists oid1, o1. assert (oid1 ≠ oid) as Hne by (intros ->; simplify_eq; rewrite Hkeys in Hk; by apply elem_of_nil in Hk).
      split_and!; [|by apply heap_fwd4|done]. rewrite Hmap, lookup_delete_ne; [done|]. intros Hnn. congruence.
    - intros tid t oid1 Ht Ha Hpc. destruct (li_done s HI _ _ _ Ht Ha Hpc) as [(o1 & Ho1 & Hk)|?]; [left|by right].
      exists o1. split; [|done]. apply heap_fwd4; [done|]. intros ->. apply (gc_noref _ _ Ht). by rewrite Hpc.
    - apply HI.
    - intros oid1 o1 H. destruct (heap_inv4 _ _ H) as [[-> ->]|[Hne H1]]; [by apply (li_time s HI oid o)|]. by apply (li_time s HI oid1).
  Qed.
End gc.

Lemma linv_gc_one m name s : LInv s → LInv (gc_one m name s).
Proof.
  intros HI. unfold gc_one. destruct (l_map s !! name) as [oid|] eqn:Hm; [|done].
  destruct (l_heap s !! oid) as [o|] eqn:Ho; [|done].
  destruct (bool_decide (o_keys o = []) && (o_users o =? 0) && (m <? l_now s - o_last o)) eqn:Hc; [|done].
  apply andb_true_iff in Hc as [[Hk%bool_decide_eq_true Hu%Z.eqb_eq]%andb_true_iff _].
  by eapply (linv_gc s _ name oid o HI Hm Ho Hk Hu).
Qed.

Lemma gc_one_frame m name s :
  let s' := gc_one m name s in
  l_thr s' = l_thr s ∧ l_now s' = l_now s ∧ l_shut s' = l_shut s ∧ l_next s' = l_next s ∧ l_crashed s' = l_crashed s ∧
  (∀ n, n ≠ name → l_map s' !! n = l_map s !! n) ∧
  (∀ oid, l_map s !! name ≠ Some oid → l_heap s' !! oid = l_heap s !! oid).
Proof.
  unfold gc_one. destruct (l_map s !! name) as [oid|] eqn:Hm; [|done].
  destruct (l_heap s !! oid) as [o|] eqn:Ho; [|done].
  destruct (_ && _); [|done]. simpl. split_and!; try done.
  - intros n Hn. by rewrite lookup_delete_ne.
  - intros oid1 Hn. rewrite lookup_insert_ne; [done|]. congruence.
Qed.

Lemma linv_gc_fold m l s : LInv s → LInv (fold_left (λ s '(name, _), gc_one m name s) l s) ∧
  l_thr (fold_left (λ (s : lstate) '((name, _) : str * nat), gc_one m name s) l s) = l_thr s.
Proof.
  revert s. induction l as [|[n x] l IH]; intros s HI; simpl; [done|].
  destruct (IH (gc_one m n s) (linv_gc_one m n s HI)) as [? ->]. split; [done|]. apply (gc_one_frame m n s).
Qed.
