(** The trace predicates of Model/LkTrace.v hold of every reachable trace of Mlk (work package lktrace).

    Route. The predicates read a state only through three views: [avw] (per thread: call, answer if any, "success already
    decided"), [kvw] (per object: size, key list) and [hist] (the observable history, oldest first). One lemma
    ([lstep_akind]) classifies every step of the model by its effect on the three views (six kinds); the linking invariant
    [XI] — the observable history is exactly the call/return history of the thread pool, plus three facts about keys that
    LInv does not record — is preserved by each kind ([xi_*]); the predicates follow from [XI] and [LInv]
    (C01 through [C01_capacity]) at every reachable state, hence at every prefix ([all_prefixes_reach]). *)
From Coq Require Import Lia ZifyBool ZifyNat.
From Ldlm Require Import Model.Base Model.Err Model.Lk Model.LkTrace Proofs.LkDefs Proofs.LkInvBase Proofs.LkLinBase Proofs.LkInv
  Proofs.LkExample.
From RecordUpdate Require Import RecordSet.
Import RecordSetNotations.
Local Open Scope Z_scope.

Lemma acq_op_is_acq o : acq_op o = is_acq o.
Proof. done. Qed.

(** ** Histories *)
Definition histT (tr : list lev) : list lev := obsh (rev tr).
Definition hist (s : lstate) : list lev := histT (l_trace s).
Arguments histT : simpl never.

Lemma obsh_app h1 h2 : obsh (h1 ++ h2) = obsh h1 ++ obsh h2.
Proof. apply filter_app. Qed.
Lemma histT_app new tr : histT (new ++ tr) = histT tr ++ histT new.
Proof. unfold histT. by rewrite rev_app_distr, obsh_app. Qed.
Lemma histT_cons_silent e tr : observable e = false → histT (e :: tr) = histT tr.
Proof.
  intros H. change (e :: tr) with ([e] ++ tr). rewrite histT_app. unfold histT at 2. simpl. unfold obsh.
  rewrite filter_cons, decide_False by (by rewrite H). by rewrite app_nil_r.
Qed.
Lemma histT_cons_obs e tr : observable e = true → histT (e :: tr) = histT tr ++ [e].
Proof.
  intros H. change (e :: tr) with ([e] ++ tr). rewrite histT_app. unfold histT at 2. simpl. unfold obsh.
  by rewrite filter_cons, decide_True.
Qed.
Lemma histT_grants (f : nat → linact) l tr : histT (rev (map (λ w, EvLin (f w)) l) ++ tr) = histT tr.
Proof.
  rewrite histT_app. unfold histT at 2. rewrite rev_involutive.
  replace (obsh (map (λ w, EvLin (f w)) l)) with (@nil lev); [by rewrite app_nil_r|].
  induction l as [|w l IH]; [done|]. simpl. unfold obsh in *. by rewrite filter_cons, decide_False.
Qed.

Lemma h_invs_app h1 h2 : h_invs (h1 ++ h2) = h_invs h1 ++ h_invs h2.
Proof. apply omap_app. Qed.
Lemma h_ress_app h1 h2 : h_ress (h1 ++ h2) = h_ress h1 ++ h_ress h2.
Proof. apply omap_app. Qed.

(** ** The three views *)
Definition fin_of (pc : lpc) : option lres := match pc with PFin r => Some r | _ => None end.
Definition okpc (pc : lpc) : bool := match pc with PDone _ r | PFin r => bool_decide (r = ok_res) | _ => false end.
Definition av (t : thread) : lop * option lres * bool := (t_op t, fin_of (t_pc t), okpc (t_pc t)).
Definition kv (o : lobj) : Z * list str := (o_size o, o_keys o).
Definition avw (s : lstate) : gmap nat (lop * option lres * bool) := av <$> l_thr s.
Definition kvw (s : lstate) : gmap nat (Z * list str) := kv <$> l_heap s.

Lemma avw_lookup s tid t : l_thr s !! tid = Some t → avw s !! tid = Some (av t).
Proof. intros H. unfold avw. by rewrite lookup_fmap, H. Qed.
Lemma avw_lookup_inv s tid x : avw s !! tid = Some x → ∃ t, l_thr s !! tid = Some t ∧ av t = x.
Proof. unfold avw. rewrite lookup_fmap. destruct (l_thr s !! tid) as [t|]; [|done]. intros [= <-]. eauto. Qed.
Lemma kvw_lookup s oid o : l_heap s !! oid = Some o → kvw s !! oid = Some (kv o).
Proof. intros H. unfold kvw. by rewrite lookup_fmap, H. Qed.
Lemma kvw_lookup_inv s oid x : kvw s !! oid = Some x → ∃ o, l_heap s !! oid = Some o ∧ kv o = x.
Proof. unfold kvw. rewrite lookup_fmap. destruct (l_heap s !! oid) as [o|]; [|done]. intros [= <-]. eauto. Qed.

Lemma av_fmap_same (m : gmap nat thread) tid t t' : m !! tid = Some t → av t' = av t → av <$> <[tid := t']> m = av <$> m.
Proof. intros H E. rewrite fmap_insert, E. apply insert_id. by rewrite lookup_fmap, H. Qed.
Lemma kv_fmap_same (m : gmap nat lobj) oid o o' : m !! oid = Some o → kv o' = kv o → kv <$> <[oid := o']> m = kv <$> m.
Proof. intros H E. rewrite fmap_insert, E. apply insert_id. by rewrite lookup_fmap, H. Qed.

(** ** The kinds of steps *)
Inductive akind (it : item) (s s' : lstate) : Prop :=
| ak_quiet : avw s' = avw s → kvw s' = kvw s → hist s' = hist s → akind it s s'
| ak_alloc oid z : avw s' = avw s → kvw s !! oid = None → kvw s' = <[oid := (z, [])]> (kvw s) → hist s' = hist s → akind it s s'
| ak_call tid op : it = ICall tid op → avw s !! tid = None → avw s' = <[tid := (op, None, false)]> (avw s) → kvw s' = kvw s →
    hist s' = hist s ++ [EvInv tid op] → akind it s s'
| ak_fin tid o r : avw s !! tid = Some (o, None, bool_decide (r = ok_res)) →
    avw s' = <[tid := (o, Some r, bool_decide (r = ok_res))]> (avw s) → kvw s' = kvw s →
    hist s' = hist s ++ [EvRes tid r] → akind it s s'
| ak_add tid t oid z ks : l_thr s !! tid = Some t → t_pc t = PAddKey oid → kvw s !! oid = Some (z, ks) →
    avw s' = <[tid := (t_op t, None, true)]> (avw s) → kvw s' = <[oid := (z, ks ++ [op_key (t_op t)])]> (kvw s) →
    hist s' = hist s → akind it s s'
| ak_unl tid t oid z ks : l_thr s !! tid = Some t → t_pc t = PUnlRem oid → kvw s !! oid = Some (z, ks) → op_key (t_op t) ∈ ks →
    avw s' = <[tid := (t_op t, None, true)]> (avw s) → kvw s' = <[oid := (z, remove_first (op_key (t_op t)) ks)]> (kvw s) →
    hist s' = hist s → akind it s s'.

Lemma akind_refl it s : akind it s s.
Proof. by apply ak_quiet. Qed.

Ltac open_step t Ht := unfold finish, set_obj, emit; rewrite ?emit_grants_eq; unfold emit; rewrite (set_pc_eq _ _ _ t) by exact Ht; simpl.
Ltac hist_tac :=
  unfold hist; simpl; rewrite ?histT_grants;
  repeat first [rewrite histT_cons_silent by done | rewrite histT_cons_obs by done]; reflexivity.
Ltac av_same t Ht Hpc := unfold avw; simpl; apply (av_fmap_same _ _ t); [exact Ht|unfold av; simpl; rewrite ?Hpc; reflexivity].
Ltac kv_same o Ho := unfold kvw; simpl; first [reflexivity | apply (kv_fmap_same _ _ o); [exact Ho|reflexivity]].
(* a step of thread [tid] that decides nothing observable *)
Ltac quiet_tac t Ht Hpc o Ho := apply ak_quiet; [av_same t Ht Hpc|kv_same o Ho|hist_tac].
Ltac quiet0_tac t Ht Hpc := apply ak_quiet; [av_same t Ht Hpc|reflexivity|hist_tac].
Ltac fin_tac tid t Ht Hpc r :=
  apply (ak_fin _ _ _ tid (t_op t) r);
  [rewrite (avw_lookup _ _ t Ht); unfold av; rewrite Hpc; reflexivity
  |unfold avw; simpl; rewrite fmap_insert; reflexivity
  |idtac
  |hist_tac].

Lemma notify_kv o o' woken : notify o = (o', woken) → kv o' = kv o.
Proof. intros H. apply notify_spec in H as (_ & _ & _ & _ & _ & _ & Hs & Hk & _). unfold kv. by rewrite Hs, Hk. Qed.

Lemma run_akind minidle s tid t : LInv s → l_thr s !! tid = Some t → akind (IRun tid) s (run_thread minidle tid t s).
Proof.
  intros I Ht. unfold run_thread. cbv zeta. destruct (t_pc t) eqn:Hpc.
  - (* PEnter *) destruct (l_shut s).
    + open_step t Ht. fin_tac tid t Ht Hpc (res_err ELockManagerShutdown). reflexivity.
    + open_step t Ht. quiet0_tac t Ht Hpc.
  - (* PGet *) destruct (op_size (t_op t) <=? 0).
    { open_step t Ht. fin_tac tid t Ht Hpc (res_err ELockInvalidLockSize). reflexivity. }
    destruct (l_map s !! op_name (t_op t)) as [oid|] eqn:Hm.
    + destruct (l_heap s !! oid) as [o|] eqn:Ho; [|apply akind_refl]. destruct (_ && _).
      * open_step t Ht. fin_tac tid t Ht Hpc (res_err ELockSizeMismatch). reflexivity.
      * open_step t Ht. apply ak_quiet; [|kv_same o Ho|hist_tac].
        unfold avw; simpl; apply (av_fmap_same _ _ t); [exact Ht|]. unfold av; simpl. rewrite Hpc. by destruct (t_op t).
    + destruct (match t_op t with OUnl _ _ => false | _ => true end).
      * open_step t Ht. apply (ak_alloc _ _ _ (l_next s) (op_size (t_op t))).
        -- av_same t Ht Hpc.
        -- unfold kvw. rewrite lookup_fmap. destruct (l_heap s !! l_next s) as [o|] eqn:Ho; [|done].
           destruct (li_heap _ I _ _ Ho) as [Hlt _]. lia.
        -- unfold kvw; simpl. by rewrite fmap_insert.
        -- hist_tac.
      * open_step t Ht. fin_tac tid t Ht Hpc (res_err ELockDoesNotExist). reflexivity.
  - (* PChkDel *) destruct (l_heap s !! oid) as [o|] eqn:Ho; [|apply akind_refl]. destruct (o_deleted o).
    + apply ak_quiet; [done|done|hist_tac].
    + open_step t Ht. apply ak_quiet; [|reflexivity|hist_tac].
      unfold avw; simpl; apply (av_fmap_same _ _ t); [exact Ht|]. unfold av; simpl. rewrite Hpc. by destruct (t_op t).
  - (* PTryAcq *) destruct (l_heap s !! oid) as [o|] eqn:Ho; [|apply akind_refl]. destruct (_ && _).
    + open_step t Ht. quiet_tac t Ht Hpc o Ho.
    + open_step t Ht. quiet0_tac t Ht Hpc.
  - (* PAcqEnter *) destruct (l_heap s !! oid) as [o|] eqn:Ho; [|apply akind_refl]. destruct (t_cancel t).
    { open_step t Ht. quiet0_tac t Ht Hpc. }
    destruct (_ && _); open_step t Ht; quiet_tac t Ht Hpc o Ho.
  - (* PAcqWait *) destruct (l_heap s !! oid) as [o|] eqn:Ho; [|apply akind_refl]. case_bool_decide.
    + open_step t Ht. quiet_tac t Ht Hpc o Ho.
    + destruct (t_cancel t); [|apply akind_refl]. open_step t Ht. quiet0_tac t Ht Hpc.
  - (* PAcqWoken *) destruct (t_cancel t); open_step t Ht; quiet0_tac t Ht Hpc.
  - (* PAcqCancel *) destruct (l_heap s !! oid) as [o|] eqn:Ho; [|apply akind_refl]. case_bool_decide.
    + match goal with |- context [notify ?x] => set (o1 := x) end.
      destruct (notify o1) as [o2 woken] eqn:Hnt. apply notify_kv in Hnt.
      open_step t Ht. apply ak_quiet; [av_same t Ht Hpc| |hist_tac].
      unfold kvw; simpl. apply (kv_fmap_same _ _ o); [exact Ho|]. by rewrite Hnt.
    + match goal with |- context [notify ?x] => set (o1 := x) end.
      match goal with |- context [if ?c then notify o1 else _] => destruct (if c then notify o1 else (o1, [])) as [o2 woken] eqn:Hnt end.
      assert (kv o2 = kv o) as Hkv.
      { destruct (_ && _); [by apply notify_kv in Hnt|]. by injection Hnt as <- <-. }
      open_step t Ht. apply ak_quiet; [av_same t Ht Hpc| |hist_tac].
      unfold kvw; simpl. by apply (kv_fmap_same _ _ o).
  - (* PRelCancel *) destruct (l_heap s !! oid) as [o|] eqn:Ho; [|apply akind_refl]. destruct (o_cur o - 1 <? 0).
    { apply ak_quiet; [done|done|hist_tac]. }
    match goal with |- context [notify ?x] => set (o1 := x) end.
    destruct (notify o1) as [o2 woken] eqn:Hnt. apply notify_kv in Hnt.
    open_step t Ht. apply ak_quiet; [av_same t Ht Hpc| |hist_tac].
    unfold kvw; simpl. apply (kv_fmap_same _ _ o); [exact Ho|]. by rewrite Hnt.
  - (* PAddKey *) destruct (l_heap s !! oid) as [o|] eqn:Ho; [|apply akind_refl].
    open_step t Ht. apply (ak_add _ _ _ tid t oid (o_size o) (o_keys o)); [done|done|by rewrite (kvw_lookup _ _ o Ho)| | |hist_tac].
    + unfold avw; simpl. by rewrite fmap_insert.
    + unfold kvw; simpl. by rewrite fmap_insert.
  - (* PUnlChk *) destruct (l_heap s !! oid) as [o|] eqn:Ho; [|apply akind_refl]. destruct (o_deleted o); open_step t Ht; quiet0_tac t Ht Hpc.
  - (* PUnlRem *) destruct (l_heap s !! oid) as [o|] eqn:Ho; [|apply akind_refl]. case_bool_decide as Hkey.
    + destruct (o_cur o - 1 <? 0).
      { apply ak_quiet; [done|done|hist_tac]. }
      match goal with |- context [notify ?x] => set (o1 := x) end.
      destruct (notify o1) as [o2 woken] eqn:Hnt. apply notify_kv in Hnt.
      open_step t Ht. apply (ak_unl _ _ _ tid t oid (o_size o) (o_keys o)); [done|done|by rewrite (kvw_lookup _ _ o Ho)|done| | |hist_tac].
      * unfold avw; simpl. by rewrite fmap_insert.
      * unfold kvw; simpl. by rewrite fmap_insert, Hnt.
    + open_step t Ht. quiet0_tac t Ht Hpc.
  - (* PDone *) destruct (l_heap s !! oid) as [o|] eqn:Ho; [|apply akind_refl].
    open_step t Ht. fin_tac tid t Ht Hpc r. kv_same o Ho.
  - (* PFin *) apply akind_refl.
Qed.

Lemma gc_one_views m name s : avw (gc_one m name s) = avw s ∧ kvw (gc_one m name s) = kvw s ∧ hist (gc_one m name s) = hist s.
Proof.
  unfold gc_one. destruct (l_map s !! name) as [oid|]; [|done]. destruct (l_heap s !! oid) as [o|] eqn:Ho; [|done].
  destruct (_ && _); [|done]. unfold emit, set_obj. split_and!; [done| |hist_tac].
  unfold kvw; simpl. by apply (kv_fmap_same _ _ o).
Qed.

Lemma gc_fold_views m l : ∀ s,
  let s' := fold_left (λ (s : lstate) '((name, _) : str * nat), gc_one m name s) l s in
  avw s' = avw s ∧ kvw s' = kvw s ∧ hist s' = hist s.
Proof.
  induction l as [|[n x] l IH]; intros s; simpl; [done|].
  destruct (IH (gc_one m n s)) as (-> & -> & ->). apply gc_one_views.
Qed.

Lemma lstep_akind minidle s it : LInv s → akind it s (lstep minidle s it).
Proof.
  intros I. unfold lstep. rewrite (li_not_crashed _ I). destruct it as [tid op|tid|tid|tid cause|name|dt|].
  - destruct (l_thr s !! tid) as [t|] eqn:Ht; [apply akind_refl|]. unfold emit.
    apply (ak_call _ _ _ tid op); [done| | |done|hist_tac].
    + unfold avw. by rewrite lookup_fmap, Ht.
    + unfold avw; simpl. by rewrite fmap_insert.
  - destruct (l_thr s !! tid) as [t|] eqn:Ht; [|apply akind_refl]. by apply run_akind.
  - destruct (l_thr s !! tid) as [t|] eqn:Ht; [|apply akind_refl].
    destruct (t_pc t) eqn:Hpc; try apply akind_refl. destruct (t_cancel t); [|apply akind_refl].
    rewrite (set_pc_eq _ _ _ t) by exact Ht. quiet0_tac t Ht Hpc.
  - destruct (l_thr s !! tid) as [t|] eqn:Ht; [|apply akind_refl].
    destruct (t_cancel t); [apply akind_refl|]. destruct (t_op t) eqn:Hop; try apply akind_refl.
    apply ak_quiet; [|done|done]. unfold avw; simpl. apply (av_fmap_same _ _ t); [exact Ht|done].
  - destruct (gc_one_views minidle name s) as (? & ? & ?). by apply ak_quiet.
  - by apply ak_quiet.
  - destruct (l_shut s); [apply akind_refl|]. destruct (no_call_in_flight s); [|apply akind_refl].
    unfold shutdown_all, emit. destruct (gc_fold_views 0 (map_to_list (l_map s)) s) as (Ha & Hk & Hh).
    apply ak_quiet; [exact Ha|exact Hk|]. unfold hist in *. simpl. by rewrite histT_cons_silent.
Qed.

(** ** The linking invariant, over the three views *)
Record XI (A : gmap nat (lop * option lres * bool)) (K : gmap nat (Z * list str)) (h : list lev) : Prop := {
  (* the observable history is exactly the call/return history of the thread pool *)
  xi_inv : ∀ t o, (t, o) ∈ h_invs h ↔ ∃ f b, A !! t = Some (o, f, b);
  xi_res : ∀ t r, (t, r) ∈ h_ress h ↔ ∃ o b, A !! t = Some (o, Some r, b);
  xi_nd : NoDup (h_invs h).*1;
  xi_ndr : NoDup (h_ress h).*1;
  (* the object that carries the key of an acquisition call has the size the call named *)
  xi_size : ∀ t o f b oid z ks, A !! t = Some (o, f, b) → acq_op o = true → K !! oid = Some (z, ks) → op_key o ∈ ks → z = op_size o;
  (* once an Unlock has succeeded its key is in no key list, no second Unlock of it succeeds, and it was a granted key *)
  xi_unl_gone : ∀ t o f oid z ks, A !! t = Some (o, f, true) → acq_op o = false → K !! oid = Some (z, ks) → op_key o ∉ ks;
  xi_unl_once : ∀ t1 o1 f1 t2 o2 f2, A !! t1 = Some (o1, f1, true) → A !! t2 = Some (o2, f2, true) →
      acq_op o1 = false → acq_op o2 = false → op_key o1 = op_key o2 → t1 = t2;
  xi_unl_granted : ∀ t o f, A !! t = Some (o, f, true) → acq_op o = false →
      ∃ t' o', A !! t' = Some (o', Some ok_res, true) ∧ acq_op o' = true ∧ op_name o' = op_name o ∧ op_key o' = op_key o
}.

Lemma xi_init : XI ∅ ∅ [].
Proof.
  constructor.
  - intros t o. split; [by intros ?%elem_of_nil|]. intros (f & b & H). by rewrite lookup_empty in H.
  - intros t o. split; [by intros ?%elem_of_nil|]. intros (f & b & H). by rewrite lookup_empty in H.
  - constructor.
  - constructor.
  - intros t o f b oid z ks H. by rewrite lookup_empty in H.
  - intros t o f oid z ks H. by rewrite lookup_empty in H.
  - intros t1 o1 f1 t2 o2 f2 H. by rewrite lookup_empty in H.
  - intros t o f H. by rewrite lookup_empty in H.
Qed.

Lemma xi_alloc A K h oid z : XI A K h → K !! oid = None → XI A (<[oid := (z, [])]> K) h.
Proof.
  intros X HK. constructor; try apply X.
  - intros t o f b oid' z' ks HA Hacq HK' Hin. destruct (decide (oid' = oid)) as [->|Hne].
    + rewrite lookup_insert in HK'. injection HK' as <- <-. by apply elem_of_nil in Hin.
    + rewrite lookup_insert_ne in HK' by done. by apply (xi_size _ _ _ X t o f b oid' z' ks).
  - intros t o f oid' z' ks HA Hacq HK'. destruct (decide (oid' = oid)) as [->|Hne].
    + rewrite lookup_insert in HK'. injection HK' as <- <-. by intros ?%elem_of_nil.
    + rewrite lookup_insert_ne in HK' by done. by apply (xi_unl_gone _ _ _ X t o f oid' z' ks).
Qed.

Lemma xi_call A K h tid op :
  XI A K h → A !! tid = None →
  (acq_op op = true → ∀ oid z ks, K !! oid = Some (z, ks) → op_key op ∉ ks) →
  XI (<[tid := (op, None, false)]> A) K (h ++ [EvInv tid op]).
Proof.
  intros X HA Hfresh. constructor.
  - intros t o. rewrite h_invs_app. simpl. rewrite elem_of_app, elem_of_list_singleton. split.
    + intros [Hin|[= -> ->]].
      * apply (xi_inv _ _ _ X) in Hin as (f & b & Hl). exists f, b. rewrite lookup_insert_ne; [done|]. intros ->. congruence.
      * exists None, false. by rewrite lookup_insert.
    + intros (f & b & Hl). destruct (decide (t = tid)) as [->|Hne].
      * rewrite lookup_insert in Hl. injection Hl as -> <- <-. by right.
      * rewrite lookup_insert_ne in Hl by done. left. apply (xi_inv _ _ _ X). eauto.
  - intros t r. rewrite h_ress_app. simpl. rewrite app_nil_r. rewrite (xi_res _ _ _ X). split.
    + intros (o & b & Hl). exists o, b. rewrite lookup_insert_ne; [done|]. intros ->. congruence.
    + intros (o & b & Hl). destruct (decide (t = tid)) as [->|Hne].
      * rewrite lookup_insert in Hl. done.
      * rewrite lookup_insert_ne in Hl by done. eauto.
  - rewrite h_invs_app, fmap_app. simpl. apply NoDup_app. split; [apply X|]. split; [|apply NoDup_singleton].
    intros x Hx ->%elem_of_list_singleton. apply elem_of_list_fmap in Hx as ([t o] & -> & Hin). simpl in *.
    apply (xi_inv _ _ _ X) in Hin as (f & b & Hl). congruence.
  - rewrite h_ress_app. simpl. rewrite app_nil_r. apply X.
  - intros t o f b oid z ks Hl Hacq HK Hin. destruct (decide (t = tid)) as [->|Hne].
    + rewrite lookup_insert in Hl. injection Hl as <- <- <-. by destruct (Hfresh Hacq oid z ks HK).
    + rewrite lookup_insert_ne in Hl by done. by apply (xi_size _ _ _ X t o f b oid z ks).
  - intros t o f oid z ks Hl Hacq HK. destruct (decide (t = tid)) as [->|Hne].
    + by rewrite lookup_insert in Hl.
    + rewrite lookup_insert_ne in Hl by done. by apply (xi_unl_gone _ _ _ X t o f oid z ks).
  - intros t1 o1 f1 t2 o2 f2 H1 H2. destruct (decide (t1 = tid)) as [->|Hne1]; [by rewrite lookup_insert in H1|].
    destruct (decide (t2 = tid)) as [->|Hne2]; [by rewrite lookup_insert in H2|].
    rewrite lookup_insert_ne in H1, H2 by done. by apply (xi_unl_once _ _ _ X t1 o1 f1 t2 o2 f2).
  - intros t o f Hl Hacq. destruct (decide (t = tid)) as [->|Hne]; [by rewrite lookup_insert in Hl|].
    rewrite lookup_insert_ne in Hl by done. destruct (xi_unl_granted _ _ _ X t o f Hl Hacq) as (t' & o' & Hl' & ?).
    exists t', o'. split; [|done]. rewrite lookup_insert_ne; [done|]. intros ->. congruence.
Qed.

Lemma xi_fin A K h tid o r b :
  XI A K h → A !! tid = Some (o, None, b) → XI (<[tid := (o, Some r, b)]> A) K (h ++ [EvRes tid r]).
Proof.
  intros X HA.
  assert (∀ t o' f' b', <[tid := (o, Some r, b)]> A !! t = Some (o', f', b') → ∃ f'', A !! t = Some (o', f'', b')) as Hback.
  { intros t o' f' b' Hl. destruct (decide (t = tid)) as [->|Hne].
    - rewrite lookup_insert in Hl. injection Hl as <- <- <-. eauto.
    - rewrite lookup_insert_ne in Hl by done. eauto. }
  constructor.
  - intros t o'. rewrite h_invs_app. simpl. rewrite app_nil_r. rewrite (xi_inv _ _ _ X). split.
    + intros (f & b' & Hl). destruct (decide (t = tid)) as [->|Hne].
      * rewrite HA in Hl. injection Hl as <- <- <-. exists (Some r), b. by rewrite lookup_insert.
      * exists f, b'. by rewrite lookup_insert_ne.
    + intros (f & b' & Hl). apply Hback in Hl as (f'' & Hl). eauto.
  - intros t r'. rewrite h_ress_app. simpl. rewrite elem_of_app, elem_of_list_singleton. split.
    + intros [Hin|[= -> ->]].
      * apply (xi_res _ _ _ X) in Hin as (o' & b' & Hl). exists o', b'. rewrite lookup_insert_ne; [done|]. intros ->. congruence.
      * exists o, b. by rewrite lookup_insert.
    + intros (o' & b' & Hl). destruct (decide (t = tid)) as [->|Hne].
      * rewrite lookup_insert in Hl. injection Hl as <- <- <-. by right.
      * rewrite lookup_insert_ne in Hl by done. left. apply (xi_res _ _ _ X). eauto.
  - rewrite h_invs_app. simpl. rewrite app_nil_r. apply X.
  - rewrite h_ress_app, fmap_app. simpl. apply NoDup_app. split; [apply X|]. split; [|apply NoDup_singleton].
    intros x Hx ->%elem_of_list_singleton. apply elem_of_list_fmap in Hx as ([t r'] & -> & Hin). simpl in *.
    apply (xi_res _ _ _ X) in Hin as (o' & b' & Hl). congruence.
  - intros t o' f' b' oid z ks Hl Hacq HK Hin. apply Hback in Hl as (f'' & Hl). by apply (xi_size _ _ _ X t o' f'' b' oid z ks).
  - intros t o' f' oid z ks Hl Hacq HK. apply Hback in Hl as (f'' & Hl). by apply (xi_unl_gone _ _ _ X t o' f'' oid z ks).
  - intros t1 o1 f1 t2 o2 f2 H1 H2. apply Hback in H1 as (f1' & H1). apply Hback in H2 as (f2' & H2).
    by apply (xi_unl_once _ _ _ X t1 o1 f1' t2 o2 f2').
  - intros t o' f' Hl Hacq. apply Hback in Hl as (f'' & Hl). destruct (xi_unl_granted _ _ _ X t o' f'' Hl Hacq) as (t' & o'' & Hl' & ?).
    exists t', o''. split; [|done]. rewrite lookup_insert_ne; [done|]. intros ->. congruence.
Qed.

(** a thread's "success decided" bit is set (PAddKey -> PDone ok, PUnlRem -> PDone ok): history and answers unchanged *)
Lemma xi_setbit_base A K h tid o :
  XI A K h → A !! tid = Some (o, None, false) →
  let A' := <[tid := (o, None, true)]> A in
  (∀ t o' f' b', A' !! t = Some (o', f', b') → ∃ b'', A !! t = Some (o', f', b'') ∧ (t ≠ tid → b'' = b')) ∧
  (∀ t o', (t, o') ∈ h_invs h ↔ ∃ f b, A' !! t = Some (o', f, b)) ∧
  (∀ t r, (t, r) ∈ h_ress h ↔ ∃ o' b, A' !! t = Some (o', Some r, b)).
Proof.
  intros X HA A'.
  assert (∀ t o' f' b', A' !! t = Some (o', f', b') → ∃ b'', A !! t = Some (o', f', b'') ∧ (t ≠ tid → b'' = b')) as Hback.
  { intros t o' f' b' Hl. unfold A' in Hl. destruct (decide (t = tid)) as [->|Hne].
    - rewrite lookup_insert in Hl. injection Hl as <- <- <-. eauto.
    - rewrite lookup_insert_ne in Hl by done. eauto. }
  split; [done|]. split.
  - intros t o'. rewrite (xi_inv _ _ _ X). split.
    + intros (f & b' & Hl). destruct (decide (t = tid)) as [->|Hne].
      * rewrite HA in Hl. injection Hl as <- <- <-. exists None, true. unfold A'. by rewrite lookup_insert.
      * exists f, b'. unfold A'. by rewrite lookup_insert_ne.
    + intros (f & b' & Hl). apply Hback in Hl as (b'' & Hl & _). eauto.
  - intros t r. rewrite (xi_res _ _ _ X). split.
    + intros (o' & b' & Hl). exists o', b'. unfold A'. rewrite lookup_insert_ne; [done|]. intros ->. congruence.
    + intros (o' & b' & Hl). apply Hback in Hl as (b'' & Hl & _). eauto.
Qed.

Lemma xi_add A K h tid o oid z ks :
  XI A K h → A !! tid = Some (o, None, false) → K !! oid = Some (z, ks) →
  acq_op o = true → z = op_size o →
  (∀ t1 o1 f1 b1, A !! t1 = Some (o1, f1, b1) → acq_op o1 = true → op_key o1 = op_key o → t1 = tid) →
  (∀ t' o' f' b', A !! t' = Some (o', f', b') → acq_op o' = false → op_key o' ≠ op_key o) →
  XI (<[tid := (o, None, true)]> A) (<[oid := (z, ks ++ [op_key o])]> K) h.
Proof.
  intros X HA HK Hacq Hz Hfresh Hnounl.
  destruct (xi_setbit_base A K h tid o X HA) as (Hback & Hinv & Hres).
  constructor; [exact Hinv|exact Hres|apply X|apply X| | | |].
  - intros t o' f' b' oid' z' ks' Hl Hacq' HK' Hin. apply Hback in Hl as (b'' & Hl & _).
    destruct (decide (oid' = oid)) as [->|Hne].
    + rewrite lookup_insert in HK'. injection HK' as <- <-. apply elem_of_app in Hin as [Hin|Hin%elem_of_list_singleton].
      * by apply (xi_size _ _ _ X t o' f' b'' oid z ks).
      * assert (t = tid) as -> by (by apply (Hfresh t o' f' b'')). rewrite HA in Hl. by injection Hl as <- _ _.
    + rewrite lookup_insert_ne in HK' by done. by apply (xi_size _ _ _ X t o' f' b'' oid' z' ks').
  - intros t o' f' oid' z' ks' Hl Hacq' HK'. apply Hback in Hl as (b'' & Hl & Hb).
    assert (t ≠ tid) as Hne by (intros ->; rewrite HA in Hl; injection Hl as <- _ _; congruence).
    rewrite (Hb Hne) in Hl. destruct (decide (oid' = oid)) as [->|Hne'].
    + rewrite lookup_insert in HK'. injection HK' as <- <-. intros [Hin|Hin%elem_of_list_singleton]%elem_of_app.
      * by apply (xi_unl_gone _ _ _ X t o' f' oid z ks).
      * by apply (Hnounl t o' f' true).
    + rewrite lookup_insert_ne in HK' by done. by apply (xi_unl_gone _ _ _ X t o' f' oid' z' ks').
  - intros t1 o1 f1 t2 o2 f2 H1 H2 Ha1 Ha2. apply Hback in H1 as (b1 & H1 & Hb1). apply Hback in H2 as (b2 & H2 & Hb2).
    assert (t1 ≠ tid) as Hne1 by (intros ->; rewrite HA in H1; injection H1 as <- _ _; congruence).
    assert (t2 ≠ tid) as Hne2 by (intros ->; rewrite HA in H2; injection H2 as <- _ _; congruence).
    rewrite (Hb1 Hne1) in H1. rewrite (Hb2 Hne2) in H2. by apply (xi_unl_once _ _ _ X t1 o1 f1 t2 o2 f2).
  - intros t o' f' Hl Hacq'. apply Hback in Hl as (b'' & Hl & Hb).
    assert (t ≠ tid) as Hne by (intros ->; rewrite HA in Hl; injection Hl as <- _ _; congruence).
    rewrite (Hb Hne) in Hl. destruct (xi_unl_granted _ _ _ X t o' f' Hl Hacq') as (t' & o'' & Hl' & ?).
    exists t', o''. split; [|done]. rewrite lookup_insert_ne; [done|]. intros ->. congruence.
Qed.

Lemma not_elem_of_remove_first_nodup (k : str) l : NoDup l → k ∉ remove_first k l.
Proof.
  induction 1 as [|x l Hx Hnd IH]; simpl; [by intros ?%elem_of_nil|]. case_bool_decide as E; [by subst|].
  intros [->|?]%elem_of_cons; done.
Qed.

Lemma xi_unl A K h tid o oid z ks :
  XI A K h → A !! tid = Some (o, None, false) → K !! oid = Some (z, ks) → op_key o ∈ ks →
  acq_op o = false → NoDup ks →
  (∀ oid' z' ks', K !! oid' = Some (z', ks') → oid' ≠ oid → op_key o ∉ ks') →
  (∃ t' o', A !! t' = Some (o', Some ok_res, true) ∧ acq_op o' = true ∧ op_name o' = op_name o ∧ op_key o' = op_key o) →
  XI (<[tid := (o, None, true)]> A) (<[oid := (z, remove_first (op_key o) ks)]> K) h.
Proof.
  intros X HA HK Hin Hacq Hnd Hother Hgr.
  destruct (xi_setbit_base A K h tid o X HA) as (Hback & Hinv & Hres).
  constructor; [exact Hinv|exact Hres|apply X|apply X| | | |].
  - intros t o' f' b' oid' z' ks' Hl Hacq' HK' Hin'. apply Hback in Hl as (b'' & Hl & _).
    destruct (decide (oid' = oid)) as [->|Hne].
    + rewrite lookup_insert in HK'. injection HK' as <- <-. apply elem_of_remove_first in Hin'.
      by apply (xi_size _ _ _ X t o' f' b'' oid z ks).
    + rewrite lookup_insert_ne in HK' by done. by apply (xi_size _ _ _ X t o' f' b'' oid' z' ks').
  - intros t o' f' oid' z' ks' Hl Hacq' HK'. apply Hback in Hl as (b'' & Hl & Hb).
    destruct (decide (t = tid)) as [->|Hne].
    + rewrite HA in Hl. injection Hl as <- <- <-. destruct (decide (oid' = oid)) as [->|Hne'].
      * rewrite lookup_insert in HK'. injection HK' as <- <-. by apply not_elem_of_remove_first_nodup.
      * rewrite lookup_insert_ne in HK' by done. by apply (Hother oid' z' ks').
    + rewrite (Hb Hne) in Hl. destruct (decide (oid' = oid)) as [->|Hne'].
      * rewrite lookup_insert in HK'. injection HK' as <- <-. intros Hx%elem_of_remove_first.
        by apply (xi_unl_gone _ _ _ X t o' f' oid z ks).
      * rewrite lookup_insert_ne in HK' by done. by apply (xi_unl_gone _ _ _ X t o' f' oid' z' ks').
  - assert (∀ t2 o2 f2, A !! t2 = Some (o2, f2, true) → acq_op o2 = false → op_key o2 ≠ op_key o) as Hno.
    { intros t2 o2 f2 H2 Ha2 E. apply (xi_unl_gone _ _ _ X t2 o2 f2 oid z ks H2 Ha2 HK). by rewrite E. }
    intros t1 o1 f1 t2 o2 f2 H1 H2 Ha1 Ha2 E. apply Hback in H1 as (b1 & H1 & Hb1). apply Hback in H2 as (b2 & H2 & Hb2).
    destruct (decide (t1 = tid)) as [->|Hne1], (decide (t2 = tid)) as [->|Hne2]; try done.
    + rewrite HA in H1. injection H1 as <- <- <-. rewrite (Hb2 Hne2) in H2. by destruct (Hno t2 o2 f2 H2 Ha2).
    + rewrite HA in H2. injection H2 as <- <- <-. rewrite (Hb1 Hne1) in H1. by destruct (Hno t1 o1 f1 H1 Ha1).
    + rewrite (Hb1 Hne1) in H1. rewrite (Hb2 Hne2) in H2. by apply (xi_unl_once _ _ _ X t1 o1 f1 t2 o2 f2).
  - intros t o' f' Hl Hacq'. apply Hback in Hl as (b'' & Hl & Hb).
    assert (∃ t' o'', A !! t' = Some (o'', Some ok_res, true) ∧ acq_op o'' = true ∧ op_name o'' = op_name o' ∧ op_key o'' = op_key o')
      as (t' & o'' & Hl' & ?).
    { destruct (decide (t = tid)) as [->|Hne].
      - rewrite HA in Hl. injection Hl as <- <- <-. exact Hgr.
      - rewrite (Hb Hne) in Hl. by apply (xi_unl_granted _ _ _ X t o' f'). }
    exists t', o''. split; [|done]. rewrite lookup_insert_ne; [done|]. intros ->. congruence.
Qed.

(** ** The linking invariant holds in every reachable state *)
Definition XInv (s : lstate) : Prop := XI (avw s) (kvw s) (hist s).

Lemma av_fin t o r b : av t = (o, Some r, b) → t_op t = o ∧ t_pc t = PFin r ∧ b = bool_decide (r = ok_res).
Proof. unfold av. intros [= <- Hf <-]. destruct (t_pc t); try done. simpl in *. by injection Hf as ->. Qed.

Lemma xinv_step minidle s it : LInv s → item_ok s it → XInv s → XInv (lstep minidle s it).
Proof.
  intros I Hok X. unfold XInv.
  destruct (lstep_akind minidle s it I) as [Ha Hk Hh|oid z Ha HK Hk Hh|tid op Hit HA Ha Hk Hh|tid o r HA Ha Hk Hh
                                           |tid t oid z ks Ht Hpc HK Ha Hk Hh|tid t oid z ks Ht Hpc HK Hin Ha Hk Hh];
    rewrite Ha, Hk, Hh.
  - exact X.
  - by apply xi_alloc.
  - apply xi_call; [done|done|]. subst it. destruct Hok as [Hk1 _]. intros Hacq oid z ks HK Hin.
    apply kvw_lookup_inv in HK as (o & Ho & Hkv). injection Hkv as <- <-.
    destruct (li_keys _ I _ _ Ho) as [_ Hkeys]. destruct (Hkeys _ Hin) as (tid0 & t0 & Ht0 & _ & Hkey0 & _).
    by apply (Hk1 Hacq tid0 t0 Ht0).
  - by apply xi_fin.
  - apply kvw_lookup_inv in HK as HK'. destruct HK' as (o & Ho & Hkv). injection Hkv as <- <-.
    assert (is_acq (t_op t) = true) as Hacq by (apply (li_acq_pc _ I tid t oid Ht); auto).
    apply xi_add; [done| |done|done| | |].
    + rewrite (avw_lookup _ _ t Ht). unfold av. by rewrite Hpc.
    + destruct (li_pc _ I tid t oid Ht) as (o' & Ho' & _ & Hsz); [by rewrite Hpc|]. simplify_eq. by apply Hsz.
    + intros t1 o1 f1 b1 Hl Hacq1 Hkey. apply avw_lookup_inv in Hl as (x1 & Hx1 & Hav). injection Hav as <- _ _.
      by apply (li_fresh _ I t1 tid x1 t).
    + intros t' o' f' b' Hl Hacq' Hkey. apply avw_lookup_inv in Hl as (x' & Hx' & Hav). injection Hav as <- _ _.
      destruct (li_unl_key _ I t' x' tid t Hx' Hacq' Ht Hacq (eq_sym Hkey)) as [r Hr]. by rewrite Hpc in Hr.
  - apply kvw_lookup_inv in HK as HK'. destruct HK' as (o & Ho & Hkv). injection Hkv as <- <-.
    assert (is_acq (t_op t) = false) as Hacq by (apply (li_unl_pc _ I tid t oid Ht); auto).
    destruct (li_keys _ I _ _ Ho) as [Hnd Hkeys].
    destruct (Hkeys _ Hin) as (ta & xa & Hxa & Hacqa & Hkeya & Hnamea & Hpca).
    apply xi_unl; [done| |done|done|done|done| |].
    + rewrite (avw_lookup _ _ t Ht). unfold av. by rewrite Hpc.
    + intros oid' z' ks' HK' Hne Hin'. apply kvw_lookup_inv in HK' as (o' & Ho' & Hkv). injection Hkv as <- <-.
      destruct (li_keys _ I _ _ Ho') as [_ Hkeys']. destruct (Hkeys' _ Hin') as (tb & xb & Hxb & Hacqb & Hkeyb & Hnameb & _).
      assert (ta = tb) as <- by (apply (li_fresh _ I ta tb xa xb); congruence). simplify_eq.
      assert (o_deleted o = false) as Hd.
      { destruct (o_deleted o) eqn:E; [|done]. destruct (li_deleted _ I _ _ Ho E) as (_ & Hnil & _). rewrite Hnil in Hin. by apply elem_of_nil in Hin. }
      assert (o_deleted o' = false) as Hd'.
      { destruct (o_deleted o') eqn:E; [|done]. destruct (li_deleted _ I _ _ Ho' E) as (_ & Hnil & _). rewrite Hnil in Hin'. by apply elem_of_nil in Hin'. }
      destruct (li_heap _ I _ _ Ho) as (_ & _ & Hm). destruct (li_heap _ I _ _ Ho') as (_ & _ & Hm').
      specialize (Hm Hd). specialize (Hm' Hd'). rewrite <- Hnamea in Hm. rewrite <- Hnameb in Hm'. congruence.
    + destruct (li_unl_key _ I tid t ta xa Ht Hacq Hxa Hacqa Hkeya) as [r Hr].
      assert (t_pc xa = PFin ok_res) as Hfin by (unfold ok_res; destruct Hpca as [E|E]; congruence).
      destruct (li_pc _ I tid t oid Ht) as (o' & Ho' & Hname & _); [by rewrite Hpc|]. simplify_eq.
      exists ta, (t_op xa). split_and!; [|done|congruence|done].
      rewrite (avw_lookup _ _ xa Hxa). unfold av. by rewrite Hfin.
Qed.

Theorem xinv_reach minidle s : lreach minidle s → XInv s.
Proof.
  induction 1 as [|s it Hr IH Hok].
  - unfold XInv, avw, kvw, hist. simpl. rewrite !fmap_empty. apply xi_init.
  - apply xinv_step; [by apply (linv_reach minidle)|done|done].
Qed.

(** ** Prefixes *)
Lemma all_prefixes_spec Q h : all_prefixes Q h = true ↔ ∀ n, (n ≤ length h)%nat → Q (take n h) = true.
Proof.
  unfold all_prefixes. rewrite forallb_forall. split.
  - intros H n Hn. apply H, in_seq. lia.
  - intros H n Hn%in_seq. apply H. lia.
Qed.

Lemma all_prefixes_snoc Q h e : all_prefixes Q h = true → Q (h ++ [e]) = true → all_prefixes Q (h ++ [e]) = true.
Proof.
  rewrite !all_prefixes_spec. intros H1 H2 n Hn. rewrite app_length in Hn. simpl in Hn.
  destruct (decide (n ≤ length h)%nat) as [Hle|Hgt].
  - rewrite take_app_le by done. by apply H1.
  - rewrite take_ge; [done|]. rewrite app_length. simpl. lia.
Qed.

Lemma first_bad_none Q h : first_bad Q h = None ↔ all_prefixes Q h = true.
Proof.
  unfold first_bad, all_prefixes. induction (seq 0 (S (length h))) as [|n l IH]; [done|].
  cbn [find forallb]. destruct (Q (take n h)); simpl; [exact IH|done].
Qed.

(** a step appends at most one observable event *)
Lemma hist_step minidle s it : LInv s → hist (lstep minidle s it) = hist s ∨ ∃ e, hist (lstep minidle s it) = hist s ++ [e].
Proof. intros I. destruct (lstep_akind minidle s it I); eauto. Qed.

(** what holds of the history of every reachable state holds of every prefix of the history of every reachable state *)
Lemma all_prefixes_reach (Q : list lev → bool) :
  (∀ minidle s, lreach minidle s → Q (hist s) = true) → ∀ minidle s, lreach minidle s → all_prefixes Q (hist s) = true.
Proof.
  intros HQ minidle s Hr. induction Hr as [|s it Hr IH Hok].
  - assert (hist l_init = []) as E by done. apply all_prefixes_spec. intros n Hn. rewrite E, take_nil, <- E. apply (HQ minidle l_init). constructor.
  - destruct (hist_step minidle s it (linv_reach _ _ Hr)) as [->|[e He]]; [done|].
    rewrite He. apply all_prefixes_snoc; [done|]. rewrite <- He. apply (HQ minidle). by constructor.
Qed.

(** ** The state predicates at a reachable state *)
Section at_state.
  Context (minidle : Z) (s : lstate) (Hr : lreach minidle s).
  Let I : LInv s := linv_reach _ _ Hr.
  Let X : XInv s := xinv_reach _ _ Hr.

  (* an invocation in the history is a thread of the pool *)
  Lemma hist_inv_thread t o : (t, o) ∈ h_invs (hist s) ↔ ∃ x, l_thr s !! t = Some x ∧ t_op x = o.
  Proof.
    rewrite (xi_inv _ _ _ X). split.
    - intros (f & b & Hl). apply avw_lookup_inv in Hl as (x & Hx & Hav). injection Hav as <- _ _. eauto.
    - intros (x & Hx & <-). rewrite (avw_lookup _ _ x Hx). unfold av. eauto.
  Qed.
  (* a response in the history is a thread at PFin *)
  Lemma hist_res_thread t r : (t, r) ∈ h_ress (hist s) ↔ ∃ x, l_thr s !! t = Some x ∧ t_pc x = PFin r.
  Proof.
    rewrite (xi_res _ _ _ X). split.
    - intros (o & b & Hl). apply avw_lookup_inv in Hl as (x & Hx & Hav). apply av_fin in Hav as (_ & ? & _). eauto.
    - intros (x & Hx & Hpc). rewrite (avw_lookup _ _ x Hx). unfold av. rewrite Hpc. simpl. eauto.
  Qed.

  Lemma nodup_invs : NoDup (h_invs (hist s)).
  Proof. apply (NoDup_fmap_1 fst), X. Qed.

  Lemma wf_at_reach : wf_at (hist s) = true.
  Proof.
    unfold wf_at. rewrite !andb_true_iff. split_and!.
    - apply bool_decide_eq_true_2, X.
    - apply bool_decide_eq_true_2, X.
    - apply forallb_forall. intros t Ht%elem_of_list_In. apply bool_decide_eq_true_2.
      apply elem_of_list_fmap in Ht as ([t' r] & -> & Hin). simpl. apply hist_res_thread in Hin as (x & Hx & _).
      apply elem_of_list_fmap. exists (t', t_op x). split; [done|]. apply hist_inv_thread. eauto.
  Qed.

  (* a live hold of the history is a granted key whose Unlock was not invoked *)
  Lemma live_hold_state t o : (t, o) ∈ live_holds (hist s) →
    ∃ x, l_thr s !! t = Some x ∧ t_op x = o ∧ is_acq o = true ∧ t_pc x = PFin ok_res ∧
         granted s (op_name o) (op_key o) ∧ ¬ unlock_invoked s (op_name o) (op_key o).
  Proof.
    unfold live_holds. intros [Hc Hin]%elem_of_list_filter. simpl in Hc.
    apply andb_true_iff in Hc as [[Hacq Hans]%andb_true_iff Hnu]. unfold answered in Hans. apply bool_decide_eq_true in Hans.
    apply hist_inv_thread in Hin as (x & Hx & Hop). apply hist_res_thread in Hans as (x' & Hx' & Hpc).
    assert (x' = x) as -> by congruence. subst o.
    exists x. split_and!; try done.
    - exists t, x. done.
    - intros (tid' & t' & Ht' & Hop'). apply negb_true_iff in Hnu. unfold unl_invoked in Hnu. apply bool_decide_eq_false in Hnu.
      apply Hnu. apply elem_of_list_fmap. exists (tid', OUnl (op_name (t_op x)) (op_key (t_op x))). split; [done|].
      apply hist_inv_thread. eauto.
  Qed.

  Lemma c01_at_reach : c01_at (hist s) = true.
  Proof.
    unfold c01_at. apply forallb_forall. intros [t o] Hin%elem_of_list_In. simpl. apply Z.leb_le.
    set (n := op_name o). set (L := holds_of n (live_holds (hist s))).
    assert (∀ y, y ∈ L → y ∈ live_holds (hist s) ∧ op_name y.2 = n) as HL.
    { intros y [? ?]%elem_of_list_filter. done. }
    assert ((t, o) ∈ L) as HinL by (apply elem_of_list_filter; done).
    set (ks := map (λ y : nat * lop, op_key y.2) L).
    assert (NoDup L) as HndL by (apply NoDup_filter, NoDup_filter, nodup_invs).
    assert (NoDup ks) as Hnd.
    { apply NoDup_fmap_2_strong; [|done]. intros [t1 o1] [t2 o2] H1 H2 Hk. simpl in Hk.
      destruct (HL _ H1) as [(x1 & Hx1 & Hop1 & Hacq1 & _)%live_hold_state _].
      destruct (HL _ H2) as [(x2 & Hx2 & Hop2 & Hacq2 & _)%live_hold_state _].
      assert (t1 = t2) as -> by (apply (li_fresh _ I t1 t2 x1 x2); congruence). congruence. }
    destruct (C01_capacity minidle s n ks Hr Hnd) as (z & (oid & ob & Hm & Hob & Hz) & Hlen).
    - intros E. assert (op_key o ∈ ks) as Hk by (apply elem_of_list_fmap; by exists (t, o)). rewrite E in Hk. by apply elem_of_nil in Hk.
    - intros k ([t1 o1] & -> & H1)%elem_of_list_fmap. simpl. destruct (HL _ H1) as [(x1 & _ & _ & _ & _ & Hg & Hnu)%live_hold_state Hn1].
      simpl in Hn1. by rewrite Hn1 in Hg, Hnu.
    - destruct (live_hold_state t o Hin) as (x & Hx & Hop & Hacq & Hpc & _ & Hnu).
      assert (z = op_size o) as <-.
      { destruct (li_granted _ I t x Hx) as [(oid' & o' & Hm' & Ho' & Hkin)|(tid' & t' & Ht' & Hop')]; [by rewrite Hop|done| |].
        - rewrite Hop in Hm', Hkin. fold n in Hm'. assert (oid' = oid) as -> by congruence. assert (o' = ob) as -> by congruence.
          rewrite <- Hz.
          apply (xi_size _ _ _ X t o (fin_of (t_pc x)) (okpc (t_pc x)) oid (o_size ob) (o_keys ob)); [|done| |done].
          + rewrite (avw_lookup _ _ x Hx). unfold av. by rewrite Hop.
          + by rewrite (kvw_lookup _ _ ob Hob).
        - destruct Hnu. exists tid', t'. by rewrite <- Hop. }
      unfold ks in Hlen. rewrite map_length in Hlen. exact Hlen.
  Qed.

  (* a successful Unlock of the history *)
  Lemma succ_unl_state t o : (t, o) ∈ succ_unl (hist s) → is_acq o = false ∧ (t, o) ∈ h_invs (hist s) ∧ ∃ f, avw s !! t = Some (o, f, true).
  Proof.
    unfold succ_unl. intros [Hc Hin]%elem_of_list_filter. simpl in Hc. apply andb_true_iff in Hc as [Hacq%negb_true_iff Hans].
    unfold answered in Hans. apply bool_decide_eq_true in Hans. split; [done|]. split; [done|].
    apply hist_inv_thread in Hin as (x & Hx & Hop). apply hist_res_thread in Hans as (x' & Hx' & Hpc).
    assert (x' = x) as -> by congruence. subst o.
    exists (Some ok_res). rewrite (avw_lookup _ _ x Hx). unfold av. by rewrite Hpc.
  Qed.

  (* a successful Unlock belongs to a granted acquisition of that name and key *)
  Lemma succ_unl_granted t o : (t, o) ∈ succ_unl (hist s) →
    ∃ t' x', l_thr s !! t' = Some x' ∧ is_acq (t_op x') = true ∧ op_name (t_op x') = op_name o ∧ op_key (t_op x') = op_key o ∧ t_pc x' = PFin ok_res.
  Proof.
    intros (Hacq & _ & f & Hl)%succ_unl_state. destruct (xi_unl_granted _ _ _ X t o f Hl Hacq) as (t' & o' & Hl' & Hacq' & Hn & Hk).
    apply avw_lookup_inv in Hl' as (x' & Hx' & Hav). apply av_fin in Hav as (<- & Hpc & _). exists t', x'. done.
  Qed.

  Lemma nodup_all_eq {A} (l : list A) x : NoDup l → (∀ y, y ∈ l → y = x) → (length l ≤ 1)%nat.
  Proof.
    intros Hnd H. destruct l as [|a [|b l]]; simpl; try lia.
    assert (a = x) as -> by (apply H; left). assert (b = x) as -> by (apply H; right; left).
    apply NoDup_cons in Hnd as [Hn _]. destruct Hn. left.
  Qed.

  Lemma once_at_reach : once_at (hist s) = true.
  Proof.
    unfold once_at. apply forallb_forall. intros [t o] Hin%elem_of_list_In. simpl. apply andb_true_iff. split.
    - apply Nat.leb_le. apply (nodup_all_eq _ (t, o)).
      + apply NoDup_filter, NoDup_filter, nodup_invs.
      + intros [t2 o2] [Ho2 Hin2]%elem_of_list_filter. simpl in Ho2. subst o2.
        destruct (succ_unl_state _ _ Hin) as (Hacq & _ & f & Hl). destruct (succ_unl_state _ _ Hin2) as (_ & _ & f2 & Hl2).
        f_equal. by apply (xi_unl_once _ _ _ X t2 o f2 t o f).
    - destruct (succ_unl_granted _ _ Hin) as (t' & x' & Hx' & Hacq' & Hn & Hk & Hpc).
      unfold granted_acq. apply existsb_exists. exists (t', t_op x'). split.
      + apply elem_of_list_In, hist_inv_thread. eauto.
      + simpl. rewrite !andb_true_iff. split_and!; [done|by apply bool_decide_eq_true_2|by apply bool_decide_eq_true_2|].
        apply bool_decide_eq_true_2, hist_res_thread. eauto.
  Qed.

  (* the key of an acquisition that answered anything but ok never unlocks *)
  Lemma failed_never_unlocks t o r : (t, o) ∈ h_invs (hist s) → is_acq o = true → (t, r) ∈ h_ress (hist s) → r ≠ ok_res →
    unl_succeeded (hist s) (op_name o) (op_key o) = false.
  Proof.
    intros Hin Hacq Hres Hne. apply bool_decide_eq_false. intros ([u ou] & Hou & Hu)%elem_of_list_fmap. simpl in Hou. subst ou.
    destruct (succ_unl_granted _ _ Hu) as (t' & x' & Hx' & Hacq' & Hn & Hk & Hpc). simpl in Hn, Hk.
    apply hist_inv_thread in Hin as (x & Hx & Hop). apply hist_res_thread in Hres as (x2 & Hx2 & Hpc2). simplify_eq.
    assert (t' = t) as -> by (apply (li_fresh _ I t' t x' x); congruence). simplify_eq. congruence.
  Qed.

  Lemma fail_at_reach : fail_at (hist s) = true.
  Proof.
    unfold fail_at. apply forallb_forall. intros [t o] Hin%elem_of_list_In. simpl. apply negb_true_iff.
    unfold failed_acq in Hin. apply elem_of_list_filter in Hin as [Hc Hin]. simpl in Hc.
    apply andb_true_iff in Hc as [Hacq Hex]. apply existsb_exists in Hex as ([t2 r] & Hr2%elem_of_list_In & Hc). simpl in Hc.
    apply andb_true_iff in Hc as [->%bool_decide_eq_true Hne%negb_true_iff%bool_decide_eq_false].
    by apply (failed_never_unlocks t o r).
  Qed.

  Lemma count_fst_one {A} (l : list (nat * A)) t r : NoDup l.*1 → (t, r) ∈ l → length (filter (λ y : nat * A, y.1 = t) l) = 1%nat.
  Proof.
    induction l as [|[t0 r0] l IH]; [by intros _ ?%elem_of_nil|]. rewrite fmap_cons. simpl. intros [Hn Hnd]%NoDup_cons Hin.
    rewrite filter_cons. simpl. destruct (decide (t0 = t)) as [->|Hne].
    - simpl. f_equal. apply length_zero_iff_nil. apply list_empty_no_elem. intros [t1 r1] [E Hin1]%elem_of_list_filter. simpl in E. subst t1.
      apply Hn. apply elem_of_list_fmap. by exists (t, r1).
    - apply IH; [done|]. apply elem_of_cons in Hin as [[= -> ->]|Hin]; done.
  Qed.

  Lemma giveup_at_reach : giveup_at (hist s) = true.
  Proof.
    unfold giveup_at. apply forallb_forall. intros [t o] Hin%elem_of_list_In. simpl.
    unfold gaveup in Hin. apply elem_of_list_filter in Hin as [Hc Hin]. simpl in Hc.
    apply andb_true_iff in Hc as [Hlock Hex]. apply existsb_exists in Hex as ([t2 r] & Hr2%elem_of_list_In & Hc). simpl in Hc.
    apply andb_true_iff in Hc as [->%bool_decide_eq_true Hne%bool_decide_eq_true].
    apply andb_true_iff. split.
    - apply Nat.eqb_eq. apply (count_fst_one _ t r); [apply X|done].
    - apply negb_true_iff. apply (failed_never_unlocks t o r); [done|by destruct o|done|]. intros ->. by apply Hne.
  Qed.
End at_state.

(** ** The model's key assumption, read off the history *)
Lemma fresh_at_snoc h e : fresh_at (h ++ [e]) = fresh_ev h e.
Proof. unfold fresh_at. rewrite rev_app_distr. simpl. by rewrite rev_involutive. Qed.

Lemma fresh_ev_call minidle s tid op : lreach minidle s → item_ok s (ICall tid op) → fresh_ev (hist s) (EvInv tid op) = true.
Proof.
  intros Hr [Hk1 Hk2]. simpl. destruct (acq_op op) eqn:Hacq.
  - apply negb_true_iff, bool_decide_eq_false. intros ([t' o'] & Hk & Hin)%elem_of_list_fmap. simpl in Hk.
    apply (hist_inv_thread minidle s Hr) in Hin as (x & Hx & <-). by apply (Hk1 Hacq t' x Hx).
  - apply forallb_forall. intros [t' o'] Hin%elem_of_list_In. simpl.
    destruct (acq_op o' && bool_decide (op_key o' = op_key op)) eqn:Hc; [|done]. simpl.
    apply andb_true_iff in Hc as [Hacq' Hk%bool_decide_eq_true]. apply bool_decide_eq_true_2.
    apply (hist_inv_thread minidle s Hr) in Hin as (x & Hx & <-). destruct (Hk2 Hacq t' x Hx Hacq' Hk) as [r Hpc].
    apply elem_of_list_fmap. exists (t', r). split; [done|]. apply (hist_res_thread minidle s Hr). eauto.
Qed.

Lemma fresh_reach minidle s : lreach minidle s → all_prefixes fresh_at (hist s) = true.
Proof.
  induction 1 as [|s it Hr IH Hok]; [done|].
  destruct (lstep_akind minidle s it (linv_reach _ _ Hr)) as [_ _ ->|? ? _ _ _ ->|tid op -> _ _ _ ->|tid o r _ _ _ ->|? ? ? ? ? _ _ _ _ _ ->|? ? ? ? ? _ _ _ _ _ _ ->];
    try done.
  - apply all_prefixes_snoc; [done|]. rewrite fresh_at_snoc. by apply (fresh_ev_call minidle).
  - apply all_prefixes_snoc; [done|]. by rewrite fresh_at_snoc.
Qed.

(** ** The theorems: every reachable trace of Mlk (all interleavings, all schedules) satisfies the trace predicates *)
Lemma p_hist Q s : all_prefixes Q (obsh (rev (l_trace s))) = all_prefixes Q (hist s).
Proof. done. Qed.

Theorem mlk_satisfies_p_wellformed : ∀ minidle s, lreach minidle s → p_wellformed (rev (l_trace s)) = true.
Proof. intros minidle s Hr. unfold p_wellformed. rewrite p_hist. apply (all_prefixes_reach wf_at wf_at_reach minidle s Hr). Qed.

Theorem mlk_satisfies_p_fresh : ∀ minidle s, lreach minidle s → p_fresh (rev (l_trace s)) = true.
Proof. intros minidle s Hr. unfold p_fresh. rewrite p_hist. by apply (fresh_reach minidle). Qed.

Theorem mlk_satisfies_p_c01 : ∀ minidle s, lreach minidle s → p_c01 (rev (l_trace s)) = true.
Proof. intros minidle s Hr. unfold p_c01. rewrite p_hist. apply (all_prefixes_reach c01_at c01_at_reach minidle s Hr). Qed.

Theorem mlk_satisfies_p_c02_once : ∀ minidle s, lreach minidle s → p_c02_once (rev (l_trace s)) = true.
Proof. intros minidle s Hr. unfold p_c02_once. rewrite p_hist. apply (all_prefixes_reach once_at once_at_reach minidle s Hr). Qed.

Theorem mlk_satisfies_p_c02_fail_consumes_nothing : ∀ minidle s, lreach minidle s → p_c02_fail_consumes_nothing (rev (l_trace s)) = true.
Proof. intros minidle s Hr. unfold p_c02_fail_consumes_nothing. rewrite p_hist. apply (all_prefixes_reach fail_at fail_at_reach minidle s Hr). Qed.

Theorem mlk_satisfies_p_c03_giveup : ∀ minidle s, lreach minidle s → p_c03_giveup (rev (l_trace s)) = true.
Proof. intros minidle s Hr. unfold p_c03_giveup. rewrite p_hist. apply (all_prefixes_reach giveup_at giveup_at_reach minidle s Hr). Qed.

(** what [lkdriver trace] prints for a model trace: no offending prefix for any predicate *)
Theorem mlk_trace_verdict : ∀ minidle s, lreach minidle s → lk_trace_verdict (rev (l_trace s)) = [None; None; None; None; None; None].
Proof.
  intros minidle s Hr. unfold lk_trace_verdict. cbv zeta.
  pose proof (mlk_satisfies_p_fresh _ _ Hr) as H1. pose proof (mlk_satisfies_p_wellformed _ _ Hr) as H2.
  pose proof (mlk_satisfies_p_c01 _ _ Hr) as H3. pose proof (mlk_satisfies_p_c02_once _ _ Hr) as H4.
  pose proof (mlk_satisfies_p_c02_fail_consumes_nothing _ _ Hr) as H5. pose proof (mlk_satisfies_p_c03_giveup _ _ Hr) as H6.
  apply first_bad_none in H1, H2, H3, H4, H5, H6. by rewrite H1, H2, H3, H4, H5, H6.
Qed.

(** the link to the state notions, for the record: the observable history IS the call/return history of the thread pool *)
Theorem mlk_history_is_thread_pool : ∀ minidle s, lreach minidle s →
  (∀ tid op, EvInv tid op ∈ rev (l_trace s) ↔ ∃ t, l_thr s !! tid = Some t ∧ t_op t = op) ∧
  (∀ tid r, EvRes tid r ∈ rev (l_trace s) ↔ ∃ t, l_thr s !! tid = Some t ∧ t_pc t = PFin r).
Proof.
  intros minidle s Hr.
  assert (∀ (h : list lev) t o, EvInv t o ∈ h ↔ (t, o) ∈ h_invs (obsh h)) as Hi.
  { intros h t o. unfold h_invs, obsh. rewrite elem_of_list_omap. split.
    - intros H. exists (EvInv t o). split; [|done]. by apply elem_of_list_filter.
    - intros (e & [_ He]%elem_of_list_filter & Hm). destruct e; try done. by injection Hm as -> ->. }
  assert (∀ (h : list lev) t r, EvRes t r ∈ h ↔ (t, r) ∈ h_ress (obsh h)) as Hrs.
  { intros h t r. unfold h_ress, obsh. rewrite elem_of_list_omap. split.
    - intros H. exists (EvRes t r). split; [|done]. by apply elem_of_list_filter.
    - intros (e & [_ He]%elem_of_list_filter & Hm). destruct e; try done. by injection Hm as -> ->. }
  split.
  - intros tid op. rewrite Hi. apply (hist_inv_thread minidle s Hr).
  - intros tid r. rewrite Hrs. apply (hist_res_thread minidle s Hr).
Qed.

(** ** Non-vacuity *)
(** the run of Proofs/LkExample.v continued: the Unlock returns, thread 2 takes note of the hand-off and reports its grant *)
Definition ex_sched_handoff : list item := ex_sched ++ [IRun 3; IRun 2; IRun 2; IRun 2; IRun 2]%nat.
Definition lex_handoff : lstate := lrun 0 ex_sched_handoff.
Lemma lex_handoff_reach : lreach 0 lex_handoff.
Proof. apply lrun_reach. by vm_compute. Qed.
Definition lex_handoff_hist : list lev := obsh (rev (l_trace lex_handoff)).
(** inv 1, granted 1, inv 2 (Lock, queued), inv 3 (Unlock k1), Unlock ok, thread 2 granted: the hand-off, six observable events *)
Example lex_handoff_history :
  lex_handoff_hist = [EvInv 1 (OTry xa xk1 1); EvRes 1 ok_res; EvInv 2 (OLock xa xk2 1); EvInv 3 (OUnl xa xk1); EvRes 3 ok_res; EvRes 2 ok_res]%nat.
Proof. by vm_compute. Qed.
Example lex_handoff_p_c01 : p_c01 (rev (l_trace lex_handoff)) = true ∧ live_holds lex_handoff_hist = [(2%nat, OLock xa xk2 1)].
Proof. split; [apply (mlk_satisfies_p_c01 0), lex_handoff_reach|by vm_compute]. Qed.
Example lex_handoff_all : lk_trace_verdict (rev (l_trace lex_handoff)) = [None; None; None; None; None; None].
Proof. by vm_compute. Qed.

(** doctored histories on which the predicates are FALSE (and the key assumption and well-formedness hold) *)
(* two grants of the size-1 lock "a" *)
Definition bad_two_grants : list lev :=
  [EvInv 1 (OTry xa xk1 1); EvInv 2 (OTry xa xk2 1); EvRes 1 ok_res; EvRes 2 ok_res]%nat.
Example bad_two_grants_c01 :
  p_c01 bad_two_grants = false ∧ first_bad c01_at bad_two_grants = Some 4%nat ∧ p_fresh bad_two_grants = true ∧ p_wellformed bad_two_grants = true.
Proof. by vm_compute. Qed.
(* ... while one grant, an Unlock INVOKED, then the second grant is fine: the hold stops counting at the invocation *)
Example ok_grant_after_unlock_invoked :
  p_c01 [EvInv 1 (OTry xa xk1 1); EvRes 1 ok_res; EvInv 3 (OUnl xa xk1); EvInv 2 (OTry xa xk2 1); EvRes 2 ok_res]%nat = true.
Proof. by vm_compute. Qed.
(* the same key unlocks twice *)
Definition bad_double_unlock : list lev :=
  [EvInv 1 (OTry xa xk1 1); EvRes 1 ok_res; EvInv 2 (OUnl xa xk1); EvRes 2 ok_res; EvInv 3 (OUnl xa xk1); EvRes 3 ok_res]%nat.
Example bad_double_unlock_once : p_c02_once bad_double_unlock = false ∧ first_bad once_at bad_double_unlock = Some 6%nat ∧ p_fresh bad_double_unlock = true.
Proof. by vm_compute. Qed.
(* a key that was never granted unlocks *)
Example bad_unlock_ungranted : p_c02_once [EvInv 2 (OUnl xa xk1); EvRes 2 ok_res]%nat = false.
Proof. by vm_compute. Qed.
(* the key of a refused TryLock unlocks: the refused call consumed capacity *)
Definition bad_refused_holds : list lev :=
  [EvInv 1 (OTry xa xk1 1); EvRes 1 ok_res; EvInv 2 (OTry xa xk2 1); EvRes 2 (LRes false None); EvInv 3 (OUnl xa xk2); EvRes 3 ok_res]%nat.
Example bad_refused_holds_fail : p_c02_fail_consumes_nothing bad_refused_holds = false ∧ p_fresh bad_refused_holds = true.
Proof. by vm_compute. Qed.
(* a Lock that gave up is granted afterwards *)
Definition bad_giveup_granted : list lev :=
  [EvInv 1 (OTry xa xk1 1); EvRes 1 ok_res; EvInv 2 (OLock xa xk2 1); EvRes 2 (res_err ECtxCanceled); EvRes 2 ok_res]%nat.
Example bad_giveup_granted_c03 : p_c03_giveup bad_giveup_granted = false ∧ p_wellformed bad_giveup_granted = false.
Proof. by vm_compute. Qed.
(* a response without a call *)
Example bad_orphan_response : p_wellformed [EvRes 1 ok_res]%nat = false.
Proof. by vm_compute. Qed.
(* a reused key is outside the model's assumption *)
Example bad_reused_key : p_fresh [EvInv 1 (OTry xa xk1 1); EvRes 1 ok_res; EvInv 2 (OTry xa xk1 1)]%nat = false.
Proof. by vm_compute. Qed.

Print Assumptions xinv_reach.
Print Assumptions mlk_satisfies_p_wellformed.
Print Assumptions mlk_satisfies_p_fresh.
Print Assumptions mlk_satisfies_p_c01.
Print Assumptions mlk_satisfies_p_c02_once.
Print Assumptions mlk_satisfies_p_c02_fail_consumes_nothing.
Print Assumptions mlk_satisfies_p_c03_giveup.
Print Assumptions mlk_trace_verdict.
Print Assumptions mlk_history_is_thread_pool.
