(** Preservation of [LInv] by the generic shapes of a step of Mlk:
    - [linv_move_obj]: one thread moves and one existing object is rewritten;
    - [linv_move_thr]: one thread that refers to no object moves;
    - [linv_new_thread], [linv_create], [linv_gc_one], [linv_tick].
    The per-pc case analysis (Proofs/LkInv.v) only has to establish the LOCAL conditions [local_ok]. *)
From Coq Require Import Lia ZifyBool ZifyNat.
From Ldlm Require Import Model.Base Model.Err Model.Lk Proofs.LkDefs Proofs.LkInvBase.
From RecordUpdate Require Import RecordSet.
Import RecordSetNotations.
Local Open Scope Z_scope.

Definition W (pc : lpc) (oid : nat) : Prop := pc = PAcqWait oid ∨ pc = PAcqCancel oid.

Definition pc_kind (op : lop) (pc : lpc) : Prop :=
  match pc with
  | PAcqEnter _ | PAcqWait _ | PAcqWoken _ | PAcqCancel _ | PRelCancel _ => ∃ n k z, op = OLock n k z
  | PChkDel _ | PTryAcq _ | PAddKey _ => is_acq op = true
  | PUnlChk _ | PUnlRem _ => is_acq op = false
  | _ => True
  end.

Lemma W_pc_oid pc oid : W pc oid → pc_oid pc = Some oid.
Proof. by intros [->| ->]. Qed.

Lemma linv_kind s tid t : LInv s → l_thr s !! tid = Some t → pc_kind (t_op t) (t_pc t).
Proof.
  intros HI Ht. destruct (t_pc t) eqn:Hpc; simpl; try done;
    first [ eapply (li_lock_only s HI tid t); [done|rewrite Hpc; eauto 6]
          | eapply (li_acq_pc s HI tid t); [done|rewrite Hpc; eauto]
          | eapply (li_unl_pc s HI tid t); [done|rewrite Hpc; eauto] ].
Qed.

(** an object some call refers to is alive *)
Lemma linv_ref_alive s tid t oid :
  LInv s → l_thr s !! tid = Some t → pc_oid (t_pc t) = Some oid →
  ∃ o, l_heap s !! oid = Some o ∧ o_deleted o = false ∧ 1 ≤ o_users o ∧ o_name o = op_name (t_op t) ∧
       (is_acq (t_op t) = true → o_size o = op_size (t_op t)) ∧ l_map s !! op_name (t_op t) = Some oid.
Proof.
  intros HI Ht Hpc. destruct (li_pc s HI _ _ _ Ht Hpc) as (o & Ho & Hn & Hz). exists o.
  assert (1 ≤ o_users o) as Hu.
  { rewrite (li_users s HI _ _ Ho). eapply count_thr_pos; [done|]. by apply refs_pc_oid. }
  assert (o_deleted o = false) as Hd.
  { destruct (o_deleted o) eqn:Hd; [|done]. destruct (li_deleted s HI _ _ Ho Hd) as (? & _). lia. }
  split_and!; try done. rewrite <-Hn. by apply (li_heap s HI).
Qed.

Lemma linv_not_queued s tid t oid o :
  LInv s → l_thr s !! tid = Some t → l_heap s !! oid = Some o → ¬ W (t_pc t) oid → tid ∉ o_waitq o ++ o_ready o.
Proof.
  intros HI Ht Ho HW Hin. destruct (li_queue s HI _ _ _ Ho Hin) as (t2 & Ht2 & HW2). simplify_eq. done.
Qed.

Record local_ok (s : lstate) (tid : nat) (t t' : thread) (oid : nat) (o o' : lobj) : Prop := {
  lo_op : t_op t' = t_op t;
  lo_pc : ∀ x, pc_oid (t_pc t) = Some x → x = oid;
  lo_pc' : ∀ x, pc_oid (t_pc t') = Some x → x = oid;
  lo_pcname : pc_oid (t_pc t) = None → pc_oid (t_pc t') ≠ None →
      o_name o = op_name (t_op t) ∧ (is_acq (t_op t) = true → o_size o = op_size (t_op t));
  lo_name : o_name o' = o_name o;
  lo_size : o_size o' = o_size o;
  lo_del : o_deleted o = false;
  lo_del' : o_deleted o' = false;
  lo_last : o_last o' ≤ l_now s;
  lo_users : o_users o' = o_users o - Z.b2z (refs oid t) + Z.b2z (refs oid t');
  lo_units : o_cur o' - Z.of_nat (length (o_keys o')) - Z.of_nat (length (o_ready o')) - Z.b2z (in_transit oid t')
             = o_cur o - Z.of_nat (length (o_keys o)) - Z.of_nat (length (o_ready o)) - Z.b2z (in_transit oid t);
  lo_bound : 0 ≤ o_cur o' ≤ o_size o;
  lo_queue : ∀ x, x ∈ o_waitq o' ++ o_ready o' ↔ (x ≠ tid ∧ x ∈ o_waitq o ++ o_ready o) ∨ (x = tid ∧ W (t_pc t') oid);
  lo_nodup : NoDup (o_waitq o' ++ o_ready o');
  lo_wcancel : ∀ x, t_pc t' = PAcqCancel x → t_cancel t' ≠ None;
  lo_cancel : t_cancel t' ≠ None → ∃ n k z, t_op t = OLock n k z;
  lo_wake : o_waitq o' ≠ [] → o_cur o' = o_size o;
  lo_kind : pc_kind (t_op t) (t_pc t');
  lo_keys_nodup : NoDup (o_keys o');
  lo_keys : ∀ k, k ∈ o_keys o' →
      k ∈ o_keys o ∨ (k = op_key (t_op t) ∧ is_acq (t_op t) = true ∧ t_pc t' = PDone oid (LRes true None));
  lo_wit : is_acq (t_op t) = true → ∀ x, (t_pc t = PDone x (LRes true None) ∨ t_pc t = PFin (LRes true None)) →
      (t_pc t' = PDone x (LRes true None) ∨ t_pc t' = PFin (LRes true None));
  lo_removed : ∀ k, k ∈ o_keys o → k ∉ o_keys o' → t_op t = OUnl (o_name o) k;
  lo_done : is_acq (t_op t) = true → t_pc t' = PDone oid (LRes true None) →
      t_pc t = PDone oid (LRes true None) ∨ op_key (t_op t) ∈ o_keys o';
  lo_fin : is_acq (t_op t) = true → t_pc t' = PFin (LRes true None) →
      t_pc t = PFin (LRes true None) ∨ t_pc t = PDone oid (LRes true None);
  lo_finr : ∀ r, t_pc t = PFin r → t_pc t' = PFin r;
  lo_shut : l_shut s = true → in_flight (t_pc t') = false
}.

Section move_obj.
  Context (s s' : lstate) (tid : nat) (t t' : thread) (oid : nat) (o o' : lobj).
  Context (HI : LInv s).
  Context (Ht : l_thr s !! tid = Some t) (Ht' : l_thr s' = <[tid := t']> (l_thr s)).
  Context (Ho : l_heap s !! oid = Some o) (Ho' : l_heap s' = <[oid := o']> (l_heap s)).
  Context (Hmap : l_map s' = l_map s) (Hnext : l_next s' = l_next s) (Hshut : l_shut s' = l_shut s)
          (Hnow : l_now s' = l_now s) (Hcr : l_crashed s' = l_crashed s).
  Context (L : local_ok s tid t t' oid o o').

  Local Lemma thr_inv x y : l_thr s' !! x = Some y → (x = tid ∧ y = t') ∨ (x ≠ tid ∧ l_thr s !! x = Some y).
  Proof. rewrite Ht', lookup_insert_Some. naive_solver. Qed.
  Local Lemma heap_inv x y : l_heap s' !! x = Some y → (x = oid ∧ y = o') ∨ (x ≠ oid ∧ l_heap s !! x = Some y).
  Proof. rewrite Ho', lookup_insert_Some. naive_solver. Qed.
  Local Lemma thr_tid : l_thr s' !! tid = Some t'.
  Proof. by rewrite Ht', lookup_insert. Qed.
  Local Lemma thr_ne x : x ≠ tid → l_thr s' !! x = l_thr s !! x.
  Proof. intros. by rewrite Ht', lookup_insert_ne. Qed.
  Local Lemma heap_oid : l_heap s' !! oid = Some o'.
  Proof. by rewrite Ho', lookup_insert. Qed.
  Local Lemma heap_ne x : x ≠ oid → l_heap s' !! x = l_heap s !! x.
  Proof. intros. by rewrite Ho', lookup_insert_ne. Qed.

  Local Lemma refs_other x : x ≠ oid → refs x t = false ∧ refs x t' = false.
  Proof.
    intros Hx. split; apply refs_false; intros H.
    - by apply (lo_pc _ _ _ _ _ _ _ L) in H.
    - by apply (lo_pc' _ _ _ _ _ _ _ L) in H.
  Qed.
  Local Lemma transit_other x : x ≠ oid → in_transit x t = false ∧ in_transit x t' = false.
  Proof.
    intros Hx. destruct (refs_other x Hx) as [H1 H2].
    split; [destruct (in_transit x t) eqn:E|destruct (in_transit x t') eqn:E]; try done;
      apply in_transit_refs in E; congruence.
  Qed.

  (** the thread after the step still exists with the same op *)
  Local Lemma thr_fwd x y : l_thr s !! x = Some y → ∃ y', l_thr s' !! x = Some y' ∧ t_op y' = t_op y ∧ (x ≠ tid → y' = y).
  Proof.
    intros Hx. destruct (decide (x = tid)) as [->|Hne].
    - exists t'. simplify_eq. split_and!; [apply thr_tid|apply L|done].
    - exists y. by rewrite thr_ne.
  Qed.

  Local Lemma p_map : ∀ n oid1, l_map s' !! n = Some oid1 →
    ∃ o1, l_heap s' !! oid1 = Some o1 ∧ o_name o1 = n ∧ o_deleted o1 = false.
  Proof.
    intros n oid1 H. rewrite Hmap in H. destruct (li_map s HI _ _ H) as (o1 & H1 & Hn & Hd).
    destruct (decide (oid1 = oid)) as [->|Hne].
    - exists o'. simplify_eq. split_and!; [apply heap_oid|apply L|apply L].
    - exists o1. by rewrite heap_ne.
  Qed.

  Local Lemma p_heap : ∀ oid1 o1, l_heap s' !! oid1 = Some o1 →
      (oid1 < l_next s')%nat ∧ 0 < o_size o1 ∧ (o_deleted o1 = false → l_map s' !! o_name o1 = Some oid1).
  Proof.
    intros oid1 o1 H. rewrite Hnext, Hmap. destruct (heap_inv _ _ H) as [[-> ->]|[Hne H1]].
    - destruct (li_heap s HI _ _ Ho) as (? & ? & Hm).
      rewrite (lo_name _ _ _ _ _ _ _ L), (lo_size _ _ _ _ _ _ _ L). split_and!; [done|done|].
      intros _. apply Hm, L.
    - by apply (li_heap s HI).
  Qed.

  Local Lemma p_pc : ∀ tid1 t1 oid1, l_thr s' !! tid1 = Some t1 → pc_oid (t_pc t1) = Some oid1 →
      ∃ o1, l_heap s' !! oid1 = Some o1 ∧ o_name o1 = op_name (t_op t1) ∧ (is_acq (t_op t1) = true → o_size o1 = op_size (t_op t1)).
  Proof.
    intros tid1 t1 oid1 H Hpc. destruct (thr_inv _ _ H) as [[-> ->]|[Hne H1]].
    - pose proof (lo_pc' _ _ _ _ _ _ _ L _ Hpc) as ->. exists o'. split; [apply heap_oid|].
      rewrite (lo_name _ _ _ _ _ _ _ L), (lo_size _ _ _ _ _ _ _ L), (lo_op _ _ _ _ _ _ _ L).
      destruct (pc_oid (t_pc t)) as [x|] eqn:Hx.
      + pose proof (lo_pc _ _ _ _ _ _ _ L _ Hx) as ->.
        destruct (li_pc s HI _ _ _ Ht Hx) as (o2 & ? & ? & ?). by simplify_eq.
      + apply (lo_pcname _ _ _ _ _ _ _ L); [done|]. by rewrite Hpc.
    - destruct (li_pc s HI _ _ _ H1 Hpc) as (o1 & Ho1 & Hn & Hz).
      destruct (decide (oid1 = oid)) as [->|Hne1].
      + exists o'. simplify_eq. split; [apply heap_oid|].
        by rewrite (lo_name _ _ _ _ _ _ _ L), (lo_size _ _ _ _ _ _ _ L).
      + exists o1. by rewrite heap_ne.
  Qed.

  Local Lemma p_users : ∀ oid1 o1, l_heap s' !! oid1 = Some o1 → o_users o1 = count_thr (refs oid1) s'.
  Proof.
    intros oid1 o1 H. rewrite (count_thr_insert _ s s' tid t t' Ht Ht').
    destruct (heap_inv _ _ H) as [[-> ->]|[Hne H1]].
    - rewrite (lo_users _ _ _ _ _ _ _ L), (li_users s HI _ _ Ho). done.
    - destruct (refs_other _ Hne) as [-> ->]. rewrite (li_users s HI _ _ H1). simpl. lia.
  Qed.

  Local Lemma p_deleted : ∀ oid1 o1, l_heap s' !! oid1 = Some o1 → o_deleted o1 = true →
      o_users o1 = 0 ∧ o_keys o1 = [] ∧ o_cur o1 = 0 ∧ o_waitq o1 = [] ∧ o_ready o1 = [].
  Proof.
    intros oid1 o1 H Hd. destruct (heap_inv _ _ H) as [[-> ->]|[Hne H1]].
    - rewrite (lo_del' _ _ _ _ _ _ _ L) in Hd. done.
    - by apply (li_deleted s HI oid1).
  Qed.

  Local Lemma p_units : ∀ oid1 o1, l_heap s' !! oid1 = Some o1 →
      o_cur o1 = Z.of_nat (length (o_keys o1)) + Z.of_nat (length (o_ready o1)) + count_thr (in_transit oid1) s'
      ∧ 0 ≤ o_cur o1 ≤ o_size o1.
  Proof.
    intros oid1 o1 H. rewrite (count_thr_insert _ s s' tid t t' Ht Ht').
    destruct (heap_inv _ _ H) as [[-> ->]|[Hne H1]].
    - destruct (li_units s HI _ _ Ho) as [Hu Hb].
      pose proof (lo_units _ _ _ _ _ _ _ L). pose proof (lo_bound _ _ _ _ _ _ _ L).
      rewrite (lo_size _ _ _ _ _ _ _ L). lia.
    - destruct (transit_other _ Hne) as [-> ->]. destruct (li_units s HI _ _ H1). simpl. lia.
  Qed.

  Local Lemma p_queue : ∀ oid1 o1 tid1, l_heap s' !! oid1 = Some o1 → tid1 ∈ o_waitq o1 ++ o_ready o1 →
      ∃ t1, l_thr s' !! tid1 = Some t1 ∧ (t_pc t1 = PAcqWait oid1 ∨ t_pc t1 = PAcqCancel oid1).
  Proof.
    intros oid1 o1 tid1 H Hin. destruct (heap_inv _ _ H) as [[-> ->]|[Hne H1]].
    - apply (lo_queue _ _ _ _ _ _ _ L) in Hin as [[Hne Hin]|[-> HW]].
      + destruct (li_queue s HI _ _ _ Ho Hin) as (t1 & ? & ?). exists t1. by rewrite thr_ne.
      + exists t'. split; [apply thr_tid|done].
    - destruct (li_queue s HI _ _ _ H1 Hin) as (t1 & Ht1 & HW).
      destruct (decide (tid1 = tid)) as [->|Hne1].
      + simplify_eq. apply W_pc_oid, (lo_pc _ _ _ _ _ _ _ L) in HW. done.
      + exists t1. by rewrite thr_ne.
  Qed.

  Local Lemma p_queue_nodup : ∀ oid1 o1, l_heap s' !! oid1 = Some o1 → NoDup (o_waitq o1 ++ o_ready o1).
  Proof.
    intros oid1 o1 H. destruct (heap_inv _ _ H) as [[-> ->]|[Hne H1]]; [apply L|by apply (li_queue_nodup s HI oid1)].
  Qed.

  Local Lemma p_waiting : ∀ tid1 t1 oid1, l_thr s' !! tid1 = Some t1 → (t_pc t1 = PAcqWait oid1 ∨ t_pc t1 = PAcqCancel oid1) →
      ∃ o1, l_heap s' !! oid1 = Some o1 ∧ tid1 ∈ o_waitq o1 ++ o_ready o1.
  Proof.
    intros tid1 t1 oid1 H HW. destruct (thr_inv _ _ H) as [[-> ->]|[Hne H1]].
    - pose proof (lo_pc' _ _ _ _ _ _ _ L _ (W_pc_oid _ _ HW)) as ->.
      exists o'. split; [apply heap_oid|]. apply (lo_queue _ _ _ _ _ _ _ L). by right.
    - destruct (li_waiting s HI _ _ _ H1 HW) as (o1 & Ho1 & Hin).
      destruct (decide (oid1 = oid)) as [->|Hne1].
      + exists o'. simplify_eq. split; [apply heap_oid|]. apply (lo_queue _ _ _ _ _ _ _ L). by left.
      + exists o1. by rewrite heap_ne.
  Qed.

  Local Lemma p_wait_cancel : ∀ tid1 t1 oid1, l_thr s' !! tid1 = Some t1 → t_pc t1 = PAcqCancel oid1 → t_cancel t1 ≠ None.
  Proof.
    intros tid1 t1 oid1 H Hpc. destruct (thr_inv _ _ H) as [[-> ->]|[Hne H1]].
    - by apply (lo_wcancel _ _ _ _ _ _ _ L oid1).
    - by apply (li_wait_cancel s HI _ _ _ H1 Hpc).
  Qed.

  Local Lemma p_wake : ∀ oid1 o1, l_heap s' !! oid1 = Some o1 → o_waitq o1 ≠ [] → o_cur o1 = o_size o1.
  Proof.
    intros oid1 o1 H. destruct (heap_inv _ _ H) as [[-> ->]|[Hne H1]].
    - rewrite (lo_size _ _ _ _ _ _ _ L). apply L.
    - by apply (li_no_lost_wakeup s HI oid1).
  Qed.

  Local Lemma p_kind : ∀ tid1 t1, l_thr s' !! tid1 = Some t1 → pc_kind (t_op t1) (t_pc t1).
  Proof.
    intros tid1 t1 H. destruct (thr_inv _ _ H) as [[-> ->]|[Hne H1]].
    - rewrite (lo_op _ _ _ _ _ _ _ L). apply L.
    - by apply (linv_kind s tid1).
  Qed.

  Local Lemma p_cancel_lock : ∀ tid1 t1, l_thr s' !! tid1 = Some t1 → t_cancel t1 ≠ None → ∃ n k z, t_op t1 = OLock n k z.
  Proof.
    intros tid1 t1 H Hc. destruct (thr_inv _ _ H) as [[-> ->]|[Hne H1]].
    - rewrite (lo_op _ _ _ _ _ _ _ L). by apply L.
    - by apply (li_cancel_lock s HI tid1).
  Qed.

  Local Lemma p_fresh : ∀ t1 t2 x1 x2, l_thr s' !! t1 = Some x1 → l_thr s' !! t2 = Some x2 →
      is_acq (t_op x1) = true → is_acq (t_op x2) = true → op_key (t_op x1) = op_key (t_op x2) → t1 = t2.
  Proof.
    intros t1 t2 x1 x2 H1 H2. pose proof (lo_op _ _ _ _ _ _ _ L) as Hop.
    destruct (thr_inv _ _ H1) as [[-> ->]|[? ?]], (thr_inv _ _ H2) as [[-> ->]|[? ?]]; try done;
      rewrite ?Hop; by apply (li_fresh s HI).
  Qed.

  Local Lemma p_unl_key : ∀ tid1 t1 tid2 t2, l_thr s' !! tid1 = Some t1 → is_acq (t_op t1) = false → l_thr s' !! tid2 = Some t2 →
      is_acq (t_op t2) = true → op_key (t_op t2) = op_key (t_op t1) → ∃ r, t_pc t2 = PFin r.
  Proof.
    intros tid1 t1 tid2 t2 H1 Hu H2 Ha Hk. pose proof (lo_op _ _ _ _ _ _ _ L) as Hop.
    destruct (thr_inv _ _ H1) as [[-> ->]|[? ?]], (thr_inv _ _ H2) as [[-> ->]|[? ?]]; rewrite ?Hop in *.
    - congruence.
    - by apply (li_unl_key s HI tid t tid2 t2).
    - destruct (li_unl_key s HI tid1 t1 tid t) as [r Hr]; try done.
      exists r. by apply (lo_finr _ _ _ _ _ _ _ L).
    - by apply (li_unl_key s HI tid1 t1 tid2 t2).
  Qed.

  Local Lemma p_keys : ∀ oid1 o1, l_heap s' !! oid1 = Some o1 → NoDup (o_keys o1) ∧
      ∀ k, k ∈ o_keys o1 → ∃ tid1 t1, l_thr s' !! tid1 = Some t1 ∧ is_acq (t_op t1) = true ∧ op_key (t_op t1) = k
                                   ∧ op_name (t_op t1) = o_name o1 ∧ (t_pc t1 = PDone oid1 (LRes true None) ∨ t_pc t1 = PFin (LRes true None)).
  Proof.
    intros oid1 o1 H.
    assert (∀ k o2, l_heap s !! oid1 = Some o2 → o_name o1 = o_name o2 → k ∈ o_keys o2 →
       ∃ tid1 t1, l_thr s' !! tid1 = Some t1 ∧ is_acq (t_op t1) = true ∧ op_key (t_op t1) = k
                                   ∧ op_name (t_op t1) = o_name o1 ∧ (t_pc t1 = PDone oid1 (LRes true None) ∨ t_pc t1 = PFin (LRes true None))) as Hold.
    { intros k o2 Ho2 Hn Hk. destruct (li_keys s HI _ _ Ho2) as [_ Hw].
      destruct (Hw k Hk) as (tid1 & t1 & Ht1 & Ha & Hkk & Hnn & Hpc).
      destruct (decide (tid1 = tid)) as [->|Hne].
      - simplify_eq. exists tid, t'. rewrite (lo_op _ _ _ _ _ _ _ L), Hn. split_and!; try done; [apply thr_tid|].
        by apply (lo_wit _ _ _ _ _ _ _ L).
      - exists tid1, t1. rewrite thr_ne, Hn by done. done. }
    destruct (heap_inv _ _ H) as [[-> ->]|[Hne H1]].
    - split; [apply L|]. intros k Hk. apply (lo_keys _ _ _ _ _ _ _ L) in Hk as [Hk|(-> & Ha & Hpc)].
      + eapply Hold; [done|apply L|done].
      + exists tid, t'. rewrite (lo_op _ _ _ _ _ _ _ L). split_and!; try done; [apply thr_tid| |by left].
        destruct (p_pc tid t' oid thr_tid) as (o2 & Ho2 & Hn & _); [by rewrite Hpc|].
        rewrite heap_oid in Ho2. simplify_eq. by rewrite (lo_op _ _ _ _ _ _ _ L) in Hn.
    - split; [by apply (li_keys s HI oid1)|]. intros k Hk. by eapply Hold.
  Qed.

  (** keys that disappear were unlocked by this very thread *)
  Local Lemma unl_fwd n k : (∃ tid1 t1, l_thr s !! tid1 = Some t1 ∧ t_op t1 = OUnl n k) →
                            (∃ tid1 t1, l_thr s' !! tid1 = Some t1 ∧ t_op t1 = OUnl n k).
  Proof.
    intros (tid1 & t1 & H1 & Hop). destruct (thr_fwd _ _ H1) as (y' & ? & ? & _). exists tid1, y'. split; congruence.
  Qed.

  Local Lemma key_fwd oid1 o1 k : l_heap s !! oid1 = Some o1 → k ∈ o_keys o1 →
      (∃ o2, l_heap s' !! oid1 = Some o2 ∧ k ∈ o_keys o2) ∨ (oid1 = oid ∧ t_op t = OUnl (o_name o1) k).
  Proof.
    intros H1 Hk. destruct (decide (oid1 = oid)) as [->|Hne].
    - simplify_eq. destruct (decide (k ∈ o_keys o')) as [Hin|Hnin].
      + left. exists o'. split; [apply heap_oid|done].
      + right. split; [done|]. by apply (lo_removed _ _ _ _ _ _ _ L).
    - left. exists o1. by rewrite heap_ne.
  Qed.

  Local Lemma p_done : ∀ tid1 t1 oid1, l_thr s' !! tid1 = Some t1 → is_acq (t_op t1) = true → t_pc t1 = PDone oid1 (LRes true None) →
      (∃ o1, l_heap s' !! oid1 = Some o1 ∧ op_key (t_op t1) ∈ o_keys o1)
      ∨ (∃ tid2 t2, l_thr s' !! tid2 = Some t2 ∧ t_op t2 = OUnl (op_name (t_op t1)) (op_key (t_op t1))).
  Proof.
    intros tid1 t1 oid1 H Ha Hpc.
    assert (∀ t0, l_thr s !! tid1 = Some t0 → t_op t0 = t_op t1 → t_pc t0 = PDone oid1 (LRes true None) →
      (∃ o1, l_heap s' !! oid1 = Some o1 ∧ op_key (t_op t1) ∈ o_keys o1)
      ∨ (∃ tid2 t2, l_thr s' !! tid2 = Some t2 ∧ t_op t2 = OUnl (op_name (t_op t1)) (op_key (t_op t1)))) as Hold.
    { intros t0 Ht0 Hop0 Hpc0. rewrite <-Hop0 in *.
      destruct (li_done s HI _ _ _ Ht0 Ha Hpc0) as [(o1 & Ho1 & Hk)|Hu]; [|right; by apply unl_fwd].
      destruct (key_fwd _ _ _ Ho1 Hk) as [?|[-> Hunl]]; [by left|]. right.
      destruct (li_pc s HI _ _ _ Ht0 ltac:(by rewrite Hpc0)) as (o2 & ? & Hn & _). simplify_eq.
      exists tid, t'. split; [apply thr_tid|]. rewrite (lo_op _ _ _ _ _ _ _ L), Hunl. by rewrite Hn. }
    destruct (thr_inv _ _ H) as [[-> ->]|[Hne H1]].
    - pose proof (lo_pc' _ _ _ _ _ _ _ L oid1 ltac:(by rewrite Hpc)) as ->.
      rewrite (lo_op _ _ _ _ _ _ _ L) in Ha.
      destruct (lo_done _ _ _ _ _ _ _ L Ha Hpc) as [Hpc0|Hk].
      + eapply Hold; [done|symmetry; apply L|done].
      + left. exists o'. rewrite (lo_op _ _ _ _ _ _ _ L). split; [apply heap_oid|done].
    - by eapply Hold.
  Qed.

  Local Lemma p_granted : ∀ tid1 t1, l_thr s' !! tid1 = Some t1 → is_acq (t_op t1) = true → t_pc t1 = PFin (LRes true None) →
      (∃ oid1 o1, l_map s' !! op_name (t_op t1) = Some oid1 ∧ l_heap s' !! oid1 = Some o1 ∧ op_key (t_op t1) ∈ o_keys o1)
      ∨ (∃ tid2 t2, l_thr s' !! tid2 = Some t2 ∧ t_op t2 = OUnl (op_name (t_op t1)) (op_key (t_op t1))).
  Proof.
    intros tid1 t1 H Ha Hpc. rewrite Hmap.
    (* a key of the mapped object of the call's name stays, or was unlocked by this thread *)
    assert (∀ oid1 o1, l_map s !! op_name (t_op t1) = Some oid1 → l_heap s !! oid1 = Some o1 → op_key (t_op t1) ∈ o_keys o1 →
      (∃ oid1 o1, l_map s !! op_name (t_op t1) = Some oid1 ∧ l_heap s' !! oid1 = Some o1 ∧ op_key (t_op t1) ∈ o_keys o1)
      ∨ (∃ tid2 t2, l_thr s' !! tid2 = Some t2 ∧ t_op t2 = OUnl (op_name (t_op t1)) (op_key (t_op t1)))) as Hkey.
    { intros oid1 o1 Hm Ho1 Hk. destruct (key_fwd _ _ _ Ho1 Hk) as [(o2 & ? & ?)|[-> Hunl]]; [left; eauto|]. right.
      destruct (li_map s HI _ _ Hm) as (o2 & ? & Hn & _). simplify_eq.
      exists tid, t'. split; [apply thr_tid|]. by rewrite (lo_op _ _ _ _ _ _ _ L), Hunl, Hn. }
    destruct (thr_inv _ _ H) as [[-> ->]|[Hne H1]].
    - rewrite (lo_op _ _ _ _ _ _ _ L) in Ha, Hkey |- *.
      destruct (lo_fin _ _ _ _ _ _ _ L Ha Hpc) as [Hpc0|Hpc0].
      + destruct (li_granted s HI _ _ Ht Ha Hpc0) as [(oid1 & o1 & ? & ? & ?)|Hu]; [by eapply Hkey|right; by apply unl_fwd].
      + destruct (li_done s HI _ _ _ Ht Ha Hpc0) as [(o1 & Ho1 & Hk)|Hu]; [|right; by apply unl_fwd].
        simplify_eq. eapply Hkey; [|done|done].
        destruct (linv_ref_alive s tid t oid HI Ht ltac:(by rewrite Hpc0)) as (o2 & ? & ? & ? & ? & ? & ?). done.
    - destruct (li_granted s HI _ _ H1 Ha Hpc) as [(oid1 & o1 & ? & ? & ?)|Hu]; [by eapply Hkey|right; by apply unl_fwd].
  Qed.

  Local Lemma p_shut : l_shut s' = true → ∀ tid1 t1, l_thr s' !! tid1 = Some t1 → in_flight (t_pc t1) = false.
  Proof.
    rewrite Hshut. intros Hs tid1 t1 H. destruct (thr_inv _ _ H) as [[-> ->]|[Hne H1]].
    - by apply L.
    - by apply (li_shut s HI Hs tid1).
  Qed.

  Local Lemma p_time : ∀ oid1 o1, l_heap s' !! oid1 = Some o1 → o_last o1 ≤ l_now s'.
  Proof.
    intros oid1 o1 H. rewrite Hnow. destruct (heap_inv _ _ H) as [[-> ->]|[Hne H1]]; [apply L|by apply (li_time s HI oid1)].
  Qed.

  Lemma linv_move_obj : LInv s'.
  Proof.
    constructor.
    - rewrite Hcr. apply HI.
    - apply p_map.
    - apply p_heap.
    - apply p_pc.
    - apply p_users.
    - apply p_deleted.
    - apply p_units.
    - apply p_queue.
    - apply p_queue_nodup.
    - apply p_waiting.
    - apply p_wait_cancel.
    - apply p_wake.
    - intros tid1 t1 oid1 H Hpc. pose proof (p_kind _ _ H) as Hk.
      destruct Hpc as [Hpc|[Hpc|[Hpc|[Hpc|Hpc]]]]; by rewrite Hpc in Hk.
    - apply p_cancel_lock.
    - intros tid1 t1 oid1 H Hpc. pose proof (p_kind _ _ H) as Hk.
      destruct Hpc as [Hpc|[Hpc|Hpc]]; by rewrite Hpc in Hk.
    - intros tid1 t1 oid1 H Hpc. pose proof (p_kind _ _ H) as Hk.
      destruct Hpc as [Hpc|Hpc]; by rewrite Hpc in Hk.
    - apply p_fresh.
    - apply p_unl_key.
    - apply p_keys.
    - apply p_granted.
    - apply p_done.
    - apply p_shut.
    - apply p_time.
  Qed.
End move_obj.

(** ** A thread that refers to no object moves, or a new thread appears *)
Lemma count_thr_insert_false p s s' tid t' :
  l_thr s' = <[tid := t']> (l_thr s) → p t' = false → (∀ t, l_thr s !! tid = Some t → p t = false) →
  count_thr p s' = count_thr p s.
Proof.
  intros H' Hp' Hp. destruct (l_thr s !! tid) as [t|] eqn:Ht.
  - rewrite (count_thr_insert p s s' tid t t' Ht H'), Hp', (Hp t eq_refl). simpl. lia.
  - rewrite (count_thr_insert_new p s s' tid t' Ht H'), Hp'. simpl. lia.
Qed.

Section move_thr.
  Context (s s' : lstate) (tid : nat) (t' : thread).
  Context (HI : LInv s).
  Context (Ht' : l_thr s' = <[tid := t']> (l_thr s)).
  Context (Hheap : l_heap s' = l_heap s) (Hmap : l_map s' = l_map s) (Hnext : l_next s' = l_next s)
          (Hshut : l_shut s' = l_shut s) (Hnow : l_now s' = l_now s) (Hcr : l_crashed s' = l_crashed s).
  Context (Hpc' : pc_oid (t_pc t') = None).
  Context (Hold : ∀ t, l_thr s !! tid = Some t →
             t_op t' = t_op t ∧ pc_oid (t_pc t) = None ∧ (∀ r, t_pc t = PFin r → t_pc t' = PFin r)).
  Context (Hfin : is_acq (t_op t') = true → t_pc t' = PFin (LRes true None) →
             ∃ t, l_thr s !! tid = Some t ∧ t_pc t = PFin (LRes true None)).
  Context (Hcancel : t_cancel t' ≠ None → ∃ n k z, t_op t' = OLock n k z).
  Context (Hshut' : l_shut s = true → in_flight (t_pc t') = false).
  Context (Hfresh : ∀ tid1 t1, tid1 ≠ tid → l_thr s !! tid1 = Some t1 → is_acq (t_op t1) = true → is_acq (t_op t') = true →
             op_key (t_op t1) ≠ op_key (t_op t')).
  Context (Hunl1 : is_acq (t_op t') = false → ∀ tid1 t1, tid1 ≠ tid → l_thr s !! tid1 = Some t1 → is_acq (t_op t1) = true →
             op_key (t_op t1) = op_key (t_op t') → ∃ r, t_pc t1 = PFin r).
  Context (Hunl2 : is_acq (t_op t') = true → ∀ tid1 t1, tid1 ≠ tid → l_thr s !! tid1 = Some t1 → is_acq (t_op t1) = false →
             op_key (t_op t') = op_key (t_op t1) → ∃ r, t_pc t' = PFin r).

  Local Lemma thr_inv2 x y : l_thr s' !! x = Some y → (x = tid ∧ y = t') ∨ (x ≠ tid ∧ l_thr s !! x = Some y).
  Proof. rewrite Ht', lookup_insert_Some. naive_solver. Qed.
  Local Lemma thr_tid2 : l_thr s' !! tid = Some t'.
  Proof. by rewrite Ht', lookup_insert. Qed.
  Local Lemma thr_ne2 x : x ≠ tid → l_thr s' !! x = l_thr s !! x.
  Proof. intros. by rewrite Ht', lookup_insert_ne. Qed.
  Local Lemma notW oid1 : ¬ W (t_pc t') oid1.
  Proof. intros H%W_pc_oid. congruence. Qed.
  Local Lemma notW_old t oid1 : l_thr s !! tid = Some t → ¬ W (t_pc t) oid1.
  Proof. intros Ht H%W_pc_oid. destruct (Hold t Ht) as (_ & ? & _). congruence. Qed.

  Local Lemma count_same p : (∀ x, p x = true → pc_oid (t_pc x) ≠ None) → count_thr p s' = count_thr p s.
  Proof.
    intros Hp. apply (count_thr_insert_false p s s' tid t' Ht').
    - destruct (p t') eqn:E; [|done]. by apply Hp in E.
    - intros t Ht. destruct (p t) eqn:E; [|done]. apply Hp in E. by destruct (Hold t Ht) as (_ & ? & _).
  Qed.

  Local Lemma thr_fwd2 x y : l_thr s !! x = Some y →
    ∃ y', l_thr s' !! x = Some y' ∧ t_op y' = t_op y ∧ (pc_oid (t_pc y) ≠ None → y' = y) ∧ (∀ r, t_pc y = PFin r → t_pc y' = PFin r).
  Proof.
    intros Hx. destruct (decide (x = tid)) as [->|Hne].
    - exists t'. destruct (Hold y Hx) as (? & ? & ?). split_and!; [apply thr_tid2|done|done|done].
    - exists y. by rewrite thr_ne2.
  Qed.

  Local Lemma unl_fwd2 n k : (∃ tid1 t1, l_thr s !! tid1 = Some t1 ∧ t_op t1 = OUnl n k) →
                            (∃ tid1 t1, l_thr s' !! tid1 = Some t1 ∧ t_op t1 = OUnl n k).
  Proof.
    intros (tid1 & t1 & H1 & Hop). destruct (thr_fwd2 _ _ H1) as (y' & ? & ? & _). exists tid1, y'. split; congruence.
  Qed.

  Lemma linv_move_thr : LInv s'.
  Proof.
    constructor; rewrite ?Hheap, ?Hmap, ?Hnext, ?Hshut, ?Hnow, ?Hcr.
    - apply HI.
    - apply HI.
    - apply HI.
    - intros tid1 t1 oid1 H Hpc. destruct (thr_inv2 _ _ H) as [[-> ->]|[Hne H1]]; [congruence|].
      by apply (li_pc s HI tid1).
    - intros oid1 o1 H. rewrite count_same; [by apply HI|]. intros x Hx%refs_pc_oid. congruence.
    - apply HI.
    - intros oid1 o1 H. rewrite count_same; [by apply HI|]. intros x Hx%in_transit_refs%refs_pc_oid. congruence.
    - intros oid1 o1 tid1 H Hin. destruct (li_queue s HI _ _ _ H Hin) as (t1 & Ht1 & HW).
      destruct (decide (tid1 = tid)) as [->|Hne]; [by destruct (notW_old t1 oid1 Ht1)|].
      exists t1. by rewrite thr_ne2.
    - apply HI.
    - intros tid1 t1 oid1 H HW. destruct (thr_inv2 _ _ H) as [[-> ->]|[Hne H1]]; [by destruct (notW oid1)|].
      by apply (li_waiting s HI tid1 t1).
    - intros tid1 t1 oid1 H Hpc. destruct (thr_inv2 _ _ H) as [[-> ->]|[Hne H1]]; [rewrite Hpc in Hpc'; done|].
      by apply (li_wait_cancel s HI tid1 t1 oid1).
    - apply HI.
    - intros tid1 t1 oid1 H Hpc. destruct (thr_inv2 _ _ H) as [[-> ->]|[Hne H1]]; [|by apply (li_lock_only s HI tid1 t1 oid1)].
      destruct Hpc as [Hpc|[Hpc|[Hpc|[Hpc|Hpc]]]]; by rewrite Hpc in Hpc'.
    - intros tid1 t1 H Hc. destruct (thr_inv2 _ _ H) as [[-> ->]|[Hne H1]]; [by apply Hcancel|by apply (li_cancel_lock s HI tid1)].
    - intros tid1 t1 oid1 H Hpc. destruct (thr_inv2 _ _ H) as [[-> ->]|[Hne H1]]; [|by apply (li_acq_pc s HI tid1 t1 oid1)].
      destruct Hpc as [Hpc|[Hpc|Hpc]]; by rewrite Hpc in Hpc'.
    - intros tid1 t1 oid1 H Hpc. destruct (thr_inv2 _ _ H) as [[-> ->]|[Hne H1]]; [|by apply (li_unl_pc s HI tid1 t1 oid1)].
      destruct Hpc as [Hpc|Hpc]; by rewrite Hpc in Hpc'.
    - intros t1 t2 x1 x2 H1 H2 Ha1 Ha2 Hk.
      destruct (thr_inv2 _ _ H1) as [[-> ->]|[? ?]], (thr_inv2 _ _ H2) as [[-> ->]|[? ?]]; try done.
      + by destruct (Hfresh t2 x2).
      + by destruct (Hfresh t1 x1).
      + by apply (li_fresh s HI t1 t2 x1 x2).
    - intros tid1 t1 tid2 t2 H1 Hu H2 Ha Hk.
      destruct (thr_inv2 _ _ H1) as [[-> ->]|[? ?]], (thr_inv2 _ _ H2) as [[-> ->]|[? ?]].
      + congruence.
      + by apply (Hunl1 Hu tid2 t2).
      + by apply (Hunl2 Ha tid1 t1).
      + by apply (li_unl_key s HI tid1 t1 tid2 t2).
    - intros oid1 o1 H. destruct (li_keys s HI _ _ H) as [Hnd Hw]. split; [done|]. intros k Hk.
      destruct (Hw k Hk) as (tid1 & t1 & Ht1 & Ha & Hkk & Hnn & Hpc).
      destruct (thr_fwd2 _ _ Ht1) as (y' & Hy' & Hop & Hsame & Hf). exists tid1, y'. rewrite Hop.
      split_and!; try done. destruct Hpc as [Hpc|Hpc]; [left|right; by apply Hf].
      rewrite Hsame; [done|by rewrite Hpc].
    - intros tid1 t1 H Ha Hpc.
      assert (∃ t0, l_thr s !! tid1 = Some t0 ∧ t_op t0 = t_op t1 ∧ t_pc t0 = PFin (LRes true None)) as (t0 & Ht0 & Hop0 & Hpc0).
      { destruct (thr_inv2 _ _ H) as [[-> ->]|[Hne H1]]; [|by exists t1].
        destruct (Hfin Ha Hpc) as (t0 & Ht0 & Hpc0). exists t0. by destruct (Hold t0 Ht0) as (-> & _). }
      rewrite <-Hop0 in *. destruct (li_granted s HI _ _ Ht0 Ha Hpc0) as [?|Hu]; [by left|right; by apply unl_fwd2].
    - intros tid1 t1 oid1 H Ha Hpc. destruct (thr_inv2 _ _ H) as [[-> ->]|[Hne H1]]; [by rewrite Hpc in Hpc'|].
      destruct (li_done s HI _ _ _ H1 Ha Hpc) as [?|Hu]; [by left|right; by apply unl_fwd2].
    - intros Hs tid1 t1 H. destruct (thr_inv2 _ _ H) as [[-> ->]|[Hne H1]]; [by apply Hshut'|by apply (li_shut s HI Hs tid1)].
    - apply HI.
  Qed.
End move_thr.
