(** Mcodec, part 5: store.Write replaces the state file in one step.

    [store.Write] (after commit d2d0157) = open "<path>.tmp" with O_TRUNC, write the
    encoding, sync, rename over the state file.  Whatever instant the process is
    killed at — between any two steps of any write of any sequence of writes, or in
    the middle of the data write — the state file holds the complete image left by
    the writes that had finished: the old one or the new one, never a mixture, never
    an empty or partial file. *)
From Coq Require Import Lia ZifyBool ZifyNat ZifyN.
From Ldlm Require Import Model.Base Model.Codec Proofs.CodecP1 Proofs.CodecP2 Proofs.CodecP3.

Local Open Scope nat_scope.

(** Only the rename touches the state file. *)
Lemma fs_step_keeps f s : s <> WRename -> state_file (fs_step f s) = state_file f.
Proof. by destruct s. Qed.

Lemma fs_steps_keep ss : forall f,
  Forall (fun s => s <> WRename) ss -> state_file (foldl fs_step f ss) = state_file f.
Proof.
  induction ss as [|s ss IH]; intros f Hall; [done|].
  apply Forall_cons in Hall as [Hs Hall]. cbn [foldl].
  rewrite IH by done. by apply fs_step_keeps.
Qed.

(** A write that is cut short inside [tmp.Write(d)] (any part [d'] of the data has
    reached the temporary file, the rename has not happened): nothing changed. *)
Lemma torn_write_keeps f d' :
  state_file (foldl fs_step f [WOpenTrunc; WData d']) = state_file f.
Proof. done. Qed.

Lemma all_steps_run ws : forall f, foldl fs_step f (all_steps ws) = file_writes f ws.
Proof.
  induction ws as [|w ws IH]; intros f; [done|].
  unfold all_steps. cbn [map concat]. rewrite foldl_app. apply IH.
Qed.

(** After [k] steps the state file is the one left by the [k / 3] completed writes. *)
Theorem crash_image ws : forall f k,
  state_file (foldl fs_step f (take k (all_steps ws)))
  = state_file (file_writes f (take (k / 3) ws)).
Proof.
  induction ws as [|w ws IH]; intros f k.
  - unfold all_steps. cbn [map concat]. by rewrite !take_nil.
  - destruct (decide (k < 3)) as [Hk|Hk].
    + replace (k / 3) with 0 by (symmetry; apply Nat.div_small; lia).
      rewrite take_0. cbn [file_writes foldl].
      apply fs_steps_keep.
      unfold all_steps. cbn [map concat].
      rewrite take_app_le by (cbn; lia). unfold write_steps.
      destruct k as [|[|[|k]]]; [| | |lia]; cbn [take];
        repeat (apply Forall_cons; split; [done|]); by apply Forall_nil.
    + assert (Hk' : exists k', k = 3 + k') by (exists (k - 3); lia).
      destruct Hk' as [k' ->].
      replace ((3 + k') / 3) with (S (k' / 3)).
      2:{ change (3 + k') with (1 * 3 + k'). rewrite Nat.div_add_l by lia. lia. }
      unfold all_steps. cbn [map concat].
      change (write_steps w ++ concat (map write_steps ws))
        with ([WOpenTrunc; WData (encode w); WRename] ++ all_steps ws).
      rewrite take_add_app by done. rewrite foldl_app.
      rewrite IH. cbn [take file_writes foldl]. done.
Qed.

Lemma file_read_ext g g' : state_file g = state_file g' -> file_read g = file_read g'.
Proof. unfold file_read. by intros ->. Qed.

(** The state file at any instant: the initial image or the complete encoding of one of
    the maps written, which reads back as that map. *)
Theorem crash_reads f ws k :
  Forall wf ws ->
  let f' := foldl fs_step f (take k (all_steps ws)) in
  state_file f' = state_file f
  \/ exists es, es ∈ ws /\ state_file f' = encode es /\ file_read f' = DecOk (to_map es).
Proof.
  intros Hwf f'. subst f'. rewrite crash_image.
  destruct (take (k / 3) ws) as [|e l] eqn:Hl using rev_ind; [by left|].
  clear IHl. right. exists e.
  assert (Hin : e ∈ ws).
  { rewrite <- (take_drop (k / 3) ws), Hl. rewrite !elem_of_app. left. right.
    by apply elem_of_list_singleton. }
  split; [done|].
  rewrite file_writes_snoc. split; [done|].
  rewrite (file_read_ext _ (Fs (encode e) None))
    by (by rewrite crash_image, Hl, file_writes_snoc).
  rewrite file_read_encode. apply roundtrip; [|done]. by eapply Forall_forall in Hwf.
Qed.

(** [store.Read] on whatever the state file holds. *)

Theorem file_read_safe f :
  go_bytes (state_file f) ->
  (exists m, file_read f = DecOk m) \/ (exists e, file_read f = DecErr e).
Proof.
  intros Hb. unfold file_read. destruct (state_file f) as [|c b] eqn:Hs; [left; by eexists|].
  by apply decode_safe.
Qed.

(** The file identifies the lock table: two well-formed maps with the same encoding are the
    same map (corollary of [roundtrip]; no two different tables share a file image). *)
Lemma encode_determines_map (es1 es2 : entries) :
  wf es1 -> wf es2 -> encode es1 = encode es2 -> to_map es1 = to_map es2.
Proof.
  intros H1 H2 He.
  pose proof (roundtrip es1 es1 H1 (reflexivity _)) as R1.
  pose proof (roundtrip es2 es2 H2 (reflexivity _)) as R2.
  rewrite He in R1. rewrite R1 in R2. by injection R2.
Qed.
