(** Work package svfile, part 2: how one schedule item of Msv changes the ghost trace, the shutdown flag, the threads,
    the session table, the state file, the lock table and the timer heap (case analysis of [vstep], done once per field). *)
From Coq Require Import Lia ZifyBool ZifyNat.
From Ldlm Require Import Model.Base Model.Err Model.Sv Proofs.SvDefs Proofs.SvFileFrames Proofs.SvFileBase.
From RecordUpdate Require Import RecordSet.
Import RecordSetNotations.
Local Open Scope Z_scope.

#[local] Arguments vemit : simpl never.
#[local] Arguments vset_pc : simpl never.
#[local] Arguments vfinish : simpl never.
#[local] Arguments spawn : simpl never.
#[local] Arguments vsave : simpl never.
#[local] Arguments hand_over : simpl never.
#[local] Arguments mgr_unlock : simpl never.
#[local] Arguments tm_add : simpl never.
#[local] Arguments tm_remove : simpl never.
#[local] Arguments tm_reset : simpl never.
#[local] Arguments sess_add : simpl never.
#[local] Arguments sess_remove : simpl never.
#[local] Arguments sess_destroy : simpl never.
#[local] Arguments fire_due : simpl never.
#[local] Opaque vemit vset_pc spawn vsave hand_over mgr_unlock tm_add tm_remove tm_reset sess_add sess_remove sess_destroy fire_due.

(** ** case analysis of one schedule item *)
Ltac unpair := repeat match goal with
  | H : ?f = (?a, ?b) |- _ => is_var a;
      let H1 := fresh in let H2 := fresh in
      assert (H1 : a = f.1) by (by rewrite H); assert (H2 : f.2 = b) by (by rewrite H); clear H; subst a; try subst b
  end.
(** [Ht : v_thr s !! tid = Some t]: one goal per leaf of [vrun_thread]; [tac] closes the stuttering leaves *)
Ltac vrun_leaves t tac :=
  unfold vrun_thread; destruct t as [?op ?pc ?cn]; cbn [st_op st_pc st_cancel] in *;
  match goal with |- context [match ?pc with VMgrTry => _ | _ => _ end] => destruct pc end;
  match goal with |- context [match ?op with STry _ _ _ _ _ => _ | _ => _ end] => destruct op | _ => idtac end;
  try (by tac); repeat case_match; unpair; unfold vfinish.

Lemma inv_fresh cfg s : SvInv cfg s → ∀ tid, (v_next s ≤ tid)%nat → v_thr s !! tid = None.
Proof.
  intros I tid Hle. destruct (v_thr s !! tid) eqn:E; [|done]. apply (vi_sys _ _ I) in E as [? _]. lia.
Qed.
Lemma inv_fresh_fmap cfg s (g : sthread → sthread) : SvInv cfg s → ∀ tid, (v_next s ≤ tid)%nat → (g <$> v_thr s) !! tid = None.
Proof. intros I tid Hle. by rewrite lookup_fmap, (inv_fresh _ _ I). Qed.

Definition net_cancel (t : sthread) : sthread :=
  match st_op t, st_cancel t with
  | (STry _ _ _ _ _ | SLock _ _ _ _ _ | SUnlock _ _ | SRenew _ _ _), None => if is_fin (st_pc t) then t else t <| st_cancel := Some ECtxCanceled |>
  | _, _ => t end.
Definition conn_cancel (sid : str) (t : sthread) : sthread :=
  if bool_decide (op_sid (st_op t) = Some sid) && bool_decide (st_cancel t = None) && negb (is_fin (st_pc t))
  then t <| st_cancel := Some ECtxCanceled |> else t.

Lemma shut_step cfg s it : SvInv cfg s → v_shut s = true → v_shut (vstep cfg s it) = true.
Proof.
  intros I Hs. unfold vstep. rewrite (vi_not_crashed _ _ I).
  destruct it as [tid op|tid|tid cause|sid|sid|dt|].
  - repeat case_match; done.
  - destruct (v_thr s !! tid) as [t|] eqn:Ht; [|done]. vrun_leaves t idtac.
    all: try by (autorewrite with svf; simpl; autorewrite with svf).
    rewrite fr_vset_pc_shut. erewrite ns_shut; [|apply net_fold_spec, (inv_fresh_fmap _ _ _ I)]. done.
  - repeat case_match; done.
  - repeat case_match; done.
  - done.
  - erewrite fs_shut; [|apply fire_due_spec; simpl; apply (inv_fresh _ _ I)]. done.
  - done.
Qed.

Ltac tr_solve := repeat lazymatch goal with
  | |- tr_ext ?s ?s => apply tr_ext_refl
  | |- tr_ext _ (vemit _ _) => apply tr_ext_vemit; [done|]
  | |- tr_ext _ (hand_over _ _) => apply tr_ext_hand_over
  | |- tr_ext _ (mgr_unlock _ _ _ _).1 => apply tr_ext_mgr_unlock
  | |- tr_ext _ (sess_add _ _ _ _ _) => apply tr_ext_sess_add
  | |- tr_ext _ (sess_remove _ _ _ _ _) => apply tr_ext_sess_remove
  | |- tr_ext _ (sess_destroy _ _ _ _).1 => apply tr_ext_sess_destroy
  | |- tr_ext _ (fold_left _ _ _) => fail
  | |- tr_ext _ _ => eapply tr_ext_frame; [solve [simpl; autorewrite with svf; reflexivity]|]
  end.
Lemma trace_step cfg s it : SvInv cfg s → tr_ext s (vstep cfg s it).
Proof.
  intros I. unfold vstep. rewrite (vi_not_crashed _ _ I).
  destruct it as [tid op|tid|tid cause|sid|sid|dt|].
  - repeat case_match; tr_solve.
  - destruct (v_thr s !! tid) as [t|] eqn:Ht; [|apply tr_ext_refl]. vrun_leaves t ltac:(apply tr_ext_refl).
    all: tr_solve.
    eapply tr_ext_trans; [|apply net_fold_spec, (inv_fresh_fmap _ _ _ I)]. eapply tr_ext_frame; [|apply tr_ext_refl]. done.
  - repeat case_match; tr_solve.
  - case_match; tr_solve.
  - tr_solve.
  - eapply tr_ext_trans; [|apply fire_due_spec; simpl; apply (inv_fresh _ _ I)]. tr_solve.
  - tr_solve.
Qed.

(** ** threads *)
Definition new_by (s : svstate) (it : sitem) (tid' : nat) (op : sop) : Prop :=
  it = VCall tid' op ∨ (∃ sid, it = VConnEnd sid ∧ op = SConnEnd sid) ∨ (it = VSignal ∧ op = SShutdown) ∨
  (∃ dt id, it = VTick dt ∧ op = SExpire id) ∨
  (∃ tid t sid, it = VRun tid ∧ v_thr s !! tid = Some t ∧ st_op t = SShutdown ∧ st_pc t = VShNet ∧ op = SConnEnd sid).
Definition thr_old (it : sitem) (tid' : nat) (t t' : sthread) : Prop :=
  st_op t' = st_op t ∧ (is_fin (st_pc t) = true → t' = t) ∧ (∀ e, st_cancel t = Some e → st_cancel t' = Some e) ∧
  (st_pc t' = st_pc t ∨ it = VRun tid' ∨ (st_pc t = VWait ∧ st_pc t' = VWoken)).
Lemma thr_old_refl it tid' t : thr_old it tid' t t.
Proof. unfold thr_old. auto. Qed.

Lemma thr_run_evol cfg s tid t n m1 pc' tid' t' :
  SvInv cfg s → v_thr s !! tid = Some t → is_fin (st_pc t) = false → woke s n m1 →
  alter (setpc pc') tid m1 !! tid' = Some t' →
  ∃ t0, v_thr s !! tid' = Some t0 ∧ thr_old (VRun tid) tid' t0 t'.
Proof.
  intros I Ht Hnf Hw H. destruct Hw as [->|(a & w & q & Hl & Hq & ->)].
  - destruct (decide (tid' = tid)) as [->|].
    + rewrite lookup_alter, Ht in H. simplify_eq/=. exists t. unfold thr_old. simpl. split_and!; auto. congruence.
    + rewrite lookup_alter_ne in H by done. exists t'. split; [done|apply thr_old_refl].
  - assert (Hwq : ∃ t0, v_thr s !! w = Some t0 ∧ st_pc t0 = VWait).
    { destruct (vi_queue _ _ I n a w Hl) as [(t0 & ? & ? & ? & ? & ? & ? & ?) _]; [rewrite Hq; left|]. eauto. }
    destruct Hwq as (tw & Hw & Hpw).
    destruct (decide (tid' = tid)) as [->|].
    + rewrite lookup_alter in H. destruct (decide (tid = w)) as [->|].
      * rewrite lookup_alter, Ht in H. simplify_eq/=. eexists. split; [done|]. unfold thr_old. simpl. split_and!; auto. congruence.
      * rewrite lookup_alter_ne, Ht in H by done. simplify_eq/=. exists t. unfold thr_old. simpl. split_and!; auto. congruence.
    + rewrite lookup_alter_ne in H by done. destruct (decide (tid' = w)) as [->|].
      * rewrite lookup_alter, Hw in H. simplify_eq/=. exists tw. unfold thr_old. simpl. split_and!; auto. rewrite Hpw. done.
      * rewrite lookup_alter_ne in H by done. exists t'. split; [done|apply thr_old_refl].
Qed.

Lemma net_cancel_old it tid' t : thr_old it tid' t (net_cancel t).
Proof.
  unfold thr_old, net_cancel. destruct t as [op pc cn]. simpl.
  destruct op, cn, (is_fin pc) eqn:E; simpl; split_and!; auto; try congruence; done.
Qed.
Lemma conn_cancel_old sid it tid' t : thr_old it tid' t (conn_cancel sid t).
Proof.
  unfold thr_old, conn_cancel. destruct t as [op pc cn]. simpl.
  case_match; simpl; split_and!; auto; try congruence.
  - apply andb_prop in H as [_ H]. apply negb_true_iff in H. congruence.
  - apply andb_prop in H as [H _]. apply andb_prop in H as [_ H]. case_bool_decide; [|done]. subst. done.
Qed.

Lemma woke_locks_upd e s n a l m : v_locks s !! n = Some a →
  woke (vemit e (s <| v_locks := <[n := a <| al_live := l |>]> (v_locks s) |>)) n m → woke s n m.
Proof.
  intros Ha [->|(a1 & w & q & H1 & H2 & H3)]; [left; by rewrite fr_vemit_thr|]. rewrite fr_vemit_locks in H1. rewrite fr_vemit_thr in H3. subst m. simpl in H1. rewrite lookup_insert in H1. simplify_eq/=.
  right. do 3 eexists. split; [exact Ha|]. split; [done|]. done.
Qed.

(** the network stop: every unfinished client call is cancelled, a ConnEnd goroutine starts for every open connection *)
Definition net_stop (s : svstate) : svstate :=
  let s1 := s <| v_thr := net_cancel <$> v_thr s |> in
  fold_left (λ s sid, vemit (SvConnEnd sid) (spawn (SConnEnd sid) VDsFlag s)) (open_sids (v_trace s1)) s1.
Lemma net_stop_thr cfg s tid' t' : SvInv cfg s → v_thr (net_stop s) !! tid' = Some t' →
  (∃ t, v_thr s !! tid' = Some t ∧ t' = net_cancel t) ∨
  (v_thr s !! tid' = None ∧ (v_next s ≤ tid')%nat ∧ ∃ sid, t' = SThread (SConnEnd sid) VDsFlag None).
Proof.
  intros I. unfold net_stop. simpl.
  match goal with |- context [fold_left _ ?l ?s1] => destruct (net_fold_spec l s1 (inv_fresh_fmap _ _ _ I)) as [_ _ _ _ _ _ _ (Hn1 & Hn2 & Hn3)] end.
  simpl in *. intros H. destruct (decide (tid' < v_next s)%nat) as [Hlt|Hge].
  - rewrite Hn2, lookup_fmap in H by done. destruct (v_thr s !! tid') as [t|] eqn:E; [|done]. left. simplify_eq/=. eauto.
  - right. apply Hn3 in H as (op & [sid ->] & ->); [|lia]. split; [apply (inv_fresh _ _ I); lia|]. split; [lia|]. eauto.
Qed.
Lemma net_stop_thr_old cfg s tid' t : SvInv cfg s → v_thr s !! tid' = Some t → v_thr (net_stop s) !! tid' = Some (net_cancel t).
Proof.
  intros I Ht. unfold net_stop. simpl.
  match goal with |- context [fold_left _ ?l ?s1] => destruct (net_fold_spec l s1 (inv_fresh_fmap _ _ _ I)) as [_ _ _ _ _ _ _ (Hn1 & Hn2 & Hn3)] end.
  simpl in *. rewrite Hn2, lookup_fmap, Ht; [done|]. by apply (vi_sys _ _ I) in Ht as [? _].
Qed.
Record net_frame (s s' : svstate) : Prop := {
  nf_sess : v_sess s' = v_sess s; nf_file : v_file s' = v_file s; nf_shut : v_shut s' = v_shut s; nf_locks : v_locks s' = v_locks s;
  nf_heap : v_theap s' = v_theap s; nf_trace : tr_ext s s'; nf_timers : v_timers s' = v_timers s }.
Lemma net_stop_frame cfg s : SvInv cfg s → net_frame s (net_stop s).
Proof.
  intros I. unfold net_stop. simpl.
  match goal with |- context [fold_left _ ?l ?s1] => destruct (net_fold_spec l s1 (inv_fresh_fmap _ _ _ I)) as [? ? ? ? ? Htr ? _] end.
  split; try done.
Qed.

Lemma thr_step cfg s it tid' t' : SvInv cfg s → v_thr (vstep cfg s it) !! tid' = Some t' →
  (∃ t, v_thr s !! tid' = Some t ∧ thr_old it tid' t t') ∨
  (v_thr s !! tid' = None ∧ t' = SThread (st_op t') (first_pc (st_op t')) None ∧ new_by s it tid' (st_op t')).
Proof.
  intros I. unfold vstep. rewrite (vi_not_crashed _ _ I).
  assert (Hsame : v_thr s !! tid' = Some t' → (∃ t, v_thr s !! tid' = Some t ∧ thr_old it tid' t t') ∨
    (v_thr s !! tid' = None ∧ t' = SThread (st_op t') (first_pc (st_op t')) None ∧ new_by s it tid' (st_op t'))).
  { intros H. left. exists t'. split; [done|apply thr_old_refl]. }
  destruct it as [tid op|tid|tid cause|sid|sid|dt|].
  - repeat case_match; try done. rewrite ?fr_vemit_thr. simpl. destruct (decide (tid' = tid)) as [->|].
    + rewrite lookup_insert. intros [= <-]. right. simpl. split; [done|]. split; [done|]. by left.
    + rewrite lookup_insert_ne by done. done.
  - destruct (v_thr s !! tid) as [t|] eqn:Ht; [|done]. vrun_leaves t ltac:(exact Hsame).
    all: try (let H' := fresh "H'" in intros H'; left; rewrite ?fr_vemit_thr, thr_vset_pc in H';
      first [ eapply thr_run_evol in H'; [exact H'|exact I|exact Ht|done|apply thr_mgr_unlock]
            | eapply (thr_run_evol _ _ _ _ []) in H'; [exact H'|exact I|exact Ht|done|left; autorewrite with svf; try reflexivity; simpl; autorewrite with svf; reflexivity] ]).
    all: try exact Hsame.
    + intros H'. left. rewrite ?fr_vemit_thr, thr_vset_pc in H'.
      eapply thr_run_evol in H'; [exact H'|exact I|exact Ht|done|]. eapply woke_locks_upd; [done|apply thr_hand_over].
    + change (fold_left _ _ _) with (net_stop s). intros H'. rewrite thr_vset_pc in H'.
      assert (Htid : (tid < v_next s)%nat) by (by apply (vi_sys _ _ I) in Ht as [? _]).
      destruct (decide (tid' = tid)) as [->|].
      * rewrite lookup_alter, (net_stop_thr_old _ _ _ _ I Ht) in H'. simplify_eq/=. left. eexists. split; [done|].
        unfold thr_old. simpl. split_and!; auto; done.
      * rewrite lookup_alter_ne in H' by done. apply (net_stop_thr _ _ _ _ I) in H' as [(t & E & ->)|(E & Hle & sid & ->)].
        -- left. exists t. split; [done|apply net_cancel_old].
        -- right. split; [done|]. split; [done|]. simpl. do 4 right. do 3 eexists. done.
  - destruct (v_thr s !! tid) as [t|] eqn:Ht; [|done]. case_match eqn:Hc; [|done]. simpl.
    destruct (decide (tid' = tid)) as [->|]; [|by rewrite lookup_insert_ne by done].
    rewrite lookup_insert. intros [= <-]. left. exists t. split; [done|].
    apply andb_prop in Hc as [Hc Hnf]. apply andb_prop in Hc as [_ Hc]. apply negb_true_iff in Hnf. case_bool_decide; [|done].
    unfold thr_old. simpl. split_and!; auto; congruence.
  - rewrite fr_vemit_thr. case_match; done.
  - fold (conn_cancel sid). rewrite fr_vemit_thr, thr_spawn. simpl. destruct (decide (tid' = v_next s)) as [->|].
    + rewrite lookup_insert. intros [= <-]. right. split; [apply (inv_fresh _ _ I); lia|]. split; [done|]. right. left. eauto.
    + rewrite lookup_insert_ne, lookup_fmap by done. destruct (v_thr s !! tid') as [t|] eqn:E; [|done]. simpl. intros [= <-].
      left. exists t. split; [done|apply conn_cancel_old].
  - match goal with |- context [fire_due ?s1] => destruct (fire_due_spec s1 (inv_fresh _ _ I)) as [_ _ _ _ _ _ (Hn1 & Hn2 & Hn3) _] end.
    simpl in *. intros H. destruct (decide (tid' < v_next s)%nat) as [Hlt|Hge].
    + rewrite Hn2 in H by done. auto.
    + apply Hn3 in H as (op & [id ->] & ->); [|lia]. right. split; [apply (inv_fresh _ _ I); lia|]. split; [done|].
      do 3 right. left. eauto.
  - rewrite fr_vemit_thr, thr_spawn. simpl. destruct (decide (tid' = v_next s)) as [->|].
    + rewrite lookup_insert. intros [= <-]. right. split; [apply (inv_fresh _ _ I); lia|]. split; [done|]. right. right. left. done.
    + rewrite lookup_insert_ne by done. done.
Qed.

(** threads never vanish *)
Lemma is_Some_alter {A} (f : A → A) (m : gmap nat A) i j : is_Some (m !! j) → is_Some (alter f i m !! j).
Proof. destruct (decide (j = i)) as [->|]; [rewrite lookup_alter|by rewrite lookup_alter_ne]. intros [x ->]. by eexists. Qed.
Lemma woke_dom s n m1 j : woke s n m1 → is_Some (v_thr s !! j) → is_Some (m1 !! j).
Proof. intros [->|(a & w & q & _ & _ & ->)]; [done|apply is_Some_alter]. Qed.
Lemma thr_persist cfg s it tid' : SvInv cfg s → is_Some (v_thr s !! tid') → is_Some (v_thr (vstep cfg s it) !! tid').
Proof.
  intros I Hs. unfold vstep. rewrite (vi_not_crashed _ _ I).
  destruct it as [tid op|tid|tid cause|sid|sid|dt|].
  - repeat case_match; try done. rewrite ?fr_vemit_thr. simpl. destruct (decide (tid' = tid)) as [->|]; [by rewrite lookup_insert|by rewrite lookup_insert_ne].
  - destruct (v_thr s !! tid) as [t|] eqn:Ht; [|done]. vrun_leaves t ltac:(exact Hs).
    all: try exact Hs.
    all: try (rewrite ?fr_vemit_thr, thr_vset_pc; apply is_Some_alter;
      first [ eapply woke_dom; [apply thr_mgr_unlock|exact Hs]
            | autorewrite with svf; try exact Hs; simpl; autorewrite with svf; exact Hs ]).
    + rewrite ?fr_vemit_thr, thr_vset_pc. apply is_Some_alter. eapply woke_dom; [|exact Hs]. eapply woke_locks_upd; [done|apply thr_hand_over].
    + change (fold_left _ _ _) with (net_stop s). rewrite thr_vset_pc. apply is_Some_alter. destruct Hs as [t Hs].
      rewrite (net_stop_thr_old _ _ _ _ I Hs). by eexists.
  - repeat case_match; try done. rewrite ?fr_vemit_thr. simpl. destruct (decide (tid' = tid)) as [->|]; [by rewrite lookup_insert|by rewrite lookup_insert_ne].
  - rewrite fr_vemit_thr. case_match; done.
  - rewrite fr_vemit_thr, thr_spawn. simpl. destruct (decide (tid' = v_next s)) as [->|]; [by rewrite lookup_insert|]. rewrite lookup_insert_ne, lookup_fmap by done.
    destruct Hs as [t ->]. by eexists.
  - match goal with |- context [fire_due ?s1] => destruct (fire_due_spec s1 (inv_fresh _ _ I)) as [_ _ _ _ _ _ (Hn1 & Hn2 & Hn3) _] end.
    simpl in *. rewrite Hn2; [done|]. destruct Hs as [t Hs]. by apply (vi_sys _ _ I) in Hs as [? _].
  - rewrite fr_vemit_thr, thr_spawn. simpl. destruct (decide (tid' = v_next s)) as [->|]; [by rewrite lookup_insert|by rewrite lookup_insert_ne].
Qed.

(** ** timer heap, lock table *)
Ltac hp_solve := repeat lazymatch goal with
  | |- hp_ext ?s ?s => apply hp_ext_refl
  | |- hp_ext _ (tm_add _ _ _ _ _) => eapply hp_ext_trans; [|apply hp_ext_tm_add]
  | |- hp_ext _ (tm_remove _ _).1 => eapply hp_ext_trans; [|apply hp_ext_tm_remove]
  | |- hp_ext _ (tm_reset _ _ _).1 => eapply hp_ext_trans; [|apply hp_ext_tm_reset]
  | |- hp_ext _ (fold_left _ _ _) => fail
  | |- hp_ext _ _ => eapply hp_ext_frame; [solve [simpl; autorewrite with svf; simpl; reflexivity]|]
  end.
Lemma heap_step cfg s it : SvInv cfg s → hp_ext s (vstep cfg s it).
Proof.
  intros I. unfold vstep. rewrite (vi_not_crashed _ _ I).
  destruct it as [tid op|tid|tid cause|sid|sid|dt|].
  - repeat case_match; hp_solve.
  - destruct (v_thr s !! tid) as [t|] eqn:Ht; [|apply hp_ext_refl]. vrun_leaves t ltac:(apply hp_ext_refl).
    all: hp_solve.
    all: try (intros id tm E; by apply (vi_tm_heap _ _ I) in E as [? _]).
    + change (fold_left _ _ _) with (net_stop s). eapply hp_ext_frame; [apply (net_stop_frame _ _ I)|apply hp_ext_refl].
    + intros id tm E. rewrite fr_vset_pc_theap. simpl. rewrite lookup_fmap, E. simpl. eexists. split; [done|]. by case_match.
  - repeat case_match; hp_solve.
  - case_match; hp_solve.
  - hp_solve.
  - eapply hp_ext_trans; [|apply fire_due_spec; simpl; apply (inv_fresh _ _ I)]. hp_solve.
  - hp_solve.
Qed.

Ltac lk_solve := repeat lazymatch goal with
  | |- lk_dom ?s ?s => apply lk_dom_refl
  | |- lk_dom _ (vset_pc _ _ _) => eapply lk_dom_frame; [apply fr_vset_pc_locks|]
  | |- lk_dom _ (vemit _ _) => eapply lk_dom_frame; [apply fr_vemit_locks|]
  | |- lk_dom _ (hand_over _ _) => apply lk_dom_hand_over
  | |- lk_dom _ (mgr_unlock _ _ _ _).1 => apply lk_dom_mgr_unlock
  | |- lk_dom _ (_ <| v_locks := <[_ := _]> (v_locks _) |>) => apply lk_dom_insert
  | |- lk_dom _ (fold_left _ _ _) => fail
  | |- lk_dom _ _ => eapply lk_dom_frame; [solve [simpl; autorewrite with svf; simpl; reflexivity]|]
  end.
Lemma lk_step cfg s it : SvInv cfg s → lk_dom s (vstep cfg s it).
Proof.
  intros I. unfold vstep. rewrite (vi_not_crashed _ _ I).
  destruct it as [tid op|tid|tid cause|sid|sid|dt|].
  - repeat case_match; lk_solve.
  - destruct (v_thr s !! tid) as [t|] eqn:Ht; [|apply lk_dom_refl]. vrun_leaves t ltac:(apply lk_dom_refl).
    all: lk_solve.
    change (fold_left _ _ _) with (net_stop s). eapply lk_dom_frame; [apply (net_stop_frame _ _ I)|apply lk_dom_refl].
  - repeat case_match; lk_solve.
  - case_match; lk_solve.
  - lk_solve.
  - eapply lk_dom_frame; [apply fire_due_spec; simpl; apply (inv_fresh _ _ I)|]. lk_solve.
  - lk_solve.
Qed.
