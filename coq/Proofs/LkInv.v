(** The invariant of Mlk holds in every reachable state of every interleaving, and its consequences:
    C01 (capacity), C13 (garbage collection), C03 (blocked calls), C02 (conservation). *)
From Coq Require Import Lia ZifyBool ZifyNat.
From Ldlm Require Import Model.Base Model.Err Model.Lk Proofs.LkDefs Proofs.LkInvBase Proofs.LkInvMove Proofs.LkInvMove2 Proofs.LkInvStep.
From RecordUpdate Require Import RecordSet.
Import RecordSetNotations.
Local Open Scope Z_scope.

Lemma linv_init : LInv l_init.
Proof.
  constructor; simpl; try done.
Qed.

Lemma res_err_ne e : res_err e ≠ LRes true None.
Proof. done. Qed.


Ltac pure_step HI Ht Hpc pc' oid :=
  eapply (linv_pc_step _ _ _ _ pc' oid HI Ht);
    [by rewrite Hpc|done|core_tac2|unfold in_transit; simpl; by rewrite Hpc
    |rewrite Hpc; unfold W; split; intros [?|?]; try done; eauto|idtac|idtac|by rewrite Hpc|done].

Ltac get_obj HI Ht Hpc oid o Ho :=
  destruct (linv_ref_alive _ _ _ oid HI Ht ltac:(by rewrite Hpc)) as (o & Ho & Hdel & _); rewrite Ho;
  pose proof (linv_kind _ _ _ HI Ht) as Hkind; rewrite Hpc in Hkind; simpl in Hkind.

Lemma linv_run minidle s tid t : LInv s → l_thr s !! tid = Some t → LInv (run_thread minidle tid t s).
Proof.
  intros HI Ht. unfold run_thread. cbv zeta.
  change (match t_op t with OUnl _ _ => false | _ => true end) with (is_acq (t_op t)).
  destruct (t_pc t) eqn:Hpc.
  - (* PEnter *)
    destruct (l_shut s) eqn:Hs.
    + eapply (linv_thr_step s _ tid t (PFin _) HI Ht); [by rewrite Hpc|done|core_tac2|by rewrite Hpc|done|done].
    + eapply (linv_thr_step s _ tid t PGet HI Ht); [by rewrite Hpc|done|core_tac2|by rewrite Hpc|done|congruence].
  - (* PGet *)
    assert (∀ e, LInv (finish tid (res_err e) (emit (EvLin (LaErr tid e)) s))) as Herr.
    { intros e. eapply (linv_thr_step s _ tid t (PFin _) HI Ht); [by rewrite Hpc|done|core_tac2|by rewrite Hpc|done|done]. }
    destruct (op_size (t_op t) <=? 0) eqn:Hsz; [apply Herr|].
    destruct (l_map s !! op_name (t_op t)) as [oid|] eqn:Hm.
    + destruct (l_heap s !! oid) as [o|] eqn:Ho; [|done].
      destruct (is_acq (t_op t) && negb (bool_decide (op_size (t_op t) = o_size o))) eqn:Hc; [apply Herr|].
      eapply (linv_obj_step s _ tid t _ oid o _ HI Ht Ho); [core_tac2|].
      apply run_PGet_existing; try done.
      intros Ha. rewrite Ha in Hc. simpl in Hc. apply negb_false_iff, bool_decide_eq_true in Hc. done.
    + destruct (is_acq (t_op t)) eqn:Ha; [|apply Herr].
      set (oid := l_next s). set (o0 := LObj (op_name (t_op t)) (op_size (t_op t)) [] 0 [] [] (l_now s) false 0).
      set (s1 := s <| l_heap := <[oid := o0]> (l_heap s) |> <| l_map := <[op_name (t_op t) := oid]> (l_map s) |> <| l_next := S oid |>).
      assert (LInv s1) as HI1 by (eapply (linv_alloc s s1 (op_name (t_op t)) (op_size (t_op t)) HI); try done; lia).
      eapply (linv_obj_step s1 _ tid t (PChkDel oid) oid o0 (o0 <| o_last := l_now s1 |> <| o_users := o_users o0 + 1 |>) HI1 Ht).
      * simpl. by rewrite lookup_insert.
      * unfold core_eq, set_pc, emit. simpl. rewrite Ht. simpl. rewrite insert_insert. done.
      * pose proof (run_PGet_existing s1 tid t oid o0 HI1 Ht Hpc) as L. rewrite Ha in L. apply L; try done.
        simpl. by rewrite lookup_insert. simpl. by rewrite lookup_insert.
  - (* PChkDel *)
    destruct (linv_ref_alive _ _ _ oid HI Ht ltac:(by rewrite Hpc)) as (o & Ho & Hdel & _). rewrite Ho, Hdel.
    pose proof (linv_kind _ _ _ HI Ht) as Hkind. rewrite Hpc in Hkind. simpl in Hkind.
    destruct (t_op t) eqn:Hop; try done.
    + eapply (linv_pc_step s _ tid t (PTryAcq oid) oid HI Ht);
        [by rewrite Hpc|done|core_tac2|unfold in_transit; simpl; by rewrite Hpc|rewrite Hpc; split; intros [?|?]; done|done
        |by rewrite Hop|by rewrite Hpc|done].
    + eapply (linv_pc_step s _ tid t (PAcqEnter oid) oid HI Ht);
        [by rewrite Hpc|done|core_tac2|unfold in_transit; simpl; by rewrite Hpc|rewrite Hpc; split; intros [?|?]; done|done
        |rewrite Hop; simpl; eauto|by rewrite Hpc|done].
  - (* PTryAcq *)
    get_obj HI Ht Hpc oid o Ho.
    destruct ((o_cur o <? o_size o) && bool_decide (o_waitq o = [])) eqn:Hc.
    + apply andb_true_iff in Hc as [Hlt Hq%bool_decide_eq_true].
      eapply (linv_obj_step s _ tid t _ oid o _ HI Ht Ho); [core_tac2|]. apply run_acquire; auto. lia.
    + pure_step HI Ht Hpc (PDone oid (LRes false None)) oid; done.
  - (* PAcqEnter *)
    get_obj HI Ht Hpc oid o Ho.
    destruct (t_cancel t) as [e|] eqn:Hcan.
    + pure_step HI Ht Hpc (PDone oid (res_err e)) oid; done.
    + destruct ((o_cur o <? o_size o) && bool_decide (o_waitq o = [])) eqn:Hc.
      * apply andb_true_iff in Hc as [Hlt Hq%bool_decide_eq_true].
        eapply (linv_obj_step s _ tid t _ oid o _ HI Ht Ho); [core_tac2|]. apply run_acquire; auto. lia.
      * eapply (linv_obj_step s _ tid t _ oid o _ HI Ht Ho); [core_tac2|]. apply run_enqueue; auto.
        intros [Hlt Hq]. rewrite Hq in Hc. rewrite bool_decide_eq_true_2 in Hc by done.
        rewrite andb_true_r in Hc. lia.
  - (* PAcqWait *)
    get_obj HI Ht Hpc oid o Ho.
    destruct (bool_decide (tid ∈ o_ready o)) eqn:Hr.
    + apply bool_decide_eq_true in Hr.
      eapply (linv_obj_step s _ tid t _ oid o _ HI Ht Ho); [core_tac2|]. by apply run_woken.
    + destruct (t_cancel t) as [e|] eqn:Hcan; [|done].
      pure_step HI Ht Hpc (PAcqCancel oid) oid; [by rewrite Hcan|done].
  - (* PAcqWoken *)
    pose proof (linv_kind _ _ _ HI Ht) as Hkind; rewrite Hpc in Hkind; simpl in Hkind.
    destruct (t_cancel t) as [e|] eqn:Hcan.
    + pure_step HI Ht Hpc (PRelCancel oid) oid; done.
    + pure_step HI Ht Hpc (PAddKey oid) oid; [done|by apply is_acq_lock].
  - (* PAcqCancel *)
    get_obj HI Ht Hpc oid o Ho.
    destruct (bool_decide (tid ∈ o_ready o)) eqn:Hr.
    + apply bool_decide_eq_true in Hr.
      destruct (notify _) as [o2 woken] eqn:Hn.
      eapply (linv_obj_step s _ tid t _ oid o _ HI Ht Ho); [core_tac2|].
      eapply run_cancel_ready; try done.
    + apply bool_decide_eq_false in Hr.
      destruct (run_cancel_queued s tid t oid o (res_err (default ECtxCanceled (t_cancel t))) HI Ht Hpc Ho Hr) as [Hfull L]; [done|].
      simpl. rewrite Hfull, andb_false_r.
      eapply (linv_obj_step s _ tid t _ oid o _ HI Ht Ho); [core_tac2|]. exact L.
  - (* PRelCancel *)
    get_obj HI Ht Hpc oid o Ho.
    destruct (run_relcancel s tid t oid o HI Ht Hpc Ho) as [Hpos L]. rewrite Hpos.
    destruct (notify _) as [o2 woken] eqn:Hn.
    eapply (linv_obj_step s _ tid t _ oid o _ HI Ht Ho); [core_tac2|]. by eapply L.
  - (* PAddKey *)
    get_obj HI Ht Hpc oid o Ho.
    eapply (linv_obj_step s _ tid t _ oid o _ HI Ht Ho); [core_tac2|]. by apply run_addkey.
  - (* PUnlChk *)
    get_obj HI Ht Hpc oid o Ho. rewrite Hdel.
    pure_step HI Ht Hpc (PUnlRem oid) oid; done.
  - (* PUnlRem *)
    get_obj HI Ht Hpc oid o Ho.
    destruct (bool_decide (op_key (t_op t) ∈ o_keys o)) eqn:Hin.
    + apply bool_decide_eq_true in Hin.
      destruct (run_unlock s tid t oid o HI Ht Hpc Ho Hin) as [Hpos L]. rewrite Hpos.
      destruct (notify _) as [o2 woken] eqn:Hn.
      eapply (linv_obj_step s _ tid t _ oid o _ HI Ht Ho); [core_tac2|]. by eapply L.
    + pure_step HI Ht Hpc (PDone oid (res_err ELockInvalidLockKey)) oid; done.
  - (* PDone *)
    get_obj HI Ht Hpc oid o Ho.
    eapply (linv_obj_step s _ tid t _ oid o _ HI Ht Ho); [core_tac2|]. by apply run_done.
  - (* PFin *) done.
Qed.

Lemma linv_cancel s tid t cause :
  LInv s → l_thr s !! tid = Some t → (∃ n k z, t_op t = OLock n k z) →
  LInv (s <| l_thr := <[tid := t <| t_cancel := Some cause |>]> (l_thr s) |>).
Proof.
  intros HI Ht Hop. set (t' := t <| t_cancel := Some cause |>).
  destruct (pc_oid (t_pc t)) as [oid|] eqn:Hpc.
  - destruct (linv_ref_alive _ _ _ oid HI Ht Hpc) as (o & Ho & _).
    eapply (linv_move_obj s _ tid t t' oid o o HI Ht); simpl; try done.
    + by rewrite insert_id.
    + apply local_ok_pure; try done. by apply (linv_kind s tid t).
  - eapply (linv_move_thr s _ tid t' HI); simpl; try done.
    + intros t0 ?. by simplify_eq.
    + intros _ Hp. by exists t.
    + intros Hs. apply (li_shut s HI Hs tid t Ht).
    + intros tid1 t1 Hne Ht1 Ha1 Ha Hk. apply Hne. by apply (li_fresh s HI tid1 tid t1 t).
    + intros Hu tid1 t1 Hne Ht1 Ha1 Hk. by apply (li_unl_key s HI tid t tid1 t1).
    + intros Ha tid1 t1 Hne Ht1 Hu1 Hk. by apply (li_unl_key s HI tid1 t1 tid t).
Qed.

Lemma linv_step minidle s it : LInv s → item_ok s it → LInv (lstep minidle s it).
Proof.
  intros HI Hok. unfold lstep. rewrite (li_not_crashed s HI). destruct it as [tid op|tid|tid|tid cause|name|dt|].
  - (* ICall *)
    destruct (l_thr s !! tid) as [t|] eqn:Ht; [done|]. destruct Hok as [Hk1 Hk2].
    eapply (linv_move_thr s _ tid (Thread op PEnter None) HI); simpl; try done.
    + intros t0 ?. congruence.
    + intros tid1 t1 _ Ht1 _ Ha. by apply (Hk1 Ha tid1 t1).
    + intros Hu tid1 t1 _ Ht1 Ha1 Hk. by apply (Hk2 Hu tid1 t1).
    + intros Ha tid1 t1 _ Ht1 _ Hk. by destruct (Hk1 Ha tid1 t1 Ht1).
  - (* IRun *)
    destruct (l_thr s !! tid) as [t|] eqn:Ht; [|done]. by apply linv_run.
  - (* IRunCancel *)
    destruct (l_thr s !! tid) as [t|] eqn:Ht; [|done].
    destruct (t_pc t) eqn:Hpc; try done. destruct (t_cancel t) as [e|] eqn:Hcan; [|done].
    pose proof (linv_kind _ _ _ HI Ht) as Hkind; rewrite Hpc in Hkind; simpl in Hkind.
    pure_step HI Ht Hpc (PAcqCancel oid) oid; [by rewrite Hcan|done].
  - (* ICancel *)
    destruct (l_thr s !! tid) as [t|] eqn:Ht; [|done].
    destruct (t_cancel t) eqn:Hcan; [done|]. destruct (t_op t) eqn:Hop; try done.
    apply linv_cancel; try done. rewrite Hop. eauto.
  - (* IGc *) by apply linv_gc_one.
  - (* ITick *) eapply (linv_tick s _ (Z.max 0 dt) HI); simpl; try done. lia.
  - (* IShutdown *)
    destruct (l_shut s) eqn:Hs; [done|]. destruct (no_call_in_flight s) eqn:Hnf; [|done].
    unfold shutdown_all. destruct (linv_gc_fold 0 (map_to_list (l_map s)) s HI) as [HI1 Hthr].
    eapply (linv_set_shut _ _ HI1); simpl; try done. rewrite Hthr. by apply forallb_no_flight.
Qed.

Theorem linv_reach : T_linv_reach.
Proof. intros minidle s H. induction H; [apply linv_init|by apply linv_step]. Qed.

(** ** C01 *)
Theorem C01_table : T_C01_table.
Proof.
  intros minidle s oid o Hr Ho. pose proof (linv_reach _ _ Hr) as HI.
  destruct (li_units s HI _ _ Ho) as [Hu Hb]. pose proof (count_thr_nonneg (in_transit oid) s).
  split_and!; [lia|lia|]. intros Hd. destruct (li_deleted s HI _ _ Ho Hd) as (Hus & ? & _).
  split; [done|]. by rewrite <-(li_users s HI _ _ Ho).
Qed.

Theorem C01_capacity : T_C01_capacity.
Proof.
  intros minidle s name ks Hr Hnd Hne Hg. pose proof (linv_reach _ _ Hr) as HI.
  assert (∀ k, k ∈ ks → ∃ oid o, l_map s !! name = Some oid ∧ l_heap s !! oid = Some o ∧ k ∈ o_keys o) as Hin.
  { intros k Hk. destruct (Hg k Hk) as [(tid & t & Ht & Ha & Hn & Hkk & Hpc) Hnu].
    destruct (li_granted s HI _ _ Ht Ha Hpc) as [?|Hu]; [by subst|].
    destruct Hnu. destruct Hu as (tid' & t' & ? & ?). exists tid', t'. by subst. }
  destruct ks as [|k0 ks0]; [done|].
  destruct (Hin k0 ltac:(left)) as (oid & o & Hm & Ho & _).
  exists (o_size o). split; [by exists oid, o|].
  assert (length (k0 :: ks0) ≤ length (o_keys o))%nat.
  { apply submseteq_length, NoDup_submseteq; [done|]. intros k Hk.
    destruct (Hin k Hk) as (oid' & o' & ? & ? & ?). by simplify_eq. }
  destruct (li_units s HI _ _ Ho) as [Hu Hb]. pose proof (count_thr_nonneg (in_transit oid) s). lia.
Qed.

(** ** C13 *)
Theorem C13_no_panic : T_C13_no_panic.
Proof. intros minidle s Hr. apply (li_not_crashed s (linv_reach _ _ Hr)). Qed.

Theorem C13_gc_frame : T_C13_gc_frame.
Proof.
  intros minidle s name. simpl. unfold lstep. destruct (l_crashed s); [done|].
  destruct (gc_one_frame minidle name s) as (? & ? & ? & _ & _ & ? & ?). done.
Qed.

Theorem C13_gc_only_idle : T_C13_gc_only_idle.
Proof.
  intros minidle s name oid Hr Hm. pose proof (linv_reach _ _ Hr) as HI.
  unfold lstep. rewrite (li_not_crashed s HI). unfold gc_one. rewrite Hm.
  destruct (li_map s HI _ _ Hm) as (o & Ho & _). rewrite Ho.
  destruct (bool_decide (o_keys o = []) && (o_users o =? 0) && (minidle <? l_now s - o_last o)) eqn:Hc; [|congruence].
  intros _. apply andb_true_iff in Hc as [[Hk%bool_decide_eq_true Hu%Z.eqb_eq]%andb_true_iff Hidle].
  destruct (gc_idle s oid o HI Ho Hk Hu) as (? & ? & ? & ?).
  exists o. split_and!; try done. lia.
Qed.

(** ** C03 *)
Theorem C03_notify_prefix : T_C03_notify_prefix.
Proof. intros o o' woken H. apply notify_spec in H as (? & ? & ? & ? & _). done. Qed.

Theorem C03_blocked_iff : T_C03_blocked_iff.
Proof.
  intros minidle s tid t Hr Ht. pose proof (linv_reach _ _ Hr) as HI. unfold blocked. rewrite Ht.
  destruct (t_pc t) eqn:Hpc; try done; [|intros _; left; eauto].
  destruct (linv_ref_alive _ _ _ oid HI Ht ltac:(by rewrite Hpc)) as (o & Ho & _). rewrite Ho.
  intros [Hnr%negb_true_iff%bool_decide_eq_false Hnc%negb_true_iff%bool_decide_eq_false]%andb_true_iff.
  right. exists oid, o.
  destruct (li_waiting s HI _ _ _ Ht ltac:(left; exact Hpc)) as (o1 & ? & Hq). simplify_eq.
  apply elem_of_app in Hq as [Hq|?]; [|done].
  split_and!; try done.
  - destruct (t_cancel t); [|done]. by destruct Hnc.
  - apply (li_no_lost_wakeup s HI _ _ Ho). intros E. rewrite E in Hq. by apply elem_of_nil in Hq.
Qed.

(** ** C02: conservation *)
Theorem C02_conservation : T_C02_conservation.
Proof.
  intros minidle s oid o Hr Hnf Ho. pose proof (linv_reach _ _ Hr) as HI.
  pose proof (forallb_no_flight s Hnf) as Hf.
  assert (o_waitq o ++ o_ready o = []) as [Hq Hrd]%app_eq_nil.
  { apply list_empty_no_elem. intros x Hx. destruct (li_queue s HI _ _ _ Ho Hx) as (t & Ht & HW).
    specialize (Hf _ _ Ht). by destruct HW as [HW|HW]; rewrite HW in Hf. }
  split_and!; try done. destruct (li_units s HI _ _ Ho) as [-> _]. rewrite Hrd.
  rewrite count_thr_zero; [simpl; lia|]. intros tid t Ht. specialize (Hf _ _ Ht).
  unfold in_transit. by destruct (t_pc t).
Qed.

(** ** Thread frame: a step only touches the thread pool at the item's own thread id *)
Definition thr_except (tid : nat) (s s' : lstate) : Prop := ∀ x, x ≠ tid → l_thr s' !! x = l_thr s !! x.

Lemma te_set_pc tid pc s s1 : thr_except tid s s1 → thr_except tid s (set_pc tid pc s1).
Proof.
  intros H x Hx. unfold set_pc. destruct (l_thr s1 !! tid); simpl; [rewrite lookup_insert_ne by done|]; by apply H.
Qed.
Lemma te_emit tid e s s1 : thr_except tid s s1 → thr_except tid s (emit e s1).
Proof. done. Qed.
Lemma te_emit_grants tid n w s s1 : thr_except tid s s1 → thr_except tid s (emit_grants n w s1).
Proof. destruct (emit_grants_trace n w s1) as [tr ->]. done. Qed.
Lemma te_set_obj tid oid o s s1 : thr_except tid s s1 → thr_except tid s (set_obj oid o s1).
Proof. done. Qed.

Ltac te_tac :=
  unfold finish;
  repeat first [apply te_set_pc | apply te_emit | apply te_emit_grants | apply te_set_obj];
  by (intros ? ?).

Lemma run_thread_other m tid t s : thr_except tid s (run_thread m tid t s).
Proof. unfold run_thread. repeat case_match; te_tac. Qed.

Lemma gc_fold_thr m l s : l_thr (fold_left (λ (s : lstate) '((name, _) : str * nat), gc_one m name s) l s) = l_thr s.
Proof.
  revert s. induction l as [|[n x] l IH]; intros s; simpl; [done|]. rewrite IH. apply (gc_one_frame m n s).
Qed.

Definition item_tid (it : item) : option nat :=
  match it with ICall x _ | IRun x | IRunCancel x | ICancel x _ => Some x | _ => None end.

Lemma lstep_other m s it tid : item_tid it ≠ Some tid → l_thr (lstep m s it) !! tid = l_thr s !! tid.
Proof.
  intros Hne. unfold lstep. destruct (l_crashed s); [done|].
  destruct it as [tid0 op|tid0|tid0|tid0 cause|name|dt|]; simpl in *.
  - destruct (l_thr s !! tid0); [done|]. simpl. rewrite lookup_insert_ne; [done|congruence].
  - destruct (l_thr s !! tid0) as [t0|]; [|done]. apply run_thread_other. congruence.
  - destruct (l_thr s !! tid0) as [t0|]; [|done]. repeat case_match; try done. apply te_set_pc; [done|congruence].
  - destruct (l_thr s !! tid0) as [t0|]; [|done]. repeat case_match; try done. simpl. rewrite lookup_insert_ne; [done|congruence].
  - by destruct (gc_one_frame m name s) as (-> & _).
  - done.
  - repeat case_match; try done. unfold shutdown_all. simpl. by rewrite gc_fold_thr.
Qed.

Theorem C03_giveup_final : T_C03_giveup_final.
Proof.
  intros minidle s it tid t oid r Ht Hpc.
  destruct (decide (item_tid it = Some tid)) as [Heq|Hne]; [|exists t; by rewrite lstep_other].
  unfold lstep. destruct (l_crashed s); [by exists t|].
  destruct it as [tid0 op|tid0|tid0|tid0 cause|name|dt|]; simpl in Heq; simplify_eq; rewrite Ht.
  - by exists t.
  - unfold run_thread. destruct Hpc as [Hpc|Hpc]; rewrite Hpc; [|exists t; by rewrite Hpc; auto].
    destruct (l_heap s !! oid); [|exists t; by rewrite Hpc; auto].
    unfold finish, set_pc. simpl. rewrite Ht. simpl. rewrite lookup_insert. eexists. split; [done|]. simpl. auto.
  - destruct Hpc as [Hpc|Hpc]; rewrite Hpc; exists t; rewrite Hpc; auto.
  - repeat case_match; try (exists t; by auto). simpl. rewrite lookup_insert. eexists. split; [done|]. simpl. auto.
Qed.

(** ** C03: promptness *)
Definition rank (pc : lpc) : nat :=
  match pc with
  | PFin _ => 0 | PDone _ _ => 1
  | PAddKey _ | PRelCancel _ | PUnlRem _ | PAcqCancel _ => 2
  | PUnlChk _ | PAcqWoken _ | PTryAcq _ => 3
  | PAcqWait _ => 4 | PAcqEnter _ => 5 | PChkDel _ => 6 | PGet => 7 | PEnter => 8
  end%nat.

Lemma thr_set_pc s1 tid t pc : l_thr s1 !! tid = Some t → l_thr (set_pc tid pc s1) !! tid = Some (t <| t_pc := pc |>).
Proof. intros H. unfold set_pc. rewrite H. simpl. by rewrite lookup_insert. Qed.
Lemma thr_emit_grants n w s1 : l_thr (emit_grants n w s1) = l_thr s1.
Proof. by destruct (emit_grants_trace n w s1) as [tr ->]. Qed.

Ltac thr_tac Ht :=
  unfold finish; simpl; erewrite thr_set_pc; [reflexivity|]; rewrite ?thr_emit_grants; simpl; exact Ht.
Ltac prompt_tac Ht := eexists; split; [thr_tac Ht|simpl; lia].

Lemma prompt_step m s tid t : LInv s → l_thr s !! tid = Some t → blocked s tid = false →
  ∃ t', l_thr (run_thread m tid t s) !! tid = Some t' ∧ (rank (t_pc t') < rank (t_pc t))%nat.
Proof.
  intros HI Ht Hb. unfold blocked in Hb. rewrite Ht in Hb. unfold run_thread. cbv zeta.
  destruct (t_pc t) eqn:Hpc.
  - destruct (l_shut s); prompt_tac Ht.
  - destruct (op_size (t_op t) <=? 0); [prompt_tac Ht|].
    destruct (l_map s !! op_name (t_op t)) as [oid|] eqn:Hm.
    + destruct (li_map s HI _ _ Hm) as (o & Ho & _); rewrite Ho.
      repeat case_match; prompt_tac Ht.
    + repeat case_match; prompt_tac Ht.
  - get_obj HI Ht Hpc oid o Ho. rewrite Hdel.
    eexists; split; [thr_tac Ht|]. simpl. destruct (t_op t); simpl; lia.
  - get_obj HI Ht Hpc oid o Ho. repeat case_match; prompt_tac Ht.
  - get_obj HI Ht Hpc oid o Ho. repeat case_match; prompt_tac Ht.
  - get_obj HI Ht Hpc oid o Ho. rewrite Ho in Hb.
    destruct (bool_decide (tid ∈ o_ready o)); [prompt_tac Ht|].
    destruct (t_cancel t); [prompt_tac Ht|]. simpl in Hb. done.
  - repeat case_match; prompt_tac Ht.
  - get_obj HI Ht Hpc oid o Ho. repeat case_match; prompt_tac Ht.
  - get_obj HI Ht Hpc oid o Ho.
    destruct (run_relcancel s tid t oid o HI Ht Hpc Ho) as [-> _]. repeat case_match; prompt_tac Ht.
  - get_obj HI Ht Hpc oid o Ho. prompt_tac Ht.
  - get_obj HI Ht Hpc oid o Ho. repeat case_match; prompt_tac Ht.
  - get_obj HI Ht Hpc oid o Ho.
    destruct (bool_decide (op_key (t_op t) ∈ o_keys o)) eqn:Hin; [|prompt_tac Ht].
    apply bool_decide_eq_true in Hin.
    destruct (run_unlock s tid t oid o HI Ht Hpc Ho Hin) as [-> _]. repeat case_match; prompt_tac Ht.
  - get_obj HI Ht Hpc oid o Ho. prompt_tac Ht.
  - done.
Qed.

Lemma solo_succ m tid k s : solo m tid (S k) s = solo m tid k (lstep m s (IRun tid)).
Proof. unfold solo. induction k as [|k IH]; [done|]. simpl in *. by rewrite IH. Qed.

Lemma prompt_ind m n : ∀ s tid t, LInv s → l_thr s !! tid = Some t → (rank (t_pc t) ≤ n)%nat →
  ∃ k t', (k ≤ n)%nat ∧ l_thr (solo m tid k s) !! tid = Some t' ∧
          ((∃ r, t_pc t' = PFin r) ∨ blocked (solo m tid k s) tid = true).
Proof.
  induction n as [|n IH]; intros s tid t HI Ht Hr.
  - exists 0%nat, t. split_and!; [done|done|]. left. destruct (t_pc t); simpl in Hr; try lia. eauto.
  - destruct (blocked s tid) eqn:Hb; [exists 0%nat, t; split_and!; [lia|done|by right]|].
    destruct (prompt_step m s tid t HI Ht Hb) as (t1 & Ht1 & Hlt).
    assert (lstep m s (IRun tid) = run_thread m tid t s) as Hst.
    { unfold lstep. by rewrite (li_not_crashed s HI), Ht. }
    destruct (IH (lstep m s (IRun tid)) tid t1) as (k & t' & Hk & Ht' & Hfin).
    + by apply linv_step.
    + by rewrite Hst.
    + lia.
    + exists (S k), t'. rewrite solo_succ. split_and!; [lia|done|done].
Qed.

Theorem C03_prompt : T_C03_prompt.
Proof.
  intros minidle s tid t Hr Ht. apply (prompt_ind minidle 8 s tid t (linv_reach _ _ Hr) Ht).
  destruct (t_pc t); simpl; lia.
Qed.

Print Assumptions linv_reach.
Print Assumptions C01_capacity.
Print Assumptions C01_table.
Print Assumptions C13_no_panic.
Print Assumptions C13_gc_only_idle.
Print Assumptions C13_gc_frame.
Print Assumptions C03_notify_prefix.
Print Assumptions C03_giveup_final.
Print Assumptions C03_prompt.
Print Assumptions C03_blocked_iff.
Print Assumptions C02_conservation.
