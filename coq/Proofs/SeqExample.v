(** A concrete, non-trivial reachable state of Mseq used by the [Example]s of the property files to show that the
    hypotheses of the theorems are satisfiable: two sessions; session s1 holds lock "a" (size 1) with a 5 s lease under
    key k1; a Lock call of session s2 (wait timeout 3 s) is parked on it. *)
From Ldlm Require Import Model.Base Model.Err Model.Seq Proofs.SeqDefs.
Local Open Scope Z_scope.

Definition step1 (cfg : config) (s : sstate) (ev : event) : sstate :=
  match sstep cfg s ev with (s', _) :: _ => s' | [] => s end.
Lemma step1_reach cfg s ev : reachable cfg s → ev_ok s ev → sstep cfg s ev ≠ [] → reachable cfg (step1 cfg s ev).
Proof.
  intros Hr Hok Hne. unfold step1. destruct (sstep cfg s ev) as [|[s' o] l] eqn:E; [done|].
  eapply reach_step; [exact Hr|exact Hok|]. rewrite E. left.
Qed.

Definition ex_cfg : config := Config false true (30 * second) (5 * second) (10 * second).
Definition nA : str := [x61]. Definition kA : str := [x6b; x31]. Definition kB : str := [x6b; x32].
Definition sA : str := [x73; x31]. Definition sB : str := [x73; x32].
Definition ex_hist : list event :=
  [EConnect sA; EConnect sB; ETryLock (Some sA) nA None (Some 5) kA; ELock 7%nat (Some sB) nA None None (Some 3) kB].
Definition ex_state : sstate := fold_left (step1 ex_cfg) ex_hist (init_state ex_cfg).

Ltac notin := let H := fresh in intros H; repeat (apply elem_of_cons in H as [H|H]; [discriminate H|]); by apply elem_of_nil in H.
Lemma ex_reachable : reachable ex_cfg ex_state.
Proof.
  unfold ex_state, ex_hist. cbn [fold_left].
  repeat (apply step1_reach; [| |by vm_compute]); try exact (reach_init _); try exact I.
  - vm_compute. notin.
  - split; vm_compute; notin.
Qed.
Lemma ex_cfg_ok : cfg_ok ex_cfg. Proof. by vm_compute. Qed.
Lemma ex_live : live ex_state nA kA.
Proof. eexists. split; [by vm_compute|]. vm_compute. left. Qed.

Lemma ex_timer : st_timers ex_state !! tkey nA kA = Some (Timer (5 * second) nA kA sA).
Proof. by vm_compute. Qed.
Lemma ex_waiter : ∃ w, w ∈ st_waiters ex_state ∧ w_id w = 7%nat ∧ w_name w = nA ∧ w_deadline w = Some (3 * second).
Proof. eexists. split; [vm_compute; left|]. by vm_compute. Qed.
Lemma ex_listed : listed ex_state sA (Clock nA kA 1).
Proof. eexists. split; [by vm_compute|]. vm_compute. left. Qed.
Lemma ex_in_listing : Clock nA kA 1 ∈ listing ex_state.
Proof. vm_compute. left. Qed.
