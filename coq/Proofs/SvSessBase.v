(** Basic facts about the primitives of Msv (Model/Sv.v) used by the session-end proofs (work package svsess). *)
From Coq Require Import Lia ZifyBool ZifyNat.
From Ldlm Require Import Model.Base Model.Err Model.Sv Proofs.SvDefs Proofs.SeqLemmasKey.
From RecordUpdate Require Import RecordSet.
Import RecordSetNotations.
Local Open Scope Z_scope.

(** ** primitives as record updates *)
Lemma vset_pc_eq tid pc s :
  vset_pc tid pc s = s <| v_thr := match v_thr s !! tid with Some t => <[tid := t <| st_pc := pc |>]> (v_thr s) | None => v_thr s end |>.
Proof. unfold vset_pc; destruct s; simpl; case_match; reflexivity. Qed.

Lemma vset_pc_some tid pc s t : v_thr s !! tid = Some t →
  vset_pc tid pc s = s <| v_thr := <[tid := t <| st_pc := pc |>]> (v_thr s) |>.
Proof. unfold vset_pc; intros ->; reflexivity. Qed.

Lemma vsave_eq cfg s : vsave cfg s = s <| v_file := if sc_file cfg then Some (v_sess s) else v_file s |>.
Proof. unfold vsave; destruct s; simpl; case_match; reflexivity. Qed.

(** the thread pool after [vset_pc], as a lookup *)
Lemma vset_pc_lookup tid pc s x :
  v_thr (vset_pc tid pc s) !! x = if decide (x = tid) then (λ t, t <| st_pc := pc |>) <$> (v_thr s !! tid) else v_thr s !! x.
Proof.
  rewrite vset_pc_eq; simpl. destruct (decide (x = tid)) as [->|Hne].
  - destruct (v_thr s !! tid) eqn:E; simpl; [by rewrite lookup_insert | done].
  - destruct (v_thr s !! tid) eqn:E; simpl; [by rewrite lookup_insert_ne | done].
Qed.

(** ** hand_over *)
Definition ho_grant (name : str) (s : svstate) : option (alock * nat * list nat) :=
  match v_locks s !! name with
  | Some a => match al_q a with
              | w :: q' => if Z.of_nat (length (al_live a)) <? al_size a then Some (a, w, q') else None
              | [] => None
              end
  | None => None
  end.

Lemma hand_over_eq name s :
  hand_over name s =
  match ho_grant name s with
  | Some (a, w, q') =>
      vemit (SvAcquired w name (key_of_thr s w))
        (vset_pc w VWoken (s <| v_locks := <[name := a <| al_live := al_live a ++ [key_of_thr s w] |> <| al_q := q' |>]> (v_locks s) |>))
  | None => s
  end.
Proof. unfold hand_over, ho_grant. repeat case_match; simplify_eq; reflexivity. Qed.

(** ** remove_first *)
Lemma elem_of_remove_first k x l : x ∈ remove_first k l → x ∈ l.
Proof.
  induction l as [|y l IH]; simpl; [done|]. case_bool_decide; [by right|].
  rewrite !elem_of_cons. naive_solver.
Qed.
Lemma elem_of_remove_first_ne k x l : x ≠ k → x ∈ l → x ∈ remove_first k l.
Proof.
  intros Hne. induction l as [|y l IH]; simpl; [done|]. rewrite elem_of_cons. case_bool_decide.
  - intros [->|?]; [congruence|done].
  - rewrite elem_of_cons. naive_solver.
Qed.
Lemma not_elem_of_remove_first k l : NoDup l → k ∉ remove_first k l.
Proof.
  induction 1 as [|y l Hy Hl IH]; simpl; [apply not_elem_of_nil|]. case_bool_decide; [by subst|].
  rewrite not_elem_of_cons. split; [congruence|done].
Qed.

(** ** generic fold lemma *)
Lemma fold_left_inv {A B} (P : A → Prop) (f : A → B → A) l a :
  P a → (∀ a b, P a → b ∈ l → P (f a b)) → P (fold_left f l a).
Proof.
  revert a. induction l as [|b l IH]; simpl; intros a Ha Hf; [done|].
  apply IH; [apply Hf; [done|left]|]. intros; apply Hf; [done|by right].
Qed.

(** ** reachability basics *)
Lemma vreach_run cfg sch s : vreach cfg s →
  Forall2 (λ _ _ : sitem, True) sch sch →
  (∀ pre it post, sch = pre ++ it :: post → sitem_ok (fold_left (vstep cfg) pre s) it) →
  vreach cfg (fold_left (vstep cfg) sch s).
Proof.
  intros Hr _. revert s Hr. induction sch as [|it sch IH]; simpl; intros s Hr Hok; [done|].
  apply IH.
  - apply vreach_step; [done|]. apply (Hok [] it sch eq_refl).
  - intros pre it' post ->. apply (Hok (it :: pre) it' post eq_refl).
Qed.
(** ** frame lemmas: the fields a primitive does not touch (generated text) *)
Ltac frame_tac :=
  intros;
  first [ progress (unfold mgr_unlock); repeat case_match; simpl; autorewrite with svframe0; simpl; first [reflexivity|congruence]
        | unfold vfinish, hand_over, tm_add, tm_remove, tm_reset, sess_add, sess_remove, sess_destroy, spawn, vsave, vemit, vset_pc;
          repeat case_match; simpl; first [reflexivity|congruence] ].
Create HintDb svframe0 discriminated.
Lemma vemit_v_locks e s : v_locks (vemit e s) = v_locks s.
Proof. frame_tac. Qed.
Lemma vemit_v_timers e s : v_timers (vemit e s) = v_timers s.
Proof. frame_tac. Qed.
Lemma vemit_v_theap e s : v_theap (vemit e s) = v_theap s.
Proof. frame_tac. Qed.
Lemma vemit_v_tnext e s : v_tnext (vemit e s) = v_tnext s.
Proof. frame_tac. Qed.
Lemma vemit_v_tmshut e s : v_tmshut (vemit e s) = v_tmshut s.
Proof. frame_tac. Qed.
Lemma vemit_v_sess e s : v_sess (vemit e s) = v_sess s.
Proof. frame_tac. Qed.
Lemma vemit_v_file e s : v_file (vemit e s) = v_file s.
Proof. frame_tac. Qed.
Lemma vemit_v_shut e s : v_shut (vemit e s) = v_shut s.
Proof. frame_tac. Qed.
Lemma vemit_v_mgrshut e s : v_mgrshut (vemit e s) = v_mgrshut s.
Proof. frame_tac. Qed.
Lemma vemit_v_now e s : v_now (vemit e s) = v_now s.
Proof. frame_tac. Qed.
Lemma vemit_v_thr e s : v_thr (vemit e s) = v_thr s.
Proof. frame_tac. Qed.
Lemma vemit_v_next e s : v_next (vemit e s) = v_next s.
Proof. frame_tac. Qed.
Lemma vemit_v_crashed e s : v_crashed (vemit e s) = v_crashed s.
Proof. frame_tac. Qed.
Lemma vset_pc_v_locks tid pc s : v_locks (vset_pc tid pc s) = v_locks s.
Proof. frame_tac. Qed.
Lemma vset_pc_v_timers tid pc s : v_timers (vset_pc tid pc s) = v_timers s.
Proof. frame_tac. Qed.
Lemma vset_pc_v_theap tid pc s : v_theap (vset_pc tid pc s) = v_theap s.
Proof. frame_tac. Qed.
Lemma vset_pc_v_tnext tid pc s : v_tnext (vset_pc tid pc s) = v_tnext s.
Proof. frame_tac. Qed.
Lemma vset_pc_v_tmshut tid pc s : v_tmshut (vset_pc tid pc s) = v_tmshut s.
Proof. frame_tac. Qed.
Lemma vset_pc_v_sess tid pc s : v_sess (vset_pc tid pc s) = v_sess s.
Proof. frame_tac. Qed.
Lemma vset_pc_v_file tid pc s : v_file (vset_pc tid pc s) = v_file s.
Proof. frame_tac. Qed.
Lemma vset_pc_v_shut tid pc s : v_shut (vset_pc tid pc s) = v_shut s.
Proof. frame_tac. Qed.
Lemma vset_pc_v_mgrshut tid pc s : v_mgrshut (vset_pc tid pc s) = v_mgrshut s.
Proof. frame_tac. Qed.
Lemma vset_pc_v_now tid pc s : v_now (vset_pc tid pc s) = v_now s.
Proof. frame_tac. Qed.
Lemma vset_pc_v_next tid pc s : v_next (vset_pc tid pc s) = v_next s.
Proof. frame_tac. Qed.
Lemma vset_pc_v_crashed tid pc s : v_crashed (vset_pc tid pc s) = v_crashed s.
Proof. frame_tac. Qed.
Lemma vset_pc_v_trace tid pc s : v_trace (vset_pc tid pc s) = v_trace s.
Proof. frame_tac. Qed.
Lemma vfinish_v_locks tid r s : v_locks (vfinish tid r s) = v_locks s.
Proof. frame_tac. Qed.
Lemma vfinish_v_timers tid r s : v_timers (vfinish tid r s) = v_timers s.
Proof. frame_tac. Qed.
Lemma vfinish_v_theap tid r s : v_theap (vfinish tid r s) = v_theap s.
Proof. frame_tac. Qed.
Lemma vfinish_v_tnext tid r s : v_tnext (vfinish tid r s) = v_tnext s.
Proof. frame_tac. Qed.
Lemma vfinish_v_tmshut tid r s : v_tmshut (vfinish tid r s) = v_tmshut s.
Proof. frame_tac. Qed.
Lemma vfinish_v_sess tid r s : v_sess (vfinish tid r s) = v_sess s.
Proof. frame_tac. Qed.
Lemma vfinish_v_file tid r s : v_file (vfinish tid r s) = v_file s.
Proof. frame_tac. Qed.
Lemma vfinish_v_shut tid r s : v_shut (vfinish tid r s) = v_shut s.
Proof. frame_tac. Qed.
Lemma vfinish_v_mgrshut tid r s : v_mgrshut (vfinish tid r s) = v_mgrshut s.
Proof. frame_tac. Qed.
Lemma vfinish_v_now tid r s : v_now (vfinish tid r s) = v_now s.
Proof. frame_tac. Qed.
Lemma vfinish_v_next tid r s : v_next (vfinish tid r s) = v_next s.
Proof. frame_tac. Qed.
Lemma vfinish_v_crashed tid r s : v_crashed (vfinish tid r s) = v_crashed s.
Proof. frame_tac. Qed.
Lemma spawn_v_locks op pc s : v_locks (spawn op pc s) = v_locks s.
Proof. frame_tac. Qed.
Lemma spawn_v_timers op pc s : v_timers (spawn op pc s) = v_timers s.
Proof. frame_tac. Qed.
Lemma spawn_v_theap op pc s : v_theap (spawn op pc s) = v_theap s.
Proof. frame_tac. Qed.
Lemma spawn_v_tnext op pc s : v_tnext (spawn op pc s) = v_tnext s.
Proof. frame_tac. Qed.
Lemma spawn_v_tmshut op pc s : v_tmshut (spawn op pc s) = v_tmshut s.
Proof. frame_tac. Qed.
Lemma spawn_v_sess op pc s : v_sess (spawn op pc s) = v_sess s.
Proof. frame_tac. Qed.
Lemma spawn_v_file op pc s : v_file (spawn op pc s) = v_file s.
Proof. frame_tac. Qed.
Lemma spawn_v_shut op pc s : v_shut (spawn op pc s) = v_shut s.
Proof. frame_tac. Qed.
Lemma spawn_v_mgrshut op pc s : v_mgrshut (spawn op pc s) = v_mgrshut s.
Proof. frame_tac. Qed.
Lemma spawn_v_now op pc s : v_now (spawn op pc s) = v_now s.
Proof. frame_tac. Qed.
Lemma spawn_v_crashed op pc s : v_crashed (spawn op pc s) = v_crashed s.
Proof. frame_tac. Qed.
Lemma spawn_v_trace op pc s : v_trace (spawn op pc s) = v_trace s.
Proof. frame_tac. Qed.
Lemma vsave_v_locks cfg s : v_locks (vsave cfg s) = v_locks s.
Proof. frame_tac. Qed.
Lemma vsave_v_timers cfg s : v_timers (vsave cfg s) = v_timers s.
Proof. frame_tac. Qed.
Lemma vsave_v_theap cfg s : v_theap (vsave cfg s) = v_theap s.
Proof. frame_tac. Qed.
Lemma vsave_v_tnext cfg s : v_tnext (vsave cfg s) = v_tnext s.
Proof. frame_tac. Qed.
Lemma vsave_v_tmshut cfg s : v_tmshut (vsave cfg s) = v_tmshut s.
Proof. frame_tac. Qed.
Lemma vsave_v_sess cfg s : v_sess (vsave cfg s) = v_sess s.
Proof. frame_tac. Qed.
Lemma vsave_v_shut cfg s : v_shut (vsave cfg s) = v_shut s.
Proof. frame_tac. Qed.
Lemma vsave_v_mgrshut cfg s : v_mgrshut (vsave cfg s) = v_mgrshut s.
Proof. frame_tac. Qed.
Lemma vsave_v_now cfg s : v_now (vsave cfg s) = v_now s.
Proof. frame_tac. Qed.
Lemma vsave_v_thr cfg s : v_thr (vsave cfg s) = v_thr s.
Proof. frame_tac. Qed.
Lemma vsave_v_next cfg s : v_next (vsave cfg s) = v_next s.
Proof. frame_tac. Qed.
Lemma vsave_v_crashed cfg s : v_crashed (vsave cfg s) = v_crashed s.
Proof. frame_tac. Qed.
Lemma vsave_v_trace cfg s : v_trace (vsave cfg s) = v_trace s.
Proof. frame_tac. Qed.
Lemma hand_over_v_timers name s : v_timers (hand_over name s) = v_timers s.
Proof. frame_tac. Qed.
Lemma hand_over_v_theap name s : v_theap (hand_over name s) = v_theap s.
Proof. frame_tac. Qed.
Lemma hand_over_v_tnext name s : v_tnext (hand_over name s) = v_tnext s.
Proof. frame_tac. Qed.
Lemma hand_over_v_tmshut name s : v_tmshut (hand_over name s) = v_tmshut s.
Proof. frame_tac. Qed.
Lemma hand_over_v_sess name s : v_sess (hand_over name s) = v_sess s.
Proof. frame_tac. Qed.
Lemma hand_over_v_file name s : v_file (hand_over name s) = v_file s.
Proof. frame_tac. Qed.
Lemma hand_over_v_shut name s : v_shut (hand_over name s) = v_shut s.
Proof. frame_tac. Qed.
Lemma hand_over_v_mgrshut name s : v_mgrshut (hand_over name s) = v_mgrshut s.
Proof. frame_tac. Qed.
Lemma hand_over_v_now name s : v_now (hand_over name s) = v_now s.
Proof. frame_tac. Qed.
Lemma hand_over_v_next name s : v_next (hand_over name s) = v_next s.
Proof. frame_tac. Qed.
Lemma hand_over_v_crashed name s : v_crashed (hand_over name s) = v_crashed s.
Proof. frame_tac. Qed.
#[export] Hint Rewrite hand_over_v_timers hand_over_v_theap hand_over_v_tnext hand_over_v_tmshut hand_over_v_sess hand_over_v_file hand_over_v_shut hand_over_v_mgrshut hand_over_v_now hand_over_v_next hand_over_v_crashed : svframe0.
Lemma mgr_unlock_v_timers tid name key s : v_timers ((mgr_unlock tid name key s).1) = v_timers s.
Proof. frame_tac. Qed.
Lemma mgr_unlock_v_theap tid name key s : v_theap ((mgr_unlock tid name key s).1) = v_theap s.
Proof. frame_tac. Qed.
Lemma mgr_unlock_v_tnext tid name key s : v_tnext ((mgr_unlock tid name key s).1) = v_tnext s.
Proof. frame_tac. Qed.
Lemma mgr_unlock_v_tmshut tid name key s : v_tmshut ((mgr_unlock tid name key s).1) = v_tmshut s.
Proof. frame_tac. Qed.
Lemma mgr_unlock_v_sess tid name key s : v_sess ((mgr_unlock tid name key s).1) = v_sess s.
Proof. frame_tac. Qed.
Lemma mgr_unlock_v_file tid name key s : v_file ((mgr_unlock tid name key s).1) = v_file s.
Proof. frame_tac. Qed.
Lemma mgr_unlock_v_shut tid name key s : v_shut ((mgr_unlock tid name key s).1) = v_shut s.
Proof. frame_tac. Qed.
Lemma mgr_unlock_v_mgrshut tid name key s : v_mgrshut ((mgr_unlock tid name key s).1) = v_mgrshut s.
Proof. frame_tac. Qed.
Lemma mgr_unlock_v_now tid name key s : v_now ((mgr_unlock tid name key s).1) = v_now s.
Proof. frame_tac. Qed.
Lemma mgr_unlock_v_next tid name key s : v_next ((mgr_unlock tid name key s).1) = v_next s.
Proof. frame_tac. Qed.
Lemma mgr_unlock_v_crashed tid name key s : v_crashed ((mgr_unlock tid name key s).1) = v_crashed s.
Proof. frame_tac. Qed.
Lemma tm_add_v_locks name key sid d s : v_locks (tm_add name key sid d s) = v_locks s.
Proof. frame_tac. Qed.
Lemma tm_add_v_tmshut name key sid d s : v_tmshut (tm_add name key sid d s) = v_tmshut s.
Proof. frame_tac. Qed.
Lemma tm_add_v_sess name key sid d s : v_sess (tm_add name key sid d s) = v_sess s.
Proof. frame_tac. Qed.
Lemma tm_add_v_file name key sid d s : v_file (tm_add name key sid d s) = v_file s.
Proof. frame_tac. Qed.
Lemma tm_add_v_shut name key sid d s : v_shut (tm_add name key sid d s) = v_shut s.
Proof. frame_tac. Qed.
Lemma tm_add_v_mgrshut name key sid d s : v_mgrshut (tm_add name key sid d s) = v_mgrshut s.
Proof. frame_tac. Qed.
Lemma tm_add_v_now name key sid d s : v_now (tm_add name key sid d s) = v_now s.
Proof. frame_tac. Qed.
Lemma tm_add_v_thr name key sid d s : v_thr (tm_add name key sid d s) = v_thr s.
Proof. frame_tac. Qed.
Lemma tm_add_v_next name key sid d s : v_next (tm_add name key sid d s) = v_next s.
Proof. frame_tac. Qed.
Lemma tm_add_v_crashed name key sid d s : v_crashed (tm_add name key sid d s) = v_crashed s.
Proof. frame_tac. Qed.
Lemma tm_add_v_trace name key sid d s : v_trace (tm_add name key sid d s) = v_trace s.
Proof. frame_tac. Qed.
Lemma tm_remove_v_locks tk s : v_locks ((tm_remove tk s).1) = v_locks s.
Proof. frame_tac. Qed.
Lemma tm_remove_v_tnext tk s : v_tnext ((tm_remove tk s).1) = v_tnext s.
Proof. frame_tac. Qed.
Lemma tm_remove_v_tmshut tk s : v_tmshut ((tm_remove tk s).1) = v_tmshut s.
Proof. frame_tac. Qed.
Lemma tm_remove_v_sess tk s : v_sess ((tm_remove tk s).1) = v_sess s.
Proof. frame_tac. Qed.
Lemma tm_remove_v_file tk s : v_file ((tm_remove tk s).1) = v_file s.
Proof. frame_tac. Qed.
Lemma tm_remove_v_shut tk s : v_shut ((tm_remove tk s).1) = v_shut s.
Proof. frame_tac. Qed.
Lemma tm_remove_v_mgrshut tk s : v_mgrshut ((tm_remove tk s).1) = v_mgrshut s.
Proof. frame_tac. Qed.
Lemma tm_remove_v_now tk s : v_now ((tm_remove tk s).1) = v_now s.
Proof. frame_tac. Qed.
Lemma tm_remove_v_thr tk s : v_thr ((tm_remove tk s).1) = v_thr s.
Proof. frame_tac. Qed.
Lemma tm_remove_v_next tk s : v_next ((tm_remove tk s).1) = v_next s.
Proof. frame_tac. Qed.
Lemma tm_remove_v_crashed tk s : v_crashed ((tm_remove tk s).1) = v_crashed s.
Proof. frame_tac. Qed.
Lemma tm_remove_v_trace tk s : v_trace ((tm_remove tk s).1) = v_trace s.
Proof. frame_tac. Qed.
Lemma tm_reset_v_locks tk d s : v_locks ((tm_reset tk d s).1) = v_locks s.
Proof. frame_tac. Qed.
Lemma tm_reset_v_timers tk d s : v_timers ((tm_reset tk d s).1) = v_timers s.
Proof. frame_tac. Qed.
Lemma tm_reset_v_tnext tk d s : v_tnext ((tm_reset tk d s).1) = v_tnext s.
Proof. frame_tac. Qed.
Lemma tm_reset_v_tmshut tk d s : v_tmshut ((tm_reset tk d s).1) = v_tmshut s.
Proof. frame_tac. Qed.
Lemma tm_reset_v_sess tk d s : v_sess ((tm_reset tk d s).1) = v_sess s.
Proof. frame_tac. Qed.
Lemma tm_reset_v_file tk d s : v_file ((tm_reset tk d s).1) = v_file s.
Proof. frame_tac. Qed.
Lemma tm_reset_v_shut tk d s : v_shut ((tm_reset tk d s).1) = v_shut s.
Proof. frame_tac. Qed.
Lemma tm_reset_v_mgrshut tk d s : v_mgrshut ((tm_reset tk d s).1) = v_mgrshut s.
Proof. frame_tac. Qed.
Lemma tm_reset_v_now tk d s : v_now ((tm_reset tk d s).1) = v_now s.
Proof. frame_tac. Qed.
Lemma tm_reset_v_thr tk d s : v_thr ((tm_reset tk d s).1) = v_thr s.
Proof. frame_tac. Qed.
Lemma tm_reset_v_next tk d s : v_next ((tm_reset tk d s).1) = v_next s.
Proof. frame_tac. Qed.
Lemma tm_reset_v_crashed tk d s : v_crashed ((tm_reset tk d s).1) = v_crashed s.
Proof. frame_tac. Qed.
Lemma tm_reset_v_trace tk d s : v_trace ((tm_reset tk d s).1) = v_trace s.
Proof. frame_tac. Qed.
Lemma sess_add_v_locks cfg tid sid c s : v_locks (sess_add cfg tid sid c s) = v_locks s.
Proof. frame_tac. Qed.
Lemma sess_add_v_timers cfg tid sid c s : v_timers (sess_add cfg tid sid c s) = v_timers s.
Proof. frame_tac. Qed.
Lemma sess_add_v_theap cfg tid sid c s : v_theap (sess_add cfg tid sid c s) = v_theap s.
Proof. frame_tac. Qed.
Lemma sess_add_v_tnext cfg tid sid c s : v_tnext (sess_add cfg tid sid c s) = v_tnext s.
Proof. frame_tac. Qed.
Lemma sess_add_v_tmshut cfg tid sid c s : v_tmshut (sess_add cfg tid sid c s) = v_tmshut s.
Proof. frame_tac. Qed.
Lemma sess_add_v_shut cfg tid sid c s : v_shut (sess_add cfg tid sid c s) = v_shut s.
Proof. frame_tac. Qed.
Lemma sess_add_v_mgrshut cfg tid sid c s : v_mgrshut (sess_add cfg tid sid c s) = v_mgrshut s.
Proof. frame_tac. Qed.
Lemma sess_add_v_now cfg tid sid c s : v_now (sess_add cfg tid sid c s) = v_now s.
Proof. frame_tac. Qed.
Lemma sess_add_v_thr cfg tid sid c s : v_thr (sess_add cfg tid sid c s) = v_thr s.
Proof. frame_tac. Qed.
Lemma sess_add_v_next cfg tid sid c s : v_next (sess_add cfg tid sid c s) = v_next s.
Proof. frame_tac. Qed.
Lemma sess_add_v_crashed cfg tid sid c s : v_crashed (sess_add cfg tid sid c s) = v_crashed s.
Proof. frame_tac. Qed.
Lemma sess_remove_v_locks cfg tid name key s : v_locks (sess_remove cfg tid name key s) = v_locks s.
Proof. frame_tac. Qed.
Lemma sess_remove_v_timers cfg tid name key s : v_timers (sess_remove cfg tid name key s) = v_timers s.
Proof. frame_tac. Qed.
Lemma sess_remove_v_theap cfg tid name key s : v_theap (sess_remove cfg tid name key s) = v_theap s.
Proof. frame_tac. Qed.
Lemma sess_remove_v_tnext cfg tid name key s : v_tnext (sess_remove cfg tid name key s) = v_tnext s.
Proof. frame_tac. Qed.
Lemma sess_remove_v_tmshut cfg tid name key s : v_tmshut (sess_remove cfg tid name key s) = v_tmshut s.
Proof. frame_tac. Qed.
Lemma sess_remove_v_shut cfg tid name key s : v_shut (sess_remove cfg tid name key s) = v_shut s.
Proof. frame_tac. Qed.
Lemma sess_remove_v_mgrshut cfg tid name key s : v_mgrshut (sess_remove cfg tid name key s) = v_mgrshut s.
Proof. frame_tac. Qed.
Lemma sess_remove_v_now cfg tid name key s : v_now (sess_remove cfg tid name key s) = v_now s.
Proof. frame_tac. Qed.
Lemma sess_remove_v_thr cfg tid name key s : v_thr (sess_remove cfg tid name key s) = v_thr s.
Proof. frame_tac. Qed.
Lemma sess_remove_v_next cfg tid name key s : v_next (sess_remove cfg tid name key s) = v_next s.
Proof. frame_tac. Qed.
Lemma sess_remove_v_crashed cfg tid name key s : v_crashed (sess_remove cfg tid name key s) = v_crashed s.
Proof. frame_tac. Qed.
Lemma sess_destroy_v_locks cfg tid sid s : v_locks ((sess_destroy cfg tid sid s).1) = v_locks s.
Proof. frame_tac. Qed.
Lemma sess_destroy_v_timers cfg tid sid s : v_timers ((sess_destroy cfg tid sid s).1) = v_timers s.
Proof. frame_tac. Qed.
Lemma sess_destroy_v_theap cfg tid sid s : v_theap ((sess_destroy cfg tid sid s).1) = v_theap s.
Proof. frame_tac. Qed.
Lemma sess_destroy_v_tnext cfg tid sid s : v_tnext ((sess_destroy cfg tid sid s).1) = v_tnext s.
Proof. frame_tac. Qed.
Lemma sess_destroy_v_tmshut cfg tid sid s : v_tmshut ((sess_destroy cfg tid sid s).1) = v_tmshut s.
Proof. frame_tac. Qed.
Lemma sess_destroy_v_shut cfg tid sid s : v_shut ((sess_destroy cfg tid sid s).1) = v_shut s.
Proof. frame_tac. Qed.
Lemma sess_destroy_v_mgrshut cfg tid sid s : v_mgrshut ((sess_destroy cfg tid sid s).1) = v_mgrshut s.
Proof. frame_tac. Qed.
Lemma sess_destroy_v_now cfg tid sid s : v_now ((sess_destroy cfg tid sid s).1) = v_now s.
Proof. frame_tac. Qed.
Lemma sess_destroy_v_thr cfg tid sid s : v_thr ((sess_destroy cfg tid sid s).1) = v_thr s.
Proof. frame_tac. Qed.
Lemma sess_destroy_v_next cfg tid sid s : v_next ((sess_destroy cfg tid sid s).1) = v_next s.
Proof. frame_tac. Qed.
Lemma sess_destroy_v_crashed cfg tid sid s : v_crashed ((sess_destroy cfg tid sid s).1) = v_crashed s.
Proof. frame_tac. Qed.
Create HintDb svframe discriminated.
#[export] Hint Rewrite vemit_v_locks vemit_v_timers vemit_v_theap vemit_v_tnext vemit_v_tmshut vemit_v_sess vemit_v_file vemit_v_shut vemit_v_mgrshut vemit_v_now vemit_v_thr vemit_v_next : svframe.
#[export] Hint Rewrite vemit_v_crashed vset_pc_v_locks vset_pc_v_timers vset_pc_v_theap vset_pc_v_tnext vset_pc_v_tmshut vset_pc_v_sess vset_pc_v_file vset_pc_v_shut vset_pc_v_mgrshut vset_pc_v_now vset_pc_v_next : svframe.
#[export] Hint Rewrite vset_pc_v_crashed vset_pc_v_trace vfinish_v_locks vfinish_v_timers vfinish_v_theap vfinish_v_tnext vfinish_v_tmshut vfinish_v_sess vfinish_v_file vfinish_v_shut vfinish_v_mgrshut vfinish_v_now : svframe.
#[export] Hint Rewrite vfinish_v_next vfinish_v_crashed spawn_v_locks spawn_v_timers spawn_v_theap spawn_v_tnext spawn_v_tmshut spawn_v_sess spawn_v_file spawn_v_shut spawn_v_mgrshut spawn_v_now : svframe.
#[export] Hint Rewrite spawn_v_crashed spawn_v_trace vsave_v_locks vsave_v_timers vsave_v_theap vsave_v_tnext vsave_v_tmshut vsave_v_sess vsave_v_shut vsave_v_mgrshut vsave_v_now vsave_v_thr : svframe.
#[export] Hint Rewrite vsave_v_next vsave_v_crashed vsave_v_trace hand_over_v_timers hand_over_v_theap hand_over_v_tnext hand_over_v_tmshut hand_over_v_sess hand_over_v_file hand_over_v_shut hand_over_v_mgrshut hand_over_v_now : svframe.
#[export] Hint Rewrite hand_over_v_next hand_over_v_crashed mgr_unlock_v_timers mgr_unlock_v_theap mgr_unlock_v_tnext mgr_unlock_v_tmshut mgr_unlock_v_sess mgr_unlock_v_file mgr_unlock_v_shut mgr_unlock_v_mgrshut mgr_unlock_v_now mgr_unlock_v_next : svframe.
#[export] Hint Rewrite mgr_unlock_v_crashed tm_add_v_locks tm_add_v_tmshut tm_add_v_sess tm_add_v_file tm_add_v_shut tm_add_v_mgrshut tm_add_v_now tm_add_v_thr tm_add_v_next tm_add_v_crashed tm_add_v_trace : svframe.
#[export] Hint Rewrite tm_remove_v_locks tm_remove_v_tnext tm_remove_v_tmshut tm_remove_v_sess tm_remove_v_file tm_remove_v_shut tm_remove_v_mgrshut tm_remove_v_now tm_remove_v_thr tm_remove_v_next tm_remove_v_crashed tm_remove_v_trace : svframe.
#[export] Hint Rewrite tm_reset_v_locks tm_reset_v_timers tm_reset_v_tnext tm_reset_v_tmshut tm_reset_v_sess tm_reset_v_file tm_reset_v_shut tm_reset_v_mgrshut tm_reset_v_now tm_reset_v_thr tm_reset_v_next tm_reset_v_crashed : svframe.
#[export] Hint Rewrite tm_reset_v_trace sess_add_v_locks sess_add_v_timers sess_add_v_theap sess_add_v_tnext sess_add_v_tmshut sess_add_v_shut sess_add_v_mgrshut sess_add_v_now sess_add_v_thr sess_add_v_next sess_add_v_crashed : svframe.
#[export] Hint Rewrite sess_remove_v_locks sess_remove_v_timers sess_remove_v_theap sess_remove_v_tnext sess_remove_v_tmshut sess_remove_v_shut sess_remove_v_mgrshut sess_remove_v_now sess_remove_v_thr sess_remove_v_next sess_remove_v_crashed sess_destroy_v_locks : svframe.
#[export] Hint Rewrite sess_destroy_v_timers sess_destroy_v_theap sess_destroy_v_tnext sess_destroy_v_tmshut sess_destroy_v_shut sess_destroy_v_mgrshut sess_destroy_v_now sess_destroy_v_thr sess_destroy_v_next sess_destroy_v_crashed : svframe.
