(** Msv (Model/Sv.v) satisfies the executable trace predicates of Model/SvTrace.v on every run (work package svtrace).

    For every configuration and every schedule of GROUPS (an item that is [sitem_ok] in the state it is executed in, followed
    by forced moves — [VRun w] of a Lock call that was handed a unit or whose context ended while it was queued), the list of
    (item, observation after the group) satisfies the predicates. [vrun_obs cfg sch] (no grouping: every item observed) is
    the special case the statements are first given for. Final names:

      svtrace_c05_unlock     sched_ok cfg sch → q_c05_unlock (vrun_obs cfg sch) = true
      svtrace_c05_renew      sched_ok cfg sch → q_c05_renew (vrun_obs cfg sch) = true
      svtrace_c06_release    sched_ok cfg sch → sig_fleak (vrun_obs cfg sch) = false → q_c06_release (sc_noclear cfg) (vrun_obs cfg sch) = true
      svtrace_c09_image      sc_file cfg = true → sched_ok cfg sch → q_c09_image (vrun_obs cfg sch) = true
      svtrace_c09_surplus    sched_ok cfg sch → q_c09_surplus_in_flight (vrun_obs cfg sch) = true
      svtrace_c11_keeps      sched_ok cfg sch → q_c11_keeps (vrun_obs cfg sch) = true
      svtrace_<...>_w        the same over [gsched_ok cfg gs] / [vrun_obs_w cfg gs] (what the real harness observes)
      svtrace_c06_release_or_fleak_w   the lenient form, unconditionally
      svtrace_verdict_w      what `svdriver trace` prints ([sv_trace_verdict]) on a model run
      Examples               ex_race_* (an expiry racing an Unlock and a Renew), ex_renew_verdict, ex_sessend_verdict, ex_leak_verdict
                             (F-LEAK's schedule: signature present, strict predicate false, lenient true), ex_shut_verdict (a group with
                             a forced move; shutdown), each with doctored observation lists on which a predicate is false

    Every state a run passes through is [vreach]; the proofs instantiate the closed theorems of Proofs/SvAll.v at those states
    (C05_unlock_truth, C05_renew_truth, C06_release_all, C09_acked_live / _acked_ended / _live_bound / _zombies_in_flight /
    _image_live_or_in_flight, C11_net_after_flag, C11_keeps_holds) and add four small facts: the link between an observation and
    the state it was taken of; where the events [SvSessAdd] / [SvSessDestroy] / [SvConnEnd] of the ghost trace come from (so that
    the step log the harness sees determines them: [ended_link], [destroy_link], [destroy_rev], [fleak_link]); that the lock
    manager is shut down only by the closer's last step ([mgr_closed_reach]); and what a forced move can change ([forced_frame],
    [wakes_live], [woken_back]).

    Left to the state theorems (not expressible on what the harness records, or only for quiescent observations):
      C05  that the pending expiry frees the hold with its next step (C05_expiry_frees; the Python oracle checks it on the real
           trace), the new deadline of a renewed lease (C05_renew_truth: the harness sees timer KEYS, not deadlines; the epilogue
           ticks of the harness exercise it), C05_final (implied here: at an observation without parked goroutines [q_c05_unlock]
           says "not in the table")
      C06  released exactly once (C06_once: ghost events only), holds of OTHER sessions untouched by a session end (C06_frame; the
           Python oracle's others_view), the no-clear configuration (C06_noclear, C06_noclear_listed; [q_c09_image]'s live clause
           covers the image part of the latter)
      C09  nothing: the premise "answered to a still-connected client" is not needed (the predicate is stronger than the text)
      C11  blocked Lock calls return an error / the closer does not hang (C11_waiters_fail, C11_no_hang: statements about the NEXT
           step of a parked call; on the real server that step is a forced move inside the closer's item, so the observations
           show the answered error — the Python oracle checks it) *)
From Coq Require Import Lia ZifyBool ZifyNat.
From Ldlm Require Import Model.Base Model.Err Model.Sv Model.SvTrace Proofs.SeqLemmasKey.
From Ldlm Require Import Proofs.SvDefs Proofs.SvInvBase Proofs.SvInvFrame Proofs.SvFileFrames Proofs.SvFileBase Proofs.SvFileStep
  Proofs.SvFileStep2 Proofs.SvFileRun Proofs.SvFile Proofs.SvAll.
From RecordUpdate Require Import RecordSet.
Import RecordSetNotations.
Local Open Scope Z_scope.

#[local] Arguments vemit : simpl never.
#[local] Arguments vset_pc : simpl never.
#[local] Arguments vfinish : simpl never.
#[local] Arguments spawn : simpl never.
#[local] Arguments vsave : simpl never.
#[local] Arguments hand_over : simpl never.
#[local] Arguments mgr_unlock : simpl never.
#[local] Arguments tm_add : simpl never.
#[local] Arguments tm_remove : simpl never.
#[local] Arguments tm_reset : simpl never.
#[local] Arguments sess_add : simpl never.
#[local] Arguments sess_remove : simpl never.
#[local] Arguments sess_destroy : simpl never.
#[local] Arguments fire_due : simpl never.

(** ** schedules whose every item is meaningful in the state it is executed in *)
Fixpoint sched_ok_from (cfg : svcfg) (s : svstate) (sch : list sitem) : Prop :=
  match sch with [] => True | it :: r => sitem_ok s it ∧ sched_ok_from cfg (vstep cfg s it) r end.
Definition sched_ok (cfg : svcfg) (sch : list sitem) : Prop := sched_ok_from cfg sv_init sch.

(** a forced move: the goroutine is not parked at a yield point and runs by itself *)
Definition forced_in (s : svstate) (w : nat) : Prop :=
  ∃ t, v_thr s !! w = Some t ∧ (st_pc t = VWoken ∨ (st_pc t = VWait ∧ st_cancel t ≠ None)).
Fixpoint wakes_ok (cfg : svcfg) (s : svstate) (ws : list nat) : Prop :=
  match ws with [] => True | w :: r => forced_in s w ∧ wakes_ok cfg (vstep cfg s (VRun w)) r end.
Fixpoint gsched_ok_from (cfg : svcfg) (s : svstate) (gs : list (sitem * list nat)) : Prop :=
  match gs with
  | [] => True
  | g :: r => sitem_ok s g.1 ∧ wakes_ok cfg (vstep cfg s g.1) g.2 ∧ gsched_ok_from cfg (gstep cfg s g) r
  end.
Definition gsched_ok (cfg : svcfg) (gs : list (sitem * list nat)) : Prop := gsched_ok_from cfg sv_init gs.

Lemma sched_ok_ungrouped cfg sch : sched_ok cfg sch → gsched_ok cfg (ungrouped sch).
Proof.
  unfold sched_ok, gsched_ok. generalize sv_init. induction sch as [|it r IH]; intros s; simpl; [done|].
  intros [H1 H2]. split; [done|]. split; [done|]. by apply IH.
Qed.

(** boolean checkers (for the examples) *)
Definition forced_inb (s : svstate) (w : nat) : bool :=
  match v_thr s !! w with
  | Some t => bool_decide (st_pc t = VWoken) || (bool_decide (st_pc t = VWait) && negb (bool_decide (st_cancel t = None)))
  | None => false
  end.
Lemma forced_inb_sound s w : forced_inb s w = true → forced_in s w.
Proof.
  unfold forced_inb, forced_in. destruct (v_thr s !! w) as [t|]; [|done]. intros H. exists t. split; [done|].
  apply orb_prop in H as [H|H]; [left; by apply bool_decide_eq_true in H|right].
  apply andb_prop in H as [H1 H2]. apply bool_decide_eq_true in H1. apply negb_true_iff, bool_decide_eq_false in H2. done.
Qed.
Fixpoint wakes_okb (cfg : svcfg) (s : svstate) (ws : list nat) : bool :=
  match ws with [] => true | w :: r => forced_inb s w && wakes_okb cfg (vstep cfg s (VRun w)) r end.
Fixpoint gsched_okb_from (cfg : svcfg) (s : svstate) (gs : list (sitem * list nat)) : bool :=
  match gs with
  | [] => true
  | g :: r => sitem_okb s g.1 && wakes_okb cfg (vstep cfg s g.1) g.2 && gsched_okb_from cfg (gstep cfg s g) r
  end.
Lemma wakes_okb_sound cfg s ws : wakes_okb cfg s ws = true → wakes_ok cfg s ws.
Proof.
  revert s. induction ws as [|w r IH]; intros s; simpl; [done|]. intros [H1 H2]%andb_prop. split; [by apply forced_inb_sound|by apply IH].
Qed.
Lemma gsched_okb_sound cfg gs : gsched_okb_from cfg sv_init gs = true → gsched_ok cfg gs.
Proof.
  unfold gsched_ok. generalize sv_init. induction gs as [|g r IH]; intros s; simpl; [done|].
  intros [[H1 H2]%andb_prop H3]%andb_prop. split; [by apply sitem_okb_sound|]. split; [by apply wakes_okb_sound|by apply IH].
Qed.
Definition sched_okb (cfg : svcfg) (sch : list sitem) : bool := check_run cfg sv_init sch.
Lemma sched_okb_sound cfg sch : sched_okb cfg sch = true → sched_ok cfg sch.
Proof.
  unfold sched_okb, sched_ok. generalize sv_init. induction sch as [|it r IH]; intros s; simpl; [done|].
  intros [H1 H2]%andb_prop. split; [by apply sitem_okb_sound|by apply IH].
Qed.

(** ** the run as a list of state transitions *)
Definition strans : Type := svstate * sitem * svstate.
Definition obs3 (x : strans) : trans := (sv_observe x.1.1, x.1.2, sv_observe x.2).
Inductive gruns (cfg : svcfg) : list strans → svstate → Prop :=
| gr_nil : gruns cfg [] sv_init
| gr_snoc l s it ws : gruns cfg l s → sitem_ok s it → wakes_ok cfg (vstep cfg s it) ws →
    gruns cfg (l ++ [(s, it, wakes_run cfg (vstep cfg s it) ws)]) (wakes_run cfg (vstep cfg s it) ws).

Lemma observe_init : sv_observe sv_init = ob_empty.
Proof. reflexivity. Qed.

Lemma gruns_of_sched_from cfg gs : ∀ l0 s0, gruns cfg l0 s0 → gsched_ok_from cfg s0 gs →
  ∃ l s', gruns cfg (l0 ++ l) s' ∧ trans_from (sv_observe s0) (gobs_from cfg s0 gs) = map obs3 l.
Proof.
  induction gs as [|[it ws] r IH]; intros l0 s0 Hr Hok; simpl in *.
  - exists [], s0. rewrite app_nil_r. done.
  - destruct Hok as (H1 & H2 & H3). unfold gstep in *. simpl in *.
    set (s1 := wakes_run cfg (vstep cfg s0 it) ws) in *.
    destruct (IH (l0 ++ [(s0, it, s1)]) s1) as (l & s' & Hl & Ht); [by apply gr_snoc|done|].
    exists ((s0, it, s1) :: l), s'. split; [by rewrite <-app_assoc in Hl|]. simpl. by rewrite Ht.
Qed.
Lemma gruns_of_sched cfg gs : gsched_ok cfg gs → ∃ l s', gruns cfg l s' ∧ transitions (vrun_obs_w cfg gs) = map obs3 l.
Proof.
  intros Hok. destruct (gruns_of_sched_from cfg gs [] sv_init (gr_nil cfg) Hok) as (l & s' & Hl & Ht).
  exists l, s'. split; [done|]. unfold transitions, vrun_obs_w. by rewrite <-observe_init.
Qed.

Lemma all_at_from_snoc {X} (Q : list X → X → bool) past l x :
  all_at_from Q past (l ++ [x]) = all_at_from Q past l && Q (past ++ l) x.
Proof.
  revert past. induction l as [|y l IH]; intros past; simpl.
  - by rewrite app_nil_r, andb_true_r.
  - rewrite IH, <-app_assoc. simpl. by rewrite andb_assoc.
Qed.
Lemma all_at_snoc {X} (Q : list X → X → bool) l x : all_at Q (l ++ [x]) = all_at Q l && Q l x.
Proof. unfold all_at. by rewrite all_at_from_snoc. Qed.
Lemma first_bad_from_none {X} (Q : list X → X → bool) past l i : first_bad_from Q past l i = None ↔ all_at_from Q past l = true.
Proof.
  revert past i. induction l as [|x l IH]; intros past i; simpl; [done|].
  destruct (Q past x); simpl; [apply IH|]. split; done.
Qed.
Lemma first_bad_at_none {X} (Q : list X → X → bool) l : first_bad_at Q l = None ↔ all_at Q l = true.
Proof. apply first_bad_from_none. Qed.

(** ** reachability along a run *)
Lemma wakes_reach cfg s ws : vreach cfg s → vreach cfg (wakes_run cfg s ws).
Proof. revert s. induction ws as [|w r IH]; intros s Hr; simpl; [done|]. apply IH. by constructor. Qed.
Lemma gruns_reach cfg l s : gruns cfg l s → vreach cfg s.
Proof. induction 1; [constructor|]. apply wakes_reach. by constructor. Qed.

(** the obligation per transition suffices *)
Lemma all_at_gruns cfg (Q : list trans → trans → bool) :
  (∀ l s it ws, gruns cfg l s → sitem_ok s it → wakes_ok cfg (vstep cfg s it) ws →
     Q (map obs3 l) (obs3 (s, it, wakes_run cfg (vstep cfg s it) ws)) = true) →
  ∀ l s, gruns cfg l s → all_at Q (map obs3 l) = true.
Proof.
  intros HQ l s Hr. induction Hr as [|l s it ws Hr IH Hok Hw]; [done|].
  rewrite map_app. simpl. rewrite all_at_snoc, IH. simpl. by apply HQ.
Qed.

(** ** observation and state *)
Lemma ob_find_obs s tid : ob_find (sv_observe s) tid = othr_of s <$> v_thr s !! tid.
Proof.
  unfold ob_find, sv_observe. simpl.
  destruct (find _ _) as [[tid' x]|] eqn:E; simpl.
  - apply find_some in E as [Hin Heq]. simpl in Heq. apply Nat.eqb_eq in Heq. subst tid'.
    apply elem_of_list_In, elem_of_list_fmap in Hin as ([tid' t] & [= -> ->] & Hin). apply elem_of_map_to_list in Hin. by rewrite Hin.
  - destruct (v_thr s !! tid) as [t|] eqn:Ht; [|done]. exfalso.
    assert (Hin : In (tid, othr_of s t) (map (λ x, (x.1, othr_of s x.2)) (map_to_list (v_thr s)))).
    { apply elem_of_list_In, elem_of_list_fmap. exists (tid, t). split; [done|by apply elem_of_map_to_list]. }
    apply (find_none _ _ E) in Hin. simpl in Hin. by rewrite Nat.eqb_refl in Hin.
Qed.
Lemma ob_all_obs s f : (∀ tid t, v_thr s !! tid = Some t → f (othr_of s t) = true) → ob_all (sv_observe s) f = true.
Proof.
  intros H. unfold ob_all. apply forallb_forall. intros [tid x] Hin. simpl.
  apply elem_of_list_In, elem_of_list_fmap in Hin as ([tid' t] & [= -> ->] & Hin). apply elem_of_map_to_list in Hin. eauto.
Qed.
Lemma ob_any_obs s f : ob_any (sv_observe s) f = true ↔ ∃ tid t, v_thr s !! tid = Some t ∧ f (othr_of s t) = true.
Proof.
  unfold ob_any. rewrite existsb_exists. split.
  - intros ([tid x] & Hin & Hf). simpl in *.
    apply elem_of_list_In, elem_of_list_fmap in Hin as ([tid' t] & [= -> ->] & Hin). apply elem_of_map_to_list in Hin. eauto.
  - intros (tid & t & Ht & Hf). exists (tid, othr_of s t). split; [|done].
    apply elem_of_list_In, elem_of_list_fmap. exists (tid, t). split; [done|by apply elem_of_map_to_list].
Qed.
Lemma ob_any_obs_false s f tid t : ob_any (sv_observe s) f = false → v_thr s !! tid = Some t → f (othr_of s t) = false.
Proof.
  intros H Ht. destruct (f (othr_of s t)) eqn:E; [|done]. rewrite (proj2 (ob_any_obs s f)) in H; [done|eauto].
Qed.

Lemma in_table_obs s n k : in_table (sv_observe s) n k = true ↔ slive s n k.
Proof.
  unfold in_table, sv_observe, sv_table, slive. simpl. rewrite existsb_exists. split.
  - intros ([n' [z ks]] & Hin & H). simpl in H. apply andb_prop in H as [H1 H2]. apply bool_decide_eq_true in H1, H2. subst.
    apply elem_of_list_In, elem_of_list_fmap in Hin as ([n' a] & Heq & Hin). apply elem_of_map_to_list in Hin. simpl in Heq. simplify_eq. eauto.
  - intros (a & Ha & Hk). exists (n, (al_size a, al_live a)). split; [|simpl; by rewrite !bool_decide_eq_true_2].
    apply elem_of_list_In, elem_of_list_fmap. exists (n, a). split; [done|by apply elem_of_map_to_list].
Qed.
Lemma in_table_obs_false s n k : in_table (sv_observe s) n k = false ↔ ¬ slive s n k.
Proof. rewrite <-in_table_obs. by destruct (in_table _ _ _). Qed.

Lemma ostat_lab pc l : is_lab l (ostat_of pc) = true → spc_label pc = l ∧ is_fin pc = false ∧ pc ≠ VWait.
Proof. destruct pc; cbn [ostat_of is_lab spc_label is_fin]; try done; intros H%Nat.eqb_eq; done. Qed.
Lemma ostat_lab_of pc : is_fin pc = false → pc ≠ VWait → is_lab (spc_label pc) (ostat_of pc) = true.
Proof. destruct pc; cbn [ostat_of is_lab spc_label is_fin]; try done; intros; by rewrite ?Nat.eqb_refl. Qed.
Lemma ostat_fin_true pc : fin_true (ostat_of pc) = true ↔ pc = VFin (SResp true None).
Proof. destruct pc; simpl; try done. destruct r as [[] []]; simpl; split; intros; by simplify_eq. Qed.
Lemma ostat_end pc : is_end (ostat_of pc) = true ↔ pc = VEnd.
Proof. destruct pc; simpl; done. Qed.

(** ** where the events of the ghost trace that the findings' signatures read come from *)
Definition evnew (s : svstate) (it : sitem) (e : sev) : Prop :=
  match e with
  | SvSessAdd tid sid c => ∃ t, it = VRun tid ∧ v_thr s !! tid = Some t ∧ st_pc t = VSessAdd ∧ op_sid (st_op t) = Some sid
  | SvSessDestroy tid sid => ∃ t l, it = VRun tid ∧ v_thr s !! tid = Some t ∧ st_op t = SConnEnd sid ∧
      (st_pc t = VDsDestroy ∨ st_pc t = VDsNoClear) ∧ v_sess s !! sid = Some l
  | SvConnEnd sid => it = VConnEnd sid ∨ ∃ tid t, it = VRun tid ∧ v_thr s !! tid = Some t ∧ st_op t = SShutdown ∧ st_pc t = VShNet
  | _ => True
  end.
Definition trx (P : sev → Prop) (s s' : svstate) : Prop := ∃ l, v_trace s' = l ++ v_trace s ∧ Forall P l.
Lemma trx_refl P s : trx P s s.
Proof. exists []. done. Qed.
Lemma trx_trans P s1 s2 s3 : trx P s1 s2 → trx P s2 s3 → trx P s1 s3.
Proof. intros (l1 & E1 & F1) (l2 & E2 & F2). exists (l2 ++ l1). rewrite E2, E1, app_assoc. split; [done|by apply Forall_app]. Qed.
Lemma trx_weaken (P Q : sev → Prop) s s' : (∀ e, P e → Q e) → trx P s s' → trx Q s s'.
Proof. intros H (l & E & F). exists l. split; [done|]. eapply Forall_impl; eauto. Qed.
Lemma trx_mono P s s' e : trx P s s' → e ∈ v_trace s → e ∈ v_trace s'.
Proof. intros (l & E & _) H. rewrite E. apply elem_of_app. by right. Qed.
Lemma trx_new P s s' e : trx P s s' → e ∈ v_trace s' → e ∈ v_trace s ∨ P e.
Proof. intros (l & E & F) H. rewrite E in H. apply elem_of_app in H as [H|H]; [right|by left]. by eapply (proj1 (Forall_forall _ _) F). Qed.

Lemma fin_evs_evnew s it tid pc : Forall (evnew s it) (fin_evs tid pc).
Proof. destruct pc; simpl; repeat constructor. Qed.

Ltac tr_split := lazymatch goal with
  | |- ∃ l, ?a ++ ?e1 :: ?e2 :: v_trace ?s = l ++ v_trace ?s ∧ _ => exists (a ++ [e1; e2]); split; [by rewrite <-app_assoc|]
  | |- ∃ l, ?a ++ ?e1 :: v_trace ?s = l ++ v_trace ?s ∧ _ => exists (a ++ [e1]); split; [by rewrite <-app_assoc|]
  | |- ∃ l, ?a ++ v_trace ?s = l ++ v_trace ?s ∧ _ => exists a; split; [done|]
  | |- ∃ l, ?e1 :: v_trace ?s = l ++ v_trace ?s ∧ _ => exists [e1]; split; [done|]
  | |- ∃ l, v_trace ?s = l ++ v_trace ?s ∧ _ => exists []; split; [done|]
  end.

Lemma vsr_evnew cfg s it s' : vsr cfg s it s' → trx (evnew s it) s s'.
Proof.
  unfold trx. destruct 1; unfold st_go; simpl; tr_split.
  all: rewrite ?Forall_app, ?Forall_cons, ?Forall_nil; repeat split; try apply fin_evs_evnew; simpl; auto.
  - (* SessAdd *) exists t. split_and!; try done. by destruct Hop as [-> | ->].
  - (* destroy *) exists t, l. split_and!; try done. destruct Hpc as [?|[? _]]; auto.
Qed.

Lemma fire_due_trx (P : sev → Prop) X : (∀ id, P (SvFired id)) → trx P X (fire_due X).
Proof.
  intros HP. unfold fire_due. apply fold_left_ind; [apply trx_refl|].
  intros a [id tm] _ Ha. repeat case_match; try done.
  eapply trx_trans; [exact Ha|]. exists [SvFired id]. split; [done|]. by constructor.
Qed.
Lemma spawn_list_trx (P : sev → Prop) l X : (∀ sid, P (SvConnEnd sid)) → trx P X (spawn_list l X).
Proof.
  intros HP. unfold spawn_list. apply fold_left_ind; [apply trx_refl|].
  intros a sid _ Ha. eapply trx_trans; [exact Ha|]. exists [SvConnEnd sid]. split; [done|]. by constructor.
Qed.

Lemma step_evnew cfg s it : SvInv cfg s → trx (evnew s it) s (vstep cfg s it).
Proof.
  intros I. destruct (vsr_ok cfg s it I) as [it s' Hv|dt|tid t Ht Hop Hpc].
  - by apply (vsr_evnew cfg).
  - eapply trx_trans; [|apply fire_due_trx; done]. exists []. done.
  - unfold st_go. simpl. unfold spawn_sessions.
    match goal with |- trx _ _ (_ <| v_thr := _ |> <| v_trace := v_trace (spawn_list ?l ?X) |>) =>
      assert (Hx : trx (evnew s (VRun tid)) X (spawn_list l X)) by (apply spawn_list_trx; intros sid; simpl; right; by exists tid, t) end.
    destruct Hx as (l' & E & F).
    exists l'. simpl. split; [exact E|done].
Qed.

(** a forced move emits none of them *)
Definition irrelevant (e : sev) : Prop := match e with SvSessAdd _ _ _ | SvSessDestroy _ _ | SvConnEnd _ => False | _ => True end.
Lemma irrelevant_evnew s it e : irrelevant e → evnew s it e.
Proof. by destruct e. Qed.
Lemma forced_irrelevant cfg s w : SvInv cfg s → forced_in s w → trx irrelevant s (vstep cfg s (VRun w)).
Proof.
  intros I (t & Ht & Hpc). destruct (step_evnew cfg s (VRun w) I) as (l & E & F). exists l. split; [done|].
  eapply Forall_impl; [exact F|]. intros e He. destruct e; simpl in *; try done.
  - destruct He as (t' & [= <-] & Ht' & Hp & _). simplify_eq. destruct Hpc as [?|[? _]]; congruence.
  - destruct He as (t' & l' & [= <-] & Ht' & _ & Hp & _). simplify_eq. destruct Hpc as [?|[? _]], Hp; congruence.
  - destruct He as [?|(tid & t' & [= <-] & Ht' & _ & Hp)]; [done|]. simplify_eq. destruct Hpc as [?|[? _]]; congruence.
Qed.
Lemma wakes_irrelevant cfg s ws : vreach cfg s → wakes_ok cfg s ws → trx irrelevant s (wakes_run cfg s ws).
Proof.
  revert s. induction ws as [|w r IH]; intros s Hr Hw; simpl; [apply trx_refl|]. destruct Hw as [Hf Hw].
  eapply trx_trans; [apply forced_irrelevant; [by apply svinv_reach|done]|]. apply IH; [by constructor|done].
Qed.
(** the events of a whole group *)
Lemma group_evnew cfg s it ws : vreach cfg s → sitem_ok s it → wakes_ok cfg (vstep cfg s it) ws →
  trx (evnew s it) s (wakes_run cfg (vstep cfg s it) ws).
Proof.
  intros Hr Hok Hw. eapply trx_trans; [apply step_evnew; by apply svinv_reach|].
  eapply trx_weaken; [apply irrelevant_evnew|]. apply wakes_irrelevant; [by constructor|done].
Qed.

(** ** the lock manager is shut down only by the closer's last step *)
Definition closer_done (s : svstate) : Prop := ∃ tid t, v_thr s !! tid = Some t ∧ st_op t = SShutdown ∧ st_pc t = VEnd.
Lemma fire_due_mgrshut X : v_mgrshut (fire_due X) = v_mgrshut X.
Proof. unfold fire_due. apply fold_left_ind; [done|]. intros a [id tm] _ Ha. repeat case_match; done. Qed.
Lemma spawn_list_mgrshut l X : v_mgrshut (spawn_list l X) = v_mgrshut X.
Proof. unfold spawn_list. apply fold_left_ind; [done|]. intros a sid _ Ha. done. Qed.
Lemma mgrshut_step cfg s it : SvInv cfg s → v_mgrshut (vstep cfg s it) = true → v_mgrshut s = true ∨ closer_done (vstep cfg s it).
Proof.
  intros I. destruct (vsr_ok cfg s it I) as [it s' Hv|dt|tid t Ht Hop Hpc].
  - destruct Hv; unfold st_go; simpl; auto. intros _. right. exists tid, (with_pc t VEnd). simpl. by rewrite lookup_insert.
  - rewrite fire_due_mgrshut. auto.
  - unfold st_go. simpl. unfold spawn_sessions. rewrite spawn_list_mgrshut. auto.
Qed.
Lemma closer_done_step cfg s it : SvInv cfg s → closer_done s → closer_done (vstep cfg s it).
Proof.
  intros I (tid & t & Ht & Hop & Hpc). destruct (thr_persist cfg s it tid I) as [t' Ht']; [by eexists|].
  destruct (thr_step _ _ _ _ _ I Ht') as [(t0 & Ht0 & _ & Hfin & _)|(Hn & _)]; [|congruence]. simplify_eq.
  rewrite Hfin in Ht' by (by rewrite Hpc). by exists tid, t.
Qed.
Lemma mgr_closed_reach cfg s : vreach cfg s → v_mgrshut s = true → closer_done s.
Proof.
  intros Hr. pattern s. revert s Hr. apply (vreach_ind_inv cfg); [exact svinv_reach|done|].
  intros s it Hr I IH Hok Hm. destruct (mgrshut_step cfg s it I Hm) as [Hs|?]; [|done]. apply closer_done_step; auto.
Qed.
Lemma mgr_up_obs cfg s : vreach cfg s → mgr_up (sv_observe s) = true → v_mgrshut s = false.
Proof.
  intros Hr Hup. destruct (v_mgrshut s) eqn:E; [|done]. exfalso.
  destruct (mgr_closed_reach cfg s Hr E) as (tid & t & Ht & Hop & Hpc).
  unfold mgr_up in Hup. apply negb_true_iff in Hup. apply (ob_any_obs_false _ _ _ _ Hup) in Ht.
  unfold othr_of in Ht. rewrite Hop, Hpc in Ht. done.
Qed.

(** ** from the obligation per transition to the predicate over a run *)
Lemma q_of_obligation cfg (Q : list trans → trans → bool) :
  (∀ l s it ws, gruns cfg l s → sitem_ok s it → wakes_ok cfg (vstep cfg s it) ws →
     Q (map obs3 l) (obs3 (s, it, wakes_run cfg (vstep cfg s it) ws)) = true) →
  ∀ gs, gsched_ok cfg gs → all_at Q (transitions (vrun_obs_w cfg gs)) = true.
Proof.
  intros HQ gs Hok. destruct (gruns_of_sched cfg gs Hok) as (l & s' & Hl & ->). by eapply all_at_gruns.
Qed.
Lemma group_reach cfg s it ws : vreach cfg s → sitem_ok s it → vreach cfg (wakes_run cfg (vstep cfg s it) ws).
Proof. intros Hr Hok. apply wakes_reach. by constructor. Qed.

Lemma exp_at_intro s l n k tid t id tm : v_thr s !! tid = Some t → st_op t = SExpire id → v_theap s !! id = Some tm →
  tm_n tm = n → tm_k tm = k → is_lab l (ostat_of (st_pc t)) = true → exp_at l (sv_observe s) n k = true.
Proof.
  intros Ht Hop Hh <- <- Hl. unfold exp_at. apply ob_any_obs. exists tid, t. split; [done|].
  unfold othr_of. rewrite Hop. simpl. rewrite Hh. simpl. by rewrite !bool_decide_eq_true_2.
Qed.
Lemma unl_at_intro s l n k tid t : v_thr s !! tid = Some t → st_op t = SUnlock n k →
  is_lab l (ostat_of (st_pc t)) = true → unl_at l (sv_observe s) n k = true.
Proof.
  intros Ht Hop Hl. unfold unl_at. apply ob_any_obs. exists tid, t. split; [done|].
  unfold othr_of. rewrite Hop. simpl. by rewrite !bool_decide_eq_true_2.
Qed.
Lemma exp_at_pending s n k : expiry_pending s n k → exp_at (spc_label VCbUnlock) (sv_observe s) n k = true.
Proof. intros (tid & t & id & tm & Ht & Hop & Hpc & Hh & Hn & Hk). eapply exp_at_intro; eauto. by rewrite Hpc. Qed.

(** ** C05: an Unlock that has answered unlocked=true *)
Lemma c05_unlock_state cfg s past p it : vreach cfg s → c05_unlock_at past (p, it, sv_observe s) = true.
Proof.
  intros Hr. unfold c05_unlock_at. cbn [fst snd]. destruct (mgr_up (sv_observe s)) eqn:Hup; [|done]. simpl.
  apply ob_all_obs. intros tid t Ht. unfold othr_of. destruct (st_op t) eqn:Hop; cbn [okind_of ot_kind ot_st]; try (by repeat case_match).
  destruct (fin_true (ostat_of (st_pc t))) eqn:Hf; [|done]. cbn [negb orb]. apply ostat_fin_true in Hf.
  destruct (C05_unlock_truth cfg s tid t name key Hr (mgr_up_obs _ _ Hr Hup) Ht Hop Hf) as [Hnl|Hp].
  - by rewrite (proj2 (in_table_obs_false _ _ _) Hnl).
  - pose proof (exp_at_pending _ _ _ Hp) as E. cbn [spc_label] in E. rewrite E. by rewrite orb_true_r.
Qed.
Theorem svtrace_c05_unlock_w : ∀ cfg gs, gsched_ok cfg gs → q_c05_unlock (vrun_obs_w cfg gs) = true.
Proof.
  intros cfg gs. apply q_of_obligation. intros l s it ws Hr Hok Hw. unfold obs3. cbn [fst snd].
  eapply c05_unlock_state, group_reach; eauto using gruns_reach.
Qed.
Theorem svtrace_c05_unlock : ∀ cfg sch, sched_ok cfg sch → q_c05_unlock (vrun_obs cfg sch) = true.
Proof. intros cfg sch H. by apply svtrace_c05_unlock_w, sched_ok_ungrouped. Qed.

(** ** C09: the image *)
Lemma file_pairs_obs s sid c : (sid, c) ∈ file_pairs (sv_observe s) ↔ ∃ m l, v_file s = Some m ∧ m !! sid = Some l ∧ c ∈ l.
Proof.
  unfold file_pairs, sv_observe, sv_file. simpl. destruct (v_file s) as [m|]; simpl.
  - rewrite elem_of_list_In, in_flat_map. split.
    + intros ([sid' l] & Hin & Hc). simpl in Hc. apply elem_of_list_In, elem_of_map_to_list in Hin.
      apply elem_of_list_In, elem_of_list_fmap in Hc as (c' & [= -> ->] & Hc). eauto.
    + intros (m' & l & [= <-] & Hl & Hc). exists (sid, l). split; [by apply elem_of_list_In, elem_of_map_to_list|].
      simpl. apply elem_of_list_In, elem_of_list_fmap. eauto.
  - split; [by intros ?%elem_of_nil|by intros (? & ? & ? & _)].
Qed.
Lemma file_pairs_snd s : map snd (file_pairs (sv_observe s)) = match v_file s with Some m => concat (map snd (map_to_list m)) | None => [] end.
Proof.
  unfold file_pairs, sv_observe, sv_file. simpl. destruct (v_file s) as [m|]; simpl; [|done].
  induction (map_to_list m) as [|[sid l] r IH]; simpl; [done|]. rewrite map_app, IH. f_equal.
  rewrite map_map. simpl. apply map_id.
Qed.
Lemma bound_len n0 (live : list str) (l : list (str * clock)) :
  length (filter (λ y : str * clock, cl_name y.2 = n0 ∧ cl_key y.2 ∈ live) l) =
  length (filter (λ c, cl_name c = n0 ∧ cl_key c ∈ live) (map snd l)).
Proof.
  induction l as [|a l IH]; [done|]. simpl. rewrite !filter_cons.
  destruct (decide (cl_name a.2 = n0 ∧ cl_key a.2 ∈ live)); simpl; congruence.
Qed.

Lemma c09_ended_state cfg s past p it : vreach cfg s → c09_ended_at past (p, it, sv_observe s) = true.
Proof.
  intros Hr. unfold c09_ended_at. cbn [fst snd].
  apply ob_all_obs. intros tid t Ht. unfold othr_of. destruct (st_op t) eqn:Hop; cbn [okind_of ot_kind ot_st]; try (by repeat case_match).
  destruct (fin_true (ostat_of (st_pc t))) eqn:Hf; [|done]. cbn [negb orb]. apply ostat_fin_true in Hf.
  apply negb_true_iff. destruct (file_lists _ _ _) eqn:E; [|done]. exfalso.
  unfold file_lists in E. apply existsb_exists in E as ([sid c] & Hin & Hc). simpl in Hc.
  apply andb_prop in Hc as [H1 H2]. apply bool_decide_eq_true in H1, H2.
  apply elem_of_list_In, file_pairs_obs in Hin as (m & l & Hm & Hl & Hcl). destruct c as [n' k' z]. simpl in *. subst.
  by eapply (C09_acked_ended cfg s tid t name key Hr Ht Hop Hf).
Qed.

Lemma c09_bound_state cfg s past p it : vreach cfg s → c09_bound_at past (p, it, sv_observe s) = true.
Proof.
  intros Hr. unfold c09_bound_at. cbn [fst snd]. apply forallb_forall. intros [n [z ks]] Hin.
  unfold sv_observe, sv_table in Hin. simpl in Hin.
  apply elem_of_list_In, elem_of_list_fmap in Hin as ([n0 a] & Heq & Hin). apply elem_of_map_to_list in Hin. simpl in Heq.
  injection Heq as -> -> ->. cbn [fst snd].
  apply Z.leb_le.
  rewrite bound_len.
  rewrite file_pairs_snd.
  pose proof (C09_live_bound cfg s n0 a Hr Hin) as Hb. unfold file_entries in Hb. destruct (v_file s) as [m|]; [|simpl; lia].
  rewrite list_filter_filter in Hb.
  rewrite (list_filter_iff _ (λ c, cl_name c = n0 ∧ cl_key c ∈ al_live a)) in Hb by (intros c; tauto). exact Hb.
Qed.

Lemma in_flight_obs s n k : ending_in_flight s n k →
  unl_at (spc_label VSessRemove) (sv_observe s) n k || exp_at (spc_label VCbSessRemove) (sv_observe s) n k = true.
Proof.
  intros (tid & t & Ht & [[Hop Hpc]|(id & tm & Hop & Hh & Hn & Hk & Hpc)]).
  - erewrite unl_at_intro; eauto. by rewrite Hpc.
  - erewrite (exp_at_intro s _ n k); eauto; [by rewrite orb_true_r|]. by rewrite Hpc.
Qed.
Lemma c09_surplus_state cfg s past p it : vreach cfg s → c09_surplus_at past (p, it, sv_observe s) = true.
Proof.
  intros Hr. unfold c09_surplus_at. cbn [fst snd]. apply forallb_forall. intros c Hin. apply elem_of_list_In, elem_of_app in Hin.
  destruct (in_table (sv_observe s) (cl_name c) (cl_key c)) eqn:E; [done|]. simpl. apply in_table_obs_false in E.
  assert (Hfl : ending_in_flight s (cl_name c) (cl_key c)); [|apply in_flight_obs in Hfl; cbn [spc_label] in Hfl; exact Hfl].
  destruct Hin as [Hin|Hin].
  - unfold sv_observe, sv_listing in Hin. simpl in Hin. apply elem_of_concat_pairs in Hin as (sid & l & Hl%elem_of_map_to_list & Hc).
    eapply (C09_zombies_in_flight cfg s sid c Hr); [by exists l|done].
  - apply elem_of_list_fmap in Hin as ([sid c'] & -> & Hin). apply file_pairs_obs in Hin as (m & l & Hm & Hl & Hc). simpl in *.
    destruct (C09_image_live_or_in_flight cfg s m sid l c' Hr Hm Hl Hc); done.
Qed.
Theorem svtrace_c09_surplus_w : ∀ cfg gs, gsched_ok cfg gs → q_c09_surplus_in_flight (vrun_obs_w cfg gs) = true.
Proof.
  intros cfg gs. apply q_of_obligation. intros l s it ws Hr Hok Hw. unfold obs3. cbn [fst snd].
  eapply c09_surplus_state, group_reach; eauto using gruns_reach.
Qed.
Theorem svtrace_c09_surplus : ∀ cfg sch, sched_ok cfg sch → q_c09_surplus_in_flight (vrun_obs cfg sch) = true.
Proof. intros cfg sch H. by apply svtrace_c09_surplus_w, sched_ok_ungrouped. Qed.

(** ** the step log determines the ghost events *)
Lemma ran_obs s it s' : ran (obs3 (s, it, s')) = match it with VRun tid => othr_of s <$> v_thr s !! tid | _ => None end.
Proof. unfold ran, obs3. cbn [fst snd]. destruct it; try done. apply ob_find_obs. Qed.
Lemma ran_is_obs s tid t s' f : v_thr s !! tid = Some t → ran_is (obs3 (s, VRun tid, s')) f = f (othr_of s t).
Proof. intros Ht. unfold ran_is. by rewrite ran_obs, Ht. Qed.
Lemma ran_is_inv s it s' f : ran_is (obs3 (s, it, s')) f = true → ∃ tid t, it = VRun tid ∧ v_thr s !! tid = Some t ∧ f (othr_of s t) = true.
Proof.
  unfold ran_is. rewrite ran_obs. destruct it as [|tid| | | | |]; try done. destruct (v_thr s !! tid) as [t|] eqn:Ht; [|done]. simpl. eauto.
Qed.

Lemma gruns_snoc_reach cfg l s it ws : gruns cfg l s → sitem_ok s it → vreach cfg (wakes_run cfg (vstep cfg s it) ws).
Proof. intros Hr Hok. apply group_reach; [by eapply gruns_reach|done]. Qed.

(** the connection of [sid] has ended (ghost) only if the log shows it *)
Lemma ended_link cfg l s sid : gruns cfg l s → SvConnEnd sid ∈ v_trace s → sess_ended sid (map obs3 l) = true.
Proof.
  induction 1 as [|l s it ws Hr IH Hok Hw]; [by intros ?%elem_of_nil|]. intros Hin.
  unfold sess_ended. rewrite map_app, existsb_app. simpl.
  destruct (trx_new _ _ _ _ (group_evnew cfg s it ws (gruns_reach _ _ _ Hr) Hok Hw) Hin) as [Hold|Hnew].
  - unfold sess_ended in IH. by rewrite IH.
  - rewrite orb_false_r. apply orb_true_iff. right. simpl in Hnew. destruct Hnew as [->|(tid & t & -> & Ht & Hop & Hpc)].
    + unfold is_connend, obs3. simpl. by rewrite bool_decide_eq_true_2.
    + rewrite orb_true_iff. right. unfold is_netstop. rewrite (ran_is_obs _ _ t) by done. unfold othr_of. by rewrite Hop, Hpc.
Qed.

Lemma okind_ds s op sid : okind_of s op = OkDs sid → op = SConnEnd sid.
Proof. destruct op; simpl; try done; [by case_match|congruence]. Qed.
Lemma okind_sh s op : okind_of s op = OkSh → op = SShutdown.
Proof. destruct op; simpl; try done. by case_match. Qed.
Lemma okind_call s op op' : okind_of s op = OkCall op' → op' = op ∧ client_op op = true.
Proof. destruct op; simpl; try done; try (intros [= <-]; done). by case_match. Qed.
Lemma okind_call_of s op : client_op op = true → okind_of s op = OkCall op.
Proof. by destruct op. Qed.
Lemma okind_exp s op n k : okind_of s op = OkExp n k → ∃ id, op = SExpire id ∧ (∀ tm, v_theap s !! id = Some tm → tm_n tm = n ∧ tm_k tm = k).
Proof.
  destruct op; simpl; try done. intros H. exists tmid. split; [done|]. intros tm Hh. rewrite Hh in H. by simplify_eq.
Qed.
Lemma label_destroy pc : spc_label pc = spc_label VDsDestroy → pc = VDsDestroy.
Proof. by destruct pc. Qed.
Lemma label_eq_simple pc pc' : spc_label pc = spc_label pc' → (∀ l, pc' ≠ VDsTmRemove l) → (∀ c l, pc' ≠ VDsUnlock c l) → (∀ r, pc' ≠ VFin r) → pc = pc'.
Proof. destruct pc, pc'; simpl; try done; intros; exfalso; naive_solver. Qed.

(** a delete of the session of [sid] (ghost) is a step of its DestroySession from VDsDestroy in the log *)
Lemma destroy_link cfg l s d sid : gruns cfg l s → sc_noclear cfg = false → SvSessDestroy d sid ∈ v_trace s →
  existsb (is_destroy_step sid) (map obs3 l) = true.
Proof.
  intros Hr Hnc. revert d. induction Hr as [|l s it ws Hr IH Hok Hw]; intros d Hin; [by apply elem_of_nil in Hin|].
  rewrite map_app, existsb_app. simpl. pose proof (gruns_reach _ _ _ Hr) as Hrs.
  destruct (trx_new _ _ _ _ (group_evnew cfg s it ws Hrs Hok Hw) Hin) as [Hold|Hnew].
  - by rewrite (IH _ Hold).
  - rewrite orb_false_r. apply orb_true_iff. right. simpl in Hnew. destruct Hnew as (t & l0 & -> & Ht & Hop & Hpc & Hl0).
    pose proof (vi_ds_noclear _ _ (svinv_reach _ _ Hrs) _ _ _ Ht Hop) as Q. rewrite Hnc in Q. destruct Hpc as [Hpc|Hpc]; [|done].
    unfold is_destroy_step. rewrite (ran_is_obs _ _ t) by done. unfold othr_of. rewrite Hop, Hpc. simpl.
    rewrite !bool_decide_eq_true_2; [done| |done]. unfold obs3. simpl. apply elem_of_list_fmap. exists (sid, l0). split; [done|by apply elem_of_map_to_list].
Qed.

Lemma destroy_emits cfg s d t sid l0 : v_crashed s = false → v_thr s !! d = Some t → st_op t = SConnEnd sid → st_pc t = VDsDestroy →
  v_sess s !! sid = Some l0 → SvSessDestroy d sid ∈ v_trace (vstep cfg s (VRun d)).
Proof.
  intros Hc Ht Hop Hpc Hl. rewrite (vstep_run _ _ _ _ Hc Ht). destruct t as [op pc cn]. simpl in *. subst.
  unfold vrun_thread. simpl. unfold sess_destroy. rewrite Hl. rewrite fr_vset_pc_trace. unfold vemit. simpl. left.
Qed.
(** ... and conversely *)
Lemma destroy_rev cfg l s sid : gruns cfg l s → existsb (is_destroy_step sid) (map obs3 l) = true → ∃ d, SvSessDestroy d sid ∈ v_trace s.
Proof.
  induction 1 as [|l s it ws Hr IH Hok Hw]; [done|]. rewrite map_app, existsb_app. simpl. rewrite orb_false_r.
  pose proof (gruns_reach _ _ _ Hr) as Hrs. pose proof (group_evnew cfg s it ws Hrs Hok Hw) as Hx.
  intros [Hold|Hnew]%orb_true_iff.
  - destruct (IH Hold) as [d Hd]. exists d. by eapply trx_mono.
  - unfold is_destroy_step in Hnew. apply andb_prop in Hnew as [Hran Hdom].
    apply ran_is_inv in Hran as (d & t & -> & Ht & Hf). unfold othr_of in Hf. simpl in Hf.
    destruct (okind_of s (st_op t)) eqn:Hk; try done. apply andb_prop in Hf as [Hs Hl]. apply bool_decide_eq_true in Hs. subst sid0.
    apply okind_ds in Hk. apply ostat_lab in Hl as (Hl & _ & _). apply label_destroy in Hl.
    apply bool_decide_eq_true in Hdom. unfold obs3 in Hdom. simpl in Hdom.
    apply elem_of_list_fmap in Hdom as ([sid' l0] & -> & Hin). apply elem_of_map_to_list in Hin. simpl in *.
    exists d. eapply trx_mono; [apply (wakes_irrelevant cfg); [by constructor|done]|].
    eapply destroy_emits; eauto. apply (vi_not_crashed cfg), svinv_reach, Hrs.
Qed.

Lemma add_after_app sid seen l r :
  add_after sid seen (l ++ r) = add_after sid seen l || add_after sid (seen || existsb (is_destroy_step sid) l) r.
Proof.
  revert seen. induction l as [|x l IH]; intros seen; simpl; [by rewrite orb_false_r|].
  rewrite IH, orb_assoc. by rewrite (orb_assoc seen).
Qed.
Lemma add_after_seen_mono sid l : add_after sid false l = true → add_after sid true l = true.
Proof.
  assert (H : ∀ b1 b2 : bool, (b1 = true → b2 = true) → add_after sid b1 l = true → add_after sid b2 l = true).
  { induction l as [|x l IH]; intros b1 b2 Hb; simpl; [done|]. intros [H|H]%orb_true_iff; apply orb_true_iff.
    - left. apply andb_prop in H as [H1 H2]. by rewrite (Hb H1), H2.
    - right. eapply IH; [|exact H]. intros [H1|H1]%orb_true_iff; apply orb_true_iff; auto. }
  by apply H.
Qed.

Lemma aad_app sid a b : add_after_destroy sid (a ++ b) = true →
  add_after_destroy sid b = true ∨ ∃ tid c tid', SvSessAdd tid sid c ∈ a ∧ SvSessDestroy tid' sid ∈ a ++ b.
Proof.
  induction a as [|e a IH]; simpl; [by left|]. intros H.
  assert (Hrec : add_after_destroy sid (a ++ b) = true → add_after_destroy sid b = true ∨ ∃ tid c tid', SvSessAdd tid sid c ∈ e :: a ∧ SvSessDestroy tid' sid ∈ e :: a ++ b).
  { intros H'. destruct (IH H') as [?|(tid & c & tid' & H1 & H2)]; [by left|right]. exists tid, c, tid'. split; by right. }
  destruct e; try (by apply Hrec).
  apply orb_true_iff in H as [H|H]; [|by apply Hrec]. apply andb_prop in H as [H1 H2]. apply bool_decide_eq_true in H1. subst sid0.
  right. apply existsb_true in H2 as (e' & Hin & He'). destruct e'; try done. apply bool_decide_eq_true in He'. subst sid0.
  exists tid, c, tid0. split; [left|by right].
Qed.

(** finding F-LEAK on the ghost trace shows as its signature on the step log *)
Lemma fleak_link cfg l s sid : gruns cfg l s → sc_noclear cfg = false → add_after_destroy sid (v_trace s) = true →
  sig_fleak_sid sid (map obs3 l) = true.
Proof.
  intros Hr Hnc. induction Hr as [|l s it ws Hr IH Hok Hw]; [done|]. intros Haad.
  unfold sig_fleak_sid in *. rewrite map_app, add_after_app. simpl. rewrite orb_false_r.
  pose proof (gruns_reach _ _ _ Hr) as Hrs. destruct (group_evnew cfg s it ws Hrs Hok Hw) as (lnew & E & F).
  rewrite E in Haad. apply aad_app in Haad as [Hold|(tid & c & tid' & Hadd & Hdes)]; [by rewrite (IH Hold)|].
  apply orb_true_iff. right.
  pose proof (proj1 (Forall_forall _ _) F _ Hadd) as Ha. simpl in Ha. destruct Ha as (t & -> & Ht & Hpc & Hsid).
  assert (Hd : existsb (is_destroy_step sid) (map obs3 l) = true).
  { apply elem_of_app in Hdes as [Hdes|Hdes]; [|by eapply destroy_link].
    pose proof (proj1 (Forall_forall _ _) F _ Hdes) as Hb. simpl in Hb. destruct Hb as (t' & l0 & [= <-] & Ht' & _ & Hpc' & _).
    simplify_eq. destruct Hpc'; congruence. }
  rewrite Hd. simpl. unfold is_add_step. rewrite (ran_is_obs _ _ t) by done. unfold othr_of.
  assert (client_op (st_op t) = true) by (by destruct (st_op t)). rewrite okind_call_of by done. simpl.
  rewrite Hpc. simpl. by rewrite bool_decide_eq_true_2.
Qed.

Lemma acq_params_inv op sid n k z lt : acq_params op = Some (sid, n, k, z, lt) → op = STry sid n k z lt ∨ op = SLock sid n k z lt.
Proof. destruct op; simpl; try done; intros [= -> -> -> -> ->]; auto. Qed.

(** ** C09: every acknowledged hold that has not ended is in the image *)
Lemma c09_live_state cfg l s it ws : sc_file cfg = true → gruns cfg l s → sitem_ok s it → wakes_ok cfg (vstep cfg s it) ws →
  c09_live_at (map obs3 l) (obs3 (s, it, wakes_run cfg (vstep cfg s it) ws)) = true.
Proof.
  intros Hfile Hr Hok Hw. set (s' := wakes_run cfg (vstep cfg s it) ws).
  assert (Hr' : gruns cfg (l ++ [(s, it, s')]) s') by (by apply gr_snoc).
  pose proof (gruns_reach _ _ _ Hr') as Hrs. unfold c09_live_at. cbv zeta. change ((obs3 (s, it, s')).2) with (sv_observe s').
  apply ob_all_obs. intros tid t Ht. unfold othr_of. destruct (okind_of s' (st_op t)) eqn:Hk; cbn [ot_kind ot_st]; try done.
  apply okind_call in Hk as [-> _]. destruct (acq_params (st_op t)) as [[[[[sid n] k] z] lt]|] eqn:Hacq; [|done].
  apply acq_params_inv in Hacq.
  destruct (fin_true (ostat_of (st_pc t))) eqn:Hf; [|done]. cbn [negb orb]. apply ostat_fin_true in Hf.
  destruct (unl_exists (sv_observe s') n k) eqn:Hu; [done|]. destruct (exp_exists_key (sv_observe s') k) eqn:He; [done|].
  destruct (sess_ended sid (map obs3 l ++ [obs3 (s, it, s')])) eqn:Hs; [done|]. cbn [orb]. apply bool_decide_eq_true, file_pairs_obs.
  eapply (C09_acked_live cfg s' tid t sid n k z Hrs Hfile Ht); [by exists lt|done| | |].
  - intros tid' t' Ht' Hop'. apply (ob_any_obs_false _ _ _ _ Hu) in Ht'. unfold othr_of in Ht'. rewrite Hop' in Ht'. simpl in Ht'.
    by rewrite !bool_decide_eq_true_2 in Ht'.
  - intros tid' t' id tm Ht' Hop' Hh Hkk. apply (ob_any_obs_false _ _ _ _ He) in Ht'. unfold othr_of in Ht'. rewrite Hop' in Ht'. simpl in Ht'.
    rewrite Hh in Ht'. simpl in Ht'. by rewrite bool_decide_eq_true_2 in Ht'.
  - intros Hend. change [obs3 (s, it, s')] with (map obs3 [(s, it, s')]) in Hs.
    rewrite <-(map_app obs3 l [(s, it, s')]), (ended_link cfg _ _ sid Hr' Hend) in Hs. done.
Qed.

Theorem svtrace_c09_image_w : ∀ cfg gs, sc_file cfg = true → gsched_ok cfg gs → q_c09_image (vrun_obs_w cfg gs) = true.
Proof.
  intros cfg gs Hfile. apply q_of_obligation. intros l s it ws Hr Hok Hw. unfold c09_image_at.
  rewrite c09_live_state by done.
  change (obs3 (s, it, wakes_run cfg (vstep cfg s it) ws)) with (sv_observe s, it, sv_observe (wakes_run cfg (vstep cfg s it) ws)).
  pose proof (gruns_snoc_reach cfg l s it ws Hr Hok) as Hrs.
  by rewrite (c09_ended_state cfg _ (map obs3 l) (sv_observe s) it Hrs), (c09_bound_state cfg _ (map obs3 l) (sv_observe s) it Hrs).
Qed.
Theorem svtrace_c09_image : ∀ cfg sch, sc_file cfg = true → sched_ok cfg sch → q_c09_image (vrun_obs cfg sch) = true.
Proof. intros cfg sch Hf H. by apply svtrace_c09_image_w, sched_ok_ungrouped. Qed.

(** ** C06: a finished session end has released the session's acknowledged holds *)
Lemma c06_release_state cfg l s it ws : gruns cfg l s → sitem_ok s it → wakes_ok cfg (vstep cfg s it) ws →
  c06_release_at true (sc_noclear cfg) (map obs3 l) (obs3 (s, it, wakes_run cfg (vstep cfg s it) ws)) = true.
Proof.
  intros Hr Hok Hw. set (s' := wakes_run cfg (vstep cfg s it) ws).
  assert (Hr' : gruns cfg (l ++ [(s, it, s')]) s') by (by apply gr_snoc).
  pose proof (gruns_reach _ _ _ Hr') as Hrs. unfold c06_release_at. cbv zeta. change ((obs3 (s, it, s')).2) with (sv_observe s').
  destruct (sc_noclear cfg) eqn:Hnc; [done|]. destruct (mgr_up (sv_observe s')) eqn:Hup; [|done]. cbn [negb orb].
  apply (mgr_up_obs cfg _ Hrs) in Hup.
  apply ob_all_obs. intros tid t Ht. unfold othr_of. destruct (okind_of s' (st_op t)) eqn:Hk; cbn [ot_kind ot_st]; try done.
  apply okind_ds in Hk. destruct (is_end (ostat_of (st_pc t))) eqn:Hend; [|done]. cbn [negb orb]. apply ostat_end in Hend.
  change [obs3 (s, it, s')] with (map obs3 [(s, it, s')]). rewrite <-(map_app obs3 l [(s, it, s')]).
  destruct (existsb (is_destroy_step sid) (map obs3 (l ++ [(s, it, s')]))) eqn:Hds; [|done]. cbn [negb orb andb].
  destruct (sig_fleak_sid sid (map obs3 (l ++ [(s, it, s')]))) eqn:Hfl; [by rewrite orb_true_r|]. rewrite orb_false_r.
  destruct (destroy_rev cfg _ _ sid Hr' Hds) as [d Hd].
  assert (Haad : add_after_destroy sid (v_trace s') = false).
  { destruct (add_after_destroy sid (v_trace s')) eqn:E; [|done]. by rewrite (fleak_link cfg _ _ sid Hr' Hnc E) in Hfl. }
  unfold held_ok. apply ob_all_obs. intros tid' t' Ht'. unfold othr_of. destruct (okind_of s' (st_op t')) eqn:Hk'; cbn [ot_kind ot_st]; try done.
  apply okind_call in Hk' as [-> _]. destruct (acq_params (st_op t')) as [[[[[sid' n] k] z] lt]|] eqn:Hacq; [|done].
  apply acq_params_inv in Hacq. case_bool_decide as Hsid; [|done]. subst sid'.
  destruct (fin_true (ostat_of (st_pc t'))) eqn:Hf; [|done]. cbn [negb orb andb]. apply ostat_fin_true in Hf.
  destruct (C06_release_all cfg s' tid t sid Hrs Hnc Ht Hk Hend (ex_intro _ d Hd) Haad Hup tid' t' n k z Ht' (ex_intro _ lt Hacq) Hf) as [Hnl|Hp].
  - by rewrite (proj2 (in_table_obs_false _ _ _) Hnl).
  - pose proof (exp_at_pending _ _ _ Hp) as E. rewrite E. by rewrite orb_true_r.
Qed.
Theorem svtrace_c06_release_or_fleak_w : ∀ cfg gs, gsched_ok cfg gs → q_c06_release_or_fleak (sc_noclear cfg) (vrun_obs_w cfg gs) = true.
Proof. intros cfg gs. apply q_of_obligation. intros l s it ws Hr Hok Hw. by apply c06_release_state. Qed.

(** outside the F-LEAK signature the strict form holds *)
Lemma ds_sids_elem (L : list trans) x tid sid st : x ∈ L → (tid, OThr (OkDs sid) st) ∈ ob_thr x.2 → sid ∈ ds_sids L.
Proof.
  intros Hx Hin. unfold ds_sids. apply elem_of_list_In, in_flat_map. exists x. split; [by apply elem_of_list_In|].
  apply elem_of_list_In, elem_of_list_omap. exists (tid, OThr (OkDs sid) st). done.
Qed.
Lemma c06_strict_of_lenient nc (L : list trans) :
  all_at (c06_release_at true nc) L = true → (∀ sid, sid ∈ ds_sids L → sig_fleak_sid sid L = false) → all_at (c06_release_at false nc) L = true.
Proof.
  intros H1 Hsig. unfold all_at in *.
  assert (G : ∀ l past, past ++ l = L → all_at_from (c06_release_at true nc) past l = true → all_at_from (c06_release_at false nc) past l = true);
    [|by apply (G L [])].
  induction l as [|x r IH]; intros past HL; simpl; [done|]. intros [Hx Hr]%andb_prop. apply andb_true_iff. split.
  2:{ apply IH; [by rewrite <-app_assoc|done]. }
  unfold c06_release_at in *. destruct nc; [done|]. destruct (mgr_up x.2); [|done]. simpl in *.
  unfold ob_all in *. rewrite forallb_forall in Hx. apply forallb_forall. intros [tid [k st]] Hin. specialize (Hx _ Hin). simpl in *.
  destruct k; try done. rewrite orb_false_r.
  assert (sig_fleak_sid sid (past ++ [x]) = false) as Hno; [|by rewrite Hno, orb_false_r in Hx].
  destruct (sig_fleak_sid sid (past ++ [x])) eqn:E; [|done].
  rewrite <-(Hsig sid).
  - unfold sig_fleak_sid in *. rewrite <-HL. change (x :: r) with ([x] ++ r). rewrite app_assoc, add_after_app, E. done.
  - eapply (ds_sids_elem L x tid sid st); [rewrite <-HL; apply elem_of_app; right; left|by apply elem_of_list_In].
Qed.
Theorem svtrace_c06_release_w : ∀ cfg gs, gsched_ok cfg gs →
  sig_fleak (vrun_obs_w cfg gs) = false → q_c06_release (sc_noclear cfg) (vrun_obs_w cfg gs) = true.
Proof.
  intros cfg gs Hok Hsig. apply c06_strict_of_lenient; [by apply svtrace_c06_release_or_fleak_w|].
  intros sid Hin. unfold sig_fleak in Hsig. by apply (existsb_false _ _ Hsig).
Qed.
Theorem svtrace_c06_release : ∀ cfg sch, sched_ok cfg sch →
  sig_fleak (vrun_obs cfg sch) = false → q_c06_release (sc_noclear cfg) (vrun_obs cfg sch) = true.
Proof. intros cfg sch H. by apply svtrace_c06_release_w, sched_ok_ungrouped. Qed.

(** ** along several steps: finished goroutines are frozen, operations persist, a call past its grant stays past it *)
Lemma vruns_trans cfg s1 s2 s3 : vruns cfg s1 s2 → vruns cfg s2 s3 → vruns cfg s1 s3.
Proof. intros H1 H2. induction H2; [done|by constructor]. Qed.
Lemma wakes_vruns cfg x ws : vruns cfg x (wakes_run cfg x ws).
Proof.
  revert x. induction ws as [|w r IH]; intros x; simpl; [constructor|].
  eapply vruns_trans; [|apply IH]. by apply (vruns_step _ _ x (VRun w)); [constructor|].
Qed.
Lemma group_vruns cfg s it ws : sitem_ok s it → vruns cfg s (wakes_run cfg (vstep cfg s it) ws).
Proof. intros Hok. eapply vruns_trans; [|apply wakes_vruns]. by apply (vruns_step _ _ s it); [constructor|]. Qed.

Lemma fin_stable_step cfg s it tid t : SvInv cfg s → v_thr s !! tid = Some t → is_fin (st_pc t) = true → v_thr (vstep cfg s it) !! tid = Some t.
Proof.
  intros I Ht Hfin. destruct (thr_persist cfg s it tid I) as [t' Ht']; [by eexists|].
  destruct (thr_step _ _ _ _ _ I Ht') as [(t0 & Ht0 & _ & Hf & _)|(Hn & _)]; [|congruence]. simplify_eq. by rewrite Hf in Ht'.
Qed.
Lemma fin_vruns cfg s s' tid t : vreach cfg s → vruns cfg s s' → v_thr s !! tid = Some t → is_fin (st_pc t) = true → v_thr s' !! tid = Some t.
Proof.
  intros Hr Hruns Ht Hfin. induction Hruns as [|s' it Hruns IH Hok]; [done|].
  apply fin_stable_step with (cfg := cfg); [apply svinv_reach; by eapply vruns_reach|done|done].
Qed.
Lemma op_vruns cfg s s' tid t : vreach cfg s → vruns cfg s s' → v_thr s !! tid = Some t → ∃ t', v_thr s' !! tid = Some t' ∧ st_op t' = st_op t.
Proof.
  intros Hr Hruns Ht. induction Hruns as [|s' it Hruns IH Hok]; [eauto|]. destruct IH as (t1 & Ht1 & Hop1).
  destruct (thr_op_persist cfg s' it tid t1) as (t2 & Ht2 & Hop2); [apply svinv_reach; by eapply vruns_reach|done|].
  exists t2. split; [done|congruence].
Qed.

(** past the grant: the bookkeeping pcs and the answer *)
Definition pg (pc : spc) : Prop := pc = VSessAdd ∨ pc = VTmAdd ∨ ∃ r, pc = VFin r.
Lemma pg_step cfg s it tid t : SvInv cfg s → v_thr s !! tid = Some t → is_acq (st_op t) = true → pg (st_pc t) →
  ∃ t', v_thr (vstep cfg s it) !! tid = Some t' ∧ st_op t' = st_op t ∧ pg (st_pc t').
Proof.
  intros I Ht Hacq Hpg. destruct (thr_persist cfg s it tid I) as [t' Ht']; [by eexists|]. exists t'. split; [done|].
  destruct (thr_step _ _ _ _ _ I Ht') as [(t0 & Ht0 & Hop & Hf & _ & Hpc)|(Hn & _)]; [|congruence]. simplify_eq. split; [done|].
  destruct Hpc as [E|[->|[E _]]].
  - by rewrite E.
  - destruct (run_self _ _ _ _ I Ht) as [E|(pc' & E & Hst)]; rewrite E in Ht'; simplify_eq; [done|]. simpl.
    destruct t as [op pc cn]. simpl in *. destruct Hpg as [->|[->|[r ->]]]; destruct op; simpl in *; try done; unfold pg; naive_solver.
  - destruct Hpg as [?|[?|[r ?]]]; congruence.
Qed.
Lemma pg_vruns cfg s s' tid t : vreach cfg s → vruns cfg s s' → v_thr s !! tid = Some t → is_acq (st_op t) = true → pg (st_pc t) →
  ∃ t', v_thr s' !! tid = Some t' ∧ st_op t' = st_op t ∧ pg (st_pc t').
Proof.
  intros Hr Hruns Ht Hacq Hpg. induction Hruns as [|s' it Hruns IH Hok]; [eauto|]. destruct IH as (t1 & Ht1 & Hop1 & Hpg1).
  destruct (pg_step cfg s' it tid t1) as (t2 & Ht2 & Hop2 & Hpg2); [apply svinv_reach; by eapply vruns_reach|done|congruence|done|].
  exists t2. split; [done|]. split; [congruence|done].
Qed.

(** ** what a forced move changes *)
Lemma forced_is_lock cfg s w : vreach cfg s → forced_in s w →
  ∃ sid n k z lt cn pc, v_thr s !! w = Some (SThread (SLock sid n k z lt) pc cn) ∧ (pc = VWoken ∨ (pc = VWait ∧ cn ≠ None)).
Proof.
  intros Hr (t & Ht & Hpc).
  destruct (parked_ok_reach svinv_reach cfg s Hr w t Ht) as (sid & n & k & z & lt & Hop & _); [tauto|].
  destruct t as [op pc cn]. simpl in *. subst. exists sid, n, k, z, lt, cn, pc. split; [done|]. tauto.
Qed.
Lemma forced_frame cfg s w : vreach cfg s → forced_in s w →
  let s' := vstep cfg s (VRun w) in
  v_timers s' = v_timers s ∧ v_theap s' = v_theap s ∧ v_sess s' = v_sess s ∧ v_file s' = v_file s.
Proof.
  intros Hr Hf. destruct (forced_is_lock cfg s w Hr Hf) as (sid & n & k & z & lt & cn & pc & Ht & Hpc). simpl.
  rewrite (vstep_run _ _ _ _ (vi_not_crashed _ _ (svinv_reach _ _ Hr)) Ht). unfold vrun_thread. simpl.
  destruct Hpc as [->|[-> _]]; destruct cn, (v_locks s !! n); unfold vfinish; autorewrite with svf; simpl; autorewrite with svf; done.
Qed.
Lemma wakes_frame cfg ws : ∀ s, vreach cfg s → wakes_ok cfg s ws →
  let s' := wakes_run cfg s ws in
  v_timers s' = v_timers s ∧ v_theap s' = v_theap s ∧ v_sess s' = v_sess s ∧ v_file s' = v_file s.
Proof.
  induction ws as [|w r IH]; intros s Hr Hw; simpl; [done|]. destruct Hw as [Hf Hw].
  destruct (forced_frame cfg s w Hr Hf) as (E1 & E2 & E3 & E4). destruct (IH _ (vreach_step cfg _ (VRun w) Hr I) Hw) as (F1 & F2 & F3 & F4).
  simpl in *. rewrite F1, F2, F3, F4. done.
Qed.

(** a key leaves the lock table only by a release of exactly that hold *)
Lemma fire_due_locks X : v_locks (fire_due X) = v_locks X.
Proof. unfold fire_due. apply fold_left_ind; [done|]. intros a [id tm] _ Ha. repeat case_match; done. Qed.
Lemma spawn_list_locks l X : v_locks (spawn_list l X) = v_locks X.
Proof. unfold spawn_list. apply fold_left_ind; [done|]. intros a sid _ Ha. done. Qed.
Lemma live_fwd cfg s it n k : SvInv cfg s → slive s n k →
  slive (vstep cfg s it) n k ∨ ∃ tid t pc', it = VRun tid ∧ v_thr s !! tid = Some t ∧ rel_site s t n k pc'.
Proof.
  intros I Hl. destruct (vsr_ok cfg s it I) as [it s' Hv|dt|tid t Ht Hop Hpc].
  - destruct (vsr_live_fwd _ _ _ _ _ _ Hv Hl) as [?|(tid & t & pc' & ? & ? & ? & _)]; [by left|right; by exists tid, t, pc'].
  - left. unfold slive. by rewrite fire_due_locks.
  - left. unfold slive, st_go. simpl. unfold spawn_sessions. by rewrite spawn_list_locks.
Qed.
Lemma wakes_live cfg n k : ∀ ws x, vreach cfg x → wakes_ok cfg x ws → slive x n k →
  slive (wakes_run cfg x ws) n k ∨
  ∃ x0 w t sid z lt, vruns cfg x x0 ∧ v_thr x0 !! w = Some t ∧ st_op t = SLock sid n k z lt ∧ st_pc t = VWoken.
Proof.
  induction ws as [|w r IH]; intros x Hr Hw Hl; simpl; [by left|]. destruct Hw as [Hf Hw].
  destruct (live_fwd cfg x (VRun w) n k (svinv_reach _ _ Hr) Hl) as [Hl'|(tid & t & pc' & [= <-] & Ht & Hsite)].
  - destruct (IH _ (vreach_step cfg _ (VRun w) Hr I) Hw Hl') as [?|(x0 & w0 & t0 & sid & z & lt & Hruns & H0)]; [by left|right].
    exists x0, w0, t0, sid, z, lt. split; [|done]. eapply vruns_trans; [|exact Hruns]. by apply (vruns_step _ _ x (VRun w)); [constructor|].
  - right. destruct (forced_is_lock cfg x w Hr Hf) as (sid & n' & k' & z & lt & cn & pc & Ht' & Hpc). simplify_eq.
    destruct Hsite; simpl in *; try done. simplify_eq. eexists x, w, _, sid0, z0, lt0. split; [constructor|]. split; [exact Ht|done].
Qed.
(** the Lock call that gives a handed-over unit back was already holding that unit at the start *)
Lemma woken_back cfg s x0 n k w t sid z lt : vreach cfg s → vruns cfg s x0 → slive s n k →
  v_thr x0 !! w = Some t → st_op t = SLock sid n k z lt → st_pc t = VWoken →
  ∃ t0, v_thr s !! w = Some t0 ∧ st_op t0 = SLock sid n k z lt ∧ st_pc t0 = VWoken.
Proof.
  intros Hr Hruns Hl Ht Hop Hpc. pose proof (svinv_reach _ _ Hr) as I.
  destruct (vi_live_owner _ _ I n k Hl) as (tid0 & t0 & sid0 & z0 & Ht0 & Ha0 & Hpc0).
  destruct (op_vruns cfg s x0 tid0 t0 Hr Hruns Ht0) as (t0' & Ht0' & Hop0').
  assert (Ha0' : acquirer t0' sid0 n k z0) by (unfold acquirer in *; by rewrite Hop0').
  assert (Ha : acquirer t sid n k z) by (exists lt; by right).
  destruct (acq_unique _ _ _ _ _ _ _ _ _ _ _ _ _ (svinv_reach _ _ (vruns_reach _ _ _ Hr Hruns)) Ht0' Ht Ha0' Ha) as (-> & -> & _).
  exists t0. split; [done|]. split; [congruence|].
  destruct Hpc0 as [?|Hpg]; [done|]. exfalso.
  destruct (pg_vruns cfg s x0 w t0 Hr Hruns Ht0) as (t1 & Ht1 & _ & Hpg1).
  - destruct Ha0 as [lt0 [E|E]]; by rewrite E.
  - unfold pg. destruct Hpg as [?|[?|?]]; eauto.
  - simplify_eq. rewrite Hpc in Hpg1. destruct Hpg1 as [?|[?|[? ?]]]; done.
Qed.

(** ** C05: the step of a Renew that answers locked=true *)
Lemma renew_step_fin cfg s tid t n k lt : v_crashed s = false → v_thr s !! tid = Some t → st_op t = SRenew n k lt → st_pc t = VTmReset →
  ∃ r, v_thr (vstep cfg s (VRun tid)) !! tid = Some (setpc (VFin r) t).
Proof.
  intros Hc Ht Hop Hpc. rewrite (vstep_run _ _ _ _ Hc Ht). destruct t as [op pc cn]. simpl in *. subst. unfold vrun_thread. simpl.
  destruct (tm_reset (tkey n k) (lt * second) s) as [s1 r] eqn:E. exists r. unfold vfinish. rewrite fr_vemit_thr, thr_vset_pc.
  assert (v_thr s1 = v_thr s) as -> by (change s1 with (s1, r).1; rewrite <-E; apply fr_tm_reset_thr).
  by rewrite lookup_alter, Ht.
Qed.

Lemma tm_armed_obs cfg s n k id tm d : SvInv cfg s → armed_at s (tkey n k) id tm d → tm_armed (sv_observe s) n k = true.
Proof.
  intros I (Hid & Hh & Hst). unfold tm_armed. apply andb_true_iff. split.
  - apply bool_decide_eq_true. unfold sv_observe, sv_obs_tmkeys. simpl. apply elem_of_list_omap. exists (tkey n k, id).
    split; [by apply elem_of_map_to_list|]. simpl. rewrite Hh.
    destruct (vi_tm_entry _ _ I _ _ Hid) as (tm1 & Htm1 & Hkey & _). simplify_eq. by apply tkey_inj in Hkey as [-> ->].
  - apply negb_true_iff. destruct (exp_exists (sv_observe s) n k) eqn:E; [|done]. exfalso.
    unfold exp_exists in E. apply ob_any_obs in E as (tid & t & Ht & Hf). unfold othr_of in Hf. simpl in Hf.
    destruct (okind_of s (st_op t)) eqn:Hk; try done. apply andb_prop in Hf as [H1 H2]. apply bool_decide_eq_true in H1, H2. subst.
    apply okind_exp in Hk as (id' & Hop & Hnk). destruct (vi_expire_heap _ _ I _ _ _ Ht Hop) as [tm' Hh'].
    destruct (Hnk _ Hh') as [Hn' Hk'].
    destruct (vi_tm_entry _ _ I _ _ Hid) as (tm1 & Htm1 & Hkey & _). simplify_eq. apply tkey_inj in Hkey as [Hn1 Hk1].
    assert (id' = id) as -> by (eapply (vi_tm_unique _ _ I); eauto; congruence). simplify_eq.
    assert (tm_st tm = TFired) as Hfired by (apply (vi_tm_fired _ _ I id tm Hh); eauto). congruence.
Qed.

Lemma c05_renew_state cfg l s it ws : gruns cfg l s → sitem_ok s it → wakes_ok cfg (vstep cfg s it) ws →
  c05_renew_at (map obs3 l) (obs3 (s, it, wakes_run cfg (vstep cfg s it) ws)) = true.
Proof.
  intros Hr Hok Hw. set (s' := wakes_run cfg (vstep cfg s it) ws). pose proof (gruns_reach _ _ _ Hr) as Hrs.
  unfold c05_renew_at. change ((obs3 (s, it, s')).1.2) with it. change ((obs3 (s, it, s')).1.1) with (sv_observe s).
  change ((obs3 (s, it, s')).2) with (sv_observe s').
  destruct it as [|tid| | | | |]; try done. rewrite !ob_find_obs.
  destruct (v_thr s !! tid) as [t|] eqn:Ht; [|done]. cbn [fmap option_fmap option_map]. unfold othr_of at 1.
  destruct (okind_of s (st_op t)) eqn:Hk; try done. destruct op; try done.
  destruct (v_thr s' !! tid) as [t'|] eqn:Ht'; [|done]. cbn [fmap option_fmap option_map]. unfold othr_of at 1.
  destruct (is_lab (spc_label VTmReset) (ostat_of (st_pc t))) eqn:Hl; [|done].
  destruct (fin_true (ostat_of (st_pc t'))) eqn:Hf; [|done]. cbn [andb negb orb].
  apply okind_call in Hk as [Hop _]. symmetry in Hop. apply ostat_lab in Hl as (Hl & _ & _).
  apply label_eq_simple in Hl; [|done..]. apply ostat_fin_true in Hf.
  pose proof (svinv_reach _ _ Hrs) as I. set (s1 := vstep cfg s (VRun tid)) in *.
  assert (Hr1 : vreach cfg s1) by (by constructor). pose proof (svinv_reach _ _ Hr1) as I1.
  destruct (renew_step_fin cfg s tid t name key lt (vi_not_crashed _ _ I) Ht Hop Hl) as [r Ht1]. fold s1 in Ht1.
  pose proof (fin_vruns cfg s1 s' tid _ Hr1 (wakes_vruns cfg s1 ws) Ht1 eq_refl) as Ht1'. rewrite Ht' in Ht1'. injection Ht1' as ->. simpl in Hf. injection Hf as ->.
  destruct (C05_renew_truth cfg s tid t name key lt Hrs Ht Hop Hl _ Ht1 eq_refl) as (Hl0 & Hl1 & id & tm & Harm).
  rewrite (proj2 (in_table_obs _ _ _) Hl0). cbn [andb].
  destruct (wakes_frame cfg ws s1 Hr1 Hw) as (F1 & F2 & _ & _). fold s' in F1, F2.
  assert (Hrs' : vreach cfg s') by (by apply wakes_reach).
  rewrite (tm_armed_obs cfg s' name key id tm (v_now s + lt * second) (svinv_reach _ _ Hrs')), andb_true_r.
  2:{ destruct Harm as (A1 & A2 & A3). unfold armed_at. by rewrite F1, F2. }
  apply in_table_obs. destruct (wakes_live cfg name key ws s1 Hr1 Hw Hl1) as [?|(x0 & w & tw & sidw & zw & ltw & Hruns & Htw & Hopw & Hpcw)]; [done|exfalso].
  destruct (vi_live_owner _ _ I1 _ _ Hl1) as (ta & a & sida & za & Hta & Haa & _).
  destruct (acquirer_is_acq _ _ _ _ _ Haa) as (Hia & Hka & _).
  destruct (vi_presented _ _ I1 tid _ key Ht1) with (tid' := ta) (t' := a) as (tb & b & sidb & nb & zb & Htb & Hab & Hpcb & _);
    [simpl; by rewrite Hop|simpl; by rewrite Hop|done|done|done|].
  pose proof (fin_vruns cfg s1 x0 tb b Hr1 Hruns Htb) as Htb0. rewrite Hpcb in Htb0. specialize (Htb0 eq_refl).
  assert (Haw : acquirer tw sidw name key zw) by (exists ltw; by right).
  destruct (acq_unique _ _ _ _ _ _ _ _ _ _ _ _ _ (svinv_reach _ _ (vruns_reach _ _ _ Hr1 Hruns)) Htb0 Htw Hab Haw) as (-> & -> & _). congruence.
Qed.
Theorem svtrace_c05_renew_w : ∀ cfg gs, gsched_ok cfg gs → q_c05_renew (vrun_obs_w cfg gs) = true.
Proof. intros cfg gs. apply q_of_obligation. intros l s it ws Hr Hok Hw. by apply c05_renew_state. Qed.
Theorem svtrace_c05_renew : ∀ cfg sch, sched_ok cfg sch → q_c05_renew (vrun_obs cfg sch) = true.
Proof. intros cfg sch H. by apply svtrace_c05_renew_w, sched_ok_ungrouped. Qed.

(** ** C11: after the flag step nothing is lost except through the Unlock / expiry of that very hold *)
Lemma flag_set_obs cfg s : vreach cfg s → flag_set (sv_observe s) = true → v_shut s = true.
Proof.
  intros Hr H. unfold flag_set in H. apply ob_any_obs in H as (tid & t & Ht & Hf). unfold othr_of in Hf. simpl in Hf.
  destruct (okind_of s (st_op t)) eqn:Hk; try done. apply okind_sh in Hk.
  eapply (C11_net_after_flag cfg s tid t); eauto. intros Hpc. rewrite Hpc in Hf. done.
Qed.

Lemma rel_site_may_release s s' tid t n k pc' : v_thr s !! tid = Some t → rel_site s t n k pc' →
  may_release (obs3 (s, VRun tid, s')) n k = true.
Proof.
  intros Ht Hsite. unfold may_release. destruct Hsite as [Hop Hpc _|id tm Hop Hpc Hh Hn Hk _|sid c rest Hop Hpc Hn Hk _|sid z lt e Hop Hpc _].
  - rewrite (ran_is_obs _ _ t) by done. unfold othr_of. rewrite Hop, Hpc. simpl. by rewrite !bool_decide_eq_true_2.
  - rewrite (ran_is_obs _ _ t) by done. unfold othr_of. rewrite Hop, Hpc. simpl. rewrite Hh, Hn, Hk. simpl. by rewrite !bool_decide_eq_true_2.
  - rewrite (ran_is_obs _ _ t) by done. unfold othr_of. rewrite Hop, Hpc. done.
  - apply orb_true_iff. right. change ((obs3 (s, VRun tid, s')).1.1) with (sv_observe s). apply ob_any_obs. exists tid, t. split; [done|].
    unfold othr_of. rewrite Hop, Hpc. simpl. by rewrite bool_decide_eq_true_2.
Qed.

Lemma table_kept cfg s it ws n k : vreach cfg s → sitem_ok s it → wakes_ok cfg (vstep cfg s it) ws → slive s n k →
  let s' := wakes_run cfg (vstep cfg s it) ws in
  slive s' n k ∨ may_release (obs3 (s, it, s')) n k = true.
Proof.
  intros Hr Hok Hw Hl s'. pose proof (svinv_reach _ _ Hr) as I.
  destruct (live_fwd cfg s it n k I Hl) as [Hl1|(tid & t & pc' & -> & Ht & Hsite)]; [|right; by eapply rel_site_may_release].
  assert (Hr1 : vreach cfg (vstep cfg s it)) by (by constructor).
  destruct (wakes_live cfg n k ws _ Hr1 Hw Hl1) as [?|(x0 & w & tw & sidw & zw & ltw & Hruns & Htw & Hopw & Hpcw)]; [by left|right].
  assert (Hruns0 : vruns cfg s x0). { eapply vruns_trans; [|exact Hruns]. by apply (vruns_step _ _ s it); [constructor|]. }
  destruct (woken_back cfg s x0 n k w tw sidw zw ltw Hr Hruns0 Hl Htw Hopw Hpcw) as (t0 & Ht0 & Hop0 & Hpc0).
  unfold may_release. apply orb_true_iff. right. change ((obs3 (s, it, s')).1.1) with (sv_observe s). apply ob_any_obs. exists w, t0. split; [done|].
  unfold othr_of. rewrite Hop0, Hpc0. simpl. by rewrite bool_decide_eq_true_2.
Qed.

Lemma listing_slist s c : c ∈ sv_listing s ↔ ∃ sid, c ∈ slist s sid.
Proof.
  unfold sv_listing. rewrite elem_of_concat_pairs. split.
  - intros (sid & l & Hl%elem_of_map_to_list & Hc). exists sid. unfold slist. by rewrite Hl.
  - intros (sid & Hc). unfold slist in Hc. destruct (v_sess s !! sid) as [l|] eqn:E; [|by apply elem_of_nil in Hc].
    exists sid, l. split; [by apply elem_of_map_to_list|done].
Qed.

Lemma slist_kept cfg s it ws sid c : vreach cfg s → sitem_ok s it → wakes_ok cfg (vstep cfg s it) ws → c ∈ slist s sid →
  let s' := wakes_run cfg (vstep cfg s it) ws in
  c ∈ slist s' sid ∨ may_unlist (obs3 (s, it, s')) (cl_name c) (cl_key c) = true.
Proof.
  intros Hr Hok Hw Hc s'. pose proof (svinv_reach _ _ Hr) as I.
  assert (Hr1 : vreach cfg (vstep cfg s it)) by (by constructor).
  destruct (wakes_frame cfg ws _ Hr1 Hw) as (_ & _ & F3 & _). fold s' in F3. rewrite (slist_frame _ _ _ F3).
  destruct (sess_step cfg s it I) as [[Hs _]|[(tid & t & sid0 & n & k & z & lt & -> & Ht & Hpc & Hop & Hs & _)|
    [(tid & t & n & k & -> & Ht & Hwho & Hs & _)|(tid & t & sid0 & -> & Ht & Hop & Hpc & Hs & _)]]]; rewrite Hs.
  - by left.
  - left. case_decide; [subst; apply elem_of_app; by left|done].
  - destruct (is_hold n k c) eqn:Hh; [right|left; by apply elem_of_list_filter].
    destruct c as [n' k' z']. apply is_hold_clock in Hh as [-> ->]. simpl. unfold may_unlist. rewrite (ran_is_obs _ _ t) by done. unfold othr_of.
    destruct Hwho as [[Ho Hp]|(id & tm & Ho & Hp & Hh & Hn & Hk)]; rewrite Ho, Hp; simpl.
    + by rewrite !bool_decide_eq_true_2.
    + rewrite Hh, Hn, Hk. simpl. by rewrite !bool_decide_eq_true_2.
  - right. unfold may_unlist. rewrite (ran_is_obs _ _ t) by done. unfold othr_of. rewrite Hop. simpl.
    destruct Hpc as [->|[-> _]]; done.
Qed.

Lemma c11_keeps_state cfg l s it ws : gruns cfg l s → sitem_ok s it → wakes_ok cfg (vstep cfg s it) ws →
  c11_keeps_at (map obs3 l) (obs3 (s, it, wakes_run cfg (vstep cfg s it) ws)) = true.
Proof.
  intros Hr Hok Hw. set (s' := wakes_run cfg (vstep cfg s it) ws). pose proof (gruns_reach _ _ _ Hr) as Hrs.
  assert (Hr1 : vreach cfg (vstep cfg s it)) by (by constructor).
  assert (Hrs' : vreach cfg s') by (by apply wakes_reach).
  unfold c11_keeps_at. cbv zeta. change ((obs3 (s, it, s')).1.2) with it. change ((obs3 (s, it, s')).1.1) with (sv_observe s).
  change ((obs3 (s, it, s')).2) with (sv_observe s').
  destruct (flag_set (sv_observe s)) eqn:Hflag; [|done]. cbn [negb orb]. apply (flag_set_obs cfg s Hrs) in Hflag.
  rewrite !andb_true_iff. split_and!.
  - (* a session end released from its flag check ends at once *)
    destruct it as [|d| | | | |]; try done. rewrite !ob_find_obs.
    destruct (v_thr s !! d) as [t|] eqn:Ht; [|done]. cbn [fmap option_fmap option_map]. unfold othr_of at 1.
    destruct (okind_of s (st_op t)) eqn:Hk; try done. apply okind_ds in Hk.
    destruct (v_thr s' !! d) as [t'|] eqn:Ht'; [|done]. cbn [fmap option_fmap option_map]. unfold othr_of at 1.
    destruct (is_lab (spc_label VDsFlag) (ostat_of (st_pc t))) eqn:Hl; [|done]. cbn [negb orb].
    apply ostat_lab in Hl as (Hl & _ & _). apply label_eq_simple in Hl; [|done..].
    destruct (C11_keeps_holds cfg s d t sid Hrs Ht Hk Hflag Hl) as (_ & _ & _ & _ & _ & t1 & Ht1 & Hpc1).
    pose proof (fin_vruns cfg _ s' d t1 Hr1 (wakes_vruns cfg _ ws) Ht1) as Hx. rewrite Hpc1 in Hx. specialize (Hx eq_refl).
    fold s' in Hx. simplify_eq. by rewrite Hpc1.
  - (* the lock table *)
    apply forallb_forall. intros [n [z ks]] Hin. unfold sv_observe, sv_table in Hin. simpl in Hin.
    apply elem_of_list_In, elem_of_list_fmap in Hin as ([n0 a] & Heq & Hin). apply elem_of_map_to_list in Hin. simpl in Heq.
    injection Heq as -> -> ->. cbn [fst snd]. apply forallb_forall. intros k Hk%elem_of_list_In.
    assert (Hx : slive s' n0 k ∨ may_release (obs3 (s, it, s')) n0 k = true) by (apply table_kept; [done..|by exists a]).
    destruct Hx as [Hl|Hm]; [|by rewrite Hm, orb_true_r]. by rewrite (proj2 (in_table_obs _ _ _) Hl).
  - (* the listing *)
    apply forallb_forall. intros c Hin%elem_of_list_In. change (ob_listing (sv_observe s)) with (sv_listing s) in Hin.
    apply listing_slist in Hin as [sid Hc].
    assert (Hx : c ∈ slist s' sid ∨ may_unlist (obs3 (s, it, s')) (cl_name c) (cl_key c) = true) by (by apply slist_kept).
    destruct Hx as [Hc'|Hm]; [|by rewrite Hm, orb_true_r]. rewrite bool_decide_eq_true_2; [done|]. change (ob_listing (sv_observe s')) with (sv_listing s'). apply listing_slist. eauto.
  - (* the image *)
    apply forallb_forall. intros [sid c] Hin%elem_of_list_In. cbn [fst snd].
    apply file_pairs_obs in Hin as (m & l0 & Hm & Hl0 & Hc0).
    pose proof (file_entry _ _ _ _ _ _ (fsync_reach svinv_reach _ _ Hrs) Hm Hl0 Hc0) as Hc.
    assert (Hfile : sc_file cfg = true).
    { destruct (sc_file cfg) eqn:E; [done|]. rewrite (vi_nofile _ _ (svinv_reach _ _ Hrs) E) in Hm. done. }
    assert (Hx : c ∈ slist s' sid ∨ may_unlist (obs3 (s, it, s')) (cl_name c) (cl_key c) = true) by (by apply slist_kept).
    destruct Hx as [Hc'|Hmu]; [|by rewrite Hmu, orb_true_r]. rewrite bool_decide_eq_true_2; [done|]. apply file_pairs_obs.
    eapply entry_file; [apply (fsync_reach svinv_reach _ _ Hrs')|done|done].
Qed.
Theorem svtrace_c11_keeps_w : ∀ cfg gs, gsched_ok cfg gs → q_c11_keeps (vrun_obs_w cfg gs) = true.
Proof. intros cfg gs. apply q_of_obligation. intros l s it ws Hr Hok Hw. by apply c11_keeps_state. Qed.
Theorem svtrace_c11_keeps : ∀ cfg sch, sched_ok cfg sch → q_c11_keeps (vrun_obs cfg sch) = true.
Proof. intros cfg sch H. by apply svtrace_c11_keeps_w, sched_ok_ungrouped. Qed.

(** ** the verdict the driver prints: on a model run every proved predicate answers "holds" *)
Theorem svtrace_verdict_w : ∀ cfg gs, sc_file cfg = true → gsched_ok cfg gs →
  ∃ c06 over, sv_trace_verdict (sc_noclear cfg) (vrun_obs_w cfg gs) = [None; None; c06; None; None; None; None; None; over; None] ∧
              (sig_fleak (vrun_obs_w cfg gs) = false → c06 = None).
Proof.
  intros cfg gs Hfile Hok. unfold sv_trace_verdict.
  pose proof (svtrace_c05_unlock_w cfg gs Hok) as H1. pose proof (svtrace_c05_renew_w cfg gs Hok) as H2.
  pose proof (svtrace_c06_release_or_fleak_w cfg gs Hok) as H3. pose proof (svtrace_c09_image_w cfg gs Hfile Hok) as H4.
  pose proof (svtrace_c09_surplus_w cfg gs Hok) as H5. pose proof (svtrace_c11_keeps_w cfg gs Hok) as H6.
  unfold q_c05_unlock, q_c05_renew, q_c06_release_or_fleak, q_c09_image, q_c09_surplus_in_flight, q_c11_keeps in *.
  set (L := transitions (vrun_obs_w cfg gs)) in *.
  assert (H4' : all_at c09_live_at L = true ∧ all_at c09_ended_at L = true ∧ all_at c09_bound_at L = true).
  { clear -H4. clearbody L. unfold all_at in *. revert H4. generalize (@nil trans). induction L as [|x r IH]; intros past H4; simpl in *; [done|].
    unfold c09_image_at in H4 at 1. apply andb_prop in H4 as [Hx Hr]. apply andb_prop in Hx as [Hx H3]. apply andb_prop in Hx as [Hx1 Hx2].
    destruct (IH _ Hr) as (I1 & I2 & I3). by rewrite Hx1, Hx2, H3, I1, I2, I3. }
  destruct H4' as (H41 & H42 & H43).
  apply first_bad_at_none in H1, H2, H3, H41, H42, H43, H5, H6. rewrite H1, H2, H3, H41, H42, H43, H5, H6.
  eexists _, _. split; [reflexivity|]. intros Hsig. apply first_bad_at_none. by apply (svtrace_c06_release_w cfg gs Hok Hsig).
Qed.

(** ** Examples (non-vacuity) *)
Definition ex_cfg : svcfg := SvCfg false true.
Definition ex_sid : str := bs 1. Definition ex_n : str := bs 10. Definition ex_k : str := bs 21. Definition ex_k2 : str := bs 22.
(** a lease expiring while an Unlock and a Renew of the same hold are in flight: the lease timer fires between the Unlock's
    invocation and its first step; the Unlock finds the timer fired, skips the manager call, removes the entry and answers
    unlocked=true while the hold still occupies the lock — with the lease callback parked before its unlock step *)
Definition ex_race : list sitem :=
  [VConnect ex_sid; VCall 1 (STry ex_sid ex_n ex_k 1 (Some 5)); VRun 1; VRun 1; VRun 1; VTick 4999999999;
   VCall 2 (SUnlock ex_n ex_k); VCall 3 (SRenew ex_n ex_k 7); VTick 1; VRun 2; VRun 2; VRun 3; VRun 1000; VRun 1000; VRun 1000].
Example ex_race_ok : sched_ok ex_cfg ex_race.
Proof. apply sched_okb_sound. by vm_compute. Qed.
Example ex_race_verdict :
  sv_trace_verdict false (vrun_obs ex_cfg ex_race) = [None; None; None; None; None; None; None; None; None; None] ∧
  q_c05_unlock (vrun_obs ex_cfg ex_race) = true ∧ q_c05_renew (vrun_obs ex_cfg ex_race) = true ∧
  q_c09_image (vrun_obs ex_cfg ex_race) = true ∧ q_c09_surplus_in_flight (vrun_obs ex_cfg ex_race) = true.
Proof. by vm_compute. Qed.
(** ... and the interesting clause is exercised: after item 10 the Unlock has answered true, the hold is in the table, its
    expiry is pending *)
Example ex_race_exercises : ∃ o, (snd <$> vrun_obs ex_cfg ex_race !! 10%nat) = Some o ∧
  ob_find o 2 = Some (OThr (OkCall (SUnlock ex_n ex_k)) (OsF (SResp true None))) ∧ in_table o ex_n ex_k = true ∧
  exp_at (spc_label VCbUnlock) o ex_n ex_k = true ∧ ob_file o = Some [(ex_sid, [])].
Proof. eexists. split; [by vm_compute|]. by vm_compute. Qed.
(** the same observations with the lease callback goroutine hidden: the Unlock lied *)
Definition hide_thr (tid : nat) (tr : list (sitem * svobs)) : list (sitem * svobs) :=
  map (λ x, (x.1, SvObs (filter (λ y, y.1 ≠ tid) (ob_thr x.2)) (ob_table x.2) (ob_tmkeys x.2) (ob_sess x.2) (ob_listing x.2) (ob_file x.2))) tr.
Example ex_race_doctored_unlock :
  q_c05_unlock (hide_thr 1000 (vrun_obs ex_cfg ex_race)) = false ∧
  first_bad_at c05_unlock_at (transitions (hide_thr 1000 (vrun_obs ex_cfg ex_race))) = Some 10%nat.
Proof. by vm_compute. Qed.
(** ... with the released hold put back into the image: an acknowledged release still listed *)
Definition set_file (f : option (list (str * list clock))) (tr : list (sitem * svobs)) : list (sitem * svobs) :=
  map (λ x, (x.1, SvObs (ob_thr x.2) (ob_table x.2) (ob_tmkeys x.2) (ob_sess x.2) (ob_listing x.2) f)) tr.
Example ex_race_doctored_image :
  q_c09_image (set_file (Some [(ex_sid, [Clock ex_n ex_k 1])]) (vrun_obs ex_cfg ex_race)) = false ∧
  first_bad_at c09_ended_at (transitions (set_file (Some [(ex_sid, [Clock ex_n ex_k 1])]) (vrun_obs ex_cfg ex_race))) = Some 10%nat ∧
  q_c09_image (set_file (Some []) (vrun_obs ex_cfg ex_race)) = false ∧
  first_bad_at c09_live_at (transitions (set_file (Some []) (vrun_obs ex_cfg ex_race))) = Some 4%nat ∧
  q_c09_surplus_in_flight (set_file (Some [(ex_sid, [Clock ex_n ex_k 1])]) (vrun_obs ex_cfg ex_race)) = false.
Proof. by vm_compute. Qed.

(** a Renew that answers locked=true; with the timer key hidden from the observation the predicate fails *)
Definition ex_renew : list sitem :=
  [VConnect ex_sid; VCall 1 (STry ex_sid ex_n ex_k 1 (Some 5)); VRun 1; VRun 1; VRun 1; VTick 1000;
   VCall 3 (SRenew ex_n ex_k 7); VRun 3; VCall 2 (SUnlock ex_n ex_k); VRun 2; VRun 2; VRun 2].
Definition hide_timers (tr : list (sitem * svobs)) : list (sitem * svobs) :=
  map (λ x, (x.1, SvObs (ob_thr x.2) (ob_table x.2) [] (ob_sess x.2) (ob_listing x.2) (ob_file x.2))) tr.
Example ex_renew_verdict :
  sched_ok ex_cfg ex_renew ∧
  sv_trace_verdict false (vrun_obs ex_cfg ex_renew) = [None; None; None; None; None; None; None; None; None; None] ∧
  (∃ o, (snd <$> vrun_obs ex_cfg ex_renew !! 7%nat) = Some o ∧ ob_find o 3 = Some (OThr (OkCall (SRenew ex_n ex_k 7)) (OsF (SResp true None)))) ∧
  q_c05_renew (hide_timers (vrun_obs ex_cfg ex_renew)) = false.
Proof. split; [apply sched_okb_sound; by vm_compute|]. split; [by vm_compute|]. split; [eexists; split; by vm_compute|by vm_compute]. Qed.

(** a session end that releases its holds; F-LEAK's schedule: the signature is there, the strict predicate fails, the lenient
    one holds *)
Definition ex_sessend : list sitem :=
  [VConnect ex_sid; VCall 1 (STry ex_sid ex_n ex_k 1 None); VRun 1; VRun 1; VConnEnd ex_sid;
   VRun 1000; VRun 1000; VRun 1000; VRun 1000].
Definition ex_leak : list sitem :=
  [VConnect ex_sid; VCall 1 (STry ex_sid ex_n ex_k 1 None); VRun 1; VConnEnd ex_sid; VRun 1000; VRun 1000; VRun 1].
Definition keep_table (t : list (str * (Z * list str))) (tr : list (sitem * svobs)) : list (sitem * svobs) :=
  map (λ x, (x.1, SvObs (ob_thr x.2) t (ob_tmkeys x.2) (ob_sess x.2) (ob_listing x.2) (ob_file x.2))) tr.
Example ex_sessend_verdict :
  sched_ok ex_cfg ex_sessend ∧
  sv_trace_verdict false (vrun_obs ex_cfg ex_sessend) = [None; None; None; None; None; None; None; None; None; None] ∧
  sig_fleak (vrun_obs ex_cfg ex_sessend) = false ∧
  (∃ o, last (vrun_obs ex_cfg ex_sessend) = Some (VRun 1000, o) ∧ ob_find o 1000 = Some (OThr (OkDs ex_sid) OsE) ∧ in_table o ex_n ex_k = false) ∧
  q_c06_release false (keep_table [(ex_n, (1, [ex_k]))] (vrun_obs ex_cfg ex_sessend)) = false.
Proof. split; [apply sched_okb_sound; by vm_compute|]. split_and!; try (by vm_compute). eexists. split; by vm_compute. Qed.
Example ex_leak_verdict :
  sched_ok ex_cfg ex_leak ∧ sig_fleak (vrun_obs ex_cfg ex_leak) = true ∧
  q_c06_release false (vrun_obs ex_cfg ex_leak) = false ∧ q_c06_release_or_fleak false (vrun_obs ex_cfg ex_leak) = true.
Proof. split; [apply sched_okb_sound; by vm_compute|]. by vm_compute. Qed.

(** shutdown: a connection that ends after the flag step clears nothing; a Lock call parked in the manager is woken by a
    release (a GROUP: the forced move follows the Unlock's manager call) *)
Definition ex_shut : list (sitem * list nat) :=
  [(VConnect ex_sid, []); (VCall 1 (STry ex_sid ex_n ex_k 1 None), []); (VRun 1, []); (VRun 1, []);
   (VCall 2 (SLock ex_sid ex_n ex_k2 1 None), []); (VRun 2, []);
   (VCall 3 (SUnlock ex_n ex_k), []); (VRun 3, []); (VRun 3, [2%nat]); (VRun 3, []); (VRun 2, []);
   (VSignal, []); (VRun 1000, []); (VConnEnd ex_sid, []); (VRun 1001, []); (VRun 1000, []); (VRun 1000, []); (VRun 1000, [])].
Example ex_shut_verdict :
  gsched_ok ex_cfg ex_shut ∧
  sv_trace_verdict false (vrun_obs_w ex_cfg ex_shut) = [None; None; None; None; None; None; None; None; None; None] ∧
  (∃ o, (snd <$> vrun_obs_w ex_cfg ex_shut !! 14%nat) = Some o ∧ ob_find o 1001 = Some (OThr (OkDs ex_sid) OsE) ∧
        in_table o ex_n ex_k2 = true ∧ ob_file o = Some [(ex_sid, [Clock ex_n ex_k2 1])]) ∧
  (* the session end not stopping at its flag check *)
  q_c11_keeps (map (λ x, (x.1, SvObs (map (λ y, if Nat.eqb y.1 1001 && is_end (ot_st y.2) then (y.1, OThr (OkDs ex_sid) (OsP (spc_label VDsDestroy))) else y) (ob_thr x.2))
                                    (ob_table x.2) (ob_tmkeys x.2) (ob_sess x.2) (ob_listing x.2) (ob_file x.2))) (vrun_obs_w ex_cfg ex_shut)) = false ∧
  (* the hold dropped from the image after the flag step *)
  q_c11_keeps (flat_map (λ x, match x.1 with VRun t => if Nat.eqb t 1001 then set_file (Some []) [x] else [x] | _ => [x] end) (vrun_obs_w ex_cfg ex_shut)) = false.
Proof. split; [apply gsched_okb_sound; by vm_compute|]. split; [by vm_compute|]. split; [eexists; split; by vm_compute|]. by vm_compute. Qed.

Print Assumptions svtrace_c05_unlock.
Print Assumptions svtrace_c05_renew.
Print Assumptions svtrace_c06_release.
Print Assumptions svtrace_c09_image.
Print Assumptions svtrace_c09_surplus.
Print Assumptions svtrace_c11_keeps.
Print Assumptions svtrace_c05_unlock_w.
Print Assumptions svtrace_c05_renew_w.
Print Assumptions svtrace_c06_release_w.
Print Assumptions svtrace_c06_release_or_fleak_w.
Print Assumptions svtrace_c09_image_w.
Print Assumptions svtrace_c09_surplus_w.
Print Assumptions svtrace_c11_keeps_w.
Print Assumptions svtrace_verdict_w.
