(** Codec proofs, part 2: round trip of [encode] through the validator and benc's
    decoder, for every order of the entries; rewrites of the state file. *)
From Coq Require Import Lia ZifyBool ZifyNat ZifyN.
From Ldlm Require Import Model.Base Model.Codec Proofs.CodecP1.

Local Open Scope N_scope.

(** * Sizes of encodings *)

Lemma marshal_string_blen s : blen (marshal_string s) = blen (marshal_uint (blen s)) + blen s.
Proof. unfold marshal_string. by rewrite blen_app. Qed.

Lemma marshal_string_min s : 1 <= blen (marshal_string s).
Proof. rewrite marshal_string_blen. pose proof (marshal_uint_length (blen s)). lia. Qed.

Lemma marshal_int32_blen v : blen (marshal_int32 v) = 4.
Proof. done. Qed.

Lemma marshal_lock_min l : 6 <= blen (marshal_lock l).
Proof.
  destruct l as [[name key] size]. unfold marshal_lock. rewrite !blen_app, marshal_int32_blen.
  pose proof (marshal_string_min name). pose proof (marshal_string_min key). lia.
Qed.

Lemma marshal_locks_min ls : 6 * N.of_nat (length ls) <= blen (concat (map marshal_lock ls)).
Proof.
  induction ls as [|l ls IH]; [done|]. cbn [map concat length]. rewrite blen_app.
  pose proof (marshal_lock_min l). lia.
Qed.

Lemma terminator_blen : blen terminator = 4.
Proof. done. Qed.

Lemma marshal_slice_blen ls :
  blen (marshal_slice ls)
  = blen (marshal_uint (N.of_nat (length ls))) + blen (concat (map marshal_lock ls)) + 4.
Proof. unfold marshal_slice. rewrite !blen_app, terminator_blen. lia. Qed.

Lemma marshal_entry_blen e :
  blen (marshal_entry e) = blen (marshal_string e.1) + blen (marshal_slice e.2).
Proof. unfold marshal_entry. by rewrite blen_app. Qed.

Lemma marshal_entry_min e : 6 <= blen (marshal_entry e).
Proof.
  unfold marshal_entry. rewrite blen_app, marshal_slice_blen.
  pose proof (marshal_string_min e.1). pose proof (marshal_uint_length (N.of_nat (length e.2))). lia.
Qed.

Lemma marshal_entries_min es : 6 * N.of_nat (length es) <= blen (concat (map marshal_entry es)).
Proof.
  induction es as [|e es IH]; [done|]. cbn [map concat length]. rewrite blen_app.
  pose proof (marshal_entry_min e). lia.
Qed.

(** * benc's decoder on encodings *)

Lemma unmarshal_uint_enc b n v r :
  suffix_at b n (marshal_uint v ++ r) -> v < 2 ^ 64 ->
  unmarshal_uint b n = Ok (n + blen (marshal_uint v), v).
Proof.
  intros [Hle Ht] Hv. unfold unmarshal_uint.
  replace (blen b <? n) with false by lia.
  rewrite Ht, uvarint_marshal by done. done.
Qed.

Lemma to_int_small us : us < 2 ^ 63 -> to_int us = Z.of_N us.
Proof. intros. unfold to_int. by replace (us <? 2 ^ 63) with true by lia. Qed.

Lemma unmarshal_string_enc b n s r :
  suffix_at b n (marshal_string s ++ r) -> wf_str s ->
  unmarshal_string b n = Ok (n + blen (marshal_string s), s).
Proof.
  intros H Hs. unfold wf_str in Hs. unfold marshal_string in H. rewrite <- app_assoc in H.
  unfold unmarshal_string.
  rewrite (unmarshal_uint_enc _ _ _ _ H) by lia. cbn [rbind].
  apply suffix_at_app in H.
  pose proof (suffix_at_blen _ _ _ H) as Hl. rewrite blen_app in Hl.
  rewrite to_int_small by done.
  unfold len_minus_lt.
  replace (Z.of_N (blen b) - Z.of_N (n + blen (marshal_uint (blen s))) <? Z.of_N (blen s))%Z
    with false by lia.
  replace ((Z.of_N (blen s) <? 0)%Z) with false by lia.
  replace (blen b <? n + blen (marshal_uint (blen s)) + blen s) with false by lia.
  cbn [orb]. destruct H as [_ ->]. rewrite to_nat_blen, take_app.
  rewrite marshal_string_blen. f_equal. f_equal. lia.
Qed.

Lemma unmarshal_int32_enc b n v r :
  suffix_at b n (marshal_int32 v ++ r) -> (- 2 ^ 31 <= v < 2 ^ 31)%Z ->
  unmarshal_int32 b n = Ok (n + 4, v).
Proof.
  intros H Hv. pose proof (suffix_at_blen _ _ _ H) as Hl.
  rewrite blen_app, marshal_int32_blen in Hl.
  unfold unmarshal_int32, len_minus_lt.
  replace (Z.of_N (blen b) - Z.of_N n <? 4)%Z with false by lia.
  destruct H as [_ ->].
  pose proof (int32_lor_bytes v Hv) as Hb. cbv zeta in Hb.
  unfold marshal_int32 in *. cbn [app]. by rewrite Hb.
Qed.

Lemma unmarshal_lock_enc b n l r :
  suffix_at b n (marshal_lock l ++ r) -> wf_lock l ->
  unmarshal_lock b n = Ok (n + blen (marshal_lock l), l).
Proof.
  destruct l as [[name key] size]. intros H (Hn & Hk & Hs). cbn [fst snd] in *.
  unfold marshal_lock in *. rewrite <- !app_assoc in H.
  unfold unmarshal_lock.
  rewrite (unmarshal_string_enc _ _ _ _ H) by done. cbn [rbind].
  apply suffix_at_app in H.
  rewrite (unmarshal_string_enc _ _ _ _ H) by done. cbn [rbind].
  apply suffix_at_app in H.
  rewrite (unmarshal_int32_enc _ _ _ _ H) by done. cbn [rbind].
  rewrite !blen_app, marshal_int32_blen. f_equal. f_equal. lia.
Qed.

Lemma unmarshal_locks_loop_enc b ls : forall n r f,
  suffix_at b n (concat (map marshal_lock ls) ++ r) -> Forall wf_lock ls ->
  (length ls <= f)%nat ->
  unmarshal_locks_loop f b (N.of_nat (length ls)) n
  = Ok (n + blen (concat (map marshal_lock ls)), ls).
Proof.
  induction ls as [|l ls IH]; intros n r f H Hwf Hf.
  - destruct f; cbn; by rewrite N.add_0_r.
  - destruct f as [|f]; [cbn in Hf; lia|].
    cbn [unmarshal_locks_loop length].
    replace (N.of_nat (S (length ls)) =? 0) with false by lia.
    cbn [map concat] in H. rewrite <- app_assoc in H.
    inversion Hwf as [|? ? Hl Hls]; subst.
    rewrite (unmarshal_lock_enc _ _ _ _ H) by done. cbn [rbind].
    apply suffix_at_app in H.
    replace (N.of_nat (S (length ls)) - 1) with (N.of_nat (length ls)) by lia.
    rewrite (IH _ _ _ H) by (done || cbn in Hf; lia). cbn [rbind].
    cbn [map concat]. rewrite blen_app. f_equal. f_equal. lia.
Qed.

Lemma fuel_for_enough b n x r :
  suffix_at b n (x ++ r) -> forall k : nat, N.of_nat k <= blen x -> (k <= fuel_for b)%nat.
Proof.
  intros H k Hk. pose proof (suffix_at_blen _ _ _ H) as Hl. rewrite blen_app in Hl.
  unfold fuel_for, blen in *. lia.
Qed.

Lemma unmarshal_slice_enc b n ls r :
  suffix_at b n (marshal_slice ls ++ r) -> N.of_nat (length ls) <= max_slice_len ->
  Forall wf_lock ls ->
  unmarshal_slice b n = (Ok (n + blen (marshal_slice ls), ls), N.of_nat (length ls)).
Proof.
  intros H Hlen Hwf. unfold marshal_slice in H. rewrite <- !app_assoc in H.
  unfold unmarshal_slice.
  assert (Hm : max_slice_len < 2 ^ 63) by (by vm_compute).
  rewrite (unmarshal_uint_enc _ _ _ _ H) by (change (2 ^ 64) with (2 * 2 ^ 63); lia).
  apply suffix_at_app in H.
  replace (2 ^ 63 <=? N.of_nat (length ls)) with false by lia.
  replace (max_slice_len <? N.of_nat (length ls)) with false by lia.
  cbn [orb].
  pose proof (suffix_at_blen _ _ _ H) as Hl. rewrite !blen_app, terminator_blen in Hl.
  pose proof (marshal_locks_min ls) as Hmin.
  assert (Hub : unbacked (N.of_nat (length ls))
                  (blen b - (n + blen (marshal_uint (N.of_nat (length ls))))) = false).
  { unfold unbacked. apply andb_false_iff. right. apply N.ltb_ge.
    apply N.div_le_lower_bound; lia. }
  rewrite Hub.
  rewrite (unmarshal_locks_loop_enc _ _ _ _ _ H Hwf).
  2:{ eapply fuel_for_enough; [exact H|]. lia. }
  rewrite marshal_slice_blen. f_equal. f_equal. f_equal. lia.
Qed.

(** total number of locks of all entries *)
Definition sum_locks (es : entries) : N :=
  foldr (fun e acc => N.of_nat (length e.2) + acc) 0 es.

Lemma unmarshal_entries_loop_enc b es : forall n r f m,
  suffix_at b n (concat (map marshal_entry es) ++ r) -> Forall wf_entry es ->
  (length es <= f)%nat ->
  unmarshal_entries_loop f b (N.of_nat (length es)) n m
  = (Ok (n + blen (concat (map marshal_entry es)), foldl (fun m e => <[e.1 := e.2]> m) m es),
     sum_locks es).
Proof.
  induction es as [|e es IH]; intros n r f m H Hwf Hf.
  - destruct f; cbn; by rewrite N.add_0_r.
  - destruct f as [|f]; [cbn in Hf; lia|].
    cbn [unmarshal_entries_loop length].
    replace (N.of_nat (S (length es)) =? 0) with false by lia.
    cbn [map concat] in H. rewrite <- app_assoc in H.
    inversion Hwf as [|? ? He Hes]; subst. destruct He as (Hk & Hlen & Hls).
    unfold marshal_entry at 1 in H. rewrite <- app_assoc in H.
    rewrite (unmarshal_string_enc _ _ _ _ H) by done.
    apply suffix_at_app in H.
    rewrite (unmarshal_slice_enc _ _ _ _ H) by done.
    apply suffix_at_app in H.
    replace (N.of_nat (S (length es)) - 1) with (N.of_nat (length es)) by lia.
    rewrite (IH _ _ _ _ H) by (done || cbn in Hf; lia).
    cbn [map concat foldl]. rewrite blen_app, marshal_entry_blen.
    change (sum_locks (e :: es)) with (N.of_nat (length e.2) + sum_locks es).
    f_equal. f_equal. f_equal. lia.
Qed.

Lemma benc_decode_i_encode es :
  N.of_nat (length es) < 2 ^ 63 -> Forall wf_entry es ->
  exists a, benc_decode_i (encode es) = (DecOk (to_map es), a)
            /\ a <= N.of_nat (length es) + sum_locks es.
Proof.
  intros Hlen Hwf.
  pose proof (suffix_at_0 (encode es)) as H. unfold encode at 2 in H.
  unfold benc_decode_i, unmarshal_map.
  rewrite (unmarshal_uint_enc _ _ _ _ H) by (change (2 ^ 64) with (2 * 2 ^ 63); lia).
  apply suffix_at_app in H.
  replace (2 ^ 63 <=? N.of_nat (length es)) with false by lia.
  pose proof (suffix_at_blen _ _ _ H) as Hl. rewrite !blen_app, terminator_blen in Hl.
  pose proof (marshal_entries_min es) as Hmin.
  set (hint := if max_map_hint <? N.of_nat (length es) then 0 else N.of_nat (length es)).
  assert (Hhint : hint <= N.of_nat (length es)) by (subst hint; destruct (_ <? _); lia).
  assert (Hub : unbacked hint
                  (blen (encode es) - (0 + blen (marshal_uint (N.of_nat (length es))))) = false).
  { unfold unbacked. apply andb_false_iff. right. apply N.ltb_ge.
    apply N.div_le_lower_bound; lia. }
  rewrite Hub.
  rewrite (unmarshal_entries_loop_enc _ _ _ _ _ _ H Hwf).
  2:{ eapply fuel_for_enough; [exact H|]. lia. }
  unfold verify_marshal.
  replace (0 + blen (marshal_uint (N.of_nat (length es))) + blen (concat (map marshal_entry es)) + 4
           =? blen (encode es)) with true by lia.
  exists (hint + sum_locks es). split; [done | lia].
Qed.

(** * The validator on encodings *)

Lemma check_count_enc b n c r :
  suffix_at b n (marshal_uint c ++ r) -> c < 2 ^ 64 -> 6 * c <= blen r ->
  check_count b n 6 = Ok (n + blen (marshal_uint c), c).
Proof.
  intros H Hc Hr. unfold check_count.
  rewrite (unmarshal_uint_enc _ _ _ _ H) by done. cbn [rbind].
  apply suffix_at_app in H. pose proof (suffix_at_blen _ _ _ H) as Hl.
  replace ((blen b - (n + blen (marshal_uint c))) / 6 <? c) with false; [done|].
  symmetry. apply N.ltb_ge. apply N.div_le_lower_bound; lia.
Qed.

Lemma check_string_enc b n s r :
  suffix_at b n (marshal_string s ++ r) -> blen s < 2 ^ 64 ->
  check_string b n = Ok (n + blen (marshal_string s)).
Proof.
  intros H Hs. unfold marshal_string in H. rewrite <- app_assoc in H.
  unfold check_string.
  rewrite (unmarshal_uint_enc _ _ _ _ H) by done. cbn [rbind].
  apply suffix_at_app in H. pose proof (suffix_at_blen _ _ _ H) as Hl. rewrite blen_app in Hl.
  replace (blen b - (n + blen (marshal_uint (blen s))) <? blen s) with false by lia.
  rewrite marshal_string_blen. f_equal. lia.
Qed.

Lemma skip_int32_enc b n x r :
  suffix_at b n (x ++ r) -> blen x = 4 -> skip_int32 b n = Ok (n + 4).
Proof.
  intros H Hx. pose proof (suffix_at_blen _ _ _ H) as Hl. rewrite blen_app in Hl.
  unfold skip_int32, len_minus_lt.
  by replace (Z.of_N (blen b) - Z.of_N n <? 4)%Z with false by lia.
Qed.

Lemma check_terminator_enc b n r :
  suffix_at b n (terminator ++ r) -> check_terminator b n = Ok (n + 4).
Proof.
  intros H. pose proof (suffix_at_blen _ _ _ H) as Hl. rewrite blen_app, terminator_blen in Hl.
  unfold check_terminator, len_minus_lt.
  replace (Z.of_N (blen b) - Z.of_N n <? 4)%Z with false by lia.
  destruct H as [_ ->]. change 4%nat with (length terminator). rewrite take_app.
  by rewrite bool_decide_eq_true_2.
Qed.

Lemma wf_str_64 s : wf_str s -> blen s < 2 ^ 64.
Proof. unfold wf_str. change (2 ^ 64) with (2 * 2 ^ 63). lia. Qed.

Lemma check_locks_loop_enc b ls : forall n r f,
  suffix_at b n (concat (map marshal_lock ls) ++ r) -> Forall wf_lock ls ->
  (length ls <= f)%nat ->
  check_locks_loop f b (N.of_nat (length ls)) n
  = Ok (n + blen (concat (map marshal_lock ls))).
Proof.
  induction ls as [|l ls IH]; intros n r f H Hwf Hf.
  - destruct f; cbn; by rewrite N.add_0_r.
  - destruct f as [|f]; [cbn in Hf; lia|].
    cbn [check_locks_loop length].
    replace (N.of_nat (S (length ls)) =? 0) with false by lia.
    cbn [map concat] in H. rewrite <- app_assoc in H.
    inversion Hwf as [|? ? Hl Hls]; subst.
    destruct l as [[name key] size]. destruct Hl as (Hn & Hk & Hs). cbn [fst snd] in *.
    unfold marshal_lock at 1 in H. rewrite <- !app_assoc in H.
    rewrite (check_string_enc _ _ _ _ H) by (by apply wf_str_64). cbn [rbind].
    apply suffix_at_app in H.
    rewrite (check_string_enc _ _ _ _ H) by (by apply wf_str_64). cbn [rbind].
    apply suffix_at_app in H.
    rewrite (skip_int32_enc _ _ _ _ H) by done. cbn [rbind].
    apply suffix_at_app in H. rewrite marshal_int32_blen in H.
    replace (N.of_nat (S (length ls)) - 1) with (N.of_nat (length ls)) by lia.
    rewrite (IH _ _ _ H) by (done || cbn in Hf; lia).
    cbn [map concat]. unfold marshal_lock at 2. rewrite !blen_app, marshal_int32_blen.
    f_equal. lia.
Qed.

Lemma check_entries_loop_enc b es : forall n r f,
  suffix_at b n (concat (map marshal_entry es) ++ r) -> Forall wf_entry es ->
  (length es <= f)%nat ->
  check_entries_loop f b (N.of_nat (length es)) n
  = Ok (n + blen (concat (map marshal_entry es))).
Proof.
  induction es as [|e es IH]; intros n r f H Hwf Hf.
  - destruct f; cbn; by rewrite N.add_0_r.
  - destruct f as [|f]; [cbn in Hf; lia|].
    cbn [check_entries_loop length].
    replace (N.of_nat (S (length es)) =? 0) with false by lia.
    cbn [map concat] in H. rewrite <- app_assoc in H.
    inversion Hwf as [|? ? He Hes]; subst. destruct He as (Hk & Hlen & Hls).
    unfold marshal_entry at 1 in H. rewrite <- app_assoc in H.
    rewrite (check_string_enc _ _ _ _ H) by (by apply wf_str_64). cbn [rbind].
    apply suffix_at_app in H.
    unfold marshal_slice at 1 in H. rewrite <- !app_assoc in H.
    assert (Hm : max_slice_len < 2 ^ 63) by (by vm_compute).
    pose proof (marshal_locks_min e.2) as Hmin.
    unfold min_lock_size.
    rewrite (check_count_enc _ _ _ _ H).
    2:{ change (2 ^ 64) with (2 * 2 ^ 63). lia. }
    2:{ rewrite blen_app. lia. }
    cbn [rbind]. apply suffix_at_app in H.
    rewrite (check_locks_loop_enc _ _ _ _ _ H Hls).
    2:{ eapply fuel_for_enough; [exact H|]. lia. }
    cbn [rbind]. apply suffix_at_app in H.
    rewrite (check_terminator_enc _ _ _ H). cbn [rbind].
    apply suffix_at_app in H. rewrite terminator_blen in H.
    replace (N.of_nat (S (length es)) - 1) with (N.of_nat (length es)) by lia.
    rewrite (IH _ _ _ H) by (done || cbn in Hf; lia).
    cbn [map concat]. rewrite blen_app, marshal_entry_blen, marshal_slice_blen.
    f_equal. lia.
Qed.

Lemma check_encoding_r_encode es :
  N.of_nat (length es) < 2 ^ 63 -> Forall wf_entry es ->
  check_encoding_r (encode es) = Ok tt.
Proof.
  intros Hlen Hwf.
  pose proof (suffix_at_0 (encode es)) as H. unfold encode at 2 in H.
  unfold check_encoding_r, min_entry_size.
  pose proof (marshal_entries_min es) as Hmin.
  rewrite (check_count_enc _ _ _ _ H).
  2:{ change (2 ^ 64) with (2 * 2 ^ 63). lia. }
  2:{ rewrite blen_app. lia. }
  cbn [rbind]. apply suffix_at_app in H.
  rewrite (check_entries_loop_enc _ _ _ _ _ H Hwf).
  2:{ eapply fuel_for_enough; [exact H|]. lia. }
  cbn [rbind]. apply suffix_at_app in H.
  rewrite <- (app_nil_r terminator) in H.
  rewrite (check_terminator_enc _ _ _ H). cbn [rbind].
  apply suffix_at_app in H. pose proof (suffix_at_blen _ _ _ H) as Hl.
  rewrite terminator_blen, blen_nil in Hl.
  unfold verify_marshal. by replace (_ =? _) with true by lia.
Qed.

(** * Round trip *)

Lemma decode_i_encode es :
  N.of_nat (length es) < 2 ^ 63 -> Forall wf_entry es ->
  exists a, decode_i (encode es) = (DecOk (to_map es), a)
            /\ a <= N.of_nat (length es) + sum_locks es.
Proof.
  intros Hlen Hwf. unfold decode_i. rewrite check_encoding_r_encode by done.
  by apply benc_decode_i_encode.
Qed.

Lemma decode_encode es :
  N.of_nat (length es) < 2 ^ 63 -> Forall wf_entry es ->
  decode (encode es) = DecOk (to_map es).
Proof.
  intros Hlen Hwf. unfold decode.
  destruct (decode_i_encode es Hlen Hwf) as (a & -> & _). done.
Qed.

(** The order of distinct entries does not matter for the map they denote. *)
Lemma to_map_snoc es e : to_map (es ++ [e]) = <[e.1 := e.2]> (to_map es).
Proof. unfold to_map. by rewrite foldl_app. Qed.

Lemma to_map_list_to_map es : to_map es = list_to_map (reverse es).
Proof.
  induction es as [|e es IH] using rev_ind; [done|].
  rewrite to_map_snoc, reverse_snoc, IH. by destruct e.
Qed.

Lemma to_map_perm es es' : NoDup es.*1 -> es' ≡ₚ es -> to_map es' = to_map es.
Proof.
  intros Hnd Hp. rewrite !to_map_list_to_map.
  apply list_to_map_proper.
  - rewrite fmap_reverse, reverse_Permutation. by rewrite Hp.
  - by rewrite !reverse_Permutation.
Qed.

Lemma wf_perm es es' : wf es -> es' ≡ₚ es -> wf es'.
Proof.
  intros (Hnd & Hlen & Hall) Hp. split_and!.
  - by rewrite Hp.
  - by rewrite Hp.
  - by rewrite Hp.
Qed.

Theorem roundtrip es es' : wf es -> es' ≡ₚ es -> decode (encode es') = DecOk (to_map es).
Proof.
  intros Hwf Hp. pose proof (wf_perm _ _ Hwf Hp) as (Hnd' & Hlen' & Hall').
  rewrite decode_encode by done. f_equal. apply to_map_perm; [|done]. by destruct Hwf.
Qed.

(** The encoding determines nothing but the map and the order: equal maps written in
    the same order give equal files, and the file is never empty. *)
Lemma encode_nonempty es : encode es <> [].
Proof.
  unfold encode. pose proof (marshal_uint_length (N.of_nat (length es))) as H.
  destruct (marshal_uint (N.of_nat (length es))); [cbn in H; lia | done].
Qed.

(** * The state file across rewrites *)

Lemma file_write_spec f es : file_write f es = Fs (encode es) None.
Proof. by destruct f. Qed.

Lemma file_writes_snoc f ws es : file_writes f (ws ++ [es]) = Fs (encode es) None.
Proof. unfold file_writes. rewrite foldl_app. cbn [foldl]. apply file_write_spec. Qed.

Lemma file_read_encode es : file_read (Fs (encode es) None) = decode (encode es).
Proof.
  unfold file_read. cbn [state_file]. pose proof (encode_nonempty es).
  by destruct (encode es).
Qed.

Theorem rewrite_reads_last f ws es es' :
  wf es -> es' ≡ₚ es ->
  state_file (file_writes f (ws ++ [es'])) = encode es'
  /\ file_read (file_writes f (ws ++ [es'])) = DecOk (to_map es).
Proof.
  intros Hwf Hp. rewrite file_writes_snoc. split; [done|].
  rewrite file_read_encode. by apply roundtrip.
Qed.

Lemma file_read_new : file_read fs_new = DecOk ∅.
Proof. done. Qed.

(** * Statements in prefix/suffix form (for Properties/C17.v) *)

Lemma suffix_at_pre pre x : suffix_at (pre ++ x) (blen pre) x.
Proof.
  split; [rewrite blen_app; lia|]. unfold tail_at. rewrite to_nat_blen. apply drop_app.
Qed.

Theorem varint_roundtrip v :
  v < 2 ^ 64 ->
  (forall pre post,
      unmarshal_uint (pre ++ marshal_uint v ++ post) (blen pre) = Ok (blen pre + size_uint v, v))
  /\ size_uint v = blen (marshal_uint v)
  /\ 1 <= size_uint v <= 10.
Proof.
  intros Hv. split; [|split].
  - intros pre post. rewrite size_uint_spec.
    apply (unmarshal_uint_enc _ _ _ post); [apply suffix_at_pre | done].
  - apply size_uint_spec.
  - rewrite size_uint_spec. apply marshal_uint_length.
Qed.

Theorem int32_roundtrip v :
  (- 2 ^ 31 <= v < 2 ^ 31)%Z ->
  (forall pre post,
      unmarshal_int32 (pre ++ marshal_int32 v ++ post) (blen pre) = Ok (blen pre + 4, v))
  /\ blen (marshal_int32 v) = 4.
Proof.
  intros Hv. split; [|done]. intros pre post.
  apply (unmarshal_int32_enc _ _ _ post); [apply suffix_at_pre | done].
Qed.
