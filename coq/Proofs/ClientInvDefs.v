(** Invariants of Mclient and the statements of C19 that rest on them. Definitions and statements only
    ([T_*] : Prop); proofs in Proofs/ClientBasic.v, Proofs/ClientStop.v, Proofs/ClientAlive.v. *)
From Ldlm Require Import Model.Base Model.Err Model.Seq Model.Client Gen.Consts Proofs.ClientSrvDefs.
Local Open Scope Z_scope.

(** the goroutine of hold i exists and has not returned *)
Definition running (st : cstate) (i : nat) : Prop :=
  ∃ r, ren_of st i = Some r ∧ r_pc r ≠ PExited.

(** ** Structure (every schedule) *)
Record basic (cc : ccfg) (st : cstate) : Prop := Basic {
  b_noauto : cc_noauto cc = true → cs_map st = ∅;
  b_waiters : st_waiters (cs_srv st) = [];
  b_twf : timers_wf (cs_srv st);
  (* a granted hold carries the key the model drew for it; only granted holds with a lock timeout have a renewer *)
  b_key : ∀ j h, cs_holds st !! j = Some h → h_locked h = true → h_key h = key_of j;
  b_ren : ∀ j h, cs_holds st !! j = Some h → h_ren h ≠ None → h_locked h = true ∧ h_T h ≠ 0;
  (* renewMap entries: filed under the hold's name; the hold is granted, not unlocked, has a timeout and a renewer *)
  b_map : ∀ name i, cs_map st !! name = Some i →
            ∃ h, cs_holds st !! i = Some h ∧ h_name h = name ∧ h_locked h = true ∧ h_unl h = false ∧ h_T h ≠ 0 ∧ h_ren h ≠ None
}.

(** what never changes about a hold once it is in the table *)
Definition static (h : hold) : str * str * Z * bool := (h_name h, h_key h, h_T h, h_locked h).

(** ** No two concurrent holds of one name of which one has a renewer (outside F-RENEWMAP) *)
Definition no_twin (st : cstate) : Prop :=
  ∀ i i' h h', i ≠ i' → cs_holds st !! i = Some h → cs_holds st !! i' = Some h' →
    h_name h = h_name h' → h_locked h = true → h_locked h' = true → h_unl h = false → h_unl h' = false →
    h_T h = 0 ∧ h_T h' = 0.

(** ** The lease invariant of a renewed hold *)
Definition lease_inv (st : cstate) (h : hold) (r : renewer) : Prop :=
  let D := r_eff r + h_T h * second in
  (∃ t, tmr (cs_srv st) (h_name h) (h_key h) = Some t ∧ tm_deadline t = D) ∧
  hld (cs_srv st) (h_name h) (h_key h) ∧
  now st < D ∧
  match r_pc r with
  | PSleep u => u < D                                         (* the next renew instant lies before the deadline *)
  | PInRenew _ None => True
  | PInRenew _ (Some AOk) => now st - r_eff r < slack (h_T h)
  | PInRenew _ (Some (AErr _)) => False
  | PExited => False
  end.

(** ** Statements *)

(** every schedule keeps the structure *)
Definition T_basic : Prop := ∀ cc sched, basic cc (run cc sched).

(** the out-of-sync panic happens only under the signature of F-RENEWMAP; outside it the no-twin invariant holds *)
Definition T_no_twin : Prop := ∀ cc sched,
  cc_noauto cc = false → wf_sched cc sched = true → excluded_renewmap cc sched = false →
  no_twin (run cc sched) ∧ ∀ j, cs_crashed (run cc sched) ≠ Some (CrOutOfSync j).

(** C19_alive *)
Definition T_alive : Prop := ∀ cc sched j h,
  cc_noauto cc = false → wf_sched cc sched = true → excluded_renewmap cc sched = false →
  timely cc j sched = true →
  let st := run cc sched in
  cs_holds st !! j = Some h → h_locked h = true → client_MinRenewSeconds < h_T h →
  h_unl h = false → cs_closed st = false →
  (* the renewer of the hold is never the one that panics *)
  cs_crashed st ≠ Some (CrRenewFailed j) ∧ cs_crashed st ≠ Some (CrSendClosed j) ∧
  (* while the client is alive the lease is armed, its deadline lies after the next renew instant, the hold occupies the lock *)
  (cs_crashed st = None →
     ∃ r, h_ren h = Some r ∧ lease_inv st h r ∧ lease_ok st j = true ∧ held st j = true).

(** C19_stop outside F-STOPDROP *)
Definition T_stop : Prop := ∀ cc sched j,
  wf_sched cc sched = true → excluded_stopdrop cc sched = false →
  p_stop j (cs_trace (run cc sched)) = true ∧
  (* and the renewer of an unlocked hold has returned *)
  (∀ h, cs_crashed (run cc sched) = None → cs_holds (run cc sched) !! j = Some h → h_unl h = true → ¬ running (run cc sched) j).
