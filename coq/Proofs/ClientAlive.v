(** Mclient: C19_alive ([T_alive], Proofs/ClientInvDefs.v). With auto-renew on, outside F-RENEWMAP and API misuse, and
    as long as virtual time is never advanced beyond the slack while a Renew of hold j is in flight ([timely]), the
    renewer of a granted, not unlocked hold j with a lock timeout above MinRenewSeconds never panics and keeps the
    lease armed ([lease_inv]).

    The proof is an invariant over the run ([run_inv]); the library is Proofs/ClientBasic.v. The server is used only
    through [srv_facts_hold]. An Unlock run in steps (IUnlockBegin / IUnlockSend / IUnlockEnd) gives the hold up when
    it BEGINS ([h_unl], [P_unlock_begin]); its later steps concern a hold that is not the tracked one
    ([P_unlock_send], [P_unlock_end]). *)
From Coq Require Import Lia ZifyBool ZifyNat ZifyN.
From Ldlm Require Import Model.Base Model.Err Model.Seq Model.Client Gen.Consts
  Proofs.ClientSrvDefs Proofs.ClientSrv Proofs.ClientInvDefs Proofs.ClientP Proofs.ClientBasic.
From RecordUpdate Require Import RecordSet.
Import RecordSetNotations.
Local Open Scope Z_scope.

Lemma second_pos : 0 < second.
Proof. reflexivity. Qed.

Local Opaque second srv_event interval.

(** * Arithmetic of the interval, in the products the invariant speaks about *)
Lemma ts_facts T : client_MinRenewSeconds < T →
  0 < interval T * second ∧ interval T * second < T * second ∧ slack T = T * second - interval T * second ∧ 0 < T.
Proof.
  intros H. pose proof (interval_bounds T H) as [H1 H2]. pose proof second_pos as Hs.
  unfold slack. split_and!; [nia|nia|ring|lia].
Qed.

(** * The lease invariant over the static fields *)
Definition lease_at (st : cstate) (n k : str) (T : Z) (r : renewer) : Prop :=
  let D := r_eff r + T * second in
  (∃ t, tmr (cs_srv st) n k = Some t ∧ tm_deadline t = D) ∧
  hld (cs_srv st) n k ∧
  now st < D ∧
  match r_pc r with
  | PSleep u => u < D
  | PInRenew _ None => True
  | PInRenew _ (Some AOk) => now st - r_eff r < slack T
  | PInRenew _ (Some (AErr _)) => False
  | PExited => False
  end.

Lemma lease_inv_at st h r : lease_inv st h r = lease_at st (h_name h) (h_key h) (h_T h) r.
Proof. reflexivity. Qed.

(** hold j has static fields n k T and renewer r *)
Definition LJ (st : cstate) (j : nat) (n k : str) (T : Z) (r : renewer) : Prop :=
  ∃ h, cs_holds st !! j = Some h ∧ h_name h = n ∧ h_key h = k ∧ h_T h = T ∧ h_ren h = Some r.

Lemma LJ_ren_of st j n k T r : LJ st j n k T r → ren_of st j = Some r.
Proof. intros (h & Hh & _ & _ & _ & Hr). unfold ren_of. by rewrite Hh. Qed.

Lemma LJ_holds_eq st st' j n k T r : cs_holds st' !! j = cs_holds st !! j → LJ st j n k T r → LJ st' j n k T r.
Proof. intros E (h & Hh & H). exists h. by rewrite E. Qed.

Lemma LJ_set_ren i f st j n k T r :
  LJ st j n k T r → LJ (set_ren i f st) j n k T (if decide (i = j) then f r else r).
Proof.
  intros (h & Hh & H1 & H2 & H3 & Hr). unfold LJ. rewrite set_ren_holds. destruct (decide (i = j)) as [->|].
  - rewrite Hh. cbn. eexists. split; [reflexivity|]. cbn. rewrite Hr. done.
  - exists h. done.
Qed.

Lemma LJ_set_ren_j f st j n k T r r' : LJ st j n k T r → f r = r' → LJ (set_ren j f st) j n k T r'.
Proof. intros H <-. pose proof (LJ_set_ren j f st j n k T r H) as H'. by rewrite decide_True in H'. Qed.

Lemma LJ_frame adv (J : nat → Prop) st st' j n k T r : ren_frame adv J st st' → ¬ J j → LJ st j n k T r → LJ st' j n k T r.
Proof. intros F Hj. apply LJ_holds_eq. by apply (rf_others _ _ _ _ F). Qed.

(** what [lease_at] reads of the state *)
Lemma lease_at_move st st' n k T r :
  tmr (cs_srv st') n k = tmr (cs_srv st) n k → (hld (cs_srv st) n k → hld (cs_srv st') n k) →
  now st' < r_eff r + T * second →
  (∀ u, r_pc r = PInRenew u (Some AOk) → now st' - r_eff r < slack T) →
  lease_at st n k T r → lease_at st' n k T r.
Proof.
  intros E1 E2 E3 E4 (L1 & L2 & L3 & L4). unfold lease_at. rewrite E1. split_and!; auto.
  destruct (r_pc r) as [u|u [[|e]|]|] eqn:Hp; auto. by apply (E4 u).
Qed.

Lemma lease_at_keep st st' n k T r :
  tmr (cs_srv st') n k = tmr (cs_srv st) n k → (hld (cs_srv st) n k → hld (cs_srv st') n k) → now st' = now st →
  lease_at st n k T r → lease_at st' n k T r.
Proof.
  intros E1 E2 E3 L. pose proof L as (L1 & L2 & L3 & L4). apply (lease_at_move st); auto; rewrite E3; auto.
  intros u Hp. by rewrite Hp in L4.
Qed.

Lemma lease_at_srv st st' n k T r : cs_srv st' = cs_srv st → lease_at st n k T r → lease_at st' n k T r.
Proof. intros E. apply lease_at_keep; unfold now; rewrite E; auto. Qed.

Lemma lease_at_arm st n k T r a : lease_at st n k T r → lease_at st n k T (r <| r_arm := a |>).
Proof. done. Qed.

Lemma lease_at_running st n k T r : lease_at st n k T r → r_pc r ≠ PExited.
Proof. intros (_ & _ & _ & L) E. by rewrite E in L. Qed.

(** * What a server event of another key keeps *)
Definition srv_keep (n k : str) (s s' : sstate) : Prop :=
  tmr s' n k = tmr s n k ∧ (hld s n k → hld s' n k) ∧ st_now s' = st_now s.

Lemma srv_keep_refl n k s : srv_keep n k s s.
Proof. done. Qed.

Lemma lease_at_srv_keep st st' n k T r : srv_keep n k (cs_srv st) (cs_srv st') → lease_at st n k T r → lease_at st' n k T r.
Proof. intros (E1 & E2 & E3). by apply lease_at_keep. Qed.

(** * The renew loop of another hold: the server keeps (n, k) *)

Definition other_key (st : cstate) (i : nat) (n k : str) : Prop :=
  ∀ h, cs_holds st !! i = Some h → h_ren h ≠ None → (n, k) ≠ (h_name h, h_key h).

Lemma other_key_of cc st i j n : basic cc st → i ≠ j → other_key st i n (key_of j).
Proof.
  intros B Hne h Hh Hr [= _ E]. destruct (b_ren _ _ B _ _ Hh Hr) as [Hl _].
  rewrite (b_key _ _ B _ _ Hh Hl) in E. apply key_of_inj in E. congruence.
Qed.

Lemma ren_send_keep i st n k : other_key st i n k → srv_keep n k (cs_srv st) (cs_srv (ren_send i st)).
Proof.
  intros Hk. destruct (ren_send_srv i st) as [->|(h & r & u & Hh & Hr & Hp & Hc & ->)]; [done|].
  destruct (srv_event _ _) as [s' o] eqn:Hs. apply (sf_renew srv_facts_hold) in Hs as (F1 & F2 & F3 & F4 & F5 & _).
  cbn. split_and!; auto. apply F4, (Hk h); [done|congruence].
Qed.

Lemma ren_send_on_srv i st : cs_srv (ren_send_on i st) = cs_srv (ren_send i st).
Proof. unfold ren_send_on. destruct (arm_of _ _) as [[]|]; rewrite ?set_arm_srv, ?ren_recv_srv; done. Qed.

Lemma ren_send_on_keep i st n k : other_key st i n k → srv_keep n k (cs_srv st) (cs_srv (ren_send_on i st)).
Proof. rewrite ren_send_on_srv. apply ren_send_keep. Qed.

Lemma other_key_set_ren i f st n k : other_key st i n k → other_key (set_ren i f st) i n k.
Proof.
  intros Hk h. rewrite set_ren_holds, decide_True by done. destruct (cs_holds st !! i) as [h0|] eqn:E; [|done].
  cbn. intros [= <-]. cbn. intros Hr. apply (Hk h0); [done|]. by destruct (h_ren h0).
Qed.

Lemma ren_fire_keep i st n k : other_key st i n k → srv_keep n k (cs_srv st) (cs_srv (ren_fire i st)).
Proof.
  intros Hk. unfold ren_fire. set (st0 := set_ren i _ st).
  assert (cs_srv st0 = cs_srv st) as E0 by apply set_ren_srv.
  destruct (arm_of st0 i) as [[]|]; rewrite ?set_arm_srv, ?E0; try done; rewrite <- E0;
    apply ren_send_on_keep, other_key_set_ren, Hk.
Qed.

Lemma do_step_keep i st n k : other_key st i n k → srv_keep n k (cs_srv st) (cs_srv (do_step i st)).
Proof.
  intros Hk. unfold do_step. destruct (ren_of st i) as [r|]; [|done].
  destruct (r_pc r) as [|u [a|]|]; try done; [by rewrite ren_recv_srv|by apply ren_send_on_keep].
Qed.

(** * The renew loop of hold j itself *)

Lemma arm_of_LJ st j n k T r : LJ st j n k T r → arm_of st j = r_arm r.
Proof. intros H. unfold arm_of. by rewrite (LJ_ren_of _ _ _ _ _ _ H). Qed.

Lemma LJ_emit e st j n k T r : LJ st j n k T r → LJ (emit e st) j n k T r.
Proof. by apply LJ_holds_eq. Qed.

Lemma ren_send_j st j n k T r u :
  LJ st j n k T r → r_pc r = PInRenew u None → cs_closed st = false → lease_at st n k T r → 0 < T →
  let st' := ren_send j st in
  let r' := Renewer (PInRenew u (Some AOk)) (r_arm r) (now st) (r_stopreq r) in
  LJ st' j n k T r' ∧
  (∃ t', tmr (cs_srv st') n k = Some t' ∧ tm_deadline t' = now st + T * second) ∧
  hld (cs_srv st') n k ∧ now st' = now st ∧ cs_crashed st' = cs_crashed st.
Proof.
  intros HL Hp Hc ((t & Ht & _) & Hh & _) HT st' r'.
  assert (cs_crashed st' = cs_crashed st) as Ecr by apply ren_send_crashed.
  split_and!; [| | | |done]; clear Ecr; unfold st', ren_send.
  all: pose proof HL as (h & Hlk & <- & <- & <- & Hr); rewrite Hlk, Hr, Hp, Hc.
  all: destruct (srv_event _ _) as [s' o] eqn:Hs;
    apply (sf_renew srv_facts_hold) in Hs as (F1 & F2 & F3 & F4 & F5 & F6); destruct (F6 _ Ht HT) as [-> Ht'].
  - apply LJ_emit. eapply LJ_set_ren_j; [|reflexivity]. by apply (LJ_holds_eq st).
  - cbn. rewrite set_ren_srv. cbn. eexists. split; [exact Ht'|]. done.
  - cbn. rewrite set_ren_srv. cbn. auto.
  - unfold now. cbn. rewrite set_ren_srv. cbn. done.
Qed.

Lemma ren_recv_j st j n k T r u :
  LJ st j n k T r → r_pc r = PInRenew u (Some AOk) →
  let st' := ren_recv j st in
  LJ st' j n k T (Renewer (PSleep (now st + interval T * second)) (r_arm r) (r_eff r) (r_stopreq r)) ∧
  cs_srv st' = cs_srv st ∧ cs_crashed st' = cs_crashed st.
Proof.
  intros HL Hp st'. split; [|split; [apply ren_recv_srv|]]; unfold st', ren_recv;
    pose proof HL as (h & Hlk & <- & <- & <- & Hr); rewrite Hlk, Hr, Hp.
  - eapply LJ_set_ren_j; [exact HL|reflexivity].
  - apply set_ren_crashed.
Qed.

(** the Renew of hold j takes effect, and the answer comes back unless the interposer keeps it *)
Lemma ren_send_on_j st j n k T r u :
  client_MinRenewSeconds < T →
  LJ st j n k T r → r_pc r = PInRenew u None → cs_closed st = false → lease_at st n k T r →
  let st' := ren_send_on j st in
  ∃ r', LJ st' j n k T r' ∧ lease_at st' n k T r' ∧ cs_crashed st' = cs_crashed st ∧ now st' = now st ∧
    ((r_arm r = Some StPost ∧ r' = Renewer (PInRenew u (Some AOk)) None (now st) (r_stopreq r)) ∨
     (r_arm r ≠ Some StPost ∧ r' = Renewer (PSleep (now st + interval T * second)) (r_arm r) (now st) (r_stopreq r))).
Proof.
  intros HT HL Hp Hc L st'. destruct (ts_facts T HT) as (A1 & A2 & A3 & A4).
  destruct (ren_send_j st j n k T r u HL Hp Hc L A4) as (HL1 & (t' & Ht' & Hd') & Hh1 & Hn1 & Hc1).
  unfold st', ren_send_on. set (st1 := ren_send j st) in *. set (r1 := Renewer _ _ _ _) in HL1.
  rewrite (arm_of_LJ _ _ _ _ _ _ HL1). change (r_arm r1) with (r_arm r).
  assert (r_arm r = Some StPost ∨ r_arm r ≠ Some StPost) as [Ha|Ha].
  { destruct (r_arm r) as [[]|]; auto. }
  - rewrite Ha. eexists. split_and!.
    + eapply LJ_set_ren_j; [exact HL1|reflexivity].
    + apply (lease_at_srv st1); [apply set_arm_srv|]. unfold lease_at. cbn. rewrite Ht'. split_and!; eauto; lia.
    + by rewrite set_arm_crashed.
    + unfold now. by rewrite set_arm_srv.
    + left. done.
  - destruct (ren_recv_j st1 j n k T r1 u HL1 eq_refl) as (HL2 & Hs2 & Hc2).
    assert (ren_recv j st1 = match r_arm r with Some StPost => set_arm j None st1 | _ => ren_recv j st1 end) as <-.
    { destruct (r_arm r) as [[]|]; done. }
    eexists. split_and!.
    + exact HL2.
    + apply (lease_at_srv st1); [done|]. unfold lease_at. cbn. rewrite Ht', Hn1. split_and!; eauto; lia.
    + congruence.
    + unfold now. rewrite Hs2. done.
    + right. rewrite Hn1. done.
Qed.

(** the answer of a Renew of hold j that succeeded reaches the goroutine *)
Lemma ren_recv_ok_j st j n k T r u :
  client_MinRenewSeconds < T →
  LJ st j n k T r → r_pc r = PInRenew u (Some AOk) → lease_at st n k T r →
  let st' := ren_recv j st in
  ∃ r', LJ st' j n k T r' ∧ lease_at st' n k T r' ∧ cs_crashed st' = cs_crashed st ∧ now st' = now st.
Proof.
  intros HT HL Hp L st'. destruct (ts_facts T HT) as (A1 & A2 & A3 & A4).
  destruct (ren_recv_j st j n k T r u HL Hp) as (HL2 & Hs2 & Hc2).
  eexists. split_and!; [exact HL2| |done|unfold now, st'; by rewrite Hs2].
  apply (lease_at_srv st); [done|]. destruct L as (L1 & L2 & L3 & L4). rewrite Hp in L4.
  unfold lease_at. cbn. split_and!; auto. lia.
Qed.

Lemma do_step_j st j n k T r :
  client_MinRenewSeconds < T → LJ st j n k T r → cs_closed st = false → lease_at st n k T r →
  let st' := do_step j st in
  ∃ r', LJ st' j n k T r' ∧ lease_at st' n k T r' ∧ cs_crashed st' = cs_crashed st.
Proof.
  intros HT HL Hc L st'. unfold st', do_step. rewrite (LJ_ren_of _ _ _ _ _ _ HL).
  destruct (r_pc r) as [v|u [[|e]|]|] eqn:Hp.
  - eauto.
  - destruct (ren_recv_ok_j st j n k T r u HT HL Hp L) as (r' & ? & ? & ? & ?). eauto.
  - destruct L as (_ & _ & _ & L). by rewrite Hp in L.
  - destruct (ren_send_on_j st j n k T r u HT HL Hp Hc L) as (r' & ? & ? & ? & ?). eauto.
  - eauto.
Qed.

(** the timer of hold j's renewer fires at the current instant [now st] (>= u), within an advance to [target] *)
Lemma ren_fire_j st j n k T r u target :
  client_MinRenewSeconds < T →
  LJ st j n k T r → r_pc r = PSleep u → cs_closed st = false → lease_at st n k T r →
  u ≤ now st → now st ≤ target → advance_ok_ren T target r = true →
  let st' := ren_fire j st in
  ∃ r', LJ st' j n k T r' ∧ lease_at st' n k T r' ∧ cs_crashed st' = cs_crashed st ∧ now st' = now st ∧
        advance_ok_ren T target r' = true.
Proof.
  intros HT HL Hp Hc L Hu Ht Hok st'. destruct (ts_facts T HT) as (A1 & A2 & A3 & A4).
  unfold st', ren_fire. set (st0 := set_ren j _ st).
  set (r0 := Renewer (PInRenew (now st) None) (r_arm r) (r_eff r) (r_stopreq r)).
  assert (LJ st0 j n k T r0) as HL0.
  { eapply LJ_set_ren_j; [exact HL|reflexivity]. }
  assert (lease_at st0 n k T r0) as L0.
  { apply (lease_at_srv st); [apply set_ren_srv|]. destruct L as (L1 & L2 & L3 & L4). unfold lease_at. cbn. done. }
  assert (cs_crashed st0 = cs_crashed st) as Hc0 by apply set_ren_crashed.
  assert (now st0 = now st) as Hn0 by apply set_ren_now.
  assert (cs_closed st0 = false) as Hcl0 by (unfold st0; by rewrite set_ren_closed).
  rewrite (arm_of_LJ _ _ _ _ _ _ HL0). change (r_arm r0) with (r_arm r).
  unfold advance_ok_ren in Hok. rewrite Hp in Hok.
  assert (∀ a, match r_arm r with Some StPre | Some StBoth => True | _ => False end →
    ∃ r', LJ (set_arm j a st0) j n k T r' ∧ lease_at (set_arm j a st0) n k T r' ∧ cs_crashed (set_arm j a st0) = cs_crashed st ∧
          now (set_arm j a st0) = now st ∧ advance_ok_ren T target r' = true) as Harm.
  { intros a Ha. eexists. split_and!.
    - eapply LJ_set_ren_j; [exact HL0|reflexivity].
    - apply (lease_at_srv st0); [apply set_arm_srv|]. exact L0.
    - by rewrite set_arm_crashed.
    - unfold now. by rewrite set_arm_srv.
    - unfold advance_ok_ren. cbn. rewrite A3 in *. destruct (r_arm r) as [[]|]; try done; lia. }
  assert (match r_arm r with Some StPre | Some StBoth => False | _ => True end →
    ∃ r', LJ (ren_send_on j st0) j n k T r' ∧ lease_at (ren_send_on j st0) n k T r' ∧
          cs_crashed (ren_send_on j st0) = cs_crashed st ∧
          now (ren_send_on j st0) = now st ∧ advance_ok_ren T target r' = true) as Hsend.
  { intros Ha. destruct (ren_send_on_j st0 j n k T r0 (now st) HT HL0 eq_refl Hcl0 L0) as (r' & H1 & H2 & H3 & H4 & H5).
    exists r'. split_and!; try congruence. change (r_arm r0) with (r_arm r) in H5. rewrite Hn0 in H5.
    destruct H5 as [[Ea ->]|[Ea ->]]; unfold advance_ok_ren; cbn.
    - rewrite Ea in Hok. rewrite A3 in *. lia.
    - destruct (r_arm r) as [[]|]; done. }
  destruct (r_arm r) as [[]|]; auto.
Qed.

(** * Virtual time *)

(** how far time may go without reaching the deadline of hold j's lease *)
Lemma adv_bound st n k T r target t :
  client_MinRenewSeconds < T → lease_at st n k T r → advance_ok_ren T target r = true → t ≤ target →
  (∀ v, r_pc r = PSleep v → t ≤ Z.max v (now st)) →
  t < r_eff r + T * second ∧ (∀ u, r_pc r = PInRenew u (Some AOk) → t - r_eff r < slack T).
Proof.
  intros HT (L1 & L2 & L3 & L4) Hok Ht Hv. destruct (ts_facts T HT) as (A1 & A2 & A3 & A4).
  unfold advance_ok_ren in Hok. rewrite A3 in *.
  destruct (r_pc r) as [v|u [[|e]|]|] eqn:Hp; try done.
  - specialize (Hv v eq_refl). split; [lia|done].
  - split; [lia|]. intros _ _. lia.
  - split; [lia|done].
Qed.

Lemma srv_advance_j cc st n k T r t :
  basic cc st → lease_at st n k T r → now st ≤ t → t < r_eff r + T * second →
  (∀ u, r_pc r = PInRenew u (Some AOk) → t - r_eff r < slack T) →
  lease_at (srv_advance_to t st) n k T r ∧ now (srv_advance_to t st) = t.
Proof.
  intros B L Hn Ht Hs. destruct (srv_advance_to_facts t st (b_waiters _ _ B)) as (F1 & F2 & F3).
  replace (Z.max t (now st)) with t in * by lia. split; [|done].
  pose proof L as ((tm & Htm & Hd) & L2 & L3 & L4).
  apply (lease_at_move st); try rewrite F1; auto.
  - rewrite Htm. apply F2; [done|lia].
  - apply (F3 n k tm); [apply B|done|lia].
Qed.

Definition AInv (cc : ccfg) (j : nat) (n : str) (T target : Z) (st : cstate) : Prop :=
  basic cc st ∧ cs_closed st = false ∧
  cs_crashed st ≠ Some (CrRenewFailed j) ∧ cs_crashed st ≠ Some (CrSendClosed j) ∧
  (cs_crashed st = None →
     ∃ r, LJ st j n (key_of j) T r ∧ lease_at st n (key_of j) T r ∧ advance_ok_ren T target r = true ∧ now st ≤ target).

Lemma AInv_final cc j n T target st r :
  client_MinRenewSeconds < T → basic cc st → cs_closed st = false → cs_crashed st = None →
  LJ st j n (key_of j) T r → lease_at st n (key_of j) T r → advance_ok_ren T target r = true → now st ≤ target →
  (∀ v, r_pc r = PSleep v → target ≤ Z.max v (now st)) →
  AInv cc j n T target (srv_advance_to target st).
Proof.
  intros HT B Hcl Hcr HL L Hok Hn Hv.
  destruct (adv_bound st n (key_of j) T r target target HT L Hok ltac:(lia) Hv) as [D1 D2].
  destruct (srv_advance_j cc st n (key_of j) T r target B L Hn D1 D2) as [L' N'].
  split_and!.
  - eapply basic_frame; [apply (srv_advance_to_frame (λ _, False))|done].
  - done.
  - rewrite srv_advance_to_crashed. congruence.
  - rewrite srv_advance_to_crashed. congruence.
  - intros _. exists r. split_and!; [by apply (LJ_holds_eq st)|done|done|lia].
Qed.

Lemma AInv_iter cc j n T target st r i u :
  client_MinRenewSeconds < T → basic cc st → cs_closed st = false → cs_crashed st = None →
  LJ st j n (key_of j) T r → lease_at st n (key_of j) T r → advance_ok_ren T target r = true → now st ≤ target →
  next_fire st = Some (i, u) → u ≤ target →
  AInv cc j n T target (ren_fire i (srv_advance_to (Z.max u (now st)) st)).
Proof.
  intros HT B Hcl Hcr HL L Hok Hn Hnf Hu.
  set (t1 := Z.max u (now st)). set (st1 := srv_advance_to t1 st).
  assert (∀ v, r_pc r = PSleep v → t1 ≤ Z.max v (now st)) as Hv.
  { intros v Hp. destruct HL as (h & Hh & _ & _ & _ & Hr). pose proof (next_fire_min _ _ _ _ _ _ _ Hnf Hh Hr Hp). lia. }
  destruct (adv_bound st n (key_of j) T r target t1 HT L Hok ltac:(lia) Hv) as [D1 D2].
  destruct (srv_advance_j cc st n (key_of j) T r t1 B L ltac:(lia) D1 D2) as [L1 N1]. fold st1 in L1, N1.
  assert (basic cc st1) as B1 by (eapply basic_frame; [apply (srv_advance_to_frame (λ _, False))|done]).
  assert (LJ st1 j n (key_of j) T r) as HL1 by (by apply (LJ_holds_eq st)).
  assert (cs_closed st1 = false) as Hcl1 by done.
  assert (cs_crashed st1 = None) as Hcr1 by done.
  destruct (next_fire_some _ _ _ Hnf) as (hi & ri & Hhi & Hri & Hpi).
  assert (∀ r0, ren_of st1 i = Some r0 → r_pc r0 ≠ PExited) as Hne.
  { intros r0. unfold ren_of, st1. rewrite srv_advance_to_holds, Hhi. cbn. rewrite Hri. intros [= <-]. congruence. }
  pose proof (ren_fire_frame true i st1 Hne) as F.
  destruct (decide (i = j)) as [->|Hij].
  - assert (r_pc r = PSleep u) as Hp.
    { destruct HL as (h & Hh & _ & _ & _ & Hr). congruence. }
    destruct (ren_fire_j st1 j n (key_of j) T r u target HT HL1 Hp Hcl1 L1 ltac:(lia) ltac:(lia) Hok)
      as (r' & H1 & H2 & H3 & H4 & H5).
    split_and!.
    + by eapply basic_frame.
    + by rewrite (rf_closed _ _ _ _ F).
    + congruence.
    + congruence.
    + intros _. exists r'. split_and!; try done. lia.
  - split_and!.
    + by eapply basic_frame.
    + by rewrite (rf_closed _ _ _ _ F).
    + intros E. apply ren_fire_crashed in E; congruence.
    + intros E. apply ren_fire_crashed in E; congruence.
    + intros _. exists r. split_and!; try done.
      * eapply LJ_frame; [exact F|congruence|done].
      * eapply lease_at_srv_keep; [|exact L1]. eapply ren_fire_keep, other_key_of; done.
      * destruct (ren_fire_keep i st1 n (key_of j) (other_key_of cc st1 i j n B1 Hij)) as (_ & _ & E).
        unfold now in *. lia.
Qed.

Lemma adv_loop_alive cc j n T target : client_MinRenewSeconds < T →
  ∀ fuel st, AInv cc j n T target st → AInv cc j n T target (adv_loop fuel target st).
Proof.
  intros HT. induction fuel as [|fuel IH]; intros st HI; cbn [adv_loop].
  - by destruct (cs_crashed st).
  - destruct (cs_crashed st) eqn:Hcr; [done|].
    pose proof HI as (B & Hcl & _ & _ & HA). rewrite Hcr in HA. destruct (HA eq_refl) as (r & HL & L & Hok & Hn).
    destruct (next_fire st) as [[i u]|] eqn:Hnf.
    + destruct (Z.leb_spec u target) as [Hu|Hu].
      * apply IH. by eapply AInv_iter.
      * eapply AInv_final; try done. intros v Hp. destruct HL as (h & Hh & _ & _ & _ & Hr).
        pose proof (next_fire_min _ _ _ _ _ _ _ Hnf Hh Hr Hp). lia.
    + eapply AInv_final; try done. intros v Hp. destruct HL as (h & Hh & _ & _ & _ & Hr).
      destruct (next_fire_none _ _ _ _ _ Hnf Hh Hr Hp).
Qed.

(** * The invariant, item by item *)

(** a closed client stays closed *)
Lemma step_closed cc st it : cs_closed st = true → cs_closed (step cc st it) = true.
Proof.
  intros Hc. unfold step. destruct (cs_crashed st); [done|]. destruct (cs_parked st && is_main_call it); [done|].
  assert (∀ b name T size, cs_closed (do_acquire cc b name T size st) = true) as Hacq.
  { intros b name T size.
    destruct (do_acquire_cases cc b name T size st) as [[_ ->]|[[_ ->]|(_ & srv' & locked & key & e & rest & Hs & ->)]];
      [done|done|].
    destruct (acquire_answered_fields cc (if b then KLock else KTryLock) (length (cs_holds st)) name T st srv' locked key e)
      as (hn & _ & _ & _ & _ & _ & _ & _ & _ & _ & E & _). cbv zeta in E. congruence. }
  destruct it; auto.
  - rewrite do_unlock_eq. destruct (cs_holds st !! j) as [h|]; [|done]. destruct (h_locked h); [|done]. cbn [negb]. cbv zeta.
    pose proof (rf_closed _ _ _ _ (unlock_stop_frame false cc (h_name h) st)) as E1. cbn in E1.
    destruct (cs_crashed _); [congruence|]. change (cs_closed (emit ?e ?s)) with (cs_closed s).
    destruct (mark_unl_other j (unlock_rpc j h (unlock_stop cc (h_name h) st))) as (_ & _ & _ & -> & _).
    destruct (unlock_rpc_spec j h (unlock_stop cc (h_name h) st)) as (s2 & _ & _ & _ & _ & -> & _). congruence.
  - destruct (do_unlock_begin_other cc j st) as (_ & -> & _). done.
  - by rewrite (rf_closed _ _ _ _ (do_unlock_send_frame false (λ _, False) j st)).
  - destruct (do_unlock_end_other j st) as (_ & _ & _ & _ & -> & _). done.
  - rewrite do_close_eq. cbv zeta. destruct (cs_crashed _); [|done].
    rewrite (rf_closed _ _ _ _ (stop_all_frame false (close_targets st) st)). done.
  - by rewrite (rf_closed _ _ _ _ (do_advance_frame dt st)).
  - by rewrite (rf_closed _ _ _ _ (set_arm_frame false j (Some s) st)).
  - by rewrite (rf_closed _ _ _ _ (do_step_frame false j st)).
  - destruct (do_compete_spec name size st) as (s2 & g & -> & _). done.
Qed.

(** what is known of hold j before an item: the client is alive and open, the hold is granted and not unlocked, its
    renewer keeps the lease *)
Definition Pre (cc : ccfg) (j : nat) (h : hold) (st : cstate) : Prop :=
  basic cc st ∧ cs_crashed st = None ∧ cs_closed st = false ∧ cs_holds st !! j = Some h ∧
  h_locked h = true ∧ h_unl h = false ∧ client_MinRenewSeconds < h_T h ∧
  ∃ r, h_ren h = Some r ∧ lease_at st (h_name h) (key_of j) (h_T h) r.

(** ... and after it: no panic of j's renewer; if alive, the lease is kept — or the hold has been given up *)
Definition Post (j : nat) (n : str) (T : Z) (st' : cstate) : Prop :=
  cs_crashed st' ≠ Some (CrRenewFailed j) ∧ cs_crashed st' ≠ Some (CrSendClosed j) ∧
  (cs_crashed st' = None →
     (∃ r', LJ st' j n (key_of j) T r' ∧ lease_at st' n (key_of j) T r') ∨ cs_closed st' = true ∨
     (∃ h', cs_holds st' !! j = Some h' ∧ h_unl h' = true)).

Lemma Pre_LJ cc j h st r : Pre cc j h st → h_ren h = Some r → LJ st j (h_name h) (key_of j) (h_T h) r.
Proof.
  intros (B & _ & _ & Hh & Hl & _) Hr. exists h. split_and!; try done. by apply (b_key _ _ B).
Qed.

Lemma Post_keep cc j h st st' :
  Pre cc j h st → cs_crashed st' ≠ Some (CrRenewFailed j) → cs_crashed st' ≠ Some (CrSendClosed j) →
  cs_holds st' !! j = cs_holds st !! j → srv_keep (h_name h) (key_of j) (cs_srv st) (cs_srv st') →
  Post j (h_name h) (h_T h) st'.
Proof.
  intros HP C1 C2 Eh Hk. split_and!; try done. intros _. left.
  pose proof HP as (_ & _ & _ & _ & _ & _ & _ & r & Hr & L). exists r. split.
  - eapply LJ_holds_eq; [exact Eh|]. by eapply Pre_LJ.
  - by eapply lease_at_srv_keep.
Qed.

Lemma Post_same cc j h st : Pre cc j h st → Post j (h_name h) (h_T h) st.
Proof.
  intros HP. pose proof HP as (_ & Hc & _). eapply Post_keep; try done; rewrite Hc; done.
Qed.

Lemma P_probe cc j h st : Pre cc j h st → Post j (h_name h) (h_T h) (do_probe st).
Proof. intros HP. pose proof HP as (_ & Hc & _). eapply Post_keep; try done; cbn; rewrite Hc; done. Qed.

Lemma P_compete cc j h name size st : Pre cc j h st → Post j (h_name h) (h_T h) (do_compete name size st).
Proof.
  intros HP. pose proof HP as (B & Hc & _). destruct (do_compete_spec name size st) as (s2 & g & -> & H).
  destruct (H (b_waiters _ _ B)) as (H1 & H2 & H3 & H4 & H5).
  eapply Post_keep; try done; cbn; try (rewrite Hc; done).
  split_and!; [apply H4|apply H5|done]; apply key_of_xkey.
Qed.

Lemma P_hold cc j h i s st : Pre cc j h st → Post j (h_name h) (h_T h) (set_arm i (Some s) st).
Proof.
  intros HP. pose proof HP as (B & Hc & _ & _ & _ & _ & _ & r & Hr & L).
  split_and!; rewrite ?set_arm_crashed, ?Hc; try done. intros _. left.
  eexists. split; [apply LJ_set_ren; by eapply Pre_LJ|].
  apply (lease_at_srv st); [apply set_arm_srv|]. by destruct (decide (i = j)).
Qed.

Lemma P_step cc j h i st : Pre cc j h st → Post j (h_name h) (h_T h) (do_step i st).
Proof.
  intros HP. pose proof HP as (B & Hc & Hcl & Hh & Hl & Hu & HT & r & Hr & L).
  pose proof (Pre_LJ _ _ _ _ _ HP Hr) as HL.
  destruct (decide (i = j)) as [->|Hij].
  - destruct (do_step_j st j _ _ _ r HT HL Hcl L) as (r' & H1 & H2 & H3).
    split_and!; try congruence. intros _. left. eauto.
  - eapply Post_keep; try done.
    + intros E. apply do_step_crashed in E; congruence.
    + intros E. apply do_step_crashed in E; congruence.
    + apply (rf_others _ _ _ _ (do_step_frame false i st)). congruence.
    + eapply do_step_keep, other_key_of; done.
Qed.

Lemma P_advance cc j h dt st : Pre cc j h st → timely_at j st (IAdvance dt) = true → Post j (h_name h) (h_T h) (do_advance dt st).
Proof.
  intros HP Ht. pose proof HP as (B & Hc & Hcl & Hh & Hl & Hu & HT & r & Hr & L).
  pose proof (Pre_LJ _ _ _ _ _ HP Hr) as HL.
  unfold timely_at in Ht. rewrite Hh, Hr in Ht.
  unfold do_advance. cbv zeta.
  assert (AInv cc j (h_name h) (h_T h) (now st + Z.max 0 dt) st) as HI.
  { split_and!; try done; try (rewrite Hc; done). intros _. exists r. split_and!; try done. lia. }
  apply (adv_loop_alive cc j _ _ _ HT (adv_fuel (Z.max 0 dt) st)) in HI as (_ & _ & C1 & C2 & HA).
  split_and!; try done. intros E. left. destruct (HA E) as (r' & ? & ? & _). eauto.
Qed.

Lemma P_acquire cc j h b name T size st : Pre cc j h st → Post j (h_name h) (h_T h) (do_acquire cc b name T size st).
Proof.
  intros HP. pose proof HP as (B & Hc & Hcl & Hh & Hl & Hu & HT & r & Hr & L).
  destruct (do_acquire_cases cc b name T size st) as [[Hx _]|[[_ ->]|(_ & srv' & locked & key & e & rest & Hs & ->)]];
    [congruence| |].
  - eapply Post_keep; try done; cbn; rewrite Hc; done.
  - apply acquire_event_facts in Hs as (F1 & F2 & F3 & F4 & F5 & _).
    destruct (acquire_answered_fields cc (if b then KLock else KTryLock) (length (cs_holds st)) name T st srv' locked key e)
      as (hn & E1 & _ & _ & _ & _ & _ & _ & _ & E8 & _ & _ & _ & E9). cbv zeta in *.
    set (st' := acquire_answered _ _ _ _ _ _ _ _ _ _) in *.
    assert (cs_crashed st' = None ∨ cs_crashed st' = Some (CrOutOfSync (length (cs_holds st)))) as Hcr.
    { destruct (locked && negb (cc_noauto cc) && negb (T =? 0)); [destruct (cs_map st !! name)|];
        destruct E9 as [_ ->]; auto. }
    eapply Post_keep; try done.
    + destruct Hcr as [->| ->]; done.
    + destruct Hcr as [->| ->]; done.
    + rewrite E1, Hh. by apply lookup_app_l_Some.
    + rewrite E8. split_and!; auto. apply F4. intros E. assert (key_of j = key_of (length (cs_holds st))) as E'%key_of_inj by congruence.
      apply lookup_lt_Some in Hh. lia.
Qed.

(** Close *)
Lemma close_targets_nodup cc st : basic cc st → NoDup (close_targets st).
Proof.
  intros B. unfold close_targets. change (map snd ?l) with (snd <$> l).
  apply NoDup_fmap_2_strong; [|apply NoDup_map_to_list].
  intros [n1 i1] [n2 i2] H1%elem_of_map_to_list H2%elem_of_map_to_list. cbn. intros <-.
  destruct (b_map _ _ B _ _ H1) as (h1 & Hh1 & <- & _). destruct (b_map _ _ B _ _ H2) as (h2 & Hh2 & <- & _).
  congruence.
Qed.

Lemma stop_all_not_j j l : NoDup l → ∀ st, cs_crashed st = None →
  (∀ r, ren_of st j = Some r → r_pc r ≠ PExited) → cs_crashed (stop_all l st) ≠ Some (CrSendClosed j).
Proof.
  induction 1 as [|i l Hi Hnd IH]; intros st Hc Hj; cbn [stop_all]; [congruence|]. rewrite Hc.
  destruct (cs_crashed (stop_renewer i st)) as [c|] eqn:Hc1.
  - rewrite (stop_all_dead _ _ _ Hc1), Hc1. rewrite stop_renewer_crashed in Hc1.
    destruct (ren_of st i) as [ri|] eqn:Hri; [|congruence]. destruct (r_pc ri) eqn:Hpi; try congruence.
    injection Hc1 as <-. intros [= ->]. by apply (Hj ri).
  - destruct (decide (i = j)) as [->|Hij].
    + intros E. apply stop_all_crashed in E as (i' & Hi' & [= <-]); done.
    + apply IH; [done|]. intros r. unfold ren_of.
      rewrite (rf_others _ _ _ _ (stop_renewer_frame false i st)) by congruence. apply Hj.
Qed.

Lemma P_close cc j h st : Pre cc j h st → Post j (h_name h) (h_T h) (do_close st).
Proof.
  intros HP. pose proof HP as (B & Hc & Hcl & Hh & Hl & Hu & HT & r & Hr & L).
  rewrite do_close_eq. cbv zeta.
  pose proof (stop_all_not_j j _ (close_targets_nodup cc st B) st Hc) as Hn.
  destruct (cs_crashed (stop_all _ _)) as [c|] eqn:Hc1.
  - split_and!; rewrite ?Hc1; try done.
    + apply stop_all_crashed in Hc1 as (i & _ & ->); done.
    + apply Hn. intros r0. unfold ren_of. rewrite Hh. cbn. rewrite Hr. intros [= <-]. by eapply lease_at_running.
  - split_and!; cbn; rewrite ?Hc1; try done. intros _. right. by left.
Qed.

(** Unlock *)

(** the Stop() of an Unlock of another granted, not yet unlocked hold i does not hit renewer j: outside F-RENEWMAP the
    two holds have different names, and renewMap files renewer j under the name of hold j *)
Lemma unlock_other_name cc j h i hi st : no_twin st → Pre cc j h st → i ≠ j →
  cs_holds st !! i = Some hi → h_locked hi = true → h_unl hi = false →
  h_name hi ≠ h_name h ∧ cs_map st !! h_name hi ≠ Some j.
Proof.
  intros N (B & _ & _ & Hh & Hl & Hu & HT & _) Hij Hhi Hli Hui.
  assert (h_name hi ≠ h_name h) as Hname.
  { intros E. destruct (N i j hi h Hij Hhi Hh E Hli Hl Hui Hu) as [_ E0].
    destruct (ts_facts _ HT) as (_ & _ & _ & ?). lia. }
  split; [done|]. intros Hm. destruct (b_map _ _ B _ _ Hm) as (h0 & Hh0 & E & _). congruence.
Qed.

(** the Unlock RPC of another hold i (its key is [key_of i]) keeps the lease of hold j on the server *)
Lemma unlock_rpc_keep i hi st1 n j : nowait st1 → h_key hi = key_of i → i ≠ j →
  cs_crashed (unlock_rpc i hi st1) = cs_crashed st1 ∧ cs_holds (unlock_rpc i hi st1) = cs_holds st1 ∧
  srv_keep n (key_of j) (cs_srv st1) (cs_srv (unlock_rpc i hi st1)).
Proof.
  intros Hw Hk Hij.
  destruct (unlock_rpc_spec i hi st1) as (s2 & E1 & E2 & _ & E4 & _ & _ & _ & _ & _ & Hf).
  destruct (Hf Hw) as (G1 & _ & _ & G4 & G5). split_and!; [done|done|]. rewrite E1.
  assert ((n, key_of j) ≠ (h_name hi, h_key hi)) as Hne.
  { rewrite Hk. intros E. assert (key_of j = key_of i) as E'%key_of_inj by congruence. congruence. }
  split_and!; [by apply G4|by apply G5|done].
Qed.

Lemma misuse_unlock_unl st i hi (it : item) : (it = IUnlock i ∨ it = IUnlockBegin i) →
  misuse_at st it = false → cs_holds st !! i = Some hi → h_unl hi = false.
Proof.
  intros Hit Hmis Hhi. unfold misuse_at in Hmis. apply orb_false_elim in Hmis as [_ Hmis].
  destruct Hit as [-> | ->]; by rewrite Hhi in Hmis.
Qed.

Lemma P_unlock cc j h i st : cc_noauto cc = false → no_twin st → Pre cc j h st → misuse_at st (IUnlock i) = false →
  Post j (h_name h) (h_T h) (do_unlock cc i st).
Proof.
  intros Hna N HP Hmis. pose proof HP as (B & Hc & Hcl & Hh & Hl & Hu & HT & r & Hr & L).
  rewrite do_unlock_eq. destruct (cs_holds st !! i) as [hi|] eqn:Hhi; [|by eapply Post_same].
  destruct (h_locked hi) eqn:Hli; [|by eapply Post_same]. cbn [negb]. cbv zeta.
  assert (h_unl hi = false) as Hui by (apply (misuse_unlock_unl st i hi (IUnlock i)); auto).
  pose proof (unlock_stop_frame false cc (h_name hi) st) as F1.
  pose proof (unlock_stop_srv cc (h_name hi) st) as S1.
  pose proof (unlock_stop_crashed cc (h_name hi) st) as C1.
  set (st1 := unlock_stop cc (h_name hi) st) in *.
  destruct (decide (i = j)) as [->|Hij].
  - assert (hi = h) as -> by congruence.
    destruct (cs_crashed st1) as [c|] eqn:Hc1.
    + destruct (C1 c Hc eq_refl) as (x & rx & _ & Hm & -> & Hrx & Hpx).
      split_and!; rewrite ?Hc1; try done. intros [= ->]. unfold ren_of in Hrx. rewrite Hh in Hrx. cbn in Hrx.
      assert (rx = r) as -> by congruence. by eapply lease_at_running.
    + set (st2 := unlock_rpc j h st1).
      destruct (unlock_rpc_spec j h st1) as (s2 & _ & E2 & _ & E4 & _). fold st2 in E2, E4.
      destruct (mark_unl_other j st2) as (_ & _ & E3 & _).
      assert (cs_crashed (emit (TUnlockRet j (now (mark_unl j st2))) (mark_unl j st2)) = None) as Hc'.
      { cbn. congruence. }
      split_and!; rewrite ?Hc'; try done. intros _. right. right.
      change (cs_holds (emit ?e ?s)) with (cs_holds s). rewrite mark_unl_holds, decide_True, E2 by done.
      destruct (frame_lookup _ _ _ _ j h F1 Hh) as (h1 & -> & _). cbn. eauto.
  - destruct (unlock_other_name cc j h i hi st N HP Hij Hhi Hli Hui) as [Hname Hmj].
    assert (¬ (cc_noauto cc = false ∧ cs_map st !! h_name hi = Some j)) as HnJ by (by intros [_ Hm]).
    assert (cs_holds st1 !! j = cs_holds st !! j) as Eh1 by apply (rf_others _ _ _ _ F1 j HnJ).
    destruct (cs_crashed st1) as [c|] eqn:Hc1.
    + destruct (C1 c Hc eq_refl) as (x & rx & _ & Hm & -> & _).
      eapply Post_keep; try done; rewrite ?Hc1; try done; [|by rewrite S1].
      intros [= ->]. by apply HnJ.
    + set (st2 := unlock_rpc i hi st1).
      destruct (unlock_rpc_keep i hi st1 (h_name h) j) as (E4 & E2 & K); [unfold nowait; rewrite S1; apply B|by apply (b_key _ _ B)|done|].
      fold st2 in E2, E4, K. rewrite S1 in K.
      destruct (mark_unl_other i st2) as (E5 & _ & E3 & _).
      eapply Post_keep; try done; cbn; rewrite ?E3, ?E4, ?Hc1; try done.
      * rewrite mark_unl_holds, decide_False, E2 by done. done.
      * by rewrite E5.
Qed.

(** Unlock run in steps. Its first step (maybeRemoveRenewer): like [P_unlock], without the RPC *)
Lemma P_unlock_begin cc j h i st :
  cc_noauto cc = false → no_twin st → Pre cc j h st → misuse_at st (IUnlockBegin i) = false →
  Post j (h_name h) (h_T h) (do_unlock_begin cc i st).
Proof.
  intros Hna N HP Hmis. pose proof HP as (B & Hc & Hcl & Hh & Hl & Hu & HT & r & Hr & L).
  destruct (cs_holds st !! i) as [hi|] eqn:Hhi.
  2: { rewrite do_unlock_begin_noop; [by eapply Post_same|]. intros h0. by rewrite Hhi. }
  destruct (h_locked hi) eqn:Hli.
  2: { rewrite do_unlock_begin_noop; [by eapply Post_same|]. intros h0. rewrite Hhi. by intros [= <-]. }
  assert (h_unl hi = false) as Hui by (apply (misuse_unlock_unl st i hi (IUnlockBegin i)); auto).
  destruct (decide (i = j)) as [->|Hij].
  - assert (hi = h) as -> by congruence.
    destruct (cs_crashed (do_unlock_begin cc j st)) as [c|] eqn:Hc1.
    + destruct (do_unlock_begin_crashed cc j st c Hc Hc1) as (h0 & x & rx & _ & _ & _ & -> & Hrx & Hpx).
      split_and!; rewrite ?Hc1; try done. intros [= ->]. unfold ren_of in Hrx. rewrite Hh in Hrx. cbn in Hrx.
      assert (rx = r) as -> by congruence. by eapply lease_at_running.
    + destruct (do_unlock_begin_unl cc j st h Hh Hl Hc1) as (h' & Hh' & Hu' & _).
      split_and!; rewrite ?Hc1; try done. intros _. right. right. eauto.
  - destruct (unlock_other_name cc j h i hi st N HP Hij Hhi Hli Hui) as [Hname Hmj].
    eapply Post_keep; try done.
    + intros E. destruct (do_unlock_begin_crashed cc i st _ Hc E) as (h0 & x & rx & _ & _ & _ & [=] & _).
    + intros E. destruct (do_unlock_begin_crashed cc i st _ Hc E) as (h0 & x & rx & Hh0 & _ & Hm & [= <-] & _).
      assert (h0 = hi) as -> by congruence. done.
    + apply do_unlock_begin_holds_other; [congruence|]. intros h0 _ Hh0. assert (h0 = hi) as -> by congruence. done.
    + rewrite do_unlock_begin_srv. apply srv_keep_refl.
Qed.

(** its second step (the RPC): the hold has [h_unl] already, so it is not hold j, and its key is another key *)
Lemma P_unlock_send cc j h i st : Pre cc j h st → misuse_at st (IUnlockSend i) = false →
  Post j (h_name h) (h_T h) (do_unlock_send i st).
Proof.
  intros HP Hmis. pose proof HP as (B & Hc & Hcl & Hh & Hl & Hu & HT & r & Hr & L).
  unfold misuse_at in Hmis. apply orb_false_elim in Hmis as [_ Hmis].
  destruct (cs_holds st !! i) as [hi|] eqn:Hhi; [|done]. apply negb_false_iff in Hmis.
  assert (i ≠ j) as Hij by (intros ->; congruence).
  destruct (h_locked hi) eqn:Hli.
  2: { rewrite do_unlock_send_noop; [by eapply Post_same|]. intros h0. rewrite Hhi. by intros [= <-]. }
  rewrite (do_unlock_send_locked i st hi Hhi Hli).
  destruct (unlock_rpc_keep i hi st (h_name h) j) as (E4 & E2 & K); [apply B|by apply (b_key _ _ B)|done|].
  eapply Post_keep; try done; rewrite ?E4, ?Hc; try done. by rewrite E2.
Qed.

(** its third step (the return): only the trace *)
Lemma P_unlock_end cc j h i st : Pre cc j h st → Post j (h_name h) (h_T h) (do_unlock_end i st).
Proof.
  intros HP. pose proof HP as (_ & Hc & _). destruct (do_unlock_end_other i st) as (E1 & _ & E3 & E4 & _).
  eapply Post_keep; try done; rewrite ?E4, ?Hc, ?E3, ?E1; done.
Qed.

(** the Lock / TryLock that creates hold j *)
Lemma P_new cc j b name T size st h' :
  cc_noauto cc = false → cs_crashed st = None → cs_holds st !! j = None →
  let st' := do_acquire cc b name T size st in
  cs_holds st' !! j = Some h' → h_locked h' = true → client_MinRenewSeconds < h_T h' →
  cs_crashed st' ≠ Some (CrRenewFailed j) ∧ cs_crashed st' ≠ Some (CrSendClosed j) ∧
  (cs_crashed st' = None → ∃ r, h_ren h' = Some r ∧ lease_inv st' h' r).
Proof.
  intros Hna Hc Hnone st'. unfold st'. clear st'.
  assert (∀ hn, (cs_holds st ++ [hn]) !! j = Some h' → j = length (cs_holds st) ∧ h' = hn) as Hnew.
  { intros hn [?|[Hj Hx]]%lookup_app_Some; [congruence|].
    destruct (j - length (cs_holds st))%nat as [|m] eqn:Em; cbn in Hx; [|done]. split; [lia|congruence]. }
  destruct (do_acquire_cases cc b name T size st) as [[_ ->]|[[_ ->]|(_ & srv' & locked & key & e & rest & Hs & ->)]].
  - cbn. intros [_ ->]%Hnew. done.
  - cbn. congruence.
  - apply acquire_event_facts in Hs as (F1 & F2 & F3 & F4 & F5 & F6).
    destruct (acquire_answered_fields cc (if b then KLock else KTryLock) (length (cs_holds st)) name T st srv' locked key e)
      as (hn & E1 & E2 & E3 & E4 & E5 & E6 & _ & E7 & E8 & _ & _ & _ & E9). cbv zeta in *.
    set (st' := acquire_answered _ _ _ _ _ _ _ _ _ _) in *.
    rewrite E1. intros [-> ->]%Hnew Hl HT. rewrite E4 in HT. destruct (ts_facts T HT) as (A1 & A2 & A3 & A4).
    assert (locked = true) as ->. { destruct locked; [done|]. cbn in E5. congruence. }
    assert (true && negb (cc_noauto cc) && negb (T =? 0) = true) as Ha.
    { rewrite Hna. cbn. destruct (Z.eqb_spec T 0); [lia|done]. }
    rewrite Ha in E9. specialize (E7 Ha).
    destruct (cs_map st !! name) as [x|]; destruct E9 as [_ E9].
    + rewrite E9. split_and!; try done.
    + rewrite E9, Hc. split_and!; try done. intros _. eexists. split; [exact E7|].
      destruct (F6 eq_refl) as (-> & G2 & G3).
      assert (optpos T = Some T) as Ho. { unfold optpos. destruct (Z.ltb_spec 0 T); [done|lia]. }
      specialize (G3 T Ho A4).
      rewrite lease_inv_at, E2, E3, E4. unfold lease_at, now. rewrite E8, G3, F1. cbn.
      split_and!; eauto; lia.
Qed.

(** the part of the invariant that speaks about hold j *)
Definition Aj (j : nat) (st : cstate) : Prop :=
  ∀ h, cs_holds st !! j = Some h → h_locked h = true → client_MinRenewSeconds < h_T h → h_unl h = false →
    cs_closed st = false →
    cs_crashed st ≠ Some (CrRenewFailed j) ∧ cs_crashed st ≠ Some (CrSendClosed j) ∧
    (cs_crashed st = None → ∃ r, h_ren h = Some r ∧ lease_inv st h r).

Lemma alive_step cc j st it :
  cc_noauto cc = false → basic cc st → no_twin st → Aj j st →
  misuse_at st it = false → timely_at j st it = true → Aj j (step cc st it).
Proof.
  intros Hna B N A Hmis Htm.
  destruct (cs_crashed st) as [c|] eqn:Hcr; [by rewrite (step_crashed _ _ _ _ Hcr)|].
  destruct (cs_parked st && is_main_call it) eqn:Hp; [unfold step; by rewrite Hcr, Hp|].
  intros h' Hh' Hl' HT' Hu' Hcl'.
  assert (cs_closed st = false) as Hcl.
  { destruct (cs_closed st) eqn:E; [|done]. rewrite (step_closed cc st it E) in Hcl'. done. }
  destruct (cs_holds st !! j) as [h|] eqn:Hh.
  - destruct (step_hold_le cc st it j h Hh) as (h'' & Hh'' & Hle). assert (h'' = h') as -> by congruence.
    destruct Hle as (Hs & Hun & _). apply static_eq in Hs as (S1 & S2 & S3 & S4).
    assert (h_unl h = false) as Hu. { destruct (h_unl h); [|done]. rewrite Hun in Hu'; done. }
    destruct (A h Hh ltac:(congruence) ltac:(congruence) Hu Hcl) as (_ & _ & HA). destruct (HA Hcr) as (r & Hr & L).
    assert (Pre cc j h st) as HP.
    { split_and!; try done; try congruence. exists r. split; [done|]. rewrite lease_inv_at in L.
      rewrite <- (b_key _ _ B j h); [done|done|congruence]. }
    assert (Post j (h_name h) (h_T h) (step cc st it)) as (C1 & C2 & C3).
    { unfold step. rewrite Hcr, Hp. destruct it.
      - by eapply P_acquire.
      - by eapply P_acquire.
      - by eapply P_unlock.
      - by eapply P_unlock_begin.
      - by eapply P_unlock_send.
      - by eapply P_unlock_end.
      - by eapply P_close.
      - by eapply P_advance.
      - by eapply P_hold.
      - by eapply P_step.
      - by eapply P_compete.
      - by eapply P_probe. }
    split_and!; try done. intros E. destruct (C3 E) as [(r' & HL' & L')|[?|(h2 & ? & ?)]]; [|congruence|congruence].
    destruct HL' as (h2 & Hh2 & En & Ek & ET & Hr2). assert (h2 = h') as -> by congruence.
    exists r'. split; [done|]. rewrite lease_inv_at, En, Ek, ET. exact L'.
  - destruct (step_holds_cases cc st it) as [F|(hn & E & name & T & size & [->| ->] & _)].
    + apply Forall2_length in F. apply lookup_ge_None in Hh. apply lookup_lt_Some in Hh'. lia.
    + assert (step cc st (ILock name T size) = do_acquire cc true name T size st) as Es by (unfold step; by rewrite Hcr, Hp).
      rewrite Es in *. by eapply P_new.
    + assert (step cc st (ITryLock name T size) = do_acquire cc false name T size st) as Es by (unfold step; by rewrite Hcr, Hp).
      rewrite Es in *. by eapply P_new.
Qed.

Theorem t_alive : T_alive.
Proof.
  intros cc sched j h Hna Hwf Hex Htm st Hh Hl HT Hu Hcl.
  set (bad := λ s it, (misuse_at s it || renewmap_at cc s it) || negb (timely_at j s it)).
  set (P := λ s, basic cc s ∧ no_twin s ∧ Aj j s).
  assert (P st) as (B & N & A).
  { apply (run_inv cc bad P).
    - intros s it (B & N & A) Hb. unfold bad in Hb. apply orb_false_elim in Hb as [Hb H3].
      apply orb_false_elim in Hb as [H1 H2]. apply negb_false_iff in H3.
      split_and!; [by apply basic_step|by apply no_twin_step|by apply alive_step].
    - split_and!; [apply basic_init| |].
      + intros i i' h1 h2 _ H. change (cs_holds cinit) with (@nil hold) in H. by rewrite lookup_nil in H.
      + intros h0 H. change (cs_holds cinit) with (@nil hold) in H. by rewrite lookup_nil in H.
    - unfold bad.
      rewrite (any_pre_orb cc (λ s i, misuse_at s i || renewmap_at cc s i) (λ s i, negb (timely_at j s i))),
        (any_pre_orb cc misuse_at (renewmap_at cc)).
      unfold wf_sched, excluded_renewmap, timely in *. apply negb_true_iff in Hwf, Htm. by rewrite Hwf, Hex, Htm. }
  destruct (A h Hh Hl HT Hu Hcl) as (C1 & C2 & C3). split_and!; try done.
  intros E. destruct (C3 E) as (r & Hr & L). exists r. split_and!; try done.
  - unfold lease_ok. rewrite Hh. destruct L as ((t & Ht & Hd) & _ & Hn & _). unfold tmr in Ht. rewrite Ht. lia.
  - unfold held. rewrite Hh. destruct L as (_ & (o & Ho & Hk) & _). rewrite Ho. by apply bool_decide_eq_true_2.
Qed.
Print Assumptions t_alive.
