(** Definitions shared by the proofs about Mlk (Model/Lk.v): reachability, the invariant of every
    reachable state (ALL interleavings), the abstraction to the atomic counting-lock specification,
    and the target statements as [Prop]s. No proofs here.

    [Lemma xxx : T_xxx] are proved in Proofs/LkInv.v (invariant, C01, C03, C13) and Proofs/LkLin.v (C02). *)
From Ldlm Require Import Model.Base Model.Err Model.Lk.
Local Open Scope Z_scope.

(** ** Reachability. What uuid.NewString provides: the key of a new Lock/TryLock call was never used by an
    earlier acquisition call (stated assumption [fresh_keys], DESIGN 3.1). Thread ids are never reused by
    construction of [lstep] (an [ICall] on a known id is a no-op). *)
Definition is_acq (o : lop) : bool := match o with OUnl _ _ => false | _ => true end.

Definition item_ok (s : lstate) (it : item) : Prop :=
  match it with
  | ICall _ op =>
      (* a fresh key for every acquisition: never seen in ANY earlier call (uuid.NewString) ... *)
      (is_acq op = true → ∀ tid' t', l_thr s !! tid' = Some t' → op_key (t_op t') ≠ op_key op) ∧
      (* ... and nobody can present a key to Unlock before the call that drew it has reported it *)
      (is_acq op = false → ∀ tid' t', l_thr s !! tid' = Some t' → is_acq (t_op t') = true → op_key (t_op t') = op_key op →
                           ∃ r, t_pc t' = PFin r)
  | _ => True
  end.

Inductive lreach (minidle : Z) : lstate → Prop :=
| lreach_init : lreach minidle l_init
| lreach_step s it : lreach minidle s → item_ok s it → lreach minidle (lstep minidle s it).

(** ** Bookkeeping functions over the thread pool *)
Definition pc_oid (pc : lpc) : option nat :=
  match pc with
  | PChkDel o | PTryAcq o | PAcqEnter o | PAcqWait o | PAcqWoken o | PAcqCancel o | PRelCancel o | PAddKey o
  | PUnlChk o | PUnlRem o | PDone o _ => Some o
  | PEnter | PGet | PFin _ => None
  end.
(** the thread owns one unit of the semaphore of [oid] that is not (yet) backed by a key *)
Definition in_transit (oid : nat) (t : thread) : bool :=
  match t_pc t with PAddKey o | PAcqWoken o | PRelCancel o => bool_decide (o = oid) | _ => false end.
Definition refs (oid : nat) (t : thread) : bool := bool_decide (pc_oid (t_pc t) = Some oid).

Definition threads (s : lstate) : list (nat * thread) := map_to_list (l_thr s).
Definition count_thr (p : thread → bool) (s : lstate) : Z := Z.of_nat (length (filter (λ x, p x.2 = true) (threads s))).

(** ** The invariant *)
Record LInv (s : lstate) : Prop := {
  li_not_crashed : l_crashed s = false;                                    (* C13 / C06: no panic is reachable *)
  (* the map and the heap *)
  li_map : ∀ n oid, l_map s !! n = Some oid → ∃ o, l_heap s !! oid = Some o ∧ o_name o = n ∧ o_deleted o = false;
  li_heap : ∀ oid o, l_heap s !! oid = Some o →
      (oid < l_next s)%nat ∧ 0 < o_size o ∧ (o_deleted o = false → l_map s !! o_name o = Some oid);
  (* every pc that mentions an object mentions an existing one, of the call's name (and size, for acquisitions) *)
  li_pc : ∀ tid t oid, l_thr s !! tid = Some t → pc_oid (t_pc t) = Some oid →
      ∃ o, l_heap s !! oid = Some o ∧ o_name o = op_name (t_op t) ∧ (is_acq (t_op t) = true → o_size o = op_size (t_op t));
  (* users = number of calls currently using the object; a deleted object is used by nobody (C13) *)
  li_users : ∀ oid o, l_heap s !! oid = Some o → o_users o = count_thr (refs oid) s;
  li_deleted : ∀ oid o, l_heap s !! oid = Some o → o_deleted o = true →
      o_users o = 0 ∧ o_keys o = [] ∧ o_cur o = 0 ∧ o_waitq o = [] ∧ o_ready o = [];
  (* C01/C02: semaphore accounting — no unit is lost or duplicated *)
  li_units : ∀ oid o, l_heap s !! oid = Some o →
      o_cur o = Z.of_nat (length (o_keys o)) + Z.of_nat (length (o_ready o)) + count_thr (in_transit oid) s
      ∧ 0 ≤ o_cur o ≤ o_size o;
  (* the queue and the handed set *)
  li_queue : ∀ oid o tid, l_heap s !! oid = Some o → tid ∈ o_waitq o ++ o_ready o →
      ∃ t, l_thr s !! tid = Some t ∧ (t_pc t = PAcqWait oid ∨ t_pc t = PAcqCancel oid);
  li_queue_nodup : ∀ oid o, l_heap s !! oid = Some o → NoDup (o_waitq o ++ o_ready o);
  li_waiting : ∀ tid t oid, l_thr s !! tid = Some t → (t_pc t = PAcqWait oid ∨ t_pc t = PAcqCancel oid) →
      ∃ o, l_heap s !! oid = Some o ∧ tid ∈ o_waitq o ++ o_ready o;
  li_wait_cancel : ∀ tid t oid, l_thr s !! tid = Some t → t_pc t = PAcqCancel oid → t_cancel t ≠ None;
  (* C03: no lost wake-up — while somebody is queued, no unit is free *)
  li_no_lost_wakeup : ∀ oid o, l_heap s !! oid = Some o → o_waitq o ≠ [] → o_cur o = o_size o;
  (* only Lock calls wait; results in flight *)
  li_lock_only : ∀ tid t oid, l_thr s !! tid = Some t →
      (t_pc t = PAcqEnter oid ∨ t_pc t = PAcqWait oid ∨ t_pc t = PAcqWoken oid ∨ t_pc t = PAcqCancel oid ∨ t_pc t = PRelCancel oid) →
      ∃ n k z, t_op t = OLock n k z;
  li_cancel_lock : ∀ tid t, l_thr s !! tid = Some t → t_cancel t ≠ None → ∃ n k z, t_op t = OLock n k z;
  (* (added by lkinv: needed for inductiveness) the acquisition pcs belong to acquisition calls, the unlock pcs to Unlock calls *)
  li_acq_pc : ∀ tid t oid, l_thr s !! tid = Some t → (t_pc t = PChkDel oid ∨ t_pc t = PTryAcq oid ∨ t_pc t = PAddKey oid) →
      is_acq (t_op t) = true;
  li_unl_pc : ∀ tid t oid, l_thr s !! tid = Some t → (t_pc t = PUnlChk oid ∨ t_pc t = PUnlRem oid) → is_acq (t_op t) = false;
  (* keys: every key in a key list or in transit is the key of a distinct acquisition call (freshness) *)
  li_fresh : ∀ t1 t2 x1 x2, l_thr s !! t1 = Some x1 → l_thr s !! t2 = Some x2 →
      is_acq (t_op x1) = true → is_acq (t_op x2) = true → op_key (t_op x1) = op_key (t_op x2) → t1 = t2;
  (* (added by lkinv for lklin) an Unlock call presents only keys whose acquisition call has returned *)
  li_unl_key : ∀ tid t tid' t', l_thr s !! tid = Some t → is_acq (t_op t) = false → l_thr s !! tid' = Some t' →
      is_acq (t_op t') = true → op_key (t_op t') = op_key (t_op t) → ∃ r, t_pc t' = PFin r;
  li_keys : ∀ oid o, l_heap s !! oid = Some o → NoDup (o_keys o) ∧
      ∀ k, k ∈ o_keys o → ∃ tid t, l_thr s !! tid = Some t ∧ is_acq (t_op t) = true ∧ op_key (t_op t) = k
                                   ∧ op_name (t_op t) = o_name o ∧ (t_pc t = PDone oid (LRes true None) ∨ t_pc t = PFin (LRes true None));
  (* a call reports a grant only for a key it put into the key list (or that was since unlocked by an Unlock call) *)
  li_granted : ∀ tid t, l_thr s !! tid = Some t → is_acq (t_op t) = true → t_pc t = PFin (LRes true None) →
      (∃ oid o, l_map s !! op_name (t_op t) = Some oid ∧ l_heap s !! oid = Some o ∧ op_key (t_op t) ∈ o_keys o)
      ∨ (∃ tid' t', l_thr s !! tid' = Some t' ∧ t_op t' = OUnl (op_name (t_op t)) (op_key (t_op t)));
  (* (added by lkinv: needed for inductiveness of li_granted) the same while the successful call is about to return *)
  li_done : ∀ tid t oid, l_thr s !! tid = Some t → is_acq (t_op t) = true → t_pc t = PDone oid (LRes true None) →
      (∃ o, l_heap s !! oid = Some o ∧ op_key (t_op t) ∈ o_keys o)
      ∨ (∃ tid' t', l_thr s !! tid' = Some t' ∧ t_op t' = OUnl (op_name (t_op t)) (op_key (t_op t)));
  (* after Manager.shutdown no call is in flight, which is why the manager context's checks are not modelled *)
  li_shut : l_shut s = true → ∀ tid t, l_thr s !! tid = Some t → in_flight (t_pc t) = false;
  li_time : ∀ oid o, l_heap s !! oid = Some o → o_last o ≤ l_now s
}.

Definition T_linv_reach : Prop := ∀ minidle s, lreach minidle s → LInv s.

(** ** C01 — capacity *)

(** the observable notion of the property text: the grant was reported and no Unlock of that key has been invoked *)
Definition granted (s : lstate) (name key : str) : Prop :=
  ∃ tid t, l_thr s !! tid = Some t ∧ is_acq (t_op t) = true ∧ op_name (t_op t) = name ∧ op_key (t_op t) = key
           ∧ t_pc t = PFin (LRes true None).
Definition unlock_invoked (s : lstate) (name key : str) : Prop :=
  ∃ tid t, l_thr s !! tid = Some t ∧ t_op t = OUnl name key.
Definition obj_size (s : lstate) (name : str) (z : Z) : Prop :=
  ∃ oid o, l_map s !! name = Some oid ∧ l_heap s !! oid = Some o ∧ o_size o = z.

(** in every reachable state of every interleaving: any set of distinct keys of one name whose grants were reported and
    whose Unlock has not even been invoked is no larger than the lock's size; with size 1: mutual exclusion *)
Definition T_C01_capacity : Prop := ∀ minidle s name (ks : list str),
  lreach minidle s → NoDup ks → ks ≠ [] → (∀ k, k ∈ ks → granted s name k ∧ ¬ unlock_invoked s name k) →
  ∃ z, obj_size s name z ∧ Z.of_nat (length ks) ≤ z.

(** the lock table itself never shows more keys than the size, and at most one object per name exists that anybody
    can reach (the others are deleted, empty and unused) *)
Definition T_C01_table : Prop := ∀ minidle s oid o,
  lreach minidle s → l_heap s !! oid = Some o →
  Z.of_nat (length (o_keys o)) ≤ o_cur o ∧ o_cur o ≤ o_size o ∧
  (o_deleted o = true → o_keys o = [] ∧ count_thr (refs oid) s = 0).

(** ** C13 — garbage collection *)
Definition T_C13_no_panic : Prop := ∀ minidle s, lreach minidle s → l_crashed s = false.
(** GC removes only an object with no key, used by no call (so: not being acquired, not waited on), idle for > minidle *)
Definition T_C13_gc_only_idle : Prop := ∀ minidle s name oid,
  lreach minidle s → l_map s !! name = Some oid → l_map (lstep minidle s (IGc name)) !! name = None →
  ∃ o, l_heap s !! oid = Some o ∧ o_keys o = [] ∧ o_waitq o = [] ∧ o_ready o = [] ∧ o_cur o = 0 ∧
       count_thr (refs oid) s = 0 ∧ minidle < l_now s - o_last o.
(** and changes nothing else *)
Definition T_C13_gc_frame : Prop := ∀ minidle s name,
  let s' := lstep minidle s (IGc name) in
  l_thr s' = l_thr s ∧ l_now s' = l_now s ∧ l_shut s' = l_shut s ∧
  (∀ n, n ≠ name → l_map s' !! n = l_map s !! n) ∧
  (∀ oid, l_map s !! name ≠ Some oid → l_heap s' !! oid = l_heap s !! oid).

(** ** C03 — blocked calls *)
(** hand-off is FIFO: notify moves a prefix of the queue, in order *)
Definition T_C03_notify_prefix : Prop := ∀ o o' woken,
  notify o = (o', woken) → o_waitq o = woken ++ o_waitq o' ∧ o_ready o' = o_ready o ++ woken ∧
                           o_cur o' = o_cur o + Z.of_nat (length woken) ∧ (o_waitq o' ≠ [] → o_size o ≤ o_cur o').
(** a call that gave up (or failed) is never granted afterwards and holds no unit: its pc only moves PDone -> PFin *)
Definition T_C03_giveup_final : Prop := ∀ minidle s it tid t oid r,
  l_thr s !! tid = Some t → t_pc t = PDone oid r ∨ t_pc t = PFin r →
  ∃ t', l_thr (lstep minidle s it) !! tid = Some t' ∧ (t_pc t' = PDone oid r ∨ t_pc t' = PFin r) ∧ t_op t' = t_op t.
(** promptness as bounded solo completion: a call that is not blocked (in particular a waiter that was handed a unit, or whose
    context ended) finishes, or parks in the queue, within 8 of its own steps, whatever the other threads are doing — it needs
    no step of anybody else *)
Definition solo (minidle : Z) (tid : nat) (n : nat) (s : lstate) : lstate := Nat.iter n (λ s, lstep minidle s (IRun tid)) s.
Definition T_C03_prompt : Prop := ∀ minidle s tid t,
  lreach minidle s → l_thr s !! tid = Some t →
  ∃ n t', (n ≤ 8)%nat ∧ l_thr (solo minidle tid n s) !! tid = Some t' ∧
          ((∃ r, t_pc t' = PFin r) ∨ blocked (solo minidle tid n s) tid = true).
(** a blocked call is exactly a queued Lock that was neither handed a unit nor cancelled *)
Definition T_C03_blocked_iff : Prop := ∀ minidle s tid t,
  lreach minidle s → l_thr s !! tid = Some t → blocked s tid = true →
  (∃ r, t_pc t = PFin r) ∨ (∃ oid o, t_pc t = PAcqWait oid ∧ l_heap s !! oid = Some o ∧ tid ∈ o_waitq o ∧ t_cancel t = None ∧ o_cur o = o_size o).

(** ** C02 — refinement of the atomic counting-lock specification *)
Definition transit_keys (oid : nat) (s : lstate) : list str :=
  map (λ x, op_key (t_op x.2)) (filter (λ x, in_transit oid x.2 = true) (threads s)).
Definition ready_keys (o : lobj) (s : lstate) : list str := map (key_of s) (o_ready o).

(** [sp] is the abstraction of [s]: same names, sizes, queues; the live keys of the specification are the recorded keys
    plus the units in transit (handed or acquired, key not yet recorded) *)
Definition spec_rel (sp : gmap str sobj) (s : lstate) : Prop :=
  ∀ n, match sp !! n, l_map s !! n with
       | None, None => True
       | Some so, Some oid => ∃ o, l_heap s !! oid = Some o ∧ so_size so = o_size o ∧ so_q so = o_waitq o ∧
                                   so_live so ≡ₚ o_keys o ++ ready_keys o s ++ transit_keys oid s
       | _, _ => False
       end.

(** every interleaving is a run of the specification (with the give-back action of F-LIN2 allowed) *)
Definition T_C02_refines : Prop := ∀ minidle s,
  lreach minidle s → ∃ sp, spec_run false ∅ (lin_of (l_trace s)) = Some sp ∧ spec_rel sp s.
(** ... and of the strict specification when no call is handed a unit after its context ended *)
Definition has_giveback (tr : list lev) : bool :=
  existsb (λ e, match e with EvLin (LaGiveBack _ _ _ _) => true | _ => false end) tr.
Definition T_C02_strict : Prop := ∀ minidle s,
  lreach minidle s → has_giveback (l_trace s) = false →
  ∃ sp, spec_run true ∅ (lin_of (l_trace s)) = Some sp ∧ spec_rel sp s.

(** responses agree with the linearisation: scanning the trace oldest first, a response of [tid] equals the result of
    [tid]'s latest decisive action, which lies after its invocation *)
Definition decisive (a : linact) : option (nat * lres) :=
  match a with
  | LaErr t e => Some (t, res_err e)
  | LaTryOk t _ _ => Some (t, LRes true None)
  | LaTryBusy t _ => Some (t, LRes false None)
  | LaGrant t _ _ => Some (t, LRes true None)
  | LaLeave t _ e => Some (t, res_err e)
  | LaGiveBack t _ _ e => Some (t, res_err e)
  | LaUnlOk t _ _ => Some (t, LRes true None)
  | LaUnlBad t _ _ => Some (t, res_err ELockInvalidLockKey)
  | LaCreate _ _ | LaGc _ | LaEnq _ _ => None
  end.
Fixpoint resp_ok (pending : gmap nat (option lres)) (tr : list lev) : bool :=
  match tr with
  | [] => true
  | EvInv t _ :: tr' => match pending !! t with None => resp_ok (<[t := None]> pending) tr' | Some _ => false end
  | EvLin a :: tr' =>
      match decisive a with
      | Some (t, r) => match pending !! t with Some _ => resp_ok (<[t := Some r]> pending) tr' | None => false end
      | None => resp_ok pending tr'
      end
  | EvRes t r :: tr' => match pending !! t with Some (Some r') => bool_decide (r = r') && resp_ok (delete t pending) tr' | _ => false end
  | _ :: tr' => resp_ok pending tr'
  end.
(** (a thread id that has responded is never invoked again, so deleting it from [pending] is harmless) *)
Definition T_C02_responses : Prop := ∀ minidle s, lreach minidle s → resp_ok ∅ (rev (l_trace s)) = true.

(** conservation, as the property text puts it: when no call is in flight, free capacity = size - live holds *)
Definition T_C02_conservation : Prop := ∀ minidle s oid o,
  lreach minidle s → no_call_in_flight s = true → l_heap s !! oid = Some o →
  o_cur o = Z.of_nat (length (o_keys o)) ∧ o_waitq o = [] ∧ o_ready o = [].
