(** ERenew against the oracle (work package trackp). *)
From Coq Require Import Lia ZifyBool ZifyNat String.
From Ldlm Require Import Model.Base Model.Err Model.Seq Model.Track Proofs.SeqDefs Proofs.SeqLemmasKey Proofs.SeqInvBase
  Proofs.SeqInvOps Proofs.SeqInvTime Proofs.SeqInv Proofs.SeqTimeBase Proofs.SeqTime1
  Proofs.TrackPBase Proofs.TrackPOrder Proofs.TrackPRel Proofs.TrackPStep Proofs.TrackPTR Proofs.TrackPProbe Proofs.TrackPAcq.
From RecordUpdate Require Import RecordSet.
Import RecordSetNotations.
Local Open Scope Z_scope.

Lemma NoDup_hkey_eq hs h1 h2 : NoDup (hkey <$> hs) → h1 ∈ hs → h2 ∈ hs → hkey h1 = hkey h2 → h1 = h2.
Proof. intros. by eapply (NoDup_fmap_eq hkey). Qed.

Lemma track_renew_ok X cfg i n k lt s s' o t :
  Inv cfg s → st_shut s = false → TR X cfg s t →
  srv_renew n k lt s = (s', o) →
  TR X cfg s' (track_step0 cfg i (ERenew n k lt) o t).
Proof.
  intros HI Hsh HT Hr. unfold srv_renew in Hr. simpl. destruct (Z.leb_spec lt 0) as [Hle|Hgt].
  { injection Hr as <- <-. simpl. destruct (Z.leb_spec lt 0); [|lia]. flagsolve. }
  pose proof (tr_holds _ _ _ _ HT) as HH.
  destruct (st_timers s !! tkey n k) as [tm|] eqn:Et.
  - injection Hr as <- <-. simpl. destruct (Z.leb_spec lt 0); [lia|].
    destruct (inv_timers _ _ HI _ _ Et) as (Etk & _ & Hl). apply tkey_inj in Etk as [E1 E2]. rewrite <- E1, <- E2 in Hl.
    destruct (TR_live_some _ _ _ _ HT _ _ Hl) as (h & Hlh & Hh & Hhn & Hhk). rewrite Hlh.
    pose proof (hr_lease _ _ _ _ _ _ HH Hsh h Hh) as Hd. rewrite Hhn, Hhk in Hd. unfold tdl in Hd. rewrite Et in Hd. simpl in Hd.
    rewrite Hd. simpl.
    destruct HT as [H1 H2 _ H4 H5]. split; simpl; try done.
    set (f := λ h0 : hold, negb (bool_decide (h_name h0 = n) && bool_decide (h_key h0 = k))).
    set (h' := h <| h_deadline := Some (t_now t + lt * second) |>).
    assert (∀ h0, h0 ∈ t_holds t → f h0 = false → h0 = h) as Hf.
    { intros h0 Hh0 Hf0. apply negb_false_iff, andb_true_iff in Hf0 as [?%bool_decide_eq_true ?%bool_decide_eq_true].
      eapply NoDup_hkey_eq; [apply (hr_nodup _ _ _ _ _ _ HH)|done..|]. unfold hkey. congruence. }
    assert (f h = false) as Hfh by (unfold f; by rewrite Hhn, Hhk, !bool_decide_eq_true_2).
    split.
    + rewrite fmap_app. apply NoDup_app. split; [apply lfilter_NoDup_fmap, (hr_nodup _ _ _ _ _ _ HH)|]. split; [|apply NoDup_singleton].
      intros x (h0 & -> & [Hf0 Hh0]%elem_of_lfilter)%elem_of_list_fmap Hx. apply elem_of_list_singleton in Hx.
      assert (h0 = h) as -> by (eapply NoDup_hkey_eq; [apply (hr_nodup _ _ _ _ _ _ HH)|done..]). congruence.
    + intros h0 [[_ Hh0]%elem_of_lfilter| ->%elem_of_list_singleton]%elem_of_app.
      * by apply (hr_tab _ _ _ _ _ _ HH).
      * split; [|apply not_elem_of_nil]. by apply (hr_tab _ _ _ _ _ _ HH h).
    + intros c Hc. destruct (hr_all _ _ _ _ _ _ HH c Hc) as [[]%elem_of_nil|(h0 & Hh0 & <-)]. right.
      destruct (f h0) eqn:Ef0.
      * exists h0. split; [|done]. apply elem_of_app. left. by apply elem_of_lfilter.
      * rewrite (Hf h0 Hh0 Ef0). exists h'. split; [|done]. apply elem_of_app. right. by apply elem_of_list_singleton.
    + intros h0 [[_ Hh0]%elem_of_lfilter| ->%elem_of_list_singleton]%elem_of_app.
      * by apply (hr_sid _ _ _ _ _ _ HH).
      * by apply (hr_sid _ _ _ _ _ _ HH h).
    + intros _ h0 [[Hf0 Hh0]%elem_of_lfilter| ->%elem_of_list_singleton]%elem_of_app.
      * rewrite (hr_lease _ _ _ _ _ _ HH Hsh h0 Hh0). unfold tdl. rewrite lookup_insert_ne; [done|].
        intros [En Ek]%tkey_inj. unfold f in Hf0. rewrite <- En, <- Ek, !bool_decide_eq_true_2 in Hf0 by done. done.
      * simpl. unfold tdl. rewrite Hhn, Hhk, lookup_insert. simpl. by rewrite H1.
    + by intros ? ? ?%elem_of_nil.
  - injection Hr as <- <-. simpl. destruct (Z.leb_spec lt 0); [lia|].
    destruct (Track.live n k t) as [h|] eqn:Hlh.
    + unfold Track.live in Hlh. apply head_Some_elem_of, elem_of_lfilter in Hlh as [Hf Hh].
      apply andb_true_iff in Hf as [Hhn%bool_decide_eq_true Hhk%bool_decide_eq_true].
      pose proof (hr_lease _ _ _ _ _ _ HH Hsh h Hh) as Hd. rewrite Hhn, Hhk in Hd. unfold tdl in Hd. rewrite Et in Hd. simpl in Hd.
      rewrite Hd. flagsolve.
    + flagsolve.
Qed.
