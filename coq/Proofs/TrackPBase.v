(** Tracker-only facts about the trace oracle of Model/Track.v (work package trackp):
    the boolean permutation test, the flag bookkeeping, a closed form of [t_waiter_done],
    and the lemma that lets the completions of one event be processed in the order the
    model emits them instead of the order [sort_completions] puts them in. Nothing here
    mentions the model state. *)
From Coq Require Import Lia ZifyBool ZifyNat String.
From Ldlm Require Import Model.Base Model.Err Model.Seq Model.Track.
From RecordUpdate Require Import RecordSet.
Import RecordSetNotations.
Local Open Scope Z_scope.

(** ** [List.filter] (used by Track.v) versus std++'s [filter] *)

Lemma lfilter_eq {A} (f : A → bool) (l : list A) : List.filter f l = filter (λ x, f x) l.
Proof.
  induction l as [|x l IH]; [done|]. simpl. rewrite filter_cons. destruct (f x).
  - rewrite decide_True by done. by f_equal.
  - rewrite decide_False by (by intros []). done.
Qed.

Lemma elem_of_lfilter {A} (f : A → bool) l x : x ∈ List.filter f l ↔ f x = true ∧ x ∈ l.
Proof. rewrite lfilter_eq, elem_of_list_filter. by rewrite Is_true_true. Qed.

Lemma lfilter_app {A} (f : A → bool) l1 l2 : List.filter f (l1 ++ l2) = List.filter f l1 ++ List.filter f l2.
Proof. by rewrite !lfilter_eq, filter_app. Qed.

Lemma lfilter_perm {A} (f : A → bool) l1 l2 : l1 ≡ₚ l2 → List.filter f l1 ≡ₚ List.filter f l2.
Proof. intros H. rewrite !lfilter_eq. by rewrite H. Qed.

Lemma lfilter_ext {A} (f g : A → bool) l : (∀ x, x ∈ l → f x = g x) → List.filter f l = List.filter g l.
Proof.
  induction l as [|x l IH]; [done|]. intros H. simpl. rewrite (H x) by left. rewrite IH; [done|].
  intros y ?. apply H. by right.
Qed.

Lemma lfilter_all {A} (f : A → bool) l : (∀ x, x ∈ l → f x = true) → List.filter f l = l.
Proof.
  induction l as [|x l IH]; [done|]. intros H. simpl. rewrite (H x) by left. f_equal. apply IH.
  intros y ?. apply H. by right.
Qed.

Lemma lfilter_none {A} (f : A → bool) l : (∀ x, x ∈ l → f x = false) → List.filter f l = [].
Proof.
  induction l as [|x l IH]; [done|]. intros H. simpl. rewrite (H x) by left. apply IH.
  intros y ?. apply H. by right.
Qed.

Lemma lfilter_lfilter {A} (f g : A → bool) l : List.filter f (List.filter g l) = List.filter (λ x, g x && f x) l.
Proof.
  induction l as [|x l IH]; [done|]. simpl. destruct (g x); simpl; [|done]. destruct (f x); by rewrite IH.
Qed.

Lemma lfilter_comm {A} (f g : A → bool) l : List.filter f (List.filter g l) = List.filter g (List.filter f l).
Proof. rewrite !lfilter_lfilter. apply lfilter_ext. intros. apply andb_comm. Qed.

Lemma lfilter_NoDup_fmap {A B} (h : A → B) (f : A → bool) l : NoDup (h <$> l) → NoDup (h <$> List.filter f l).
Proof.
  induction l as [|x l IH]; [done|]. rewrite fmap_cons, NoDup_cons. intros [Hx Hl]. simpl.
  destruct (f x); [|auto]. rewrite fmap_cons, NoDup_cons. split; [|auto].
  intros (y & E & Hy)%elem_of_list_fmap. apply elem_of_lfilter in Hy as [_ Hy].
  apply Hx. rewrite E. apply elem_of_list_fmap. eauto.
Qed.

Lemma lfilter_length_le {A} (f : A → bool) l : (length (List.filter f l) ≤ length l)%nat.
Proof. induction l as [|x l IH]; simpl; [lia|]. destruct (f x); simpl; lia. Qed.

(** ** The boolean permutation test *)

Lemma remove_by_Some {A} `{EqDecision A} (x : A) l l' : remove_by eqb_dec x l = Some l' → l ≡ₚ x :: l'.
Proof.
  revert l'. induction l as [|y l IH]; intros l'; simpl; [done|]. unfold eqb_dec at 1. case_bool_decide as E.
  - intros [= <-]. by subst.
  - destruct (remove_by eqb_dec x l) as [r|]; simpl; [|done]. intros [= <-]. rewrite (IH r eq_refl). apply Permutation_swap.
Qed.

Lemma remove_by_elem {A} `{EqDecision A} (x : A) l : x ∈ l → is_Some (remove_by eqb_dec x l).
Proof.
  induction l as [|y l IH]; [by intros ?%elem_of_nil|]. simpl. unfold eqb_dec at 1. case_bool_decide as E; [eauto|].
  intros [->|Hin]%elem_of_cons; [done|]. destruct (IH Hin) as [r ->]. simpl. eauto.
Qed.

Lemma perm_by_spec {A} `{EqDecision A} (l1 l2 : list A) : perm_by eqb_dec l1 l2 = true ↔ l1 ≡ₚ l2.
Proof.
  revert l2. induction l1 as [|x l1 IH]; intros l2; simpl.
  - destruct l2; split; try done. intros H%Permutation_nil_l. done.
  - destruct (remove_by eqb_dec x l2) as [l2'|] eqn:E.
    + apply remove_by_Some in E. rewrite IH. split.
      * intros ->. by rewrite E.
      * intros H. rewrite E in H. by apply Permutation_cons_inv in H.
    + split; [done|]. intros H. assert (x ∈ l2) as Hx by (rewrite <- H; left).
      apply remove_by_elem in Hx as [? Hx]. congruence.
Qed.

Lemma perm_by_perm {A} `{EqDecision A} (l1 l2 : list A) : l1 ≡ₚ l2 → perm_by eqb_dec l1 l2 = true.
Proof. apply perm_by_spec. Qed.

(** ** Flags *)

Section flag.
  Context (i : nat) (tag : string) (b : bool) (t : tstate).
  Lemma flag_holds : t_holds (flag i tag b t) = t_holds t. Proof. unfold flag. by destruct b. Qed.
  Lemma flag_waiters : t_waiters (flag i tag b t) = t_waiters t. Proof. unfold flag. by destruct b. Qed.
  Lemma flag_now : t_now (flag i tag b t) = t_now t. Proof. unfold flag. by destruct b. Qed.
  Lemma flag_pending : t_pending (flag i tag b t) = t_pending t. Proof. unfold flag. by destruct b. Qed.
  Lemma flag_mem : t_mem (flag i tag b t) = t_mem t. Proof. unfold flag. by destruct b. Qed.
  Lemma flag_sids : t_sids (flag i tag b t) = t_sids t. Proof. unfold flag. by destruct b. Qed.
  Lemma flag_keys : t_keys (flag i tag b t) = t_keys t. Proof. unfold flag. by destruct b. Qed.
  Lemma flag_fail : t_fail (flag i tag b t) = (if b then [] else [(i, tag)]) ++ t_fail t.
  Proof. unfold flag. by destruct b. Qed.
  Lemma flag_true : b = true → flag i tag b t = t. Proof. by intros ->. Qed.
End flag.

Lemma count_name_flag i tag b n t : count_name n (flag i tag b t) = count_name n t.
Proof. unfold count_name. by rewrite flag_holds. Qed.
Lemma waiters_on_flag i tag b n t : waiters_on n (flag i tag b t) = waiters_on n t.
Proof. unfold waiters_on. by rewrite flag_waiters. Qed.
Lemma known_size_flag i tag b n t : known_size n (flag i tag b t) = known_size n t.
Proof. unfold known_size. by rewrite flag_holds, waiters_on_flag. Qed.
Lemma live_flag i tag b n k t : Track.live n k (flag i tag b t) = Track.live n k t.
Proof. unfold Track.live. by rewrite flag_holds. Qed.

(** every recorded failure is excused by [X] *)
Definition fails_ok (X : nat → string → Prop) (t : tstate) : Prop := ∀ j tag, (j, tag) ∈ t_fail t → X j tag.

Lemma fails_ok_flag (X : nat → string → Prop) i tag b t : fails_ok X t → (b = false → X i tag) → fails_ok X (flag i tag b t).
Proof.
  intros Ht Hb j tg. rewrite flag_fail. destruct b; simpl; [apply Ht|].
  intros [[= -> ->]|?]%elem_of_cons; [by apply Hb|by apply Ht].
Qed.

Lemma fails_ok_same (X : nat → string → Prop) t t' : t_fail t' = t_fail t → fails_ok X t → fails_ok X t'.
Proof. unfold fails_ok. by intros ->. Qed.

(** ** The effective part of the hold list at an instant *)

Definition alive (now : Z) (h : hold) : bool := match h_deadline h with Some d => now <? d | None => true end.
Definition ef (now : Z) (hs : list hold) : list hold := List.filter (alive now) hs.
Definition rmw (wid : nat) (ws : list twaiter) : list twaiter := List.filter (λ w', negb (bool_decide (tw_id w' = wid))) ws.
Definition findw (wid : nat) (ws : list twaiter) : list twaiter := List.filter (λ w, bool_decide (tw_id w = wid)) ws.
Definition on_name (n : str) (hs : list hold) : list hold := List.filter (λ h, bool_decide (h_name h = n)) hs.
Definition won (n : str) (ws : list twaiter) : list twaiter := List.filter (λ w, bool_decide (tw_name w = n)) ws.

Lemma expire_until_holds a t : t_holds (expire_until a t) = ef a (t_holds t). Proof. done. Qed.

Lemma ef_ef a b hs : a ≤ b → ef b (ef a hs) = ef b hs.
Proof.
  intros Hab. unfold ef. rewrite lfilter_lfilter. apply lfilter_ext. intros h _. unfold alive.
  destruct (h_deadline h); [|done]. lia.
Qed.

Lemma ef_app a l1 l2 : ef a (l1 ++ l2) = ef a l1 ++ ef a l2.
Proof. apply lfilter_app. Qed.

Lemma lease_alive a lt : alive a (Hold [] [] 0 [] (lease a lt)) = true.
Proof.
  unfold alive, lease. simpl. destruct lt as [v|]; [|done]. destruct (Z.ltb_spec 0 v); [|done].
  simpl. assert (0 < second) by (unfold second; lia). nia.
Qed.

Lemma lease_alive' a lt n k sz sid : alive a (Hold n k sz sid (lease a lt)) = true.
Proof. exact (lease_alive a lt). Qed.

(** ** Closed form of [t_waiter_done] *)

Definition is_grant (r : resp) : bool := match r with RLock true _ _ => true | _ => false end.

Definition wait_dl (w : twaiter) : option Z :=
  match tw_wt w with Some v => if 0 <? v then Some (tw_issued w + v * second) else None | None => None end.

(** the checks that look only at the completed call and its completion *)
Definition own_flags (w : twaiter) (at_ : Z) (r : resp) (cause : option err) : list string :=
  match r with
  | RLock true _ e => if bool_decide (e = None) then [] else ["C14:grant-with-error"%string]
  | RLock false _ e =>
      match e with
      | Some ESrvLockWaitTimeout => if bool_decide (wait_dl w = Some at_) then [] else ["C03:wait-timeout-not-at-deadline"%string]
      | Some e' => if bool_decide (cause = Some e') then [] else ["C03:wrong-giveup-cause"%string]
      | None => ["C03:giveup-without-error"%string]
      end
  | _ => ["C03:bad-completion"%string]
  end.

(** the checks of a grant that look at the tracker state: capacity and queue order *)
Definition pend_on (n : str) (pend : list str) : Z := Z.of_nat (length (List.filter (λ n', bool_decide (n' = n)) pend)).
Definition cap_ok (w : twaiter) (a : Z) (hs : list hold) (pend : list str) : bool :=
  Z.of_nat (length (on_name (tw_name w) (ef a hs))) - pend_on (tw_name w) pend <? tw_size w.
Definition fifo_ok (w : twaiter) (ws : list twaiter) : bool :=
  match won (tw_name w) ws with w0 :: _ => bool_decide (tw_id w0 = tw_id w) | [] => false end.
Definition grant_flags (w : twaiter) (a : Z) (hs : list hold) (ws : list twaiter) (pend : list str) : list string :=
  (if cap_ok w a hs pend then [] else ["C01:grant-over-capacity"%string]) ++
  (if fifo_ok w ws then [] else ["C03:not-fifo"%string]).

Definition new_key (r : resp) : list str := match r with RLock true key _ => [key] | _ => [] end.
Definition key_flags (r : resp) (ks : list str) : list string :=
  match r with RLock true key _ => if bool_decide (key ∈ ks) then ["FRESH:key-reused"%string] else [] | _ => [] end.

Definition new_hold (w : twaiter) (a : Z) (r : resp) : list hold :=
  match r with RLock true key _ => [Hold (tw_name w) key (tw_size w) (tw_sid w) (lease a (tw_lt w))] | _ => [] end.

Lemma findw_id wid ws w rest : findw wid ws = w :: rest → tw_id w = wid ∧ w ∈ ws.
Proof.
  intros E. assert (w ∈ findw wid ws) as H by (rewrite E; left).
  apply elem_of_lfilter in H as [H ?]. by apply bool_decide_eq_true in H.
Qed.

Lemma wd_unknown cfg i wid a r cause t : findw wid (t_waiters t) = [] →
  t_waiter_done cfg i wid a r cause t = t <| t_fail := (i, "C03:completion-of-unknown-call"%string) :: t_fail t |>.
Proof. unfold t_waiter_done, findw. by intros ->. Qed.

Lemma wd_known cfg i wid a r cause t w rest : findw wid (t_waiters t) = w :: rest →
  t_waiter_done cfg i wid a r cause t =
    TState (ef a (t_holds t) ++ new_hold w a r) (rmw wid (t_waiters t)) (t_now t) (t_pending t) (t_mem t) (t_sids t)
           (new_key r ++ t_keys t)
           (map (pair i) (key_flags r (t_keys t) ++
                          (if is_grant r then grant_flags w a (t_holds t) (t_waiters t) (t_pending t) else []) ++ own_flags w a r cause)
            ++ t_fail t).
Proof.
  intros E. pose proof (findw_id _ _ _ _ E) as [Hid _]. unfold t_waiter_done. unfold findw in E. rewrite E.
  destruct r as [[] key e| |]; simpl.
  - unfold grant_flags, cap_ok, pend_on, fifo_ok, flag, count_name, waiters_on, won, on_name. simpl. rewrite Hid.
    destruct (Z.of_nat _ - _ <? tw_size w); destruct (match List.filter _ (t_waiters t) with [] => false | _ => _ end);
      destruct (bool_decide (e = None)); simpl; destruct (bool_decide (key ∈ t_keys t)); simpl; rewrite ?app_nil_r; reflexivity.
  - rewrite app_nil_r. unfold flag, wait_dl.
    destruct e as [[]|]; simpl; try case_bool_decide; simpl; reflexivity.
  - by rewrite app_nil_r.
  - by rewrite app_nil_r.
Qed.

(** ** Processing a list of completions *)

Notation comp := (nat * Z * resp)%type (only parsing).
Definition c_wid (c : comp) : nat := c.1.1.
Definition c_at (c : comp) : Z := c.1.2.
Definition c_resp (c : comp) : resp := c.2.

Definition done1 (cfg : config) (i : nat) (cause : option err) (t : tstate) (c : comp) : tstate :=
  t_waiter_done cfg i (c_wid c) (c_at c) (c_resp c) cause t.
Definition done_list (cfg : config) (i : nat) (cause : option err) (cs : list comp) (t : tstate) : tstate :=
  fold_left (done1 cfg i cause) cs t.

Definition comps (outs : list out) : list comp :=
  omap (λ o, match o with OWaiter w a r => Some (w, a, r) | _ => None end) outs.

Lemma t_completions_eq cfg i cause outs t :
  t_completions cfg i cause outs t = done_list cfg i cause (sort_completions outs) t.
Proof.
  unfold t_completions, done_list. generalize (sort_completions outs). intros l. revert t.
  induction l as [|[[w a] r] l IH]; intros t; [done|]. simpl. apply IH.
Qed.

Lemma comps_app o1 o2 : comps (o1 ++ o2) = comps o1 ++ comps o2.
Proof. unfold comps. by rewrite omap_app. Qed.

Lemma done_list_app cfg i cause l1 l2 t :
  done_list cfg i cause (l1 ++ l2) t = done_list cfg i cause l2 (done_list cfg i cause l1 t).
Proof. unfold done_list. by rewrite fold_left_app. Qed.

Lemma done1_now cfg i cause t c : t_now (done1 cfg i cause t c) = t_now t.
Proof.
  unfold done1. destruct (findw (c_wid c) (t_waiters t)) as [|w rest] eqn:E.
  - by rewrite wd_unknown.
  - by erewrite wd_known.
Qed.
Lemma done1_pending cfg i cause t c : t_pending (done1 cfg i cause t c) = t_pending t.
Proof.
  unfold done1. destruct (findw (c_wid c) (t_waiters t)) as [|w rest] eqn:E.
  - by rewrite wd_unknown.
  - by erewrite wd_known.
Qed.
Lemma done1_mem cfg i cause t c : t_mem (done1 cfg i cause t c) = t_mem t.
Proof.
  unfold done1. destruct (findw (c_wid c) (t_waiters t)) as [|w rest] eqn:E.
  - by rewrite wd_unknown.
  - by erewrite wd_known.
Qed.
Lemma done_list_mem cfg i cause cs t : t_mem (done_list cfg i cause cs t) = t_mem t.
Proof. revert t. induction cs as [|c cs IH]; intros t; [done|]. simpl. by rewrite IH, done1_mem. Qed.
Lemma done1_sids cfg i cause t c : t_sids (done1 cfg i cause t c) = t_sids t.
Proof.
  unfold done1. destruct (findw (c_wid c) (t_waiters t)) as [|w rest] eqn:E.
  - by rewrite wd_unknown.
  - by erewrite wd_known.
Qed.
Lemma done_list_sids cfg i cause cs t : t_sids (done_list cfg i cause cs t) = t_sids t.
Proof. revert t. induction cs as [|c cs IH]; intros t; [done|]. simpl. by rewrite IH, done1_sids. Qed.
Lemma done_list_now cfg i cause cs t : t_now (done_list cfg i cause cs t) = t_now t.
Proof. revert t. induction cs as [|c cs IH]; intros t; [done|]. simpl. by rewrite IH, done1_now. Qed.
Lemma done_list_pending cfg i cause cs t : t_pending (done_list cfg i cause cs t) = t_pending t.
Proof. revert t. induction cs as [|c cs IH]; intros t; [done|]. simpl. by rewrite IH, done1_pending. Qed.
