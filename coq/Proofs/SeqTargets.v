(** Target statements about Mseq, as [Prop]s, so that the statements are fixed in one place and
    type-checked before anybody proves them. [Lemma C07_inert : T_C07_inert.] etc. are proved in
    Proofs/SeqReq.v (request level) and Proofs/SeqTime.v (time / session level); the property files
    instantiate them with [inv_reachable]. No proofs here. *)
From Ldlm Require Import Model.Base Model.Err Model.Seq Proofs.SeqDefs.
Local Open Scope Z_scope.

Definition is_request (ev : event) : Prop :=
  match ev with ETryLock _ _ _ _ _ | ELock _ _ _ _ _ _ _ | EUnlock _ _ _ | ERenew _ _ _ => True | _ => False end.

(** ** C12 — validation *)

(** the refusal the property text prescribes, in the order the text gives, read off the state *)
Definition refusal (blocking : bool) (sid : option str) (name : str) (size lt wt : option Z) (s : sstate) : option err :=
  match sid with None => Some ESrvSessionDoesNotExist | Some _ =>
  if opt_neg lt then Some ESrvInvalidLockTimeout else
  if blocking && opt_neg wt then Some ESrvInvalidWaitTimeout else
  if bool_decide (name = []) then Some ESrvEmptyName else
  if default 1 size <=? 0 then Some ELockInvalidLockSize else
  match st_locks s !! name with
  | Some o => if bool_decide (lo_size o = default 1 size) then None else Some ELockSizeMismatch
  | None => None
  end end.

Definition T_C12_trylock : Prop := ∀ cfg s sid name size lt key s' o,
  (s', o) ∈ sstep cfg s (ETryLock sid name size lt key) →
  match refusal false sid name size lt None s with
  | Some e => (∃ k, o = [OResp (RLock false k (Some e))]) ∧ obs_eq s s'
  | None => ∃ b, o = [OResp (RLock b key None)]
  end.

Definition T_C12_lock : Prop := ∀ cfg s wid sid name size lt wt key s' o,
  (s', o) ∈ sstep cfg s (ELock wid sid name size lt wt key) →
  match refusal true sid name size lt wt s with
  | Some e => (∃ k, o = [OResp (RLock false k (Some e))]) ∧ obs_eq s s'
  | None => o = [OResp (RLock true key None)] ∨ o = [OResp RBlocked]
  end.

Definition T_C12_renew_refusal : Prop := ∀ cfg s name key lt s' o,
  lt ≤ 0 → (s', o) ∈ sstep cfg s (ERenew name key lt) →
  o = [OResp (RLock false [] (Some ESrvInvalidLockTimeout))] ∧ s' = s.

(** absent ≡ 0 for lock and wait timeouts, absent size ≡ 1 (a parked call remembers the lock timeout it was
    given; [norm_waiters] identifies "absent" and "not positive" there, which is how it is used) *)
Definition norm_lt (lt : option Z) : option Z :=
  match lt with Some t => if 0 <? t then Some t else None | None => None end.
Definition norm_waiters (s : sstate) : sstate :=
  SState (st_locks s) (st_sessions s) (st_timers s)
         (map (λ w, Waiter (w_id w) (w_sid w) (w_name w) (w_key w) (w_size w) (norm_lt (w_lt w)) (w_deadline w)) (st_waiters s))
         (st_file s) (st_now s) (st_gc_next s) (st_shut s) (st_used s).
Definition T_C12_absent : Prop := ∀ cfg s wid sid name size lt wt key,
  sstep cfg s (ETryLock sid name size None key) = sstep cfg s (ETryLock sid name size (Some 0) key) ∧
  sstep cfg s (ETryLock sid name None lt key) = sstep cfg s (ETryLock sid name (Some 1) lt key) ∧
  map (λ '(s1, o1), (norm_waiters s1, o1)) (sstep cfg s (ELock wid sid name size None wt key))
    = map (λ '(s1, o1), (norm_waiters s1, o1)) (sstep cfg s (ELock wid sid name size (Some 0) wt key)) ∧
  sstep cfg s (ELock wid sid name size lt None key) = sstep cfg s (ELock wid sid name size lt (Some 0) key) ∧
  sstep cfg s (ELock wid sid name None lt wt key) = sstep cfg s (ELock wid sid name (Some 1) lt wt key).

(** a lock's size is fixed while the object stays mapped (and across restarts, by its holds) *)
Definition T_C12_size_fixed : Prop := ∀ cfg s ev s' o n o1 o2,
  Inv cfg s → ev_ok s ev → (s', o) ∈ sstep cfg s ev →
  st_locks s !! n = Some o1 → st_locks s' !! n = Some o2 →
  (∀ t, ev ≠ EAdvance t) → (∀ l, ev ≠ ERestart l) →     (* an object collected by GC / dropped by a restart is a new lock *)
  lo_size o2 = lo_size o1.

(** ** C07 — failed requests are inert; no cross-talk *)

Definition T_C07_inert : Prop := ∀ cfg s ev s' o,
  Inv cfg s → ev_ok s ev → is_request ev → (s', o) ∈ sstep cfg s ev → is_failure o → obs_eq s s'.

(** a refused TryLock (no error) changes nothing observable either *)
Definition T_C07_refused_inert : Prop := ∀ cfg s sid name size lt key s' k,
  Inv cfg s → (s', [OResp (RLock false k None)]) ∈ sstep cfg s (ETryLock sid name size lt key) → obs_eq s s'.

Definition T_C07_ipc_inert : Prop := ∀ cfg s name key s' o e,
  Inv cfg s → (s', o) ∈ sstep cfg s (EIpcUnlock name key) → OIpcUnlock None (Some e) ∈ o → obs_eq s s'.

(** the (name,key) a request addresses; Lock/TryLock address their own fresh key *)
Definition addresses (ev : event) (n k : str) : Prop :=
  match ev with
  | ETryLock _ name _ _ key | ELock _ _ name _ _ _ key => n = name ∧ k = key
  | EUnlock _ name key | ERenew name key _ | EIpcUnlock name (Some key) => n = name ∧ k = key
  | _ => False
  end.

(** every hold other than the addressed one keeps its view, whatever names and keys are *)
Definition T_C07_frame : Prop := ∀ cfg s ev s' o n k n' k',
  Inv cfg s → ev_ok s ev → (s', o) ∈ sstep cfg s ev → addresses ev n' k' →
  (n, k) ≠ (n', k') → live s n k → hold_same s s' n k.

(** ** C04 — leases *)

Definition T_C04_grant_lease : Prop := ∀ cfg s sid name size lt key s',
  Inv cfg s → ev_ok s (ETryLock (Some sid) name size lt key) →
  (s', [OResp (RLock true key None)]) ∈ sstep cfg s (ETryLock (Some sid) name size lt key) →
  live s' name key ∧
  st_timers s' !! tkey name key =
    match lt with
    | Some t => if 0 <? t then Some (Timer (st_now s + t * second) name key sid) else None
    | None => None
    end.

(** the only ways a hold ends: Unlock of its key (client or admin), end of its session without no-clear,
    its lease deadline being reached, a restart without state file. Nothing releases it earlier. *)
Definition T_C04_only_ends_by : Prop := ∀ cfg s ev s' o n k,
  Inv cfg s → ev_ok s ev → (s', o) ∈ sstep cfg s ev → live s n k → ¬ live s' n k →
  (∃ sid, ev = EUnlock sid n k) ∨ (∃ ko, ev = EIpcUnlock n ko) ∨
  (∃ sid sz, ev = EDisconnect sid ∧ listed s sid (Clock n k sz) ∧ c_noclear cfg = false ∧ st_shut s = false) ∨
  (∃ dt t, ev = EAdvance dt ∧ st_timers s !! tkey n k = Some t ∧ tm_deadline t ≤ st_now s + Z.max 0 dt) ∨
  (∃ l, ev = ERestart l ∧ (c_file cfg = false ∨ c_default_lt cfg ≤ 0)).

(** prompt expiry: an advance that reaches the deadline ends the hold within that event *)
Definition T_C04_expires : Prop := ∀ cfg s dt s' o n k t,
  cfg_ok cfg → Inv cfg s → (s', o) ∈ sstep cfg s (EAdvance dt) →
  st_timers s !! tkey n k = Some t → tm_deadline t ≤ st_now s + Z.max 0 dt →
  ¬ live s' n k ∧ st_timers s' !! tkey n k = None.

(** a lease that is not reached is not touched by the passing of time *)
Definition T_C04_keeps : Prop := ∀ cfg s dt s' o n k,
  Inv cfg s → (s', o) ∈ sstep cfg s (EAdvance dt) → live s n k →
  match st_timers s !! tkey n k with Some t => st_now s + Z.max 0 dt < tm_deadline t | None => True end →
  live s' n k ∧ st_timers s' !! tkey n k = st_timers s !! tkey n k.

Definition T_C04_renew : Prop := ∀ cfg s n k lt s' o,
  0 < lt → (s', o) ∈ sstep cfg s (ERenew n k lt) →
  match st_timers s !! tkey n k with
  | Some t => o = [OResp (RLock true k None)] ∧
              st_timers s' = <[tkey n k := Timer (st_now s + lt * second) (tm_name t) (tm_key t) (tm_sid t)]> (st_timers s) ∧
              st_locks s' = st_locks s ∧ st_sessions s' = st_sessions s ∧ st_waiters s' = st_waiters s ∧ st_file s' = st_file s
  | None => o = [OResp (RLock false k (Some ESrvDoesNotExistOrInvalidKey))] ∧ s' = s
  end.

(** after it has ended the key is dead: Unlock and Renew with it fail (and are inert by C07) *)
Definition T_C04_dead_key : Prop := ∀ cfg s sid n k lt s' o,
  Inv cfg s → ¬ live s n k →
  ((s', o) ∈ sstep cfg s (EUnlock sid n k) → ∃ e, o = [OResp (RUnlock false (Some e))]) ∧
  (0 < lt → (s', o) ∈ sstep cfg s (ERenew n k lt) → o = [OResp (RLock false k (Some ESrvDoesNotExistOrInvalidKey))]).

(** a live hold can always be unlocked with its key, from any session or none *)
Definition T_unlock_live : Prop := ∀ cfg s sid n k s' o,
  Inv cfg s → live s n k → (s', o) ∈ sstep cfg s (EUnlock sid n k) →
  OResp (RUnlock true None) ∈ o ∧ ¬ live s' n k ∧ st_timers s' !! tkey n k = None.

(** ** C10 — restart *)

Definition T_C10_restore : Prop := ∀ cfg s order s' o,
  cfg_ok cfg → Inv cfg s → c_file cfg = true → (s', o) ∈ sstep cfg s (ERestart order) →
  o = [] ∧ st_now s' = st_now s ∧
  (∀ c, in_table s' c → c ∈ listing s) ∧                      (* ended holds stay ended *)
  (0 < c_default_lt cfg →
     ∀ c, c ∈ listing s →
       in_table s' c ∧ c ∈ listing s' ∧
       ∃ sid, listed s' sid c ∧
              st_timers s' !! tkey (cl_name c) (cl_key c) =
                Some (Timer (st_now s + c_default_lt cfg) (cl_name c) (cl_key c) sid)) ∧
  (c_default_lt cfg ≤ 0 → ∀ c, ¬ in_table s' c).

Definition T_C10_nofile : Prop := ∀ cfg s order s' o,
  cfg_ok cfg → c_file cfg = false → (s', o) ∈ sstep cfg s (ERestart order) →
  st_locks s' = ∅ ∧ st_sessions s' = ∅ ∧ st_timers s' = ∅ ∧ st_waiters s' = [].

(** ** C18 — admin IPC *)

Definition T_C18_list : Prop := ∀ cfg s s' o,
  (s', o) ∈ sstep cfg s EIpcList → s' = s ∧ o = [OIpcList (listing s)].

(** unlock by name and key has exactly the effect of a client's Unlock *)
Definition T_C18_unlock_key : Prop := ∀ cfg s n k s' o,
  k ≠ [] → (s', o) ∈ sstep cfg s (EIpcUnlock n (Some k)) →
  ∃ outs u e, (s', outs ++ [OResp (RUnlock u e)]) ∈ sstep cfg s (EUnlock None n k) ∧
              o = outs ++ [match e with None => OIpcUnlock (Some u) None | Some e' => OIpcUnlock None (Some e') end].

(** unlock by name alone releases some listed hold of that name, or reports that none exists *)
Definition T_C18_unlock_name : Prop := ∀ cfg s n s' o,
  Inv cfg s → (s', o) ∈ sstep cfg s (EIpcUnlock n None) →
  (∃ k sz, Clock n k sz ∈ listing s ∧ (s', o) ∈ sstep cfg s (EIpcUnlock n (Some k))) ∨
  (((∀ k sz, Clock n k sz ∉ listing s) ∨ (∃ sz, Clock n [] sz ∈ listing s)) ∧
   s' = s ∧ o = [OIpcUnlock None (Some ELockDoesNotExist)]).

(** ** C06 — session end (quiescent version) *)

Definition T_C06_clear : Prop := ∀ cfg s sid s' o,
  Inv cfg s → c_noclear cfg = false → st_shut s = false → (s', o) ∈ sstep cfg s (EDisconnect sid) →
  st_sessions s' !! sid = None ∧
  (∀ c, listed s sid c → ¬ in_table s' c ∧ st_timers s' !! tkey (cl_name c) (cl_key c) = None) ∧
  (∀ sid2 c, sid2 ≠ sid → listed s sid2 c → hold_same s s' (cl_name c) (cl_key c)) ∧
  (∀ w, w ∈ st_waiters s → w_sid w = sid → w ∉ st_waiters s').

Definition T_C06_noclear : Prop := ∀ cfg s sid s' o,
  Inv cfg s → c_noclear cfg = true → (s', o) ∈ sstep cfg s (EDisconnect sid) →
  st_locks s' = st_locks s ∧ st_timers s' = st_timers s ∧
  (∀ c, listed s sid c → listed s' sid c) ∧
  (∀ sid2 c, listed s sid2 c → hold_same s s' (cl_name c) (cl_key c)).

(** ** C03 — parked calls (quiescent version) *)

(** capacity freed on a lock goes to the call that has been parked on it longest *)
Definition T_C03_fifo : Prop := ∀ cfg name s s' o w,
  hand_off cfg name s = (s', o) → OWaiter (w_id w) (st_now s) (RLock true (w_key w) None) ∈ o → w ∈ st_waiters s →
  ∃ pre post, st_waiters s = pre ++ w :: post ∧ (∀ w', w' ∈ pre → w_name w' ≠ name) ∧ w_name w = name.

(** a wait timeout is reported exactly at its deadline, never earlier; and by the end of an advance that
    reaches the deadline the call is no longer parked *)
Definition T_C03_timeout_exact : Prop := ∀ cfg s dt s' o wid at_ k,
  Inv cfg s → (s', o) ∈ sstep cfg s (EAdvance dt) →
  OWaiter wid at_ (RLock false k (Some ESrvLockWaitTimeout)) ∈ o →
  ∃ w, w ∈ st_waiters s ∧ w_id w = wid ∧ w_deadline w = Some at_ ∧ at_ ≤ st_now s + Z.max 0 dt.

Definition T_C03_timeout_prompt : Prop := ∀ cfg s dt s' o w d,
  cfg_ok cfg → Inv cfg s → (s', o) ∈ sstep cfg s (EAdvance dt) →
  w ∈ st_waiters s → w_deadline w = Some d → d ≤ st_now s + Z.max 0 dt →
  (∀ w', w' ∈ st_waiters s' → w_id w' ≠ w_id w) ∧
  (∃ at_ r, OWaiter (w_id w) at_ r ∈ o ∧ at_ ≤ d).

Definition T_C03_cancel : Prop := ∀ cfg s wid s' o w,
  Inv cfg s → (s', o) ∈ sstep cfg s (ECancel wid) → w ∈ st_waiters s → w_id w = wid →
  o = [OWaiter wid (st_now s) (RLock false (w_key w) (Some ECtxCanceled))] ∧
  (∀ w', w' ∈ st_waiters s' → w_id w' ≠ wid) ∧ st_locks s' = st_locks s ∧ st_sessions s' = st_sessions s.

(** ** C11 — graceful shutdown (quiescent version) *)

Definition T_C11_shutdown : Prop := ∀ cfg s s' o,
  (s', o) ∈ sstep cfg s EShutdown →
  st_sessions s' = st_sessions s ∧ st_file s' = st_file s ∧ st_locks s' = st_locks s ∧ st_waiters s' = [] ∧
  (∀ w, w ∈ st_waiters s → OWaiter (w_id w) (st_now s) (RLock false (w_key w) (Some ECtxCanceled)) ∈ o) ∧
  (∀ x, x ∈ o → ∃ wid k, x = OWaiter wid (st_now s) (RLock false k (Some ECtxCanceled))).

(** ** C13 — garbage collection *)

(** a GC run removes only locks with no key, no parked call, idle for longer than min-idle, and touches nothing else *)
Definition T_C13_gc_only_idle : Prop := ∀ cfg t s,
  let s' := run_gc_until cfg t s in
  st_sessions s' = st_sessions s ∧ st_timers s' = st_timers s ∧ st_waiters s' = st_waiters s ∧
  st_file s' = st_file s ∧ st_now s' = st_now s ∧
  (∀ n o, st_locks s' !! n = Some o → st_locks s !! n = Some o) ∧
  (∀ n o, st_locks s !! n = Some o → st_locks s' !! n = None →
     lo_keys o = [] ∧ name_waiters n (st_waiters s) = [] ∧ c_gc_minidle cfg < t - lo_last o).

(** GC is invisible: a request on a state in which idle empty locks were collected is answered as on the
    uncollected state, except that a size mismatch can disappear (the lock is created again with the new size) *)
Definition gc_related (s g : sstate) : Prop :=
  st_sessions g = st_sessions s ∧ st_timers g = st_timers s ∧ st_waiters g = st_waiters s ∧
  st_file g = st_file s ∧ st_now g = st_now s ∧ st_shut g = st_shut s ∧
  (∀ n o, st_locks g !! n = Some o → st_locks s !! n = Some o) ∧
  (∀ n o, st_locks s !! n = Some o → st_locks g !! n = None → lo_keys o = [] ∧ name_waiters n (st_waiters s) = []).

Definition T_C13_invisible : Prop := ∀ cfg s g ev s' o,
  Inv cfg s → gc_related s g → is_request ev → (s', o) ∈ sstep cfg s ev →
  ∃ g' o', (g', o') ∈ sstep cfg g ev ∧
           ((o' = o ∧ gc_related s' g')
            ∨ (∃ k, o = [OResp (RLock false k (Some ELockSizeMismatch))])
            ∨ (∃ e e', o = [OResp (RUnlock false (Some e))] ∧ o' = [OResp (RUnlock false (Some e'))] ∧ gc_related s' g')).
