(** Codec proofs, part 1: bytes, varint and int32 arithmetic, buffer suffixes. *)
From Coq Require Import Lia ZifyBool ZifyNat ZifyN.
From Ldlm Require Import Model.Base Model.Codec.

Local Open Scope N_scope.

(** * Bytes *)

Lemma byte_to_N_lt (c : byte) : Byte.to_N c < 256.
Proof. pose proof (Byte.to_N_bounded c). lia. Qed.

Lemma byte_of_N_to_N (v : N) : v < 256 -> Byte.to_N (byte_of_N v) = v.
Proof.
  intros Hv. unfold byte_of_N.
  pose proof (Byte.to_of_N_option_map v) as H.
  destruct (Byte.of_N v) as [c|] eqn:E; cbn in H.
  - destruct (v <=? 255) eqn:E2; congruence.
  - destruct (v <=? 255) eqn:E2; [congruence | lia].
Qed.

Lemma byte_of_N_of_to (c : byte) : byte_of_N (Byte.to_N c) = c.
Proof. unfold byte_of_N. by rewrite Byte.of_to_N. Qed.

(** * or / shift as plus / times *)

Lemma N_land_low_high x c s : x < 2 ^ s -> N.land x (c * 2 ^ s) = 0.
Proof.
  intros Hx. apply N.bits_inj. intros k. rewrite N.land_spec, N.bits_0.
  destruct (N.lt_ge_cases k s) as [Hk|Hk].
  - rewrite N.mul_pow2_bits_low by done. apply andb_false_r.
  - rewrite <- (N.mod_small x (2 ^ s)) by done.
    rewrite N.mod_pow2_bits_high by done. done.
Qed.

Lemma N_lor_add x c s : x < 2 ^ s -> N.lor x (c * 2 ^ s) = x + c * 2 ^ s.
Proof.
  intros Hx. rewrite <- N.lxor_lor by (by apply N_land_low_high).
  symmetry. apply N.add_nocarry_lxor. by apply N_land_low_high.
Qed.

Lemma N_lor_shiftl_add x c s : x < 2 ^ s -> N.lor x (N.shiftl c s) = x + c * 2 ^ s.
Proof. intros. rewrite N.shiftl_mul_pow2. by apply N_lor_add. Qed.

Lemma Z_land_low_high (x c s : Z) :
  (0 <= x < 2 ^ s)%Z -> (0 <= s)%Z -> Z.land x (c * 2 ^ s) = 0%Z.
Proof.
  intros Hx Hs. apply Z.bits_inj'. intros k Hk. rewrite Z.land_spec, Z.bits_0.
  destruct (Z.lt_ge_cases k s) as [Hks|Hks].
  - rewrite Z.mul_pow2_bits_low by lia. apply andb_false_r.
  - rewrite <- (Z.mod_small x (2 ^ s)) by lia.
    rewrite Z.mod_pow2_bits_high by lia. done.
Qed.

Lemma Z_lor_shiftl_add (x c s : Z) :
  (0 <= x < 2 ^ s)%Z -> (0 <= s)%Z ->
  Z.lor x (Z.shiftl c s) = (x + c * 2 ^ s)%Z.
Proof.
  intros Hx Hs. rewrite Z.shiftl_mul_pow2 by done.
  rewrite <- Z.lxor_lor by (by apply Z_land_low_high).
  symmetry. apply Z.add_nocarry_lxor. by apply Z_land_low_high.
Qed.

(** [byte(v) | 0x80] *)
Lemma lor_128 w : w < 256 -> N.lor w 128 = w mod 128 + 128.
Proof.
  intros Hw.
  pose proof (N.div_mod w 128 ltac:(done)) as Hdm.
  pose proof (N.mod_lt w 128 ltac:(done)) as Hm.
  assert (Hq : w / 128 = 0 \/ w / 128 = 1).
  { assert (w / 128 < 2) by (apply N.div_lt_upper_bound; lia). lia. }
  change 128 with (1 * 2 ^ 7) at 1.
  destruct Hq as [Hq|Hq].
  - rewrite Hq in Hdm. rewrite N_lor_add by (cbn; lia). cbn. lia.
  - rewrite Hq in Hdm.
    assert (Hw' : w = N.lor (w mod 128) (1 * 2 ^ 7)).
    { rewrite N_lor_add by (cbn; lia). cbn. lia. }
    rewrite Hw' at 1. rewrite <- N.lor_assoc, N.lor_diag.
    rewrite N_lor_add by (cbn; lia). cbn. lia.
Qed.

(** * Varint *)

Lemma u64_small v : v < 2 ^ 64 -> u64 v = v.
Proof. intros. unfold u64. by apply N.mod_small. Qed.

Lemma marshal_uint_loop_length_le f v : (length (marshal_uint_loop f v) <= f)%nat.
Proof.
  revert v. induction f as [|f IH]; intros v; cbn [marshal_uint_loop length]; [lia|].
  destruct (v <? 128); cbn [length]; [lia|]. specialize (IH (N.shiftr v 7)). lia.
Qed.

Lemma size_uint_loop_spec f v i :
  size_uint_loop f v i = i + blen (marshal_uint_loop f v).
Proof.
  revert v i. induction f as [|f IH]; intros v i; cbn [size_uint_loop marshal_uint_loop].
  - unfold blen. cbn. lia.
  - destruct (v <? 128).
    + unfold blen. cbn. lia.
    + rewrite IH. unfold blen. cbn [length]. lia.
Qed.

Lemma size_uint_spec v : size_uint v = blen (marshal_uint v).
Proof. unfold size_uint, marshal_uint. rewrite size_uint_loop_spec. lia. Qed.

Lemma marshal_uint_loop_nonempty f v : (0 < f)%nat -> (1 <= length (marshal_uint_loop f v))%nat.
Proof.
  destruct f; [lia|]. intros _. cbn [marshal_uint_loop]. destruct (v <? 128); cbn [length]; lia.
Qed.

Lemma marshal_uint_length v : 1 <= blen (marshal_uint v) <= 10.
Proof.
  unfold blen, marshal_uint.
  pose proof (marshal_uint_loop_length_le 10 (u64 v)).
  pose proof (marshal_uint_loop_nonempty 10 (u64 v)). lia.
Qed.

Lemma pow2_s_bound (v s : N) : 128 <= v -> v * 2 ^ s < 2 ^ 64 -> s + 7 < 64.
Proof.
  intros Hv H.
  apply (N.pow_lt_mono_r_iff 2); [lia|].
  rewrite N.pow_add_r. change (2 ^ 7) with 128. nia.
Qed.

(** Decoding what the marshal loop produced, from any loop state. *)
Lemma uvarint_marshal_loop f : forall v i x s r,
  x < 2 ^ s -> v * 2 ^ s < 2 ^ 64 -> s = 7 * i -> i + N.of_nat f = 10 -> i <= 9 ->
  uvarint_loop (marshal_uint_loop f v ++ r) i x s
  = Ok (i + blen (marshal_uint_loop f v), x + v * 2 ^ s).
Proof.
  induction f as [|f IH]; intros v i x s r Hx Hv Hs Hi Hi9; [lia|].
  cbn [marshal_uint_loop].
  destruct (v <? 128) eqn:Ev.
  - (* last byte *)
    cbn [app uvarint_loop]. unfold max_varint_len.
    replace (i =? 10) with false by lia.
    rewrite byte_of_N_to_N by lia. rewrite Ev.
    assert (Hc : (i =? 10 - 1) && (1 <? v) = false).
    { destruct (i =? 10 - 1) eqn:E9; [|done]. cbn [andb].
      assert (i = 9) by lia. subst i s.
      change (2 ^ (7 * 9)) with 9223372036854775808 in Hv.
      change (2 ^ 64) with 18446744073709551616 in Hv. lia. }
    rewrite Hc. rewrite N.shiftl_mul_pow2, u64_small by done.
    rewrite N_lor_add by done. unfold blen. cbn [length]. done.
  - (* continuation byte *)
    assert (Hv128 : 128 <= v) by lia.
    pose proof (pow2_s_bound v s Hv128 Hv) as Hs7.
    cbn [app uvarint_loop]. unfold max_varint_len.
    replace (i =? 10) with false by lia.
    assert (Hm : v mod 256 < 256) by (apply N.mod_lt; lia).
    rewrite lor_128 by done.
    assert (Hmm : (v mod 256) mod 128 = v mod 128).
    { change 256 with (128 * 2). rewrite N.mod_mul_r by lia.
      rewrite N.mul_comm, N.mod_add by lia. apply N.mod_mod. lia. }
    rewrite Hmm.
    assert (Hm128 : v mod 128 < 128) by (apply N.mod_lt; lia).
    rewrite byte_of_N_to_N by lia.
    replace (v mod 128 + 128 <? 128) with false by lia.
    change 127 with (N.ones 7). rewrite N.land_ones. change (2 ^ 7) with 128.
    replace ((v mod 128 + 128) mod 128) with (v mod 128).
    2:{ rewrite <- (N.mul_1_l 128) at 3. rewrite N.mod_add by lia. by rewrite N.mod_mod by lia. }
    assert (Hp : 2 ^ (s + 7) = 2 ^ s * 128) by (rewrite N.pow_add_r; done).
    assert (Hlt : 2 ^ (s + 7) < 2 ^ 64) by (apply N.pow_lt_mono_r; lia).
    rewrite N.shiftl_mul_pow2, u64_small by nia.
    rewrite N_lor_add by done.
    pose proof (N.div_mod v 128 ltac:(done)) as Hdm.
    rewrite IH.
    + rewrite N.shiftr_div_pow2. change (2 ^ 7) with 128.
      unfold blen. cbn [length]. f_equal. f_equal; [lia|]. rewrite Hp. nia.
    + rewrite Hp. nia.
    + rewrite N.shiftr_div_pow2. change (2 ^ 7) with 128. rewrite Hp.
      assert (v / 128 * 128 <= v) by (rewrite N.mul_comm; apply N.mul_div_le; lia). nia.
    + lia.
    + lia.
    + lia.
Qed.

Lemma uvarint_marshal v r :
  v < 2 ^ 64 ->
  uvarint_loop (marshal_uint v ++ r) 0 0 0 = Ok (blen (marshal_uint v), v).
Proof.
  intros Hv. unfold marshal_uint. rewrite u64_small by done.
  rewrite uvarint_marshal_loop; [|cbn; lia..].
  f_equal. f_equal; cbn; lia.
Qed.

(** * Int32 *)

Lemma byte_of_Z_to_Z z : (0 <= z < 256)%Z -> Z.of_N (Byte.to_N (byte_of_Z z)) = z.
Proof. intros. unfold byte_of_Z. rewrite byte_of_N_to_N by lia. lia. Qed.

Lemma wrap32_bytes (v : Z) :
  (- 2 ^ 31 <= v < 2 ^ 31)%Z ->
  wrap32 (v mod 256 + (v / 2 ^ 8) mod 256 * 2 ^ 8 + (v / 2 ^ 16) mod 256 * 2 ^ 16
          + (v / 2 ^ 24) mod 256 * 2 ^ 24)%Z = v.
Proof.
  intros Hv. unfold wrap32.
  change (2 ^ 8)%Z with 256%Z. change (2 ^ 16)%Z with 65536%Z.
  change (2 ^ 24)%Z with 16777216%Z. change (2 ^ 31)%Z with 2147483648%Z in *.
  change (2 ^ 32)%Z with 4294967296%Z.
  match goal with |- context [(?e mod 4294967296)%Z] => set (u := e) end.
  assert (Hu : (u = v mod 4294967296)%Z).
  { subst u. Z.div_mod_to_equations. lia. }
  rewrite Hu. rewrite Z.mod_mod by lia.
  destruct (v mod 4294967296 <? 2147483648)%Z eqn:E; Z.div_mod_to_equations; lia.
Qed.

Lemma int32_lor_bytes (v : Z) :
  (- 2 ^ 31 <= v < 2 ^ 31)%Z ->
  let z (c : byte) := Z.of_N (Byte.to_N c) in
  match marshal_int32 v with
  | [u0; u1; u2; u3] =>
    wrap32 (Z.lor (Z.lor (Z.lor (z u0) (Z.shiftl (z u1) 8)) (Z.shiftl (z u2) 16))
                  (Z.shiftl (z u3) 24)) = v
  | _ => False
  end.
Proof.
  intros Hv z. unfold marshal_int32. subst z. cbv beta.
  rewrite !Z.shiftr_div_pow2 by lia.
  assert (H0 : (0 <= v mod 256 < 256)%Z) by (apply Z.mod_pos_bound; lia).
  assert (H1 : (0 <= (v / 2 ^ 8) mod 256 < 256)%Z) by (apply Z.mod_pos_bound; lia).
  assert (H2 : (0 <= (v / 2 ^ 16) mod 256 < 256)%Z) by (apply Z.mod_pos_bound; lia).
  assert (H3 : (0 <= (v / 2 ^ 24) mod 256 < 256)%Z) by (apply Z.mod_pos_bound; lia).
  rewrite !byte_of_Z_to_Z by done.
  rewrite (Z_lor_shiftl_add _ _ 8) by lia.
  rewrite (Z_lor_shiftl_add _ _ 16) by lia.
  rewrite (Z_lor_shiftl_add _ _ 24) by lia.
  by apply wrap32_bytes.
Qed.

(** * Buffers: lengths and suffixes *)

Lemma blen_nil : blen [] = 0.
Proof. done. Qed.
Lemma blen_cons c l : blen (c :: l) = 1 + blen l.
Proof. unfold blen. cbn [length]. lia. Qed.
Lemma blen_app a b : blen (a ++ b) = blen a + blen b.
Proof. unfold blen. rewrite app_length. lia. Qed.
Lemma to_nat_blen l : N.to_nat (blen l) = length l.
Proof. unfold blen. lia. Qed.

Lemma tail_at_blen b n : n <= blen b -> blen (tail_at b n) = blen b - n.
Proof. intros. unfold tail_at, blen in *. rewrite drop_length. lia. Qed.

Lemma tail_at_beyond b n : blen b <= n -> tail_at b n = [].
Proof. intros. unfold tail_at, blen in *. apply drop_ge. lia. Qed.

Lemma tail_at_add b n k : tail_at b (n + k) = drop (N.to_nat k) (tail_at b n).
Proof. unfold tail_at. rewrite drop_drop. f_equal. lia. Qed.

(** "the bytes of [b] from offset [n] on are [r]" *)
Definition suffix_at (b : list byte) (n : N) (r : list byte) : Prop :=
  n <= blen b /\ tail_at b n = r.

Lemma suffix_at_0 b : suffix_at b 0 b.
Proof. split; [lia|]. unfold tail_at. done. Qed.

Lemma suffix_at_blen b n r : suffix_at b n r -> blen b = n + blen r.
Proof. intros [Hle <-]. rewrite tail_at_blen by done. lia. Qed.

Lemma suffix_at_app b n x r : suffix_at b n (x ++ r) -> suffix_at b (n + blen x) r.
Proof.
  intros H. pose proof (suffix_at_blen _ _ _ H) as Hl. destruct H as [Hle Ht].
  rewrite blen_app in Hl. split; [lia|].
  rewrite tail_at_add, Ht, to_nat_blen. apply drop_app.
Qed.

Lemma suffix_at_tail b n : n <= blen b -> suffix_at b n (tail_at b n).
Proof. by split. Qed.
