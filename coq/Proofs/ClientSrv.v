(** Proofs of the statements of Proofs/ClientSrvDefs.v: what Mclient needs to know about Mseq.
    Self-contained (only Model/*, SeqLemmasKey and ClientSrvDefs are imported). Everything that does not depend on
    the concrete configuration is proved for an arbitrary [cfg] and instantiated with [srv_cfg] at the end. *)
From Coq Require Import Lia ZifyBool ZifyNat ZifyN.
From Ldlm Require Import Model.Base Model.Err Model.Seq Model.Client Proofs.SeqLemmasKey Proofs.ClientSrvDefs.
From RecordUpdate Require Import RecordSet.
Import RecordSetNotations.
Local Open Scope Z_scope.

Local Opaque second.

(** ** Small helpers *)

Lemma tkey_ne n k name key : (n, k) ≠ (name, key) → tkey n k ≠ tkey name key.
Proof. intros Hne E. apply tkey_inj in E as [-> ->]. done. Qed.

Lemma rmf_other k l x : x ≠ k → x ∈ l → x ∈ remove_first k l.
Proof.
  intros Hne. induction l as [|y l IH]; simpl; [done|]. case_bool_decide.
  - rewrite elem_of_cons. intros [->|?]; [congruence|done].
  - rewrite !elem_of_cons. intros [->|?]; auto.
Qed.

Lemma name_waiters_nil name : name_waiters name [] = [].
Proof. reflexivity. Qed.

(** ** Field-by-field effect of the building blocks *)

Section gc.
  Context (cfg : config) (t : Z) (s : sstate).
  Lemma gc_timers : st_timers (run_gc_until cfg t s) = st_timers s.
  Proof. unfold run_gc_until; repeat case_match; done. Qed.
  Lemma gc_waiters : st_waiters (run_gc_until cfg t s) = st_waiters s.
  Proof. unfold run_gc_until; repeat case_match; done. Qed.
  Lemma gc_now : st_now (run_gc_until cfg t s) = st_now s.
  Proof. unfold run_gc_until; repeat case_match; done. Qed.
  Lemma gc_locks_keep n o : st_locks s !! n = Some o → lo_keys o ≠ [] → st_locks (run_gc_until cfg t s) !! n = Some o.
  Proof.
    intros Hl Hne. unfold run_gc_until; repeat case_match; try done. cbn.
    rewrite map_filter_lookup_Some. split; [done|]. unfold gc_collectable.
    repeat case_bool_decide; try done.
  Qed.
  Lemma gc_hld n k : hld s n k → hld (run_gc_until cfg t s) n k.
  Proof.
    intros (o & Ho & Hk). exists o. split; [|done]. apply gc_locks_keep; [done|].
    intros E; rewrite E in Hk. by apply elem_of_nil in Hk.
  Qed.
End gc.

Section rle.
  Context (cfg : config) (n k : str) (s : sstate).
  Lemma rle_locks : st_locks (remove_lock_entry cfg n k s) = st_locks s.
  Proof. unfold remove_lock_entry, save; repeat case_match; done. Qed.
  Lemma rle_timers : st_timers (remove_lock_entry cfg n k s) = st_timers s.
  Proof. unfold remove_lock_entry, save; repeat case_match; done. Qed.
  Lemma rle_waiters : st_waiters (remove_lock_entry cfg n k s) = st_waiters s.
  Proof. unfold remove_lock_entry, save; repeat case_match; done. Qed.
  Lemma rle_now : st_now (remove_lock_entry cfg n k s) = st_now s.
  Proof. unfold remove_lock_entry, save; repeat case_match; done. Qed.
End rle.

Section rg.
  Context (cfg : config) (sid n k : str) (sz : Z) (lt : option Z) (s : sstate).
  Lemma rg_locks : st_locks (record_grant cfg sid n k sz lt s) = st_locks s.
  Proof. unfold record_grant, save; repeat case_match; done. Qed.
  Lemma rg_waiters : st_waiters (record_grant cfg sid n k sz lt s) = st_waiters s.
  Proof. unfold record_grant, save; repeat case_match; done. Qed.
  Lemma rg_now : st_now (record_grant cfg sid n k sz lt s) = st_now s.
  Proof. unfold record_grant, save; repeat case_match; done. Qed.
  Lemma rg_timers : st_timers (record_grant cfg sid n k sz lt s)
     = match lt with
       | Some t => if 0 <? t then <[tkey n k := Timer (st_now s + t * second) n k sid]> (st_timers s) else st_timers s
       | None => st_timers s end.
  Proof. unfold record_grant, save; repeat case_match; done. Qed.
End rg.

(** ** EProbe *)

Lemma f_probe : F_probe.
Proof. intros s. reflexivity. Qed.

(** ** ERenew *)

Lemma renew_facts name key T s s' o : srv_renew name key T s = (s', o) →
  st_now s' = st_now s ∧ st_waiters s' = st_waiters s ∧ (timers_wf s → timers_wf s') ∧
  (∀ n k, (n, k) ≠ (name, key) → tmr s' n k = tmr s n k) ∧
  (∀ n k, hld s n k → hld s' n k) ∧
  (∀ t, tmr s name key = Some t → 0 < T →
     o = [OResp (RLock true key None)] ∧
     tmr s' name key = Some (Timer (st_now s + T * second) (tm_name t) (tm_key t) (tm_sid t))).
Proof.
  unfold srv_renew. destruct (Z.leb_spec T 0) as [HT|HT].
  { intros [= <- <-]. split_and!; auto. intros; lia. }
  destruct (st_timers s !! tkey name key) as [t0|] eqn:Ht.
  2:{ intros [= <- <-]. split_and!; auto. unfold tmr. rewrite Ht. done. }
  intros [= <- <-]. split_and!; try done.
  - intros Hwf tk t. cbn. destruct (decide (tk = tkey name key)) as [->|Hne].
    + rewrite lookup_insert. intros [= <-]. cbn. by apply Hwf.
    + rewrite lookup_insert_ne by done. apply Hwf.
  - intros n k Hne. unfold tmr. cbn. rewrite lookup_insert_ne; [done|]. intros E. symmetry in E. by apply tkey_ne in E.
  - intros t. unfold tmr. rewrite Ht. intros [= <-] _. split; [done|]. cbn. by rewrite lookup_insert.
Qed.

Lemma f_renew : F_renew.
Proof. intros name key T s s' o H. apply renew_facts. exact H. Qed.

(** ** ETryLock / ELock *)

Lemma glc_spec name size s o s1 : get_lock_create name size s = inr (o, s1) →
  s1 = s <| st_locks := <[name := o]> (st_locks s) |> ∧
  (∀ ob, st_locks s !! name = Some ob → lo_keys o = lo_keys ob).
Proof.
  unfold get_lock_create. case_match; [done|]. destruct (st_locks s !! name) as [ob|] eqn:Hl.
  - case_bool_decide; [|done]. intros [= <- <-]. split; [done|]. intros ? [= <-]. done.
  - intros [= <- <-]. split; [done|]. done.
Qed.

Definition acquire_post (sid name key : str) (lt : option Z) (s s' : sstate) (o : list out) : Prop :=
  st_now s' = st_now s ∧ st_waiters s' = st_waiters s ∧ (timers_wf s → timers_wf s') ∧
  (∀ n k, (n, k) ≠ (name, key) → tmr s' n k = tmr s n k) ∧
  (∀ n k, hld s n k → hld s' n k) ∧
  (∀ k' e rest, o = OResp (RLock true k' e) :: rest →
     k' = key ∧ hld s' name key ∧
     ∀ t, lt = Some t → 0 < t → tmr s' name key = Some (Timer (st_now s + t * second) name key sid)).

Lemma acquire_post_refl sid name key lt s k' e : acquire_post sid name key lt s s [OResp (RLock false k' e)].
Proof. unfold acquire_post. split_and!; auto. intros ? ? ? [=]. Qed.

Lemma acquire_facts cfg blocking wid sid name key sz lt wt s s' o :
  srv_acquire cfg blocking wid sid name key sz lt wt s = (s', o) →
  (blocking = true ∧ o = [OResp RBlocked]) ∨ acquire_post sid name key lt s s' o.
Proof.
  unfold srv_acquire. case_bool_decide.
  { intros [= <- <-]. right. apply acquire_post_refl. }
  destruct (get_lock_create name sz s) as [e|[ob s1]] eqn:Hg.
  { intros [= <- <-]. right. apply acquire_post_refl. }
  apply glc_spec in Hg as [-> Hkeys].
  assert (∀ n k, hld s n k → hld (s <| st_locks := <[name := ob]> (st_locks s) |>) n k) as Hh1.
  { intros n k (o' & Ho' & Hin). unfold hld. cbn. destruct (decide (n = name)) as [->|Hn].
    - rewrite lookup_insert. eexists; split; [done|]. by rewrite (Hkeys _ Ho').
    - rewrite lookup_insert_ne by done. eauto. }
  destruct (can_acquire _ _ _) eqn:Hc.
  - intros [= <- <-]. right. unfold add_key. cbn. rewrite lookup_insert, insert_insert.
    unfold acquire_post. rewrite rg_now, rg_waiters. cbn. split; [done|]. split; [done|].
    assert (hld (record_grant cfg sid name key sz lt
                   (s <| st_locks := <[name := ob <| lo_keys := lo_keys ob ++ [key] |>]> (st_locks s) |>)) name key) as Hk.
    { unfold hld. rewrite rg_locks. cbn. rewrite lookup_insert. eexists; split; [done|]. cbn.
      apply elem_of_app. right. by left. }
    split_and!.
    + intros Hwf tk t. rewrite rg_timers. cbn. destruct lt as [t0|]; [|apply Hwf].
      case_match; [|apply Hwf]. destruct (decide (tk = tkey name key)) as [->|Hne].
      * rewrite lookup_insert. by intros [= <-].
      * rewrite lookup_insert_ne by done. apply Hwf.
    + intros n k Hne. unfold tmr. rewrite rg_timers. cbn. repeat case_match; try done.
      rewrite lookup_insert_ne; [done|]. intros E. symmetry in E. by apply tkey_ne in E.
    + intros n k (o' & Ho' & Hin). unfold hld. rewrite rg_locks. cbn. destruct (decide (n = name)) as [->|Hn].
      * rewrite lookup_insert. eexists; split; [done|]. cbn. rewrite (Hkeys _ Ho'). apply elem_of_app. by left.
      * rewrite lookup_insert_ne by done. eauto.
    + intros k' e rest [= <- <- <-]. split; [done|]. split; [exact Hk|].
      intros t -> Ht. unfold tmr. rewrite rg_timers. cbn. destruct (Z.ltb_spec 0 t); [|lia]. by rewrite lookup_insert.
  - destruct blocking.
    + intros [= <- <-]. by left.
    + intros [= <- <-]. right. unfold acquire_post. cbn. split_and!; done.
Qed.

Lemma f_trylock : F_trylock.
Proof.
  intros sid name size lt key s s' o. unfold srv_event. cbn [sstep]. unfold det, srv_trylock.
  destruct (opt_neg lt).
  { intros [= <- <-]. apply acquire_post_refl. }
  intros H. apply acquire_facts in H as [[? _]|H]; [done|exact H].
Qed.

Lemma f_lock : F_lock.
Proof.
  intros wid sid name size lt key s s' locked k' e rest. unfold srv_event. cbn [sstep]. unfold det, srv_lock.
  destruct (opt_neg lt).
  { intros [= <- <- <- <- <-]. split_and!; auto. intros [=]. }
  cbn [opt_neg].
  intros H. apply acquire_facts in H as [[_ [=]]|(H1 & H2 & H3 & H4 & H5 & H6)].
  split_and!; try done.
  intros ->. exact (H6 _ _ _ eq_refl).
Qed.

(** ** EUnlock *)

Lemma hand_off_nowait cfg name s : st_waiters s = [] → hand_off cfg name s = (s, []).
Proof. intros Hw. unfold hand_off. rewrite Hw, name_waiters_nil. by destruct (st_locks s !! name). Qed.

Lemma mgr_unlock_nowait cfg name key s s2 r o :
  st_waiters s = [] → mgr_unlock cfg name key s = (s2, r, o) →
  st_now s2 = st_now s ∧ st_waiters s2 = [] ∧ st_timers s2 = st_timers s ∧ o = [] ∧
  (∀ n k, (n, k) ≠ (name, key) → hld s n k → hld s2 n k).
Proof.
  intros Hw. unfold mgr_unlock. destruct (st_locks s !! name) as [ob|] eqn:Hl.
  2:{ intros [= <- <- <-]. split_and!; auto. }
  case_bool_decide as Hk.
  - destruct (hand_off cfg name _) as [s3 o3] eqn:Hh. rewrite hand_off_nowait in Hh by done.
    injection Hh as <- <-. intros [= <- <- <-]. cbn. split_and!; auto.
    intros n k Hne (o' & Ho' & Hin). unfold hld. cbn. destruct (decide (n = name)) as [->|Hn].
    + rewrite lookup_insert. eexists; split; [done|]. cbn. rewrite Hl in Ho'. injection Ho' as <-.
      apply rmf_other; [|done]. intros ->. done.
    + rewrite lookup_insert_ne by done. eauto.
  - intros [= <- <- <-]. cbn. split_and!; auto.
    intros n k Hne (o' & Ho' & Hin). unfold hld. cbn. destruct (decide (n = name)) as [->|Hn].
    + rewrite lookup_insert. eexists; split; [done|]. cbn. rewrite Hl in Ho'. by injection Ho' as <-.
    + rewrite lookup_insert_ne by done. eauto.
Qed.

Lemma unlock_facts cfg name key s s' r o : srv_unlock cfg name key s = (s', r, o) → st_waiters s = [] →
  st_now s' = st_now s ∧ st_waiters s' = [] ∧ (timers_wf s → timers_wf s') ∧
  (∀ n k, (n, k) ≠ (name, key) → tmr s' n k = tmr s n k) ∧
  (∀ n k, (n, k) ≠ (name, key) → hld s n k → hld s' n k).
Proof.
  unfold srv_unlock. intros H Hw.
  destruct (mgr_unlock cfg name key _) as [[s1 r1] o1] eqn:Hm.
  apply mgr_unlock_nowait in Hm as (Hnow & Hw1 & Ht & -> & Hh); [|exact Hw]. cbn in Hnow, Ht.
  assert (timers_wf s → timers_wf s1) as Hwf.
  { intros Hwf tk t. rewrite Ht. intros [_ ?]%lookup_delete_Some. by apply Hwf. }
  assert (∀ n k, (n, k) ≠ (name, key) → tmr s1 n k = tmr s n k) as Hfr.
  { intros n k Hne. unfold tmr. rewrite Ht. apply lookup_delete_ne. intros E. by apply tkey_ne in E. }
  destruct r1 as [e|[]]; injection H as <- <- <-.
  - split_and!; auto.
  - rewrite rle_now, rle_waiters. split_and!; auto.
    + intros Hs tk t. rewrite rle_timers. by apply Hwf.
    + intros n k Hne. unfold tmr. rewrite rle_timers. by apply Hfr.
    + intros n k Hne Hk. apply (Hh _ _ Hne) in Hk. unfold hld. by rewrite rle_locks.
Qed.

Lemma f_unlock : F_unlock.
Proof.
  intros sid name key s s' o. unfold srv_event. cbn [sstep].
  destruct (srv_unlock srv_cfg name key s) as [[s1 [u e]] o1] eqn:H. unfold det. intros [= <- <-].
  intros Hw. exact (unlock_facts _ _ _ _ _ _ _ H Hw).
Qed.

(** ** The initial state *)

Lemma f_init : F_init.
Proof.
  unfold F_init. split; [reflexivity|]. split; [reflexivity|].
  assert (st_timers srv_init = ∅) as E by reflexivity.
  split; [|exact E]. intros tk t. rewrite E, lookup_empty. done.
Qed.

(** ** EAdvance *)

Lemma list_map_fmap {A B} (f : A → B) l : map f l = f <$> l.
Proof. done. Qed.

(** with nobody waiting, only lease timers can be due *)
Lemma all_items_nowait s d : st_waiters s = [] → d ∈ all_items s → ∃ tk t, d = DTimer tk t ∧ st_timers s !! tk = Some t.
Proof.
  intros Hw. unfold all_items. rewrite Hw. cbn. rewrite app_nil_r, list_map_fmap, elem_of_list_fmap.
  intros ([tk t] & -> & Hin). exists tk, t. split; [done|]. by apply elem_of_map_to_list in Hin.
Qed.

Lemma fold_min_le l m0 : fold_left (λ m d', Z.min m (due_time d')) l m0 ≤ m0.
Proof.
  revert m0. induction l as [|d l IH]; intros m0; simpl; [lia|]. specialize (IH (Z.min m0 (due_time d))). lia.
Qed.

Lemma next_due_elem target s d : d ∈ next_due target s → d ∈ all_items s ∧ due_time d ≤ target.
Proof.
  unfold next_due. destruct (min_time (all_items s)) as [m|]; [|by rewrite elem_of_nil].
  destruct (Z.leb_spec m target); [|by rewrite elem_of_nil].
  rewrite elem_of_list_filter. intros [Hd Hin]. apply Is_true_true, Z.eqb_eq in Hd. split; [done|lia].
Qed.

(** one expiry with nobody waiting *)
Lemma expire_nowait cfg tk t s s2 o : st_waiters s = [] → expire cfg tk t s = (s2, o) →
  st_now s2 = st_now s ∧ st_waiters s2 = [] ∧ st_timers s2 = delete tk (st_timers s) ∧
  (∀ n k, (n, k) ≠ (tm_name t, tm_key t) → hld s n k → hld s2 n k).
Proof.
  intros Hw. unfold expire. destruct (mgr_unlock cfg _ _ s) as [[s1 r] o1] eqn:Hm. intros [= <- <-].
  apply mgr_unlock_nowait in Hm as (Hnow & Hw1 & Ht & -> & Hh); [|exact Hw].
  cbn. rewrite rle_now, rle_waiters, rle_timers, Ht. split_and!; auto.
  intros n k Hne Hk. apply (Hh _ _ Hne) in Hk. unfold hld. cbn. by rewrite rle_locks.
Qed.

Definition adv_post (target : Z) (s s' : sstate) : Prop :=
  st_now s' = target ∧ st_waiters s' = [] ∧ (timers_wf s → timers_wf s') ∧
  (∀ tk t, st_timers s !! tk = Some t → target < tm_deadline t → st_timers s' !! tk = Some t) ∧
  (∀ n k t, timers_wf s → tmr s n k = Some t → target < tm_deadline t → hld s n k → hld s' n k).

Lemma finish_advance_post cfg target s : st_waiters s = [] → st_now s ≤ target →
  adv_post target s (finish_advance cfg target s).
Proof.
  intros Hw Hle. unfold adv_post, finish_advance, timers_wf, tmr, hld. cbn.
  rewrite gc_waiters, gc_timers. split_and!; auto; [lia|].
  intros n k t _ _ _ Hk. by apply gc_hld.
Qed.

Lemma advance_loop_post cfg target : ∀ fuel s outs s' o,
  st_waiters s = [] → st_now s ≤ target → (s', o) ∈ advance_loop cfg fuel target s outs →
  adv_post target s s'.
Proof.
  induction fuel as [|fuel IH]; intros s outs s' o Hw Hle; cbn [advance_loop].
  { intros [= -> ->]%elem_of_list_singleton. by apply finish_advance_post. }
  remember (next_due target s) as nd eqn:Hnd. destruct nd as [|d0 ds].
  { intros [= -> ->]%elem_of_list_singleton. by apply finish_advance_post. }
  intros (d & Hd & Hin)%elem_of_list_In%in_flat_map.
  apply elem_of_list_In in Hd. rewrite Hnd in Hd. clear Hnd d0 ds.
  apply next_due_elem in Hd as [Hd Hdue]. apply (all_items_nowait _ _ Hw) in Hd as (tk & t & -> & Htk).
  cbn [due_time fire] in Hin, Hdue.
  set (s1 := run_gc_until cfg (Z.max (st_now s) (tm_deadline t)) s <| st_now := Z.max (st_now s) (tm_deadline t) |>) in Hin.
  assert (st_waiters s1 = []) as Hw1 by (unfold s1; cbn; by rewrite gc_waiters).
  assert (st_timers s1 = st_timers s) as Ht1 by (unfold s1; cbn; by rewrite gc_timers).
  assert (st_now s1 ≤ target) as Hn1 by (unfold s1; cbn; lia).
  assert (∀ n k, hld s n k → hld s1 n k) as Hh1.
  { intros n k Hk. apply (gc_hld cfg (Z.max (st_now s) (tm_deadline t))) in Hk. exact Hk. }
  clearbody s1.
  destruct (expire cfg tk t s1) as [s2 o2] eqn:He. apply elem_of_list_In in Hin.
  apply expire_nowait in He as (Hn2 & Hw2 & Ht2 & Hh2); [|exact Hw1].
  apply IH in Hin as (P1 & P2 & P3 & P4 & P5); [|done|lia].
  assert (timers_wf s → timers_wf s2) as Hwf2.
  { intros Hwf tk' t'. rewrite Ht2, Ht1. intros [_ ?]%lookup_delete_Some. by apply Hwf. }
  assert (∀ tk' t', st_timers s !! tk' = Some t' → target < tm_deadline t' → st_timers s2 !! tk' = Some t') as Hkeep.
  { intros tk' t' Hl Hdl. rewrite Ht2, Ht1. apply lookup_delete_Some. split; [|done].
    intros <-. rewrite Htk in Hl. injection Hl as <-. lia. }
  unfold adv_post. split_and!; auto.
  intros n k t' Hwf Hl Hdl Hk. apply (P5 n k t'); auto.
  - by apply Hkeep.
  - apply Hh2; [|by apply Hh1]. intros [= -> ->].
    pose proof (Hwf _ _ Htk) as Ek. unfold tmr in Hl. rewrite <- Ek, Htk in Hl. injection Hl as <-. lia.
Qed.

Lemma advance_loop_nonempty cfg target : ∀ fuel s outs, advance_loop cfg fuel target s outs ≠ [].
Proof.
  induction fuel as [|fuel IH]; intros s outs; cbn [advance_loop]; [done|].
  destruct (next_due target s) as [|d ds]; [done|]. cbn [flat_map].
  destruct (fire cfg d _) as [s2 o]. intros [E _]%app_eq_nil. by apply IH in E.
Qed.

Lemma srv_event_advance dt s s' o : srv_event (EAdvance dt) s = (s', o) → (s', o) ∈ advance srv_cfg dt s.
Proof.
  unfold srv_event. change (sstep srv_cfg s (EAdvance dt)) with (advance srv_cfg dt s).
  destruct (advance srv_cfg dt s) as [|x l] eqn:E.
  - exfalso. revert E. apply advance_loop_nonempty.
  - intros ->. by left.
Qed.

Lemma f_advance : F_advance.
Proof.
  intros dt s s' o H Hw. apply srv_event_advance in H. unfold advance in H.
  apply advance_loop_post in H as (P1 & P2 & P3 & P4 & P5); [|done|lia].
  split_and!; auto. intros n k t. apply P4.
Qed.

Lemma srv_facts_hold : srv_facts.
Proof. exact (SrvFacts f_init f_trylock f_lock f_unlock f_renew f_advance). Qed.
Print Assumptions srv_facts_hold.
Print Assumptions f_probe.
