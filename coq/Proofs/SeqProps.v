(** Mseq theorems over REACHABLE states: the per-step lemmas of SeqReq1/SeqReq2/SeqTime (which assume the
    invariant [Inv cfg s]) composed with [inv_reachable] (Proofs/SeqInv.v: every state reachable by any history of any
    length satisfies Inv). GENERATED from Proofs/SeqTargets.v by replacing the hypothesis [Inv cfg s] with
    [cfg_ok cfg -> reachable cfg s]; statements without that hypothesis are repeated unchanged. *)
From Ldlm Require Import Model.Base Model.Err Model.Seq Proofs.SeqDefs Proofs.SeqLemmasKey Proofs.SeqTargets.
From Ldlm Require Proofs.SeqReq1 Proofs.SeqReq2 Proofs.SeqTime Proofs.SeqInv.
Local Open Scope Z_scope.

Definition R_C12_trylock : Prop := ∀ cfg s sid name size lt key s' o,
  (s', o) ∈ sstep cfg s (ETryLock sid name size lt key) →
  match refusal false sid name size lt None s with
  | Some e => (∃ k, o = [OResp (RLock false k (Some e))]) ∧ obs_eq s s'
  | None => ∃ b, o = [OResp (RLock b key None)]
  end.
Lemma C12_trylock_reach : R_C12_trylock.
Proof.
  unfold R_C12_trylock; intros. eapply SeqReq1.C12_trylock; eauto using SeqInv.inv_reachable.
Qed.

Definition R_C12_lock : Prop := ∀ cfg s wid sid name size lt wt key s' o,
  (s', o) ∈ sstep cfg s (ELock wid sid name size lt wt key) →
  match refusal true sid name size lt wt s with
  | Some e => (∃ k, o = [OResp (RLock false k (Some e))]) ∧ obs_eq s s'
  | None => o = [OResp (RLock true key None)] ∨ o = [OResp RBlocked]
  end.
Lemma C12_lock_reach : R_C12_lock.
Proof.
  unfold R_C12_lock; intros. eapply SeqReq1.C12_lock; eauto using SeqInv.inv_reachable.
Qed.

Definition R_C12_renew_refusal : Prop := ∀ cfg s name key lt s' o,
  lt ≤ 0 → (s', o) ∈ sstep cfg s (ERenew name key lt) →
  o = [OResp (RLock false [] (Some ESrvInvalidLockTimeout))] ∧ s' = s.
Lemma C12_renew_refusal_reach : R_C12_renew_refusal.
Proof.
  unfold R_C12_renew_refusal; intros. eapply SeqReq1.C12_renew_refusal; eauto using SeqInv.inv_reachable.
Qed.

Definition R_C12_absent : Prop := ∀ cfg s wid sid name size lt wt key,
  sstep cfg s (ETryLock sid name size None key) = sstep cfg s (ETryLock sid name size (Some 0) key) ∧
  sstep cfg s (ETryLock sid name None lt key) = sstep cfg s (ETryLock sid name (Some 1) lt key) ∧
  map (λ '(s1, o1), (norm_waiters s1, o1)) (sstep cfg s (ELock wid sid name size None wt key))
    = map (λ '(s1, o1), (norm_waiters s1, o1)) (sstep cfg s (ELock wid sid name size (Some 0) wt key)) ∧
  sstep cfg s (ELock wid sid name size lt None key) = sstep cfg s (ELock wid sid name size lt (Some 0) key) ∧
  sstep cfg s (ELock wid sid name None lt wt key) = sstep cfg s (ELock wid sid name (Some 1) lt wt key).
Lemma C12_absent_reach : R_C12_absent.
Proof.
  unfold R_C12_absent; intros. eapply SeqReq1.C12_absent; eauto using SeqInv.inv_reachable.
Qed.

Definition R_C12_size_fixed : Prop := ∀ cfg s ev s' o n o1 o2,
  cfg_ok cfg → reachable cfg s → ev_ok s ev → (s', o) ∈ sstep cfg s ev →
  st_locks s !! n = Some o1 → st_locks s' !! n = Some o2 →
  (∀ t, ev ≠ EAdvance t) → (∀ l, ev ≠ ERestart l) →     (* an object collected by GC / dropped by a restart is a new lock *)
  lo_size o2 = lo_size o1.
Lemma C12_size_fixed_reach : R_C12_size_fixed.
Proof.
  unfold R_C12_size_fixed; intros. eapply SeqReq1.C12_size_fixed; eauto using SeqInv.inv_reachable.
Qed.

Definition R_C07_inert : Prop := ∀ cfg s ev s' o,
  cfg_ok cfg → reachable cfg s → ev_ok s ev → is_request ev → (s', o) ∈ sstep cfg s ev → is_failure o → obs_eq s s'.
Lemma C07_inert_reach : R_C07_inert.
Proof.
  unfold R_C07_inert; intros. eapply SeqReq2.C07_inert; eauto using SeqInv.inv_reachable.
Qed.

Definition R_C07_refused_inert : Prop := ∀ cfg s sid name size lt key s' k,
  cfg_ok cfg → reachable cfg s → (s', [OResp (RLock false k None)]) ∈ sstep cfg s (ETryLock sid name size lt key) → obs_eq s s'.
Lemma C07_refused_inert_reach : R_C07_refused_inert.
Proof.
  unfold R_C07_refused_inert; intros. eapply SeqReq2.C07_refused_inert; eauto using SeqInv.inv_reachable.
Qed.

Definition R_C07_ipc_inert : Prop := ∀ cfg s name key s' o e,
  cfg_ok cfg → reachable cfg s → (s', o) ∈ sstep cfg s (EIpcUnlock name key) → OIpcUnlock None (Some e) ∈ o → obs_eq s s'.
Lemma C07_ipc_inert_reach : R_C07_ipc_inert.
Proof.
  unfold R_C07_ipc_inert; intros. eapply SeqReq2.C07_ipc_inert; eauto using SeqInv.inv_reachable.
Qed.

Definition R_C07_frame : Prop := ∀ cfg s ev s' o n k n' k',
  cfg_ok cfg → reachable cfg s → ev_ok s ev → (s', o) ∈ sstep cfg s ev → addresses ev n' k' →
  (n, k) ≠ (n', k') → live s n k → hold_same s s' n k.
Lemma C07_frame_reach : R_C07_frame.
Proof.
  unfold R_C07_frame; intros. eapply SeqReq2.C07_frame; eauto using SeqInv.inv_reachable.
Qed.

Definition R_C04_grant_lease : Prop := ∀ cfg s sid name size lt key s',
  cfg_ok cfg → reachable cfg s → ev_ok s (ETryLock (Some sid) name size lt key) →
  (s', [OResp (RLock true key None)]) ∈ sstep cfg s (ETryLock (Some sid) name size lt key) →
  live s' name key ∧
  st_timers s' !! tkey name key =
    match lt with
    | Some t => if 0 <? t then Some (Timer (st_now s + t * second) name key sid) else None
    | None => None
    end.
Lemma C04_grant_lease_reach : R_C04_grant_lease.
Proof.
  unfold R_C04_grant_lease; intros. eapply SeqReq1.C04_grant_lease; eauto using SeqInv.inv_reachable.
Qed.

Definition R_C04_only_ends_by : Prop := ∀ cfg s ev s' o n k,
  cfg_ok cfg → reachable cfg s → ev_ok s ev → (s', o) ∈ sstep cfg s ev → live s n k → ¬ live s' n k →
  (∃ sid, ev = EUnlock sid n k) ∨ (∃ ko, ev = EIpcUnlock n ko) ∨
  (∃ sid sz, ev = EDisconnect sid ∧ listed s sid (Clock n k sz) ∧ c_noclear cfg = false ∧ st_shut s = false) ∨
  (∃ dt t, ev = EAdvance dt ∧ st_timers s !! tkey n k = Some t ∧ tm_deadline t ≤ st_now s + Z.max 0 dt) ∨
  (∃ l, ev = ERestart l ∧ (c_file cfg = false ∨ c_default_lt cfg ≤ 0)).
Lemma C04_only_ends_by_reach : R_C04_only_ends_by.
Proof.
  unfold R_C04_only_ends_by; intros. eapply SeqTime.C04_only_ends_by; eauto using SeqInv.inv_reachable.
Qed.

Definition R_C04_expires : Prop := ∀ cfg s dt s' o n k t,
  cfg_ok cfg → reachable cfg s → (s', o) ∈ sstep cfg s (EAdvance dt) →
  st_timers s !! tkey n k = Some t → tm_deadline t ≤ st_now s + Z.max 0 dt →
  ¬ live s' n k ∧ st_timers s' !! tkey n k = None.
Lemma C04_expires_reach : R_C04_expires.
Proof.
  unfold R_C04_expires; intros. eapply SeqTime2.C04_expires; eauto using SeqInv.inv_reachable.
Qed.

Definition R_C04_keeps : Prop := ∀ cfg s dt s' o n k,
  cfg_ok cfg → reachable cfg s → (s', o) ∈ sstep cfg s (EAdvance dt) → live s n k →
  match st_timers s !! tkey n k with Some t => st_now s + Z.max 0 dt < tm_deadline t | None => True end →
  live s' n k ∧ st_timers s' !! tkey n k = st_timers s !! tkey n k.
Lemma C04_keeps_reach : R_C04_keeps.
Proof.
  unfold R_C04_keeps; intros. eapply SeqTime2.C04_keeps; eauto using SeqInv.inv_reachable.
Qed.

Definition R_C04_renew : Prop := ∀ cfg s n k lt s' o,
  0 < lt → (s', o) ∈ sstep cfg s (ERenew n k lt) →
  match st_timers s !! tkey n k with
  | Some t => o = [OResp (RLock true k None)] ∧
              st_timers s' = <[tkey n k := Timer (st_now s + lt * second) (tm_name t) (tm_key t) (tm_sid t)]> (st_timers s) ∧
              st_locks s' = st_locks s ∧ st_sessions s' = st_sessions s ∧ st_waiters s' = st_waiters s ∧ st_file s' = st_file s
  | None => o = [OResp (RLock false k (Some ESrvDoesNotExistOrInvalidKey))] ∧ s' = s
  end.
Lemma C04_renew_reach : R_C04_renew.
Proof.
  unfold R_C04_renew; intros. eapply SeqReq1.C04_renew; eauto using SeqInv.inv_reachable.
Qed.

Definition R_C04_dead_key : Prop := ∀ cfg s sid n k lt s' o,
  cfg_ok cfg → reachable cfg s → ¬ live s n k →
  ((s', o) ∈ sstep cfg s (EUnlock sid n k) → ∃ e, o = [OResp (RUnlock false (Some e))]) ∧
  (0 < lt → (s', o) ∈ sstep cfg s (ERenew n k lt) → o = [OResp (RLock false k (Some ESrvDoesNotExistOrInvalidKey))]).
Lemma C04_dead_key_reach : R_C04_dead_key.
Proof.
  unfold R_C04_dead_key; intros. eapply SeqReq1.C04_dead_key; eauto using SeqInv.inv_reachable.
Qed.

Definition R_unlock_live : Prop := ∀ cfg s sid n k s' o,
  cfg_ok cfg → reachable cfg s → live s n k → (s', o) ∈ sstep cfg s (EUnlock sid n k) →
  OResp (RUnlock true None) ∈ o ∧ ¬ live s' n k ∧ st_timers s' !! tkey n k = None.
Lemma unlock_live_reach : R_unlock_live.
Proof.
  unfold R_unlock_live; intros. eapply SeqReq1.unlock_live; eauto using SeqInv.inv_reachable.
Qed.

Definition R_C10_restore : Prop := ∀ cfg s order s' o,
  cfg_ok cfg → reachable cfg s → c_file cfg = true → (s', o) ∈ sstep cfg s (ERestart order) →
  o = [] ∧ st_now s' = st_now s ∧
  (∀ c, in_table s' c → c ∈ listing s) ∧                      (* ended holds stay ended *)
  (0 < c_default_lt cfg →
     ∀ c, c ∈ listing s →
       in_table s' c ∧ c ∈ listing s' ∧
       ∃ sid, listed s' sid c ∧
              st_timers s' !! tkey (cl_name c) (cl_key c) =
                Some (Timer (st_now s + c_default_lt cfg) (cl_name c) (cl_key c) sid)) ∧
  (c_default_lt cfg ≤ 0 → ∀ c, ¬ in_table s' c).
Lemma C10_restore_reach : R_C10_restore.
Proof.
  unfold R_C10_restore; intros. eapply SeqTime4.C10_restore; eauto using SeqInv.inv_reachable.
Qed.

Definition R_C10_nofile : Prop := ∀ cfg s order s' o,
  cfg_ok cfg → c_file cfg = false → (s', o) ∈ sstep cfg s (ERestart order) →
  st_locks s' = ∅ ∧ st_sessions s' = ∅ ∧ st_timers s' = ∅ ∧ st_waiters s' = [].
Lemma C10_nofile_reach : R_C10_nofile.
Proof.
  unfold R_C10_nofile; intros. eapply SeqTime1.C10_nofile; eauto using SeqInv.inv_reachable.
Qed.

Definition R_C18_list : Prop := ∀ cfg s s' o,
  (s', o) ∈ sstep cfg s EIpcList → s' = s ∧ o = [OIpcList (listing s)].
Lemma C18_list_reach : R_C18_list.
Proof.
  unfold R_C18_list; intros. eapply SeqReq1.C18_list; eauto using SeqInv.inv_reachable.
Qed.

Definition R_C18_unlock_key : Prop := ∀ cfg s n k s' o,
  k ≠ [] → (s', o) ∈ sstep cfg s (EIpcUnlock n (Some k)) →
  ∃ outs u e, (s', outs ++ [OResp (RUnlock u e)]) ∈ sstep cfg s (EUnlock None n k) ∧
              o = outs ++ [match e with None => OIpcUnlock (Some u) None | Some e' => OIpcUnlock None (Some e') end].
Lemma C18_unlock_key_reach : R_C18_unlock_key.
Proof.
  unfold R_C18_unlock_key; intros. eapply SeqReq1.C18_unlock_key; eauto using SeqInv.inv_reachable.
Qed.

Definition R_C18_unlock_name : Prop := ∀ cfg s n s' o,
  cfg_ok cfg → reachable cfg s → (s', o) ∈ sstep cfg s (EIpcUnlock n None) →
  (∃ k sz, Clock n k sz ∈ listing s ∧ (s', o) ∈ sstep cfg s (EIpcUnlock n (Some k))) ∨
  (((∀ k sz, Clock n k sz ∉ listing s) ∨ (∃ sz, Clock n [] sz ∈ listing s)) ∧
   s' = s ∧ o = [OIpcUnlock None (Some ELockDoesNotExist)]).
Lemma C18_unlock_name_reach : R_C18_unlock_name.
Proof.
  unfold R_C18_unlock_name; intros. eapply SeqReq1.C18_unlock_name; eauto using SeqInv.inv_reachable.
Qed.

Definition R_C06_clear : Prop := ∀ cfg s sid s' o,
  cfg_ok cfg → reachable cfg s → c_noclear cfg = false → st_shut s = false → (s', o) ∈ sstep cfg s (EDisconnect sid) →
  st_sessions s' !! sid = None ∧
  (∀ c, listed s sid c → ¬ in_table s' c ∧ st_timers s' !! tkey (cl_name c) (cl_key c) = None) ∧
  (∀ sid2 c, sid2 ≠ sid → listed s sid2 c → hold_same s s' (cl_name c) (cl_key c)) ∧
  (∀ w, w ∈ st_waiters s → w_sid w = sid → w ∉ st_waiters s').
Lemma C06_clear_reach : R_C06_clear.
Proof.
  unfold R_C06_clear; intros. eapply SeqTime3.C06_clear; eauto using SeqInv.inv_reachable.
Qed.

Definition R_C06_noclear : Prop := ∀ cfg s sid s' o,
  cfg_ok cfg → reachable cfg s → c_noclear cfg = true → (s', o) ∈ sstep cfg s (EDisconnect sid) →
  st_locks s' = st_locks s ∧ st_timers s' = st_timers s ∧
  (∀ c, listed s sid c → listed s' sid c) ∧
  (∀ sid2 c, listed s sid2 c → hold_same s s' (cl_name c) (cl_key c)).
Lemma C06_noclear_reach : R_C06_noclear.
Proof.
  unfold R_C06_noclear; intros. eapply SeqTime1.C06_noclear; eauto using SeqInv.inv_reachable.
Qed.

Definition R_C03_timeout_exact : Prop := ∀ cfg s dt s' o wid at_ k,
  cfg_ok cfg → reachable cfg s → (s', o) ∈ sstep cfg s (EAdvance dt) →
  OWaiter wid at_ (RLock false k (Some ESrvLockWaitTimeout)) ∈ o →
  ∃ w, w ∈ st_waiters s ∧ w_id w = wid ∧ w_deadline w = Some at_ ∧ at_ ≤ st_now s + Z.max 0 dt.
Lemma C03_timeout_exact_reach : R_C03_timeout_exact.
Proof.
  unfold R_C03_timeout_exact; intros. eapply SeqTime2.C03_timeout_exact; eauto using SeqInv.inv_reachable.
Qed.

Definition R_C03_timeout_prompt : Prop := ∀ cfg s dt s' o w d,
  cfg_ok cfg → reachable cfg s → (s', o) ∈ sstep cfg s (EAdvance dt) →
  w ∈ st_waiters s → w_deadline w = Some d → d ≤ st_now s + Z.max 0 dt →
  (∀ w', w' ∈ st_waiters s' → w_id w' ≠ w_id w) ∧
  (∃ at_ r, OWaiter (w_id w) at_ r ∈ o ∧ at_ ≤ d).
Lemma C03_timeout_prompt_reach : R_C03_timeout_prompt.
Proof.
  unfold R_C03_timeout_prompt; intros. eapply SeqTime2.C03_timeout_prompt; eauto using SeqInv.inv_reachable.
Qed.

Definition R_C03_cancel : Prop := ∀ cfg s wid s' o w,
  cfg_ok cfg → reachable cfg s → (s', o) ∈ sstep cfg s (ECancel wid) → w ∈ st_waiters s → w_id w = wid →
  o = [OWaiter wid (st_now s) (RLock false (w_key w) (Some ECtxCanceled))] ∧
  (∀ w', w' ∈ st_waiters s' → w_id w' ≠ wid) ∧ st_locks s' = st_locks s ∧ st_sessions s' = st_sessions s.
Lemma C03_cancel_reach : R_C03_cancel.
Proof.
  unfold R_C03_cancel; intros. eapply SeqTime1.C03_cancel; eauto using SeqInv.inv_reachable.
Qed.

Definition R_C11_shutdown : Prop := ∀ cfg s s' o,
  (s', o) ∈ sstep cfg s EShutdown →
  st_sessions s' = st_sessions s ∧ st_file s' = st_file s ∧ st_locks s' = st_locks s ∧ st_waiters s' = [] ∧
  (∀ w, w ∈ st_waiters s → OWaiter (w_id w) (st_now s) (RLock false (w_key w) (Some ECtxCanceled)) ∈ o) ∧
  (∀ x, x ∈ o → ∃ wid k, x = OWaiter wid (st_now s) (RLock false k (Some ECtxCanceled))).
Lemma C11_shutdown_reach : R_C11_shutdown.
Proof.
  unfold R_C11_shutdown; intros. eapply SeqTime1.C11_shutdown; eauto using SeqInv.inv_reachable.
Qed.

Definition R_C13_gc_only_idle : Prop := ∀ cfg t s,
  let s' := run_gc_until cfg t s in
  st_sessions s' = st_sessions s ∧ st_timers s' = st_timers s ∧ st_waiters s' = st_waiters s ∧
  st_file s' = st_file s ∧ st_now s' = st_now s ∧
  (∀ n o, st_locks s' !! n = Some o → st_locks s !! n = Some o) ∧
  (∀ n o, st_locks s !! n = Some o → st_locks s' !! n = None →
     lo_keys o = [] ∧ name_waiters n (st_waiters s) = [] ∧ c_gc_minidle cfg < t - lo_last o).
Lemma C13_gc_only_idle_reach : R_C13_gc_only_idle.
Proof.
  unfold R_C13_gc_only_idle; intros. eapply SeqReq2.C13_gc_only_idle; eauto using SeqInv.inv_reachable.
Qed.

Definition R_C13_invisible : Prop := ∀ cfg s g ev s' o,
  cfg_ok cfg → reachable cfg s → gc_related s g → is_request ev → (s', o) ∈ sstep cfg s ev →
  ∃ g' o', (g', o') ∈ sstep cfg g ev ∧
           ((o' = o ∧ gc_related s' g')
            ∨ (∃ k, o = [OResp (RLock false k (Some ELockSizeMismatch))])
            ∨ (∃ e e', o = [OResp (RUnlock false (Some e))] ∧ o' = [OResp (RUnlock false (Some e'))] ∧ gc_related s' g')).
Lemma C13_invisible_reach : R_C13_invisible.
Proof.
  unfold R_C13_invisible; intros. eapply SeqReq2.C13_invisible; eauto using SeqInv.inv_reachable.
Qed.

(** [restart] always has an outcome: advance_loop returns a non-empty list whatever the fuel *)
Lemma advance_loop_nonempty cfg fuel target : ∀ s outs, advance_loop cfg fuel target s outs ≠ [].
Proof.
  induction fuel as [|fuel IH]; intros s outs; cbn [advance_loop]; [done|].
  destruct (next_due target s) as [|d l] eqn:E; [done|].
  cbn [flat_map]. destruct (fire cfg d _) as [s2 o]. intros H. apply app_eq_nil in H as [H _]. by apply IH in H.
Qed.
Lemma restart_total cfg s order : sstep cfg s (ERestart order) ≠ [].
Proof. cbn [sstep]. unfold restart. apply advance_loop_nonempty. Qed.
