(** C14 under races: every response the lock server's entry points give in Msv (Model/Sv.v: ALL interleavings of the request,
    expiry, session-end and shutdown steps) is well-formed —

      - locked / unlocked = true  ->  no error                                  (every operation)
      - Lock, Unlock: locked / unlocked = false  ->  an error
      - TryLock may answer locked=false without an error (the plain refusal: the lock is full),
      - Renew may answer locked=false without an error in exactly one situation: the lease timer has FIRED and its callback has
        not yet removed the timer-map entry (timermap.Reset: the entry exists, Stop() reports false) — [C14_renew_silent_refusal]
        says that this is the only way, [C14_renew_silent_refusal_in_flight] adds that the callback goroutine of that very hold has been
        started and has not returned (invariant [cbdone]: a callback that has returned has removed its timer-map entry);
        [C14_renew_strict_refuted] is the reachable state that shows the exception is needed (the statement "Renew: false -> error" is
        false of the model, and of the code).

    The invariant needs no hypothesis on the schedule: it holds for every item sequence, meaningful ([sitem_ok]) or not.
    Work package c14race. *)
From Coq Require Import Lia.
From Ldlm Require Import Model.Base Model.Err Model.Sv Proofs.SvDefs.
From RecordUpdate Require Import RecordSet.
Import RecordSetNotations.
Local Open Scope Z_scope.

(** ** the clause *)
Definition resp_wf (o : sop) (r : sresp) : Prop :=
  (sr_ok r = true → sr_err r = None) ∧
  match o with
  | STry _ _ _ _ _ | SRenew _ _ _ => True
  | _ => sr_ok r = false → sr_err r ≠ None
  end.

Definition swf (s : svstate) : Prop :=
  ∀ tid t r, v_thr s !! tid = Some t → st_pc t = VFin r → resp_wf (st_op t) r.

(** the operation of every thread (never changed by any step) *)
Definition ops (s : svstate) : gmap nat sop := st_op <$> v_thr s.

Lemma ops_lookup s tid t : v_thr s !! tid = Some t → ops s !! tid = Some (st_op t).
Proof. intros H. unfold ops. rewrite lookup_fmap, H. reflexivity. Qed.
Lemma ops_lookup_inv s tid o t : ops s !! tid = Some o → v_thr s !! tid = Some t → st_op t = o.
Proof. unfold ops. rewrite lookup_fmap. intros H Ht. rewrite Ht in H. simpl in H. congruence. Qed.

(** ** the helpers of Model/Sv.v *)
Lemma ops_vset_pc tid pc s : ops (vset_pc tid pc s) = ops s.
Proof.
  unfold vset_pc. destruct (v_thr s !! tid) as [t|] eqn:Ht; [|reflexivity].
  unfold ops; simpl. apply map_eq; intros i. rewrite !lookup_fmap.
  destruct (decide (i = tid)) as [->|Hne].
  - rewrite lookup_insert, Ht. reflexivity.
  - rewrite lookup_insert_ne by congruence. reflexivity.
Qed.

Lemma swf_vset_pc_nofin tid pc s : (∀ r, pc ≠ VFin r) → swf s → swf (vset_pc tid pc s).
Proof.
  intros Hpc H. unfold vset_pc. destruct (v_thr s !! tid) as [t|] eqn:Ht; [|exact H].
  intros i t' r. simpl. destruct (decide (i = tid)) as [->|Hne].
  - rewrite lookup_insert. intros [= <-]. simpl. intros E. destruct (Hpc _ E).
  - rewrite lookup_insert_ne by congruence. apply H.
Qed.

Lemma swf_vset_pc_fin tid r o s : ops s !! tid = Some o → resp_wf o r → swf s → swf (vset_pc tid (VFin r) s).
Proof.
  intros Ho Hr H. unfold vset_pc. destruct (v_thr s !! tid) as [t|] eqn:Ht; [|exact H].
  intros i t' r'. simpl. destruct (decide (i = tid)) as [->|Hne].
  - rewrite lookup_insert. intros [= <-]. simpl. intros [= <-]. rewrite (ops_lookup_inv _ _ _ _ Ho Ht). exact Hr.
  - rewrite lookup_insert_ne by congruence. apply H.
Qed.

Lemma swf_vfinish tid r o s : ops s !! tid = Some o → resp_wf o r → swf s → swf (vfinish tid r s).
Proof. intros Ho Hr H. unfold vfinish, vemit. apply (swf_vset_pc_fin tid r o s Ho Hr H). Qed.
Lemma ops_vfinish tid r s : ops (vfinish tid r s) = ops s.
Proof. unfold vfinish, vemit. apply ops_vset_pc. Qed.

(** a state that differs from [s] outside the thread pool *)
Lemma swf_same s s' : v_thr s' = v_thr s → swf s → swf s'.
Proof. intros E H i t r. rewrite E. apply H. Qed.
Lemma ops_same s s' : v_thr s' = v_thr s → ops s' = ops s.
Proof. intros E. unfold ops. rewrite E. reflexivity. Qed.

Lemma ops_hand_over n s : ops (hand_over n s) = ops s.
Proof.
  unfold hand_over. destruct (v_locks s !! n) as [a|]; [|reflexivity].
  destruct (al_q a) as [|w q']; [reflexivity|].
  destruct (Z.of_nat (length (al_live a)) <? al_size a); [|reflexivity].
  unfold vemit. etransitivity; [apply ops_vset_pc|]. reflexivity.
Qed.
Lemma swf_hand_over n s : swf s → swf (hand_over n s).
Proof.
  intros H. unfold hand_over. destruct (v_locks s !! n) as [a|]; [|exact H].
  destruct (al_q a) as [|w q']; [exact H|].
  destruct (Z.of_nat (length (al_live a)) <? al_size a); [|exact H].
  unfold vemit. apply (swf_same (vset_pc w VWoken _) _ eq_refl).
  apply swf_vset_pc_nofin; [discriminate|]. exact H.
Qed.

(** lockMgr.Unlock answers (true, nil) or (false, an error) *)
Definition unl_resp (r : sresp) : Prop := r = SResp true None ∨ ∃ e, r = SResp false (Some e).
Lemma mgr_unlock_spec tid n k s :
  ops (fst (mgr_unlock tid n k s)) = ops s ∧ (swf s → swf (fst (mgr_unlock tid n k s))) ∧ unl_resp (snd (mgr_unlock tid n k s)).
Proof.
  unfold mgr_unlock. destruct (v_mgrshut s); [simpl; split; [reflexivity|split; [tauto|right; eauto]]|].
  destruct (v_locks s !! n) as [a|]; [|simpl; split; [reflexivity|split; [tauto|right; eauto]]].
  destruct (bool_decide (k ∈ al_live a)); [|simpl; split; [reflexivity|split; [tauto|right; eauto]]].
  simpl. split; [|split].
  - etransitivity; [apply ops_hand_over|]. reflexivity.
  - intros H. apply swf_hand_over. exact H.
  - left; reflexivity.
Qed.

Lemma tm_remove_thr tk s : v_thr (fst (tm_remove tk s)) = v_thr s.
Proof.
  unfold tm_remove. destruct (v_timers s !! tk) as [id|]; [|reflexivity].
  destruct (v_theap s !! id) as [t|]; [|reflexivity]. destruct (tm_st t); reflexivity.
Qed.
Lemma tm_add_thr n k sid d s : v_thr (tm_add n k sid d s) = v_thr s.
Proof. unfold tm_add. destruct (v_tmshut s); reflexivity. Qed.
Lemma sess_add_thr cfg tid sid c s : v_thr (sess_add cfg tid sid c s) = v_thr s.
Proof. unfold sess_add, vemit, vsave. destruct (sc_file cfg); reflexivity. Qed.
Lemma sess_remove_thr cfg tid n k s : v_thr (sess_remove cfg tid n k s) = v_thr s.
Proof. unfold sess_remove, vemit, vsave. destruct (existsb _ _); destruct (sc_file cfg); reflexivity. Qed.
Lemma sess_destroy_thr cfg tid sid s : v_thr (fst (sess_destroy cfg tid sid s)) = v_thr s.
Proof. unfold sess_destroy, vemit, vsave. destruct (v_sess s !! sid); [destruct (sc_file cfg)|]; reflexivity. Qed.

(** Renew: timermap.Reset answers (true, nil), (false, ErrTimerDoesNotExist -> the server's own variable) or (false, nil) *)
Lemma tm_reset_spec tk d s :
  v_thr (fst (tm_reset tk d s)) = v_thr s ∧ (sr_ok (snd (tm_reset tk d s)) = true → sr_err (snd (tm_reset tk d s)) = None).
Proof.
  unfold tm_reset. destruct (v_timers s !! tk) as [id|]; [|split; [reflexivity|discriminate]].
  destruct (v_theap s !! id) as [t|]; [|split; [reflexivity|discriminate]].
  destruct (tm_st t); split; try reflexivity; try discriminate.
Qed.

Lemma swf_spawn op pc s : (∀ r, pc ≠ VFin r) → swf s → swf (spawn op pc s).
Proof.
  intros Hpc H i t r. unfold spawn. simpl. destruct (decide (i = v_next s)) as [->|Hne].
  - rewrite lookup_insert. intros [= <-]. simpl. intros E. destruct (Hpc _ E).
  - rewrite lookup_insert_ne by congruence. apply H.
Qed.

(** a context end changes neither the operation nor the pc *)
Lemma swf_fmap (f : sthread → sthread) s s' :
  (∀ t, st_op (f t) = st_op t ∧ st_pc (f t) = st_pc t) → v_thr s' = f <$> v_thr s → swf s → swf s'.
Proof.
  intros Hf E H i t r. rewrite E, lookup_fmap. destruct (v_thr s !! i) as [t0|] eqn:Ht; simpl; [|discriminate].
  intros [= <-]. destruct (Hf t0) as [-> ->]. apply (H _ _ _ Ht).
Qed.

Lemma ds_next_nofin l r : ds_next l ≠ VFin r.
Proof. destruct l; discriminate. Qed.

(** ** one step of a thread *)
Ltac fin_tac Ho :=
  first
    [ apply (swf_vfinish _ _ _ _ Ho); [split; simpl; first [reflexivity | discriminate | tauto | congruence | (intros _; discriminate)] | ]
    | apply swf_vset_pc_nofin; [first [discriminate | apply ds_next_nofin | (intros ?; destruct (sc_noclear _); discriminate)] | ] ].

Lemma swf_vrun_thread cfg tid t s : v_thr s !! tid = Some t → swf s → swf (vrun_thread cfg tid t s).
Proof.
  intros Ht H. pose proof (ops_lookup _ _ _ Ht) as Ho.
  unfold vrun_thread.
  destruct (st_pc t) eqn:Hpc; destruct (st_op t) eqn:Hop; try exact H.
  - (* VMgrTry *)
    destruct (v_mgrshut s); [fin_tac Ho; exact H|].
    destruct (size <=? 0); [fin_tac Ho; exact H|].
    destruct (negb _); [fin_tac Ho; exact H|].
    destruct (al_free _).
    + apply swf_vset_pc_nofin; [discriminate|]. exact H.
    + apply (swf_vfinish _ _ (STry sid name key size lt)); [exact Ho| split; simpl; [discriminate|exact I] |]. exact H.
  - (* VMgrLock *)
    destruct (v_mgrshut s); [fin_tac Ho; exact H|].
    destruct (size <=? 0); [fin_tac Ho; exact H|].
    destruct (negb _); [fin_tac Ho; exact H|].
    destruct (st_cancel t) as [e|].
    + apply (swf_vfinish _ _ (SLock sid name key size lt)); [exact Ho| split; simpl; [discriminate|intros _; discriminate] |]. exact H.
    + destruct (al_free _); (apply swf_vset_pc_nofin; [discriminate|]; exact H).
  - (* VWait *)
    destruct (st_cancel t) as [e|]; [|exact H]. destruct (v_locks s !! name) as [a|]; [|exact H].
    apply (swf_vfinish _ _ (SLock sid name key size lt)); [exact Ho| split; simpl; [discriminate|intros _; discriminate] |]. exact H.
  - (* VWoken *)
    destruct (st_cancel t) as [e|]; [destruct (v_locks s !! name) as [a|]|].
    + apply (swf_vfinish _ _ (SLock sid name key size lt)).
      * rewrite ops_hand_over. exact Ho.
      * split; simpl; [discriminate|intros _; discriminate].
      * apply swf_hand_over. exact H.
    + apply swf_vset_pc_nofin; [discriminate|]. exact H.
    + apply swf_vset_pc_nofin; [discriminate|]. exact H.
  - (* VSessAdd, STry *)
    destruct (lt_pos lt).
    + apply swf_vset_pc_nofin; [discriminate|]. apply (swf_same s); [apply sess_add_thr|exact H].
    + apply (swf_vfinish _ _ (STry sid name key size lt)); [rewrite (ops_same s); [exact Ho|apply sess_add_thr] | split; simpl; [reflexivity|exact I] |].
      apply (swf_same s); [apply sess_add_thr|exact H].
  - (* VSessAdd, SLock *)
    destruct (lt_pos lt).
    + apply swf_vset_pc_nofin; [discriminate|]. apply (swf_same s); [apply sess_add_thr|exact H].
    + apply (swf_vfinish _ _ (SLock sid name key size lt)); [rewrite (ops_same s); [exact Ho|apply sess_add_thr] | split; simpl; [reflexivity|discriminate] |].
      apply (swf_same s); [apply sess_add_thr|exact H].
  - (* VTmAdd, STry *)
    apply (swf_vfinish _ _ (STry sid name key size lt)); [rewrite (ops_same s); [exact Ho|apply tm_add_thr] | split; simpl; [reflexivity|exact I] |].
    apply (swf_same s); [apply tm_add_thr|exact H].
  - (* VTmAdd, SLock *)
    apply (swf_vfinish _ _ (SLock sid name key size lt)); [rewrite (ops_same s); [exact Ho|apply tm_add_thr] | split; simpl; [reflexivity|discriminate] |].
    apply (swf_same s); [apply tm_add_thr|exact H].
  - (* VTmRemove, SUnlock *)
    pose proof (tm_remove_thr (tkey name key) s) as E. destruct (tm_remove (tkey name key) s) as [s1 stopped]. simpl in E.
    destruct stopped; (apply swf_vset_pc_nofin; [discriminate|]; apply (swf_same s); [exact E|exact H]).
  - (* VMgrUnlock, SUnlock *)
    destruct (mgr_unlock_spec tid name key s) as (Eo & Hs & Hr). destruct (mgr_unlock tid name key s) as [s1 r]. simpl in *.
    destruct Hr as [->|[e ->]]; simpl.
    + apply swf_vset_pc_nofin; [discriminate|]. exact (Hs H).
    + apply (swf_vfinish _ _ (SUnlock name key)); [rewrite Eo; exact Ho | split; simpl; [discriminate|intros _; discriminate] |]. exact (Hs H).
  - (* VSessRemove, SUnlock *)
    apply (swf_vfinish _ _ (SUnlock name key)); [rewrite (ops_same s); [exact Ho|apply sess_remove_thr] | split; simpl; [reflexivity|discriminate] |].
    apply (swf_same s); [apply sess_remove_thr|exact H].
  - (* VTmReset, SRenew *)
    destruct (tm_reset_spec (tkey name key) (lt * second) s) as (E & Hr). destruct (tm_reset (tkey name key) (lt * second) s) as [s1 r]. simpl in *.
    apply (swf_vfinish _ _ (SRenew name key lt)); [rewrite (ops_same s); [exact Ho|exact E] | split; [exact Hr|exact I] |].
    apply (swf_same s); [exact E|exact H].
  - (* VCbUnlock *)
    destruct (v_theap s !! tmid) as [tm|]; [|exact H].
    apply swf_vset_pc_nofin; [discriminate|]. apply (mgr_unlock_spec tid (tm_n tm) (tm_k tm) s). exact H.
  - (* VCbSessRemove *)
    destruct (v_theap s !! tmid) as [tm|]; [|exact H].
    apply swf_vset_pc_nofin; [discriminate|]. apply (swf_same s); [apply sess_remove_thr|exact H].
  - (* VCbTmRemove *)
    destruct (v_theap s !! tmid) as [tm|]; [|exact H].
    apply swf_vset_pc_nofin; [discriminate|]. apply (swf_same s); [apply tm_remove_thr|exact H].
  - (* VDsFlag *)
    destruct (v_shut s); [apply swf_vset_pc_nofin; [discriminate|exact H]|].
    apply swf_vset_pc_nofin; [intros r; destruct (sc_noclear cfg); discriminate|exact H].
  - (* VDsNoClear *)
    destruct (v_sess s !! sid) as [[|c l]|]; try (apply swf_vset_pc_nofin; [discriminate|exact H]).
    apply swf_vset_pc_nofin; [discriminate|]. apply (swf_same s); [apply sess_destroy_thr|exact H].
  - (* VDsDestroy *)
    pose proof (sess_destroy_thr cfg tid sid s) as E. destruct (sess_destroy cfg tid sid s) as [s1 locks]. simpl in E.
    apply swf_vset_pc_nofin; [apply ds_next_nofin|]. apply (swf_same s); [exact E|exact H].
  - (* VDsTmRemove *)
    destruct todo as [|c rest]; [apply swf_vset_pc_nofin; [discriminate|exact H]|].
    pose proof (tm_remove_thr (tkey (cl_name c) (cl_key c)) s) as E. destruct (tm_remove (tkey (cl_name c) (cl_key c)) s) as [s1 stopped]. simpl in E.
    destruct stopped; (apply swf_vset_pc_nofin; [first [discriminate|apply ds_next_nofin]|]; apply (swf_same s); [exact E|exact H]).
  - (* VDsUnlock *)
    apply swf_vset_pc_nofin; [apply ds_next_nofin|]. apply (mgr_unlock_spec tid (cl_name c) (cl_key c) s). exact H.
  - (* VShFlag *)
    apply swf_vset_pc_nofin; [discriminate|]. exact H.
  - (* VShNet *)
    apply swf_vset_pc_nofin; [discriminate|].
    match goal with |- swf (fold_left ?f ?l ?s0) => generalize l; assert (H0 : swf s0) end.
    { eapply (swf_fmap _ s); [|reflexivity|exact H].
      intros [o0 pc0 c0]. simpl. destruct o0, c0; try destruct (is_fin pc0); split; reflexivity. }
    match goal with |- ∀ l, swf (fold_left ?f l ?s0) => revert H0; generalize s0 end.
    intros s0 H0 l. revert s0 H0. induction l as [|x l IH]; intros s0 H0; simpl; [exact H0|].
    apply IH. unfold vemit. apply (swf_same (spawn (SConnEnd x) VDsFlag s0) _ eq_refl). apply swf_spawn; [discriminate|exact H0].
  - (* VShTimers *)
    apply swf_vset_pc_nofin; [discriminate|]. exact H.
  - (* VShMgr *)
    destruct (existsb _ _); [exact H|]. apply swf_vset_pc_nofin; [discriminate|]. exact H.
Qed.

Lemma swf_fire_due s : swf s → swf (fire_due s).
Proof.
  unfold fire_due. generalize (map_to_list (v_theap s)). intros l. revert s. induction l as [|[id tm] l IH]; intros s H; simpl; [exact H|].
  apply IH. destruct (tm_st tm) as [d| |]; try exact H. destruct (d <=? v_now s); [|exact H].
  unfold vemit. apply (swf_same (spawn (SExpire id) VCbUnlock (s <| v_theap := <[id := tm <| tm_st := TFired |>]> (v_theap s) |>)) _ eq_refl).
  apply swf_spawn; [discriminate|]. exact H.
Qed.

Lemma first_pc_nofin op r : first_pc op ≠ VFin r.
Proof. destruct op; discriminate. Qed.

Lemma swf_vstep cfg s it : swf s → swf (vstep cfg s it).
Proof.
  intros H. unfold vstep. destruct (v_crashed s); [exact H|]. destruct it as [tid op|tid|tid cause|sid|sid|dt|].
  - destruct (client_op op && (tid <? sys_base)%nat); [|exact H]. destruct (v_thr s !! tid) as [t|] eqn:Ht; [exact H|].
    unfold vemit. intros i t' r. simpl. destruct (decide (i = tid)) as [->|Hne].
    + rewrite lookup_insert. intros [= <-]. simpl. intros E. destruct (first_pc_nofin _ _ E).
    + rewrite lookup_insert_ne by congruence. apply H.
  - destruct (v_thr s !! tid) as [t|] eqn:Ht; [|exact H]. apply swf_vrun_thread; assumption.
  - destruct (v_thr s !! tid) as [t|] eqn:Ht; [|exact H]. destruct (_ && _); [|exact H].
    intros i t' r. simpl. destruct (decide (i = tid)) as [->|Hne].
    + rewrite lookup_insert. intros [= <-]. simpl. apply (H _ _ _ Ht).
    + rewrite lookup_insert_ne by congruence. apply H.
  - unfold vemit. destruct (v_sess s !! sid); exact H.
  - unfold vemit. match goal with |- swf (set v_trace _ (spawn _ _ ?s0)) => apply (swf_same (spawn (SConnEnd sid) VDsFlag s0) _ eq_refl) end.
    apply swf_spawn; [discriminate|]. eapply (swf_fmap _ s); [|reflexivity|exact H].
    intros t0. cbv beta. match goal with |- context [if ?c then _ else _] => destruct c end; split; reflexivity.
  - apply swf_fire_due. exact H.
  - unfold vemit. apply (swf_same (spawn SShutdown VShFlag s) _ eq_refl). apply swf_spawn; [discriminate|exact H].
Qed.

Lemma swf_init : swf sv_init.
Proof. intros i t r. unfold sv_init. simpl. rewrite lookup_empty. discriminate. Qed.

(** the invariant holds after EVERY item sequence (no hypothesis on the schedule) *)
Lemma swf_vrun cfg sch : swf (vrun cfg sch).
Proof.
  unfold vrun. assert (G : ∀ l s, swf s → swf (fold_left (vstep cfg) l s)).
  { induction l as [|it l IH]; intros s H; simpl; [exact H|]. apply IH, swf_vstep, H. }
  apply G, swf_init.
Qed.
Lemma swf_reach cfg s : vreach cfg s → swf s.
Proof. induction 1 as [|s it _ IH _]; [apply swf_init|apply swf_vstep, IH]. Qed.

(** ** C14, all interleavings *)
Theorem C14_responses_wellformed : ∀ cfg s tid t b e,
  vreach cfg s → v_thr s !! tid = Some t → st_pc t = VFin (SResp b e) →
  (b = true → e = None) ∧
  (match st_op t with STry _ _ _ _ _ | SRenew _ _ _ => True | _ => b = false → e ≠ None end).
Proof. intros cfg s tid t b e Hr Ht Hpc. exact (swf_reach cfg s Hr tid t (SResp b e) Ht Hpc). Qed.
Print Assumptions C14_responses_wellformed.

(** the same clause on the ghost trace of responses: every [SvRes] event ever emitted *)
Theorem C14_no_flag_with_error : ∀ cfg s tid t e,
  vreach cfg s → v_thr s !! tid = Some t → st_pc t ≠ VFin (SResp true (Some e)).
Proof.
  intros cfg s tid t e Hr Ht Hpc. destruct (C14_responses_wellformed cfg s tid t true (Some e) Hr Ht Hpc) as [H _].
  specialize (H eq_refl). discriminate.
Qed.
Print Assumptions C14_no_flag_with_error.

(** ** Renew: the one response with locked=false and no error outside TryLock's refusal *)
From Ldlm Require Import Proofs.SeqLemmasKey.
From Ldlm Require Proofs.SvInv Proofs.SvFileRun.

(** "Renew: locked=false -> an error" is FALSE of the model (and of the code: timermap.Reset finds the entry, Stop() reports that
    the timer has fired, and returns (false, nil)): a lease of 5 s is granted, the clock reaches the deadline (the callback
    goroutine is started and has not run yet — the hold is even still live), a Renew arrives. *)
Definition renew_silent_cfg : svcfg := SvCfg false true.
Definition renew_silent_sched : list sitem :=
  [ VConnect (SvFileRun.bs 1);
    VCall 0 (STry (SvFileRun.bs 1) (SvFileRun.bs 10) (SvFileRun.bs 21) 1 (Some 5)); VRun 0; VRun 0; VRun 0;   (* granted, listed, lease armed, delivered *)
    VTick 5000000000;                                                                                       (* the lease timer fires: callback at VCbUnlock *)
    VCall 3 (SRenew (SvFileRun.bs 10) (SvFileRun.bs 21) 7); VRun 3 ].
Theorem C14_renew_strict_refuted : ∃ cfg s tid t n k lt,
  vreach cfg s ∧ v_thr s !! tid = Some t ∧ st_op t = SRenew n k lt ∧ st_pc t = VFin (SResp false None) ∧ slive s n k.
Proof.
  exists renew_silent_cfg, (vrun renew_silent_cfg renew_silent_sched), 3%nat,
    (SThread (SRenew (SvFileRun.bs 10) (SvFileRun.bs 21) 7) (VFin (SResp false None)) None), (SvFileRun.bs 10), (SvFileRun.bs 21), 7.
  split; [apply SvFileRun.check_vrun; by vm_compute|]. split; [by vm_compute|]. split; [reflexivity|]. split; [reflexivity|].
  exists (ALock 1 [SvFileRun.bs 21] []). split; [by vm_compute|]. apply elem_of_list_here.
Qed.
Print Assumptions C14_renew_strict_refuted.

(** ... and that is the only way: a Renew answers locked=false WITHOUT an error only when the lease timer of that very hold has
    fired, its entry is still in the timer map (the callback has not reached TimerMap's own Remove) and the callback goroutine
    has been started. *)
Theorem C14_renew_silent_refusal : ∀ cfg s tid t n k lt t',
  vreach cfg s → v_thr s !! tid = Some t → st_op t = SRenew n k lt → st_pc t = VTmReset →
  v_thr (vstep cfg s (VRun tid)) !! tid = Some t' → st_pc t' = VFin (SResp false None) →
  ∃ id tm tid' x, v_timers s !! tkey n k = Some id ∧ v_theap s !! id = Some tm ∧ tm_st tm = TFired ∧ tm_n tm = n ∧ tm_k tm = k ∧
                  v_thr s !! tid' = Some x ∧ st_op x = SExpire id.
Proof.
  intros cfg s tid t n k lt t' Hr Ht Hop Hpc Ht' Hpc'.
  pose proof (SvInv.svinv_reach cfg s Hr) as I.
  unfold vstep in Ht'. rewrite (vi_not_crashed _ _ I), Ht in Ht'. unfold vrun_thread in Ht'. rewrite Hpc, Hop in Ht'.
  unfold tm_reset in Ht'.
  destruct (v_timers s !! tkey n k) as [id|] eqn:Hid.
  - destruct (vi_tm_entry _ _ I _ _ Hid) as (tm & Htm & Htk & Hns & _). rewrite Htm in Ht'.
    apply tkey_inj in Htk as [-> ->].
    destruct (tm_st tm) as [d| |] eqn:Hst.
    + exfalso. unfold vfinish, vemit, vset_pc in Ht'. simpl in Ht'. rewrite Ht in Ht'. simpl in Ht'. rewrite lookup_insert in Ht'.
      injection Ht' as <-. simpl in Hpc'. discriminate.
    + destruct (Hns eq_refl).
    + destruct (proj1 (vi_tm_fired _ _ I id tm Htm) Hst) as (tid' & x & Hx & Hxo).
      exists id, tm, tid', x. repeat split; assumption.
  - exfalso. unfold vfinish, vemit, vset_pc in Ht'. simpl in Ht'. rewrite Ht in Ht'. simpl in Ht'. rewrite lookup_insert in Ht'.
    injection Ht' as <-. simpl in Hpc'. discriminate.
Qed.
Print Assumptions C14_renew_silent_refusal.

(** ** a lease callback that has returned has removed its timer-map entry *)
Definition cbdone (s : svstate) : Prop :=
  ∀ tid t id tk, v_thr s !! tid = Some t → st_op t = SExpire id → st_pc t = VEnd → v_timers s !! tk ≠ Some id.

(** [fr s s']: the step from [s] to [s'] finishes no callback and adds no timer-map entry *)
Definition fr (s s' : svstate) : Prop :=
  (∀ tid t' id, v_thr s' !! tid = Some t' → st_op t' = SExpire id → st_pc t' = VEnd →
     ∃ t, v_thr s !! tid = Some t ∧ st_op t = SExpire id ∧ st_pc t = VEnd) ∧
  (∀ tk id, v_timers s' !! tk = Some id → v_timers s !! tk = Some id).

Lemma fr_refl s : fr s s.
Proof. split; [intros tid t' id H1 H2 H3; exists t'; auto|auto]. Qed.
Lemma fr_trans s1 s2 s3 : fr s1 s2 → fr s2 s3 → fr s1 s3.
Proof.
  intros [A1 B1] [A2 B2]. split.
  - intros tid t' id H1 H2 H3. destruct (A2 _ _ _ H1 H2 H3) as (t & Ht & Ho & Hp). exact (A1 _ _ _ Ht Ho Hp).
  - intros tk id H. exact (B1 _ _ (B2 _ _ H)).
Qed.
Lemma fr_same s s' : v_thr s' = v_thr s → v_timers s' = v_timers s → fr s s'.
Proof. intros E1 E2. split; [rewrite E1; intros tid t' id H1 H2 H3; exists t'; auto|rewrite E2; auto]. Qed.
Lemma fr_cbdone s s' : fr s s' → cbdone s → cbdone s'.
Proof.
  intros [A B] H tid t id tk Ht Ho Hp Htk. destruct (A _ _ _ Ht Ho Hp) as (t0 & Ht0 & Ho0 & Hp0).
  exact (H _ _ _ _ Ht0 Ho0 Hp0 (B _ _ Htk)).
Qed.

Lemma fr_vset_pc tid pc s : (pc = VEnd → ∀ t id, v_thr s !! tid = Some t → st_op t ≠ SExpire id) → fr s (vset_pc tid pc s).
Proof.
  intros Hpc. unfold vset_pc. destruct (v_thr s !! tid) as [t|] eqn:Ht; [|apply fr_refl]. split; simpl; [|auto].
  intros i t' id. destruct (decide (i = tid)) as [->|Hne].
  - rewrite lookup_insert. intros [= <-]. simpl. intros Ho Hp. destruct (Hpc Hp t id eq_refl Ho).
  - rewrite lookup_insert_ne by congruence. intros H1 H2 H3. exists t'. auto.
Qed.
Lemma fr_vset_pc_ne tid pc s : pc ≠ VEnd → fr s (vset_pc tid pc s).
Proof. intros H. apply fr_vset_pc. intros E. destruct (H E). Qed.
Lemma fr_vset_pc_op tid pc s o : ops s !! tid = Some o → (∀ id, o ≠ SExpire id) → fr s (vset_pc tid pc s).
Proof. intros Ho Hne. apply fr_vset_pc. intros _ t id Ht E. rewrite (ops_lookup_inv _ _ _ _ Ho Ht) in E. exact (Hne id E). Qed.
Lemma fr_vfinish tid r s : fr s (vfinish tid r s).
Proof. unfold vfinish, vemit. eapply fr_trans; [apply (fr_vset_pc_ne tid (VFin r)); discriminate|]. apply fr_same; reflexivity. Qed.

(** peel the outermost helper off the target state *)
Ltac fr_emit := match goal with |- fr _ (vemit _ ?x) => apply (fr_trans _ x); [|apply fr_same; reflexivity] end.
Ltac fr_setpc_ne := match goal with |- fr _ (vset_pc _ _ ?x) => apply (fr_trans _ x); [|apply fr_vset_pc_ne; discriminate] end.

Lemma fr_hand_over n s : fr s (hand_over n s).
Proof.
  unfold hand_over. destruct (v_locks s !! n) as [a|]; [|apply fr_refl].
  destruct (al_q a) as [|w q']; [apply fr_refl|].
  destruct (Z.of_nat (length (al_live a)) <? al_size a); [|apply fr_refl].
  fr_emit. fr_setpc_ne. apply fr_same; reflexivity.
Qed.
Lemma fr_mgr_unlock tid n k s : fr s (fst (mgr_unlock tid n k s)).
Proof.
  unfold mgr_unlock. destruct (v_mgrshut s); [apply fr_refl|]. destruct (v_locks s !! n) as [a|]; [|apply fr_refl].
  destruct (bool_decide (k ∈ al_live a)); [|apply fr_refl]. simpl.
  eapply fr_trans; [|apply fr_hand_over]. apply fr_same; reflexivity.
Qed.
Lemma tm_remove_timers tk s tk' i :
  v_timers (fst (tm_remove tk s)) !! tk' = Some i → tk' ≠ tk ∧ v_timers s !! tk' = Some i.
Proof.
  unfold tm_remove. destruct (v_timers s !! tk) as [id|] eqn:Hid.
  - assert (G : delete tk (v_timers s) !! tk' = Some i → tk' ≠ tk ∧ v_timers s !! tk' = Some i).
    { intros H. apply lookup_delete_Some in H as [H1 H2]. split; [congruence|exact H2]. }
    destruct (v_theap s !! id) as [t|]; [destruct (tm_st t)|]; simpl; exact G.
  - simpl. intros H. split; [|exact H]. intros ->. rewrite Hid in H. discriminate.
Qed.
Lemma fr_tm_remove tk s : fr s (fst (tm_remove tk s)).
Proof.
  split; [rewrite tm_remove_thr; intros tid t' id H1 H2 H3; exists t'; auto|].
  intros tk' i H. exact (proj2 (tm_remove_timers _ _ _ _ H)).
Qed.
Lemma fr_tm_reset tk d s : fr s (fst (tm_reset tk d s)).
Proof.
  unfold tm_reset. destruct (v_timers s !! tk) as [id|]; [|apply fr_refl].
  destruct (v_theap s !! id) as [t|]; [destruct (tm_st t)|]; simpl; first [apply fr_refl | apply fr_same; reflexivity].
Qed.
Lemma fr_sess_add cfg tid sid c s : fr s (sess_add cfg tid sid c s).
Proof. unfold sess_add, vemit, vsave. destruct (sc_file cfg); apply fr_same; reflexivity. Qed.
Lemma fr_sess_remove cfg tid n k s : fr s (sess_remove cfg tid n k s).
Proof. unfold sess_remove, vemit, vsave. destruct (existsb _ _); destruct (sc_file cfg); apply fr_same; reflexivity. Qed.
Lemma fr_sess_destroy cfg tid sid s : fr s (fst (sess_destroy cfg tid sid s)).
Proof. unfold sess_destroy, vemit, vsave. destruct (v_sess s !! sid); [destruct (sc_file cfg)|]; simpl; first [apply fr_refl | apply fr_same; reflexivity]. Qed.
Lemma fr_spawn op pc s : pc ≠ VEnd → fr s (spawn op pc s).
Proof.
  intros Hpc. unfold spawn. split; simpl; [|auto]. intros i t' id. destruct (decide (i = v_next s)) as [->|Hne].
  - rewrite lookup_insert. intros [= <-]. simpl. intros _ E. destruct (Hpc E).
  - rewrite lookup_insert_ne by congruence. intros H1 H2 H3. exists t'. auto.
Qed.
Lemma fr_fmap (f : sthread → sthread) s s' :
  (∀ t, st_op (f t) = st_op t ∧ st_pc (f t) = st_pc t) → v_thr s' = f <$> v_thr s → v_timers s' = v_timers s → fr s s'.
Proof.
  intros Hf E1 E2. split; [|rewrite E2; auto]. intros i t' id. rewrite E1, lookup_fmap.
  destruct (v_thr s !! i) as [t0|] eqn:Ht; simpl; [|discriminate]. intros [= <-]. destruct (Hf t0) as [-> ->]. intros H2 H3. exists t0. auto.
Qed.

Lemma ops_sess_add cfg tid sid c s : ops (sess_add cfg tid sid c s) = ops s.
Proof. apply ops_same, sess_add_thr. Qed.

(** ** one step of a thread: everything except the two steps that matter is [fr] *)
Lemma cbdone_tm_add cfg n k sid d s : SvInv cfg s → cbdone s → cbdone (tm_add n k sid d s).
Proof.
  intros I H. unfold tm_add. destruct (v_tmshut s); [exact H|].
  intros tid t id tk. simpl. intros Ht Ho Hp. destruct (decide (tk = tkey n k)) as [->|Hne].
  - rewrite lookup_insert. intros [= <-].
    destruct (vi_expire_heap _ _ I _ _ _ Ht Ho) as [tm Htm]. destruct (vi_tm_heap _ _ I _ _ Htm) as [Hlt _]. lia.
  - rewrite lookup_insert_ne by congruence. exact (H _ _ _ _ Ht Ho Hp).
Qed.

Lemma cbdone_vrun_thread cfg tid t s : SvInv cfg s → v_thr s !! tid = Some t → cbdone s → cbdone (vrun_thread cfg tid t s).
Proof.
  intros I Ht H. pose proof (ops_lookup _ _ _ Ht) as Ho.
  unfold vrun_thread.
  destruct (st_pc t) eqn:Hpc; destruct (st_op t) eqn:Hop; try exact H.
  - (* VMgrTry *)
    destruct (v_mgrshut s); [exact (fr_cbdone _ _ (fr_vfinish _ _ _) H)|].
    destruct (size <=? 0); [exact (fr_cbdone _ _ (fr_vfinish _ _ _) H)|].
    destruct (negb _); [exact (fr_cbdone _ _ (fr_vfinish _ _ _) H)|].
    destruct (al_free _).
    + refine (fr_cbdone _ _ _ H). eapply fr_trans; [|apply fr_vset_pc_ne; discriminate]. apply fr_same; reflexivity.
    + refine (fr_cbdone _ _ _ H). eapply fr_trans; [|apply fr_vfinish]. apply fr_same; reflexivity.
  - (* VMgrLock *)
    destruct (v_mgrshut s); [exact (fr_cbdone _ _ (fr_vfinish _ _ _) H)|].
    destruct (size <=? 0); [exact (fr_cbdone _ _ (fr_vfinish _ _ _) H)|].
    destruct (negb _); [exact (fr_cbdone _ _ (fr_vfinish _ _ _) H)|].
    destruct (st_cancel t) as [e|].
    + refine (fr_cbdone _ _ _ H). eapply fr_trans; [|apply fr_vfinish]. apply fr_same; reflexivity.
    + destruct (al_free _); (refine (fr_cbdone _ _ _ H); eapply fr_trans; [|apply fr_vset_pc_ne; discriminate]; apply fr_same; reflexivity).
  - (* VWait *)
    destruct (st_cancel t) as [e|]; [|exact H]. destruct (v_locks s !! name) as [a|]; [|exact H].
    refine (fr_cbdone _ _ _ H). eapply fr_trans; [|apply fr_vfinish]. apply fr_same; reflexivity.
  - (* VWoken *)
    destruct (st_cancel t) as [e|]; [destruct (v_locks s !! name) as [a|]|].
    + refine (fr_cbdone _ _ _ H). eapply fr_trans; [|apply fr_vfinish]. eapply fr_trans; [|apply fr_hand_over]. apply fr_same; reflexivity.
    + refine (fr_cbdone _ _ _ H). apply fr_vset_pc_ne; discriminate.
    + refine (fr_cbdone _ _ _ H). apply fr_vset_pc_ne; discriminate.
  - (* VSessAdd, STry *)
    refine (fr_cbdone _ _ _ H). destruct (lt_pos lt); (eapply fr_trans; [apply fr_sess_add|]); [apply fr_vset_pc_ne; discriminate|apply fr_vfinish].
  - (* VSessAdd, SLock *)
    refine (fr_cbdone _ _ _ H). destruct (lt_pos lt); (eapply fr_trans; [apply fr_sess_add|]); [apply fr_vset_pc_ne; discriminate|apply fr_vfinish].
  - (* VTmAdd, STry *)
    exact (fr_cbdone _ _ (fr_vfinish _ _ _) (cbdone_tm_add cfg _ _ _ _ s I H)).
  - (* VTmAdd, SLock *)
    exact (fr_cbdone _ _ (fr_vfinish _ _ _) (cbdone_tm_add cfg _ _ _ _ s I H)).
  - (* VTmRemove, SUnlock *)
    pose proof (fr_tm_remove (tkey name key) s) as F. destruct (tm_remove (tkey name key) s) as [s1 stopped]. simpl in F.
    refine (fr_cbdone _ _ _ H). destruct stopped; (eapply fr_trans; [exact F|apply fr_vset_pc_ne; discriminate]).
  - (* VMgrUnlock, SUnlock *)
    pose proof (fr_mgr_unlock tid name key s) as F. destruct (mgr_unlock tid name key s) as [s1 r]. simpl in F.
    refine (fr_cbdone _ _ _ H). destruct (sr_ok r); (eapply fr_trans; [exact F|]); [apply fr_vset_pc_ne; discriminate|apply fr_vfinish].
  - (* VSessRemove, SUnlock *)
    refine (fr_cbdone _ _ _ H). eapply fr_trans; [apply fr_sess_remove|apply fr_vfinish].
  - (* VTmReset, SRenew *)
    pose proof (fr_tm_reset (tkey name key) (lt * second) s) as F. destruct (tm_reset (tkey name key) (lt * second) s) as [s1 r]. simpl in F.
    refine (fr_cbdone _ _ _ H). eapply fr_trans; [exact F|apply fr_vfinish].
  - (* VCbUnlock *)
    destruct (v_theap s !! tmid) as [tm|]; [|exact H].
    refine (fr_cbdone _ _ _ H). eapply fr_trans; [apply fr_mgr_unlock|apply fr_vset_pc_ne; discriminate].
  - (* VCbSessRemove *)
    destruct (v_theap s !! tmid) as [tm|]; [|exact H].
    refine (fr_cbdone _ _ _ H). eapply fr_trans; [apply fr_sess_remove|apply fr_vset_pc_ne; discriminate].
  - (* VCbTmRemove: the callback returns; TimerMap's own Remove has deleted the entry *)
    destruct (v_theap s !! tmid) as [tm|] eqn:Htm; [|exact H].
    pose proof (tm_remove_thr (tkey (tm_n tm) (tm_k tm)) s) as Et.
    pose proof (tm_remove_timers (tkey (tm_n tm) (tm_k tm)) s) as Er.
    destruct (tm_remove (tkey (tm_n tm) (tm_k tm)) s) as [s1 stopped]. simpl in *.
    intros i t' id tk. unfold vset_pc. rewrite Et, Ht. simpl. destruct (decide (i = tid)) as [->|Hne].
    + rewrite lookup_insert. intros [= <-]. simpl. rewrite Hop. intros [= <-] _ Htk.
      destruct (Er _ _ Htk) as [Hne Hold]. destruct (vi_tm_entry _ _ I _ _ Hold) as (tm0 & Htm0 & Hk & _).
      rewrite Htm in Htm0. injection Htm0 as <-. exact (Hne Hk).
    + rewrite lookup_insert_ne by congruence. intros Hi Hio Hip Htk. exact (H _ _ _ _ Hi Hio Hip (proj2 (Er _ _ Htk))).
  - (* VDsFlag *)
    refine (fr_cbdone _ _ _ H). destruct (v_shut s); (eapply (fr_vset_pc_op _ _ _ _ Ho); intros id; discriminate).
  - (* VDsNoClear *)
    refine (fr_cbdone _ _ _ H).
    destruct (v_sess s !! sid) as [[|c l]|]; try (eapply (fr_vset_pc_op _ _ _ _ Ho); intros id; discriminate).
    eapply fr_trans; [apply fr_sess_destroy|]. eapply (fr_vset_pc_op _ _ _ (SConnEnd sid)); [|intros id; discriminate].
    rewrite (ops_same s); [exact Ho|apply sess_destroy_thr].
  - (* VDsDestroy *)
    pose proof (sess_destroy_thr cfg tid sid s) as E. pose proof (fr_sess_destroy cfg tid sid s) as F.
    destruct (sess_destroy cfg tid sid s) as [s1 locks]. simpl in *.
    refine (fr_cbdone _ _ _ H). eapply fr_trans; [exact F|]. eapply (fr_vset_pc_op _ _ _ (SConnEnd sid)); [|intros id; discriminate].
    rewrite (ops_same s); [exact Ho|exact E].
  - (* VDsTmRemove *)
    refine (fr_cbdone _ _ _ H).
    destruct todo as [|c rest]; [eapply (fr_vset_pc_op _ _ _ _ Ho); intros id; discriminate|].
    pose proof (tm_remove_thr (tkey (cl_name c) (cl_key c)) s) as E. pose proof (fr_tm_remove (tkey (cl_name c) (cl_key c)) s) as F.
    destruct (tm_remove (tkey (cl_name c) (cl_key c)) s) as [s1 stopped]. simpl in *.
    destruct stopped; (eapply fr_trans; [exact F|]; eapply (fr_vset_pc_op _ _ _ (SConnEnd sid)); [rewrite (ops_same s); [exact Ho|exact E]|intros id; discriminate]).
  - (* VDsUnlock *)
    refine (fr_cbdone _ _ _ H). eapply fr_trans; [apply fr_mgr_unlock|].
    eapply (fr_vset_pc_op _ _ _ (SConnEnd sid)); [|intros id; discriminate].
    rewrite (proj1 (mgr_unlock_spec tid (cl_name c) (cl_key c) s)). exact Ho.
  - (* VShFlag *)
    refine (fr_cbdone _ _ _ H). eapply fr_trans; [|apply fr_vset_pc_ne; discriminate]. apply fr_same; reflexivity.
  - (* VShNet *)
    refine (fr_cbdone _ _ _ H). eapply fr_trans; [|apply fr_vset_pc_ne; discriminate].
    match goal with |- fr s (fold_left ?f ?l ?s0) => generalize l; assert (H0 : fr s s0) end.
    { eapply (fr_fmap _ s); [|reflexivity|reflexivity].
      intros [o0 pc0 c0]. simpl. destruct o0, c0; try destruct (is_fin pc0); split; reflexivity. }
    match goal with |- ∀ l, fr s (fold_left ?f l ?s0) => revert H0; generalize s0 end.
    intros s0 H0 l. revert s0 H0. induction l as [|x l IH]; intros s0 H0; simpl; [exact H0|].
    apply IH. eapply fr_trans; [exact H0|]. fr_emit. apply fr_spawn; discriminate.
  - (* VShTimers *)
    refine (fr_cbdone _ _ _ H). eapply fr_trans; [|apply fr_vset_pc_ne; discriminate].
    split; simpl; [intros i t' id H1 H2 H3; exists t'; auto|]. intros tk id. rewrite lookup_empty. discriminate.
  - (* VShMgr *)
    destruct (existsb _ _); [exact H|]. refine (fr_cbdone _ _ _ H).
    eapply fr_trans; [|eapply (fr_vset_pc_op _ _ _ SShutdown); [exact Ho|intros id; discriminate]]. apply fr_same; reflexivity.
Qed.

Lemma fr_fire_due s : fr s (fire_due s).
Proof.
  unfold fire_due. generalize (map_to_list (v_theap s)). intros l.
  assert (G : ∀ s0, fr s s0 → fr s (fold_left (λ s '(id, tm), match tm_st tm with
               | TArmed d => if d <=? v_now s then vemit (SvFired id) (spawn (SExpire id) VCbUnlock (s <| v_theap := <[id := tm <| tm_st := TFired |>]> (v_theap s) |>)) else s
               | _ => s end) l s0)); [|apply G, fr_refl].
  induction l as [|[id tm] l IH]; intros s0 H0; simpl; [exact H0|].
  apply IH. destruct (tm_st tm) as [d| |]; try exact H0. destruct (d <=? v_now s0); [|exact H0].
  eapply fr_trans; [exact H0|]. fr_emit.
  match goal with |- fr _ (spawn _ _ ?x) => apply (fr_trans _ x); [|apply fr_spawn; discriminate] end. apply fr_same; reflexivity.
Qed.

Lemma first_pc_noend op : first_pc op ≠ VEnd.
Proof. destruct op; discriminate. Qed.

Lemma cbdone_vstep cfg s it : SvInv cfg s → cbdone s → cbdone (vstep cfg s it).
Proof.
  intros I H. unfold vstep. destruct (v_crashed s); [exact H|]. destruct it as [tid op|tid|tid cause|sid|sid|dt|].
  - destruct (client_op op && (tid <? sys_base)%nat); [|exact H]. destruct (v_thr s !! tid) as [t|] eqn:Ht; [exact H|].
    refine (fr_cbdone _ _ _ H). unfold vemit. split; simpl; [|auto]. intros i t' id. destruct (decide (i = tid)) as [->|Hne].
    + rewrite lookup_insert. intros [= <-]. simpl. intros _ E. destruct (first_pc_noend _ E).
    + rewrite lookup_insert_ne by congruence. intros H1 H2 H3. exists t'. auto.
  - destruct (v_thr s !! tid) as [t|] eqn:Ht; [|exact H]. apply cbdone_vrun_thread; assumption.
  - destruct (v_thr s !! tid) as [t|] eqn:Ht; [|exact H]. destruct (_ && _); [|exact H].
    refine (fr_cbdone _ _ _ H). split; simpl; [|auto]. intros i t' id. destruct (decide (i = tid)) as [->|Hne].
    + rewrite lookup_insert. intros [= <-]. simpl. intros H2 H3. exists t. auto.
    + rewrite lookup_insert_ne by congruence. intros H1 H2 H3. exists t'. auto.
  - refine (fr_cbdone _ _ _ H). unfold vemit. destruct (v_sess s !! sid); apply fr_same; reflexivity.
  - refine (fr_cbdone _ _ _ H). fr_emit.
    match goal with |- fr _ (spawn _ _ ?x) => apply (fr_trans _ x); [|apply fr_spawn; discriminate] end. eapply (fr_fmap _ s); [|reflexivity|reflexivity].
    intros t0. cbv beta. match goal with |- context [if ?c then _ else _] => destruct c end; split; reflexivity.
  - refine (fr_cbdone _ _ _ H). eapply fr_trans; [|apply fr_fire_due]. apply fr_same; reflexivity.
  - refine (fr_cbdone _ _ _ H). fr_emit. apply fr_spawn; discriminate.
Qed.

Lemma cbdone_reach cfg s : vreach cfg s → cbdone s.
Proof.
  induction 1 as [|s it Hr IH _].
  - intros tid t id tk. unfold sv_init. simpl. rewrite lookup_empty. discriminate.
  - apply cbdone_vstep; [exact (SvInv.svinv_reach cfg s Hr)|exact IH].
Qed.

(** ** the Renew exception, complete: the callback of that very hold is IN FLIGHT (started, not returned) *)
Theorem C14_renew_silent_refusal_in_flight : ∀ cfg s tid t n k lt t',
  vreach cfg s → v_thr s !! tid = Some t → st_op t = SRenew n k lt → st_pc t = VTmReset →
  v_thr (vstep cfg s (VRun tid)) !! tid = Some t' → st_pc t' = VFin (SResp false None) →
  ∃ id tm tid' x, v_timers s !! tkey n k = Some id ∧ v_theap s !! id = Some tm ∧ tm_st tm = TFired ∧ tm_n tm = n ∧ tm_k tm = k ∧
                  v_thr s !! tid' = Some x ∧ st_op x = SExpire id ∧ st_pc x ≠ VEnd.
Proof.
  intros cfg s tid t n k lt t' Hr Ht Hop Hpc Ht' Hpc'.
  destruct (C14_renew_silent_refusal cfg s tid t n k lt t' Hr Ht Hop Hpc Ht' Hpc') as (id & tm & tid' & x & H1 & H2 & H3 & H4 & H5 & H6 & H7).
  exists id, tm, tid', x. repeat split; try assumption.
  intros E. exact (cbdone_reach cfg s Hr tid' x id (tkey n k) H6 H7 E H1).
Qed.
Print Assumptions C14_renew_silent_refusal_in_flight.
