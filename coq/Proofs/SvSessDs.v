(** The clocks DestroySession still has to process belong to finished grants of its own session (invariant A);
    keys are released at most once (C06_once). Work package svsess. *)
From Coq Require Import Lia ZifyBool ZifyNat.
From Ldlm Require Import Model.Base Model.Err Model.Sv Proofs.SvDefs Proofs.SvSessBase Proofs.SvSessThr Proofs.SvSessLk.
From RecordUpdate Require Import RecordSet.
Import RecordSetNotations.
Local Open Scope Z_scope.

Definition pending_of (pc : spc) : list clock :=
  match pc with VDsTmRemove todo => todo | VDsUnlock c todo => c :: todo | _ => [] end.
(** the call has written its session entry *)
Definition entry_done (pc : spc) : Prop := pc = VTmAdd ∨ ∃ r, pc = VFin r.

Lemma entry_done_closed cfg p p' : entry_done p → pc_le cfg p p' → entry_done p'.
Proof.
  intros Hp Hle. eapply (pc_le_closed cfg entry_done); [|exact Hp|exact Hle].
  intros q q' [->|[r ->]] He; simpl in He; [right; eauto|done].
Qed.
Lemma post_grant_closed cfg p p' : post_grant p → pc_le cfg p p' → post_grant p'.
Proof.
  intros Hp Hle. eapply (pc_le_closed cfg post_grant); [|exact Hp|exact Hle].
  unfold post_grant. intros q q' [->|[->|[->|[r ->]]]] He; simpl in He; naive_solver.
Qed.
Lemma entry_done_post_grant p : entry_done p → post_grant p.
Proof. unfold entry_done, post_grant. naive_solver. Qed.

Lemma pending_of_ds_next l : pending_of (ds_next l) = l.
Proof. by destruct l. Qed.

Lemma acquirer_step cfg s it tid t sid n k z (P : spc → Prop) :
  SvInv cfg s → (∀ p p', P p → pc_le cfg p p' → P p') →
  v_thr s !! tid = Some t → acquirer t sid n k z → P (st_pc t) →
  ∃ t', v_thr (vstep cfg s it) !! tid = Some t' ∧ acquirer t' sid n k z ∧ P (st_pc t').
Proof.
  intros HI HP Ht Hacq Hpc. destruct (thr_ext_lookup cfg _ _ tid t (vstep_thr cfg s it HI) Ht) as (t' & Ht' & Hop & Hle).
  exists t'. split; [done|]. split; [|by eapply HP]. unfold acquirer in *. by rewrite Hop.
Qed.

Lemma ds_self_step cfg s tid sid pc cn t' : queue_waits s →
  v_thr s !! tid = Some (SThread (SConnEnd sid) pc cn) →
  v_thr (vrun_thread cfg tid (SThread (SConnEnd sid) pc cn) s) !! tid = Some t' →
  ∀ c, c ∈ pending_of (st_pc t') → c ∈ pending_of pc ∨ (pc = VDsDestroy ∧ entry_of s sid c).
Proof.
  intros Hq Ht. unfold vrun_thread. cbn [st_pc st_op st_cancel].
  destruct pc; try (rewrite Ht; intros [= <-]; simpl; by left).
  all: repeat case_match; subst; pair_norm; rewrite vset_pc_lookup; (case_decide; [|done]).
  all: autorewrite with svframe; rewrite ?Ht; simpl.
  all: try (intros [= <-]; simpl; intros c' Hc'; try (by apply elem_of_nil in Hc'); try (left; set_solver); fail).
  - (* destroy *) intros [= <-]. simpl. rewrite pending_of_ds_next. intros c Hc. right. split; [done|].
    unfold sess_destroy in *. unfold entry_of. destruct (v_sess s !! sid) as [l0|]; simplify_eq/=; [eauto|by apply elem_of_nil in Hc].
  - (* timer removal: fired *) intros [= <-]. simpl. rewrite pending_of_ds_next. intros c' Hc'. left. by right.
  - (* unlock *) rewrite (mgr_unlock_thr_other _ _ _ _ _ _ Hq Ht) by done. simpl. intros [= <-]. simpl. rewrite pending_of_ds_next. intros c' Hc'. left. by right.
Qed.

Definition DsInv (s : svstate) : Prop := ∀ tid t sid c,
  v_thr s !! tid = Some t → st_op t = SConnEnd sid → c ∈ pending_of (st_pc t) →
  ∃ tid' t', v_thr s !! tid' = Some t' ∧ acquirer t' sid (cl_name c) (cl_key c) (cl_size c) ∧ entry_done (st_pc t').

Lemma ds_inv_step cfg s it : SvInv cfg s → DsInv s → DsInv (vstep cfg s it).
Proof.
  intros HI IH tid t' sid c Ht' Hop Hc.
  assert (Hlift : ∀ tid0 t0, v_thr s !! tid0 = Some t0 → acquirer t0 sid (cl_name c) (cl_key c) (cl_size c) → entry_done (st_pc t0) →
     ∃ tid' t', v_thr (vstep cfg s it) !! tid' = Some t' ∧ acquirer t' sid (cl_name c) (cl_key c) (cl_size c) ∧ entry_done (st_pc t')).
  { intros tid0 t0 H0 Ha Hd. destruct (acquirer_step cfg s it tid0 t0 _ _ _ _ entry_done HI (entry_done_closed cfg) H0 Ha Hd) as (t1 & ? & ? & ?). eauto. }
  destruct (vstep_thr_back cfg s it tid t' HI Ht') as [[_ [Hpc _]]|(t & Ht & Hop' & _ & Hcase)].
  { rewrite Hpc, Hop in Hc. simpl in Hc. by apply elem_of_nil in Hc. }
  rewrite Hop in Hop'. destruct Hcase as [->|[Hpc|[_ Hpc]]].
  - destruct t as [op pc cn]. simpl in Hop'. subst op.
    rewrite (vstep_run_lookup cfg s tid _ (vi_not_crashed _ _ HI) Ht) in Ht'.
    destruct (ds_self_step cfg s tid sid pc cn t' (svinv_queue_waits _ _ HI) Ht Ht' c Hc) as [Hc'|[-> He]].
    + destruct (IH tid _ sid c Ht eq_refl Hc') as (tid0 & t0 & ? & ? & ?). eauto.
    + destruct (vi_entry_owner _ _ HI sid c He) as (tid0 & t0 & H0 & Ha & Hd). eapply Hlift; eauto.
  - rewrite Hpc in Hc. destruct (IH tid t sid c Ht (eq_sym Hop') Hc) as (tid0 & t0 & ? & ? & ?). eauto.
  - rewrite Hpc in Hc. simpl in Hc. by apply elem_of_nil in Hc.
Qed.

Lemma ds_inv_reach : T_svinv_reach → ∀ cfg s, vreach cfg s → DsInv s.
Proof.
  intros Hinv cfg s Hr. induction Hr as [|s it Hr IH Hok].
  - intros tid t sid c Ht. simpl in Ht. by rewrite lookup_empty in Ht.
  - apply ds_inv_step; [by apply Hinv|done].
Qed.

(** ** released at most once *)
Lemma lock_self_step cfg s tid t sid n k z lt t' :
  v_thr s !! tid = Some t → st_op t = SLock sid n k z lt →
  v_thr (vrun_thread cfg tid t s) !! tid = Some t' → st_pc t' ≠ VWoken.
Proof.
  intros Ht Hop. destruct t as [op pc cn]. simpl in Hop. subst op. unfold vrun_thread. cbn [st_pc st_op st_cancel].
  destruct pc. all: try (rewrite Ht; intros [=]; subst t'; done).
  all: unfold vfinish; repeat case_match; subst; rewrite ?vemit_v_thr, ?vset_pc_lookup; try (case_decide; [|done]).
  all: autorewrite with svframe; simpl; rewrite ?Ht; simpl; rewrite ?decide_True by done.
  all: try (intros [=]; subst t'; done).
  intros (t0 & _ & ->)%fmap_Some. done.
Qed.

Lemma slive_dec s n k : slive s n k ∨ ¬ slive s n k.
Proof.
  unfold slive. destruct (v_locks s !! n) as [a|] eqn:Ha; [|right; naive_solver].
  destruct (decide (k ∈ al_live a)); [left; eauto|right; naive_solver].
Qed.

Definition OnceInv (s : svstate) : Prop :=
  (∀ n k, count_released n k (v_trace s) = 0%nat ∨
          (count_released n k (v_trace s) = 1%nat ∧ ¬ slive s n k ∧
           ∃ tid t sid z, v_thr s !! tid = Some t ∧ acquirer t sid n k z ∧ post_grant (st_pc t))) ∧
  (∀ tid t sid n k z lt, v_thr s !! tid = Some t → st_op t = SLock sid n k z lt → st_pc t = VWoken → slive s n k).

Lemma acquirer_unique cfg s t1 t2 x1 x2 s1 s2 n1 n2 k z1 z2 : SvInv cfg s →
  v_thr s !! t1 = Some x1 → v_thr s !! t2 = Some x2 → acquirer x1 s1 n1 k z1 → acquirer x2 s2 n2 k z2 → t1 = t2.
Proof.
  intros HI H1 H2 [l1 A1] [l2 A2]. eapply (vi_keys_fresh _ _ HI t1 t2 x1 x2 k); try done;
    by (destruct A1 as [-> | ->] || destruct A2 as [-> | ->]).
Qed.

(** a release step cannot take the key of a call that is at VWoken / before its session entry *)
Lemma releaser_owner cfg s tr tid' t' n k sid z :
  SvInv cfg s → DsInv s → v_thr s !! tr.1 = Some tr.2 → releaser s tr.2 n k →
  v_thr s !! tid' = Some t' → acquirer t' sid n k z →
  entry_done (st_pc t') ∨ (tid' = tr.1 ∧ st_pc t' = VWoken ∧ ∃ e, st_cancel t' = Some e).
Proof.
  destruct tr as [tid t]. simpl. intros HI HD Ht Hrel Ht' Hacq.
  destruct Hrel as [[Ho Hp]|[(id & tm & Ho & Hp & Hh & <- & <-)|[(sid' & c & rest & Ho & Hp & <- & <-)|(sid' & z' & lt' & e & Ho & Hp & Hc)]]].
  - destruct Hacq as [lt Hacq].
    assert (delivered s k) as (tid0 & t0 & sid0 & n0 & z0 & Ht0 & Hacq0 & Hpc0 & _).
    { eapply (vi_presented _ _ HI tid t k Ht); [by rewrite Ho|by rewrite Ho|exact Ht'| |]; by destruct Hacq as [-> | ->]. }
    assert (tid0 = tid') as -> by (eapply acquirer_unique; eauto; by exists lt). simplify_eq. left. right. eauto.
  - destruct (vi_tm_heap _ _ HI id tm Hh) as (_ & tid0 & t0 & sid0 & z0 & Ht0 & Hacq0 & _ & r & Hpc0).
    assert (tid0 = tid') as -> by (eapply acquirer_unique; eauto). simplify_eq. left. right. eauto.
  - destruct (HD tid t sid' c Ht Ho) as (tid0 & t0 & Ht0 & Hacq0 & Hd0); [rewrite Hp; left|].
    assert (tid0 = tid') as -> by (eapply acquirer_unique; eauto). simplify_eq. by left.
  - assert (tid = tid') as ->.
    { eapply (acquirer_unique cfg s tid tid' t t'); eauto. exists lt'. right. exact Ho. }
    simplify_eq. right. eauto.
Qed.

Lemma once_inv_step cfg s it : SvInv cfg s → DsInv s → OnceInv s → OnceInv (vstep cfg s it).
Proof.
  intros HI HD [IH1 IH2]. split.
  - intros n k. destruct (vstep_count cfg s it n k HI) as [Heq|(Heq & Hnl & tid & t & -> & Ht & Hrel & Hlive)].
    + rewrite Heq. destruct (IH1 n k) as [H0|(H1 & Hnl & tid & t & sid & z & Ht & Hacq & Hpg)]; [by left|right].
      split; [done|]. destruct (acquirer_step cfg s it tid t sid n k z post_grant HI (post_grant_closed cfg) Ht Hacq Hpg) as (t' & Ht' & Hacq' & Hpg').
      split; [|eauto 8]. intros Hl. apply (vstep_live_new cfg s it n k HI) in Hl as [Hl|(tid0 & t0 & sid0 & z0 & Ht0 & Hacq0 & Hpre)]; [done|].
      assert (tid0 = tid) as -> by (eapply acquirer_unique; eauto). simplify_eq.
      destruct Hpre as [Hq|[Hq|Hq]]; destruct Hpg as [Hq'|[Hq'|[Hq'|[r Hq']]]]; congruence.
    + assert (Hl : slive s n k).
      { destruct Hlive as [?|Hpc]; [done|].
        destruct Hrel as [[_ Hp]|[(? & ? & _ & Hp & _)|[(? & ? & ? & _ & Hp & _)|(sid' & z' & lt' & e & Ho & Hp & Hc)]]]; try congruence.
        by eapply IH2. }
      destruct (IH1 n k) as [H0|(_ & Hnl0 & _)]; [|done]. right. rewrite Heq, H0. split; [done|]. split; [done|].
      destruct (vi_live_owner _ _ HI n k Hl) as (tid0 & t0 & sid0 & z0 & Ht0 & Hacq0 & Hpc0).
      assert (Hpg : post_grant (st_pc t0)) by (unfold post_grant; naive_solver).
      destruct (acquirer_step cfg s (VRun tid) tid0 t0 sid0 n k z0 post_grant HI (post_grant_closed cfg) Ht0 Hacq0 Hpg) as (t' & Ht' & Hacq' & Hpg').
      eauto 8.
  - intros tid t' sid n k z lt Ht' Hop Hpc.
    destruct (vstep_thr_back cfg s it tid t' HI Ht') as [[_ [Hfp _]]|(t & Ht & Hop' & _ & Hcase)].
    { rewrite Hop in Hfp. simpl in Hfp. congruence. }
    rewrite Hop in Hop'. symmetry in Hop'.
    assert (Hself : it = VRun tid → False).
    { intros ->. rewrite (vstep_run_lookup cfg s tid t (vi_not_crashed _ _ HI) Ht) in Ht'.
      by eapply lock_self_step. }
    destruct Hcase as [?|[Hsame|[Hw Hw']]]; [done| |].
    + rewrite Hpc in Hsame. symmetry in Hsame. pose proof (IH2 tid t sid n k z lt Ht Hop' Hsame) as Hl.
      destruct (slive_dec (vstep cfg s it) n k) as [?|Hnl]; [done|]. exfalso.
      destruct (vstep_live_lost cfg s it n k HI Hl Hnl) as (tr & ttr & -> & Htr & Hrel).
      destruct (releaser_owner cfg s (tr, ttr) tid t n k sid z HI HD Htr Hrel Ht) as [Hd|(-> & _)]; [exists lt; by right| |by apply Hself].
      unfold entry_done in Hd. rewrite Hsame in Hd. naive_solver.
    + destruct (vstep_woken cfg s it tid t t' HI Ht Hw Ht' Hpc) as (sid0 & n0 & k0 & z0 & lt0 & Hop0 & Hl). rewrite Hop0 in Hop'. by simplify_eq.
Qed.

Lemma once_inv_reach : T_svinv_reach → ∀ cfg s, vreach cfg s → OnceInv s.
Proof.
  intros Hinv cfg s Hr. induction Hr as [|s it Hr IH Hok].
  - split; [intros n k; by left|]. intros tid t ? ? ? ? ? Ht. simpl in Ht. by rewrite lookup_empty in Ht.
  - apply once_inv_step; [by apply Hinv|by eapply ds_inv_reach|done].
Qed.

Theorem C06_once_from_inv : T_svinv_reach → T_C06_once.
Proof.
  intros Hinv cfg s n k Hr. destruct (once_inv_reach Hinv cfg s Hr) as [H1 _].
  destruct (H1 n k) as [->|(-> & Hnl & _)]; [split; [lia|done]|split; [lia|done]].
Qed.
