(** Request-level lemmas about Mseq, part 2 (work package seqreq2):

      C07_inert, C07_refused_inert, C07_ipc_inert   a request answered with an error (or a refused TryLock)
                                                    changes nothing observable
      C07_frame                                     a request addressing (n',k') leaves the view of every other
                                                    live hold unchanged
      C13_gc_only_idle                              a GC run removes only empty, unwaited, idle lock objects
      C13_invisible                                 simulation: collected lock objects are invisible to requests

    All six are proved exactly as stated in Proofs/SeqTargets.v.

    Method: a case-analysis lemma per model function ([glc_inr], [srv_acquire_cases], [hand_off_cases],
    [mgr_unlock_cases], [srv_unlock_cases], ...), then
      - [obs_eq] / [hold_same] are equivalences, and each primitive state change preserves them
        ([hs_glc], [hs_add_key], [hs_record_grant], [hs_del_timer], [hs_remove_lock_entry], [hand_off_frame], ...);
      - [gc_related] is preserved when the same primitive runs on both states ([glc_sim], [add_key_sim],
        [record_grant_sim], [hand_off_sim], [mgr_unlock_sim], [srv_unlock_sim], [srv_acquire_sim]).
    Uses of the invariant: [inv_timers] + [tkey_inj] (no lease timer is filed under the key of a dead hold, so the
    timer removal of a failing Unlock is a no-op), [inv_waiters] (a call is parked only on an existing lock, so a
    TryLock on a fresh name is never refused), [inv_used_waiters] (the key of a parked call is not live, so the
    hand-off of an Unlock creates a new hold and does not touch an existing one). *)
From Coq Require Import Lia ZifyBool ZifyNat.
From Ldlm Require Import Model.Base Model.Err Model.Seq Proofs.SeqDefs Proofs.SeqLemmasKey Proofs.SeqTargets.
From RecordUpdate Require Import RecordSet.
Import RecordSetNotations.
Local Open Scope Z_scope.
Local Opaque second.

(** * Case analyses of the model functions *)

Lemma glc_inr name size s o s1 :
  get_lock_create name size s = inr (o, s1) →
  0 < size ∧ s1 = s <| st_locks := <[name := o]> (st_locks s) |> ∧
  ((∃ o0, st_locks s !! name = Some o0 ∧ size = lo_size o0 ∧ o = o0 <| lo_last := st_now s |>)
   ∨ (st_locks s !! name = None ∧ o = LockObj size [] (st_now s))).
Proof.
  unfold get_lock_create. destruct (size <=? 0) eqn:Hs; [discriminate|].
  destruct (st_locks s !! name) as [o0|] eqn:Hl.
  - case_bool_decide; [|discriminate]. intros [= <- <-]. split_and!; [lia|done|]. left; eauto.
  - intros [= <- <-]. split_and!; [lia|done|]. right; eauto.
Qed.

Lemma srv_acquire_cases cfg b wid sid name key size lt wt s s' o :
  srv_acquire cfg b wid sid name key size lt wt s = (s', o) →
  (s' = s ∧ ∃ e, o = [OResp (RLock false key (Some e))]) ∨
  (∃ ob s1, get_lock_create name size s = inr (ob, s1) ∧ name ≠ [] ∧
     ((can_acquire name ob s1 = true ∧
       s' = record_grant cfg sid name key size lt (add_key name key s1) ∧ o = [OResp (RLock true key None)])
      ∨ (can_acquire name ob s1 = false ∧ b = true ∧
         s' = s1 <| st_waiters := st_waiters s1 ++
                 [Waiter wid sid name key size lt
                    match wt with Some t => if 0 <? t then Some (st_now s + t * second) else None | None => None end] |> ∧
         o = [OResp RBlocked])
      ∨ (can_acquire name ob s1 = false ∧ b = false ∧ s' = s1 ∧ o = [OResp (RLock false key None)]))).
Proof.
  unfold srv_acquire. case_bool_decide as Hn.
  { intros [= <- <-]. left; eauto. }
  destruct (get_lock_create name size s) as [e|[ob s1]] eqn:Hg.
  { intros [= <- <-]. left; eauto. }
  right. exists ob, s1. split_and!; auto.
  destruct (can_acquire name ob s1) eqn:Hc.
  { injection H as <- <-. left; auto. }
  destruct b; injection H as <- <-; right; [left|right]; auto.
Qed.

Lemma srv_trylock_cases cfg sid name size lt key s s' o :
  srv_trylock cfg sid name size lt key s = (s', o) →
  (s' = s ∧ ∃ k e, o = [OResp (RLock false k (Some e))]) ∨
  (∃ sid', sid = Some sid' ∧
     srv_acquire cfg false 0%nat sid' name key (default 1 size) lt None (s <| st_used := key :: st_used s |>) = (s', o)).
Proof.
  unfold srv_trylock. destruct sid as [sid'|].
  2:{ intros [= <- <-]. left; eauto. }
  destruct (opt_neg lt). { intros [= <- <-]. left; eauto. }
  intros H. right; eauto.
Qed.

Lemma srv_lock_cases cfg wid sid name size lt wt key s s' o :
  srv_lock cfg wid sid name size lt wt key s = (s', o) →
  (s' = s ∧ ∃ k e, o = [OResp (RLock false k (Some e))]) ∨
  (∃ sid', sid = Some sid' ∧
     srv_acquire cfg true wid sid' name key (default 1 size) lt wt (s <| st_used := key :: st_used s |>) = (s', o)).
Proof.
  unfold srv_lock. destruct sid as [sid'|].
  2:{ intros [= <- <-]. left; eauto. }
  destruct (opt_neg lt). { intros [= <- <-]. left; eauto. }
  destruct (opt_neg wt). { intros [= <- <-]. left; eauto. }
  intros H. right; eauto.
Qed.

Lemma hand_off_cases cfg name s s' outs :
  hand_off cfg name s = (s', outs) →
  (s' = s ∧ outs = []) ∨
  (∃ o w ws, st_locks s !! name = Some o ∧ name_waiters name (st_waiters s) = w :: ws ∧
     Z.of_nat (length (lo_keys o)) < lo_size o ∧
     s' = record_grant cfg (w_sid w) name (w_key w) (w_size w) (w_lt w)
            (s <| st_locks := <[name := o <| lo_keys := lo_keys o ++ [w_key w] |>]> (st_locks s) |>
               <| st_waiters := filter (λ w', bool_decide (w_id w' ≠ w_id w)) (st_waiters s) |>) ∧
     outs = [OWaiter (w_id w) (st_now s) (RLock true (w_key w) None)]).
Proof.
  unfold hand_off. destruct (st_locks s !! name) as [o|] eqn:Hl.
  2:{ intros [= <- <-]; auto. }
  destruct (name_waiters name (st_waiters s)) as [|w ws] eqn:Hw.
  { intros [= <- <-]; auto. }
  case_bool_decide as Hc.
  2:{ intros [= <- <-]; auto. }
  intros [= <- <-]. right. exists o, w, ws. split_and!; auto.
  unfold add_key. rewrite Hl. reflexivity.
Qed.

Lemma mgr_unlock_cases cfg name key s s' r outs :
  mgr_unlock cfg name key s = (s', r, outs) →
  (st_locks s !! name = None ∧ s' = s ∧ r = inl ELockDoesNotExist ∧ outs = []) ∨
  (∃ o, st_locks s !! name = Some o ∧ key ∉ lo_keys o ∧
        s' = s <| st_locks := <[name := o <| lo_last := st_now s |>]> (st_locks s) |> ∧
        r = inl ELockInvalidLockKey ∧ outs = []) ∨
  (∃ o, st_locks s !! name = Some o ∧ key ∈ lo_keys o ∧ r = inr tt ∧
     hand_off cfg name
       (s <| st_locks := <[name := LockObj (lo_size o) (remove_first key (lo_keys o)) (st_now s)]> (st_locks s) |>)
     = (s', outs)).
Proof.
  unfold mgr_unlock. destruct (st_locks s !! name) as [o|] eqn:Hl.
  2:{ intros [= <- <- <-]; auto. }
  case_bool_decide as Hk.
  2:{ intros [= <- <- <-]. right; left. exists o; auto. }
  right; right. exists o. 
  match type of H with (let '(_, _) := ?h in _) = _ => destruct h as [s2 outs2] eqn:Hh end.
  injection H as <- <- <-. split_and!; auto. 
Qed.

Lemma srv_unlock_cases cfg name key s s' u e outs :
  srv_unlock cfg name key s = (s', (u, e), outs) →
  (∃ er, mgr_unlock cfg name key (s <| st_timers := delete (tkey name key) (st_timers s) |>) = (s', inl er, outs)
         ∧ u = false ∧ e = Some er) ∨
  (∃ s1, mgr_unlock cfg name key (s <| st_timers := delete (tkey name key) (st_timers s) |>) = (s1, inr tt, outs)
         ∧ s' = remove_lock_entry cfg name key s1 ∧ u = true ∧ e = None).
Proof.
  unfold srv_unlock.
  destruct (mgr_unlock _ _ _ _) as [[s1 [er|[]]] outs1] eqn:Hm; intros [= <- <- <- <-]; [left|right]; eauto.
Qed.

(** * Observable equality *)

Lemma obs_eq_refl s : obs_eq s s.
Proof. unfold obs_eq; split_and!; reflexivity. Qed.

Lemma obs_eq_trans s1 s2 s3 : obs_eq s1 s2 → obs_eq s2 s3 → obs_eq s1 s3.
Proof. unfold obs_eq; intros (?&?&?&?&?&?&?&?) (?&?&?&?&?&?&?&?); split_and!; congruence. Qed.

Lemma obs_eq_used s u : obs_eq s (s <| st_used := u |>).
Proof. unfold obs_eq; split_and!; reflexivity. Qed.

Lemma fmap_touch (m : gmap str lockobj) name o t :
  m !! name = Some o → lock_obs <$> m = lock_obs <$> <[name := o <| lo_last := t |>]> m.
Proof.
  intros H. rewrite fmap_insert. symmetry. apply insert_id. rewrite lookup_fmap, H. reflexivity.
Qed.

Lemma obs_eq_touch s name o t :
  st_locks s !! name = Some o →
  obs_eq s (s <| st_locks := <[name := o <| lo_last := t |>]> (st_locks s) |>).
Proof.
  intros H. unfold obs_eq; simpl; split_and!; try reflexivity.
  rewrite fmap_insert. symmetry. apply insert_id. rewrite lookup_fmap, H. reflexivity.
Qed.

Lemma no_timer_dead cfg s name key : Inv cfg s → ¬ live s name key → st_timers s !! tkey name key = None.
Proof.
  intros HI Hd. destruct (st_timers s !! tkey name key) as [t|] eqn:Ht; [|done].
  destruct (inv_timers _ _ HI _ _ Ht) as (Hk & _ & Hl).
  apply tkey_inj in Hk as [-> ->]. contradiction.
Qed.

Lemma obs_eq_del_timer cfg s name key :
  Inv cfg s → ¬ live s name key → obs_eq s (s <| st_timers := delete (tkey name key) (st_timers s) |>).
Proof.
  intros HI Hd. rewrite delete_notin by eauto using no_timer_dead.
  unfold obs_eq; split_and!; reflexivity.
Qed.

Lemma srv_unlock_fail cfg name key s s' u e outs :
  Inv cfg s → srv_unlock cfg name key s = (s', (u, Some e), outs) → obs_eq s s' ∧ u = false ∧ outs = [].
Proof.
  intros HI H. apply srv_unlock_cases in H as [(er & Hm & -> & _)|(s1 & _ & _ & _ & ?)]; [|discriminate].
  apply mgr_unlock_cases in Hm as [(Hl & -> & _ & ->)|[(o & Hl & Hk & -> & _ & ->)|(o & _ & _ & ? & _)]];
    [| |discriminate]; simpl in Hl; (split_and!; [|done|done]).
  - eapply obs_eq_del_timer; eauto. intros (o & Ho & _). congruence.
  - eapply obs_eq_trans. 
    + eapply (obs_eq_del_timer cfg s name key); eauto. intros (o' & Ho & Hk'). congruence.
    + apply (obs_eq_touch (s <| st_timers := delete (tkey name key) (st_timers s) |>)). exact Hl.
Qed.

Lemma hand_off_outs cfg name s s' outs x :
  hand_off cfg name s = (s', outs) → x ∈ outs → ∃ wid at_ r, x = OWaiter wid at_ r.
Proof.
  intros H Hx. apply hand_off_cases in H as [(_ & ->)|(o & w & ws & _ & _ & _ & _ & ->)].
  - inversion Hx.
  - apply elem_of_list_singleton in Hx as ->. eauto.
Qed.

Lemma srv_unlock_ok_outs cfg name key s s' u outs x :
  srv_unlock cfg name key s = (s', (u, None), outs) → x ∈ outs → ∃ wid at_ r, x = OWaiter wid at_ r.
Proof.
  intros H. apply srv_unlock_cases in H as [(er & _ & _ & ?)|(s1 & Hm & _ & _ & _)]; [discriminate|].
  apply mgr_unlock_cases in Hm as [(_ & _ & ? & _)|[(o & _ & _ & _ & ? & _)|(o & _ & _ & _ & Hh)]]; try discriminate.
  eauto using hand_off_outs.
Qed.

(** * C07: failed requests are inert *)

Lemma srv_acquire_fail_inert cfg b wid sid name key size lt wt s s' o :
  srv_acquire cfg b wid sid name key size lt wt s = (s', o) → is_failure o → s' = s.
Proof.
  intros H (r & Hr & Hf).
  apply srv_acquire_cases in H as [(-> & _)|(ob & s1 & _ & _ & [(_ & _ & ->)|[(_ & _ & _ & ->)|(_ & _ & _ & ->)]])]; auto;
    apply elem_of_list_singleton in Hr; injection Hr as ->; contradiction.
Qed.

Lemma C07_inert : T_C07_inert.
Proof.
  intros cfg s ev s' o HI Hok Hreq Hstep Hf.
  destruct ev; try contradiction; simpl in Hstep.
  - apply elem_of_list_singleton in Hstep. symmetry in Hstep.
    apply srv_trylock_cases in Hstep as [(-> & _)|(sid' & -> & Ha)]; [apply obs_eq_refl|].
    apply srv_acquire_fail_inert in Ha as ->; auto. apply obs_eq_used.
  - apply elem_of_list_singleton in Hstep. symmetry in Hstep.
    apply srv_lock_cases in Hstep as [(-> & _)|(sid' & -> & Ha)]; [apply obs_eq_refl|].
    apply srv_acquire_fail_inert in Ha as ->; auto. apply obs_eq_used.
  - destruct (srv_unlock cfg name key s) as [[s1 [u e]] outs] eqn:Hu.
    apply elem_of_list_singleton in Hstep. injection Hstep as -> ->.
    destruct e as [e|]; [eapply srv_unlock_fail; eauto|].
    exfalso. destruct Hf as (r & Hr & Hf). apply elem_of_app in Hr as [Hr|Hr].
    + eapply srv_unlock_ok_outs in Hr as (? & ? & ? & ?); eauto. discriminate.
    + apply elem_of_list_singleton in Hr. injection Hr as ->.
      apply srv_unlock_cases in Hu as [(? & _ & _ & ?)|(? & _ & _ & -> & _)]; [discriminate|]. exact Hf.
  - apply elem_of_list_singleton in Hstep. unfold srv_renew in Hstep.
    destruct (lt <=? 0). { injection Hstep as -> ->. apply obs_eq_refl. }
    destruct (st_timers s !! tkey name key). 
    + exfalso. injection Hstep as -> ->. destruct Hf as (r & Hr & Hf).
      apply elem_of_list_singleton in Hr. injection Hr as ->. exact Hf.
    + injection Hstep as -> ->. apply obs_eq_refl.
Qed.

Lemma C07_refused_inert : T_C07_refused_inert.
Proof.
  intros cfg s sid name size lt key s' k HI Hstep. simpl in Hstep.
  apply elem_of_list_singleton in Hstep. symmetry in Hstep.
  apply srv_trylock_cases in Hstep as [(_ & ? & ? & ?)|(sid' & -> & Ha)]; [discriminate|].
  apply srv_acquire_cases in Ha as [(_ & ? & ?)|(ob & s1 & Hg & _ & [(_ & _ & ?)|[(_ & ? & _)|(Hc & _ & -> & _)]])];
    try discriminate.
  apply glc_inr in Hg as (Hsz & -> & [(o0 & Hl & _ & ->)|(Hl & ->)]); simpl in *.
  - unfold obs_eq; simpl; split_and!; try reflexivity. by apply fmap_touch.
  - exfalso. unfold can_acquire in Hc. simpl in Hc.
    apply andb_false_iff in Hc as [Hc|Hc]; apply bool_decide_eq_false in Hc; [lia|].
    apply Hc. destruct (name_waiters name (st_waiters s)) as [|w ws] eqn:Hw; [done|].
    assert (w ∈ name_waiters name (st_waiters s)) as Hin by (rewrite Hw; left).
    apply elem_of_list_filter in Hin as [Hn Hin].
    destruct (inv_waiters _ _ HI _ Hin) as ((o & Ho & _) & _). congruence.
Qed.

Lemma ipc_unlock_with_fail cfg name k s s' o e :
  Inv cfg s → ipc_unlock_with cfg name k s = (s', o) → OIpcUnlock None (Some e) ∈ o → obs_eq s s'.
Proof.
  intros HI H Hin. unfold ipc_unlock_with in H.
  destruct (srv_unlock cfg name k s) as [[s1 [u [er|]]] outs] eqn:Hu; injection H as <- <-.
  - eapply srv_unlock_fail; eauto.
  - exfalso. apply elem_of_app in Hin as [Hin|Hin].
    + eapply srv_unlock_ok_outs in Hin as (? & ? & ? & ?); eauto. discriminate.
    + apply elem_of_list_singleton in Hin. discriminate.
Qed.

Lemma C07_ipc_inert : T_C07_ipc_inert.
Proof.
  intros cfg s name key s' o e HI Hstep Hin. simpl in Hstep. unfold ipc_unlock in Hstep.
  destruct key as [k|].
  - case_bool_decide; [inversion Hstep|]. apply elem_of_list_singleton in Hstep. symmetry in Hstep.
    eauto using ipc_unlock_with_fail.
  - destruct (ipc_candidates name s) as [|k0 ks] eqn:Hc.
    { apply elem_of_list_singleton in Hstep. injection Hstep as -> ->. apply obs_eq_refl. }
    apply elem_of_list_fmap in Hstep as (k & Hk & _). case_bool_decide.
    + injection Hk as -> ->. apply obs_eq_refl.
    + symmetry in Hk. eauto using ipc_unlock_with_fail.
Qed.

(** * C07: frame *)

Definition livem (m : gmap str lockobj) (n k : str) : Prop := ∃ o, m !! n = Some o ∧ k ∈ lo_keys o.
Definition listedm (m : gmap str (list clock)) (sid : str) (c : clock) : Prop := ∃ l, m !! sid = Some l ∧ c ∈ l.

Lemma livem_insert m name o n k :
  livem (<[name := o]> m) n k ↔ (n = name ∧ k ∈ lo_keys o) ∨ (n ≠ name ∧ livem m n k).
Proof.
  unfold livem. destruct (decide (n = name)) as [->|Hn].
  - rewrite lookup_insert. naive_solver.
  - rewrite lookup_insert_ne by done. naive_solver.
Qed.

Lemma hold_same_refl s n k : hold_same s s n k.
Proof. unfold hold_same; split_and!; reflexivity. Qed.

Lemma hold_same_trans s1 s2 s3 n k : hold_same s1 s2 n k → hold_same s2 s3 n k → hold_same s1 s3 n k.
Proof.
  unfold hold_same; intros (H1 & H2 & H3) (H4 & H5 & H6); split_and!.
  - rewrite H1; exact H4.
  - congruence.
  - intros sid sz. rewrite H3. apply H6.
Qed.

Lemma hold_same_mk s s' n k :
  (livem (st_locks s) n k ↔ livem (st_locks s') n k) →
  st_timers s !! tkey n k = st_timers s' !! tkey n k →
  (∀ sid sz, listedm (st_sessions s) sid (Clock n k sz) ↔ listedm (st_sessions s') sid (Clock n k sz)) →
  hold_same s s' n k.
Proof. intros; split_and!; assumption. Qed.

Lemma tkey_ne n k name key : ¬ (n = name ∧ k = key) → tkey name key ≠ tkey n k.
Proof. intros H E. apply tkey_inj in E as [-> ->]. auto. Qed.

Lemma hs_glc name size s o s1 n k : get_lock_create name size s = inr (o, s1) → hold_same s s1 n k.
Proof.
  intros H. apply glc_inr in H as (_ & -> & H). apply hold_same_mk; simpl; try reflexivity.
  rewrite livem_insert. unfold livem.
  destruct H as [(o0 & Hl & _ & ->)|(Hl & ->)]; simpl; destruct (decide (n = name)) as [->|?];
    rewrite ?elem_of_nil; naive_solver.
Qed.

Lemma hs_add_key name key s n k : ¬ (n = name ∧ k = key) → hold_same s (add_key name key s) n k.
Proof.
  intros Hne. unfold add_key. destruct (st_locks s !! name) as [o|] eqn:Hl; [|apply hold_same_refl].
  apply hold_same_mk; simpl; try reflexivity.
  rewrite livem_insert. unfold livem. simpl. rewrite elem_of_app, elem_of_list_singleton.
  destruct (decide (n = name)) as [->|?]; naive_solver.
Qed.

Lemma listedm_grant m sid c' sid' c :
  c ≠ c' → listedm (<[sid := default [] (m !! sid) ++ [c']]> m) sid' c ↔ listedm m sid' c.
Proof.
  intros Hne. unfold listedm. destruct (decide (sid' = sid)) as [->|Hs].
  - rewrite lookup_insert. split.
    + intros (l & [= <-] & Hin). apply elem_of_app in Hin as [Hin|Hin].
      * destruct (m !! sid) as [l|]; simpl in Hin; [eauto|inversion Hin].
      * apply elem_of_list_singleton in Hin. contradiction.
    + intros (l & Hl & Hin). rewrite Hl. simpl. eexists; split; [done|]. apply elem_of_app; auto.
  - rewrite lookup_insert_ne by done. reflexivity.
Qed.

Lemma hs_record_grant cfg sid name key size lt s n k :
  ¬ (n = name ∧ k = key) → hold_same s (record_grant cfg sid name key size lt s) n k.
Proof.
  intros Hne. unfold record_grant, save.
  assert (∀ sz, Clock n k sz ≠ Clock name key size) as Hc by (intros sz [= -> ->]; auto).
  pose proof (tkey_ne _ _ _ _ Hne) as Ht.
  destruct lt as [t|]; [destruct (0 <? t)|]; destruct (c_file cfg); apply hold_same_mk; simpl; try reflexivity;
    try (intros sid' sz; symmetry; apply listedm_grant, Hc); rewrite lookup_insert_ne by done; reflexivity.
Qed.

Lemma hs_del_timer name key s n k :
  ¬ (n = name ∧ k = key) → hold_same s (s <| st_timers := delete (tkey name key) (st_timers s) |>) n k.
Proof.
  intros Hne. apply hold_same_mk; simpl; try reflexivity.
  rewrite lookup_delete_ne; [done|]. by apply tkey_ne.
Qed.

Lemma listedm_remove m name key sid c :
  is_hold name key c = false →
  listedm ((λ l, filter (λ c, is_hold name key c = false) l) <$> m) sid c ↔ listedm m sid c.
Proof.
  intros Hc. unfold listedm. rewrite lookup_fmap. split.
  - intros (l & Hl & Hin). apply fmap_Some in Hl as (l0 & Hl0 & ->).
    apply elem_of_list_filter in Hin as [_ Hin]. eauto.
  - intros (l & Hl & Hin). rewrite Hl. simpl. eexists; split; [done|].
    apply elem_of_list_filter; auto.
Qed.

Lemma hs_remove_lock_entry cfg name key s n k :
  ¬ (n = name ∧ k = key) → hold_same s (remove_lock_entry cfg name key s) n k.
Proof.
  intros Hne. unfold remove_lock_entry, save.
  assert (∀ sz, is_hold name key (Clock n k sz) = false) as Hc.
  { intros sz. unfold is_hold; simpl. apply andb_false_iff.
    destruct (decide (n = name)) as [->|?]; [right|left]; apply bool_decide_eq_false; naive_solver. }
  destruct (existsb _ _); [destruct (c_file cfg)|]; apply hold_same_mk; simpl; try reflexivity;
    intros sid sz; symmetry; apply listedm_remove, Hc.
Qed.

Lemma elem_of_remove_first_ne (k key : str) l : k ≠ key → k ∈ remove_first key l ↔ k ∈ l.
Proof.
  intros Hne. induction l as [|x l IH]; simpl; [done|].
  case_bool_decide as Hx.
  - subst x. rewrite elem_of_cons. naive_solver.
  - rewrite !elem_of_cons, IH. done.
Qed.

Lemma name_waiters_head name ws w ws' : name_waiters name ws = w :: ws' → w ∈ ws ∧ w_name w = name.
Proof.
  intros H. assert (w ∈ name_waiters name ws) as Hin by (rewrite H; left).
  apply elem_of_list_filter in Hin. tauto.
Qed.

Lemma hand_off_frame cfg name s s' outs n k :
  hand_off cfg name s = (s', outs) → (∀ w, w ∈ st_waiters s → w_key w ≠ k) → hold_same s s' n k.
Proof.
  intros H Hw. apply hand_off_cases in H as [(-> & _)|(o & w & ws & Hl & Hnw & _ & -> & _)]; [apply hold_same_refl|].
  apply name_waiters_head in Hnw as [Hin _]. specialize (Hw _ Hin).
  eapply hold_same_trans; [|apply hs_record_grant; naive_solver].
  apply hold_same_mk; simpl; try reflexivity.
  rewrite livem_insert. unfold livem. simpl. rewrite elem_of_app, elem_of_list_singleton.
  destruct (decide (n = name)) as [->|?]; naive_solver.
Qed.

Lemma mgr_unlock_frame cfg name key s s' r outs n k :
  mgr_unlock cfg name key s = (s', r, outs) → ¬ (n = name ∧ k = key) →
  (∀ w, w ∈ st_waiters s → w_key w ≠ k) → hold_same s s' n k.
Proof.
  intros H Hne Hw.
  apply mgr_unlock_cases in H as [(_ & -> & _)|[(o & Hl & _ & -> & _)|(o & Hl & _ & _ & Hh)]].
  - apply hold_same_refl.
  - apply hold_same_mk; simpl; try reflexivity.
    rewrite livem_insert. unfold livem. simpl. destruct (decide (n = name)) as [->|?]; naive_solver.
  - eapply hold_same_trans; [|eapply hand_off_frame; [exact Hh|exact Hw]].
    apply hold_same_mk; simpl; try reflexivity.
    rewrite livem_insert. unfold livem. simpl. destruct (decide (n = name)) as [->|?].
    + assert (k ≠ key) by naive_solver. rewrite elem_of_remove_first_ne by done. naive_solver.
    + naive_solver.
Qed.

Lemma srv_unlock_frame cfg name key s s' r outs n k :
  srv_unlock cfg name key s = (s', r, outs) → ¬ (n = name ∧ k = key) →
  (∀ w, w ∈ st_waiters s → w_key w ≠ k) → hold_same s s' n k.
Proof.
  intros H Hne Hw. destruct r as [u e].
  apply srv_unlock_cases in H as [(er & Hm & _)|(s1 & Hm & -> & _)];
    (eapply hold_same_trans; [apply (hs_del_timer name key); exact Hne|]).
  - eapply mgr_unlock_frame; eauto.
  - eapply hold_same_trans; [eapply mgr_unlock_frame; eauto|]. by apply hs_remove_lock_entry.
Qed.

Lemma srv_acquire_frame cfg b wid sid name key size lt wt s s' o n k :
  srv_acquire cfg b wid sid name key size lt wt s = (s', o) → ¬ (n = name ∧ k = key) → hold_same s s' n k.
Proof.
  intros H Hne.
  apply srv_acquire_cases in H as [(-> & _)|(ob & s1 & Hg & _ & [(_ & -> & _)|[(_ & _ & -> & _)|(_ & _ & -> & _)]])].
  - apply hold_same_refl.
  - eapply hold_same_trans; [eapply hs_glc; eauto|].
    eapply hold_same_trans; [apply hs_add_key; eauto|]. by apply hs_record_grant.
  - eapply hold_same_trans; [eapply hs_glc; eauto|]. apply hold_same_mk; simpl; reflexivity.
  - eapply hs_glc; eauto.
Qed.

Lemma hs_used s u n k : hold_same s (s <| st_used := u |>) n k.
Proof. apply hold_same_mk; simpl; reflexivity. Qed.

Lemma C07_frame : T_C07_frame.
Proof.
  intros cfg s ev s' o n k n' k' HI Hok Hstep Haddr Hne Hlive.
  assert (∀ w, w ∈ st_waiters s → w_key w ≠ k) as Hw.
  { intros w Hin <-. destruct (inv_used_waiters _ _ HI _ Hin) as [_ Hnl]. apply Hnl; eauto. }
  destruct ev; try contradiction; simpl in Haddr, Hstep.
  - destruct Haddr as [-> ->]. assert (¬ (n = name ∧ k = key)) as Hne' by naive_solver.
    apply elem_of_list_singleton in Hstep. symmetry in Hstep.
    apply srv_trylock_cases in Hstep as [(-> & _)|(sid' & -> & Ha)]; [apply hold_same_refl|].
    eapply hold_same_trans; [apply hs_used|]. eapply srv_acquire_frame; eauto.
  - destruct Haddr as [-> ->]. assert (¬ (n = name ∧ k = key)) as Hne' by naive_solver.
    apply elem_of_list_singleton in Hstep. symmetry in Hstep.
    apply srv_lock_cases in Hstep as [(-> & _)|(sid' & -> & Ha)]; [apply hold_same_refl|].
    eapply hold_same_trans; [apply hs_used|]. eapply srv_acquire_frame; eauto.
  - destruct Haddr as [-> ->]. assert (¬ (n = name ∧ k = key)) as Hne' by naive_solver.
    destruct (srv_unlock cfg name key s) as [[s1 [u e]] outs] eqn:Hu.
    apply elem_of_list_singleton in Hstep. injection Hstep as -> ->.
    eapply srv_unlock_frame; eauto.
  - destruct Haddr as [-> ->]. assert (¬ (n = name ∧ k = key)) as Hne' by naive_solver.
    apply elem_of_list_singleton in Hstep. unfold srv_renew in Hstep.
    destruct (lt <=? 0). { injection Hstep as -> ->. apply hold_same_refl. }
    destruct (st_timers s !! tkey name key); injection Hstep as -> ->; [|apply hold_same_refl].
    apply hold_same_mk; simpl; try reflexivity.
    rewrite lookup_insert_ne; [done|]. by apply tkey_ne.
  - destruct key as [key|]; [|contradiction].
    destruct Haddr as [-> ->]. assert (¬ (n = name ∧ k = key)) as Hne' by naive_solver.
    unfold ipc_unlock in Hstep. case_bool_decide; [inversion Hstep|].
    apply elem_of_list_singleton in Hstep. unfold ipc_unlock_with in Hstep.
    destruct (srv_unlock cfg name key s) as [[s1 [u e]] outs] eqn:Hu.
    assert (s' = s1) as -> by (destruct e; congruence).
    eapply srv_unlock_frame; eauto.
Qed.

(** * C13: what a GC run removes *)

Lemma C13_gc_only_idle : T_C13_gc_only_idle.
Proof.
  intros cfg t s. cbv zeta. unfold run_gc_until.
  destruct (c_gc_interval cfg <=? 0) eqn:Hi.
  { simpl. repeat split; auto; intros; congruence. }
  destruct (st_gc_next s <=? t) eqn:Hn.
  2:{ simpl. repeat split; auto; intros; congruence. }
  simpl. split_and!; auto.
  - intros n o H. apply map_filter_lookup_Some in H. tauto.
  - intros n o H H0. apply map_filter_lookup_None in H0 as [H0|H0]; [congruence|].
    specialize (H0 _ H). simpl in H0. apply not_false_is_true in H0.
    unfold gc_collectable in H0.
    apply andb_true_iff in H0 as [H0 H3]. apply andb_true_iff in H0 as [H1 H2].
    apply bool_decide_eq_true in H1, H2. split_and!; auto.
    assert (0 < c_gc_interval cfg) by lia.
    pose proof (Z.mul_div_le (t - st_gc_next s) (c_gc_interval cfg) H0).
    lia.
Qed.

(** * C13: collected idle empty locks are invisible to requests *)

Definition gcm (ws : list waiter) (ms mg : gmap str lockobj) : Prop :=
  (∀ n o, mg !! n = Some o → ms !! n = Some o) ∧
  (∀ n o, ms !! n = Some o → mg !! n = None → lo_keys o = [] ∧ ∀ w, w ∈ ws → w_name w ≠ n).

Definition same_rest (s g : sstate) : Prop :=
  st_sessions g = st_sessions s ∧ st_timers g = st_timers s ∧ st_waiters g = st_waiters s ∧
  st_file g = st_file s ∧ st_now g = st_now s ∧ st_shut g = st_shut s.

Lemma name_waiters_nil n ws : name_waiters n ws = [] ↔ ∀ w, w ∈ ws → w_name w ≠ n.
Proof.
  unfold name_waiters. split.
  - intros H w Hin Hn. assert (w ∈ filter (λ w, w_name w = n) ws) as Hf by (apply elem_of_list_filter; done).
    rewrite H in Hf. inversion Hf.
  - intros H. destruct (filter (λ w, w_name w = n) ws) as [|w l] eqn:Hf; [done|]. exfalso.
    assert (w ∈ filter (λ w, w_name w = n) ws) as Hin by (rewrite Hf; left).
    apply elem_of_list_filter in Hin as [Hn Hin]. exact (H _ Hin Hn).
Qed.

Lemma gc_related_alt s g : gc_related s g ↔ same_rest s g ∧ gcm (st_waiters s) (st_locks s) (st_locks g).
Proof.
  unfold gc_related, same_rest, gcm. split.
  - intros (?&?&?&?&?&?&H1&H2). split_and!; auto; intros n o Hs Hg; destruct (H2 n o Hs Hg) as [? Hw]; split; auto.
    by apply name_waiters_nil.
  - intros ((?&?&?&?&?&?)&G1&G2). split_and!; auto. intros n o Hs Hg; destruct (G2 n o Hs Hg) as [? Hw]; split; auto.
    by apply name_waiters_nil.
Qed.

Lemma gcm_insert ws ms mg n o : gcm ws ms mg → gcm ws (<[n := o]> ms) (<[n := o]> mg).
Proof.
  intros [H1 H2]. split; intros n' o'; destruct (decide (n' = n)) as [->|Hn];
    rewrite ?lookup_insert, ?lookup_insert_ne by done; auto. discriminate.
Qed.

Lemma gcm_insert_l ws ms mg n o :
  gcm ws ms mg → mg !! n = None → lo_keys o = [] → (∀ w, w ∈ ws → w_name w ≠ n) → gcm ws (<[n := o]> ms) mg.
Proof.
  intros [H1 H2] Hg Hk Hw. split; intros n' o'; destruct (decide (n' = n)) as [->|Hn];
    rewrite ?lookup_insert, ?lookup_insert_ne by done; auto.
  - congruence.
  - intros [= <-] _. auto.
Qed.

Lemma gcm_waiters ws ws' ms mg :
  gcm ws ms mg → (∀ w, w ∈ ws' → w ∈ ws ∨ is_Some (mg !! w_name w)) → gcm ws' ms mg.
Proof.
  intros [H1 H2] Hw. split; [exact H1|]. intros n o Hs Hg. destruct (H2 n o Hs Hg) as [Hk Hn]. split; [done|].
  intros w Hin Hwn. destruct (Hw _ Hin) as [Hin'|[x Hx]]; [exact (Hn _ Hin' Hwn)|]. congruence.
Qed.

Lemma gcm_lookup_g ws ms mg n o : gcm ws ms mg → mg !! n = Some o → ms !! n = Some o.
Proof. intros [H1 _]; auto. Qed.

Ltac gr_destruct H :=
  let Hr := fresh "Hr" in let Hm := fresh "Hm" in
  apply gc_related_alt in H as [Hr Hm];
  let Hs := fresh "Hs" in let Ht := fresh "Ht" in let Hw := fresh "Hw" in
  let Hf := fresh "Hf" in let Hn := fresh "Hn" in let Hsh := fresh "Hsh" in
  destruct Hr as (Hs & Ht & Hw & Hf & Hn & Hsh).

Lemma gr_used s g u u' : gc_related s g → gc_related (s <| st_used := u |>) (g <| st_used := u' |>).
Proof. intros H. exact H. Qed.

Lemma glc_sim name size s g :
  gc_related s g →
  match get_lock_create name size s with
  | inl e => e = ELockSizeMismatch ∨ get_lock_create name size g = inl e
  | inr (o, s1) => ∃ g1, get_lock_create name size g = inr (o, g1) ∧ gc_related s1 g1 ∧
                         st_locks g1 !! name = Some o ∧ st_locks s1 !! name = Some o
  end.
Proof.
  intros H. gr_destruct H. unfold get_lock_create. rewrite Hn.
  destruct (size <=? 0); [auto|].
  destruct (st_locks g !! name) as [og|] eqn:Hg.
  - rewrite (gcm_lookup_g _ _ _ _ _ Hm Hg). case_bool_decide; [|auto].
    eexists; split; [reflexivity|]. simpl. rewrite !lookup_insert. split_and!; try done.
    apply gc_related_alt; split; [done|]. simpl. by apply gcm_insert.
  - destruct (st_locks s !! name) as [os|] eqn:Hl.
    + case_bool_decide as Hsz; [|auto]. destruct Hm as [H1 H2]. destruct (H2 _ _ Hl Hg) as [Hk Hnw].
      assert (os <| lo_last := st_now s |> = LockObj size [] (st_now s)) as ->.
      { destruct os; simpl in *; subst; reflexivity. }
      eexists; split; [reflexivity|]. simpl. rewrite !lookup_insert. split_and!; try done.
      apply gc_related_alt; split; [done|]. simpl. by apply gcm_insert.
    + eexists; split; [reflexivity|]. simpl. rewrite !lookup_insert. split_and!; try done.
      apply gc_related_alt; split; [done|]. simpl. by apply gcm_insert.
Qed.

Lemma can_acquire_sim name o s g : st_waiters g = st_waiters s → can_acquire name o g = can_acquire name o s.
Proof. intros H. unfold can_acquire. rewrite H. reflexivity. Qed.

Lemma add_key_sim name key o s g :
  gc_related s g → st_locks g !! name = Some o → gc_related (add_key name key s) (add_key name key g).
Proof.
  intros H Hg. gr_destruct H. unfold add_key. rewrite Hg, (gcm_lookup_g _ _ _ _ _ Hm Hg).
  apply gc_related_alt; split; [done|]. simpl. by apply gcm_insert.
Qed.

Lemma add_key_lookup name key o s :
  st_locks s !! name = Some o → is_Some (st_locks (add_key name key s) !! name).
Proof. intros H. unfold add_key. rewrite H. simpl. rewrite lookup_insert. eauto. Qed.

Lemma record_grant_sim cfg sid name key size lt s g :
  gc_related s g → gc_related (record_grant cfg sid name key size lt s) (record_grant cfg sid name key size lt g).
Proof.
  intros H. gr_destruct H. unfold record_grant, save.
  destruct lt as [t|]; [destruct (0 <? t)|]; destruct (c_file cfg); apply gc_related_alt; (split; [|exact Hm]);
    unfold same_rest; simpl; rewrite ?Hs, ?Ht, ?Hn; split_and!; done.
Qed.

Lemma waiters_filter_sim P `{∀ w, Decision (P w)} s g :
  gc_related s g →
  gc_related (s <| st_waiters := filter P (st_waiters s) |>) (g <| st_waiters := filter P (st_waiters g) |>).
Proof.
  intros H0. gr_destruct H0. apply gc_related_alt; split.
  - unfold same_rest; simpl; rewrite ?Hw; split_and!; done.
  - simpl. eapply gcm_waiters; [exact Hm|]. intros w Hin. apply elem_of_list_filter in Hin. tauto.
Qed.

Lemma waiters_app_sim w s g :
  gc_related s g → is_Some (st_locks g !! w_name w) →
  gc_related (s <| st_waiters := st_waiters s ++ [w] |>) (g <| st_waiters := st_waiters g ++ [w] |>).
Proof.
  intros H0 Hl. gr_destruct H0. apply gc_related_alt; split.
  - unfold same_rest; simpl; rewrite ?Hw; split_and!; done.
  - simpl. eapply gcm_waiters; [exact Hm|]. intros w' Hin. apply elem_of_app in Hin as [Hin|Hin]; [auto|].
    apply elem_of_list_singleton in Hin as ->. auto.
Qed.

Lemma timers_sim (f : gmap str timer → gmap str timer) s g :
  gc_related s g → gc_related (s <| st_timers := f (st_timers s) |>) (g <| st_timers := f (st_timers g) |>).
Proof.
  intros H0. gr_destruct H0. apply gc_related_alt; split; [|exact Hm].
  unfold same_rest; simpl; rewrite ?Ht; split_and!; done.
Qed.

Lemma remove_lock_entry_sim cfg name key s g :
  gc_related s g → gc_related (remove_lock_entry cfg name key s) (remove_lock_entry cfg name key g).
Proof.
  intros H. gr_destruct H. unfold remove_lock_entry, save. rewrite Hs.
  destruct (existsb _ _); [destruct (c_file cfg)|]; apply gc_related_alt; (split; [|exact Hm]);
    unfold same_rest; simpl; rewrite ?Hs; split_and!; done.
Qed.

Lemma hand_off_sim cfg name s g s' outs :
  gc_related s g → st_locks g !! name = st_locks s !! name → hand_off cfg name s = (s', outs) →
  ∃ g', hand_off cfg name g = (g', outs) ∧ gc_related s' g'.
Proof.
  intros H Hl. pose proof H as H0. gr_destruct H0. unfold hand_off. rewrite Hl, Hw, Hn.
  destruct (st_locks s !! name) as [o|] eqn:Hls. 2:{ intros [= <- <-]; eauto. }
  destruct (name_waiters name (st_waiters s)) as [|w ws]. { intros [= <- <-]; eauto. }
  case_bool_decide. 2:{ intros [= <- <-]; eauto. }
  intros [= <- <-]. eexists; split; [reflexivity|].
  apply record_grant_sim.
  assert (gc_related (add_key name (w_key w) s) (add_key name (w_key w) g)) as Ha by (eapply add_key_sim; eauto).
  apply (waiters_filter_sim (λ w', bool_decide (w_id w' ≠ w_id w)) _ _ Ha).
Qed.

Lemma mgr_unlock_sim cfg name key s g s' r outs :
  gc_related s g → mgr_unlock cfg name key s = (s', r, outs) →
  ∃ g' r', mgr_unlock cfg name key g = (g', r', outs) ∧ gc_related s' g' ∧
           (r' = r ∨ (∃ e e', r = inl e ∧ r' = inl e' ∧ outs = [])).
Proof.
  intros H. pose proof H as H0. gr_destruct H0. unfold mgr_unlock. rewrite Hn.
  destruct (st_locks g !! name) as [og|] eqn:Hg.
  - rewrite (gcm_lookup_g _ _ _ _ _ Hm Hg). case_bool_decide.
    + match goal with |- context [hand_off cfg name ?x] => destruct (hand_off cfg name x) as [s2 o2] eqn:Hh end.
      intros [= <- <- <-]. eapply hand_off_sim in Hh as (g' & -> & Hr').
      * eexists _, _; split; [reflexivity|]. split; auto.
      * apply gc_related_alt; split; [exact (conj Hs (conj Ht (conj Hw (conj Hf (conj Hn Hsh)))))|]. simpl.
        apply gcm_insert. exact Hm.
      * simpl. rewrite !lookup_insert. reflexivity.
    + intros [= <- <- <-]. eexists _, _; split; [reflexivity|]. split; auto.
      apply gc_related_alt; split; [done|]. simpl. by apply gcm_insert.
  - destruct (st_locks s !! name) as [os|] eqn:Hl.
    + destruct Hm as [H1 H2]. destruct (H2 _ _ Hl Hg) as [Hk Hnw].
      rewrite Hk. rewrite bool_decide_eq_false_2 by apply not_elem_of_nil.
      intros [= <- <- <-]. eexists _, _; split; [reflexivity|]. split; [|right; eauto].
      apply gc_related_alt; split; [done|]. simpl. apply gcm_insert_l; auto. by split.
    + intros [= <- <- <-]. eexists _, _; split; [reflexivity|]. split; auto.
Qed.

Lemma srv_unlock_sim cfg name key s g s' r outs :
  gc_related s g → srv_unlock cfg name key s = (s', r, outs) →
  ∃ g' r', srv_unlock cfg name key g = (g', r', outs) ∧ gc_related s' g' ∧
           (r' = r ∨ (∃ e e', r = (false, Some e) ∧ r' = (false, Some e') ∧ outs = [])).
Proof.
  intros H. unfold srv_unlock.
  pose proof (timers_sim (delete (tkey name key)) _ _ H) as H0.
  destruct (mgr_unlock cfg name key (s <| st_timers := _ |>)) as [[s1 r1] o1] eqn:Hm.
  eapply mgr_unlock_sim in Hm as (g1 & r1' & -> & Hr1 & Hres); [|exact H0].
  destruct Hres as [->|(e & e' & -> & -> & ->)].
  - destruct r1 as [e|u]; intros [= <- <- <-]; eexists _, _; (split; [reflexivity|]); split; auto.
    by apply remove_lock_entry_sim.
  - intros [= <- <- <-]; eexists _, _; (split; [reflexivity|]); split; auto. right; eauto.
Qed.

Lemma srv_acquire_sim cfg b wid sid name key size lt wt s g s' o :
  gc_related s g → srv_acquire cfg b wid sid name key size lt wt s = (s', o) →
  ∃ g' o', srv_acquire cfg b wid sid name key size lt wt g = (g', o') ∧
           ((o' = o ∧ gc_related s' g') ∨ (∃ k, o = [OResp (RLock false k (Some ELockSizeMismatch))])).
Proof.
  intros H. pose proof H as H0. gr_destruct H0. unfold srv_acquire. rewrite Hn.
  case_bool_decide. { intros [= <- <-]. eexists _, _; split; [reflexivity|]. auto. }
  pose proof (glc_sim name size s g H) as Hg.
  destruct (get_lock_create name size s) as [e|[ob s1]].
  - intros [= <- <-]. destruct Hg as [-> | ->].
    + destruct (match get_lock_create name size g with inl _ => _ | inr _ => _ end) as [g' o'].
      eexists _, _; split; [reflexivity|]. right; eauto.
    + eexists _, _; split; [reflexivity|]. auto.
  - destruct Hg as (g1 & -> & Hr1 & Hlg & Hls). pose proof Hr1 as Hr1'. gr_destruct Hr1'.
    rewrite (can_acquire_sim _ _ _ _ Hw0). destruct (can_acquire name ob s1).
    + intros [= <- <-]. eexists _, _; split; [reflexivity|]. left; split; [done|].
      apply record_grant_sim. eapply add_key_sim; eauto.
    + destruct b; intros [= <- <-]; eexists _, _; (split; [reflexivity|]); left; (split; [done|]); [|done].
      apply (waiters_app_sim _ _ _ Hr1). simpl. eauto.
Qed.

Lemma C13_invisible : T_C13_invisible.
Proof.
  intros cfg s g ev s' o HI Hr Hreq Hstep.
  destruct ev; try contradiction; simpl in Hstep |- *.
  - apply elem_of_list_singleton in Hstep. symmetry in Hstep. unfold srv_trylock in *.
    destruct sid as [sid|].
    2:{ injection Hstep as <- <-. eexists _, _; split; [apply elem_of_list_singleton; reflexivity|]. auto. }
    destruct (opt_neg lt).
    { injection Hstep as <- <-. eexists _, _; split; [apply elem_of_list_singleton; reflexivity|]. auto. }
    eapply srv_acquire_sim in Hstep as (g' & o' & Hg & Hres); [|apply (gr_used _ _ _ (key :: st_used g) Hr)].
    exists g', o'. split; [apply elem_of_list_singleton; by rewrite Hg|]. destruct Hres as [?|?]; auto.
  - apply elem_of_list_singleton in Hstep. symmetry in Hstep. unfold srv_lock in *.
    destruct sid as [sid|].
    2:{ injection Hstep as <- <-. eexists _, _; split; [apply elem_of_list_singleton; reflexivity|]. auto. }
    destruct (opt_neg lt).
    { injection Hstep as <- <-. eexists _, _; split; [apply elem_of_list_singleton; reflexivity|]. auto. }
    destruct (opt_neg wt).
    { injection Hstep as <- <-. eexists _, _; split; [apply elem_of_list_singleton; reflexivity|]. auto. }
    eapply srv_acquire_sim in Hstep as (g' & o' & Hg & Hres); [|apply (gr_used _ _ _ (key :: st_used g) Hr)].
    exists g', o'. split; [apply elem_of_list_singleton; by rewrite Hg|]. destruct Hres as [?|?]; auto.
  - destruct (srv_unlock cfg name key s) as [[s1 [u e]] outs] eqn:Hu.
    apply elem_of_list_singleton in Hstep. injection Hstep as -> ->.
    eapply srv_unlock_sim in Hu as (g' & r' & -> & Hr' & Hres); [|exact Hr].
    destruct Hres as [->|(e1 & e2 & [= -> ->] & -> & ->)].
    + eexists _, _; split; [apply elem_of_list_singleton; reflexivity|]. auto.
    + eexists _, _; split; [apply elem_of_list_singleton; reflexivity|]. right; right. simpl. eauto.
  - apply elem_of_list_singleton in Hstep. symmetry in Hstep. unfold srv_renew in *.
    pose proof Hr as Hr0. gr_destruct Hr0. rewrite Ht, Hn.
    destruct (lt <=? 0).
    { injection Hstep as <- <-. eexists _, _; split; [apply elem_of_list_singleton; reflexivity|]. auto. }
    destruct (st_timers s !! tkey name key) as [t|]; injection Hstep as <- <-;
      (eexists _, _; split; [apply elem_of_list_singleton; reflexivity|]); left; (split; [done|]); [|done].
    apply gc_related_alt; split; [|exact Hm]. unfold same_rest; simpl; split_and!; done.
Qed.
