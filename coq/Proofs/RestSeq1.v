(** Mrest, sequential layer: the step-form targets of C20 (Proofs/RestDefs.v):
    [C20_valid], [C20_delete], [C20_expire], with the basic facts about [statuses]/[ends]/[strip],
    [lift_seq], [list_min]/[idle_due] and [radvance_loop] the other RestSeq files reuse. *)
From Coq Require Import Lia ZifyBool ZifyNat ZifyN String.
From Ldlm Require Import Model.Base Model.Err Model.Seq Model.Track Model.Rest Proofs.RestDefs.
From RecordUpdate Require Import RecordSet.
Import RecordSetNotations.
Local Open Scope Z_scope.

(** ** [statuses], [ends], [strip] *)

Lemma statuses_app a b : statuses (a ++ b) = statuses a ++ statuses b.
Proof. apply omap_app. Qed.
Lemma ends_app a b : ends (a ++ b) = ends a ++ ends b.
Proof. apply omap_app. Qed.
Lemma strip_app a b : strip (a ++ b) = strip a ++ strip b.
Proof. apply omap_app. Qed.

Lemma statuses_seq o : statuses (map ROSeq o) = [].
Proof. induction o; [done|]. cbn. apply IHo. Qed.
Lemma ends_seq o : ends (map ROSeq o) = [].
Proof. induction o; [done|]. cbn. apply IHo. Qed.
Lemma strip_seq o : strip (map ROSeq o) = o.
Proof. induction o; [done|]. cbn. f_equal. apply IHo. Qed.

Lemma elem_of_ends s o : s ∈ ends o ↔ ROEnd s ∈ o.
Proof.
  unfold ends. rewrite elem_of_list_omap. split.
  - intros ([] & Hin & Heq); try discriminate. by inversion Heq; subst.
  - intros Hin. exists (ROEnd s). done.
Qed.

Lemma elem_of_seq_routs x o : ROSeq x ∈ map ROSeq o → x ∈ o.
Proof.
  intros Hin%elem_of_list_In%in_map_iff. destruct Hin as (y & [= ->] & Hy).
  by apply elem_of_list_In.
Qed.

(** ** membership in [map] / [lift_seq] *)

Lemma elem_of_map {A B} (f : A → B) l y : y ∈ map f l ↔ ∃ x, y = f x ∧ x ∈ l.
Proof.
  rewrite elem_of_list_In, in_map_iff. split; intros (x & ? & ?); exists x; split; auto;
    by apply elem_of_list_In.
Qed.

Lemma elem_of_lift_seq st pre post l st' o :
  (st', o) ∈ lift_seq st pre post l ↔
  ∃ s' o', (s', o') ∈ l ∧ st' = st <| r_seq := s' |> ∧ o = pre ++ map ROSeq o' ++ post.
Proof.
  unfold lift_seq. rewrite elem_of_map. split.
  - intros ([s' o'] & Heq & Hin). inversion Heq; subst. eauto.
  - intros (s' & o' & Hin & -> & ->). exists (s', o'). done.
Qed.

(** ** C20_valid *)

Lemma C20_valid : T_C20_valid.
Proof.
  intros cfg tmo st c q st' o Hin Hq. unfold rstep in Hin.
  destruct c as [c|].
  2:{ apply elem_of_list_singleton in Hin. inversion Hin; subst. split; [|done].
      intros (c' & se & Hc & _); discriminate. }
  destruct (r_table st !! c) as [se|] eqn:Hse.
  2:{ apply elem_of_list_singleton in Hin. inversion Hin; subst. split; [|done].
      intros (c' & se & [= <-] & Hl & _). congruence. }
  destruct (Z.ltb_spec (r_now st) (rs_deadline se)) as [Hlt|Hge].
  - split.
    2:{ intros Hn; exfalso; apply Hn. exists c, se. done. }
    intros _.
    assert (Hex : ∃ c' se0, Some c = Some c' ∧ r_table st !! c' = Some se0 ∧
       r_table (st <| r_table := <[c := RSess (rs_sid se) (r_now st + tmo)]> (r_table st) |>)
         = <[c' := RSess (rs_sid se0) (r_now st + tmo)]> (r_table st)).
    { exists c, se. done. }
    destruct (req_event (rs_sid se) q) as [ev|] eqn:Hev.
    + apply elem_of_lift_seq in Hin as (s' & o' & Hs & -> & ->). cbn.
      rewrite !statuses_app, statuses_seq. cbn.
      split; [|split; [done|exact Hex]].
      intros [Heq|Hn]%elem_of_cons; [discriminate|by apply elem_of_nil in Hn].
    + destruct q; try discriminate.
      apply elem_of_list_singleton in Hin. inversion Hin; subst. cbn.
      split; [|split; [done|exact Hex]].
      intros [Heq|Hn]%elem_of_cons; [congruence|by apply elem_of_nil in Hn].
  - apply elem_of_list_singleton in Hin. inversion Hin; subst. split; [|done].
    intros (c' & se' & [= <-] & Hl & Hlt). rewrite Hse in Hl. inversion Hl; subst. lia.
Qed.

(** ** C20_delete *)

Lemma C20_delete : T_C20_delete.
Proof.
  intros cfg tmo st c st' o Hin. unfold rstep in Hin.
  destruct c as [c|].
  2:{ apply elem_of_list_singleton in Hin. by inversion Hin. }
  destruct (r_table st !! c) as [se|] eqn:Hse.
  2:{ apply elem_of_list_singleton in Hin. by inversion Hin. }
  apply elem_of_lift_seq in Hin as (s' & o' & Hs & -> & ->). cbn.
  rewrite ends_app, statuses_app, ends_seq, statuses_seq. done.
Qed.

(** ** [list_min], [idle_due] *)

Lemma fold_min_spec l : ∀ d,
  fold_left Z.min l d ∈ d :: l ∧ ∀ x, x ∈ d :: l → fold_left Z.min l d ≤ x.
Proof.
  induction l as [|y l IH]; intros d; cbn [fold_left].
  - split; [by left|]. intros x [->|Hn]%elem_of_cons; [lia|by apply elem_of_nil in Hn].
  - destruct (IH (Z.min d y)) as [Hin Hle]. split.
    + apply elem_of_cons in Hin as [Heq|Hin].
      * rewrite Heq. destruct (Z.min_spec d y) as [[_ ->]|[_ ->]]; [by left|by right; left].
      * by right; right.
    + intros x Hx. assert (Hm : fold_left Z.min l (Z.min d y) ≤ Z.min d y) by (apply Hle; by left).
      apply elem_of_cons in Hx as [->|Hx]; [lia|].
      apply elem_of_cons in Hx as [->|Hx]; [lia|]. apply Hle. by right.
Qed.

Lemma list_min_spec l m : list_min l = Some m → m ∈ l ∧ ∀ x, x ∈ l → m ≤ x.
Proof.
  destruct l as [|d l]; [done|]. cbn. intros [= <-]. apply fold_min_spec.
Qed.

Lemma elem_of_deadlines st c se : r_table st !! c = Some se → rs_deadline se ∈ deadlines st.
Proof.
  intros Hl. unfold deadlines. apply elem_of_map. exists (c, se). split; [done|].
  by apply elem_of_map_to_list.
Qed.

Lemma idle_due_nil target st :
  idle_due target st = [] → ∀ c se, r_table st !! c = Some se → target < rs_deadline se.
Proof.
  unfold idle_due. intros H c se Hl.
  pose proof (elem_of_deadlines _ _ _ Hl) as Hd.
  destruct (list_min (deadlines st)) as [m|] eqn:Hm.
  - apply list_min_spec in Hm as [Hin Hle]. destruct (Z.leb_spec m target) as [Hmt|Hmt].
    + exfalso. unfold deadlines in Hin. apply elem_of_map in Hin as ([c' se'] & Heq & Hin').
      assert (Hf : (c', se') ∈ filter (λ '(_, se), rs_deadline se =? m) (map_to_list (r_table st))).
      { apply elem_of_list_filter. split; [|done]. cbn. apply Is_true_true, Z.eqb_eq. done. }
      rewrite H in Hf. by apply elem_of_nil in Hf.
    + specialize (Hle _ Hd). lia.
  - destruct (deadlines st); [by apply elem_of_nil in Hd | discriminate].
Qed.

Lemma idle_due_elem target st c se :
  (c, se) ∈ idle_due target st → r_table st !! c = Some se ∧ rs_deadline se ≤ target.
Proof.
  unfold idle_due. destruct (list_min (deadlines st)) as [m|]; [|by intros ?%elem_of_nil].
  destruct (Z.leb_spec m target) as [Hmt|Hmt]; [|by intros ?%elem_of_nil].
  intros [Hp Hin]%elem_of_list_filter. cbn in Hp. apply Is_true_true, Z.eqb_eq in Hp.
  apply elem_of_map_to_list in Hin. split; [done|lia].
Qed.

(** ** [expired_sids] *)

Lemma map_filter_perm {A B} (g : A → B) (f : A → bool) l l' :
  l ≡ₚ l' → map g (List.filter f l) ≡ₚ map g (List.filter f l').
Proof.
  induction 1 as [|x l l' _ IH|x y l|l1 l2 l3 _ IH1 _ IH2]; cbn.
  - done.
  - destruct (f x); cbn; [by constructor|done].
  - destruct (f x), (f y); cbn; try done. apply perm_swap.
  - by etransitivity.
Qed.

Lemma filter_all_false {A} (f : A → bool) l : (∀ x, x ∈ l → f x = false) → List.filter f l = [].
Proof.
  induction l as [|x l IH]; [done|]. intros H. cbn. rewrite (H x) by (by left).
  apply IH. intros y Hy. apply H. by right.
Qed.

Lemma expired_sids_none target st :
  (∀ c se, r_table st !! c = Some se → target < rs_deadline se) → expired_sids target st = [].
Proof.
  intros H. unfold expired_sids. rewrite filter_all_false; [done|].
  intros [c se] Hin%elem_of_map_to_list. apply H in Hin. lia.
Qed.

Lemma expired_sids_delete target st c se s2 now2 :
  r_table st !! c = Some se → rs_deadline se ≤ target →
  expired_sids target st ≡ₚ rs_sid se :: expired_sids target (RState s2 (delete c (r_table st)) now2).
Proof.
  intros Hl Hle. unfold expired_sids. cbn [r_table].
  rewrite <- (map_filter_perm _ _ _ _ (map_to_list_delete _ _ _ Hl)). cbn.
  destruct (Z.leb_spec (rs_deadline se) target); [done|lia].
Qed.

Lemma elem_of_expired_sids target st c se :
  r_table st !! c = Some se → rs_deadline se ≤ target → rs_sid se ∈ expired_sids target st.
Proof.
  intros Hl Hle. unfold expired_sids. apply elem_of_map. exists (c, se). split; [done|].
  apply elem_of_list_In, filter_In. split; [by apply elem_of_list_In, elem_of_map_to_list|].
  cbn. lia.
Qed.

(** ** the advance loop *)

Definition adv_post (target : Z) (st : rstate) (outs : list rout) (st' : rstate) (o : list rout) : Prop :=
  (∀ c se, r_table st !! c = Some se → rs_deadline se ≤ target → r_table st' !! c = None) ∧
  (∀ c se, r_table st !! c = Some se → target < rs_deadline se → r_table st' !! c = Some se) ∧
  (∀ c, r_table st !! c = None → r_table st' !! c = None) ∧
  ends o ≡ₚ ends outs ++ expired_sids target st ∧
  r_now st' = Z.max (r_now st) target.

Lemma radvance_loop_spec cfg target : ∀ fuel st outs st' o,
  (size (r_table st) < fuel)%nat →
  (st', o) ∈ radvance_loop cfg fuel target st outs →
  adv_post target st outs st' o.
Proof.
  induction fuel as [|fuel IH]; intros st outs st' o Hsz Hin; [lia|].
  cbn [radvance_loop] in Hin.
  destruct (idle_due target st) as [|p due] eqn:Hdue.
  - pose proof (idle_due_nil _ _ Hdue) as Hall.
    apply elem_of_map in Hin as ([s' o'] & Heq & _). inversion Heq; subst. cbn.
    split; [|split; [|split; [|split]]].
    + intros c se Hl Hle. apply Hall in Hl. lia.
    + done.
    + done.
    + rewrite ends_app, ends_seq, expired_sids_none by done. done.
    + done.
  - rewrite <- Hdue in Hin. clear p due Hdue.
    apply elem_of_list_In, in_flat_map in Hin as ([c se] & Hcs & Hin).
    apply in_flat_map in Hin as ([s1 o1] & _ & Hin).
    apply in_flat_map in Hin as ([s2 o2] & _ & Hin).
    apply elem_of_list_In in Hcs, Hin.
    apply idle_due_elem in Hcs as [Hl Hle].
    apply IH in Hin.
    2:{ cbn [r_table]. rewrite map_size_delete_Some by eauto.
        assert (size (r_table st) ≠ 0%nat).
        { intros Hz%map_size_empty_inv. rewrite Hz in Hl. by rewrite lookup_empty in Hl. }
        lia. }
    destruct Hin as (H1 & H2 & H3 & H4 & H5). cbn [r_table r_now] in *.
    split; [|split; [|split; [|split]]].
    + intros c0 se0 Hl0 Hle0. destruct (decide (c0 = c)) as [->|Hne].
      * apply H3. apply lookup_delete.
      * eapply H1; [|done]. by rewrite lookup_delete_ne.
    + intros c0 se0 Hl0 Hlt0. destruct (decide (c0 = c)) as [->|Hne].
      * rewrite Hl in Hl0. inversion Hl0; subst. lia.
      * apply H2; [|done]. by rewrite lookup_delete_ne.
    + intros c0 Hl0. apply H3. destruct (decide (c0 = c)) as [->|Hne];
        [apply lookup_delete|by rewrite lookup_delete_ne].
    + rewrite H4. rewrite !ends_app, !ends_seq. cbn.
      rewrite (expired_sids_delete target st c se s2 (Z.max (r_now st) (rs_deadline se)) Hl Hle).
      rewrite <- app_assoc. done.
    + rewrite H5. lia.
Qed.

(** ** C20_expire *)

Lemma radvance_spec cfg dt st st' o :
  (st', o) ∈ radvance cfg dt st → adv_post (r_now st + Z.max 0 dt) st [] st' o.
Proof.
  unfold radvance. apply radvance_loop_spec. lia.
Qed.

Lemma C20_expire : T_C20_expire.
Proof.
  intros cfg tmo st dt st' o Hin target. cbn [rstep] in Hin.
  apply radvance_spec in Hin. fold target in Hin.
  destruct Hin as (H1 & H2 & H3 & H4 & H5). cbn in H4.
  split; [|split; [|split; [|split]]]; try done.
  intros c se Hl Hle. split; [by eapply H1|].
  apply elem_of_ends. rewrite H4. by eapply elem_of_expired_sids.
Qed.


(** ** The gap rule: the table is the oracle's set of live sessions *)

Definition gf (tmo : Z) (gs : gsess) : rsess := RSess (gs_sid gs) (gs_last gs + tmo).

Definition gap_rel (tmo : Z) (st : rstate) (g : gapst) : Prop :=
  r_now st = gp_now g ∧
  r_table st = gf tmo <$> gp_live g ∧
  (∀ c se, r_table st !! c = Some se → r_now st < rs_deadline se).

Lemma gap_rel_seq tmo st g s' : gap_rel tmo st g → gap_rel tmo (st <| r_seq := s' |>) g.
Proof. done. Qed.

Lemma gap_rel_step cfg tmo st g ev st' o :
  0 < tmo → gap_rel tmo st g → (st', o) ∈ rstep cfg tmo st ev → gap_rel tmo st' (gap_step tmo g ev).
Proof.
  intros Htmo (Hnow & Htab & Hfut) Hin.
  destruct ev as [c sid|[c|]|[c|] q|dt|]; cbn [rstep gap_step] in *.
  - (* create *)
    apply elem_of_lift_seq in Hin as (s' & o' & _ & -> & ->). unfold gap_rel; cbn.
    split; [done|]. split.
    + rewrite Htab, fmap_insert, Hnow. done.
    + intros c0 se0 [[<- <-]|[Hne Hl]]%lookup_insert_Some; cbn; [lia|by eapply Hfut].
  - (* delete (Some c) *)
    assert (Hlk : r_table st !! c = gf tmo <$> gp_live g !! c) by (rewrite Htab; apply lookup_fmap).
    destruct (r_table st !! c) as [se|] eqn:Hse.
    + apply elem_of_lift_seq in Hin as (s' & o' & _ & -> & ->). split; [done|]. split; cbn.
      * rewrite Htab, fmap_delete. done.
      * intros c0 se0 [Hne Hl]%lookup_delete_Some. by eapply Hfut.
    + apply elem_of_list_singleton in Hin. inversion Hin; subst. split; [done|]. split; cbn.
      * rewrite delete_notin; [done|]. destruct (gp_live g !! c); [discriminate|done].
      * done.
  - apply elem_of_list_singleton in Hin. inversion Hin; subst. done.
  - (* request (Some c) *)
    assert (Hlk : r_table st !! c = gf tmo <$> gp_live g !! c) by (rewrite Htab; apply lookup_fmap).
    destruct (r_table st !! c) as [se|] eqn:Hse.
    + destruct (gp_live g !! c) as [gs|] eqn:Hgs; [|discriminate]. cbn in Hlk.
      pose proof (Hfut _ _ Hse) as Hlt.
      destruct (Z.ltb_spec (r_now st) (rs_deadline se)); [|lia].
      assert (Hst1 : gap_rel tmo (st <| r_table := <[c := RSess (rs_sid se) (r_now st + tmo)]> (r_table st) |>)
                       (GapSt (gp_now g) (<[c := GSess (gs_sid gs) (gp_now g)]> (gp_live g)))).
      { inversion Hlk; subst se. split; [done|]. split; cbn.
        - rewrite Htab, fmap_insert, Hnow. done.
        - intros c0 se0 [[<- <-]|[Hne Hl]]%lookup_insert_Some; cbn; [lia|by eapply Hfut]. }
      destruct (req_event (rs_sid se) q) as [ev|].
      * apply elem_of_lift_seq in Hin as (s' & o' & _ & -> & ->). by apply gap_rel_seq.
      * destruct q; apply elem_of_list_singleton in Hin; inversion Hin; subst; done.
    + destruct (gp_live g !! c) as [gs|] eqn:Hgs; [discriminate|].
      apply elem_of_list_singleton in Hin. inversion Hin; subst. done.
  - apply elem_of_list_singleton in Hin. inversion Hin; subst. done.
  - (* advance *)
    apply radvance_spec in Hin. destruct Hin as (H1 & H2 & H3 & _ & H5).
    rewrite <- Hnow. set (target := r_now st + Z.max 0 dt) in *.
    assert (Hn' : r_now st' = target) by (unfold target in *; lia).
    assert (Hlk : ∀ c, r_table st !! c = gf tmo <$> gp_live g !! c) by (intros; rewrite Htab; apply lookup_fmap).
    split; [done|]. split; cbn [gp_live gp_now].
    + apply map_eq. intros c. rewrite lookup_fmap. specialize (Hlk c).
      destruct (gp_live g !! c) as [gs|] eqn:Hgs; cbn in Hlk.
      * destruct (Z.ltb_spec target (gs_last gs + tmo)) as [Hlt|Hge].
        -- rewrite (H2 _ _ Hlk) by (cbn; lia).
           erewrite (proj2 (map_filter_lookup_Some _ _ _ gs)); [done|]. split; [done|]. cbn. lia.
        -- rewrite (H1 _ _ Hlk) by (cbn; lia).
           rewrite (proj2 (map_filter_lookup_None _ _ _)); [done|]. right.
           intros gs' Hgs'. rewrite Hgs in Hgs'. inversion Hgs'; subst. cbn. lia.
      * rewrite (H3 _ Hlk). rewrite (proj2 (map_filter_lookup_None _ _ _)); [done|]. by left.
    + intros c se Hl'. rewrite Hn'.
      destruct (r_table st !! c) as [se0|] eqn:Hse; [|rewrite (H3 _ Hse) in Hl'; discriminate].
      destruct (Z.le_gt_cases (rs_deadline se0) target) as [Hle|Hgt].
      * rewrite (H1 _ _ Hse Hle) in Hl'. discriminate.
      * rewrite (H2 _ _ Hse Hgt) in Hl'. inversion Hl'; subst. lia.
  - (* probe *)
    apply elem_of_lift_seq in Hin as (s' & o' & _ & -> & ->). done.
Qed.

Lemma elem_of_rruns_cons cfg tmo st ev h st' os :
  (st', os) ∈ rruns cfg tmo st (ev :: h) ↔
  ∃ st1 o os', (st1, o) ∈ rstep cfg tmo st ev ∧ (st', os') ∈ rruns cfg tmo st1 h ∧ os = o :: os'.
Proof.
  cbn [rruns]. rewrite elem_of_list_In, in_flat_map. split.
  - intros ([st1 o] & H1 & H2). apply elem_of_list_In, elem_of_map in H2 as ([st2 os'] & Heq & H2).
    inversion Heq; subst. exists st1, o, os'. split; [by apply elem_of_list_In|done].
  - intros (st1 & o & os' & H1 & H2 & ->). exists (st1, o). split; [by apply elem_of_list_In|].
    apply elem_of_list_In, elem_of_map. exists (st', os'). done.
Qed.

Lemma gap_rel_runs cfg tmo : 0 < tmo → ∀ h st g st' os,
  gap_rel tmo st g → (st', os) ∈ rruns cfg tmo st h → gap_rel tmo st' (fold_left (gap_step tmo) h g).
Proof.
  intros Htmo. induction h as [|ev h IH]; intros st g st' os Hrel Hin.
  - apply elem_of_list_singleton in Hin. inversion Hin; subst. done.
  - apply elem_of_rruns_cons in Hin as (st1 & o & os' & H1 & H2 & ->). cbn [fold_left].
    eapply IH; [|exact H2]. eapply gap_rel_step; eauto.
Qed.

Lemma gap_rel_init cfg tmo : gap_rel tmo (rinit cfg) gap_init.
Proof.
  split; [done|]. split; cbn.
  - by rewrite fmap_empty.
  - intros c se. by rewrite lookup_empty.
Qed.

Lemma C20_gap_rule : T_C20_gap_rule.
Proof.
  intros cfg tmo h st os Htmo Hin.
  exact (gap_rel_runs cfg tmo Htmo h _ _ _ _ (gap_rel_init cfg tmo) Hin).
Qed.

Lemma gap_valid_iff tmo st g c : gap_rel tmo st g → gap_valid g c = true ↔ valid_cookie st c.
Proof.
  intros (Hnow & Htab & Hfut). unfold gap_valid, valid_cookie. destruct c as [c|].
  2:{ split; [done|]. intros (c' & se & Hc & _). discriminate. }
  rewrite bool_decide_eq_true.
  assert (Hlk : r_table st !! c = gf tmo <$> gp_live g !! c) by (rewrite Htab; apply lookup_fmap).
  split.
  - intros [gs Hgs]. rewrite Hgs in Hlk. cbn in Hlk. exists c, (gf tmo gs). split; [done|].
    split; [done|]. by eapply Hfut.
  - intros (c' & se & [= <-] & Hl & _). rewrite Hl in Hlk. destruct (gp_live g !! c); [eauto|discriminate].
Qed.

Lemma C20_gap_accept : T_C20_gap_accept.
Proof.
  intros cfg tmo h st os c q st' o Htmo Hrun Hq Hin.
  pose proof (gap_rel_runs cfg tmo Htmo h _ _ _ _ (gap_rel_init cfg tmo) Hrun) as Hrel.
  fold (gap_run tmo h) in Hrel.
  pose proof (gap_valid_iff _ _ _ c Hrel) as Hiff.
  destruct (C20_valid cfg tmo st c q st' o Hin Hq) as [Hv Hnv]. split.
  - intros Hg. apply Hiff in Hg. by apply Hv in Hg as [? _].
  - intros Hg. apply Hnv. intros Hvc. apply Hiff in Hvc. congruence.
Qed.

