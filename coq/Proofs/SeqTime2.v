(** Time-level facts about Mseq (the EAdvance event): C04 keeps / expires, C03 wait timeouts.
    Work package seqtime. Each is a loop invariant of [advance_loop] plugged into
    [advance_loop_inv]; the fragments of [Inv] they need are carried through the loop here. *)
From Coq Require Import Lia ZifyBool ZifyNat.
From Ldlm Require Import Model.Base Model.Err Model.Seq Proofs.SeqDefs Proofs.SeqLemmasKey Proofs.SeqTargets.
From Ldlm Require Import Proofs.SeqTimeBase Proofs.SeqTime1.
From RecordUpdate Require Import RecordSet.
Import RecordSetNotations.
Local Open Scope Z_scope.

(** ** One round, by cases *)

Lemma tick_timers cfg t s : st_timers (tick cfg t s) = st_timers s.
Proof. unfold tick; cbn. apply gc_timers. Qed.
Lemma tick_waiters cfg t s : st_waiters (tick cfg t s) = st_waiters s.
Proof. unfold tick; cbn. apply gc_waiters. Qed.
Lemma tick_now cfg t s : st_now (tick cfg t s) = t.
Proof. done. Qed.
Lemma tick_locks cfg t s : st_locks (tick cfg t s) = st_locks (run_gc_until cfg t s).
Proof. done. Qed.

Lemma round_cases cfg target s d s2 o :
  d ∈ next_due target s → fire cfg d (tick cfg (Z.max (st_now s) (due_time d)) s) = (s2, o) →
  let t := Z.max (st_now s) (due_time d) in
  due_time d ≤ target ∧ (∀ d', d' ∈ all_items s → due_time d ≤ due_time d') ∧ st_now s2 = t ∧
  ((∃ w, d = DWaiter w ∧ w ∈ st_waiters s ∧ w_deadline w = Some (due_time d) ∧
        st_locks s2 = st_locks (run_gc_until cfg t s) ∧ st_timers s2 = st_timers s ∧
        st_waiters s2 = filter (λ w', bool_decide (w_id w' ≠ w_id w)) (st_waiters s) ∧
        o = [OWaiter (w_id w) t (RLock false (w_key w) (Some ESrvLockWaitTimeout))])
   ∨ (∃ tk tm x, d = DTimer tk tm ∧ st_timers s !! tk = Some tm ∧
        unlock_shape (tm_name tm) (tm_key tm) (st_locks (run_gc_until cfg t s)) (st_waiters s) t s2 x o ∧
        st_timers s2 = delete tk (match x with Some w => grant_timers t (tm_name tm) w (st_timers s)
                                             | None => st_timers s end))).
Proof.
  intros (Hd & Hle & Hmin)%next_due_elem Hf. cbn zeta. split; [done|]. split; [done|].
  apply all_items_spec in Hd as [(tk & tm & -> & Hl)|(w & -> & Hin & Hdl)]; cbn [fire] in Hf.
  - apply expire_spec in Hf as (x & Hs & Hnow & Ht).
    rewrite tick_now, tick_waiters, tick_locks, ?tick_timers in *. split; [done|]. right. eauto 10.
  - unfold waiter_leave in Hf. injection Hf as <- <-. cbn. split; [done|]. left. exists w.
    rewrite gc_waiters, gc_timers. split_and!; try done. cbn. by destruct (w_deadline w).
Qed.

(** ** How liveness moves through an unlock with hand-off *)

Definition liveL (L : gmap str lockobj) (n k : str) : Prop := ∃ ob, L !! n = Some ob ∧ k ∈ lo_keys ob.

Lemma shape_live_keep n0 k0 L W now s2 x o n k : unlock_shape n0 k0 L W now s2 x o →
  (n, k) ≠ (n0, k0) → liveL L n k → live s2 n k.
Proof.
  intros Hs Hne (ob & Hl & Hk). unfold live. rewrite (unlock_shape_lookup _ _ _ _ _ _ _ _ n Hs), Hl. cbn.
  eexists; split; [done|]. destruct (decide (n = n0)) as [->|]; [|done]. cbn.
  apply elem_of_app. left. apply remove_first_other; [congruence|done].
Qed.

Lemma shape_live_inv n0 k0 L W now s2 x o n k : unlock_shape n0 k0 L W now s2 x o → live s2 n k →
  (∃ ob, L !! n = Some ob ∧ k ∈ (if decide (n = n0) then remove_first k0 (lo_keys ob) else lo_keys ob)) ∨
  (n = n0 ∧ ∃ w, x = Some w ∧ k = w_key w).
Proof.
  intros Hs (ob2 & Hl & Hk). rewrite (unlock_shape_lookup _ _ _ _ _ _ _ _ n Hs) in Hl.
  destruct (L !! n) as [ob|]; [|done]. cbn in Hl. injection Hl as <-.
  destruct (decide (n = n0)) as [->|]; [|left; eauto]. cbn in Hk. apply elem_of_app in Hk as [Hk|Hk].
  - left. eauto.
  - right. split; [done|]. destruct x as [w|]; [|by apply elem_of_nil in Hk].
    apply elem_of_list_singleton in Hk. eauto.
Qed.

Lemma shape_live_inv' n0 k0 L W now s2 x o n k : unlock_shape n0 k0 L W now s2 x o → live s2 n k →
  liveL L n k ∨ (∃ w, w ∈ W ∧ w_name w = n ∧ w_key w = k).
Proof.
  intros Hs Hl. destruct (shape_live_inv _ _ _ _ _ _ _ _ _ _ Hs Hl) as [(ob & Ho & Hk)|(-> & w & -> & ->)].
  - left. exists ob. split; [done|]. destruct (decide _); [by eapply remove_first_sub|done].
  - right. exists w. destruct (unlock_shape_granted _ _ _ _ _ _ _ _ w Hs eq_refl). done.
Qed.

Lemma gc_liveL cfg t s n k : liveL (st_locks (run_gc_until cfg t s)) n k ↔ live s n k.
Proof. split; [apply gc_live_inv|apply gc_live]. Qed.

(** ** Fragments of the invariant that survive the rounds *)

(** every timer is filed under its own key *)
Definition own_key (s : sstate) : Prop := ∀ tk t, st_timers s !! tk = Some t → tk = tkey (tm_name t) (tm_key t).
(** no parked call carries key [k] *)
Definition no_waiter_key (k : str) (s : sstate) : Prop := ∀ w, w ∈ st_waiters s → w_key w ≠ k.
(** the clock has not passed anything that is still pending *)
Definition time_sane (target : Z) (s : sstate) : Prop :=
  st_now s ≤ target ∧ ∀ d, d ∈ all_items s → st_now s ≤ due_time d.

Lemma round_waiters_sub cfg target s d s2 o w :
  d ∈ next_due target s → fire cfg d (tick cfg (Z.max (st_now s) (due_time d)) s) = (s2, o) →
  w ∈ st_waiters s2 → w ∈ st_waiters s.
Proof.
  intros Hd Hf. destruct (round_cases _ _ _ _ _ _ Hd Hf) as (_ & _ & _ & [(w0 & _ & _ & _ & _ & _ & Hw & _)|(tk & tm & x & _ & _ & Hs & _)]).
  - rewrite Hw. by intros [_ ?]%elem_of_list_filter.
  - by eapply unlock_shape_waiters_sub.
Qed.

Lemma round_timers_lookup cfg target s d s2 o tk t :
  d ∈ next_due target s → fire cfg d (tick cfg (Z.max (st_now s) (due_time d)) s) = (s2, o) →
  st_timers s2 !! tk = Some t →
  st_timers s !! tk = Some t ∨
  (∃ w lt, w ∈ st_waiters s ∧ w_lt w = Some lt ∧ 0 < lt ∧ tk = tkey (w_name w) (w_key w) ∧
           t = Timer (st_now s2 + lt * second) (w_name w) (w_key w) (w_sid w)).
Proof.
  intros Hd Hf. destruct (round_cases _ _ _ _ _ _ Hd Hf) as (_ & _ & Hnow & [(w0 & _ & _ & _ & _ & Ht & _)|(tk0 & tm & x & _ & _ & Hs & Ht)]).
  - rewrite Ht. by left.
  - rewrite Ht. intros [Hne Hl]%lookup_delete_Some. destruct x as [w|]; [|by left].
    apply grant_timers_lookup in Hl as [?|(lt & ? & ? & -> & ->)]; [by left|]. right.
    destruct (unlock_shape_granted _ _ _ _ _ _ _ _ w Hs eq_refl) as [? <-]. rewrite Hnow. eauto 10.
Qed.

Lemma round_own_key cfg target s d s2 o :
  d ∈ next_due target s → fire cfg d (tick cfg (Z.max (st_now s) (due_time d)) s) = (s2, o) →
  own_key s → own_key s2.
Proof.
  intros Hd Hf Ho tk t Hl. eapply round_timers_lookup in Hl as [?|(w & lt & _ & _ & _ & -> & ->)]; eauto.
Qed.

Lemma round_no_waiter_key cfg target s d s2 o k :
  d ∈ next_due target s → fire cfg d (tick cfg (Z.max (st_now s) (due_time d)) s) = (s2, o) →
  no_waiter_key k s → no_waiter_key k s2.
Proof. intros Hd Hf Hn w Hw. eapply Hn, round_waiters_sub; eauto. Qed.

Lemma round_time_sane cfg target s d s2 o :
  d ∈ next_due target s → fire cfg d (tick cfg (Z.max (st_now s) (due_time d)) s) = (s2, o) →
  time_sane target s → time_sane target s2 ∧ st_now s2 = due_time d ∧ st_now s ≤ st_now s2.
Proof.
  intros Hd Hf [Hnt Hitems]. pose proof (round_cases _ _ _ _ _ _ Hd Hf) as (Hle & Hmin & Hnow & _).
  pose proof (next_due_elem _ _ _ Hd) as (Hin & _). specialize (Hitems _ Hin) as Hnd.
  assert (st_now s2 = due_time d) as Hnow' by lia. split; [|lia]. split; [lia|].
  intros d' [(tk & t & -> & Hl)|(w & -> & Hw & Hdl)]%all_items_spec.
  - eapply round_timers_lookup in Hl as [Hl|(w & lt & _ & _ & Hlt & _ & ->)]; eauto.
    + rewrite Hnow'. apply Hmin, all_items_spec. left; eauto.
    + cbn. pose proof second_pos. nia.
  - rewrite Hnow'. apply Hmin, all_items_spec. right. exists w. split_and!; try done. eapply round_waiters_sub; eauto.
Qed.

(** what [Inv] provides at the start *)
Lemma inv_own_key cfg s : Inv cfg s → own_key s.
Proof. intros HI tk t Hl. by destruct (inv_timers _ _ HI tk t Hl). Qed.

Lemma inv_no_waiter_key cfg s n k : Inv cfg s → live s n k → no_waiter_key k s.
Proof. intros HI Hl w Hw <-. destruct (inv_used_waiters _ _ HI w Hw) as [_ Hn]. apply Hn. eauto. Qed.

Lemma inv_time_sane cfg s dt : Inv cfg s → time_sane (st_now s + Z.max 0 dt) s.
Proof.
  intros HI. split; [lia|]. intros d [(tk & t & -> & Hl)|(w & -> & Hw & Hdl)]%all_items_spec; cbn.
  - destruct (inv_timers _ _ HI tk t Hl) as (_ & ? & _). lia.
  - destruct (inv_waiters _ _ HI w Hw) as [_ Hd]. destruct (w_deadline w) as [dl|]; [|done]. specialize (Hd dl eq_refl). cbn. lia.
Qed.

Lemma advance_elem cfg dt s s' o : (s', o) ∈ sstep cfg s (EAdvance dt) →
  (s', o) ∈ advance_loop cfg (advance_fuel s) (st_now s + Z.max 0 dt) s [].
Proof. done. Qed.

(** ** C04: a lease that is not reached is not touched *)

Lemma keeps_loop cfg target n k T0 fuel s outs s' o :
  match T0 with Some t => target < tm_deadline t | None => True end →
  (measure s < fuel)%nat →
  own_key s → no_waiter_key k s → live s n k → st_timers s !! tkey n k = T0 →
  (s', o) ∈ advance_loop cfg fuel target s outs →
  live s' n k ∧ st_timers s' !! tkey n k = T0.
Proof.
  intros HT0 Hm Hok Hnw Hlive Ht Hin.
  eapply (advance_loop_inv cfg target
            (λ s _, own_key s ∧ no_waiter_key k s ∧ live s n k ∧ st_timers s !! tkey n k = T0))
    in Hin as (sf & (_ & _ & Hl & Htf) & _ & ->); [|clear dependent s|done|done].
  - by rewrite fin_live, fin_timers.
  - intros s outs' d s2 o2 (Hok & Hnw & Hlive & Ht) Hd Hf.
    split; [by eapply round_own_key|]. split; [by eapply round_no_waiter_key|].
    destruct (round_cases _ _ _ _ _ _ Hd Hf) as (Hle & _ & _ & [(w0 & _ & _ & _ & Hl & Htm & _)|(tk0 & tm & x & -> & Htk & Hs & Htm)]).
    + rewrite Htm. split; [|done]. unfold live. rewrite Hl. by apply gc_live.
    + pose proof (Hok _ _ Htk) as ->. cbn in Hle.
      assert ((n, k) ≠ (tm_name tm, tm_key tm)) as Hne.
      { intros [= -> ->]. rewrite Htk in Ht. subst T0. lia. }
      split; [eapply shape_live_keep; [exact Hs|done|by apply gc_liveL]|].
      rewrite Htm, lookup_delete_ne by (intros [? ?]%tkey_inj; congruence).
      destruct x as [w|]; [|done]. rewrite grant_timers_lookup_ne; [done|].
      destruct (unlock_shape_granted _ _ _ _ _ _ _ _ w Hs eq_refl) as [Hw _].
      intros [_ E]%tkey_inj. by apply (Hnw w Hw).
Qed.

Lemma C04_keeps : T_C04_keeps.
Proof.
  intros cfg s dt s' o n k HI Hin Hlive HT. apply advance_elem in Hin.
  eapply keeps_loop in Hin; eauto using advance_fuel_measure, inv_own_key, inv_no_waiter_key.
Qed.

(** ** C04: prompt expiry *)

Definition key_once (n k : str) (s : sstate) : Prop := ∀ ob, st_locks s !! n = Some ob → (cnt k (lo_keys ob) ≤ 1)%nat.

Lemma cnt_remove_first_le k k' l : (cnt k (remove_first k' l) ≤ cnt k l)%nat.
Proof.
  destruct (decide (k' = k)) as [->|]; [rewrite cnt_remove_first_same; lia|by rewrite cnt_remove_first_other].
Qed.

Lemma cnt_granted_key k x : (∀ w, x = Some w → w_key w ≠ k) → cnt k (granted_key x) = 0%nat.
Proof.
  intros Hx. apply cnt_zero. destruct x as [w|]; cbn; [|apply not_elem_of_nil].
  intros ->%elem_of_list_singleton. by eapply Hx.
Qed.

Lemma expires_loop cfg target n k fuel s outs s' o :
  (measure s < fuel)%nat →
  own_key s → no_waiter_key k s → key_once n k s →
  ((∃ t, st_timers s !! tkey n k = Some t ∧ tm_deadline t ≤ target) ∨ (¬ live s n k ∧ st_timers s !! tkey n k = None)) →
  (s', o) ∈ advance_loop cfg fuel target s outs →
  ¬ live s' n k ∧ st_timers s' !! tkey n k = None.
Proof.
  intros Hm Hok Hnw Honce Hdisj Hin.
  eapply (advance_loop_inv cfg target
            (λ s _, own_key s ∧ no_waiter_key k s ∧ key_once n k s ∧
               ((∃ t, st_timers s !! tkey n k = Some t ∧ tm_deadline t ≤ target) ∨
                (¬ live s n k ∧ st_timers s !! tkey n k = None))))
    in Hin as (sf & (_ & _ & _ & Hd) & Hnd & ->); [|clear dependent s|done|done].
  - rewrite fin_live, fin_timers. destruct Hd as [(t & Ht & Hle)|?]; [|done]. exfalso.
    assert (DTimer (tkey n k) t ∈ all_items sf) as Hi by (apply all_items_spec; left; eauto).
    apply (next_due_nil _ _ _ Hnd) in Hi. cbn in Hi. lia.
  - intros s outs' d s2 o2 (Hok & Hnw & Honce & Hdisj) Hd Hf.
    split; [by eapply round_own_key|]. split; [by eapply round_no_waiter_key|].
    destruct (round_cases _ _ _ _ _ _ Hd Hf) as (Hle & _ & _ & [(w0 & _ & _ & _ & Hl & Htm & _)|(tk0 & tm & x & -> & Htk & Hs & Htm)]).
    + split.
      { intros ob Hob. rewrite Hl in Hob. apply gc_locks_sub in Hob. auto. }
      rewrite Htm. destruct Hdisj as [?|[Hnl ?]]; [by left|right]. split; [|done].
      unfold live. rewrite Hl. intros ?%gc_live_inv. done.
    + pose proof (Hok _ _ Htk) as ->. cbn in Hle.
      assert (∀ w, x = Some w → w_key w ≠ k) as Hxk.
      { intros w ->. destruct (unlock_shape_granted _ _ _ _ _ _ _ _ w Hs eq_refl) as [Hw _]. by apply Hnw. }
      split.
      { intros ob2 Hob2. rewrite (unlock_shape_lookup _ _ _ _ _ _ _ _ n Hs) in Hob2.
        destruct (st_locks (run_gc_until _ _ _) !! n) as [ob|] eqn:Hob; [|done]. apply gc_locks_sub in Hob.
        specialize (Honce _ Hob). cbn in Hob2. injection Hob2 as <-. destruct (decide _); [|done]. cbn.
        rewrite cnt_app, cnt_granted_key by done. pose proof (cnt_remove_first_le k (tm_key tm) (lo_keys ob)). lia. }
      destruct (decide ((tm_name tm, tm_key tm) = (n, k))) as [[= En Ek]|Hne].
      * right. rewrite Htm, En, Ek, lookup_delete. split; [|done].
        intros (ob2 & Hob2 & Hk2). rewrite (unlock_shape_lookup _ _ _ _ _ _ _ _ n Hs) in Hob2.
        destruct (st_locks (run_gc_until _ _ _) !! n) as [ob|] eqn:Hob; [|done]. apply gc_locks_sub in Hob.
        specialize (Honce _ Hob). cbn in Hob2. injection Hob2 as <-. rewrite En, Ek, decide_True in Hk2 by done. cbn in Hk2.
        apply cnt_zero in Hk2; [done|]. rewrite cnt_app, cnt_granted_key, cnt_remove_first_same by done. lia.
      * assert (st_timers s2 !! tkey n k = st_timers s !! tkey n k) as Hsame.
        { rewrite Htm, lookup_delete_ne by (intros [? ?]%tkey_inj; congruence).
          destruct x as [w|]; [|done]. rewrite grant_timers_lookup_ne; [done|].
          intros [_ E]%tkey_inj. by apply (Hxk w). }
        rewrite Hsame. destruct Hdisj as [?|[Hnl ?]]; [by left|right]. split; [|done].
        intros Hl2. apply Hnl.
        destruct (shape_live_inv _ _ _ _ _ _ _ _ _ _ Hs Hl2) as [(ob & Hob & Hk)|(En & w & Ex & Ek)].
        -- eapply gc_live_inv. exists ob. split; [exact Hob|].
           destruct (decide _); [by eapply remove_first_sub|done].
        -- by destruct (Hxk w Ex).
Qed.

Lemma C04_expires : T_C04_expires.
Proof.
  intros cfg s dt s' o n k t _ HI Hin Ht Hle. apply advance_elem in Hin.
  destruct (inv_timers _ _ HI _ _ Ht) as (E & _ & Hlive). apply tkey_inj in E as [En Ek]. rewrite <- En, <- Ek in Hlive.
  eapply expires_loop in Hin; eauto using advance_fuel_measure, inv_own_key, inv_no_waiter_key.
  intros ob Hob. apply cnt_NoDup. by destruct (inv_cap _ _ HI _ _ Hob) as (_ & _ & ?).
Qed.

(** ** C03: wait timeouts *)

Lemma timeout_exact_loop cfg target (W0 : list waiter) fuel s outs s' o :
  (measure s < fuel)%nat → time_sane target s → (∀ w, w ∈ st_waiters s → w ∈ W0) →
  (s', o) ∈ advance_loop cfg fuel target s outs →
  ∀ wid at_ k, OWaiter wid at_ (RLock false k (Some ESrvLockWaitTimeout)) ∈ o →
    OWaiter wid at_ (RLock false k (Some ESrvLockWaitTimeout)) ∈ outs ∨
    ∃ w, w ∈ W0 ∧ w_id w = wid ∧ w_deadline w = Some at_ ∧ at_ ≤ target.
Proof.
  intros Hm Hts Hsub Hin.
  eapply (advance_loop_inv cfg target
            (λ s o, time_sane target s ∧ (∀ w, w ∈ st_waiters s → w ∈ W0) ∧
               ∀ wid at_ k, OWaiter wid at_ (RLock false k (Some ESrvLockWaitTimeout)) ∈ o →
                 OWaiter wid at_ (RLock false k (Some ESrvLockWaitTimeout)) ∈ outs ∨
                 ∃ w, w ∈ W0 ∧ w_id w = wid ∧ w_deadline w = Some at_ ∧ at_ ≤ target))
    in Hin as (sf & (_ & _ & H) & _ & ->); [done|clear dependent s|done|].
  - intros s outs' d s2 o2 (Hts & Hsub & Hout) Hd Hf.
    destruct (round_time_sane _ _ _ _ _ _ Hd Hf Hts) as (Hts2 & Hnow2 & _).
    split; [done|]. split; [intros w Hw; eapply Hsub, round_waiters_sub; eauto|].
    intros wid at_ k [Ho|Ho]%elem_of_app; [auto|]. right.
    destruct (round_cases _ _ _ _ _ _ Hd Hf) as (Hle & _ & Hnow & [(w0 & -> & Hw0 & Hdl & _ & _ & _ & ->)|(tk0 & tm & x & -> & Htk & Hs & Htm)]).
    + apply elem_of_list_singleton in Ho. injection Ho as -> -> ->. exists w0. cbn [due_time] in *. rewrite <- Hnow, Hnow2. auto.
    + destruct Hs as (_ & -> & _). destruct x; [apply elem_of_list_singleton in Ho; discriminate Ho|by apply elem_of_nil in Ho].
  - split; [done|]. split; [done|]. auto.
Qed.

Lemma C03_timeout_exact : T_C03_timeout_exact.
Proof.
  intros cfg s dt s' o wid at_ k HI Hin Ho. apply advance_elem in Hin.
  eapply timeout_exact_loop in Hin as [Hnil|?]; eauto using advance_fuel_measure, inv_time_sane.
  by apply elem_of_nil in Hnil.
Qed.

Lemma timeout_prompt_loop cfg target w d fuel s outs s' o :
  (measure s < fuel)%nat → time_sane target s → w_deadline w = Some d → d ≤ target →
  (w ∈ st_waiters s ∨ ((∀ w', w' ∈ st_waiters s → w_id w' ≠ w_id w) ∧ ∃ at_ r, OWaiter (w_id w) at_ r ∈ outs ∧ at_ ≤ d)) →
  (s', o) ∈ advance_loop cfg fuel target s outs →
  (∀ w', w' ∈ st_waiters s' → w_id w' ≠ w_id w) ∧ ∃ at_ r, OWaiter (w_id w) at_ r ∈ o ∧ at_ ≤ d.
Proof.
  intros Hm Hts Hdl Hdt Hdisj Hin.
  eapply (advance_loop_inv cfg target
            (λ s o, time_sane target s ∧
               (w ∈ st_waiters s ∨ ((∀ w', w' ∈ st_waiters s → w_id w' ≠ w_id w) ∧
                                     ∃ at_ r, OWaiter (w_id w) at_ r ∈ o ∧ at_ ≤ d))))
    in Hin as (sf & (_ & H) & Hnd & ->); [|clear dependent s|done|done].
  - rewrite fin_waiters. destruct H as [Hw|?]; [exfalso|done].
    assert (DWaiter w ∈ all_items sf) as Hi. { apply all_items_spec. right. exists w. by rewrite Hdl. }
    apply (next_due_nil _ _ _ Hnd) in Hi. cbn in Hi. rewrite Hdl in Hi. cbn in Hi. lia.
  - intros s outs' d0 s2 o2 (Hts & Hdisj) Hd Hf.
    destruct (round_time_sane _ _ _ _ _ _ Hd Hf Hts) as (Hts2 & Hnow2 & _).
    split; [done|]. destruct Hdisj as [Hw|[Hnone (at_ & r & Ho & Hat)]].
    2:{ right. split; [intros w' Hw'; eapply Hnone, round_waiters_sub; eauto|].
        exists at_, r. split; [apply elem_of_app; by left|done]. }
    destruct (round_cases _ _ _ _ _ _ Hd Hf) as (Hle & Hmin & Hnow & Hcase).
    assert (st_now s2 ≤ d) as Hs2d.
    { rewrite Hnow2. etrans; [apply (Hmin (DWaiter w))|cbn; by rewrite Hdl]. apply all_items_spec. right. exists w. by rewrite Hdl. }
    assert (∀ w0 r, st_waiters s2 = filter (λ w', bool_decide (w_id w' ≠ w_id w0)) (st_waiters s) →
                    o2 = [OWaiter (w_id w0) (st_now s2) r] →
                    w ∈ st_waiters s2 ∨ ((∀ w', w' ∈ st_waiters s2 → w_id w' ≠ w_id w) ∧
                                          ∃ at_ r, OWaiter (w_id w) at_ r ∈ outs' ++ o2 ∧ at_ ≤ d)) as Hgone.
    { intros w0 r Hws ->. destruct (decide (w_id w0 = w_id w)) as [E|Hne].
      - right. split.
        + intros w'. rewrite Hws. intros [Hn _]%elem_of_list_filter. apply bool_decide_unpack in Hn. congruence.
        + exists (st_now s2), r. rewrite <- E. split; [apply elem_of_app; right; left|done].
      - left. rewrite Hws. apply elem_of_list_filter. split; [|done]. apply bool_decide_pack. congruence. }
    destruct Hcase as [(w0 & -> & Hw0 & _ & _ & _ & Hws & ->)|(tk0 & tm & x & -> & Htk & Hs & Htm)].
    + eapply Hgone; [done|]. by rewrite Hnow.
    + destruct Hs as (_ & -> & Hws & _). destruct x as [w0|].
      * eapply Hgone; [done|]. by rewrite Hnow.
      * left. by rewrite Hws.
Qed.

Lemma C03_timeout_prompt : T_C03_timeout_prompt.
Proof.
  intros cfg s dt s' o w d _ HI Hin Hw Hdl Hle. apply advance_elem in Hin.
  eapply timeout_prompt_loop in Hin; eauto using advance_fuel_measure, inv_time_sane.
Qed.
