(** The invariant [Inv] of SeqDefs holds in every reachable state of Mseq.
    Structure: [Inv] is equivalent to the component form [QInv] of SeqInvTime (table side [TI], session side [LI],
    the view link [VW], the time conditions); SeqInvOps / SeqInvTime show that every function of the model
    preserves the components; here the pieces are assembled per event. *)
From Coq Require Import Lia ZifyBool ZifyNat.
From Ldlm Require Import Model.Base Model.Err Model.Seq Proofs.SeqDefs Proofs.SeqLemmasKey Proofs.SeqInvBase
  Proofs.SeqInvOps Proofs.SeqInvTime.
From RecordUpdate Require Import RecordSet.
Import RecordSetNotations.
Local Open Scope Z_scope.

Lemma elem_of_file_clocks s c : c ∈ file_clocks s ↔ listedS (default ∅ (st_file s)) c.
Proof.
  unfold file_clocks. destruct (st_file s) as [m|]; simpl; [apply elem_of_concat_map|].
  split; [by intros ?%elem_of_nil|]. intros (? & ? & H & _). by rewrite lookup_empty in H.
Qed.

Lemma Inv_QInv cfg s : Inv cfg s → QInv cfg s.
Proof.
  intros HI. destruct (inv_views _ _ HI) as [HV1 HV2].
  pose proof (inv_timers _ _ HI) as Htm. pose proof (inv_waiters _ _ HI) as Hwt.
  pose proof (inv_used_waiters _ _ HI) as Huw. pose proof (inv_used_live _ _ HI) as Hul.
  assert (∀ c, listedS (st_sessions s) c → in_table s c) as Hli.
  { intros c Hc. apply HV1. by apply elem_of_listing. }
  split_and!; [split_and!| |exact (inv_gc _ _ HI)].
  - split.
    + exact (inv_cap _ _ HI).
    + exact (inv_key_once _ _ HI).
    + intros tk t Ht. destruct (Htm _ _ Ht) as (? & _ & ?). auto.
    + intros w Hw. by destruct (Hwt _ Hw).
    + exact (inv_waiter_ids _ _ HI).
    + done.
    + intros w Hw. destruct (Huw _ Hw) as [? Hn]. split; [done|]. intros n Hl. apply Hn. by exists n.
    + exact (inv_waiter_keys _ _ HI).
  - split.
    + exact (inv_owner _ _ HI).
    + exact (inv_nodup _ _ HI).
    + exact (inv_file_eq _ _ HI).
    + intros c Hc%Hli. destruct Hc as (o & ? & ? & _). eapply Hul. by exists o.
    + intros c w Hc%Hli Hw E. destruct (Huw _ Hw) as [_ Hn]. apply Hn. exists (cl_name c).
      rewrite <-E. destruct Hc as (o & ? & ? & _). by exists o.
  - intros c. rewrite <-elem_of_listing. apply HV1.
  - split.
    + intros tk t Ht. by destruct (Htm _ _ Ht) as (_ & ? & _).
    + intros w d Hw Hd. destruct (Hwt _ Hw) as [_ H]. by apply H.
Qed.

Lemma QInv_Inv cfg s : QInv cfg s → Inv cfg s.
Proof.
  intros ((HT & HL & HV) & [HM1 HM2] & Hgc). unfold STI, SLI in *.
  pose proof (ti_timers _ _ _ _ _ HT) as Htm. pose proof (ti_used_waiters _ _ _ _ _ HT) as Huw.
  split.
  - exact (ti_cap _ _ _ _ _ HT).
  - split.
    + intros c. rewrite elem_of_listing. apply HV.
    + intros Hf c. rewrite elem_of_file_clocks, elem_of_listing. by eapply file_listed.
  - exact (li_owner _ _ _ _ _ HL).
  - exact (li_nodup _ _ _ _ _ HL).
  - exact (ti_key_once _ _ _ _ _ HT).
  - intros tk t Ht. destruct (Htm _ _ Ht) as [? [?|[]%elem_of_nil]]. split_and!; [done| |done]. eauto.
  - intros w Hw. split; [by apply (ti_waiters _ _ _ _ _ HT)|]. intros d. by apply HM2.
  - exact (ti_ids _ _ _ _ _ HT).
  - exact (ti_used_live _ _ _ _ _ HT).
  - intros w Hw. destruct (Huw _ Hw) as [? Hn]. split; [done|]. intros [n Hl]. by apply (Hn n).
  - exact (ti_wkeys _ _ _ _ _ HT).
  - done.
  - exact (li_file _ _ _ _ _ HL).
Qed.

Lemma QInv_same cfg s s' :
  QInv cfg s → SI cfg s' ∧ STM (λ d, st_now s < d) s' ∧ same_clock s s' → QInv cfg s'.
Proof. intros (_ & _ & Hgc) (HS & HM & [En Eg]). split_and!; [done|by rewrite En|by rewrite En, Eg]. Qed.

Lemma now_future s t : 0 < t → st_now s < st_now s + t * second.
Proof. intros. pose proof second_gt0. nia. Qed.

Lemma inv_init cfg : cfg_ok cfg → Inv cfg (init_state cfg).
Proof.
  intros Hcfg. apply QInv_Inv. split_and!; [split_and!| |].
  - apply TI_empty.
  - apply LI_empty.
  - intros c. split.
    + intros (? & ? & H & _). simpl in H. by rewrite lookup_empty in H.
    + intros (? & H & _). simpl in H. by rewrite lookup_empty in H.
  - split; [intros tk t H; simpl in H; by rewrite lookup_empty in H|by intros w d ?%elem_of_nil].
  - exact Hcfg.
Qed.

Lemma connect_inv cfg sid s :
  QInv cfg s →
  QInv cfg (match st_sessions s !! sid with
            | Some _ => s
            | None => s <| st_sessions := <[sid := []]> (st_sessions s) |>
            end <| st_used := sid :: st_used s |>).
Proof.
  intros HQ. eapply QInv_same; [exact HQ|]. destruct HQ as ((HT & HL & HV) & HM & _).
  assert (∀ k, k ∈ st_used s → k ∈ sid :: st_used s) as HU by (intros k ?; by right).
  destruct (st_sessions s !! sid) as [l|] eqn:E; (split_and!; [split_and!|..]); try done.
  - by eapply TI_used.
  - by eapply LI_waiters_sub.
  - by eapply TI_used.
  - unfold SLI. simpl. by eapply LI_connect.
  - intros c. unfold SVW. simpl. rewrite <-(HV c), listedS_insert. unfold listedS. split.
    + intros [?%elem_of_nil|(sid' & l' & _ & ? & ?)]; [done|eauto].
    + intros (sid' & l' & Hs & ?). right. exists sid', l'. split_and!; [|done..]. intros ->. congruence.
Qed.

Lemma inv_step cfg s ev s' o :
  cfg_ok cfg → Inv cfg s → ev_ok s ev → (s', o) ∈ sstep cfg s ev → Inv cfg s'.
Proof.
  intros Hcfg HI%Inv_QInv Hok Hin. apply QInv_Inv.
  pose proof HI as (HS & HM & Hgc).
  pose proof (λ t, now_future s t) as HP.
  destruct ev; simpl in Hin, Hok; unfold det in Hin.
  - (* EConnect *) apply elem_of_list_singleton in Hin. injection Hin as -> _. by apply connect_inv.
  - (* EDisconnect *) apply elem_of_list_singleton in Hin. symmetry in Hin.
    eapply QInv_same; [exact HI|]. eapply disconnect_inv; eauto.
  - (* ETryLock *) apply elem_of_list_singleton in Hin. symmetry in Hin.
    eapply QInv_same; [exact HI|]. eapply srv_trylock_inv; eauto.
  - (* ELock *) apply elem_of_list_singleton in Hin. symmetry in Hin. destruct Hok as [Hk Hw].
    eapply QInv_same; [exact HI|]. eapply srv_lock_inv; eauto.
  - (* EUnlock *) destruct (srv_unlock cfg name key s) as [[s1 [u e]] outs] eqn:Hu.
    apply elem_of_list_singleton in Hin. injection Hin as -> _.
    eapply QInv_same; [exact HI|]. eapply srv_unlock_inv; eauto.
  - (* ERenew *) apply elem_of_list_singleton in Hin. symmetry in Hin.
    eapply QInv_same; [exact HI|]. eapply srv_renew_inv; eauto.
  - (* ECancel *) apply elem_of_list_singleton in Hin. symmetry in Hin.
    destruct HS as (HT & HL & HV).
    eapply cancel_waiters_inv in Hin as (? & ? & ? & Ho); [|done..].
    eapply QInv_same; [exact HI|]. split_and!; [split_and!|..]; try done.
    + by eapply only_waiters_SVW.
    + by apply only_waiters_clock.
  - (* EAdvance *) by eapply advance_inv.
  - (* ERestart *) by eapply restart_inv.
  - (* EShutdown *) apply elem_of_list_singleton in Hin. symmetry in Hin.
    eapply QInv_same; [exact HI|]. eapply shutdown_inv; eauto.
  - (* EProbe *) apply elem_of_list_singleton in Hin. by injection Hin as -> _.
  - (* EIpcList *) apply elem_of_list_singleton in Hin. by injection Hin as -> _.
  - (* EIpcUnlock *) eapply QInv_same; [exact HI|]. eapply ipc_unlock_inv; eauto.
Qed.

Theorem inv_reachable cfg s : cfg_ok cfg → reachable cfg s → Inv cfg s.
Proof.
  intros Hcfg Hr. induction Hr as [|s ev s' o _ IH Hok Hin]; [by apply inv_init|by eapply inv_step].
Qed.

Corollary C08_views_reachable cfg s : cfg_ok cfg → reachable cfg s → views_agree cfg s.
Proof. intros Hcfg Hr. by apply inv_views, inv_reachable. Qed.

Corollary C01_capacity_reachable cfg s n o :
  cfg_ok cfg → reachable cfg s → st_locks s !! n = Some o → Z.of_nat (length (lo_keys o)) ≤ lo_size o.
Proof. intros Hcfg Hr Ho. by destruct (inv_cap _ _ (inv_reachable _ _ Hcfg Hr) _ _ Ho) as (_ & ? & _). Qed.

Print Assumptions inv_reachable.
