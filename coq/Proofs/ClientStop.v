(** Mclient: C19_stop outside F-STOPDROP ([T_stop], Proofs/ClientInvDefs.v).

    Invariant [SI cc st]: [basic]; while the process is alive [live st] (renewMap entries point at running goroutines
    until Close, every running goroutine is filed in renewMap under its hold's name, after Close nothing runs, the
    goroutine of an unlocked hold has returned); and for every hold j [tr_ok j st] (the trace satisfies [p_stop j], and
    once [TUnlockCall j] or [TUnlockRet j] is in the trace the hold is flagged unlocked).

    An Unlock run in steps: [IUnlockBegin j] is [IUnlock j] without the RPC and with [TUnlockCall j] in place of
    [TUnlockRet j] (same argument: [live_unlock]); [IUnlockSend j] is quiet ([SI_frame]); [IUnlockEnd j] appends
    [TUnlockRet j] to the trace of a hold that is flagged already ([misuse_at]).

    Contents
      stop_auto        sa_step fold_quiet fold_nobyj
      running          running_ext le_back sim_back
      rmove            [rmove st st']: goroutines neither start nor return, the events appended are Renew RPCs /
                       renew panics of goroutines running in [st]; per primitive <prim>_rmove
      trace suffixes   unlock_rpc_trace acquire_answered_trace stop_all_sleep
      steps            SI_quiet SI_acquire live_unlock SI_unlock SI_unlock_begin SI_unlock_send SI_unlock_end SI_close SI_step
      t_stop *)
From Coq Require Import Lia ZifyBool ZifyNat ZifyN.
From Ldlm Require Import Model.Base Model.Err Model.Seq Model.Client Gen.Consts
  Proofs.ClientSrvDefs Proofs.ClientSrv Proofs.ClientInvDefs Proofs.ClientBasic.
From RecordUpdate Require Import RecordSet.
Import RecordSetNotations.
Local Open Scope Z_scope.
Local Opaque second srv_event interval.

(** * [stop_auto] in closed form *)

Definition byj (j : nat) (e : tev) : bool :=
  match e with
  | TRpc KRenew i _ _ _ _ _ _ | TRpcFail KRenew i _ => (i =? j)%nat
  | TCrash c _ => (crash_by c =? j)%nat
  | _ => false
  end.
(** the events after which [stop_auto j] watches: Unlock of hold j has begun (run in steps) / has returned *)
Definition unlret (j : nat) (e : tev) : bool :=
  match e with TUnlockCall i _ | TUnlockRet i _ => (i =? j)%nat | _ => false end.

Lemma sa_step j acc e :
  stop_auto j acc e = (fst acc || unlret j e, snd acc && negb (fst acc && byj j e)).
Proof.
  destruct acc as [seen ok]. destruct e as [k| k| | | | | | |]; cbn; try destruct k; cbn;
    rewrite ?orb_false_r, ?andb_false_r, ?andb_true_r; done.
Qed.

Lemma fold_quiet j evs : ∀ seen ok,
  Forall (λ e, unlret j e = false) evs → (seen = true → Forall (λ e, byj j e = false) evs) →
  fold_left (stop_auto j) evs (seen, ok) = (seen, ok).
Proof.
  induction evs as [|e evs IH]; intros seen ok Hu Hb; [done|]. cbn [fold_left]. rewrite sa_step. cbn [fst snd].
  apply Forall_cons in Hu as [Hu1 Hu2]. rewrite Hu1, orb_false_r.
  assert (seen && byj j e = false) as ->.
  { destruct seen; [|done]. specialize (Hb eq_refl). apply Forall_cons in Hb as [-> _]. done. }
  cbn [negb]. rewrite andb_true_r. apply IH; [done|]. intros Hs. specialize (Hb Hs). by apply Forall_cons in Hb as [_ ?].
Qed.

(** events that are no Renew and no panic of hold j: only [seen] can move *)
Lemma fold_nobyj j evs : ∀ seen ok,
  Forall (λ e, byj j e = false) evs →
  fold_left (stop_auto j) evs (seen, ok) = (seen || existsb (unlret j) evs, ok).
Proof.
  induction evs as [|e evs IH]; intros seen ok Hb; cbn [fold_left existsb]; [by rewrite orb_false_r|].
  apply Forall_cons in Hb as [Hb1 Hb2]. rewrite sa_step. cbn [fst snd].
  rewrite Hb1, andb_false_r. cbn [negb]. rewrite andb_true_r, (IH _ _ Hb2), orb_assoc. done.
Qed.

(** * [running] *)

Lemma running_lookup st st' i : cs_holds st' !! i = cs_holds st !! i → running st' i ↔ running st i.
Proof. unfold running, ren_of. by intros ->. Qed.

Lemma running_ext st st' : cs_holds st' = cs_holds st → ∀ i, running st' i ↔ running st i.
Proof. intros E i. apply running_lookup. by rewrite E. Qed.

Lemma running_hold st i : running st i ↔ ∃ h r, cs_holds st !! i = Some h ∧ h_ren h = Some r ∧ r_pc r ≠ PExited.
Proof.
  unfold running, ren_of. split.
  - intros (r & Hr & Hp). destruct (cs_holds st !! i) as [h|]; [|done]. cbn in Hr. eauto.
  - intros (h & r & -> & Hr & Hp). cbn. eauto.
Qed.

Definition back (st st' : cstate) : Prop := ∀ i, running st' i → running st i.
Definition fwd (st st' : cstate) : Prop := ∀ i, running st i → running st' i.

Lemma le_back st st' : Forall2 hold_le (cs_holds st) (cs_holds st') → back st st'.
Proof.
  intros F i (h' & r' & Hh' & Hr' & Hp')%running_hold.
  destruct (Forall2_lookup_r _ _ _ _ _ F Hh') as (h & Hh & (_ & _ & Hn & Hx)).
  destruct (h_ren h) as [r|] eqn:Hr.
  - apply running_hold. exists h, r. split_and!; try done. intros Hp.
    destruct (Hx r eq_refl Hp) as (r'' & E & Hp''). congruence.
  - destruct Hn as [Hn _]. rewrite Hn in Hr'; done.
Qed.

Lemma sim_back st st' : Forall2 hold_sim (cs_holds st) (cs_holds st') → back st st'.
Proof. intros F. apply le_back. eapply Forall2_impl; [exact F|apply hold_sim_le]. Qed.

Lemma frame_back adv J st st' : ren_frame adv J st st' → back st st'.
Proof. intros F. apply sim_back, F. Qed.

(** * [rmove]: goroutines keep running / stay returned, only renew events of running goroutines are appended *)

Definition ren_ev (st : cstate) (e : tev) : Prop :=
  match e with
  | TRpc k i _ _ _ _ _ _ | TRpcFail k i _ => k = KRenew → running st i
  | TCrash c _ => running st (crash_by c)
  | TUnlockCall _ _ | TUnlockRet _ _ => False
  | _ => True
  end.

Record rmove (st st' : cstate) : Prop := RMove {
  rm_fwd : fwd st st';
  rm_back : back st st';
  rm_ev : ∃ evs, cs_trace st' = cs_trace st ++ evs ∧ Forall (ren_ev st) evs
}.

Lemma ren_ev_back st st' e : back st st' → ren_ev st' e → ren_ev st e.
Proof. intros B. destruct e; cbn; auto. Qed.

Lemma rmove_refl st : rmove st st.
Proof. constructor; [by intros i|by intros i|]. exists []. by rewrite app_nil_r. Qed.

Lemma rmove_trans st1 st2 st3 : rmove st1 st2 → rmove st2 st3 → rmove st1 st3.
Proof.
  intros [F1 B1 (e1 & T1 & A1)] [F2 B2 (e2 & T2 & A2)]. constructor.
  - intros i H. by apply F2, F1.
  - intros i H. by apply B1, B2.
  - exists (e1 ++ e2). split; [by rewrite T2, T1, app_assoc|]. apply Forall_app. split; [done|].
    eapply Forall_impl; [exact A2|]. intros e. by apply ren_ev_back.
Qed.

Lemma rmove_ext st st1 st2 : rmove st st1 → cs_holds st2 = cs_holds st1 → cs_trace st2 = cs_trace st1 → rmove st st2.
Proof.
  intros [F B E] Eh Et. constructor.
  - intros i H. apply (running_ext _ _ Eh), F, H.
  - intros i H. apply B, (running_ext _ _ Eh), H.
  - by rewrite Et.
Qed.

Lemma rmove_emit st st1 e : rmove st st1 → ren_ev st e → rmove st (emit e st1).
Proof.
  intros [F B (evs & Et & A)] He. constructor.
  - exact F.
  - exact B.
  - exists (evs ++ [e]). split; [cbn; by rewrite Et, app_assoc|]. apply Forall_app. split; [done|by apply Forall_singleton].
Qed.

Lemma rmove_do_crash st st1 c : rmove st st1 → running st (crash_by c) → rmove st (do_crash c st1).
Proof.
  intros M Hr. unfold do_crash. apply rmove_emit; [|exact Hr]. eapply rmove_ext; [exact M|done..].
Qed.

Lemma rmove_set_ren j f st :
  (∀ r, ren_of st j = Some r → (r_pc (f r) = PExited ↔ r_pc r = PExited)) → rmove st (set_ren j f st).
Proof.
  intros Hf. constructor.
  - intros i (r & Hr & Hp). unfold running. rewrite ren_of_set_ren. destruct (decide (j = i)) as [<-|]; [|eauto].
    rewrite Hr. cbn. eexists; split; [done|]. by rewrite (Hf r Hr).
  - intros i (r' & Hr' & Hp'). rewrite ren_of_set_ren in Hr'. destruct (decide (j = i)) as [<-|]; [|by exists r'].
    destruct (ren_of st j) as [r|] eqn:Hr; [|done]. cbn in Hr'. injection Hr' as <-.
    exists r. split; [done|]. by rewrite <- (Hf r eq_refl).
  - exists []. by rewrite set_ren_trace, app_nil_r.
Qed.

Lemma ren_send_rmove j st : rmove st (ren_send j st).
Proof.
  unfold ren_send. destruct (cs_holds st !! j) as [h|] eqn:Hh; [|apply rmove_refl].
  destruct (h_ren h) as [r|] eqn:Hr; [|apply rmove_refl].
  destruct (r_pc r) as [|u [a|]|] eqn:Hp; try apply rmove_refl.
  assert (running st j) as Hrun.
  { apply running_hold. exists h, r. split_and!; try done. congruence. }
  assert (ren_of st j = Some r) as Hro by (unfold ren_of; rewrite Hh; done).
  destruct (cs_closed st).
  - apply rmove_emit; [|by intros _]. apply rmove_set_ren. intros r0. rewrite Hro. intros [= <-]. cbn. rewrite Hp. done.
  - destruct (srv_event _ _) as [srv' outs] eqn:Hs.
    destruct outs as [|[[locked key e| |]| | | | | |] rest]; try apply rmove_refl.
    apply rmove_emit; [|by intros _]. eapply rmove_trans; [|apply rmove_set_ren].
    + eapply rmove_ext; [apply rmove_refl|done..].
    + intros r0. change (ren_of (st <| cs_srv := srv' |>) j) with (ren_of st j). rewrite Hro. intros [= <-]. cbn.
      rewrite Hp. done.
Qed.

Lemma ren_recv_rmove j st : rmove st (ren_recv j st).
Proof.
  unfold ren_recv. destruct (cs_holds st !! j) as [h|] eqn:Hh; [|apply rmove_refl].
  destruct (h_ren h) as [r|] eqn:Hr; [|apply rmove_refl].
  destruct (r_pc r) as [|u [[|e]|]|] eqn:Hp; try apply rmove_refl.
  - apply rmove_set_ren. intros r0. unfold ren_of. rewrite Hh. cbn. rewrite Hr. intros [= <-]. cbn. rewrite Hp. done.
  - apply rmove_do_crash; [apply rmove_refl|]. cbn. apply running_hold. exists h, r. split_and!; try done. congruence.
Qed.

Lemma set_arm_rmove j a st : rmove st (set_arm j a st).
Proof. apply rmove_set_ren. intros r _. done. Qed.

Lemma ren_send_on_rmove j st : rmove st (ren_send_on j st).
Proof.
  unfold ren_send_on. eapply rmove_trans; [apply ren_send_rmove|].
  destruct (arm_of _ _) as [[]|]; try apply ren_recv_rmove. apply set_arm_rmove.
Qed.

Lemma ren_fire_rmove j st : (∀ r, ren_of st j = Some r → r_pc r ≠ PExited) → rmove st (ren_fire j st).
Proof.
  intros Hne. unfold ren_fire.
  apply (rmove_trans _ (set_ren j (λ r, r <| r_pc := PInRenew (now st) None |>) st)).
  { apply rmove_set_ren. intros r Hr. cbn. split; [done|]. intros Hp. by apply Hne in Hr. }
  destruct (arm_of _ _) as [[]|]; try apply ren_send_on_rmove; apply set_arm_rmove.
Qed.

Lemma do_step_rmove j st : rmove st (do_step j st).
Proof.
  unfold do_step. destruct (ren_of st j) as [r|]; [|apply rmove_refl].
  destruct (r_pc r) as [|u [a|]|]; try apply rmove_refl; [apply ren_recv_rmove|apply ren_send_on_rmove].
Qed.

Lemma srv_advance_to_rmove t st : rmove st (srv_advance_to t st).
Proof. eapply rmove_ext; [apply rmove_refl|done..]. Qed.

Lemma adv_loop_rmove fuel target : ∀ st, rmove st (adv_loop fuel target st).
Proof.
  induction fuel as [|fuel IH]; intros st; cbn [adv_loop]; destruct (cs_crashed st); try apply rmove_refl.
  destruct (next_fire st) as [[j u]|] eqn:Hn; [|apply srv_advance_to_rmove].
  destruct (u <=? target); [|apply srv_advance_to_rmove].
  eapply rmove_trans; [|apply IH]. eapply rmove_trans; [apply srv_advance_to_rmove|].
  apply ren_fire_rmove.
  intros r Hr. apply next_fire_some in Hn as (h & r' & Hh & Hr' & Hp).
  unfold ren_of in Hr. rewrite srv_advance_to_holds, Hh in Hr. cbn in Hr. congruence.
Qed.

Lemma do_advance_rmove dt st : rmove st (do_advance dt st).
Proof. apply adv_loop_rmove. Qed.

(** * The invariant *)

Record live (st : cstate) : Prop := Live {
  l_m2 : cs_closed st = false → ∀ name i, cs_map st !! name = Some i → running st i;
  l_m3 : ∀ i, running st i → ∃ h, cs_holds st !! i = Some h ∧ cs_map st !! h_name h = Some i;
  l_m4 : cs_closed st = true → ∀ i, ¬ running st i;
  l_u : ∀ j h, cs_holds st !! j = Some h → h_unl h = true → ¬ running st j
}.

Definition unlj (j : nat) (st : cstate) : Prop := ∃ h, cs_holds st !! j = Some h ∧ h_unl h = true.

Definition tr_ok (j : nat) (st : cstate) : Prop :=
  let acc := fold_left (stop_auto j) (cs_trace st) (false, true) in
  snd acc = true ∧ (fst acc = true → unlj j st).

Record SI (cc : ccfg) (st : cstate) : Prop := MkSI {
  si_basic : basic cc st;
  si_live : cs_crashed st = None → live st;
  si_tr : ∀ j, tr_ok j st
}.

Lemma unlj_le st st' j : Forall2 hold_le (cs_holds st) (cs_holds st') → unlj j st → unlj j st'.
Proof.
  intros F (h & Hh & Hu). destruct (Forall2_lookup_l _ _ _ _ _ F Hh) as (h' & Hh' & (_ & U & _)).
  exists h'. auto.
Qed.

Lemma unlj_sim st st' j : Forall2 hold_sim (cs_holds st) (cs_holds st') → unlj j st → unlj j st'.
Proof. intros F. apply unlj_le. eapply Forall2_impl; [exact F|apply hold_sim_le]. Qed.

(** events that are neither [TUnlockCall] / [TUnlockRet], nor a Renew, nor a panic *)
Definition plain (e : tev) : Prop := ∀ j, unlret j e = false ∧ byj j e = false.

Lemma tr_ok_app j st st' evs :
  tr_ok j st → cs_trace st' = cs_trace st ++ evs →
  (unlj j st → unlj j st') →
  Forall (λ e, unlret j e = false) evs →
  (unlj j st → Forall (λ e, byj j e = false) evs) →
  tr_ok j st'.
Proof.
  unfold tr_ok. intros [H1 H2] -> Hm Hu Hb. rewrite fold_left_app.
  destruct (fold_left (stop_auto j) (cs_trace st) (false, true)) as [seen ok]. cbn [fst snd] in *.
  rewrite fold_quiet; [cbn; split; auto|done|auto].
Qed.

Lemma tr_ok_plain j st st' evs :
  tr_ok j st → cs_trace st' = cs_trace st ++ evs → (unlj j st → unlj j st') → Forall plain evs → tr_ok j st'.
Proof.
  intros H E Hm A. apply (tr_ok_app j st st' evs); try done.
  - eapply Forall_impl; [exact A|]. intros e He. apply He.
  - intros _. eapply Forall_impl; [exact A|]. intros e He. apply He.
Qed.

Lemma tr_ok_emit_unlret j j0 t st : tr_ok j st → unlj j0 st → tr_ok j (emit (TUnlockRet j0 t) st).
Proof.
  unfold tr_ok. intros [H1 H2] Hu. change (cs_trace (emit ?e ?s)) with (cs_trace s ++ [e]).
  rewrite fold_left_app. cbn [fold_left]. rewrite sa_step.
  destruct (fold_left (stop_auto j) (cs_trace st) (false, true)) as [seen ok]. cbn [fst snd unlret byj] in *.
  rewrite andb_false_r. cbn [negb]. rewrite andb_true_r. split; [done|].
  intros [Hs|Hs]%orb_true_iff; [by apply H2|]. apply Nat.eqb_eq in Hs as <-. exact Hu.
Qed.

(** events none of which is a Renew / a panic of hold j; if one of them is [TUnlockCall j] / [TUnlockRet j] the hold is
    flagged afterwards *)
Lemma tr_ok_app_unl j st st' evs :
  tr_ok j st → cs_trace st' = cs_trace st ++ evs → (unlj j st → unlj j st') →
  Forall (λ e, byj j e = false) evs → (existsb (unlret j) evs = true → unlj j st') → tr_ok j st'.
Proof.
  unfold tr_ok. intros [H1 H2] -> Hm Hb Hu. rewrite fold_left_app.
  destruct (fold_left (stop_auto j) (cs_trace st) (false, true)) as [seen ok]. cbn [fst snd] in *.
  rewrite fold_nobyj by done. cbn [fst snd]. split; [done|].
  intros [Hs|Hs]%orb_true_iff; auto.
Qed.

Lemma ren_ev_quiet st j e : ren_ev st e → unlret j e = false ∧ (¬ running st j → byj j e = false).
Proof.
  destruct e as [k i ? ? ? ? ? ?|k i ?| | | |c ?| | |]; cbn; try done.
  - intros H. split; [done|]. intros Hn. destruct k; try done. destruct (Nat.eqb_spec i j) as [->|]; [|done].
    destruct Hn. by apply H.
  - intros H. split; [done|]. intros Hn. destruct k; try done. destruct (Nat.eqb_spec i j) as [->|]; [|done].
    destruct Hn. by apply H.
  - intros H. split; [done|]. intros Hn. destruct (Nat.eqb_spec (crash_by c) j) as [<-|]; [|done]. done.
Qed.

Lemma sim_name h h' : hold_sim h h' → h_name h' = h_name h ∧ h_unl h' = h_unl h.
Proof. intros [(S & _) U]. apply static_eq in S as (-> & _). done. Qed.

(** a step that leaves renewMap, the closed flag and the ghost flags alone and is an [rmove] *)
Lemma SI_quiet cc st st' :
  SI cc st → cs_crashed st = None → basic cc st' →
  Forall2 hold_sim (cs_holds st) (cs_holds st') → cs_map st' = cs_map st → cs_closed st' = cs_closed st →
  rmove st st' → SI cc st'.
Proof.
  intros S Hc B' F Em Ec [Fw Bk (evs & Et & A)]. pose proof (si_live _ _ S Hc) as L.
  constructor; [done| |].
  - intros _. constructor.
    + rewrite Ec, Em. intros Hcl n i Hm. apply Fw. by apply (l_m2 _ L Hcl n).
    + intros i Hr. apply Bk in Hr. destruct (l_m3 _ L i Hr) as (h & Hh & Hm).
      destruct (Forall2_lookup_l _ _ _ _ _ F Hh) as (h' & Hh' & [N _]%sim_name). exists h'. by rewrite N, Em.
    + rewrite Ec. intros Hcl i Hr. apply Bk in Hr. by apply (l_m4 _ L Hcl i).
    + intros j h' Hh' Hu Hr. apply Bk in Hr.
      destruct (Forall2_lookup_r _ _ _ _ _ F Hh') as (h & Hh & [_ U]%sim_name).
      apply (l_u _ L j h); [done|congruence|done].
  - intros j. apply (tr_ok_app j st st' evs); [apply S|done|by apply unlj_sim| |].
    + eapply Forall_impl; [exact A|]. intros e He. by apply (ren_ev_quiet st j).
    + intros (h & Hh & Hu). pose proof (l_u _ L j h Hh Hu) as Hn.
      eapply Forall_impl; [exact A|]. intros e He. by apply (ren_ev_quiet st j).
Qed.

Lemma SI_frame cc adv J st st' :
  SI cc st → cs_crashed st = None → ren_frame adv J st st' → rmove st st' → SI cc st'.
Proof.
  intros S Hc F M. apply (SI_quiet cc st st'); try done; try apply F.
  eapply basic_frame; [exact F|apply S].
Qed.

(** ** Lock / TryLock *)

Lemma running_push st st' hn i : cs_holds st' = cs_holds st ++ [hn] →
  running st' i ↔ running st i ∨ (i = length (cs_holds st) ∧ ∃ r, h_ren hn = Some r ∧ r_pc r ≠ PExited).
Proof.
  intros E. rewrite !running_hold, E. split.
  - intros (h & r & Hh & Hr & Hp). apply lookup_app_Some in Hh as [Hh|[Hlen Hh]]; [left; eauto|right].
    destruct (i - length (cs_holds st))%nat as [|n] eqn:En; [|done]. cbn in Hh. injection Hh as <-.
    split; [lia|eauto].
  - intros [(h & r & Hh & Hr & Hp)|(-> & r & Hr & Hp)].
    + exists h, r. split; [by apply lookup_app_l_Some|done].
    + exists hn, r. split; [by apply list_lookup_middle|done].
Qed.

Lemma live_push st st' hn :
  live st → cs_closed st = false → cs_closed st' = false → cs_holds st' = cs_holds st ++ [hn] → h_unl hn = false →
  (h_ren hn = None ∧ cs_map st' = cs_map st ∨
   (∃ r, h_ren hn = Some r ∧ r_pc r ≠ PExited) ∧ cs_map st !! h_name hn = None ∧
   cs_map st' = <[h_name hn := length (cs_holds st)]> (cs_map st)) →
  live st'.
Proof.
  intros L Hcl Hcl' E Hu M.
  assert (∀ j h, cs_holds st' !! j = Some h → cs_holds st !! j = Some h ∨ j = length (cs_holds st) ∧ h = hn) as Hlk.
  { intros j h. rewrite E. intros [?|[Hj Hl]]%lookup_app_Some; [by left|right].
    destruct (j - length (cs_holds st))%nat as [|n] eqn:En; [|done]. cbn in Hl. injection Hl as <-. split; [lia|done]. }
  constructor.
  - intros _ n i Hm. apply (running_push st st' hn i E). destruct M as [[_ Em]|(Hr & Hno & Em)]; rewrite Em in Hm.
    + left. by apply (l_m2 _ L Hcl n).
    + apply lookup_insert_Some in Hm as [[<- <-]|[Hne Hm]]; [by right|left]. by apply (l_m2 _ L Hcl n).
  - intros i [Hr|(-> & r & Hr & Hp)]%(running_push st st' hn i E).
    + destruct (l_m3 _ L i Hr) as (h & Hh & Hm). exists h. split; [rewrite E; by apply lookup_app_l_Some|].
      destruct M as [[_ ->]|(_ & Hno & ->)]; [done|]. rewrite lookup_insert_ne; [done|]. intros Hx. congruence.
    + exists hn. split; [rewrite E; by apply list_lookup_middle|].
      destruct M as [[Hn _]|(_ & _ & ->)]; [congruence|]. by rewrite lookup_insert.
  - congruence.
  - intros j h Hh Hu' [Hr|(-> & _)]%(running_push st st' hn j E).
    + apply Hlk in Hh as [Hh|[-> ->]]; [by apply (l_u _ L j h)|congruence].
    + apply Hlk in Hh as [Hh%lookup_lt_Some|[_ ->]]; [lia|congruence].
Qed.

Lemma acquire_answered_trace cc k j name T st srv' locked key e :
  let st' := acquire_answered cc k j name T st srv' locked key e in
  cs_trace st' = cs_trace st ++ [TRpc k j name key T (now st) locked e] ∨
  ∃ t, cs_trace st' = cs_trace st ++ [TRpc k j name key T (now st) locked e; TCrash (CrOutOfSync j) t].
Proof.
  cbv zeta. unfold acquire_answered. destruct (_ && _ && _); [|by left].
  destruct (cs_map st !! name); [|by left]. right. eexists. cbn. by rewrite <- app_assoc.
Qed.

Lemma SI_acquire cc (b : bool) name T size st :
  SI cc st → cs_crashed st = None → cs_closed st = false → SI cc (do_acquire cc b name T size st).
Proof.
  intros S Hc Hcl. pose proof (si_live _ _ S Hc) as L.
  pose proof (basic_do_acquire cc b name T size st (si_basic _ _ S)) as B'.
  destruct (do_acquire_cases cc b name T size st) as [[Hx _]|[[_ E]|(_ & srv' & locked & key & e & rest & Hs & E)]];
    [congruence| |]; rewrite E in *.
  - apply (SI_quiet cc st); try done.
    apply rmove_emit; [|done]. eapply rmove_ext; [apply rmove_refl|done..].
  - clear E. set (k := if b then KLock else KTryLock) in *. set (j := length (cs_holds st)) in *.
    assert (k ≠ KRenew) as Hk by (unfold k; by destruct b).
    destruct (acquire_answered_fields cc k j name T st srv' locked key e)
      as (hn & E1 & E2 & E3 & E4 & E5 & E6 & E7 & E7' & _ & E8 & _ & _ & E9).
    pose proof (acquire_answered_trace cc k j name T st srv' locked key e) as Et.
    cbv zeta in *. set (st' := acquire_answered cc k j name T st srv' locked key e) in *.
    set (auto := locked && negb (cc_noauto cc) && negb (T =? 0)) in *.
    constructor; [done| |].
    + intros Hc'. apply (live_push st st' hn); try done; [congruence|].
      destruct auto eqn:Ha.
      * destruct (cs_map st !! name) eqn:Hm; [destruct E9; congruence|]. right. rewrite E2. split_and!; [|done|apply E9].
        rewrite (E7' eq_refl). eexists. split; [done|]. done.
      * left. split; [|apply E9]. destruct (h_ren hn) eqn:Hr; [|done]. destruct E7 as [E7 _]. by discriminate E7.
    + intros j0.
      assert (unlj j0 st → unlj j0 st') as Hm.
      { intros (h & Hh & Hu). exists h. split; [|done]. rewrite E1. by apply lookup_app_l_Some. }
      destruct Et as [Et|(t & Et)].
      * apply (tr_ok_plain j0 st st' _ (si_tr _ _ S j0) Et Hm). apply Forall_singleton. intros j1. cbn. by destruct k.
      * apply (tr_ok_app j0 st st' _ (si_tr _ _ S j0) Et Hm).
        -- repeat constructor.
        -- intros (h & Hh%lookup_lt_Some & _). repeat constructor; cbn; [by destruct k|]. apply Nat.eqb_neq. unfold j. lia.
Qed.

(** ** Unlock *)

Lemma stop_renewer_trace j st r : ren_of st j = Some r → r_pc r ≠ PExited → cs_trace (stop_renewer j st) = cs_trace st.
Proof. intros Hr Hp. unfold stop_renewer. rewrite Hr. destruct (r_pc r); rewrite ?set_ren_trace; done. Qed.

Lemma unlock_stop_spec cc name st :
  basic cc st → live st → cs_crashed st = None → cs_closed st = false →
  (cc_noauto cc = false → ∀ i, cs_map st !! name = Some i → in_renew st i = false) →
  let st1 := unlock_stop cc name st in
  cs_crashed st1 = None ∧ cs_trace st1 = cs_trace st ∧ cs_closed st1 = false ∧
  Forall2 hold_sim (cs_holds st) (cs_holds st1) ∧
  (∀ i, running st i → cs_map st !! name ≠ Some i → running st1 i) ∧
  (∀ i, cs_map st !! name = Some i → ¬ running st1 i).
Proof.
  intros B L Hc Hcl Hsd. cbv zeta. unfold unlock_stop. destruct (cc_noauto cc) eqn:Hna.
  { split_and!; try done. intros i. rewrite (b_noauto _ _ B Hna), lookup_empty. done. }
  destruct (cs_map st !! name) as [i|] eqn:Hm; [|split_and!; try done; reflexivity].
  destruct (l_m2 _ L Hcl _ _ Hm) as (r & Hr & Hp).
  assert (∃ u, r_pc r = PSleep u) as [u Hu].
  { specialize (Hsd eq_refl i eq_refl). unfold in_renew in Hsd. rewrite Hr in Hsd. destruct (r_pc r); [eauto|done|done]. }
  set (st0 := st <| cs_map := delete name (cs_map st) |>).
  assert (ren_of st0 i = Some r) as Hr0 by exact Hr.
  pose proof (stop_renewer_frame false i st0) as F.
  split_and!.
  - rewrite stop_renewer_crashed, Hr0, Hu. done.
  - by rewrite (stop_renewer_trace i st0 r Hr0 Hp).
  - by rewrite (rf_closed _ _ _ _ F).
  - apply F.
  - intros i' Hr' Hne. apply (running_lookup st0); [|exact Hr']. apply (rf_others _ _ _ _ F). congruence.
  - intros i' [= <-] (r' & Hr' & Hp'). rewrite stop_renewer_ren, Hr0, Hu in Hr'. injection Hr' as <-. by apply Hp'.
Qed.

Lemma unlock_rpc_trace j h st1 : ∃ evs, cs_trace (unlock_rpc j h st1) = cs_trace st1 ++ evs ∧ Forall plain evs.
Proof.
  unfold unlock_rpc. destruct (cs_closed st1).
  { eexists [_]. split; [done|]. by apply Forall_singleton. }
  destruct (srv_event _ _) as [srv' outs].
  destruct (last outs) as [[[| |]| | | | | |]|]; cbn; try (exists []; by rewrite app_nil_r).
  eexists [_]. split; [done|]. by apply Forall_singleton.
Qed.

(** a state that differs in the trace (and the like) only *)
Lemma live_ext st st' :
  cs_holds st' = cs_holds st → cs_map st' = cs_map st → cs_closed st' = cs_closed st → live st → live st'.
Proof.
  intros Eh Em Ec L. pose proof (running_ext _ _ Eh) as R. constructor.
  - rewrite Ec, Em. intros Hcl n i Hm. apply R. by apply (l_m2 _ L Hcl n).
  - intros i Hr%R. rewrite Eh, Em. by apply (l_m3 _ L).
  - rewrite Ec. intros Hcl i Hr%R. by apply (l_m4 _ L Hcl i).
  - rewrite Eh. intros j h Hh Hu Hr%R. by apply (l_u _ L j h).
Qed.

Lemma unlock_rpc_rmove j h st1 : rmove st1 (unlock_rpc j h st1).
Proof.
  unfold unlock_rpc. destruct (cs_closed st1).
  { apply rmove_emit; [apply rmove_refl|done]. }
  destruct (srv_event _ _) as [srv' outs].
  destruct (last outs) as [[[| |]| | | | | |]|]; try (eapply rmove_ext; [apply rmove_refl|done..]).
  apply rmove_emit; [|done]. eapply rmove_ext; [apply rmove_refl|done..].
Qed.

Lemma do_unlock_send_rmove j st : rmove st (do_unlock_send j st).
Proof.
  rewrite do_unlock_send_eq. destruct (cs_holds st !! j) as [h|]; [|apply rmove_refl].
  destruct (h_locked h); cbn [negb]; [apply unlock_rpc_rmove|apply rmove_refl].
Qed.

(** [live] after maybeRemoveRenewer + the ghost flag, shared by [IUnlock j0] and [IUnlockBegin j0]: [st1] is the state
    after [unlock_stop] (see [unlock_stop_spec]), [st'] the state in which hold j0 is flagged *)
Lemma live_unlock cc j0 h st st1 st' :
  basic cc st → live st → cs_closed st = false → cs_holds st !! j0 = Some h →
  Forall2 hold_sim (cs_holds st) (cs_holds st1) →
  (∀ i, running st i → cs_map st !! h_name h ≠ Some i → running st1 i) →
  (∀ i, cs_map st !! h_name h = Some i → ¬ running st1 i) →
  (∀ i, cs_holds st' !! i =
        if decide (j0 = i) then (λ h, h <| h_unl := true |>) <$> cs_holds st1 !! i else cs_holds st1 !! i) →
  cs_map st' = (if cc_noauto cc then cs_map st else delete (h_name h) (cs_map st)) →
  cs_closed st' = false →
  Forall2 hold_le (cs_holds st) (cs_holds st') →
  live st'.
Proof.
  intros B L Hcl Hh F1 W1 X1 K3 Em Ecl LE.
  assert (∀ i, running st' i ↔ running st1 i) as Hrun.
  { intros i. unfold running, ren_of. rewrite K3. destruct (decide (j0 = i)); [|done].
    destruct (cs_holds st1 !! i); done. }
  assert (∀ i, running st' i → running st i) as Hbk.
  { intros i Hr%Hrun. by apply (sim_back _ _ F1). }
  constructor.
  - intros _ n i. rewrite Em. destruct (cc_noauto cc) eqn:Hna.
    { rewrite (b_noauto _ _ B Hna), lookup_empty. done. }
    intros [Hne Hm]%lookup_delete_Some. apply Hrun, W1; [by apply (l_m2 _ L Hcl n)|].
    intros Hm'. destruct (b_map _ _ B _ _ Hm) as (h1 & Hh1 & N1 & _). destruct (b_map _ _ B _ _ Hm') as (h2 & Hh2 & N2 & _).
    congruence.
  - intros i Hr. pose proof (Hbk i Hr) as Hr0. destruct (l_m3 _ L i Hr0) as (hi & Hhi & Hmi).
    destruct (Forall2_lookup_l _ _ _ _ _ LE Hhi) as (hi' & Hhi' & (Si & _)). apply static_eq in Si as (Ni & _).
    exists hi'. split; [done|]. rewrite Em, Ni. destruct (cc_noauto cc) eqn:Hna.
    { rewrite (b_noauto _ _ B Hna), lookup_empty in Hmi. done. }
    rewrite lookup_delete_ne; [done|]. intros Hx. rewrite <- Hx in Hmi. apply (X1 i Hmi). by apply Hrun.
  - congruence.
  - intros j h' Hh' Hu' Hr. pose proof (Hbk j Hr) as Hr0. destruct (decide (j0 = j)) as [<-|Hne].
    + destruct (l_m3 _ L j0 Hr0) as (h0 & Hh0 & Hm0). rewrite Hh in Hh0. injection Hh0 as <-.
      apply (X1 j0 Hm0). by apply Hrun.
    + rewrite K3, decide_False in Hh' by done.
      destruct (Forall2_lookup_r _ _ _ _ _ F1 Hh') as (hj & Hhj & [_ U]%sim_name).
      apply (l_u _ L j hj); [done|congruence|done].
Qed.

Lemma SI_unlock cc j0 st :
  SI cc st → cs_crashed st = None → cs_closed st = false →
  (∀ h, cs_holds st !! j0 = Some h → h_locked h = true → cc_noauto cc = false →
        ∀ i, cs_map st !! h_name h = Some i → in_renew st i = false) →
  SI cc (do_unlock cc j0 st).
Proof.
  intros S Hc Hcl Hsd. pose proof (si_live _ _ S Hc) as L. pose proof (si_basic _ _ S) as B.
  pose proof (basic_do_unlock cc j0 st B) as B'. pose proof (do_unlock_le cc j0 st) as LE.
  remember (do_unlock cc j0 st) as st' eqn:Est. rewrite do_unlock_eq in Est.
  destruct (cs_holds st !! j0) as [h|] eqn:Hh; [|by subst].
  destruct (h_locked h) eqn:Hl; [|by subst]. cbn [negb] in Est. cbv zeta in Est.
  destruct (unlock_stop_spec cc (h_name h) st B L Hc Hcl) as (C1 & T1 & Cl1 & F1 & W1 & X1).
  { intros Hna i Hm. by apply (Hsd h). }
  pose proof (unlock_stop_map cc (h_name h) st) as M1.
  set (st1 := unlock_stop cc (h_name h) st) in *.
  rewrite C1 in Est.
  destruct (unlock_rpc_spec j0 h st1) as (s2 & _ & R2 & R3 & R4 & R5 & _).
  destruct (unlock_rpc_trace j0 h st1) as (evs & T2 & A2).
  set (st2 := unlock_rpc j0 h st1) in *.
  pose proof (mark_unl_holds j0 st2) as K3. destruct (mark_unl_other j0 st2) as (_ & M3 & C3 & Cl3 & _ & T3 & _).
  set (st3 := mark_unl j0 st2) in *.
  assert (cs_holds st' = cs_holds st3) as Eh by (by subst st').
  assert (cs_map st' = if cc_noauto cc then cs_map st else delete (h_name h) (cs_map st)) as Em.
  { subst st'. cbn. by rewrite M3, R3. }
  assert (cs_closed st' = false) as Ecl. { subst st'. cbn. by rewrite Cl3, R5. }
  constructor; [done| |].
  - intros _. apply (live_unlock cc j0 h st st1 st'); try done.
    intros i. by rewrite Eh, K3, R2.
  - intros j. rewrite Est. apply tr_ok_emit_unlret.
    + apply (tr_ok_plain j st st3 evs); [apply S| | |done].
      * rewrite T3, T2, T1. done.
      * apply unlj_le. by rewrite <- Eh.
    + destruct (Forall2_lookup_l _ _ _ _ _ F1 Hh) as (h1 & Hh1 & _).
      exists (h1 <| h_unl := true |>). split; [|done]. rewrite K3, R2, decide_True, Hh1 by done. done.
Qed.

(** ** Unlock run in steps *)

(** the first step: [TUnlockCall j0], maybeRemoveRenewer, and hold j0 is flagged at once *)
Lemma SI_unlock_begin cc j0 st :
  SI cc st → cs_crashed st = None → cs_closed st = false →
  (∀ h, cs_holds st !! j0 = Some h → h_locked h = true → cc_noauto cc = false →
        ∀ i, cs_map st !! h_name h = Some i → in_renew st i = false) →
  SI cc (do_unlock_begin cc j0 st).
Proof.
  intros S Hc Hcl Hsd. pose proof (si_live _ _ S Hc) as L. pose proof (si_basic _ _ S) as B.
  pose proof (basic_do_unlock_begin cc j0 st B) as B'. pose proof (do_unlock_begin_le cc j0 st) as LE.
  remember (do_unlock_begin cc j0 st) as st' eqn:Est. rewrite do_unlock_begin_eq in Est.
  destruct (cs_holds st !! j0) as [h|] eqn:Hh; [|by subst].
  destruct (h_locked h) eqn:Hl; [|by subst]. cbn [negb] in Est. cbv zeta in Est.
  set (e := TUnlockCall j0 (now st)) in *. set (st0 := emit e st) in *.
  destruct (unlock_stop_spec cc (h_name h) st0) as (C1 & T1 & Cl1 & F1 & W1 & X1);
    [by apply basic_emit|by apply (live_ext st)|done|done| |].
  { intros Hna i Hm. by apply (Hsd h). }
  pose proof (unlock_stop_map cc (h_name h) st0) as M1.
  set (st1 := unlock_stop cc (h_name h) st0) in *.
  rewrite C1 in Est.
  pose proof (mark_unl_holds j0 st1) as K3. destruct (mark_unl_other j0 st1) as (_ & M3 & C3 & Cl3 & _ & T3 & _).
  rewrite <- Est in *.
  constructor; [done| |].
  - intros _. apply (live_unlock cc j0 h st st1 st'); try done.
    + by rewrite M3, M1.
    + by rewrite Cl3.
  - intros j. apply (tr_ok_app_unl j st st' [e]); [apply S| |by apply unlj_le| |].
    + by rewrite T3, T1.
    + by apply Forall_singleton.
    + cbn. rewrite orb_false_r. intros <-%Nat.eqb_eq.
      destruct (Forall2_lookup_l _ _ _ _ _ F1 Hh) as (h1 & Hh1 & _).
      exists (h1 <| h_unl := true |>). split; [|done]. rewrite K3, decide_True by done.
      change (cs_holds st1 !! j0 = Some h1) in Hh1. by rewrite Hh1.
Qed.

(** the second step: the Unlock RPC, quiet for [stop_auto] *)
Lemma SI_unlock_send cc j0 st : SI cc st → cs_crashed st = None → SI cc (do_unlock_send j0 st).
Proof.
  intros S Hc. eapply SI_frame; [done|done|apply (do_unlock_send_frame false (λ _, False))|apply do_unlock_send_rmove].
Qed.

(** the third step: [TUnlockRet j0]; the hold has been flagged since the first step *)
Lemma SI_unlock_end cc j0 st : SI cc st → unlj j0 st → SI cc (do_unlock_end j0 st).
Proof.
  intros S Hu. rewrite do_unlock_end_eq. destruct (cs_holds st !! j0) as [h|]; [|done].
  destruct (h_locked h); cbn [negb]; [|done].
  constructor.
  - apply basic_emit, S.
  - intros Hc. apply (live_ext st); try done. by apply (si_live _ _ S).
  - intros j. apply tr_ok_emit_unlret; [apply S|done].
Qed.

(** ** Close *)

Lemma close_targets_nodup cc st : basic cc st → NoDup (close_targets st).
Proof.
  intros B. unfold close_targets. change (map snd ?l) with (snd <$> l).
  apply NoDup_fmap_2_strong; [|apply NoDup_map_to_list].
  intros [n i] [n' i'] H1%elem_of_map_to_list H2%elem_of_map_to_list. cbn. intros <-.
  destruct (b_map _ _ B _ _ H1) as (h & Hh & <- & _). destruct (b_map _ _ B _ _ H2) as (h' & Hh' & <- & _). congruence.
Qed.

Lemma stop_all_sleep l : NoDup l → ∀ st, cs_crashed st = None →
  (∀ i, i ∈ l → ∃ r u, ren_of st i = Some r ∧ r_pc r = PSleep u) →
  cs_crashed (stop_all l st) = None ∧ cs_trace (stop_all l st) = cs_trace st ∧
  ∀ i, i ∈ l → ¬ running (stop_all l st) i.
Proof.
  induction 1 as [|i l Hni ND IH]; intros st Hc Hs; cbn [stop_all].
  - split_and!; try done. intros i Hi. by apply elem_of_nil in Hi.
  - rewrite Hc. destruct (Hs i) as (r & u & Hr & Hp); [left|].
    set (st1 := stop_renewer i st).
    assert (cs_crashed st1 = None) as Hc1 by (unfold st1; rewrite stop_renewer_crashed, Hr, Hp; done).
    assert (cs_trace st1 = cs_trace st) as Ht1 by (eapply stop_renewer_trace; [done|congruence]).
    pose proof (stop_renewer_frame false i st) as F. fold st1 in F.
    destruct (IH st1) as (A1 & A2 & A3); [done| |].
    { intros i' Hi'. destruct (Hs i') as (r' & u' & Hr' & Hp'); [by right|]. exists r', u'. split; [|done].
      unfold ren_of. rewrite (rf_others _ _ _ _ F); [done|]. intros <-. done. }
    split_and!; [done|congruence|]. intros i' [->|Hi']%elem_of_cons; [|by apply A3].
    intros Hrun. apply (frame_back _ _ _ _ (stop_all_frame false l st1)) in Hrun. destruct Hrun as (r' & Hr' & Hp').
    unfold st1 in Hr'. rewrite stop_renewer_ren, Hr, Hp in Hr'. injection Hr' as <-. by apply Hp'.
Qed.

Lemma SI_close cc st :
  SI cc st → cs_crashed st = None → cs_closed st = false →
  existsb (λ '(_, i), in_renew st i) (map_to_list (cs_map st)) = false → SI cc (do_close st).
Proof.
  intros S Hc Hcl Hsd. pose proof (si_live _ _ S Hc) as L. pose proof (si_basic _ _ S) as B.
  pose proof (basic_do_close cc st B) as B'. rewrite do_close_eq in *. cbv zeta in *.
  destruct (stop_all_sleep (close_targets st) (close_targets_nodup cc st B) st Hc) as (C1 & T1 & X1).
  { intros i (n & Hm)%close_targets_elem. destruct (l_m2 _ L Hcl _ _ Hm) as (r & Hr & Hp). exists r.
    assert (in_renew st i = false) as Hi.
    { destruct (in_renew st i) eqn:Hi; [|done]. rewrite <- Hsd. symmetry. apply existsb_exists. exists (n, i).
      split; [|done]. apply elem_of_list_In. by apply elem_of_map_to_list. }
    unfold in_renew in Hi. rewrite Hr in Hi. destruct (r_pc r); [eauto|done|done]. }
  pose proof (stop_all_frame false (close_targets st) st) as F.
  set (st1 := stop_all (close_targets st) st) in *. rewrite C1 in *.
  pose proof (frame_back _ _ _ _ F) as Bk.
  constructor; [done| |].
  - intros _. constructor.
    + cbn. done.
    + intros i Hr. apply Bk in Hr. destruct (l_m3 _ L i Hr) as (h & Hh & Hm).
      destruct (frame_lookup _ _ _ _ _ _ F Hh) as (h' & Hh' & [N _]%sim_name). exists h'. split; [done|].
      cbn. by rewrite N, (rf_map _ _ _ _ F).
    + intros _ i Hr. pose proof (Bk i Hr) as Hr0. destruct (l_m3 _ L i Hr0) as (h & Hh & Hm).
      apply (X1 i); [|exact Hr]. apply close_targets_elem. eauto.
    + intros j h' Hh' Hu Hr. apply Bk in Hr.
      destruct (frame_lookup_rev _ _ _ _ _ _ F Hh') as (h & Hh & [_ U]%sim_name).
      apply (l_u _ L j h); [done|congruence|done].
  - intros j. apply (tr_ok_plain j st _ [TCloseRet (now st1)]); [apply S| | |].
    + cbn. by rewrite T1.
    + apply unlj_sim, F.
    + by apply Forall_singleton.
Qed.

(** * One step, and the theorem *)

Lemma SI_init cc : SI cc cinit.
Proof.
  constructor; [apply basic_init| |].
  - intros _. constructor.
    + intros _ n i. cbn. rewrite lookup_empty. done.
    + intros i (r & Hr & _). done.
    + done.
    + intros j h Hh. cbn in Hh. by rewrite lookup_nil in Hh.
  - intros j. split; [done|]. cbn. done.
Qed.

Lemma SI_step cc st it :
  SI cc st → misuse_at st it = false → stopdrop_at cc st it = false → SI cc (step cc st it).
Proof.
  intros S Hmis Hsd. destruct (cs_crashed st) as [c|] eqn:Hc; [by rewrite (step_crashed _ _ _ _ Hc)|].
  destruct (cs_parked st && is_main_call it) eqn:Hp; [unfold step; by rewrite Hc, Hp|].
  assert (is_main_call it = true → cs_closed st = false ∧ active st = true) as Hmain.
  { intros Hm. rewrite Hm, andb_true_r in Hp. split; [|by apply active_true].
    unfold misuse_at in Hmis. rewrite Hm, andb_true_r in Hmis. by apply orb_false_elim in Hmis as [-> _]. }
  pose proof (basic_step cc st it (si_basic _ _ S)) as B'. revert B'.
  unfold step. rewrite Hc, Hp. destruct it; intros B'.
  - destruct (Hmain eq_refl) as [Hcl _]. by apply SI_acquire.
  - destruct (Hmain eq_refl) as [Hcl _]. by apply SI_acquire.
  - destruct (Hmain eq_refl) as [Hcl Ha]. apply SI_unlock; try done.
    intros h Hh Hl Hna i Hm. unfold stopdrop_at in Hsd. rewrite Ha, Hna, Hh, Hl, Hm in Hsd. exact Hsd.
  - destruct (Hmain eq_refl) as [Hcl Ha]. apply SI_unlock_begin; try done.
    intros h Hh Hl Hna i Hm. unfold stopdrop_at in Hsd. rewrite Ha, Hna, Hh, Hl, Hm in Hsd. exact Hsd.
  - by apply SI_unlock_send.
  - apply SI_unlock_end; [done|].
    unfold misuse_at in Hmis. apply orb_false_elim in Hmis as [_ Hmis].
    destruct (cs_holds st !! j) as [h|] eqn:Hh; [|done]. exists h. split; [done|]. by apply negb_false_iff.
  - destruct (Hmain eq_refl) as [Hcl Ha]. apply SI_close; try done.
    unfold stopdrop_at in Hsd. rewrite Ha in Hsd. destruct (cc_noauto cc) eqn:Hna; [|exact Hsd].
    rewrite (b_noauto _ _ (si_basic _ _ S) Hna), map_to_list_empty. done.
  - eapply SI_frame; [done|done|apply do_advance_frame|apply do_advance_rmove].
  - eapply SI_frame; [done|done|apply (set_arm_frame false)|apply set_arm_rmove].
  - eapply SI_frame; [done|done|apply (do_step_frame false)|apply do_step_rmove].
  - destruct (do_compete_spec name size st) as (s2 & g & E & _). rewrite E in *.
    apply (SI_quiet cc st); try done. apply rmove_emit; [|done]. eapply rmove_ext; [apply rmove_refl|done..].
  - eapply SI_frame; [done|done|apply (do_probe_frame false (λ _, False))|].
    apply rmove_emit; [apply rmove_refl|done].
Qed.

Theorem t_stop : T_stop.
Proof.
  intros cc sched j Hwf Hex.
  assert (SI cc (run cc sched)) as S.
  { apply (run_inv cc (λ st it, misuse_at st it || stopdrop_at cc st it) (SI cc)).
    - intros st it S [H1 H2]%orb_false_elim. by apply SI_step.
    - apply SI_init.
    - rewrite (any_pre_orb cc misuse_at (stopdrop_at cc)).
      unfold wf_sched in Hwf. apply negb_true_iff in Hwf. unfold excluded_stopdrop in Hex. by rewrite Hwf, Hex. }
  split.
  - apply (si_tr _ _ S j).
  - intros h Hc Hh Hu. by apply (l_u _ (si_live _ _ S Hc) j h).
Qed.
Print Assumptions t_stop.
