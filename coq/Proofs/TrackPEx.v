(** Examples for TrackP.v (work package trackp): a boolean version of [hist_ok] (with soundness), a concrete
    non-trivial run on which the oracle reports nothing, doctored traces on which it does (the oracle is not
    vacuous, including the C13 clause), and the two model runs on which the first version of the oracle raised
    false alarms, now as positive examples. *)
From Coq Require Import Lia ZifyBool ZifyNat String.
From Ldlm Require Import Model.Base Model.Err Model.Seq Model.Track Proofs.SeqDefs Proofs.TrackPBase Proofs.TrackPOrder
  Proofs.TrackPTR Proofs.TrackP.
Local Open Scope Z_scope.

(** ** Boolean hypotheses *)

Definition ev_okb (s : sstate) (ev : event) : bool :=
  match ev with
  | ETryLock _ _ _ _ key => bool_decide (key ∉ st_used s)
  | ELock wid _ _ _ _ _ key => bool_decide (key ∉ st_used s) && bool_decide (wid ∉ map w_id (st_waiters s))
  | _ => true
  end.

Definition hist_ok_evb (s : sstate) (ev : event) : bool :=
  (negb (st_shut s) || match ev with EProbe | ERestart _ => true | _ => false end) &&
  match ev with
  | EConnect sid => bool_decide (sid ∉ st_used s) && bool_decide (st_sessions s !! sid = None) &&
                    bool_decide (sid ∉ w_sid <$> st_waiters s)
  | EIpcUnlock name None => bool_decide ([] ∉ ipc_candidates name s)
  | _ => true
  end.

Definition next_okb (ev : event) (h' : list event) : bool :=
  match ev with
  | EIpcUnlock _ None => match h' with [] => true | EProbe :: _ => true | _ => false end
  | _ => true
  end.

Fixpoint hist_okb (cfg : config) (s : sstate) (h : list event) : bool :=
  match h with
  | [] => true
  | ev :: h' => ev_okb s ev && hist_ok_evb s ev && next_okb ev h' &&
                forallb (λ r, hist_okb cfg (fst r) h') (sstep cfg s ev)
  end.

Lemma hist_okb_sound cfg h : ∀ s, hist_okb cfg s h = true → hist_ok cfg s h.
Proof.
  induction h as [|ev h IH]; intros s; simpl; [done|].
  rewrite !andb_true_iff. intros [[[H1 H2] H3] H4]. split_and!.
  - destruct ev; simpl in *; try done.
    + by apply bool_decide_eq_true in H1.
    + apply andb_true_iff in H1 as [?%bool_decide_eq_true ?%bool_decide_eq_true]. done.
  - unfold hist_ok_evb in H2. apply andb_true_iff in H2 as [H2 H2']. split.
    + intros Hs. rewrite Hs in H2. simpl in H2. destruct ev; try done; eauto.
    + destruct ev; try done.
      * apply andb_true_iff in H2' as [[?%bool_decide_eq_true ?%bool_decide_eq_true]%andb_true_iff ?%bool_decide_eq_true]. done.
      * destruct key; [done|]. by apply bool_decide_eq_true in H2'.
  - destruct ev; try done. destruct key; [done|]. simpl in *. destruct h as [|[] ?]; done.
  - intros s' o Hin. apply IH. rewrite forallb_forall in H4. apply (H4 (s', o)). by apply elem_of_list_In.
Qed.

(** ** A concrete run: two sessions, a lock of size 2, leases, a parked call served by an Unlock, another
    served by a lease expiry, a wait timeout, the admin list, a session end, a restart from the state file *)

Definition ex_cfg : config := Config false true (30 * second) (5 * second) (10 * second).
Definition nA : str := [x61].
Definition k (n : byte) : str := [x6b; n].
Definition sA : str := [x73; x31]. Definition sB : str := [x73; x32].

Definition ex_hist : list event :=
  [ EConnect sA; EConnect sB;
    ETryLock (Some sA) nA (Some 2) (Some 2) (k x31);
    ETryLock (Some sA) nA (Some 2) None (k x32);
    ELock 7%nat (Some sB) nA (Some 2) (Some 1) (Some 5) (k x33);        (* parked *)
    ETryLock (Some sB) nA (Some 3) None (k x34);                         (* size mismatch *)
    EProbe;
    EUnlock None nA (k x32);                                             (* hands the capacity to call 7 *)
    ERenew nA (k x31) 3;
    EAdvance (3 * second / 2);                                           (* the lease of k3 ends at 1 s *)
    EProbe;
    ELock 8%nat (Some sB) nA (Some 2) None (Some 1) (k x35);             (* granted at once *)
    ELock 9%nat (Some sB) nA (Some 2) None (Some 1) (k x36);             (* parked, times out at 2.5 s *)
    ELock 10%nat (Some sA) nA (Some 2) None None (k x37);                (* parked, served when k1's lease ends at 3 s *)
    EAdvance (2 * second);
    EIpcList; EProbe;
    EDisconnect sB;
    EIpcUnlock nA (Some (k x37));
    EProbe;
    ETryLock (Some sA) nA (Some 2) (Some 4) (k x38);
    ERestart [];
    EProbe;
    EAdvance (11 * second);
    EProbe;
    EShutdown; EProbe ].

Lemma ex_cfg_ok : cfg_ok ex_cfg.
Proof. by vm_compute. Qed.

Lemma ex_hist_ok : hist_ok ex_cfg (init_state ex_cfg) ex_hist.
Proof. apply hist_okb_sound. by vm_compute. Qed.

(** the oracle evaluated on every run of the model over that history, by computation *)
Example ex_run_clean :
  map (λ r, track_failures ex_cfg (zip ex_hist (snd r))) (runs ex_cfg (init_state ex_cfg) ex_hist) = [[]].
Proof. vm_compute. reflexivity. Qed.

(** the run is not trivial: 36 observations, among them 3 completions of parked calls (a hand-off by Unlock, a
    wait timeout, a hand-off by a lease expiry) *)
Example ex_run_outputs :
  map (λ r, (length (concat (snd r)), length (comps (concat (snd r))))) (runs ex_cfg (init_state ex_cfg) ex_hist) = [(36%nat, 3%nat)].
Proof. vm_compute. reflexivity. Qed.

(** and the theorem applies to it: its hypotheses are satisfiable *)
Example ex_theorem_applies : ∀ s os, (s, os) ∈ runs ex_cfg (init_state ex_cfg) ex_hist →
  track_failures ex_cfg (zip ex_hist os) = [].
Proof. intros s os Hin. eapply mseq_satisfies_oracle; [apply ex_cfg_ok|apply ex_hist_ok|exact Hin]. Qed.

Lemma map_all_eq {A B} (f : A → B) (l : list A) y : Forall (λ z, z = y) (map f l) → ∀ r, r ∈ l → f r = y.
Proof. rewrite Forall_forall. intros H r Hr. apply H. apply elem_of_list_In, in_map, elem_of_list_In, Hr. Qed.

(** ** The oracle is not vacuous: a doctored trace with a second grant on a lock of size 1 *)
Example ex_doctored :
  track_failures ex_cfg
    [ (EConnect sA, []);
      (ETryLock (Some sA) nA None None (k x31), [OResp (RLock true (k x31) None)]);
      (ETryLock (Some sA) nA None None (k x32), [OResp (RLock true (k x32) None)]) ]
  = [(2%nat, "C01:grant-over-capacity"%string)].
Proof. vm_compute. reflexivity. Qed.

(** a hold that outlives its lease is noticed at the next probe *)
Example ex_doctored_lease :
  track_failures ex_cfg
    [ (EConnect sA, []);
      (ETryLock (Some sA) nA None (Some 1) (k x31), [OResp (RLock true (k x31) None)]);
      (EAdvance (2 * second), []);
      (EProbe, [OListing [Clock nA (k x31) 1]; OFile (Some [(sA, [Clock nA (k x31) 1])]); OTable [(nA, (1, [k x31], 0))]]) ]
  = [(3%nat, "HOLDS:table-vs-expected-live-holds"%string)].
Proof. vm_compute. reflexivity. Qed.

(** C13: lock "a" (size 1) is released at 6 s and a request with size 2 is accepted 1 s later although min-idle is 5 s *)
Example ex_doctored_gc :
  track_failures ex_cfg
    [ (EConnect sA, []);
      (ETryLock (Some sA) nA None None (k x31), [OResp (RLock true (k x31) None)]);
      (EAdvance (6 * second), []);
      (EUnlock None nA (k x31), [OResp (RUnlock true None)]);
      (EAdvance (1 * second), []);
      (ETryLock (Some sA) nA (Some 2) None (k x32), [OResp (RLock true (k x32) None)]) ]
  = [(5%nat, "C13:collected-before-min-idle"%string)].
Proof. vm_compute. reflexivity. Qed.

(** the same request more than min-idle after the release is fine (the object may have been collected) *)
Example ex_gc_late :
  track_failures ex_cfg
    [ (EConnect sA, []);
      (ETryLock (Some sA) nA None None (k x31), [OResp (RLock true (k x31) None)]);
      (EUnlock None nA (k x31), [OResp (RUnlock true None)]);
      (EAdvance (31 * second), []);
      (ETryLock (Some sA) nA (Some 2) None (k x32), [OResp (RLock true (k x32) None)]) ]
  = [].
Proof. vm_compute. reflexivity. Qed.

(** FRESH: after a restart a new connection gets the id of a session whose holds were restored; its disconnect
    would end those holds *)
Example ex_doctored_sid :
  track_failures ex_cfg
    [ (EConnect sA, []);
      (ETryLock (Some sA) nA None None (k x31), [OResp (RLock true (k x31) None)]);
      (ERestart [], []);
      (EConnect sA, []) ]
  = [(3%nat, "FRESH:session-id-reused"%string)].
Proof. vm_compute. reflexivity. Qed.

Example ex_doctored_key :
  track_failures ex_cfg
    [ (EConnect sA, []);
      (ETryLock (Some sA) nA None None (k x31), [OResp (RLock true (k x31) None)]);
      (EUnlock None nA (k x31), [OResp (RUnlock true None)]);
      (ETryLock (Some sA) nA None None (k x31), [OResp (RLock true (k x31) None)]) ]
  = [(3%nat, "FRESH:key-reused"%string)].
Proof. vm_compute. reflexivity. Qed.

(** ** The two histories on which the first version of the oracle raised false alarms *)

(** two leases on a lock of size 2 end at the same instant; the two parked calls are granted in queue order *)
Definition fa1_hist : list event :=
  [ EConnect sA; EConnect sB;
    ETryLock (Some sA) nA (Some 2) (Some 2) (k x31);
    ETryLock (Some sA) nA (Some 2) (Some 2) (k x32);
    ELock 8%nat (Some sA) nA (Some 2) (Some 1) None (k x33);
    ELock 10%nat (Some sB) nA (Some 2) None None (k x34);
    EAdvance (3 * second) ].

Lemma fa1_compute :
  map (λ r, track_failures ex_cfg (zip fa1_hist (snd r))) (runs ex_cfg (init_state ex_cfg) fa1_hist) = [[]; []].      (* the two orders of the timer tie *)
Proof. vm_compute. reflexivity. Qed.

(** an admin Unlock by name hands the capacity to a parked call *)
Definition fa2_hist : list event :=
  [ EConnect sA;
    ETryLock (Some sA) nA None None (k x31);
    ELock 7%nat (Some sA) nA None None None (k x32);
    EIpcUnlock nA None; EProbe ].

Lemma fa2_compute :
  map (λ r, track_failures ex_cfg (zip fa2_hist (snd r))) (runs ex_cfg (init_state ex_cfg) fa2_hist) = [[]].
Proof. vm_compute. reflexivity. Qed.

(** an admin Unlock by name with two holds of that name: deferred to the probe *)
Definition fa3_hist : list event :=
  [ EConnect sA;
    ETryLock (Some sA) nA (Some 2) None (k x31);
    ETryLock (Some sA) nA (Some 2) None (k x32);
    ELock 7%nat (Some sA) nA (Some 2) None None (k x33);
    EIpcUnlock nA None; EProbe; EIpcList ].

Lemma fa3_compute :
  map (λ r, track_failures ex_cfg (zip fa3_hist (snd r))) (runs ex_cfg (init_state ex_cfg) fa3_hist) = [[]].
Proof. vm_compute. reflexivity. Qed.

Print Assumptions ex_theorem_applies.
