(** Work package svinv, part 7: the auxiliary (C05) fields of the invariant are preserved by every step. *)
From Coq Require Import Lia ZifyBool ZifyNat.
From Ldlm Require Import Model.Base Model.Err Model.Sv Proofs.SeqLemmasKey.
From Ldlm Require Import Proofs.SvDefs Proofs.SvInvBase Proofs.SvInvFrame Proofs.SvInvKeys Proofs.SvInvTimer Proofs.SvInvSess.
From RecordUpdate Require Import RecordSet.
Import RecordSetNotations.
Local Open Scope Z_scope.

Lemma acquirer_fmap_ok (f : sthread → sthread) t sid n k z : st_op (f t) = st_op t → acquirer (f t) sid n k z → acquirer t sid n k z.
Proof. intros Ho [lt Ha]. exists lt. by rewrite <- Ho. Qed.

Lemma step_vi_granted_live cfg s it s' (I : SvInv cfg s) (Hok : sitem_ok s it) (Hv : vsr cfg s it s') :
  ∀ tid t sid n k z, v_thr s' !! tid = Some t → acquirer t sid n k z → st_pc t = VWoken ∨ st_pc t = VSessAdd → slive s' n k.
Proof.
  pose proof (vi_granted_live _ _ I) as Hc.
  pose proof (λ n k, vsr_live_fwd _ _ _ _ n k Hv) as Hlf.
  destruct Hv; unfold st_go in *; simpl in *; intros x t' sid0 n0 k0 z0 Ql Qa Qp; lk; simpl in *; try (by eapply Hc).
  all: try (exfalso; try site_inv; subst; try destruct (sc_noclear _); try destruct (lt_pos _); ds_next_cases; naive_solver).
  all: try (destruct (Hlf _ _ (Hc _ _ _ _ _ _ Ql Qa Qp)) as [?|(tid0 & t0 & pc0 & E & Ht0 & Hs0 & Ht0' & _)]; [done|];
            exfalso; injection E as <-;
            destruct (rel_site_owner _ _ _ _ _ _ _ _ _ _ _ _ I Ht0 Hs0 Ql Qa) as [[?|[? ?]]|[? ?]]; destruct Qp; congruence).
  - destruct Qa as [lt [Qa|Qa]]; simpl in Qa; subst op; destruct Qp; done.
  - destruct (connend_cancel_ok sid x0) as (Ho & Hp & _). rewrite Hp in Qp. apply acquirer_fmap_ok in Qa; [|done]. by eapply Hc.
  - destruct (acquirer_inj _ _ _ _ _ _ _ _ _ Qa (acq_op_acquirer _ _ _ _ _ _ Hop)) as (-> & -> & -> & ->).
    unfold slive; simpl. eexists. rewrite lookup_insert. split; [done|]. simpl. apply elem_of_app. right. by apply elem_of_list_singleton.
  - eapply Hc; eauto.
  - assert (acquirer tw sidw n kw zw) as Qa' by (exists ltw; by right).
    destruct (acquirer_inj _ _ _ _ _ _ _ _ _ Qa Qa') as (-> & -> & -> & ->).
    unfold slive; simpl. eexists. rewrite lookup_insert. split; [done|]. simpl. apply elem_of_app. right. by apply elem_of_list_singleton.
  - destruct (shnet_cancel_ok x0) as (Ho & Hp & _). rewrite Hp in Qp. apply acquirer_fmap_ok in Qa; [|done]. by eapply Hc.
Qed.

(** a call of an ended session that is still in flight has a context cancelled by the connection's end *)
Lemma ended_ctx_cancelled cfg s x t sid : SvInv cfg s → v_thr s !! x = Some t → op_sid (st_op t) = Some sid → ev_in (SvConnEnd sid) s →
  st_pc t = VSessAdd ∨ st_pc t = VTmAdd → st_cancel t = Some ECtxCanceled.
Proof.
  intros I Hx Ho He Hp. assert (is_fin (st_pc t) = false) as Hnf by (destruct Hp as [-> | ->]; done).
  pose proof (vi_ended_cancel _ _ I _ _ _ Hx Ho He Hnf) as Hc. destruct (st_cancel t) as [e|] eqn:Hce; [|done].
  destruct (decide (e = ECtxCanceled)) as [->|Hne]; [done|].
  destruct (vi_cancel_pc _ _ I _ _ _ Hx Hce Hne) as [?|[?|[?|[? ?]]]]; destruct Hp; congruence.
Qed.

(** DestroySession releasing the hold of a call that is still arming its lease: that call's context is cancelled *)
Lemma ds_release_cancelled cfg s tid t sidx c rest x tx sid z : SvInv cfg s →
  v_thr s !! tid = Some t → st_op t = SConnEnd sidx → st_pc t = VDsUnlock c rest →
  v_thr s !! x = Some tx → acquirer tx sid (cl_name c) (cl_key c) z → st_pc tx = VTmAdd → st_cancel tx = Some ECtxCanceled.
Proof.
  intros I Ht Ho Hp Hx Hax Hpx.
  destruct (vi_ds_todo _ _ I _ _ _ c Ht Ho) as [(y & ty & Hy & Hay & _) _]; [rewrite Hp; simpl; by left|].
  destruct (acq_unique _ _ _ _ _ _ _ _ _ _ _ _ _ I Hx Hy Hax Hay) as (-> & -> & -> & _).
  pose proof (vi_ds_ended _ _ I _ _ _ Ht Ho) as Hev.
  eapply ended_ctx_cancelled; eauto. by destruct (acquirer_is_acq _ _ _ _ _ Hax) as (_ & _ & ?).
Qed.

(** only a session end can release the hold of a call that has not yet armed its lease *)
Lemma rel_site_tmadd cfg s tid t n k pc' x tx sid z : SvInv cfg s → v_thr s !! tid = Some t → rel_site s t n k pc' →
  v_thr s !! x = Some tx → acquirer tx sid n k z → st_pc tx = VTmAdd →
  ∃ sidx c rest, st_op t = SConnEnd sidx ∧ st_pc t = VDsUnlock c rest ∧ cl_name c = n ∧ cl_key c = k.
Proof.
  intros I Ht Hs Hx Hax Hpx. destruct (acquirer_is_acq _ _ _ _ _ Hax) as (Hia & Hk & _).
  destruct Hs as [Hot Hpt _|id' tm'' Hot Hpt Hh' En' Ek' _|sidx c' rest Hot Hpt En' Ek' _|sidx zx ltx e Hot Hpt Hct].
  - exfalso. destruct (vi_presented _ _ I tid t k Ht) with (tid' := x) (t' := tx) as (y & ty & ? & ? & ? & Hy & Hay & Hpy & _);
      [by rewrite Hot|by rewrite Hot|done|done|done|].
    destruct (acq_unique _ _ _ _ _ _ _ _ _ _ _ _ _ I Hx Hy Hax Hay) as (-> & -> & _). congruence.
  - exfalso. destruct (vi_tm_heap _ _ I _ _ Hh') as (_ & y & ty & ? & ? & Hy & Hay & _ & r & Hpy). subst.
    destruct (acq_unique _ _ _ _ _ _ _ _ _ _ _ _ _ I Hx Hy Hax Hay) as (-> & -> & _). congruence.
  - eauto 10.
  - exfalso. assert (acquirer t sidx n k zx) as Ha by (exists ltx; by right).
    destruct (acq_unique _ _ _ _ _ _ _ _ _ _ _ _ _ I Hx Ht Hax Ha) as (-> & -> & _). congruence.
Qed.

Lemma step_vi_tmadd_live cfg s it s' (I : SvInv cfg s) (Hok : sitem_ok s it) (Hv : vsr cfg s it s') :
  ∀ tid t sid n k z, v_thr s' !! tid = Some t → acquirer t sid n k z → st_pc t = VTmAdd →
      slive s' n k ∨ st_cancel t = Some ECtxCanceled.
Proof.
  pose proof (vi_tmadd_live _ _ I) as Hc.
  pose proof (λ n k, vsr_live_fwd _ _ _ _ n k Hv) as Hlf.
  destruct Hv; unfold st_go in *; simpl in *; intros x t' sid0 n0 k0 z0 Ql Qa Qp; lk; simpl in *; try (by eapply Hc).
  all: try (exfalso; try site_inv; subst; try destruct (sc_noclear _); try destruct (lt_pos _); ds_next_cases; congruence).
  all: try (destruct (Hc _ _ _ _ _ _ Ql Qa Qp) as [Hlv|?]; [|by right];
            destruct (Hlf _ _ Hlv) as [?|(tid0 & t0 & pc0 & E & Ht0 & Hs0 & Ht0' & _)]; [by left|]; injection E as <-;
            destruct (rel_site_tmadd _ _ _ _ _ _ _ _ _ _ _ I Ht0 Hs0 Ql Qa Qp) as (sidx & c' & rest & Hox & Hpx & <- & <-);
            right; eapply ds_release_cancelled; eauto).
  - destruct Qa as [lt [Qa|Qa]]; simpl in Qa; subst op; done.
  - right. destruct Hok as [->|[_ (t0 & Ht0 & Hp0)]]; [done|]. simplify_eq. destruct Hp0 as [?|[?|?]]; congruence.
  - destruct (connend_cancel_ok sid x0) as (Ho & Hp & Hcc & _). rewrite Hp in Qp. apply acquirer_fmap_ok in Qa; [|done].
    destruct (Hc _ _ _ _ _ _ Ql Qa Qp) as [?|?]; [by left|right; auto].
  - left. destruct (lt_pos lt); [|done]. eapply (vi_granted_live _ _ I); eauto.
  - destruct (shnet_cancel_ok x0) as (Ho & Hp & Hcc & _). rewrite Hp in Qp. apply acquirer_fmap_ok in Qa; [|done].
    destruct (Hc _ _ _ _ _ _ Ql Qa Qp) as [?|?]; [by left|right; auto].
Qed.

Lemma step_vi_unl_notimer cfg s it s' (I : SvInv cfg s) (Hok : sitem_ok s it) (Hv : vsr cfg s it s') :
  ∀ tid t n k, v_thr s' !! tid = Some t → st_op t = SUnlock n k → st_pc t = VMgrUnlock → v_timers s' !! tkey n k = None.
Proof.
  pose proof (vi_unl_notimer _ _ I) as Hc.
  destruct Hv; unfold st_go in *; simpl in *; intros x t' n0 k0 Ql Qo Qp; lk; simpl in *; try (by eapply Hc).
  Unshelve.
  all: try (exfalso; try site_inv; subst; try destruct (sc_noclear _); try destruct (lt_pos _); ds_next_cases; try destruct Hop; congruence).
  - subst op. done.
  - destruct (connend_cancel_ok sid x0) as (Ho & Hp & _). rewrite Ho in Qo. rewrite Hp in Qp. by eapply Hc.
  - (* another call arms a lease: not for this key, which was delivered *)
    rewrite lookup_insert_ne; [exact (Hc _ _ _ _ Ql Qo Qp)|]. intros [-> ->]%tkey_inj.
    destruct (vi_presented _ _ I x t' k0 Ql) with (tid' := tid) (t' := t) as (y & ty & ? & ? & ? & Hy & Hay & Hpy & _);
      [by rewrite Qo|by rewrite Qo|done|by destruct (acquirer_is_acq _ _ _ _ _ (acq_op_acquirer _ _ _ _ _ _ Hop))
      |by destruct (acquirer_is_acq _ _ _ _ _ (acq_op_acquirer _ _ _ _ _ _ Hop)) as (_ & ? & _)|].
    destruct (acq_unique _ _ _ _ _ _ _ _ _ _ _ _ _ I Ht Hy (acq_op_acquirer _ _ _ _ _ _ Hop) Hay) as (-> & -> & _). congruence.
  - destruct Hsite as [n1 k1 Ho1 Hp1| |]; try congruence; rewrite Ho1 in Qo; simplify_eq; done.
  - destruct Hsite as [n1 k1 Ho1 Hp1| |]; try congruence; rewrite Ho1 in Qo; simplify_eq; by rewrite lookup_delete.
  - destruct (decide (tkey n0 k0 = tk)) as [<-|]; [by rewrite lookup_delete|rewrite lookup_delete_ne by done; exact (Hc _ _ _ _ Ql Qo Qp)].
  - destruct (decide (tkey n0 k0 = tk)) as [<-|]; [by rewrite lookup_delete|rewrite lookup_delete_ne by done; exact (Hc _ _ _ _ Ql Qo Qp)].
  - destruct (shnet_cancel_ok x0) as (Ho & Hp & _). rewrite Ho in Qo. rewrite Hp in Qp. by eapply Hc.
  - apply lookup_empty.
  Unshelve. all: match goal with |- ?G => idtac "SHELVED" G end.
Qed.

Lemma step_vi_ds_unlock cfg s it s' (I : SvInv cfg s) (Hok : sitem_ok s it) (Hv : vsr cfg s it s') :
  ∀ tid t sid c rest id tm d, v_thr s' !! tid = Some t → st_op t = SConnEnd sid → st_pc t = VDsUnlock c rest →
      armed_at s' (tkey (cl_name c) (cl_key c)) id tm d → cancelled s' (cl_name c) (cl_key c).
Proof.
  intros x t' sid c rest id tm' d Ql Qo Qp Qa. pose proof (vsr_thr_fwd _ _ _ _ I Hv) as Hf.
  destruct (ds_thr_bwd _ _ _ _ I Hv _ _ _ Ql Qo) as [(y & Hy & Hoy & Hp)|(Hn & Hp & Hnew)]; [|congruence].
  destruct (vsr_thr_pc_fwd _ _ _ _ _ _ I Hv Hy) as (y' & Hy' & _ & Hpp). simplify_eq.
  destruct (decide (st_pc y = VDsUnlock c rest)) as [Hsame|Hdiff].
  - (* DestroySession was already between its timer removal and its unlock *)
    destruct (vsr_armed_bwd _ _ _ _ _ _ _ _ I Hv Qa) as [(tm0 & d0 & Ha0 & _)|
      (tid0 & t0 & sid0 & n & k & z & lt & _ & Ht0 & Hop0 & Hpc0 & Htk & _ & _ & Ht0' & _)].
    + eapply cancelled_fwd; [done|]. eapply (vi_ds_unlock _ _ I); eauto.
    + apply tkey_inj in Htk as [<- <-].
      pose proof (ds_release_cancelled _ _ _ _ _ _ _ _ _ _ _ I Hy Hoy Hsame Ht0 (acq_op_acquirer _ _ _ _ _ _ Hop0) Hpc0) as Hcc.
      exists tid0, (with_pc t0 (VFin (SResp true None))), sid0, z. split; [done|]. split; [by eapply acq_op_acquirer|done].
  - (* it has just removed the timer *)
    exfalso. destruct Hpp as [Hpp|[->|[_ Hpp]]]; [congruence| |congruence].
    destruct Qa as (Qa1 & _).
    inversion Hv; subst; unfold st_go in *; simpl in *; simplify_eq; try (rewrite lookup_insert in Ql; simplify_eq; simpl in *).
    all: try (try site_inv; subst; try destruct (sc_noclear _); try destruct (lt_pos _); ds_next_cases; try destruct Hop; congruence).
    destruct Hsite; simplify_eq. by rewrite lookup_delete in Qa1.
Qed.

Lemma step_vi_ds_todo cfg s it s' (I : SvInv cfg s) (Hok : sitem_ok s it) (Hv : vsr cfg s it s') :
  ∀ tid t sid c, v_thr s' !! tid = Some t → st_op t = SConnEnd sid → ds_pending (st_pc t) c →
      (∃ tid' t', v_thr s' !! tid' = Some t' ∧ acquirer t' sid (cl_name c) (cl_key c) (cl_size c) ∧ (st_pc t' = VTmAdd ∨ ∃ r, st_pc t' = VFin r)) ∧
      (∀ sid' c', entry_of s' sid' c' → cl_key c' ≠ cl_key c).
Proof.
  intros x t' sid c Ql Qo Qp. pose proof (vsr_thr_fwd _ _ _ _ I Hv) as Hf.
  destruct (ds_thr_bwd _ _ _ _ I Hv _ _ _ Ql Qo) as [(y & Hy & Hoy & Hp)|(Hn & Hp & Hnew)]; [|by rewrite Hp in Qp].
  destruct (vsr_thr_pc_fwd _ _ _ _ _ _ I Hv Hy) as (y' & Hy' & _ & Hpp). simplify_eq.
  assert (ds_pending (st_pc y) c ∨
          (∃ l, st_pc y = VDsDestroy ∧ v_sess s !! sid = Some l ∧ c ∈ l ∧ v_sess s' = delete sid (v_sess s) ∧ v_thr s' = <[x := t']> (v_thr s))) as [Hold|Hdes].
  { destruct (decide (st_pc t' = st_pc y)) as [Hsame|Hdiff]; [left; by rewrite <- Hsame|].
    destruct Hpp as [Hpp|[->|[_ Hpp]]]; [congruence| |by rewrite Hpp in Qp].
    inversion Hv; subst; unfold st_go in *; simpl in *; simplify_eq; try (rewrite lookup_insert in Ql; simplify_eq; simpl in * ).
    all: try (exfalso; try site_inv; subst; try destruct (sc_noclear _); try destruct (lt_pos _); ds_next_cases; try destruct Hop; simpl in *; congruence).
    - left. destruct Hsite as [| |? ? ? ? Hpy|]; try congruence. rewrite Hpy. simpl in *. right. by apply ds_pending_next.
    - left. destruct Hsite as [| |? ? ? ? Hpy|]; try congruence. rewrite Hpy. simpl in *. right. by apply ds_pending_next.
    - left. destruct Hsite as [| |? ? ? ? Hpy]; try congruence. rewrite Hpy. simpl in *. right. by apply ds_pending_next.
    - left. destruct Hsite as [| |? ? ? ? Hpy]; try congruence. rewrite Hpy. simpl in *. destruct Qp as [->|?]; [left|by right].
    - left. destruct Hsite as [| |? ? ? ? Hpy]; try congruence. rewrite Hpy. simpl in *. destruct Qp as [->|?]; [left|by right].
    - left. destruct Hsite as [| |? ? ? ? Hpy]; try congruence. rewrite Hpy. simpl in *. right. by apply ds_pending_next.
    - apply ds_pending_next in Qp. destruct Hpc as [Hpc|[_ ->]]; [|by apply elem_of_nil in Qp].
      right. rewrite Hoy in Hop. simplify_eq. exists l. done. }
  - (* the hold was pending before *)
    destruct (vi_ds_todo _ _ I _ _ _ c Hy Hoy Hold) as [(z & tz & Hz & Haz & Hpz) Hno].
    destruct (past_add_fwd _ _ _ _ _ _ _ _ Hf Hz Haz Hpz) as (tz' & Hz' & Haz' & Hpz' & _). split; [eauto|].
    intros sid' c' He. destruct (vsr_entry_bwd _ _ _ _ _ _ Hv He) as [He0|(tid0 & t0 & n & k & z0 & lt & pc' & _ & Ht0 & Hop0 & Hpc0 & -> & _)].
    + by eapply Hno.
    + simpl. intros ->.
      destruct (acq_unique _ _ _ _ _ _ _ _ _ _ _ _ _ I Hz Ht0 Haz (acq_op_acquirer _ _ _ _ _ _ Hop0)) as (-> & -> & _).
      rewrite Hpc0 in Hpz. naive_solver.
  - (* the session table entry has just been destroyed *)
    destruct Hdes as (l & Hpy & Hl & Hcl & Hs' & _).
    assert (entry_of s sid c) as He0 by (by exists l).
    destruct (vi_entry_owner _ _ I _ _ He0) as (z & tz & Hz & Haz & Hpz).
    destruct (past_add_fwd _ _ _ _ _ _ _ _ Hf Hz Haz Hpz) as (tz' & Hz' & Haz' & Hpz' & _). split; [eauto|].
    intros sid' c' He Hk. change (entry_m (v_sess s') sid' c') in He. rewrite Hs' in He. apply entry_m_delete in He as [He Hne].
    destruct (vi_entry_owner _ _ I _ _ He) as (z2 & tz2 & Hz2 & Haz2 & _). rewrite Hk in Haz2.
    destruct (acq_unique _ _ _ _ _ _ _ _ _ _ _ _ _ I Hz Hz2 Haz Haz2) as (_ & _ & ? & _). congruence.
Qed.

Lemma rel_site_fun s t n k pc' n2 k2 pc2 : rel_site s t n k pc' → rel_site s t n2 k2 pc2 → n = n2 ∧ k = k2.
Proof. destruct 1, 1; split; congruence. Qed.
Lemma rel_relfail_fun s t n k pc' n2 k2 pc2 : rel_site s t n k pc' → relfail_site s t n2 k2 pc2 → n = n2 ∧ k = k2 ∧ v_mgrshut s = false.
Proof. destruct 1, 1; repeat split; congruence. Qed.

(** the own step of a thread that is at a release site (manager not shut down): afterwards the hold is not live *)
Lemma vsr_run_rel cfg s tid s' t n k pc' : SvInv cfg s → vsr cfg s (VRun tid) s' → v_thr s !! tid = Some t → rel_site s t n k pc' →
  s' = s ∨ ¬ slive s' n k.
Proof.
  intros I Hv Ht Hs.
  inversion Hv; subst; unfold st_go in *; simpl in *; simplify_eq; auto.
  all: try (exfalso; destruct Hs; congruence).
  all: try (exfalso; destruct Hs; destruct Hpc; congruence).
  all: try (exfalso; destruct Hs; destruct Hpc as [Hpc|[Hpc _]]; congruence).
  all: try (exfalso; destruct Hs; site_inv; congruence).
  - right. destruct (rel_site_fun _ _ _ _ _ _ _ _ Hs Hsite) as [-> ->].
    intros Hl. eapply slive_insert in Hl; [|simpl; reflexivity]. destruct Hl as [[_ Hl]|[? _]]; [|done]. simpl in Hl.
    destruct (vi_cap _ _ I _ _ Ha) as (_ & _ & Hnd & _). by apply (remove_first_NoDup k0) in Hnd as [_ ?].
  - right. destruct (rel_site_fun _ _ _ _ _ _ _ _ Hs Hsite) as [-> ->].
    intros Hl. eapply slive_insert in Hl; [|simpl; reflexivity]. destruct Hl as [[_ Hl]|[? _]]; [|done]. simpl in Hl.
    destruct (vi_cap _ _ I _ _ Ha) as (_ & _ & Hnd & _).
    apply elem_of_app in Hl as [Hl|Hl%elem_of_list_singleton]; [by apply (remove_first_NoDup k0) in Hnd as [_ ?]|]. subst kw.
    assert (slive s n0 k0) as Hlv by (by exists a).
    destruct (live_owner_pc _ _ _ _ _ _ _ _ _ I Hlv Hw (ex_intro _ ltw (or_intror Hwop))) as [_ Hp]. rewrite Hwpc in Hp. naive_solver.
  - right. destruct (rel_relfail_fun _ _ _ _ _ _ _ _ Hs Hsite) as (-> & -> & Hms). destruct Hwhy as [?|Hnl]; [congruence|]. exact Hnl.
Qed.

(** once not live, a hold whose acquiring call has finished never becomes live again *)
Lemma not_live_fwd cfg s it s' n k x tx sid z : SvInv cfg s → vsr cfg s it s' → ¬ slive s n k →
  v_thr s !! x = Some tx → acquirer tx sid n k z → is_fin (st_pc tx) = true → ¬ slive s' n k.
Proof.
  intros I Hv Hnl Hx Hax Hfin Hl.
  destruct (vsr_live_bwd _ _ _ _ _ _ Hv Hl) as [?|(y & ty & sidy & zy & Hy & Hay & Hpy)]; [done|].
  destruct (acq_unique _ _ _ _ _ _ _ _ _ _ _ _ _ I Hx Hy Hax Hay) as (-> & -> & _).
  destruct Hpy as [Hp|[Hp|Hp]]; rewrite Hp in Hfin; done.
Qed.

Lemma step_vi_expired cfg s it s' (I : SvInv cfg s) (Hok : sitem_ok s it) (Hv : vsr cfg s it s') :
  ∀ tid t id tm, v_thr s' !! tid = Some t → st_op t = SExpire id → v_theap s' !! id = Some tm →
      v_mgrshut s' = false → st_pc t = VCbUnlock ∨ ¬ slive s' (tm_n tm) (tm_k tm).
Proof.
  intros x t' id tm' Ql Qo Qh Qm. pose proof (vsr_mgrshut_mono _ _ _ _ Hv Qm) as Hms.
  destruct (vsr_thr_bwd _ _ _ _ _ _ I Hv Ql) as [(y & Hy & Ho & _)|[Hn N]].
  2:{ left. destruct N as [(op & -> & -> & Hc)|(_ & Hp & _)]; [simpl in Qo; subst op; done|]. by rewrite Hp, Qo. }
  rewrite Qo in Ho. symmetry in Ho.
  destruct (vi_expire_heap _ _ I _ _ _ Hy Ho) as [tm0 Htm0].
  destruct (vsr_heap_fwd _ _ _ _ _ _ I Hv Htm0) as (tm'' & Hh'' & (En & Ek & _) & _). simplify_eq. rewrite En, Ek.
  destruct (vi_tm_heap _ _ I _ _ Htm0) as (_ & z & tz & sidz & zz & Hz & Haz & _ & r & Hpz).
  destruct (vi_expired _ _ I _ _ _ _ Hy Ho Htm0 Hms) as [Hpy|Hnl].
  - destruct (vsr_thr_pc_fwd _ _ _ _ _ _ I Hv Hy) as (y' & Hy' & _ & Hpp). simplify_eq.
    destruct Hpp as [Hpp|[->|[Hpp _]]]; [left; congruence| |congruence].
    destruct (vsr_run_rel _ _ _ _ _ _ _ _ I Hv Hy (rs_expire _ _ _ _ _ _ Ho Hpy Htm0 eq_refl eq_refl Hms)) as [->|?]; [|by right].
    left. simplify_eq. done.
  - right. eapply not_live_fwd; eauto. by rewrite Hpz.
Qed.

Lemma pending_fwd cfg s it s' n k : SvInv cfg s → vsr cfg s it s' → v_mgrshut s = false → expiry_pending s n k →
  ¬ slive s' n k ∨ expiry_pending s' n k.
Proof.
  intros I Hv Hms (e & te & id & tm & He & Hoe & Hpe & Hh & <- & <-).
  destruct (vsr_heap_fwd _ _ _ _ _ _ I Hv Hh) as (tm' & Hh' & (En & Ek & _) & _).
  destruct (vsr_thr_pc_fwd _ _ _ _ _ _ I Hv He) as (te' & He' & Hoe' & Hpp).
  destruct Hpp as [Hpp|[->|[Hpp _]]]; [| |congruence].
  - right. exists e, te', id, tm'. repeat split; try done; congruence.
  - destruct (vsr_run_rel _ _ _ _ _ _ _ _ I Hv He (rs_expire _ _ _ _ _ _ Hoe Hpe Hh eq_refl eq_refl Hms)) as [->|?]; [|by left].
    right. exists e, te, id, tm. done.
Qed.

Lemma unlock_key_not_live_fwd cfg s it s' x tx n k : SvInv cfg s → vsr cfg s it s' →
  v_thr s !! x = Some tx → st_op tx = SUnlock n k → ¬ slive s n k → ¬ slive s' n k.
Proof.
  intros I Hv Hx Hox Hnl Hl.
  destruct (vsr_live_bwd _ _ _ _ _ _ Hv Hl) as [?|(y & ty & sidy & zy & Hy & Hay & Hpy)]; [done|].
  destruct (acquirer_is_acq _ _ _ _ _ Hay) as (Hia & Hk & _).
  destruct (vi_presented _ _ I x tx k Hx) with (tid' := y) (t' := ty) as (z & tz & ? & ? & ? & Hz & Haz & Hpz & _);
    [by rewrite Hox|by rewrite Hox|done|done|done|].
  destruct (acq_unique _ _ _ _ _ _ _ _ _ _ _ _ _ I Hy Hz Hay Haz) as (-> & -> & _).
  destruct Hpy as [Hp|[Hp|Hp]]; congruence.
Qed.

Lemma step_vi_unlocked cfg s it s' (I : SvInv cfg s) (Hok : sitem_ok s it) (Hv : vsr cfg s it s') :
  ∀ tid t n k, v_thr s' !! tid = Some t → st_op t = SUnlock n k → st_pc t = VSessRemove ∨ st_pc t = VFin (SResp true None) →
      v_mgrshut s' = false → ¬ slive s' n k ∨ expiry_pending s' n k.
Proof.
  intros x t' n k Ql Qo Qp Qm. pose proof (vsr_mgrshut_mono _ _ _ _ Hv Qm) as Hms.
  destruct (vsr_thr_bwd _ _ _ _ _ _ I Hv Ql) as [(y & Hy & Ho & _)|[Hn N]].
  2:{ exfalso. destruct N as [(op & -> & -> & Hc)|(_ & Hp & _)]; [simpl in *; subst op; destruct Qp; done|].
      rewrite Qo in Hp. simpl in Hp. destruct Qp; congruence. }
  rewrite Qo in Ho. symmetry in Ho.
  destruct (decide (st_pc y = VSessRemove ∨ st_pc y = VFin (SResp true None))) as [Hin|Hout].
  - destruct (vi_unlocked _ _ I _ _ _ _ Hy Ho Hin Hms) as [Hnl|Hpe].
    + left. eapply unlock_key_not_live_fwd; eauto.
    + eapply pending_fwd; eauto.
  - destruct (vsr_thr_pc_fwd _ _ _ _ _ _ I Hv Hy) as (y' & Hy' & _ & Hpp). simplify_eq.
    destruct Hpp as [Hpp|[->|[_ Hpp]]]; [rewrite Hpp in Qp; tauto| |destruct Qp; congruence].
    inversion Hv; subst; unfold st_go in *; simpl in *; simplify_eq; try tauto; try (rewrite lookup_insert in Ql; simplify_eq; simpl in * ).
    all: try (exfalso; destruct Qp; congruence).
    all: try (exfalso; try site_inv; subst; try destruct (lt_pos _); ds_next_cases; try destruct (sc_noclear _); destruct Qp; simpl in *; congruence).
    all: try (exfalso; destruct Hop; congruence).
    all: try (exfalso; destruct Hsite; first [congruence | tauto]).
    + (* the manager released the hold *)
      left. destruct Hsite as [Hoy Hpy _| | |]; try congruence. rewrite Ho in Hoy. simplify_eq.
      destruct (vsr_run_rel _ _ _ _ _ _ _ _ I Hv Hy (rs_unlock _ _ _ _ Ho Hpy Hms)) as [Heq|?]; [|done].
      exfalso. apply (f_equal (λ st, v_thr st !! x)) in Heq. simpl in Heq. rewrite lookup_insert, Hy in Heq. simplify_eq.
      apply (f_equal st_pc) in Heq. simpl in Heq. congruence.
    + left. destruct Hsite as [Hoy Hpy _| | |]; try congruence. rewrite Ho in Hoy. simplify_eq.
      destruct (vsr_run_rel _ _ _ _ _ _ _ _ I Hv Hy (rs_unlock _ _ _ _ Ho Hpy Hms)) as [Heq|?]; [|done].
      exfalso. apply (f_equal (λ st, v_thr st !! x)) in Heq. simpl in Heq. rewrite lookup_insert, Hy in Heq. simplify_eq.
      apply (f_equal st_pc) in Heq. simpl in Heq. congruence.
    + (* the lease timer had already fired: its callback is pending, or has already released the hold *)
      destruct Hsite as [n1 k1 Hoy Hpy| |]; try congruence. rewrite Ho in Hoy. simplify_eq.
      destruct (vi_tm_entry _ _ I _ _ Hid) as (tm1 & Htm1 & Hkey & _). simplify_eq. apply tkey_inj in Hkey as [-> ->].
      destruct (proj1 (vi_tm_fired _ _ I _ _ Htm) Hst) as (e & te & He & Hoe).
      assert (e ≠ x) as Hne by (intros ->; simplify_eq; congruence).
      destruct (vi_expired _ _ I _ _ _ _ He Hoe Htm Hms) as [Hpe|Hnl]; [right|left; exact Hnl].
      exists e, te, id, tm. simpl. rewrite lookup_insert_ne by done. done.
Qed.
