(** C06, no-clear-on-disconnect: a session end touches no hold and no lease (corrected statement [T_C06_noclear']). *)
From Coq Require Import Lia ZifyBool ZifyNat.
From Ldlm Require Import Model.Base Model.Err Model.Sv Proofs.SvDefs Proofs.SvSessBase Proofs.SvSessThr.
From RecordUpdate Require Import RecordSet.
Import RecordSetNotations.
Local Open Scope Z_scope.

(** [T_C06_noclear] of SvDefs.v is false as stated:
    (1) it has no reachability premise, and a thread [SConnEnd] at pc [VDsTmRemove (c :: _)] / [VDsUnlock c _] changes
        [v_timers] / [v_locks] whatever [sc_noclear] says (those pcs are unreachable under no-clear: [nc_pcs] below);
    (2) on a REACHABLE state the step at pc [VDsDestroy] deletes entries of the ending session that were written between
        the "session holds nothing" check (VDsNoClear) and the deletion: theorem [C06_noclear_refuted] in SvSessWit.v,
        schedule
          cfg = SvCfg true true;
          [VConnect A; VCall 1 (STry A n k 1 None); VRun 1; VConnEnd A; VRun 1000; VRun 1000; VRun 1; VRun 1000]
        (grant; connection ends; DestroySession: flag, check (nothing listed); the grant's AddLock; DestroySession's
        sessionMgr.DestroySession deletes the session with the new entry: the hold stays live, unlisted and absent from the
        state file). Not an instance of F-LEAK: the entry is written BEFORE the destroy.
    The corrected statement: reachable states; locks, timers and timer heap are never touched; entries of other sessions are
    never touched; entries of the ending session survive every step except the one at pc VDsDestroy. *)
Definition T_C06_noclear' : Prop := ∀ cfg s tid t sid,
  vreach cfg s → sc_noclear cfg = true → v_thr s !! tid = Some t → st_op t = SConnEnd sid →
  let s' := vstep cfg s (VRun tid) in
  v_locks s' = v_locks s ∧ v_timers s' = v_timers s ∧ v_theap s' = v_theap s ∧
  (∀ sid' c, entry_of s sid' c → (sid' = sid ∧ st_pc t = VDsDestroy) ∨ entry_of s' sid' c).

(** under no-clear the unlocking loop of DestroySession is never entered *)
Definition nc_pc (pc : spc) : Prop := match pc with VDsTmRemove _ | VDsUnlock _ _ => False | _ => True end.

Lemma nc_pc_closed cfg p p' : sc_noclear cfg = true → nc_pc p → pc_edge cfg p p' → nc_pc p'.
Proof.
  intros Hnc Hp He. destruct p; simpl in *; rewrite ?Hnc in He; try done;
    repeat match goal with H : _ ∨ _ |- _ => destruct H | H : ∃ _, _ |- _ => destruct H | H : _ ∧ _ |- _ => destruct H end; subst; done.
Qed.

Lemma nc_pcs cfg s : T_svinv_reach → vreach cfg s → sc_noclear cfg = true →
  ∀ tid t, v_thr s !! tid = Some t → nc_pc (st_pc t).
Proof.
  intros Hinv Hr Hnc. induction Hr as [|s it Hr IH Hok]; [intros tid t; simpl; by rewrite lookup_empty|].
  intros tid t Ht. pose proof (vstep_thr cfg s it (Hinv _ _ Hr) tid) as Hrel. rewrite Ht in Hrel.
  destruct (v_thr s !! tid) as [t0|] eqn:Ht0; simpl in Hrel.
  - destruct Hrel as [_ Hle]. eapply (pc_le_closed cfg nc_pc); [intros p p'; by apply nc_pc_closed|by eapply IH|exact Hle].
  - eapply (pc_le_closed cfg nc_pc); [intros p p'; by apply nc_pc_closed| |exact Hrel]. by destruct (st_op t).
Qed.

(** the two steps a repair of the no-clear race would merge: the check and the deletion *)
Lemma noclear_check_step cfg s tid cn sid :
  v_thr s !! tid = Some (SThread (SConnEnd sid) VDsNoClear cn) →
  let s' := vrun_thread cfg tid (SThread (SConnEnd sid) VDsNoClear cn) s in
  v_locks s' = v_locks s ∧ v_timers s' = v_timers s ∧ v_theap s' = v_theap s ∧ v_sess s' = v_sess s.
Proof. intros Ht. unfold vrun_thread; cbn [st_pc st_op st_cancel]. case_match; by autorewrite with svframe. Qed.

Lemma noclear_destroy_step cfg s tid cn sid : sc_noclear cfg = true →
  v_thr s !! tid = Some (SThread (SConnEnd sid) VDsDestroy cn) →
  let s' := vrun_thread cfg tid (SThread (SConnEnd sid) VDsDestroy cn) s in
  v_locks s' = v_locks s ∧ v_timers s' = v_timers s ∧ v_theap s' = v_theap s ∧
  (∀ sid', sid' ≠ sid → v_sess s' !! sid' = v_sess s !! sid').
Proof.
  intros Hnc Ht. unfold vrun_thread; cbn [st_pc st_op st_cancel]. rewrite Hnc. destruct (sess_destroy cfg tid sid s) as [s1 l] eqn:Hd. pair_norm.
  autorewrite with svframe. split_and!; try done.
  intros sid' Hne. unfold sess_destroy. case_match; simpl; [|done]. rewrite vsave_v_sess. simpl. by rewrite lookup_delete_ne.
Qed.

Theorem C06_noclear'_from_inv : T_svinv_reach → T_C06_noclear'.
Proof.
  intros Hinv cfg s tid t sid Hr Hnc Ht Hop s'. subst s'.
  pose proof (nc_pcs cfg s Hinv Hr Hnc tid t Ht) as Hpc.
  unfold vstep. rewrite (vi_not_crashed _ _ (Hinv _ _ Hr)), Ht.
  destruct t as [op pc cn]. simpl in Hop, Hpc. subst op.
  destruct pc; try done; try (split_and!; [done..|by right]).
  - (* VDsFlag *) unfold vrun_thread; cbn [st_pc st_op st_cancel]. repeat case_match; autorewrite with svframe; (split_and!; [done..|]); intros sid' c He; right;
      unfold entry_of in *; by autorewrite with svframe.
  - (* VDsNoClear *) destruct (noclear_check_step cfg s tid cn sid Ht) as (H1 & H2 & H3 & H4). split_and!; [done..|].
    intros sid' c He. right. unfold entry_of in *. by rewrite H4.
  - (* VDsDestroy *) destruct (noclear_destroy_step cfg s tid cn sid Hnc Ht) as (H1 & H2 & H3 & H4). split_and!; [done..|].
    intros sid' c He. destruct (decide (sid' = sid)) as [->|Hne]; [by left|]. right. unfold entry_of in *. by rewrite H4.
Qed.
