(** C06, no-clear-on-disconnect: a session end touches no hold, no lease and no session entry that lists a hold
    ([T_C06_noclear], full strength, over reachable states). Work package svsess / svfix.

    History: with DestroySession's "session holds nothing" check (pc VDsNoClear) and the deletion (pc VDsDestroy) in two
    critical sections, an AddLock between them was deleted with the session (finding F-NOCLEAR-RACE, witness
    [C06_noclear_refuted] of the earlier model). The code was repaired (sessionMgr.DestroySessionIfEmpty: check and delete
    in ONE critical section) and the model follows it: the step at VDsNoClear deletes the session entry only if it is
    empty, and under no-clear DestroySession has no other step ([vi_ds_noclear]). The old schedule is replayed in
    SvSessWit.v ([C06_noclear_race_closed]): the entry stays listed. *)
From Coq Require Import Lia ZifyBool ZifyNat.
From Ldlm Require Import Model.Base Model.Err Model.Sv Proofs.SvDefs Proofs.SvSessBase Proofs.SvSessThr.
From RecordUpdate Require Import RecordSet.
Import RecordSetNotations.
Local Open Scope Z_scope.

(** the atomic check-and-delete *)
Lemma noclear_check_step cfg s tid cn sid :
  v_thr s !! tid = Some (SThread (SConnEnd sid) VDsNoClear cn) →
  let s' := vrun_thread cfg tid (SThread (SConnEnd sid) VDsNoClear cn) s in
  v_locks s' = v_locks s ∧ v_timers s' = v_timers s ∧ v_theap s' = v_theap s ∧
  (v_sess s' = v_sess s ∨ (v_sess s !! sid = Some [] ∧ v_sess s' = delete sid (v_sess s))).
Proof.
  intros Ht. unfold vrun_thread; cbn [st_pc st_op st_cancel].
  destruct (v_sess s !! sid) as [[|c l]|] eqn:Hs; try (autorewrite with svframe; split_and!; [done..|by left]).
  unfold sess_destroy. rewrite Hs. cbn [fst]. autorewrite with svframe. split_and!; [done..|]. right. split; [done|]. first [done|by rewrite vsave_v_sess].
Qed.

Theorem C06_noclear_from_inv : T_svinv_reach → T_C06_noclear.
Proof.
  intros Hinv cfg s tid t sid Hr Hnc Ht Hop s'. subst s'.
  pose proof (Hinv _ _ Hr) as HI.
  pose proof (vi_ds_noclear _ _ HI _ _ _ Ht Hop) as Hpc. rewrite Hnc in Hpc.
  unfold vstep. rewrite (vi_not_crashed _ _ HI), Ht.
  destruct t as [op pc cn]. simpl in Hop, Hpc. subst op.
  assert (Hsame : ∀ s', v_sess s' = v_sess s →
     (∀ sid' c, entry_of s sid' c → entry_of s' sid' c) ∧ (∀ sid' l, v_sess s !! sid' = Some l → l ≠ [] → v_sess s' !! sid' = Some l)).
  { intros s' E. unfold entry_of. rewrite E. done. }
  destruct Hpc as [->|[->| ->]].
  - (* VDsFlag *) unfold vrun_thread; cbn [st_pc st_op st_cancel]. rewrite Hnc.
    case_match; (split_and!; [by autorewrite with svframe..| |]); apply Hsame; by autorewrite with svframe.
  - (* VDsNoClear *) destruct (noclear_check_step cfg s tid cn sid Ht) as (H1 & H2 & H3 & [H4|[H4 H5]]).
    { split_and!; [done..| |]; by apply Hsame. }
    split_and!; [done..| |].
    + intros sid' c (l & Hl & Hc). exists l. split; [|done]. rewrite H5. rewrite lookup_delete_ne; [done|].
      intros <-. rewrite H4 in Hl. simplify_eq. by apply elem_of_nil in Hc.
    + intros sid' l Hl Hne. rewrite H5. rewrite lookup_delete_ne; [done|]. intros <-. rewrite H4 in Hl. by simplify_eq.
  - (* VEnd *) unfold vrun_thread; cbn [st_pc st_op st_cancel]. split_and!; [done..| |]; by apply Hsame.
Qed.
