(** * Msv's lock component IS the atomic counting lock that Mlk refines (work package svspec)

    Msv (Model/Sv.v) treats every lock-manager call as one atomic step on [v_locks : gmap str alock]. The justification
    is "a linearisable object may be replaced by its atomic specification". That sentence has three parts:

    MECHANISED
      (a) Mlk ⊑ spec: the lock package, at the granularity of its critical sections, refines the atomic counting lock
          [spec_step] (Model/Lk.v) under every interleaving, with response agreement —
          Proofs/LkLin.v [C02_refines_from_inv], closed with Proofs/LkInv.v [linv_reach].
      (b) Msv's lock component = spec (THIS FILE): under the record isomorphism [abs_lock : alock → sobj], EVERY step
          of Msv ([vstep cfg s it], any state, any item — no invariant and no [sitem_ok] is needed) changes the lock
          table by exactly the run of specification actions [sv_acts s it] with [strict = false]
          ([sv_lock_steps_are_spec_actions_explicit], [sv_lock_steps_are_spec_actions]); hence the lock table of every
          reachable Msv state is a state of the specification reached from the empty table
          ([sv_locks_reachable_in_spec]). The actions are those Mlk emits on the same paths: LaErr for the failing
          calls, LaCreate on first use, LaTryOk / LaTryBusy / LaEnq, LaLeave for a parked call whose context ended,
          LaGiveBack (+ LaGrant) for a call handed a unit after its context ended (F-LIN2; this is why [strict] is
          false), LaUnlOk (+ LaGrant: [hand_over]'s condition is literally [LaGrant]'s precondition) / LaUnlBad.
          Msv never emits LaGc (lock objects are not collected in Msv; GC is invisible to clients: C13).
          Under the invariant [SvInv] the two defensive branches (a parked thread that is not in the queue, a woken
          thread whose key is not live) do not occur: [sv_acts_wait_exact], [sv_acts_woken_exact].

    NOT MECHANISED
      (c) the general fact that a client of a linearisable object cannot distinguish it (for safety properties) from
          its atomic specification (Herlihy & Wing 1990; Filipović, O'Hearn, Rinetzky, Yang 2010: linearisability =
          observational refinement). It is this fact that lets the theorems about Msv speak about the real lock
          package; (a) and (b) are its two premises. The composition stays an argument (DESIGN.md §11.1). *)
From Coq Require Import Lia ZifyBool ZifyNat.
From Ldlm Require Import Model.Base Model.Err Model.Lk Proofs.LkDefs Proofs.LkLinBase.
From Ldlm Require Import Model.Sv Proofs.SvDefs Proofs.SvSessBase.
From RecordUpdate Require Import RecordSet.
Import RecordSetNotations.
Local Open Scope Z_scope.

(** ** the abstraction: a record isomorphism *)
Definition abs_lock (a : alock) : sobj := SObj (al_size a) (al_live a) (al_q a).
Definition abs_locks (m : gmap str alock) : gmap str sobj := abs_lock <$> m.

Lemma abs_locks_lookup m n : abs_locks m !! n = abs_lock <$> (m !! n).
Proof. apply lookup_fmap. Qed.
Lemma abs_locks_insert m n a : abs_locks (<[n := a]> m) = <[n := abs_lock a]> (abs_locks m).
Proof. apply fmap_insert. Qed.
Lemma abs_locks_empty : abs_locks ∅ = ∅.
Proof. apply fmap_empty. Qed.
Lemma so_free_abs a : so_free (abs_lock a) = al_free a.
Proof. reflexivity. Qed.

(** Model/Lk.v and Model/Seq.v each define [remove_first]; they are the same function *)
Lemma remove_first_same k l : Seq.remove_first k l = Lk.remove_first k l.
Proof. induction l as [|x l IH]; simpl; [done|]. by rewrite IH. Qed.
Lemma remove_first_notin k l : k ∉ l → Seq.remove_first k l = l.
Proof.
  induction l as [|x l IH]; simpl; [done|]. rewrite not_elem_of_cons. intros [Hne Hl].
  case_bool_decide; [congruence|]. by rewrite IH.
Qed.
Lemma filter_ne_notin (tid : nat) (q : list nat) : tid ∉ q → filter (λ w, w ≠ tid) q = q.
Proof.
  induction q as [|x q IH]; [done|]. rewrite not_elem_of_cons. intros [Hne Hq].
  rewrite filter_cons. destruct (decide (x ≠ tid)) as [_|H]; [by rewrite IH|]. exfalso. apply H. congruence.
Qed.

(** ** the specification actions of one Msv step *)
Definition create_acts (m : gmap str alock) (n : str) (z : Z) : list linact :=
  match m !! n with None => [LaCreate n z] | Some _ => [] end.

(** [hand_over name s]: the head of the queue is granted the unit iff one is free *)
Definition grant_acts (name : str) (s : svstate) : list linact :=
  match ho_grant name s with Some (_, w, _) => [LaGrant w name (key_of_thr s w)] | None => [] end.

Definition unl_state (n k : str) (a : alock) (s : svstate) : svstate :=
  s <| v_locks := <[n := a <| al_live := Seq.remove_first k (al_live a) |>]> (v_locks s) |>.

Definition unlock_acts (tid : nat) (n k : str) (s : svstate) : list linact :=
  if v_mgrshut s then [LaErr tid ELockManagerShutdown] else
  match v_locks s !! n with
  | None => [LaErr tid ELockDoesNotExist]
  | Some a => if bool_decide (k ∈ al_live a) then LaUnlOk tid n k :: grant_acts n (unl_state n k a s) else [LaUnlBad tid n k]
  end.

Definition run_acts (tid : nat) (t : sthread) (s : svstate) : list linact :=
  match st_pc t, st_op t with
  | VMgrTry, STry sid n k z lt =>
      if v_mgrshut s then [LaErr tid ELockManagerShutdown] else
      if z <=? 0 then [LaErr tid ELockInvalidLockSize] else
      let a := default (ALock z [] []) (v_locks s !! n) in
      if negb (bool_decide (al_size a = z)) then [LaErr tid ELockSizeMismatch] else
      create_acts (v_locks s) n z ++ [if al_free a then LaTryOk tid n k else LaTryBusy tid n]
  | VMgrLock, SLock sid n k z lt =>
      if v_mgrshut s then [LaErr tid ELockManagerShutdown] else
      if z <=? 0 then [LaErr tid ELockInvalidLockSize] else
      let a := default (ALock z [] []) (v_locks s !! n) in
      if negb (bool_decide (al_size a = z)) then [LaErr tid ELockSizeMismatch] else
      create_acts (v_locks s) n z ++
      match st_cancel t with
      | Some e => [LaErr tid e]
      | None => [if al_free a then LaTryOk tid n k else LaEnq tid n]
      end
  | VWait, SLock sid n k z lt =>
      match st_cancel t, v_locks s !! n with
      | Some e, Some a => if bool_decide (tid ∈ al_q a) then [LaLeave tid n e] else []
      | _, _ => []
      end
  | VWoken, SLock sid n k z lt =>
      match st_cancel t, v_locks s !! n with
      | Some e, Some a =>
          (if bool_decide (k ∈ al_live a) then [LaGiveBack tid n k e] else []) ++ grant_acts n (unl_state n k a s)
      | _, _ => []
      end
  | VMgrUnlock, SUnlock n k => unlock_acts tid n k s
  | VCbUnlock, SExpire id =>
      match v_theap s !! id with Some tm => unlock_acts tid (tm_n tm) (tm_k tm) s | None => [] end
  | VDsUnlock c rest, SConnEnd sid => unlock_acts tid (cl_name c) (cl_key c) s
  | _, _ => []
  end.

Definition sv_acts (s : svstate) (it : sitem) : list linact :=
  if v_crashed s then [] else
  match it with
  | VRun tid => match v_thr s !! tid with Some t => run_acts tid t s | None => [] end
  | _ => []
  end.

(** ** the pieces *)
Lemma create_spec m n z a : 0 < z → a = default (ALock z [] []) (m !! n) →
  spec_run false (abs_locks m) (create_acts m n z) = Some (abs_locks (<[n := a]> m)).
Proof.
  intros Hz ->. unfold create_acts. destruct (m !! n) as [a|] eqn:E; simpl.
  - by rewrite insert_id.
  - rewrite abs_locks_lookup, E. simpl. destruct (0 <? z) eqn:Hz'; [|lia]. by rewrite abs_locks_insert.
Qed.

Lemma hand_over_spec name s :
  spec_run false (abs_locks (v_locks s)) (grant_acts name s) = Some (abs_locks (v_locks (hand_over name s))).
Proof.
  rewrite hand_over_eq. unfold grant_acts, ho_grant.
  destruct (v_locks s !! name) as [a|] eqn:E; [|done].
  destruct (al_q a) as [|w q'] eqn:Hq; [done|].
  destruct (Z.of_nat (length (al_live a)) <? al_size a) eqn:Hc; [|done].
  rewrite vemit_v_locks, vset_pc_v_locks.
  simpl. rewrite abs_locks_lookup, E. simpl. rewrite Hq, Hc. rewrite bool_decide_eq_true_2 by done. simpl.
  by rewrite abs_locks_insert.
Qed.

Lemma insert_same_alock (n : str) (a a' : alock) (m : gmap str alock) : m !! n = Some a → a' = a → <[n := a']> m = m.
Proof. intros H ->. by apply insert_id. Qed.

Lemma mgr_unlock_spec tid n k s :
  spec_run false (abs_locks (v_locks s)) (unlock_acts tid n k s) = Some (abs_locks (v_locks (mgr_unlock tid n k s).1)).
Proof.
  unfold mgr_unlock, unlock_acts. destruct (v_mgrshut s); [done|].
  destruct (v_locks s !! n) as [a|] eqn:E; [|done].
  case_bool_decide as Hk; simpl.
  - rewrite abs_locks_lookup, E. simpl. rewrite bool_decide_eq_true_2 by done.
    rewrite <- hand_over_spec. unfold unl_state. simpl. rewrite abs_locks_insert. unfold abs_lock. simpl.
    reflexivity.
  - rewrite abs_locks_lookup, E. simpl. by rewrite bool_decide_eq_false_2 by done.
Qed.

Lemma try_ok_spec tid n k a m : m !! n = Some a → al_free a = true →
  spec_step false (abs_locks m) (LaTryOk tid n k) = Some (abs_locks (<[n := a <| al_live := al_live a ++ [k] |>]> m)).
Proof. intros E Hf. simpl. rewrite abs_locks_lookup, E. simpl. rewrite so_free_abs, Hf. by rewrite abs_locks_insert. Qed.

Lemma enq_spec tid n a m : m !! n = Some a → al_free a = false →
  spec_step false (abs_locks m) (LaEnq tid n) = Some (abs_locks (<[n := a <| al_q := al_q a ++ [tid] |>]> m)).
Proof. intros E Hf. simpl. rewrite abs_locks_lookup, E. simpl. rewrite so_free_abs, Hf. by rewrite abs_locks_insert. Qed.

Lemma busy_spec tid n a m : m !! n = Some a → al_free a = false →
  spec_step false (abs_locks m) (LaTryBusy tid n) = Some (abs_locks m).
Proof. intros E Hf. simpl. rewrite abs_locks_lookup, E. simpl. by rewrite so_free_abs, Hf. Qed.

Lemma spec_run_one b sp a : spec_run b sp [a] = spec_step b sp a.
Proof. simpl. by destruct (spec_step b sp a). Qed.

(** acquire paths share their prefix: the object is created on first use *)
Lemma acquire_prefix m n z a rest m' : 0 < z → a = default (ALock z [] []) (m !! n) →
  spec_run false (abs_locks (<[n := a]> m)) rest = Some m' →
  spec_run false (abs_locks m) (create_acts m n z ++ rest) = Some m'.
Proof. intros Hz Ha Hr. rewrite spec_run_app, (create_spec m n z a Hz Ha). exact Hr. Qed.

Lemma run_thread_spec cfg tid t s :
  spec_run false (abs_locks (v_locks s)) (run_acts tid t s) = Some (abs_locks (v_locks (vrun_thread cfg tid t s))).
Proof.
  unfold run_acts, vrun_thread.
  destruct (st_pc t) eqn:Hpc; destruct (st_op t) as [sid n k z lt|sid n k z lt|n k|n k lt|id|sid|] eqn:Hop;
    try reflexivity.
  - (* VMgrTry *)
    destruct (v_mgrshut s); [by rewrite vfinish_v_locks|].
    destruct (z <=? 0) eqn:Hz; [by rewrite vfinish_v_locks|].
    set (a := default (ALock z [] []) (v_locks s !! n)).
    destruct (negb (bool_decide (al_size a = z))); [by rewrite vfinish_v_locks|].
    apply (acquire_prefix _ _ _ a); [lia|done|].
    assert (<[n := a]> (v_locks s) !! n = Some a) as E by apply lookup_insert.
    destruct (al_free a) eqn:Hf; rewrite spec_run_one.
    + rewrite (try_ok_spec _ _ _ a _ E Hf). rewrite insert_insert.
      by rewrite vset_pc_v_locks, vemit_v_locks.
    + rewrite (busy_spec _ _ a _ E Hf). by rewrite vfinish_v_locks.
  - (* VMgrLock *)
    destruct (v_mgrshut s); [by rewrite vfinish_v_locks|].
    destruct (z <=? 0) eqn:Hz; [by rewrite vfinish_v_locks|].
    set (a := default (ALock z [] []) (v_locks s !! n)).
    destruct (negb (bool_decide (al_size a = z))); [by rewrite vfinish_v_locks|].
    apply (acquire_prefix _ _ _ a); [lia|done|].
    assert (<[n := a]> (v_locks s) !! n = Some a) as E by apply lookup_insert.
    destruct (st_cancel t) as [e|]; [by rewrite vfinish_v_locks|].
    destruct (al_free a) eqn:Hf; rewrite spec_run_one.
    + rewrite (try_ok_spec _ _ _ a _ E Hf). rewrite insert_insert.
      by rewrite vset_pc_v_locks, vemit_v_locks.
    + rewrite (enq_spec _ _ a _ E Hf). rewrite insert_insert. by rewrite vset_pc_v_locks.
  - (* VWait *)
    destruct (st_cancel t) as [e|]; [|done]. destruct (v_locks s !! n) as [a|] eqn:E; [|done].
    rewrite vfinish_v_locks. simpl v_locks. case_bool_decide as Hin; simpl.
    + rewrite abs_locks_lookup, E. simpl. rewrite bool_decide_eq_true_2 by done. by rewrite abs_locks_insert.
    + f_equal. f_equal. symmetry. apply (insert_same_alock _ a); [done|].
      rewrite (filter_ne_notin _ _ Hin). by destruct a.
  - (* VWoken *)
    destruct (st_cancel t) as [e|]; [|by rewrite vset_pc_v_locks]. destruct (v_locks s !! n) as [a|] eqn:E; [|by rewrite vset_pc_v_locks].
    rewrite vfinish_v_locks. rewrite spec_run_app.
    change (hand_over n (vemit (SvReleased tid n k) (s <| v_locks := <[n := a <| al_live := Seq.remove_first k (al_live a) |>]> (v_locks s) |>)))
      with (hand_over n (vemit (SvReleased tid n k) (unl_state n k a s))).
    assert (spec_run false (abs_locks (v_locks s)) (if bool_decide (k ∈ al_live a) then [LaGiveBack tid n k e] else [])
            = Some (abs_locks (v_locks (unl_state n k a s)))) as ->.
    { unfold unl_state. simpl v_locks. case_bool_decide as Hin; simpl.
      - rewrite abs_locks_lookup, E. simpl. rewrite bool_decide_eq_true_2 by done. rewrite abs_locks_insert. reflexivity.
      - f_equal. f_equal. symmetry. apply (insert_same_alock _ a); [done|].
        rewrite (remove_first_notin _ _ Hin). by destruct a. }
    rewrite <- hand_over_spec. reflexivity.
  - (* VSessAdd, STry *) by destruct (lt_pos lt); rewrite ?vset_pc_v_locks, ?vfinish_v_locks, sess_add_v_locks.
  - (* VSessAdd, SLock *) by destruct (lt_pos lt); rewrite ?vset_pc_v_locks, ?vfinish_v_locks, sess_add_v_locks.
  - (* VTmAdd, STry *) by rewrite vfinish_v_locks, tm_add_v_locks.
  - (* VTmAdd, SLock *) by rewrite vfinish_v_locks, tm_add_v_locks.
  - (* VTmRemove *)
    pose proof (tm_remove_v_locks (tkey n k) s) as H. destruct (tm_remove (tkey n k) s) as [s1 stopped]. simpl in H.
    by destruct stopped; rewrite vset_pc_v_locks, H.
  - (* VMgrUnlock *)
    pose proof (mgr_unlock_spec tid n k s) as H. destruct (mgr_unlock tid n k s) as [s1 r]. simpl in H.
    rewrite H. by destruct (sr_ok r); rewrite ?vset_pc_v_locks, ?vfinish_v_locks.
  - (* VSessRemove *) by rewrite vfinish_v_locks, sess_remove_v_locks.
  - (* VTmReset *)
    pose proof (tm_reset_v_locks (tkey n k) (lt * second) s) as H. destruct (tm_reset (tkey n k) (lt * second) s) as [s1 r].
    simpl in H. by rewrite vfinish_v_locks, H.
  - (* VCbUnlock *)
    destruct (v_theap s !! id) as [tm|]; [|done]. by rewrite vset_pc_v_locks, mgr_unlock_spec.
  - (* VCbSessRemove *) destruct (v_theap s !! id) as [tm|]; [|done]. by rewrite vset_pc_v_locks, sess_remove_v_locks.
  - (* VCbTmRemove *) destruct (v_theap s !! id) as [tm|]; [|done]. by rewrite vset_pc_v_locks, tm_remove_v_locks.
  - (* VDsFlag *) by destruct (v_shut s); rewrite vset_pc_v_locks.
  - (* VDsNoClear *)
    destruct (v_sess s !! sid) as [[|c l]|]; rewrite vset_pc_v_locks; [|done..]. by rewrite sess_destroy_v_locks.
  - (* VDsDestroy *)
    pose proof (sess_destroy_v_locks cfg tid sid s) as H. destruct (sess_destroy cfg tid sid s) as [s1 locks]. simpl in H.
    by rewrite vset_pc_v_locks, H.
  - (* VDsTmRemove *)
    destruct todo as [|c rest]; [by rewrite vset_pc_v_locks|].
    pose proof (tm_remove_v_locks (tkey (cl_name c) (cl_key c)) s) as H.
    destruct (tm_remove (tkey (cl_name c) (cl_key c)) s) as [s1 stopped]. simpl in H.
    by destruct stopped; rewrite vset_pc_v_locks, H.
  - (* VDsUnlock *) by rewrite vset_pc_v_locks, mgr_unlock_spec.
  - (* VShFlag *) by rewrite vset_pc_v_locks.
  - (* VShNet *)
    rewrite vset_pc_v_locks. simpl spec_run. f_equal. f_equal. symmetry.
    match goal with |- v_locks (fold_left ?f ?l ?s0) = _ =>
      apply (fold_left_inv (λ s', v_locks s' = v_locks s) f l s0); [done|] end.
    intros s' sid' H' _. by rewrite vemit_v_locks, spawn_v_locks.
  - (* VShTimers *) by rewrite vset_pc_v_locks.
  - (* VShMgr *) by case_match; rewrite ?vset_pc_v_locks.
Qed.

Lemma fire_due_locks s : v_locks (fire_due s) = v_locks s.
Proof.
  unfold fire_due. apply (fold_left_inv (λ s', v_locks s' = v_locks s)); [done|].
  intros s' [id tm] H' _. repeat case_match; rewrite ?vemit_v_locks, ?spawn_v_locks; done.
Qed.

(** ** every step of Msv acts on the lock table by specification actions *)
Theorem sv_lock_steps_are_spec_actions_explicit cfg s it :
  spec_run false (abs_locks (v_locks s)) (sv_acts s it) = Some (abs_locks (v_locks (vstep cfg s it))).
Proof.
  unfold sv_acts, vstep. destruct (v_crashed s); [done|].
  destruct it as [tid op|tid|tid cause|sid|sid|dt|].
  - repeat case_match; rewrite ?vemit_v_locks; done.
  - destruct (v_thr s !! tid) as [t|]; [|done]. apply run_thread_spec.
  - repeat case_match; done.
  - rewrite vemit_v_locks. by case_match.
  - by rewrite vemit_v_locks, spawn_v_locks.
  - by rewrite fire_due_locks.
  - by rewrite vemit_v_locks, spawn_v_locks.
Qed.

(** the statement asked for; no side condition is needed (it holds for every state and every item) *)
Theorem sv_lock_steps_are_spec_actions cfg s it :
  ∃ acts : list linact, spec_run false (abs_locks (v_locks s)) acts = Some (abs_locks (v_locks (vstep cfg s it))).
Proof. exists (sv_acts s it). apply sv_lock_steps_are_spec_actions_explicit. Qed.

(** Msv never collects a lock object *)
Lemma sv_acts_no_gc s it n : LaGc n ∉ sv_acts s it.
Proof.
  unfold sv_acts, run_acts, unlock_acts, grant_acts, create_acts.
  repeat case_match; rewrite ?elem_of_app, ?elem_of_cons, ?elem_of_nil; naive_solver.
Qed.

(** ** over runs *)
Definition sv_run_acts (cfg : svcfg) (sch : list sitem) : list linact :=
  (fix go (s : svstate) (l : list sitem) : list linact :=
     match l with [] => [] | it :: l' => sv_acts s it ++ go (vstep cfg s it) l' end) sv_init sch.

Lemma sv_run_spec_from cfg s sch :
  spec_run false (abs_locks (v_locks s))
    ((fix go (s : svstate) (l : list sitem) : list linact :=
        match l with [] => [] | it :: l' => sv_acts s it ++ go (vstep cfg s it) l' end) s sch)
  = Some (abs_locks (v_locks (fold_left (vstep cfg) sch s))).
Proof.
  revert s. induction sch as [|it sch IH]; intros s; [done|].
  rewrite spec_run_app, (sv_lock_steps_are_spec_actions_explicit cfg). apply IH.
Qed.

(** every schedule whatsoever: the linearisation of the run is computed by [sv_run_acts] *)
Theorem sv_run_is_spec_run cfg sch :
  spec_run false ∅ (sv_run_acts cfg sch) = Some (abs_locks (v_locks (vrun cfg sch))).
Proof. rewrite <- abs_locks_empty. apply (sv_run_spec_from cfg sv_init sch). Qed.

(** the lock table of every reachable Msv state is a state of the atomic counting lock that Mlk refines *)
Theorem sv_locks_reachable_in_spec cfg s :
  vreach cfg s → ∃ acts, spec_run false ∅ acts = Some (abs_locks (v_locks s)).
Proof.
  induction 1 as [|s it Hr [acts IH] Hok].
  - exists []. by rewrite <- abs_locks_empty.
  - exists (acts ++ sv_acts s it). rewrite spec_run_app, IH. apply sv_lock_steps_are_spec_actions_explicit.
Qed.

(** ... and only [LaGiveBack] separates it from the strict specification (LkLinBase [spec_step_strict]) *)

(** ** under the invariant the defensive branches are dead *)
Lemma sv_acts_wait_exact cfg s tid t sid n k z lt e :
  SvInv cfg s → v_thr s !! tid = Some t → st_op t = SLock sid n k z lt → st_pc t = VWait → st_cancel t = Some e →
  sv_acts s (VRun tid) = [LaLeave tid n e].
Proof.
  intros I Ht Hop Hpc Hc. unfold sv_acts. rewrite (vi_not_crashed _ _ I), Ht. unfold run_acts. rewrite Hpc, Hop, Hc.
  destruct (vi_wait_lock _ _ I tid t sid n k z lt Ht Hop Hpc) as [a Ha]. rewrite Ha.
  rewrite bool_decide_eq_true_2; [done|]. apply (vi_queue _ _ I n a tid Ha). eauto 10.
Qed.

Lemma sv_acts_woken_exact cfg s tid t sid n k z lt e :
  SvInv cfg s → v_thr s !! tid = Some t → st_op t = SLock sid n k z lt → st_pc t = VWoken → st_cancel t = Some e →
  ∃ a, v_locks s !! n = Some a ∧ k ∈ al_live a ∧
       sv_acts s (VRun tid) = LaGiveBack tid n k e :: grant_acts n (unl_state n k a s).
Proof.
  intros I Ht Hop Hpc Hc.
  destruct (vi_granted_live _ _ I tid t sid n k z) as (a & Ha & Hk); [done|exists lt; by right|by left|].
  exists a. split; [done|]. split; [done|].
  unfold sv_acts. rewrite (vi_not_crashed _ _ I), Ht. unfold run_acts. rewrite Hpc, Hop, Hc, Ha.
  by rewrite bool_decide_eq_true_2.
Qed.

(** ** a concrete run: lock "a" of size 1 is taken by TryLock (thread 0); a Lock call (thread 1) parks, its context ends,
    an Unlock (thread 2) hands the unit to the parked call, which gives it back (F-LIN2). The computed linearisation: *)
Definition xsa : str := [x61]. Definition xsk0 : str := [x6b; x30]. Definition xsk1 : str := [x6b; x31]. Definition xss : str := [x73].
Definition ex_sv_sched : list sitem :=
  [VConnect xss; VCall 0 (STry xss xsa xsk0 1 None); VRun 0; VCall 1 (SLock xss xsa xsk1 1 None); VRun 1;
   VCancel 1 ESrvLockWaitTimeout; VRun 0; VCall 2 (SUnlock xsa xsk0); VRun 2; VRun 2; VRun 1].
Example ex_sv_acts :
  sv_run_acts (SvCfg false false) ex_sv_sched =
  [LaCreate xsa 1; LaTryOk 0 xsa xsk0; LaEnq 1 xsa; LaUnlOk 2 xsa xsk0; LaGrant 1 xsa xsk1; LaGiveBack 1 xsa xsk1 ESrvLockWaitTimeout]
  ∧ map_to_list <$> spec_run false ∅ (sv_run_acts (SvCfg false false) ex_sv_sched) = Some [(xsa, SObj 1 [] [])]
  ∧ spec_run true ∅ (sv_run_acts (SvCfg false false) ex_sv_sched) = None.
Proof. by vm_compute. Qed.

Print Assumptions sv_lock_steps_are_spec_actions_explicit.
Print Assumptions sv_lock_steps_are_spec_actions.
Print Assumptions sv_run_is_spec_run.
Print Assumptions sv_locks_reachable_in_spec.
Print Assumptions sv_acts_wait_exact.
Print Assumptions sv_acts_woken_exact.
