(** Work package svlive: TERMINATION of the shutdown (C11) and of session cleanup (C06) over Msv (Model/Sv.v).

    What was proved before is safety-shaped ([C11_waiters_fail], [C11_no_hang]: somebody is always enabled). Here:

      [weight]                     a termination measure on states: the work the server is still committed to
      [blocked_step_id]            a blocked thread's [VRun] changes nothing
      [effective_step_decreases]   every effective [VRun] (thread not blocked) of a reachable state strictly decreases [weight]
                                   — no exception: the goroutines the network stop starts and the callbacks armed lease timers
                                   can start are pre-paid in [weight]
      [C11_terminates]             from every reachable state in which the closer exists, round-robin over the threads present
                                   (recomputed every round, so goroutines started on the way join in) reaches, within
                                   [weight s] rounds, a state where every client call has answered, every goroutine of the
                                   server has ended and the closer is at its end — no [VTick], [VCall], [VConnect], [VCancel],
                                   [VConnEnd] needed; both disconnect policies ([cfg] arbitrary)
      [C06_session_end_terminates] a DestroySession goroutine run ALONE reaches its end within [ds_bound] of its own steps
      [step_weight_bound]          the other schedule items: [VTick], [VCancel], [VConnEnd] do not increase [weight]; the only items
                                   that add work are a new call (at most 9), a new connection (3) and the signal (4)
      [C11_terminates_example]     non-vacuity: a parked Lock, a leased hold, a ConnEnd in progress, the closer just started *)
From Coq Require Import Lia ZifyBool ZifyNat.
From Ldlm Require Import Model.Base Model.Err Model.Sv Proofs.SvDefs Proofs.SvInvBase Proofs.SvFileFrames Proofs.SvFileBase
  Proofs.SvFileStep Proofs.SvFileStep2 Proofs.SvFileRun.
From Ldlm Require Proofs.SvFile Proofs.SvAll.
From RecordUpdate Require Import RecordSet.
Import RecordSetNotations.
Local Open Scope nat_scope.

(** ** sums over finite maps *)
Lemma sumw_perm {B} (g : B → nat) l l' : l ≡ₚ l' → sum_list_with g l = sum_list_with g l'.
Proof. induction 1; simpl; lia. Qed.
Lemma sumw_fmap {B C} (g : C → nat) (h : B → C) l : sum_list_with g (h <$> l) = sum_list_with (g ∘ h) l.
Proof. induction l as [|x l IH]; csimpl; [done|]. by rewrite IH. Qed.
Lemma sumw_le {B} (g g' : B → nat) l : (∀ x, x ∈ l → g x ≤ g' x) → sum_list_with g l ≤ sum_list_with g' l.
Proof.
  induction l as [|x l IH]; simpl; intros Hl; [done|].
  pose proof (Hl x (elem_of_list_here _ _)). pose proof (IH (λ y Hy, Hl y (elem_of_list_further _ _ _ Hy))). lia.
Qed.

Section msum.
  Context {K : Type} `{Countable K} {A : Type}.
  Implicit Types (f : A → nat) (m : gmap K A).
  Definition msum f m : nat := sum_list_with (λ p, f p.2) (map_to_list m).

  Lemma msum_empty f : msum f ∅ = 0.
  Proof. unfold msum. by rewrite map_to_list_empty. Qed.
  Lemma msum_insert_None f m i x : m !! i = None → msum f (<[i:=x]> m) = f x + msum f m.
  Proof. intros Hi. unfold msum. by rewrite (sumw_perm _ _ _ (map_to_list_insert m i x Hi)). Qed.
  Lemma msum_delete f m i x : m !! i = Some x → f x + msum f (delete i m) = msum f m.
  Proof. intros Hi. unfold msum. by rewrite <-(sumw_perm _ _ _ (map_to_list_delete m i x Hi)). Qed.
  Lemma msum_insert_Some f m i x y : m !! i = Some y → msum f (<[i:=x]> m) + f y = f x + msum f m.
  Proof.
    intros Hi. rewrite <-insert_delete_insert, msum_insert_None by apply lookup_delete.
    pose proof (msum_delete f m i y Hi). lia.
  Qed.
  Lemma msum_insert_le f m i x : msum f (<[i:=x]> m) ≤ f x + msum f m.
  Proof.
    destruct (m !! i) as [y|] eqn:Hi; [pose proof (msum_insert_Some f m i x y Hi); lia|by rewrite msum_insert_None].
  Qed.
  Lemma msum_alter f m i (g : A → A) y : m !! i = Some y → msum f (alter g i m) + f y = f (g y) + msum f m.
  Proof.
    intros Hi. assert (alter g i m = <[i := g y]> m) as ->; [|by apply msum_insert_Some].
    apply map_eq. intros j. destruct (decide (j = i)) as [->|]; [by rewrite lookup_alter, lookup_insert, Hi|by rewrite lookup_alter_ne, lookup_insert_ne].
  Qed.
  Lemma msum_le f f' m : (∀ i x, m !! i = Some x → f x ≤ f' x) → msum f m ≤ msum f' m.
  Proof. intros Hl. unfold msum. apply sumw_le. intros [i x] Hin%elem_of_map_to_list. simpl. eauto. Qed.
  Lemma msum_ext f f' m : (∀ x, f x = f' x) → msum f m = msum f' m.
  Proof. intros E. apply Nat.le_antisymm; apply msum_le; intros i x _; rewrite E; done. Qed.
  Lemma msum_lookup f m i x : m !! i = Some x → f x ≤ msum f m.
  Proof. intros Hi. pose proof (msum_delete f m i x Hi). lia. Qed.
  Lemma msum_fmap f (g : A → A) m : msum f (g <$> m) = msum (f ∘ g) m.
  Proof. unfold msum. rewrite (sumw_perm _ _ _ (map_to_list_fmap g m)), sumw_fmap. done. Qed.
End msum.
#[global] Arguments msum : simpl never.

(** ** the measure

    [pc_w pc] bounds the number of effective steps a thread at [pc] still takes, PLUS what those steps commit the server to:
    a session entry written by AddLock costs DestroySession two steps later on (2), an armed lease timer can start a
    three-step callback goroutine (3). A parked call ([VWait]) counts like a woken one: the hand-off that moves it to
    [VWoken] is somebody else's step. *)
Definition pc_w (pc : spc) : nat :=
  match pc with
  | VMgrTry => 8 | VMgrLock => 9 | VWait => 8 | VWoken => 8 | VSessAdd => 7 | VTmAdd => 4
  | VTmRemove => 3 | VMgrUnlock => 2 | VSessRemove => 1 | VTmReset => 1
  | VCbUnlock => 3 | VCbSessRemove => 2 | VCbTmRemove => 1
  | VDsFlag => 3 | VDsNoClear => 1 | VDsDestroy => 2
  | VDsTmRemove todo => 2 * length todo + 1 | VDsUnlock _ todo => 2 * length todo + 2
  | VShFlag => 4 | VShNet => 3 | VShTimers => 2 | VShMgr => 1
  | VFin _ | VEnd => 0
  end.
Definition steps_left (t : sthread) : nat := pc_w (st_pc t).
Definition armed_w (tm : stimer) : nat := match tm_st tm with TArmed _ => 3 | _ => 0 end.
Definition sess_w (l : list clock) : nat := 2 * length l.
Definition W_thr (m : gmap nat sthread) : nat := msum steps_left m.
Definition W_sess (m : gmap str (list clock)) : nat := msum sess_w m.
Definition W_tm (h : gmap nat stimer) : nat := msum armed_w h.
(** every open connection will end (by the client's disconnect or by the closer's network stop) and start one DestroySession *)
Definition W_net (tr : list sev) : nat := 3 * length (open_sids tr).
Definition weight (s : svstate) : nat := W_thr (v_thr s) + W_sess (v_sess s) + W_tm (v_theap s) + W_net (v_trace s).
#[global] Arguments W_thr : simpl never.
#[global] Arguments W_sess : simpl never.
#[global] Arguments W_tm : simpl never.
#[global] Arguments W_net : simpl never.

Lemma pc_w_fin pc : pc_w pc = 0 ↔ is_fin pc = true.
Proof. destruct pc; simpl; split; try done; lia. Qed.
Lemma pc_w_ds_next l : pc_w (ds_next l) ≤ 2 * length l + 1.
Proof. destruct l; simpl; lia. Qed.

Lemma wthr_go m tid t pc' : m !! tid = Some t → W_thr (<[tid := with_pc t pc']> m) + pc_w (st_pc t) = pc_w pc' + W_thr m.
Proof. intros Ht. unfold W_thr. pose proof (msum_insert_Some steps_left m tid (with_pc t pc') t Ht) as E. exact E. Qed.
Lemma wthr_alter m tid t pc' : m !! tid = Some t → W_thr (alter (setpc pc') tid m) + pc_w (st_pc t) = pc_w pc' + W_thr m.
Proof. intros Ht. unfold W_thr. pose proof (msum_alter steps_left m tid (setpc pc') t Ht) as E. exact E. Qed.
Lemma wthr_lookup m tid t : m !! tid = Some t → pc_w (st_pc t) ≤ W_thr m.
Proof. apply (msum_lookup steps_left). Qed.

Lemma wsess_add m sid c : W_sess (<[sid := default [] (m !! sid) ++ [c]]> m) = W_sess m + 2.
Proof.
  unfold W_sess. destruct (m !! sid) as [l|] eqn:E; simpl.
  - pose proof (msum_insert_Some sess_w m sid (l ++ [c]) l E) as H. unfold sess_w in H at 2 3. rewrite app_length in H. simpl in H. lia.
  - rewrite msum_insert_None by done. unfold sess_w at 1. simpl. lia.
Qed.
Lemma wsess_rm n k m : W_sess (sess_rm n k m) ≤ W_sess m.
Proof.
  unfold W_sess, sess_rm. rewrite msum_fmap. apply msum_le. intros i l _. unfold sess_w. simpl.
  match goal with |- context [@filter _ _ _ ?P ?dec l] => pose proof (@filter_length _ P dec l) end. lia.
Qed.
Lemma wsess_delete m sid l : m !! sid = Some l → W_sess (delete sid m) + 2 * length l = W_sess m.
Proof. intros E. unfold W_sess. pose proof (msum_delete sess_w m sid l E) as H. unfold sess_w in H at 1. lia. Qed.

Lemma wtm_add h i d n k sid : W_tm (<[i := STimer (TArmed d) n k sid]> h) ≤ 3 + W_tm h.
Proof. apply (msum_insert_le armed_w). Qed.
Lemma wtm_set h id tm st d : h !! id = Some tm → tm_st tm = TArmed d →
  W_tm (<[id := STimer st (tm_n tm) (tm_k tm) (tm_s tm)]> h) + 3 = match st with TArmed _ => 3 | _ => 0 end + W_tm h.
Proof.
  intros E Hst. unfold W_tm. pose proof (msum_insert_Some armed_w h id (STimer st (tm_n tm) (tm_k tm) (tm_s tm)) tm E) as H.
  unfold armed_w in H at 2 3. rewrite Hst in H. simpl in H. done.
Qed.
Lemma wtm_set' h id tm st d : h !! id = Some tm → tm_st tm = TArmed d →
  W_tm (<[id := tm <| tm_st := st |>]> h) + 3 = match st with TArmed _ => 3 | _ => 0 end + W_tm h.
Proof. exact (wtm_set h id tm st d). Qed.
Definition stop_armed (tm : stimer) : stimer := match tm_st tm with TArmed _ => tm <| tm_st := TStopped |> | _ => tm end.
Lemma wtm_shut h : W_tm (stop_armed <$> h) ≤ W_tm h.
Proof.
  unfold W_tm. rewrite msum_fmap. apply msum_le. intros i tm _. unfold armed_w, stop_armed. destruct tm as [st ? ? ?]; simpl. destruct st; simpl; lia.
Qed.

(** the open connections are a function of the [SvConnect]/[SvConnEnd] events only *)
Lemma omap_ext' {A B} (f g : A → option B) (l : list A) : (∀ x, x ∈ l → f x = g x) → omap f l = omap g l.
Proof.
  induction l as [|x l IH]; intros Hl; [done|]. csimpl. rewrite (Hl x) by left. rewrite IH; [done|]. intros y Hy. apply Hl. by right.
Qed.
Lemma omap_none {A B} (f : A → option B) (l : list A) : (∀ x, x ∈ l → f x = None) → omap f l = [].
Proof.
  induction l as [|x l IH]; intros Hl; [done|]. csimpl. rewrite (Hl x) by left. apply IH. intros y Hy. apply Hl. by right.
Qed.
Lemma open_sids_quiet e tr : quiet e → open_sids (e :: tr) = open_sids tr.
Proof.
  intros Hq. unfold open_sids. simpl rev. rewrite omap_app.
  match goal with |- _ ++ ?b = _ => assert (b = []) as -> by (apply omap_none; intros x ->%elem_of_list_singleton; by destruct e) end.
  rewrite app_nil_r. apply omap_ext'. intros x _. destruct x; try done. simpl. by destruct e.
Qed.
Lemma wnet_cons e tr : quiet e → W_net (e :: tr) = W_net tr.
Proof. intros Hq. unfold W_net. by rewrite open_sids_quiet. Qed.
Lemma wnet_fin tid pc tr : W_net (fin_evs tid pc ++ tr) = W_net tr.
Proof. destruct pc; simpl; try done. by apply wnet_cons. Qed.

(** ** every explicit step of a thread is the identity or strictly decreases the measure *)
Ltac wnet := repeat first [rewrite wnet_fin | rewrite wnet_cons by (simpl; trivial)].
Ltac wpose :=
  try match goal with Ht : ?m !! ?tid = Some ?t |- context [W_thr (<[?tid := with_pc ?t ?pc]> ?m)] => pose proof (wthr_go m tid t pc Ht) end;
  try match goal with Ht : v_thr ?s !! ?tid = Some ?t, Hw : v_thr ?s !! ?w = Some ?tw, Hne : ?w ≠ ?tid
        |- context [W_thr (<[?tid := with_pc ?t ?pc]> (<[?w := with_pc ?tw VWoken]> (v_thr ?s)))] =>
      let H := fresh in
      assert (H : <[w := with_pc tw VWoken]> (v_thr s) !! tid = Some t) by (by rewrite lookup_insert_ne);
      apply (wthr_go _ tid t pc) in H; pose proof (wthr_go (v_thr s) w tw VWoken Hw) end;
  try match goal with |- context [W_sess (sess_rm ?n ?k ?m)] => pose proof (wsess_rm n k m) end;
  try match goal with |- context [W_sess (<[?sid := default [] (?m !! ?sid) ++ [?c]]> ?m)] => pose proof (wsess_add m sid c) end;
  try match goal with Hl : ?m !! ?sid = Some ?l |- context [W_sess (delete ?sid ?m)] => pose proof (wsess_delete m sid l Hl) end;
  try match goal with |- context [W_tm (<[?i := STimer (TArmed ?d) ?n ?k ?sid]> ?h)] => pose proof (wtm_add h i d n k sid) end;
  try match goal with Htm : ?h !! ?id = Some ?tm, Hst : tm_st ?tm = TArmed ?d
        |- context [W_tm (<[?id := STimer ?st (tm_n ?tm) (tm_k ?tm) (tm_s ?tm)]> ?h)] => pose proof (wtm_set h id tm st d Htm Hst) end;
  try match goal with Htm : ?h !! ?id = Some ?tm, Hst : tm_st ?tm = TArmed ?d
        |- context [W_tm (<[?id := ?tm <| tm_st := ?st |>]> ?h)] => pose proof (wtm_set' h id tm st d Htm Hst) end;
  try match goal with |- context [W_tm (?f <$> ?h)] => change f with stop_armed; pose proof (wtm_shut h) end;
  repeat match goal with H : context [pc_w (ds_next ?l)] |- _ => pose proof (pc_w_ds_next l); generalize dependent (pc_w (ds_next l)); intros end.
Ltac wsites :=
  repeat match goal with
  | H : rel_site _ _ _ _ _ |- _ => destruct H
  | H : relfail_site _ _ _ _ _ |- _ => destruct H
  | H : tmrm_site _ _ _ _ _ |- _ => destruct H
  | H : sessrm_site _ _ _ _ _ |- _ => destruct H
  | H : ds_move _ _ _ _ _ |- _ => destruct H
  | H : _ ∨ _ |- _ => destruct H
  | H : _ ∧ _ |- _ => destruct H
  end; subst; try destruct (sc_noclear _); try destruct (lt_pos _).
Ltac wpcs := repeat match goal with H : st_pc ?t = _ |- _ => rewrite H in *; clear H end.

Lemma weight_vsr cfg s it s' : SvInv cfg s → vsr cfg s it s' → ∀ tid, it = VRun tid → s' = s ∨ weight s' < weight s.
Proof.
  intros Inv Hv. destruct Hv; intros tid0 E; try discriminate E; [by left|..]; injection E as ->; right.
  all: wsites; unfold weight, st_go; simpl; wnet; wpose; wpcs; simpl pc_w in *; cbn beta iota in *; lia.
Qed.

(** *** the network stop: the goroutines it starts were paid for by [W_net] *)
Lemma spawn_list_spec l s : (∀ tid, v_next s ≤ tid → v_thr s !! tid = None) →
  W_thr (v_thr (spawn_list l s)) = W_thr (v_thr s) + 3 * length l ∧
  v_sess (spawn_list l s) = v_sess s ∧ v_theap (spawn_list l s) = v_theap s ∧
  v_trace (spawn_list l s) = (SvConnEnd <$> rev l) ++ v_trace s.
Proof.
  revert s. induction l as [|sid l IH]; intros s Hf; [simpl; split_and!; try done; lia|].
  change (spawn_list (sid :: l) s) with (spawn_list l (spawn_one s sid)).
  destruct (IH (spawn_one s sid)) as (E1 & E2 & E3 & E4).
  { intros tid Hle. simpl in *. rewrite lookup_insert_ne by lia. apply Hf. lia. }
  rewrite E1, E2, E3, E4. simpl. split_and!; try done.
  - unfold W_thr. rewrite msum_insert_None by (apply Hf; lia). unfold steps_left at 1. simpl. lia.
  - rewrite fmap_app, <-app_assoc. done.
Qed.
Lemma open_sids_stopped tr pre : (∀ e, e ∈ pre → ∃ sid, e = SvConnEnd sid) → (∀ sid, sid ∈ open_sids tr → SvConnEnd sid ∈ pre) →
  open_sids (pre ++ tr) = [].
Proof.
  intros Hpre Hall. unfold open_sids at 1. apply omap_none. intros e He.
  apply elem_of_list_In, in_rev, elem_of_list_In in He. destruct e as [| | | | | | | |sid| | |]; try done.
  assert (ended_in (pre ++ tr) sid = true) as ->; [|done].
  unfold ended_in. rewrite existsb_app. destruct (existsb _ tr) eqn:E; [by rewrite orb_true_r|]. rewrite orb_false_r.
  apply elem_of_app in He as [He|He]; [by destruct (Hpre _ He)|].
  apply existsb_exists. exists (SvConnEnd sid). split; [|by apply bool_decide_eq_true]. apply elem_of_list_In, Hall.
  unfold open_sids. apply elem_of_list_omap. exists (SvConnect sid). split; [by apply elem_of_list_In, in_rev, elem_of_list_In in He|].
  unfold ended_in. by rewrite E.
Qed.
Lemma steps_left_shnet_cancel t : steps_left (shnet_cancel t) = steps_left t.
Proof. destruct t as [op pc cn]. unfold shnet_cancel, steps_left. simpl. by destruct op, cn, (is_fin pc). Qed.

Lemma weight_vsr_full cfg s it s' : SvInv cfg s → vsr_full cfg s it s' → ∀ tid, it = VRun tid → s' = s ∨ weight s' < weight s.
Proof.
  intros Inv Hv. destruct Hv as [it s' Hv|dt|tid' t Ht Hop Hpc]; intros tid E; [by eapply weight_vsr|done|]. injection E as ->. right.
  set (s1 := s <| v_thr := shnet_cancel <$> v_thr s |>).
  unfold spawn_sessions. change (v_trace s1) with (v_trace s). set (l := open_sids (v_trace s)).
  destruct (spawn_list_spec l s1) as (E1 & E2 & E3 & E4); [apply (inv_fresh_fmap _ _ _ Inv)|].
  assert (Hlk : v_thr (spawn_list l s1) !! tid = Some t).
  { rewrite spawn_fold_thr by (simpl; apply (vi_sys _ _ Inv tid t Ht)). simpl. rewrite lookup_fmap, Ht. simpl.
    unfold shnet_cancel. by rewrite Hop. }
  unfold weight, st_go. simpl. rewrite E2, E3, E4.
  pose proof (wthr_go _ tid t VShTimers Hlk) as Hw. rewrite E1, Hpc in Hw. simpl v_thr in Hw.
  assert (W_thr (shnet_cancel <$> v_thr s) = W_thr (v_thr s)) as Ec.
  { unfold W_thr. rewrite msum_fmap. apply msum_ext. apply steps_left_shnet_cancel. }
  rewrite Ec in Hw. unfold W_net at 1. rewrite open_sids_stopped.
  - unfold W_net. fold l. simpl in *. lia.
  - intros e (sid & -> & _)%elem_of_list_fmap. eauto.
  - intros sid Hs. apply elem_of_list_fmap. exists sid. split; [done|]. by apply elem_of_list_In, in_rev, elem_of_list_In in Hs.
Qed.

Lemma weight_run cfg s tid : SvInv cfg s → vstep cfg s (VRun tid) = s ∨ weight (vstep cfg s (VRun tid)) < weight s.
Proof. intros Inv. eapply weight_vsr_full; [done|by apply vsr_ok|done]. Qed.

(** ** blocked threads do nothing; threads that are not blocked move *)
Lemma blocked_step_id cfg s tid : sv_blocked s tid = true → vstep cfg s (VRun tid) = s.
Proof.
  unfold vstep, sv_blocked. destruct (v_crashed s); [done|]. destruct (v_thr s !! tid) as [t|]; [|done].
  unfold vrun_thread. destruct t as [op pc cn]; simpl. destruct pc; try done.
  - destruct op; try done. intros ->%bool_decide_eq_true. done.
  - destruct op; try done. intros ->. done.
Qed.

(** the pc of a thread fits its operation; a finished client call is at [VFin], a finished goroutine of the server at [VEnd] *)
Definition pc_okb (op : sop) (pc : spc) : bool :=
  match pc, op with
  | VMgrTry, STry _ _ _ _ _ | VMgrLock, SLock _ _ _ _ _ | VWait, SLock _ _ _ _ _ | VWoken, SLock _ _ _ _ _ => true
  | (VSessAdd | VTmAdd), (STry _ _ _ _ _ | SLock _ _ _ _ _) => true
  | (VTmRemove | VMgrUnlock | VSessRemove), SUnlock _ _ => true
  | VTmReset, SRenew _ _ _ => true
  | (VCbUnlock | VCbSessRemove | VCbTmRemove), SExpire _ => true
  | (VDsFlag | VDsNoClear | VDsDestroy | VDsTmRemove _ | VDsUnlock _ _), SConnEnd _ => true
  | (VShFlag | VShNet | VShTimers | VShMgr), SShutdown => true
  | VFin _, (STry _ _ _ _ _ | SLock _ _ _ _ _ | SUnlock _ _ | SRenew _ _ _) => true
  | VEnd, (SExpire _ | SConnEnd _ | SShutdown) => true
  | _, _ => false
  end.
Definition pcs_ok (s : svstate) : Prop := ∀ tid t, v_thr s !! tid = Some t → pc_okb (st_op t) (st_pc t) = true.

Lemma pc_step_ok op pc pc' : pc_okb op pc = true → pc_step op pc pc' → pc_okb op pc' = true.
Proof. destruct pc, op; simpl; try done; naive_solver. Qed.
Lemma first_pc_ok op : pc_okb op (first_pc op) = true.
Proof. by destruct op. Qed.

Lemma pcs_ok_reach cfg s : vreach cfg s → pcs_ok s.
Proof.
  intros Hr. pattern s. revert s Hr. apply (SvFile.vreach_ind_inv cfg); [exact SvAll.svinv_reach|done|].
  intros s it Hr Inv IH Hok tid' t' Ht'.
  destruct (thr_step _ _ _ _ _ Inv Ht') as [(t & Ht & Hop & Hfin & Hcn & Hpc)|(_ & E & _)]; [|rewrite E; apply first_pc_ok].
  specialize (IH _ _ Ht). rewrite Hop.
  destruct Hpc as [E|[->|[E1 E2]]]; [by rewrite E| |rewrite E2; rewrite E1 in IH; by destruct (st_op t)].
  destruct (run_self _ _ _ _ Inv Ht) as [E|(pc' & E & Hst)]; rewrite E in Ht'; simplify_eq/=; [done|].
  by eapply pc_step_ok.
Qed.

#[local] Arguments vemit : simpl never.
#[local] Arguments vset_pc : simpl never.
#[local] Arguments vfinish : simpl never.
#[local] Arguments spawn : simpl never.
#[local] Arguments vsave : simpl never.
#[local] Arguments hand_over : simpl never.
#[local] Arguments mgr_unlock : simpl never.
#[local] Arguments tm_add : simpl never.
#[local] Arguments tm_remove : simpl never.
#[local] Arguments tm_reset : simpl never.
#[local] Arguments sess_add : simpl never.
#[local] Arguments sess_remove : simpl never.
#[local] Arguments sess_destroy : simpl never.
#[local] Arguments fire_due : simpl never.
#[local] Opaque vemit vset_pc spawn vsave hand_over mgr_unlock tm_add tm_remove tm_reset sess_add sess_remove sess_destroy fire_due.

Lemma ds_next_ne_cons c l : ds_next l ≠ VDsTmRemove (c :: l).
Proof. destruct l as [|c' l]; simpl; [done|]. intros [= _ E]. apply (f_equal length) in E. simpl in E. lia. Qed.
Lemma ds_next_ne_unlock c l l' : ds_next l ≠ VDsUnlock c l'.
Proof. by destruct l. Qed.
Lemma ds_next_ne_destroy l : ds_next l ≠ VDsDestroy.
Proof. by destruct l. Qed.
#[local] Hint Resolve ds_next_step2 ds_next_step3 : core.

Lemma effective_run cfg s tid t : SvInv cfg s → pcs_ok s → v_thr s !! tid = Some t → sv_blocked s tid = false →
  ∃ pc', v_thr (vstep cfg s (VRun tid)) !! tid = Some (setpc pc' t) ∧ pc_step (st_op t) (st_pc t) pc' ∧ pc' ≠ st_pc t.
Proof.
  intros Inv Hok Ht Hnb. unfold vstep. rewrite (vi_not_crashed _ _ Inv), Ht. pose proof Ht as Ht0.
  specialize (Hok _ _ Ht). unfold sv_blocked in Hnb. rewrite Ht in Hnb.
  assert (Hwl : ∀ sid n k z lt, st_op t = SLock sid n k z lt → st_pc t = VWait → is_Some (v_locks s !! n))
    by (intros; eapply (vi_wait_lock _ _ Inv); eauto).
  assert (Hhp : ∀ id, st_op t = SExpire id → is_Some (v_theap s !! id)) by (intros; eapply (vi_expire_heap _ _ Inv); eauto).
  vrun_leaves t ltac:(exfalso; simpl in Hok, Hnb; congruence).
  all: try (eexists; split;
    [ rewrite ?fr_vemit_thr, thr_vset_pc;
      first [ eapply woke_self; [apply thr_mgr_unlock|exact Ht]
            | eapply (woke_self _ []); [left; simpl; autorewrite with svf; simpl; reflexivity|exact Ht] ]
    | split; [simpl; eauto 6|first [done|apply ds_next_ne_cons|apply ds_next_ne_unlock|apply ds_next_ne_destroy]] ]).
  all: try (exfalso; clear Hhp; destruct (Hwl _ _ _ _ _ eq_refl eq_refl); congruence).
  all: try (exfalso; clear Hwl; destruct (Hhp _ eq_refl); congruence).
  all: try (exfalso; by case_bool_decide).
  all: try (exfalso; congruence).
  - eexists. split; [rewrite ?fr_vemit_thr, thr_vset_pc; eapply woke_self; [|exact Ht]; eapply woke_locks_upd; [done|apply thr_hand_over]|split; [simpl; eauto 6|done]].
  - change (fold_left _ _ _) with (net_stop s). eexists. split; [|split; [simpl; done|done]].
    rewrite thr_vset_pc, lookup_alter, (net_stop_thr_old _ _ _ _ Inv Ht). done.
Qed.

(** ** (2) an effective step strictly decreases the measure *)
Theorem effective_step_moves cfg s tid : vreach cfg s → sv_blocked s tid = false →
  ∃ t t', v_thr s !! tid = Some t ∧ v_thr (vstep cfg s (VRun tid)) !! tid = Some t' ∧ st_op t' = st_op t ∧ st_pc t' ≠ st_pc t.
Proof.
  intros Hr Hnb. pose proof (SvAll.svinv_reach _ _ Hr) as Inv. pose proof (pcs_ok_reach _ _ Hr) as Hok.
  destruct (v_thr s !! tid) as [t|] eqn:Ht; [|unfold sv_blocked in Hnb; by rewrite Ht in Hnb].
  destruct (effective_run cfg s tid t Inv Hok Ht Hnb) as (pc' & E & _ & Hne). exists t, (setpc pc' t). by destruct t.
Qed.
Theorem effective_step_decreases cfg s tid : vreach cfg s → sv_blocked s tid = false →
  weight (vstep cfg s (VRun tid)) < weight s.
Proof.
  intros Hr Hnb. pose proof (SvAll.svinv_reach _ _ Hr) as Inv.
  destruct (weight_run cfg s tid Inv) as [E|?]; [exfalso|done].
  destruct (effective_step_moves cfg s tid Hr Hnb) as (t & t' & Ht & Ht' & _ & Hne). rewrite E in Ht'. congruence.
Qed.
(** ... and no [VRun] at all increases it *)
Theorem run_step_weight_le cfg s tid : vreach cfg s → weight (vstep cfg s (VRun tid)) ≤ weight s.
Proof. intros Hr. destruct (weight_run cfg s tid (SvAll.svinv_reach _ _ Hr)) as [-> | ?]; lia. Qed.

(** ** (3) the shutdown terminates under round-robin *)
Definition closer_present (s : svstate) : Prop := ∃ tc c, v_thr s !! tc = Some c ∧ st_op c = SShutdown.
Definition doneb (s : svstate) : bool := thr_all s (λ t, is_fin (st_pc t)).

Lemma forallb_false {A} (f : A → bool) l : forallb f l = false → ∃ x, In x l ∧ f x = false.
Proof.
  induction l as [|y l IH]; simpl; [done|]. destruct (f y) eqn:E; simpl; [|eauto].
  intros (x & ? & ?)%IH. eauto.
Qed.
Lemma doneb_false s : doneb s = false → ∃ tid t, v_thr s !! tid = Some t ∧ is_fin (st_pc t) = false.
Proof. intros ([tid t] & Hin & Hf)%forallb_false. apply elem_of_list_In, elem_of_map_to_list in Hin. eauto. Qed.
Lemma doneb_true s : doneb s = true → all_done s.
Proof. intros H tid t Ht. by apply (thr_all_sound _ _ H) in Ht. Qed.

(** deadlock freedom once the closer exists: if somebody has not finished, somebody is enabled *)
Lemma shutdown_progress cfg s : vreach cfg s → closer_present s → doneb s = false → ∃ tid, sv_blocked s tid = false.
Proof.
  intros Hr (tc & c & Hc & Hop) (tid & t & Ht & Hfin)%doneb_false.
  pose proof (pcs_ok_reach _ _ Hr) as Hok. pose proof (Hok _ _ Hc) as Hokc. rewrite Hop in Hokc.
  assert (Hmgr : ∀ tid t, v_thr s !! tid = Some t → st_op t = SShutdown → st_pc t = VShMgr → ∃ tid', sv_blocked s tid' = false).
  { intros tid1 t1 Ht1 Hop1 Hpc1. destruct (sv_blocked s tid1) eqn:Hb; [|eauto].
    destruct (SvAll.C11_no_hang cfg s tid1 t1 Hr Ht1 Hop1 Hpc1 Hb) as (tid' & t' & _ & _ & Hnb). eauto. }
  destruct (st_pc c) eqn:Hpc; simpl in Hokc; try done.
  1-3: exists tc; unfold sv_blocked; by rewrite Hc, Hpc.
  - eauto.
  - destruct (sv_blocked s tid) eqn:Hb; [|eauto]. unfold sv_blocked in Hb. rewrite Ht in Hb.
    pose proof (Hok _ _ Ht) as Hokt.
    destruct (st_pc t) eqn:Hpt; simpl in Hfin; try done.
    + destruct (SvAll.C11_waiters_fail cfg s tid t Hr Ht Hpt) as (e & He & _); [exists tc, c; rewrite Hpc; auto|].
      rewrite He in Hb. by case_bool_decide.
    + apply (Hmgr tid t); [done| |done]. destruct (st_op t); done.
Qed.

Definition tids (s : svstate) : list nat := (map_to_list (v_thr s)).*1.
Definition round (s : svstate) : list sitem := VRun <$> tids s.
Definition vexec (cfg : svcfg) (s : svstate) (sch : list sitem) : svstate := fold_left (vstep cfg) sch s.
(** [n] rounds; the thread list is recomputed at the start of every round, so goroutines started during a round
    (session ends delivered by the network stop) run from the next round on *)
Fixpoint rr (cfg : svcfg) (s : svstate) (n : nat) : list sitem :=
  match n with 0 => [] | S n' => round s ++ rr cfg (vexec cfg s (round s)) n' end.

Lemma rr_only_runs cfg n : ∀ s, Forall (λ it, ∃ tid, it = VRun tid) (rr cfg s n).
Proof.
  induction n as [|n IH]; intros s; simpl; [constructor|]. apply Forall_app. split; [|apply IH].
  unfold round. apply Forall_fmap, Forall_forall. intros tid _. by exists tid.
Qed.
Lemma vexec_rr_S cfg s n : vexec cfg s (rr cfg s (S n)) = vexec cfg (vexec cfg s (round s)) (rr cfg (vexec cfg s (round s)) n).
Proof. unfold vexec. simpl. by rewrite fold_left_app. Qed.

Lemma runs_list cfg l : ∀ s, vreach cfg s →
  let s' := vexec cfg s (VRun <$> l) in
  vreach cfg s' ∧ weight s' ≤ weight s ∧ (∀ tid, tid ∈ l → sv_blocked s tid = false → weight s' < weight s) ∧
  (∀ tid t, v_thr s !! tid = Some t → ∃ t', v_thr s' !! tid = Some t' ∧ st_op t' = st_op t).
Proof.
  induction l as [|x l IH]; intros s Hr; csimpl.
  { split_and!; [done|lia|by intros ? ?%elem_of_nil|eauto]. }
  set (s1 := vstep cfg s (VRun x)).
  assert (Hr1 : vreach cfg s1) by (by constructor).
  destruct (IH s1 Hr1) as (Hr' & Hle & Hlt & Hthr). fold (vexec cfg s1 (VRun <$> l)).
  assert (Hthr' : ∀ tid t, v_thr s !! tid = Some t → ∃ t', v_thr (vexec cfg s1 (VRun <$> l)) !! tid = Some t' ∧ st_op t' = st_op t).
  { intros tid t Ht. destruct (SvFile.thr_op_persist cfg s (VRun x) tid t (SvAll.svinv_reach _ _ Hr) Ht) as (t1 & Ht1 & E1).
    destruct (Hthr _ _ Ht1) as (t' & Ht' & E'). exists t'. split; [done|congruence]. }
  destruct (sv_blocked s x) eqn:Hb.
  - assert (E : s1 = s) by (by apply blocked_step_id). rewrite E in *. split_and!; [done|done| |done].
    intros tid [->|Hin]%elem_of_cons Hnb; [congruence|eauto].
  - pose proof (effective_step_decreases cfg s x Hr Hb). fold s1 in H. split_and!; [done|lia|intros; lia|done].
Qed.

Lemma fin_shape op pc : pc_okb op pc = true → is_fin pc = true → if client_op op then ∃ r, pc = VFin r else pc = VEnd.
Proof. destruct pc, op; simpl; try done; eauto. Qed.

Lemma rr_terminates cfg n : ∀ s, weight s ≤ n → vreach cfg s → closer_present s →
  ∃ k, k ≤ n ∧ let s' := vexec cfg s (rr cfg s k) in
    vreach cfg s' ∧ doneb s' = true ∧ weight s' ≤ weight s ∧
    (∀ tid t, v_thr s !! tid = Some t → ∃ t', v_thr s' !! tid = Some t' ∧ st_op t' = st_op t).
Proof.
  induction n as [|n IH]; intros s Hw Hr Hcl.
  - exists 0. split; [done|]. simpl. split_and!; [done| |done|eauto].
    destruct (doneb s) eqn:D; [done|]. destruct (doneb_false _ D) as (tid & t & Ht & Hf).
    pose proof (wthr_lookup _ _ _ Ht). unfold weight in Hw. apply not_true_iff_false in Hf. destruct Hf. apply pc_w_fin. lia.
  - destruct (doneb s) eqn:D. { exists 0. split; [lia|]. simpl. split_and!; eauto. }
    destruct (shutdown_progress cfg s Hr Hcl D) as (tid & Hnb).
    destruct (runs_list cfg (tids s) s Hr) as (Hr1 & _ & Hlt & Hthr). fold (round s) in *.
    set (s1 := vexec cfg s (round s)) in *.
    assert (Hin : tid ∈ tids s).
    { unfold sv_blocked in Hnb. destruct (v_thr s !! tid) as [t|] eqn:Ht; [|done].
      apply elem_of_list_fmap. exists (tid, t). split; [done|by apply elem_of_map_to_list]. }
    specialize (Hlt tid Hin Hnb).
    destruct (IH s1) as (k & Hk & Hr' & Hd & Hw' & Hthr'); [lia|done| |].
    { destruct Hcl as (tc & c & Hc & Hop). destruct (Hthr _ _ Hc) as (c' & ? & ?). exists tc, c'. split; [done|congruence]. }
    exists (S k). split; [lia|]. rewrite vexec_rr_S. fold s1. split_and!; [done|done|lia|].
    intros tid' t' Ht'. destruct (Hthr _ _ Ht') as (t1 & Ht1 & E1). destruct (Hthr' _ _ Ht1) as (t2 & Ht2 & E2).
    exists t2. split; [done|congruence].
Qed.

(** On SIGINT/SIGTERM the server exits, whatever requests are in flight: from every reachable state in which the closer
    exists (it was started by the signal; any pc), running the threads present round-robin — no tick, no new call, no
    connection event, no cancellation from outside — reaches within [weight s] rounds a state where every client call has
    answered, every goroutine the server started (lease callbacks, session ends, the closer) has ended, and nothing has
    been lost on the way (every thread of [s] is still there). For both disconnect policies ([cfg] is arbitrary). *)
Theorem C11_terminates : ∀ cfg s, vreach cfg s → closer_present s →
  ∃ n, n ≤ weight s ∧
    Forall (λ it, ∃ tid, it = VRun tid) (rr cfg s n) ∧
    let s' := vexec cfg s (rr cfg s n) in
    vreach cfg s' ∧
    (∀ tid t, v_thr s !! tid = Some t → ∃ t', v_thr s' !! tid = Some t' ∧ st_op t' = st_op t) ∧
    (∀ tid t, v_thr s' !! tid = Some t → if client_op (st_op t) then ∃ r, st_pc t = VFin r else st_pc t = VEnd) ∧
    (∃ tc c, v_thr s' !! tc = Some c ∧ st_op c = SShutdown ∧ st_pc c = VEnd) ∧
    all_done s'.
Proof.
  intros cfg s Hr Hcl. destruct (rr_terminates cfg (weight s) s (Nat.le_refl _) Hr Hcl) as (k & Hk & Hr' & Hd & _ & Hthr).
  exists k. split; [done|]. split; [apply rr_only_runs|]. simpl.
  assert (Hshape : ∀ tid t, v_thr (vexec cfg s (rr cfg s k)) !! tid = Some t → if client_op (st_op t) then ∃ r, st_pc t = VFin r else st_pc t = VEnd).
  { intros tid t Ht. apply fin_shape; [by apply (pcs_ok_reach _ _ Hr' _ _ Ht)|by apply (doneb_true _ Hd _ _ Ht)]. }
  split_and!; [done|done|done| |by apply doneb_true].
  destruct Hcl as (tc & c & Hc & Hop). destruct (Hthr _ _ Hc) as (c' & Hc' & Hop'). exists tc, c'.
  assert (Hopc : st_op c' = SShutdown) by congruence. split_and!; [done|done|].
  pose proof (Hshape _ _ Hc') as Hs. by rewrite Hopc in Hs.
Qed.

(** ** (4) session cleanup run alone terminates: DestroySession never waits for anybody *)
(** its own steps still to go: the flag check, the delete, then two steps (timer removal, unlock) per listed hold *)
Definition ds_bound (s : svstate) (t : sthread) : nat :=
  pc_w (st_pc t) +
  match st_op t, st_pc t with
  | SConnEnd sid, (VDsFlag | VDsDestroy) => 2 * length (default [] (v_sess s !! sid))
  | _, _ => 0
  end.

Lemma ds_vsr cfg s it s' : SvInv cfg s → vsr cfg s it s' → ∀ tid t sid, it = VRun tid → v_thr s !! tid = Some t → st_op t = SConnEnd sid →
  s' = s ∨ ∃ t', v_thr s' !! tid = Some t' ∧ st_op t' = SConnEnd sid ∧ ds_bound s' t' < ds_bound s t.
Proof.
  intros Inv Hv. destruct Hv; intros tid0 t0 sid0 E Ht0 Hop0; try discriminate E; [by left|..]; injection E as ->; right.
  all: rewrite Ht in Ht0; injection Ht0 as <-.
  all: try (exfalso; unfold acq_op in *; wsites; congruence).
  all: wsites; try congruence.
  all: eexists; (split; [unfold st_go; simpl; apply lookup_insert|]); (split; [done|]).
  all: unfold ds_bound, st_go; simpl.
  all: repeat match goal with H : st_op ?t = _ |- _ => rewrite H in *; clear H end; wpcs.
  all: repeat match goal with H : SConnEnd _ = SConnEnd _ |- _ => injection H as -> end.
  all: repeat match goal with H : v_sess _ !! _ = Some _ |- _ => rewrite H; clear H end.
  all: repeat match goal with |- context [ds_next ?l] => is_var l; destruct l end; simpl; lia.
Qed.
Lemma ds_vsr_full cfg s it s' : SvInv cfg s → vsr_full cfg s it s' → ∀ tid t sid, it = VRun tid → v_thr s !! tid = Some t → st_op t = SConnEnd sid →
  s' = s ∨ ∃ t', v_thr s' !! tid = Some t' ∧ st_op t' = SConnEnd sid ∧ ds_bound s' t' < ds_bound s t.
Proof.
  intros Inv Hv. destruct Hv as [it s' Hv|dt|tid' t' Ht' Hop' Hpc']; intros tid t sid E Ht Hop; [by eapply ds_vsr|done|].
  injection E as ->. congruence.
Qed.
Lemma ds_step cfg s tid t sid : vreach cfg s → v_thr s !! tid = Some t → st_op t = SConnEnd sid → is_fin (st_pc t) = false →
  let s' := vstep cfg s (VRun tid) in
  ∃ t', v_thr s' !! tid = Some t' ∧ st_op t' = SConnEnd sid ∧ ds_bound s' t' < ds_bound s t.
Proof.
  intros Hr Ht Hop Hf. simpl. pose proof (SvAll.svinv_reach _ _ Hr) as Inv.
  destruct (ds_vsr_full cfg s (VRun tid) _ Inv (vsr_ok cfg s (VRun tid) Inv) tid t sid eq_refl Ht Hop) as [E|?]; [exfalso|done].
  assert (Hnb : sv_blocked s tid = false).
  { pose proof (pcs_ok_reach _ _ Hr _ _ Ht) as Hok. unfold sv_blocked. rewrite Ht. rewrite Hop in Hok. by destruct (st_pc t). }
  destruct (effective_step_moves cfg s tid Hr Hnb) as (t0 & t' & Ht0 & Ht' & _ & Hne). rewrite E in Ht'. congruence.
Qed.

(** for every reachable state with a DestroySession goroutine (any pc): [VRun tid] repeated [ds_bound] times (or more),
    nobody else running, brings it to its end; it takes no lock a parked call holds and waits for no other thread *)
Theorem C06_session_end_terminates : ∀ cfg s tid t sid,
  vreach cfg s → v_thr s !! tid = Some t → st_op t = SConnEnd sid →
  ∀ n, ds_bound s t ≤ n →
    let s' := vexec cfg s (replicate n (VRun tid)) in
    vreach cfg s' ∧ ∃ t', v_thr s' !! tid = Some t' ∧ st_op t' = SConnEnd sid ∧ st_pc t' = VEnd.
Proof.
  intros cfg s tid t sid Hr Ht Hop n. revert s t Hr Ht Hop. induction n as [|n IH]; intros s t Hr Ht Hop Hb; simpl.
  - split; [done|]. exists t. split_and!; [done|done|].
    assert (Hf : is_fin (st_pc t) = true) by (apply pc_w_fin; unfold ds_bound in Hb; lia).
    pose proof (fin_shape _ _ (pcs_ok_reach _ _ Hr _ _ Ht) Hf) as Hs. by rewrite Hop in Hs.
  - fold (vexec cfg (vstep cfg s (VRun tid)) (replicate n (VRun tid))).
    destruct (is_fin (st_pc t)) eqn:Hf.
    + assert (E : vstep cfg s (VRun tid) = s).
      { apply blocked_step_id. unfold sv_blocked. rewrite Ht. by destruct (st_pc t). }
      rewrite E. apply (IH s t Hr Ht Hop). unfold ds_bound. apply pc_w_fin in Hf. rewrite Hf. destruct (st_op t), (st_pc t); simpl in *; lia.
    + destruct (ds_step cfg s tid t sid Hr Ht Hop Hf) as (t' & Ht' & Hop' & Hlt).
      apply (IH _ t'); [by constructor|done|done|lia].
Qed.
Corollary C06_session_end_terminates_exact : ∀ cfg s tid t sid,
  vreach cfg s → v_thr s !! tid = Some t → st_op t = SConnEnd sid →
  ∃ t', v_thr (vexec cfg s (replicate (ds_bound s t) (VRun tid))) !! tid = Some t' ∧ st_pc t' = VEnd.
Proof.
  intros cfg s tid t sid Hr Ht Hop. destruct (C06_session_end_terminates cfg s tid t sid Hr Ht Hop _ (Nat.le_refl _)) as (_ & t' & ? & _ & ?). eauto.
Qed.

(** ** the other schedule items: which add work, and how much *)
Definition item_cost (it : sitem) : nat :=
  match it with
  | VCall _ op => pc_w (first_pc op)      (* a new request: at most 9 *)
  | VConnect _ => 3                       (* a new connection will end one day *)
  | VSignal => 4                          (* the closer *)
  | VRun _ | VCancel _ _ | VConnEnd _ | VTick _ => 0
  end.

Definition netq (e : sev) : Prop := match e with SvConnect _ | SvConnEnd _ => False | _ => True end.
Lemma open_sids_netq e tr : netq e → open_sids (e :: tr) = open_sids tr.
Proof.
  intros Hq. unfold open_sids. simpl rev. rewrite omap_app.
  match goal with |- _ ++ ?b = _ => assert (b = []) as -> by (apply omap_none; intros x ->%elem_of_list_singleton; by destruct e) end.
  rewrite app_nil_r. apply omap_ext'. intros x _. destruct x; try done. simpl. by destruct e.
Qed.
Lemma omap_length_le {A B} (f g : A → option B) (l : list A) : (∀ x, x ∈ l → is_Some (f x) → is_Some (g x)) → length (omap f l) ≤ length (omap g l).
Proof.
  induction l as [|x l IH]; intros Hl; [done|]. csimpl.
  assert (length (omap f l) ≤ length (omap g l)) by (apply IH; intros y Hy; apply Hl; by right).
  destruct (f x) eqn:Ef; simpl; [|destruct (g x); simpl; lia].
  destruct (Hl x) as [yy ->]; [left|by rewrite Ef|]. simpl. lia.
Qed.
Lemma omap_length_lt {A B} (f g : A → option B) (l : list A) x : (∀ x, x ∈ l → is_Some (f x) → is_Some (g x)) →
  x ∈ l → f x = None → is_Some (g x) → length (omap f l) < length (omap g l).
Proof.
  induction l as [|y l IH]; intros Hl Hx Hf Hg; [by apply elem_of_nil in Hx|]. csimpl.
  assert (Hl' : ∀ z, z ∈ l → is_Some (f z) → is_Some (g z)) by (intros z Hz; apply Hl; by right).
  pose proof (omap_length_le f g l Hl').
  apply elem_of_cons in Hx as [->|Hx].
  - rewrite Hf. destruct Hg as [bb ->]. simpl. lia.
  - specialize (IH Hl' Hx Hf Hg). destruct (f y) eqn:Ef; simpl; [|destruct (g y); simpl; lia].
    destruct (Hl y) as [bb ->]; [left|by rewrite Ef|]. simpl. lia.
Qed.
Lemma open_sids_connect sid tr : length (open_sids (SvConnect sid :: tr)) ≤ length (open_sids tr) + 1.
Proof.
  unfold open_sids. simpl rev. rewrite omap_app, app_length.
  match goal with |- _ + ?b ≤ _ => assert (b ≤ 1) by (simpl; case_match; simpl; lia) end.
  match goal with |- ?a + _ ≤ ?c + 1 => assert (a ≤ c); [|lia] end.
  apply omap_length_le. intros x _. destruct x; try done.
Qed.
Lemma open_sids_connend sid tr : SvConnect sid ∈ tr → ¬ SvConnEnd sid ∈ tr → length (open_sids (SvConnEnd sid :: tr)) + 1 ≤ length (open_sids tr).
Proof.
  intros Hc He. unfold open_sids. simpl rev. rewrite omap_app, app_length. simpl length at 2.
  assert (Hend : ended_in tr sid = false).
  { apply not_true_iff_false. intros (e & Hin & Hb)%existsb_exists. destruct e; try done. apply bool_decide_eq_true in Hb. subst. by apply He, elem_of_list_In. }
  match goal with |- ?a + 0 + 1 ≤ ?c => assert (a < c); [|lia] end.
  apply (omap_length_lt _ _ _ (SvConnect sid)).
  - intros x _. destruct x; try done. simpl. destruct (ended_in tr sid0); [|done]. by rewrite orb_true_r.
  - by apply elem_of_list_In, in_rev, elem_of_list_In in Hc.
  - simpl. by rewrite bool_decide_eq_true_2.
  - by rewrite Hend.
Qed.

#[local] Transparent fire_due vemit spawn.
Lemma fire_fold_weight L : ∀ a, NoDup L.*1 → (∀ id tm, (id, tm) ∈ L → v_theap a !! id = Some tm) →
  (∀ tid, v_next a ≤ tid → v_thr a !! tid = None) →
  weight (fold_left (λ s '(id, tm),
               match tm_st tm with
               | TArmed d => if (d <=? v_now s)%Z
                             then vemit (SvFired id) (spawn (SExpire id) VCbUnlock (s <| v_theap := <[id := tm <| tm_st := TFired |>]> (v_theap s) |>))
                             else s
               | _ => s
               end) L a) ≤ weight a.
Proof.
  induction L as [|[id tm] L IH]; intros a Hnd Hin Hf; [done|]. simpl fold_left.
  apply NoDup_cons in Hnd as [Hid Hnd].
  assert (Hin' : ∀ id' tm', (id', tm') ∈ L → v_theap a !! id' = Some tm') by (intros; apply Hin; by right).
  destruct (tm_st tm) as [d| |] eqn:Hst; try (by apply IH).
  destruct (d <=? v_now a)%Z; [|by apply IH].
  etrans; [apply IH; [done| |]|].
  - intros id' tm' Hi. simpl. destruct (decide (id' = id)) as [->|Hne]; [|rewrite lookup_insert_ne by done; by apply Hin'].
    exfalso. apply Hid. apply elem_of_list_fmap. by exists (id, tm').
  - intros tid Hle. simpl in *. rewrite lookup_insert_ne by lia. apply Hf. lia.
  - unfold weight. simpl. rewrite wnet_cons by done.
    pose proof (wtm_set' (v_theap a) id tm TFired d (Hin id tm (elem_of_list_here _ _)) Hst).
    unfold W_thr. rewrite msum_insert_None by (apply Hf; lia). unfold steps_left at 1. simpl in *. lia.
Qed.

Lemma steps_left_cancel t c : steps_left (t <| st_cancel := c |>) = steps_left t.
Proof. by destruct t. Qed.

Theorem step_weight_bound cfg s it : vreach cfg s → sitem_ok s it → weight (vstep cfg s it) ≤ weight s + item_cost it.
Proof.
  intros Hr Hok. pose proof (SvAll.svinv_reach _ _ Hr) as Inv.
  destruct it as [tid op|tid|tid cause|sid|sid|dt|].
  - unfold vstep. rewrite (vi_not_crashed _ _ Inv). destruct (client_op op && (tid <? sys_base)); [|simpl; lia].
    destruct (v_thr s !! tid) eqn:Ht; [simpl; lia|]. unfold weight, vemit. simpl. rewrite wnet_cons by done.
    unfold W_thr. rewrite msum_insert_None by done. unfold steps_left at 1. simpl. lia.
  - pose proof (run_step_weight_le cfg s tid Hr). simpl. lia.
  - unfold vstep. rewrite (vi_not_crashed _ _ Inv). destruct (v_thr s !! tid) as [t|] eqn:Ht; [|simpl; lia].
    case_match; [|simpl; lia]. unfold weight. simpl.
    pose proof (msum_insert_Some steps_left (v_thr s) tid (t <| st_cancel := Some cause |>) t Ht) as E.
    rewrite steps_left_cancel in E. unfold W_thr. lia.
  - unfold vstep. rewrite (vi_not_crashed _ _ Inv). unfold weight, vemit. simpl.
    assert (W_net (SvConnect sid :: v_trace s) ≤ W_net (v_trace s) + 3) by (unfold W_net; pose proof (open_sids_connect sid (v_trace s)); lia).
    destruct (v_sess s !! sid) eqn:Es; simpl; [lia|]. unfold W_sess. rewrite msum_insert_None by done. unfold sess_w at 1. simpl. lia.
  - unfold vstep. rewrite (vi_not_crashed _ _ Inv). destruct Hok as [Hc He]. unfold weight, vemit, spawn. simpl.
    assert (W_net (SvConnEnd sid :: v_trace s) + 3 ≤ W_net (v_trace s)) by (unfold W_net; pose proof (open_sids_connend sid (v_trace s) Hc He); lia).
    unfold W_thr. rewrite msum_insert_None by (apply (inv_fresh_fmap _ _ _ Inv); lia). rewrite msum_fmap.
    unfold steps_left at 1. simpl.
    assert (msum (steps_left ∘ _) (v_thr s) = msum steps_left (v_thr s)) as ->; [|lia].
    apply msum_ext. intros t. simpl. case_match; [apply steps_left_cancel|done].
  - unfold vstep. rewrite (vi_not_crashed _ _ Inv). unfold fire_due. simpl.
    etrans; [apply fire_fold_weight|].
    + apply NoDup_fst_map_to_list.
    + intros id tm Hin. by apply elem_of_map_to_list in Hin.
    + simpl. apply (inv_fresh _ _ Inv).
    + unfold weight. simpl. lia.
  - unfold vstep. rewrite (vi_not_crashed _ _ Inv). unfold weight, vemit, spawn. simpl.
    unfold W_net. rewrite open_sids_netq by done. unfold W_thr. rewrite msum_insert_None by (apply (inv_fresh _ _ Inv); lia).
    unfold steps_left at 1. simpl. lia.
Qed.

(** ** (5) non-vacuity: a parked Lock, a leased hold, a session end in progress, the closer just started *)
Local Open Scope Z_scope.
Definition live_sched (k : nat) : list sitem :=
  [ VConnect (bs 1); VConnect (bs 2); VConnect (bs 3); VConnect (bs 4);
    VCall 0 (STry (bs 1) (bs 10) (bs 21) 1 (Some 30)); VRun 0; VRun 0; VRun 0;      (* session 1 holds lock 10 under a 30 s lease *)
    VCall 1 (SLock (bs 2) (bs 10) (bs 22) 1 None); VRun 1;                          (* session 2's Lock on it is parked *)
    VCall 2 (STry (bs 3) (bs 11) (bs 23) 1 None); VRun 2; VRun 2;                    (* session 3 holds lock 11; session 4 is idle *)
    VConnEnd (bs 3) ] ++ replicate k (VRun 1000) ++                                  (* its connection ends: DestroySession under way *)
  [ VSignal ].                                                                       (* SIGTERM: the closer (1001) has just started *)
Definition live_clear : svcfg := SvCfg false true.
Definition live_noclear : svcfg := SvCfg true true.
Local Open Scope nat_scope.

Example C11_terminates_example :
  let s := vrun live_clear (live_sched 2) in
  vreach live_clear s ∧ closer_present s ∧
  v_thr s !! 1 = Some (SThread (SLock (bs 2) (bs 10) (bs 22) 1 None) VWait None) ∧
  sv_armed s = [(tkey (bs 10) (bs 21), (30 * second)%Z)] ∧
  v_thr s !! 1000 = Some (SThread (SConnEnd (bs 3)) (VDsTmRemove [Clock (bs 11) (bs 23) 1]) None) ∧
  v_thr s !! 1001 = Some (SThread SShutdown VShFlag None) ∧
  weight s = 29 ∧
  doneb (vexec live_clear s (rr live_clear s 3)) = false ∧
  let s' := vexec live_clear s (rr live_clear s 4) in
  4 ≤ weight s ∧ doneb s' = true ∧
  v_thr s' !! 1 = Some (SThread (SLock (bs 2) (bs 10) (bs 22) 1 None) (VFin (SResp false (Some ECtxCanceled))) (Some ECtxCanceled)) ∧
  v_thr s' !! 1001 = Some (SThread SShutdown VEnd None) ∧
  length (map_to_list (v_thr s')) = 8 ∧ v_mgrshut s' = true ∧ sv_listing s' = [Clock (bs 10) (bs 21) 1] ∧ weight s' = 2.
Proof.
  split; [apply check_vrun; by vm_compute|]. split; [exists 1001, (SThread SShutdown VShFlag None); by vm_compute|].
  split_and!; try by vm_compute. cbv zeta. split_and!; try by vm_compute. vm_compute. lia.
Qed.
(** the same under no-clear-on-disconnect (the session end is at its atomic DestroySessionIfEmpty) *)
Example C11_terminates_example_noclear :
  let s := vrun live_noclear (live_sched 1) in
  vreach live_noclear s ∧ closer_present s ∧
  v_thr s !! 1 = Some (SThread (SLock (bs 2) (bs 10) (bs 22) 1 None) VWait None) ∧
  v_thr s !! 1000 = Some (SThread (SConnEnd (bs 3)) VDsNoClear None) ∧
  v_thr s !! 1001 = Some (SThread SShutdown VShFlag None) ∧
  ∃ n, n ≤ weight s ∧ doneb (vexec live_noclear s (rr live_noclear s n)) = true ∧
       sv_listing (vexec live_noclear s (rr live_noclear s n)) = sv_listing s.
Proof.
  split; [apply check_vrun; by vm_compute|]. split; [exists 1001, (SThread SShutdown VShFlag None); by vm_compute|].
  split; [by vm_compute|]. split; [by vm_compute|]. split; [by vm_compute|].
  exists 4. split; [vm_compute; lia|]. split; by vm_compute.
Qed.
(** a DestroySession goroutine run alone: [ds_bound] of its own steps suffice (the bound is an upper bound: three are taken) *)
Example C06_session_end_terminates_example :
  let s := vrun live_clear (live_sched 1) in
  let t := SThread (SConnEnd (bs 3)) VDsDestroy None in
  vreach live_clear s ∧ v_thr s !! 1000 = Some t ∧ ds_bound s t = 4 ∧
  (∃ t', v_thr (vexec live_clear s (replicate 4 (VRun 1000))) !! 1000 = Some t' ∧ st_pc t' = VEnd) ∧
  v_thr (vexec live_clear s (replicate 2 (VRun 1000))) !! 1000 = Some (SThread (SConnEnd (bs 3)) (VDsUnlock (Clock (bs 11) (bs 23) 1) []) None) ∧
  slive s (bs 11) (bs 23) ∧ ¬ slive (vexec live_clear s (replicate 4 (VRun 1000))) (bs 11) (bs 23).
Proof.
  split; [apply check_vrun; by vm_compute|]. split; [by vm_compute|]. split; [by vm_compute|].
  split; [exists (SThread (SConnEnd (bs 3)) VEnd None); split; [by vm_compute|done]|].
  split; [by vm_compute|].
  split.
  - exists (ALock 1 [bs 23] []). split; [by vm_compute|]. apply elem_of_list_singleton. done.
  - intros (a & Ha & Hk). vm_compute in Ha. injection Ha as <-. by apply elem_of_nil in Hk.
Qed.

Print Assumptions effective_step_decreases.
Print Assumptions effective_step_moves.
Print Assumptions blocked_step_id.
Print Assumptions run_step_weight_le.
Print Assumptions step_weight_bound.
Print Assumptions C11_terminates.
Print Assumptions C06_session_end_terminates.
Print Assumptions C06_session_end_terminates_exact.
Print Assumptions C11_terminates_example.
Print Assumptions C11_terminates_example_noclear.
Print Assumptions C06_session_end_terminates_example.
