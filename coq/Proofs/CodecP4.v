(** Codec proofs, part 4: the model's loop fuel is never exhausted — [Panic WhyFuel]
    is not an outcome of [benc_decode] / [decode] on any input, so no statement about
    the model is true (or false) because of the fuel. *)
From Coq Require Import Lia ZifyBool ZifyNat ZifyN.
From Ldlm Require Import Model.Base Model.Codec Proofs.CodecP1 Proofs.CodecP2 Proofs.CodecP3.

Local Open Scope N_scope.

Definition nofuel {A} (P : A -> Prop) (r : res A) : Prop :=
  match r with
  | Ok a => P a
  | Panic WhyFuel => False
  | _ => True
  end.

Lemma nofuel_bind {A B} (P : A -> Prop) (Q : B -> Prop) (m : res A) (f : A -> res B) :
  nofuel P m -> (forall a, P a -> nofuel Q (f a)) -> nofuel Q (rbind m f).
Proof. destruct m; cbn; auto. Qed.

Lemma nofuel_mono {A} (P Q : A -> Prop) (r : res A) :
  nofuel P r -> (forall a, P a -> Q a) -> nofuel Q r.
Proof. destruct r as [| |[]|]; cbn; auto. Qed.

Lemma safe_nofuel {A} (P : A -> Prop) (r : res A) : safe_res P r -> nofuel P r.
Proof. destruct r as [| |[]|]; cbn; auto. Qed.

Lemma unmarshal_uint_nf b n : nofuel (fun p => n < p.1 <= blen b) (unmarshal_uint b n).
Proof.
  destruct (N.le_gt_cases n (blen b)) as [Hn|Hn].
  - by apply safe_nofuel, unmarshal_uint_safe.
  - by rewrite unmarshal_uint_beyond by lia.
Qed.

Lemma unmarshal_string_nf b n : nofuel (fun p => n < p.1 <= blen b) (unmarshal_string b n).
Proof.
  unfold unmarshal_string.
  eapply nofuel_bind; [apply unmarshal_uint_nf|]. intros [n1 us] H1. cbn [fst] in *.
  destruct (len_minus_lt b n1 (to_int us)); [done|].
  destruct ((to_int us <? 0)%Z || (blen b <? n1 + us)) eqn:E; [done|].
  cbn [nofuel fst]. lia.
Qed.

Lemma unmarshal_int32_nf b n :
  n <= blen b -> nofuel (fun p => p.1 = n + 4 /\ p.1 <= blen b) (unmarshal_int32 b n).
Proof.
  intros Hn. unfold unmarshal_int32, len_minus_lt.
  destruct (Z.of_N (blen b) - Z.of_N n <? 4)%Z eqn:E; [done|].
  destruct (tail_at b n) as [|u0 [|u1 [|u2 [|u3 t]]]]; try done.
  cbn [nofuel fst]. lia.
Qed.

Lemma unmarshal_lock_nf b n : nofuel (fun p => n < p.1 <= blen b) (unmarshal_lock b n).
Proof.
  unfold unmarshal_lock.
  eapply nofuel_bind; [apply unmarshal_string_nf|]. intros [n1 name] H1. cbn [fst] in *.
  eapply nofuel_bind; [apply unmarshal_string_nf|]. intros [n2 key] H2. cbn [fst] in *.
  eapply nofuel_bind; [apply unmarshal_int32_nf; lia|]. intros [n3 size] H3. cbn [fst] in *.
  cbn [nofuel fst]. lia.
Qed.

Lemma unmarshal_locks_loop_nf b f : forall c n,
  n <= blen b -> blen b < n + N.of_nat f ->
  nofuel (fun p => n <= p.1 <= blen b) (unmarshal_locks_loop f b c n).
Proof.
  induction f as [|f IH]; intros c n Hn Hf; cbn [unmarshal_locks_loop]; [lia|].
  destruct (c =? 0); [cbn; lia|].
  eapply nofuel_bind; [apply unmarshal_lock_nf|]. intros [n1 l] H1. cbn [fst] in *.
  eapply nofuel_bind; [apply IH; lia|]. intros [n2 ls] H2. cbn [fst] in *.
  cbn [nofuel fst]. lia.
Qed.

Lemma unmarshal_slice_nf b n :
  nofuel (fun p => n + 5 <= p.1 <= blen b + 4) (unmarshal_slice b n).1.
Proof.
  unfold unmarshal_slice.
  pose proof (unmarshal_uint_nf b n) as Hu.
  destruct (unmarshal_uint b n) as [[n1 us]| |w|]; cbn [nofuel fst rcast] in *; try done.
  destruct ((2 ^ 63 <=? us) || (max_slice_len <? us)); [done|].
  destruct (unbacked us (blen b - n1)); [done|].
  pose proof (unmarshal_locks_loop_nf b (fuel_for b) us n1 ltac:(lia) (fuel_for_spec b n1)) as Hl.
  destruct (unmarshal_locks_loop (fuel_for b) b us n1) as [[n2 ls]| |w|];
    cbn [nofuel fst rcast] in *; try done. lia.
Qed.

Lemma unmarshal_entries_loop_nf b f : forall c n m,
  n <= blen b + 4 -> blen b + 4 < n + 6 * N.of_nat f ->
  nofuel (fun _ => True) (unmarshal_entries_loop f b c n m).1.
Proof.
  induction f as [|f IH]; intros c n m Hn Hf; cbn [unmarshal_entries_loop]; [lia|].
  destruct (c =? 0); [done|].
  pose proof (unmarshal_string_nf b n) as Hk.
  destruct (unmarshal_string b n) as [[n1 k]| |w|]; cbn [nofuel fst rcast] in *; try done.
  pose proof (unmarshal_slice_nf b n1) as Hs.
  destruct (unmarshal_slice b n1) as [[[n2 v]| |w|] a]; cbn [nofuel fst rcast] in *; try done.
  specialize (IH (c - 1) n2 (<[k := v]> m) ltac:(lia) ltac:(lia)).
  by destruct (unmarshal_entries_loop f b (c - 1) n2 (<[k := v]> m)).
Qed.

Lemma unmarshal_map_nf b : nofuel (fun _ => True) (unmarshal_map b).1.
Proof.
  unfold unmarshal_map.
  pose proof (unmarshal_uint_nf b 0) as Hu.
  destruct (unmarshal_uint b 0) as [[n1 us]| |w|]; cbn [nofuel fst rcast] in *; try done.
  destruct (2 ^ 63 <=? us); [done|].
  destruct (unbacked _ _); [done|].
  pose proof (unmarshal_entries_loop_nf b (fuel_for b) us n1 ∅) as Hl.
  assert (Hf := fuel_for_spec b n1).
  specialize (Hl ltac:(lia) ltac:(lia)).
  destruct (unmarshal_entries_loop (fuel_for b) b us n1 ∅) as [[[n2 m]| |w|] a];
    cbn [nofuel fst] in *; done.
Qed.

Theorem benc_decode_fuel b : benc_decode b <> DecPanic WhyFuel.
Proof.
  unfold benc_decode, benc_decode_i.
  pose proof (unmarshal_map_nf b) as H.
  destruct (unmarshal_map b) as [[[n m]| |w|] a]; cbn [nofuel fst] in *; try done.
  - unfold verify_marshal. by destruct (n =? blen b).
  - by destruct w.
Qed.

Theorem decode_fuel b : decode b <> DecPanic WhyFuel.
Proof.
  rewrite decode_eq. destruct (check_encoding b); [done|]. apply benc_decode_fuel.
Qed.

Theorem check_encoding_fuel b : check_encoding_r b <> Panic WhyFuel.
Proof. destruct (check_encoding_r_cases b) as [-> | [e ->]]; done. Qed.
