(** Work package svfile: a reflective checker for [sitem_ok] along a concrete schedule, so that [vreach] of a concrete
    run is discharged by [vm_compute]; the witnesses (finding F-OVER; a call issued after the network stop). *)
From Coq Require Import Lia ZifyBool ZifyNat.
From Ldlm Require Import Model.Base Model.Err Model.Sv Proofs.SvDefs.
From RecordUpdate Require Import RecordSet.
Import RecordSetNotations.
Local Open Scope Z_scope.

#[local] Instance sop_eq_dec : EqDecision sop.
Proof. solve_decision. Defined.
#[local] Instance sev_eq_dec : EqDecision sev.
Proof. solve_decision. Defined.

Definition thr_all (s : svstate) (f : sthread → bool) : bool := forallb (λ '(_, t), f t) (map_to_list (v_thr s)).
Lemma thr_all_sound s f : thr_all s f = true → ∀ tid t, v_thr s !! tid = Some t → f t = true.
Proof.
  unfold thr_all. rewrite forallb_forall. intros H tid t Ht. apply (H (tid, t)). by apply elem_of_list_In, elem_of_map_to_list.
Qed.
Definition has_key (k : str) (t : sthread) : bool := bool_decide (op_key' (st_op t) = Some k).
Definition deliveredb (s : svstate) (k : str) : bool :=
  existsb (λ '(_, t), is_acq (st_op t) && has_key k t && bool_decide (st_pc t = VFin (SResp true None)) &&
                      negb (bool_decide (st_cancel t = Some ECtxCanceled))) (map_to_list (v_thr s)).
Lemma deliveredb_sound s k : deliveredb s k = true → delivered s k.
Proof.
  unfold deliveredb. rewrite existsb_exists. intros ([tid t] & Hin & H). apply elem_of_list_In, elem_of_map_to_list in Hin.
  repeat (apply andb_prop in H as [H ?]). unfold has_key in *. repeat case_bool_decide; try done.
  destruct t as [op pc cn]. simpl in *. destruct op; try done; simplify_eq/=.
  - exists tid. eexists. do 3 eexists. split; [done|]. split; [eexists; by left|]. split; [done|]. simpl. by destruct cn as [[]|].
  - exists tid. eexists. do 3 eexists. split; [done|]. split; [eexists; by right|]. split; [done|]. simpl. by destruct cn as [[]|].
Qed.
Definition presentedb (s : svstate) (k : str) : bool :=
  deliveredb s k || thr_all s (λ t, negb (is_acq (st_op t) && has_key k t)).
Lemma presentedb_sound s k : presentedb s k = true →
  ∀ tid' t', v_thr s !! tid' = Some t' → is_acq (st_op t') = true → op_key' (st_op t') = Some k → delivered s k.
Proof.
  intros H tid' t' Ht Ha Hk. apply orb_prop in H as [H|H]; [by apply deliveredb_sound|].
  apply (thr_all_sound _ _ H) in Ht. unfold has_key in Ht. rewrite Ha, bool_decide_eq_true_2 in Ht; done.
Qed.

Definition net_openb (s : svstate) : bool :=
  thr_all s (λ t, match st_op t with SShutdown => bool_decide (st_pc t = VShFlag) || bool_decide (st_pc t = VShNet) | _ => true end).
Lemma net_openb_sound s : net_openb s = true → net_open s.
Proof.
  intros H tid t Ht Hop. apply (thr_all_sound _ _ H) in Ht. rewrite Hop in Ht. simpl in Ht.
  apply orb_prop in Ht as [Ht|Ht]; apply bool_decide_eq_true in Ht; auto.
Qed.

Definition sitem_okb (s : svstate) (it : sitem) : bool :=
  match it with
  | VCall tid op =>
      match op with
      | STry sid _ k z lt | SLock sid _ k z lt =>
          thr_all s (λ t, negb (has_key k t)) && bool_decide (SvConnect sid ∈ v_trace s) && negb (bool_decide (SvConnEnd sid ∈ v_trace s)) &&
          match lt with Some t => 0 <=? t | None => true end && net_openb s
      | SUnlock _ k => presentedb s k && net_openb s
      | SRenew _ k lt => presentedb s k && (0 <? lt) && net_openb s
      | _ => true
      end
  | VConnect sid => negb (bool_decide (SvConnect sid ∈ v_trace s))
  | VConnEnd sid => bool_decide (SvConnect sid ∈ v_trace s) && negb (bool_decide (SvConnEnd sid ∈ v_trace s))
  | VSignal => negb (bool_decide (SvSignal ∈ v_trace s))
  | VCancel tid cause =>
      bool_decide (cause = ECtxCanceled) ||
      (bool_decide (cause = ESrvLockWaitTimeout) &&
       match v_thr s !! tid with
       | Some t => bool_decide (st_pc t = VMgrLock) || bool_decide (st_pc t = VWait) || bool_decide (st_pc t = VWoken)
       | None => false
       end)
  | VTick _ | VRun _ => true
  end.
Lemma acq_ok s sid k lt :
  thr_all s (λ t, negb (has_key k t)) && bool_decide (SvConnect sid ∈ v_trace s) && negb (bool_decide (SvConnEnd sid ∈ v_trace s)) &&
    match lt with Some t => 0 <=? t | None => true end && net_openb s = true →
  (∀ tid' t', v_thr s !! tid' = Some t' → op_key' (st_op t') ≠ Some k) ∧ ev_in (SvConnect sid) s ∧ ¬ ev_in (SvConnEnd sid) s ∧ (∀ t, lt = Some t → 0 ≤ t) ∧
  net_open s.
Proof.
  intros H. apply andb_prop in H as [H H5]. apply andb_prop in H as [H H4]. apply andb_prop in H as [H H3]. apply andb_prop in H as [H1 H2]. split_and!.
  - intros tid' t' Ht. apply (thr_all_sound _ _ H1) in Ht. unfold has_key in Ht. apply negb_true_iff, bool_decide_eq_false in Ht. done.
  - by apply bool_decide_eq_true in H2.
  - by apply negb_true_iff, bool_decide_eq_false in H3.
  - intros t ->. lia.
  - by apply net_openb_sound.
Qed.
Lemma sitem_okb_sound s it : sitem_okb s it = true → sitem_ok s it.
Proof.
  destruct it as [tid op|tid|tid cause|sid|sid|dt|]; simpl; try done.
  - destruct op; try done.
    + apply acq_ok.
    + apply acq_ok.
    + intros [H ?]%andb_prop. split; [by apply presentedb_sound|by apply net_openb_sound].
    + intros [H ?]%andb_prop. apply andb_prop in H as [H ?]. split_and!; [by apply presentedb_sound|lia|by apply net_openb_sound].
  - (* VCancel: the wait timeout only while the Lock call is inside lockMgr.Lock (sitem_ok, corrected by svinv) *)
    intros H. apply orb_prop in H as [H|H]; [left; by apply bool_decide_eq_true in H|right].
    apply andb_prop in H as [H1 H2]. apply bool_decide_eq_true in H1. split; [done|].
    destruct (v_thr s !! _) as [t|]; [|done]. exists t. split; [done|].
    apply orb_prop in H2 as [H2|H2]; [apply orb_prop in H2 as [H2|H2]|]; apply bool_decide_eq_true in H2; auto.
  - intros H. by apply negb_true_iff, bool_decide_eq_false in H.
  - intros [H1 H2]%andb_prop. split; [by apply bool_decide_eq_true in H1|by apply negb_true_iff, bool_decide_eq_false in H2].
  - intros H. by apply negb_true_iff, bool_decide_eq_false in H.
Qed.

Fixpoint check_run (cfg : svcfg) (s : svstate) (sch : list sitem) : bool :=
  match sch with [] => true | it :: r => sitem_okb s it && check_run cfg (vstep cfg s it) r end.
Lemma check_run_sound cfg sch s : vreach cfg s → check_run cfg s sch = true → vreach cfg (fold_left (vstep cfg) sch s).
Proof.
  revert s. induction sch as [|it r IH]; intros s Hr H; [done|]. simpl in *. apply andb_prop in H as [H1 H2].
  apply IH; [|done]. constructor; [done|by apply sitem_okb_sound].
Qed.
Lemma check_vrun cfg sch : check_run cfg sv_init sch = true → vreach cfg (vrun cfg sch).
Proof. apply check_run_sound. constructor. Qed.

(** ** F-OVER: the image lists two holds of a lock of size one *)
Definition bs (n : nat) : str := [byte_of_nat n].
Definition over_cfg : svcfg := SvCfg false true.
Definition over_sched : list sitem :=
  [ VConnect (bs 1); VConnect (bs 2);
    VCall 0 (STry (bs 1) (bs 10) (bs 21) 1 None); VRun 0; VRun 0;           (* s1 holds the lock; granted and delivered *)
    VCall 1 (SUnlock (bs 10) (bs 21)); VRun 1; VRun 1;                      (* its Unlock: timer removed, unit released; entry still listed *)
    VCall 2 (STry (bs 2) (bs 10) (bs 22) 1 None); VRun 2; VRun 2 ].         (* s2 takes the free unit and is persisted *)
Theorem C09_over_refuted : T_C09_over_refuted.
Proof.
  exists over_cfg, (vrun over_cfg over_sched), (bs 10), (ALock 1 [bs 22] []).
  split; [apply check_vrun; by vm_compute|]. split; by vm_compute.
Qed.
