(** Work package svfile, part 1: the fields a helper operation of Msv changes; the folds ([fire_due], the network stop);
    how one schedule item changes threads, sessions, file, trace, lock table and timer heap. *)
From Coq Require Import Lia ZifyBool ZifyNat.
From Ldlm Require Import Model.Base Model.Err Model.Sv Proofs.SvDefs Proofs.SvFileFrames.
From RecordUpdate Require Import RecordSet.
Import RecordSetNotations.
Local Open Scope Z_scope.

(** ** the ghost trace only grows *)
Definition noce (e : sev) : Prop := True.
Definition tr_ext (s s' : svstate) : Prop := ∃ l, v_trace s' = l ++ v_trace s ∧ Forall noce l.
Lemma tr_ext_refl s : tr_ext s s.
Proof. by exists []. Qed.
Lemma tr_ext_trans s1 s2 s3 : tr_ext s1 s2 → tr_ext s2 s3 → tr_ext s1 s3.
Proof. intros (l1 & E1 & F1) (l2 & E2 & F2). exists (l2 ++ l1). rewrite E2, E1, app_assoc. split; [done|by apply Forall_app]. Qed.
Lemma tr_ext_frame s0 s s' : v_trace s' = v_trace s → tr_ext s0 s → tr_ext s0 s'.
Proof. intros E (l & E1 & F). exists l. by rewrite E. Qed.
Lemma tr_ext_vemit e s0 s : noce e → tr_ext s0 s → tr_ext s0 (vemit e s).
Proof. intros He (l & E1 & F). exists (e :: l). simpl. rewrite E1. split; [done|by constructor]. Qed.
Lemma tr_ext_hand_over n s0 s : tr_ext s0 s → tr_ext s0 (hand_over n s).
Proof.
  intros H. unfold hand_over. repeat case_match; try done.
  apply tr_ext_vemit; [done|]. eapply tr_ext_frame; [|exact H]. by rewrite fr_vset_pc_trace.
Qed.
Lemma tr_ext_mgr_unlock tid n k s0 s : tr_ext s0 s → tr_ext s0 (mgr_unlock tid n k s).1.
Proof.
  intros H. unfold mgr_unlock. repeat case_match; try done. simpl.
  apply tr_ext_hand_over, tr_ext_vemit; [done|]. eapply tr_ext_frame; [|exact H]. done.
Qed.
Lemma tr_ext_sess_add cfg tid sid c s0 s : tr_ext s0 s → tr_ext s0 (sess_add cfg tid sid c s).
Proof. intros H. unfold sess_add. apply tr_ext_vemit; [done|]. eapply tr_ext_frame; [|exact H]. by rewrite fr_vsave_trace. Qed.
Lemma tr_ext_sess_remove cfg tid n k s0 s : tr_ext s0 s → tr_ext s0 (sess_remove cfg tid n k s).
Proof. intros H. unfold sess_remove. apply tr_ext_vemit; [done|]. eapply tr_ext_frame; [|exact H]. case_match; by rewrite ?fr_vsave_trace. Qed.
Lemma tr_ext_sess_destroy cfg tid sid s0 s : tr_ext s0 s → tr_ext s0 (sess_destroy cfg tid sid s).1.
Proof. intros H. unfold sess_destroy. case_match; [|done]. apply tr_ext_vemit; [done|]. eapply tr_ext_frame; [|exact H]. by rewrite fr_vsave_trace. Qed.
Lemma tr_ext_mono s s' e : tr_ext s s' → e ∈ v_trace s → e ∈ v_trace s'.
Proof. intros (l & -> & _) ?. apply elem_of_app. by right. Qed.

(** ** threads *)
Definition setpc (pc : spc) (t : sthread) : sthread := t <| st_pc := pc |>.
Lemma alter_lookup_insert {A} (m : gmap nat A) i x f : m !! i = Some x → <[i := f x]> m = alter f i m.
Proof.
  intros H. apply map_eq. intros j. destruct (decide (j = i)) as [->|].
  - by rewrite lookup_insert, lookup_alter, H.
  - by rewrite lookup_insert_ne, lookup_alter_ne.
Qed.
Lemma alter_lookup_None {A} (m : gmap nat A) i f : m !! i = None → alter f i m = m.
Proof.
  intros H. apply map_eq. intros j. destruct (decide (j = i)) as [->|].
  - by rewrite lookup_alter, H.
  - by rewrite lookup_alter_ne.
Qed.
Lemma thr_vset_pc tid pc s : v_thr (vset_pc tid pc s) = alter (setpc pc) tid (v_thr s).
Proof.
  unfold vset_pc. destruct (v_thr s !! tid) eqn:E; simpl.
  - by apply alter_lookup_insert.
  - by rewrite alter_lookup_None.
Qed.
Lemma thr_spawn op pc s : v_thr (spawn op pc s) = <[v_next s := SThread op pc None]> (v_thr s).
Proof. done. Qed.
Lemma next_spawn op pc s : v_next (spawn op pc s) = S (v_next s).
Proof. done. Qed.
(** a hand-off moves the head of the lock's queue to [VWoken] *)
Definition woke (s : svstate) (n : str) (m' : gmap nat sthread) : Prop :=
  m' = v_thr s ∨ ∃ a w q, v_locks s !! n = Some a ∧ al_q a = w :: q ∧ m' = alter (setpc VWoken) w (v_thr s).
Lemma thr_hand_over n s : woke s n (v_thr (hand_over n s)).
Proof.
  unfold hand_over, woke. repeat case_match; auto. right. do 3 eexists. split; [done|]. split; [done|].
  rewrite fr_vemit_thr, thr_vset_pc. done.
Qed.
Lemma thr_mgr_unlock tid n k s : woke s n (v_thr (mgr_unlock tid n k s).1).
Proof.
  unfold mgr_unlock. repeat case_match; try by left. simpl.
  match goal with |- woke _ _ (v_thr (hand_over _ ?s1)) => destruct (thr_hand_over n s1) as [E|(a' & w & q & E1 & E2 & E3)] end.
  - left. rewrite E. done.
  - right. simpl in E1. rewrite lookup_insert in E1. simplify_eq. simpl in *. eauto 10.
Qed.

(** ** the lock table only grows *)
Definition lk_dom (s s' : svstate) : Prop := ∀ n, is_Some (v_locks s !! n) → is_Some (v_locks s' !! n).
Lemma lk_dom_refl s : lk_dom s s.
Proof. by intros n. Qed.
Lemma lk_dom_trans s1 s2 s3 : lk_dom s1 s2 → lk_dom s2 s3 → lk_dom s1 s3.
Proof. intros H1 H2 n ?. eauto. Qed.
Lemma lk_dom_frame s0 s s' : v_locks s' = v_locks s → lk_dom s0 s → lk_dom s0 s'.
Proof. intros E H n ?. rewrite E. eauto. Qed.
Lemma lk_dom_insert s0 s n a : lk_dom s0 s → lk_dom s0 (s <| v_locks := <[n := a]> (v_locks s) |>).
Proof. intros H n' ?. simpl. destruct (decide (n' = n)) as [->|]; [by rewrite lookup_insert|rewrite lookup_insert_ne by done; eauto]. Qed.
Lemma lk_dom_hand_over n s0 s : lk_dom s0 s → lk_dom s0 (hand_over n s).
Proof.
  intros H. unfold hand_over. repeat case_match; try done.
  eapply lk_dom_frame; [by rewrite fr_vemit_locks, fr_vset_pc_locks|]. by apply lk_dom_insert.
Qed.
Lemma lk_dom_mgr_unlock tid n k s0 s : lk_dom s0 s → lk_dom s0 (mgr_unlock tid n k s).1.
Proof.
  intros H. unfold mgr_unlock. repeat case_match; try done. simpl.
  apply lk_dom_hand_over. eapply lk_dom_frame; [by rewrite fr_vemit_locks|]. by apply lk_dom_insert.
Qed.

(** ** the timer heap keeps every timer's name, key and session *)
Definition tm_same (tm tm' : stimer) : Prop := tm_n tm' = tm_n tm ∧ tm_k tm' = tm_k tm ∧ tm_s tm' = tm_s tm.
Definition hp_ext (s s' : svstate) : Prop := ∀ id tm, v_theap s !! id = Some tm → ∃ tm', v_theap s' !! id = Some tm' ∧ tm_same tm tm'.
Lemma hp_ext_refl s : hp_ext s s.
Proof. intros id tm ?. by exists tm. Qed.
Lemma hp_ext_trans s1 s2 s3 : hp_ext s1 s2 → hp_ext s2 s3 → hp_ext s1 s3.
Proof. intros H1 H2 id tm E. destruct (H1 _ _ E) as (tm1 & E1 & ? & ? & ?). destruct (H2 _ _ E1) as (tm2 & E2 & ? & ? & ?). exists tm2. unfold tm_same. split; [done|]. split_and!; congruence. Qed.
Lemma hp_ext_frame s0 s s' : v_theap s' = v_theap s → hp_ext s0 s → hp_ext s0 s'.
Proof. intros E H id tm ?. rewrite E. eauto. Qed.
Lemma hp_ext_tm_add n k sid d s : (∀ id tm, v_theap s !! id = Some tm → (id < v_tnext s)%nat) → hp_ext s (tm_add n k sid d s).
Proof.
  intros Hf id tm E. unfold tm_add. case_match; [by exists tm|]. simpl. exists tm. split; [|done].
  rewrite lookup_insert_ne; [done|]. apply Hf in E. lia.
Qed.
Lemma hp_ext_tm_remove tk s : hp_ext s (tm_remove tk s).1.
Proof.
  intros id tm E. unfold tm_remove. repeat case_match; simpl; try by exists tm.
  destruct (decide (id = n)) as [->|]; [|rewrite lookup_insert_ne by done; by exists tm].
  rewrite lookup_insert. simplify_eq. eexists. split; [done|]. done.
Qed.
Lemma hp_ext_tm_reset tk d s : hp_ext s (tm_reset tk d s).1.
Proof.
  intros id tm E. unfold tm_reset. repeat case_match; simpl; try by exists tm.
  destruct (decide (id = n)) as [->|]; [|rewrite lookup_insert_ne by done; by exists tm].
  rewrite lookup_insert. simplify_eq. eexists. split; [done|]. done.
Qed.

(** ** sessions and the file, as functions from session ids to lists *)
Definition slist (s : svstate) (sid : str) : list clock := default [] (v_sess s !! sid).
Definition flist (s : svstate) (sid : str) : list clock := default [] (v_file s ≫= λ m, m !! sid).
Lemma entry_of_slist s sid c : entry_of s sid c ↔ c ∈ slist s sid.
Proof.
  unfold entry_of, slist. split.
  - intros (l & -> & H). done.
  - destruct (v_sess s !! sid) as [l|]; simpl; [eauto|]. by intros ?%elem_of_nil.
Qed.
Lemma slist_frame s s' sid : v_sess s' = v_sess s → slist s' sid = slist s sid.
Proof. unfold slist. by intros ->. Qed.
Lemma flist_frame s s' sid : v_file s' = v_file s → flist s' sid = flist s sid.
Proof. unfold flist. by intros ->. Qed.

Lemma sess_sess_add cfg tid sid c s : v_sess (sess_add cfg tid sid c s) = <[sid := slist s sid ++ [c]]> (v_sess s).
Proof. unfold sess_add, vsave. by case_match. Qed.
Lemma file_sess_add cfg tid sid c s : v_file (sess_add cfg tid sid c s) = if sc_file cfg then Some (v_sess (sess_add cfg tid sid c s)) else v_file s.
Proof. unfold sess_add, vsave. by case_match. Qed.
Lemma slist_sess_add cfg tid sid c s sid' :
  slist (sess_add cfg tid sid c s) sid' = if decide (sid' = sid) then slist s sid ++ [c] else slist s sid'.
Proof.
  unfold slist at 1. rewrite sess_sess_add. case_decide as E; [subst; by rewrite lookup_insert|by rewrite lookup_insert_ne].
Qed.
Definition nothold (n k : str) (c : clock) : Prop := is_hold n k c = false.
#[global] Instance nothold_dec n k c : Decision (nothold n k c).
Proof. unfold nothold. apply _. Defined.
Lemma sess_sess_remove cfg tid n k s : v_sess (sess_remove cfg tid n k s) = (λ l, filter (λ c, is_hold n k c = false) l) <$> v_sess s.
Proof. unfold sess_remove, vsave. by repeat case_match. Qed.
Lemma slist_sess_remove cfg tid n k s sid : slist (sess_remove cfg tid n k s) sid = filter (λ c, is_hold n k c = false) (slist s sid).
Proof. unfold slist. rewrite sess_sess_remove, lookup_fmap. by destruct (v_sess s !! sid). Qed.
Definition listed (s : svstate) (n k : str) : bool := existsb (λ '(_, l), existsb (is_hold n k) l) (map_to_list (v_sess s)).
Lemma file_sess_remove cfg tid n k s :
  v_file (sess_remove cfg tid n k s) = if listed s n k && sc_file cfg then Some (v_sess (sess_remove cfg tid n k s)) else v_file s.
Proof. unfold sess_remove, vsave, listed. by repeat case_match. Qed.
Lemma filter_all {A} (P : A → Prop) `{∀ x, Decision (P x)} (l : list A) : Forall P l → filter P l = l.
Proof. induction 1; [done|]. rewrite filter_cons_True by done. by f_equal. Qed.
Lemma listed_false s n k sid : listed s n k = false → filter (λ c, is_hold n k c = false) (slist s sid) = slist s sid.
Proof.
  intros H. unfold slist. destruct (v_sess s !! sid) as [l|] eqn:E; [simpl|done].
  apply filter_all. apply Forall_forall. intros c Hc.
  unfold listed in H. rewrite <-not_true_iff_false, existsb_exists in H.
  destruct (is_hold n k c) eqn:Hh; [|done]. exfalso. apply H. exists (sid, l). split.
  - apply elem_of_list_In. by apply elem_of_map_to_list.
  - apply existsb_exists. exists c. split; [by apply elem_of_list_In|done].
Qed.
Lemma sess_sess_destroy cfg tid sid s : v_sess (sess_destroy cfg tid sid s).1 = delete sid (v_sess s).
Proof. unfold sess_destroy, vsave. repeat case_match; simpl; try done. by rewrite delete_notin. Qed.
Lemma slist_sess_destroy cfg tid sid s sid' : slist (sess_destroy cfg tid sid s).1 sid' = if decide (sid' = sid) then [] else slist s sid'.
Proof. unfold slist. rewrite sess_sess_destroy. case_decide as E; [subst; by rewrite lookup_delete|by rewrite lookup_delete_ne]. Qed.
Lemma file_sess_destroy cfg tid sid s :
  v_file (sess_destroy cfg tid sid s).1 = if bool_decide (is_Some (v_sess s !! sid)) && sc_file cfg then Some (v_sess (sess_destroy cfg tid sid s).1) else v_file s.
Proof.
  unfold sess_destroy, vsave. destruct (v_sess s !! sid) eqn:E; simpl.
  - by case_match.
  - done.
Qed.
Lemma flist_saved s sid : v_file s = Some (v_sess s) → flist s sid = slist s sid.
Proof. unfold flist, slist. by intros ->. Qed.

(** ** folds *)
Lemma fold_left_ind {A B} (P : A → Prop) (f : A → B → A) (l : list B) (a : A) :
  P a → (∀ a x, x ∈ l → P a → P (f a x)) → P (fold_left f l a).
Proof.
  revert a. induction l as [|x l IH]; intros a Ha Hs; [done|]. simpl. apply IH.
  - apply Hs; [left|done].
  - intros a' y Hy. apply Hs. by right.
Qed.

(** goroutines the server starts itself: ids from [v_next] on; the threads below are untouched *)
Definition spawned_only (ok : sop → Prop) (s0 s' : svstate) : Prop :=
  (v_next s0 ≤ v_next s')%nat ∧ (∀ tid, (tid < v_next s0)%nat → v_thr s' !! tid = v_thr s0 !! tid) ∧
  (∀ tid t', (v_next s0 ≤ tid)%nat → v_thr s' !! tid = Some t' → ∃ op, ok op ∧ t' = SThread op (first_pc op) None).
Lemma spawned_only_refl ok s0 s : v_next s = v_next s0 → v_thr s = v_thr s0 → (∀ tid, (v_next s0 ≤ tid)%nat → v_thr s0 !! tid = None) → spawned_only ok s0 s.
Proof. intros E1 E2 Hf. split; [lia|]. split; [by rewrite E2|]. intros tid t' Hle. rewrite E2, Hf by done. done. Qed.
Lemma spawned_only_spawn (ok : sop → Prop) s0 s op : ok op → spawned_only ok s0 s → spawned_only ok s0 (spawn op (first_pc op) s).
Proof.
  intros Hok (H1 & H2 & H3). split; [rewrite next_spawn; lia|]. rewrite thr_spawn. split.
  - intros tid Hlt. rewrite lookup_insert_ne by lia. auto.
  - intros tid t' Hle. destruct (decide (tid = v_next s)) as [->|].
    + rewrite lookup_insert. intros [= <-]. eauto.
    + rewrite lookup_insert_ne by done. by apply H3.
Qed.
Lemma spawned_only_frame ok s0 s s' : v_next s' = v_next s → v_thr s' = v_thr s → spawned_only ok s0 s → spawned_only ok s0 s'.
Proof. intros E1 E2 (H1 & H2 & H3). unfold spawned_only. rewrite E1, E2. done. Qed.

Record fire_spec (s0 s' : svstate) : Prop := {
  fs_sess : v_sess s' = v_sess s0; fs_file : v_file s' = v_file s0; fs_shut : v_shut s' = v_shut s0; fs_locks : v_locks s' = v_locks s0;
  fs_timers : v_timers s' = v_timers s0;
  fs_trace : tr_ext s0 s';
  fs_thr : spawned_only (λ op, ∃ id, op = SExpire id) s0 s';
  fs_heap : hp_ext s0 s' }.
Lemma fire_due_spec s : (∀ tid, (v_next s ≤ tid)%nat → v_thr s !! tid = None) → fire_spec s (fire_due s).
Proof.
  intros Hfresh. unfold fire_due. apply fold_left_ind.
  - split; try done; [apply tr_ext_refl|by apply spawned_only_refl|apply hp_ext_refl].
  - intros a [id tm] Hin [H1 H2 H3 H4 H4' H5 H6 H7]. apply elem_of_map_to_list in Hin. repeat case_match; try done.
    split; try done.
    + apply tr_ext_vemit; [done|]. eapply tr_ext_frame; [|exact H5]. done.
    + match goal with |- spawned_only _ _ (vemit _ (spawn _ _ ?x)) => eapply (spawned_only_frame _ _ (spawn (SExpire id) (first_pc (SExpire id)) x)); [done|done|] end.
      apply spawned_only_spawn; [by eexists|]. eapply spawned_only_frame; [| |exact H6]; done.
    + intros id' tm' E. simpl. destruct (decide (id' = id)) as [->|].
      * rewrite lookup_insert. simplify_eq. eexists. split; [done|]. done.
      * rewrite lookup_insert_ne by done. by apply H7.
Qed.

Record net_spec (s0 s' : svstate) : Prop := {
  ns_sess : v_sess s' = v_sess s0; ns_file : v_file s' = v_file s0; ns_shut : v_shut s' = v_shut s0; ns_locks : v_locks s' = v_locks s0;
  ns_heap : v_theap s' = v_theap s0; ns_trace : tr_ext s0 s'; ns_timers : v_timers s' = v_timers s0;
  ns_thr : spawned_only (λ op, ∃ sid, op = SConnEnd sid) s0 s' }.
Lemma net_fold_spec (l : list str) s :
  (∀ tid, (v_next s ≤ tid)%nat → v_thr s !! tid = None) →
  net_spec s (fold_left (λ s sid, vemit (SvConnEnd sid) (spawn (SConnEnd sid) VDsFlag s)) l s).
Proof.
  intros Hfresh. apply fold_left_ind.
  - split; try done; [apply tr_ext_refl|by apply spawned_only_refl].
  - intros a sid _ [H1 H2 H3 H4 H5 H6 H6' H7]. split; try done.
    + apply tr_ext_vemit; [done|]. eapply tr_ext_frame; [|exact H6]. done.
    + eapply (spawned_only_frame _ _ (spawn (SConnEnd sid) (first_pc (SConnEnd sid)) a)); [done|done|].
      apply (spawned_only_spawn _ _ _ (SConnEnd sid)); [by eexists|done].
Qed.
